(* C16 — proofs about call flags: shrinking along call chains, the table obligations over the GENERATED tables,
   and the effect machine. *)
From NG Require Import Common.Tactics Auth.TableTypes Auth.Classify Auth.Flags.
From NG Require Import gen.Interops gen.NativeMethods.
Open Scope N_scope.
Open Scope list_scope.

(* ---------- bits ---------- *)
Lemma has_spec f r : has f r = true <-> (forall n, N.testbit r n = true -> N.testbit f n = true).
Proof.
  unfold has. rewrite N.eqb_eq. split.
  - intros H n Hr. rewrite <- H in Hr. rewrite N.land_spec in Hr. apply andb_true_iff in Hr. tauto.
  - intros H. apply N.bits_inj. intros n. rewrite N.land_spec.
    destruct (N.testbit r n) eqn:Hr; [rewrite (H n Hr); reflexivity | apply andb_false_r].
Qed.

Lemma subflags_refl f : subflags f f = true.
Proof. apply has_spec. auto. Qed.

Lemma subflags_trans a b c : subflags a b = true -> subflags b c = true -> subflags a c = true.
Proof. unfold subflags. rewrite !has_spec. auto. Qed.

Lemma has_mono g f b : subflags g f = true -> has g b = true -> has f b = true.
Proof. unfold subflags. rewrite !has_spec. auto. Qed.

Lemma has_weaken f a b : has a b = true -> has f a = true -> has f b = true.
Proof. rewrite !has_spec. auto. Qed.

Lemma callt_has_call f : has f callt_required = true -> has f AllowCall = true.
Proof. apply has_weaken. reflexivity. Qed.

Lemma callt_has_read f : has f callt_required = true -> has f ReadStates = true.
Proof. apply has_weaken. reflexivity. Qed.

Lemma callback_flags_sub f r : subflags (callback_flags f r) f = true.
Proof.
  apply has_spec. intros n. unfold callback_flags. rewrite N.land_spec. intros H. apply andb_true_iff in H. tauto.
Qed.

Lemma callback_flags_requested f r : subflags (callback_flags f r) r = true.
Proof.
  apply has_spec. intros n. unfold callback_flags. rewrite N.land_spec. intros H. apply andb_true_iff in H. tauto.
Qed.

Lemma callee_flags_sub f r s : subflags (callee_flags f r s) f = true.
Proof.
  apply has_spec. intros n. unfold callee_flags. rewrite N.land_spec. intros H. apply andb_true_iff in H. tauto.
Qed.

Lemma load_flags_sub f r : subflags (load_flags f r) f = true.
Proof.
  apply has_spec. intros n. unfold load_flags. rewrite !N.land_spec. intros H. rewrite !andb_true_iff in H. tauto.
Qed.

Lemma load_flags_readonly f r : has (load_flags f r) WriteStates = false /\ has (load_flags f r) AllowNotify = false.
Proof.
  split; (destruct (has _ _) eqn:H; auto; rewrite has_spec in H);
    [specialize (H 1%N eq_refl) | specialize (H 3%N eq_refl)];
    unfold load_flags in H; rewrite !N.land_spec in H; simpl in H; rewrite andb_false_r in H; discriminate.
Qed.

Lemma load_flags_as_hop f r : load_flags f r = callee_flags f (N.land ReadOnly r) false.
Proof. unfold load_flags, callee_flags. rewrite N.land_assoc. reflexivity. Qed.

Lemma callee_flags_requested f r : subflags (callee_flags f r false) r = true.
Proof.
  apply has_spec. intros n. unfold callee_flags. rewrite N.land_spec. intros H. apply andb_true_iff in H. tauto.
Qed.

(* a safe callee has neither WriteStates nor AllowNotify, whatever was requested and whatever the caller has *)
Lemma safe_drops_bit f r n : N.testbit (N.lor WriteStates AllowNotify) n = true -> N.testbit (callee_flags f r true) n = false.
Proof.
  intros H. unfold callee_flags. rewrite N.land_spec, N.ldiff_spec, H. simpl. rewrite andb_false_r. apply andb_false_r.
Qed.

Lemma safe_drops_write f r : has (callee_flags f r true) WriteStates = false.
Proof.
  destruct (has _ _) eqn:H; auto. rewrite has_spec in H.
  specialize (H 1%N eq_refl). rewrite safe_drops_bit in H; [discriminate | reflexivity].
Qed.

Lemma safe_drops_notify f r : has (callee_flags f r true) AllowNotify = false.
Proof.
  destruct (has _ _) eqn:H; auto. rewrite has_spec in H.
  specialize (H 3%N eq_refl). rewrite safe_drops_bit in H; [discriminate | reflexivity].
Qed.

(* flags only shrink along a call chain, at every point of it *)
Theorem flags_shrink : forall hops f, subflags (chain_flags f hops) f = true.
Proof.
  induction hops as [|[r s] t IH]; intros f; simpl.
  - apply subflags_refl.
  - eapply subflags_trans; [apply IH | apply callee_flags_sub].
Qed.

Lemma chain_flags_app f h1 h2 : chain_flags f (h1 ++ h2) = chain_flags (chain_flags f h1) h2.
Proof. revert f. induction h1 as [|[r s] t IH]; intros f; simpl; auto. Qed.

Theorem flags_shrink_prefix : forall h1 h2 f, subflags (chain_flags f (h1 ++ h2)) (chain_flags f h1) = true.
Proof. intros. rewrite chain_flags_app. apply flags_shrink. Qed.

(* a bit survives a chain only if every hop asked for it and, for WriteStates/AllowNotify, no hop was a safe method *)
Theorem chain_needs_every_hop : forall hops f b,
  has (chain_flags f hops) b = true ->
  has f b = true /\ Forall (fun h => has (fst h) b = true) hops.
Proof.
  induction hops as [|[r s] t IH]; intros f b H; simpl in *.
  - split; auto.
  - apply IH in H. destruct H as [H1 H2]. split.
    + eapply has_mono; [apply callee_flags_sub | exact H1].
    + constructor; auto. simpl. rewrite has_spec in *. intros n Hn. specialize (H1 n Hn).
      unfold callee_flags in H1. rewrite N.land_spec in H1. apply andb_true_iff in H1. destruct H1 as [_ H1].
      destruct s; auto. rewrite N.ldiff_spec in H1. apply andb_true_iff in H1. tauto.
Qed.

Theorem chain_safe_hop_readonly : forall h1 r h2 f,
  has (chain_flags f (h1 ++ (r, true) :: h2)) WriteStates = false /\
  has (chain_flags f (h1 ++ (r, true) :: h2)) AllowNotify = false.
Proof.
  intros. rewrite chain_flags_app. simpl.
  split.
  - destruct (has _ WriteStates) eqn:H; auto.
    pose proof (has_mono _ _ _ (flags_shrink h2 _) H) as H'. rewrite safe_drops_write in H'. discriminate.
  - destruct (has _ AllowNotify) eqn:H; auto.
    pose proof (has_mono _ _ _ (flags_shrink h2 _) H) as H'. rewrite safe_drops_notify in H'. discriminate.
Qed.

(* ---------- the generated tables ---------- *)
Definition sys_ok (e : interop_entry) : bool :=
  implb (is_sys_writer (io_name e)) (has (io_flags e) WriteStates) &&
  implb (is_sys_notifier (io_name e)) (has (io_flags e) AllowNotify) &&
  implb (is_sys_caller (io_name e)) (has (io_flags e) AllowCall).

(* [strict] = the notifier obligation is included.  It holds from hard-fork Faun (6) on: before Echidna (5) the NEO
   candidate/vote methods required only States while emitting CandidateStateChanged/Vote (repaired upstream by the
   Echidna hard-fork), and PolicyContract.blockAccount revokes votes (Vote event) only from Faun on, where it also got
   AllowNotify.  The historic tables are consensus-frozen. *)
Definition native_ok_gen (strict : bool) (e : native_entry) : bool :=
  implb (is_native_writer (nm_contract e) (nm_name e)) (has (nm_flags e) WriteStates) &&
  implb (strict && is_native_notifier (nm_contract e) (nm_name e)) (has (nm_flags e) AllowNotify) &&
  implb (is_native_caller (nm_contract e) (nm_name e)) (has (nm_flags e) AllowCall) &&
  (* interop.ContractMD.AddMethod: a native method is published as safe exactly when it requires neither
     WriteStates nor AllowNotify *)
  Bool.eqb (nm_safe e) (N.land (nm_flags e) (N.lor WriteStates AllowNotify) =? 0).

Lemma interops_ok : forallb sys_ok interops = true.
Proof. vm_compute. reflexivity. Qed.

Definition native_ok := native_ok_gen true.

Lemma natives_ok : forallb native_ok native_methods = true.
Proof. vm_compute. reflexivity. Qed.

Definition faun : N := 6.
Lemma natives_ok_every_hardfork :
  forallb (fun p => forallb (native_ok_gen (faun <=? fst p)) (snd p)) native_methods_by_hf = true.
Proof. vm_compute. reflexivity. Qed.

(* every classified name really occurs in the tables (the obligations above are not vacuous for it) *)
Definition sys_present (n : string) : bool := match find_interop n interops with Some _ => true | None => false end.
Definition native_present (p : string * string) : bool :=
  existsb (fun e => String.eqb (nm_contract e) (fst p) && String.eqb (nm_name e) (snd p)) native_methods.

Lemma classification_present :
  forallb sys_present (sys_writers ++ sys_notifiers ++ sys_callers) = true /\
  forallb native_present (native_writers ++ native_notifiers ++ native_callers ++ native_indirect_callers) = true.
Proof. split; vm_compute; reflexivity. Qed.

Lemma sys_ok_inv e : sys_ok e = true ->
  (is_sys_writer (io_name e) = true -> has (io_flags e) WriteStates = true) /\
  (is_sys_notifier (io_name e) = true -> has (io_flags e) AllowNotify = true) /\
  (is_sys_caller (io_name e) = true -> has (io_flags e) AllowCall = true).
Proof.
  unfold sys_ok. rewrite !andb_true_iff. intros [[H1 H2] H3].
  repeat split; intros H; rewrite H in *; simpl in *; assumption.
Qed.

Lemma native_ok_inv e : native_ok e = true ->
  (is_native_writer (nm_contract e) (nm_name e) = true -> has (nm_flags e) WriteStates = true) /\
  (is_native_notifier (nm_contract e) (nm_name e) = true -> has (nm_flags e) AllowNotify = true) /\
  (is_native_caller (nm_contract e) (nm_name e) = true -> has (nm_flags e) AllowCall = true) /\
  (nm_safe e = true <-> N.land (nm_flags e) (N.lor WriteStates AllowNotify) = 0).
Proof.
  unfold native_ok, native_ok_gen. rewrite !andb_true_iff. intros [[[H1 H2] H3] H4].
  repeat split; try (intros H; rewrite H in *; simpl in *; assumption).
  - intros H. rewrite H in H4. simpl in H4. apply N.eqb_eq. destruct (_ =? 0); auto.
  - intros H. rewrite H in H4. simpl in H4. destruct (nm_safe e); auto.
Qed.

(* bound = the generated table: every system call classified as state-changing / notifying / calling requires the flag *)
Theorem table_sys_writers_need_write : forall e, In e interops -> is_sys_writer (io_name e) = true -> has (io_flags e) WriteStates = true.
Proof. intros e H. apply (proj1 (forallb_forall _ _) interops_ok) in H. apply sys_ok_inv in H. tauto. Qed.
Theorem table_sys_notifiers_need_notify : forall e, In e interops -> is_sys_notifier (io_name e) = true -> has (io_flags e) AllowNotify = true.
Proof. intros e H. apply (proj1 (forallb_forall _ _) interops_ok) in H. apply sys_ok_inv in H. tauto. Qed.
Theorem table_sys_callers_need_call : forall e, In e interops -> is_sys_caller (io_name e) = true -> has (io_flags e) AllowCall = true.
Proof. intros e H. apply (proj1 (forallb_forall _ _) interops_ok) in H. apply sys_ok_inv in H. tauto. Qed.

Lemma native_in_some_hf e hf l : In (hf, l) native_methods_by_hf -> In e l -> native_ok_gen (faun <=? hf) e = true.
Proof.
  intros H1 H2. pose proof (proj1 (forallb_forall _ _) natives_ok_every_hardfork _ H1) as H. simpl in H.
  exact (proj1 (forallb_forall _ _) H _ H2).
Qed.

Lemma native_ok_gen_inv strict e : native_ok_gen strict e = true ->
  (is_native_writer (nm_contract e) (nm_name e) = true -> has (nm_flags e) WriteStates = true) /\
  (strict = true -> is_native_notifier (nm_contract e) (nm_name e) = true -> has (nm_flags e) AllowNotify = true) /\
  (is_native_caller (nm_contract e) (nm_name e) = true -> has (nm_flags e) AllowCall = true) /\
  (nm_safe e = true <-> N.land (nm_flags e) (N.lor WriteStates AllowNotify) = 0).
Proof.
  unfold native_ok_gen. rewrite !andb_true_iff. intros [[[H1 H2] H3] H4].
  repeat split; try (intros H; rewrite H in *; simpl in *; assumption).
  - intros -> H. rewrite H in *. simpl in *. assumption.
  - intros H. rewrite H in H4. simpl in H4. apply N.eqb_eq. destruct (_ =? 0); auto.
  - intros H. rewrite H in H4. simpl in H4. destruct (nm_safe e); auto.
Qed.

Theorem table_native_writers_need_write : forall hf l e, In (hf, l) native_methods_by_hf -> In e l ->
  is_native_writer (nm_contract e) (nm_name e) = true -> has (nm_flags e) WriteStates = true.
Proof. intros hf l e H1 H2. pose proof (native_ok_gen_inv _ _ (native_in_some_hf _ _ _ H1 H2)). tauto. Qed.
Theorem table_native_notifiers_need_notify : forall hf l e, In (hf, l) native_methods_by_hf -> In e l -> (faun <=? hf) = true ->
  is_native_notifier (nm_contract e) (nm_name e) = true -> has (nm_flags e) AllowNotify = true.
Proof. intros hf l e H1 H2 H3. pose proof (native_ok_gen_inv _ _ (native_in_some_hf _ _ _ H1 H2)). tauto. Qed.
Theorem table_native_callers_need_call : forall hf l e, In (hf, l) native_methods_by_hf -> In e l ->
  is_native_caller (nm_contract e) (nm_name e) = true -> has (nm_flags e) AllowCall = true.
Proof. intros hf l e H1 H2. pose proof (native_ok_gen_inv _ _ (native_in_some_hf _ _ _ H1 H2)). tauto. Qed.
Theorem table_native_safe_iff : forall hf l e, In (hf, l) native_methods_by_hf -> In e l ->
  (nm_safe e = true <-> N.land (nm_flags e) (N.lor WriteStates AllowNotify) = 0).
Proof. intros hf l e H1 H2. pose proof (native_ok_gen_inv _ _ (native_in_some_hf _ _ _ H1 H2)). tauto. Qed.

Lemma latest_in_by_hf : In (latest_hardfork, native_methods) native_methods_by_hf.
Proof. unfold native_methods_by_hf. repeat (first [left; reflexivity | right]). Qed.

(* F39: the full statement for callers, including the indirect ones, does NOT hold of the current tables *)
Definition native_all_callers_need_call_statement : Prop :=
  forall e, In e native_methods ->
    (is_native_caller (nm_contract e) (nm_name e) || is_native_indirect_caller (nm_contract e) (nm_name e)) = true ->
    has (nm_flags e) AllowCall = true.

Lemma native_all_callers_refuted : ~ native_all_callers_need_call_statement.
Proof.
  intros H.
  assert (exists e, In e native_methods /\ nm_contract e = "NeoToken"%string /\ nm_name e = "vote"%string /\
                    has (nm_flags e) AllowCall = false) as [e [Hin [Hc [Hm Hf]]]].
  { destruct (find (fun e => String.eqb (nm_contract e) "NeoToken" && String.eqb (nm_name e) "vote" &&
                             negb (has (nm_flags e) AllowCall)) native_methods) as [e|] eqn:F.
    - apply find_some in F. destruct F as [Hin F]. rewrite !andb_true_iff in F. destruct F as [[F1 F2] F3].
      exists e. repeat split; auto; try (apply String.eqb_eq; assumption). apply negb_true_iff; assumption.
    - vm_compute in F. discriminate. }
  specialize (H e Hin). rewrite Hc, Hm in H. rewrite Hf in H. specialize (H eq_refl). discriminate.
Qed.

(* ---------- the fee whitelist selects the fee, never the flag condition ---------- *)
Theorem whitelist_affects_fee_only : forall required current wl wl' fee,
  gate_runs (native_call_gate required current wl fee) = gate_runs (native_call_gate required current wl' fee) /\
  (gate_runs (native_call_gate required current wl fee) = true <-> has current required = true).
Proof.
  intros. unfold native_call_gate. destruct (has current required); simpl; split; auto; split; auto; discriminate.
Qed.

Definition nested_gate_statement : Prop :=
  forall required current wl fee,
    gate_runs (native_call_gate_nested required current wl fee) = true -> has current required = true.

Theorem nested_gate_refuted : ~ nested_gate_statement.
Proof. intros H. specialize (H AllFlags 0 (Some 0) 0 eq_refl). vm_compute in H. discriminate. Qed.

(* ---------- the effect machine ---------- *)
Lemma find_interop_some name l e : find_interop name l = Some e -> In e l /\ io_name e = name.
Proof.
  induction l as [|x t IH]; simpl; [discriminate|].
  destruct (String.eqb (io_name x) name) eqn:E.
  - intros H; inv H. split; auto. apply String.eqb_eq; auto.
  - intros H. apply IH in H. tauto.
Qed.

Lemma find_native_some c m a l e : find_native c m a l = Some e -> In e l /\ nm_contract e = c /\ nm_name e = m /\ nm_arity e = a.
Proof.
  induction l as [|x t IH]; simpl; [discriminate|].
  destruct (native_key_eqb x c m a) eqn:E.
  - intros H; inv H. unfold native_key_eqb in E. rewrite !andb_true_iff in E. destruct E as [[E1 E2] E3].
    apply String.eqb_eq in E1. apply String.eqb_eq in E2. apply N.eqb_eq in E3. auto.
  - intros H. apply IH in H. tauto.
Qed.

Section instr_induction.
  Variable P : instr -> Prop.
  Hypothesis Hsys : forall n, P (ISys n).
  Hypothesis Hnat : forall c m a r, P (INative c m a r).
  Hypothesis Hcall : forall r s body, Forall P body -> P (ICall r s body).
  Hypothesis Hcallt : forall r s body, Forall P body -> P (ICallT r s body).
  Hypothesis Hcb : forall g r body, Forall P body -> P (ICallback g r body).
  Hypothesis Hload : forall r body, Forall P body -> P (ILoad r body).
  Fixpoint instr_ind2 (i : instr) : P i :=
    match i with
    | ISys n => Hsys n
    | INative c m a r => Hnat c m a r
    | ICall r s body => Hcall r s body ((fix go (l : list instr) : Forall P l :=
                           match l with [] => Forall_nil P | x :: t => Forall_cons x (instr_ind2 x) (go t) end) body)
    | ICallT r s body => Hcallt r s body ((fix go (l : list instr) : Forall P l :=
                           match l with [] => Forall_nil P | x :: t => Forall_cons x (instr_ind2 x) (go t) end) body)
    | ICallback g r body => Hcb g r body ((fix go (l : list instr) : Forall P l :=
                           match l with [] => Forall_nil P | x :: t => Forall_cons x (instr_ind2 x) (go t) end) body)
    | ILoad r body => Hload r body ((fix go (l : list instr) : Forall P l :=
                           match l with [] => Forall_nil P | x :: t => Forall_cons x (instr_ind2 x) (go t) end) body)
    end.
End instr_induction.

(* no call into a method of the F39 class anywhere in the program *)
Fixpoint f39_free (i : instr) : bool :=
  match i with
  | ISys _ => true
  | INative c m _ _ => negb (is_native_indirect_caller c m)
  | ICall _ _ body => forallb f39_free body
  | ICallT _ _ body => forallb f39_free body
  | ICallback gated _ body => gated && forallb f39_free body
  | ILoad _ body => forallb f39_free body
  end.

(* an effect is in order for a run started with flags [f]: it was performed by a frame whose flags [g] are a
   subset of [f] and contain the effect's own flag *)
Definition eff_ok (f : N) (x : effect * N) : Prop :=
  subflags (snd x) f = true /\ has (snd x) (effect_bit (fst x)) = true.

Lemma eff_ok_weaken f' f x : subflags f' f = true -> eff_ok f' x -> eff_ok f x.
Proof. intros H [H1 H2]. split; auto. eapply subflags_trans; eauto. Qed.

Lemma Forall_opt3 {A} (P : A -> Prop) (a b c : bool) x y z :
  (a = true -> P x) -> (b = true -> P y) -> (c = true -> P z) ->
  Forall P ((if a then [x] else []) ++ (if b then [y] else []) ++ (if c then [z] else [])).
Proof. destruct a, b, c; simpl; intros; repeat constructor; auto. Qed.

Section machine_proofs.
  Variable itab : list interop_entry.
  Variable ntab : list native_entry.
  Hypothesis Hitab : forall e, In e itab -> sys_ok e = true.
  Hypothesis Hntab : forall e, In e ntab -> native_ok e = true.

  Lemma sys_step_ok f name tr : sys_step itab f name = Some tr -> Forall (eff_ok f) tr.
  Proof.
    unfold sys_step. destruct (find_interop name itab) as [e|] eqn:F; [|discriminate].
    apply find_interop_some in F. destruct F as [Hin Hn].
    destruct (syscall_gate f e) eqn:G; [|discriminate]. intros H; inv H.
    pose proof (sys_ok_inv _ (Hitab _ Hin)) as [Hw [Hno Hc]].
    unfold syscall_gate in G. unfold sys_effects.
    assert (forall b, has (io_flags e) b = true -> has f b = true) as Hup.
    { intros b Hb. rewrite has_spec in *. intros n Hbn. apply G. apply Hb. exact Hbn. }
    apply Forall_opt3; intros Hc'; (split; [apply subflags_refl | simpl; apply Hup; auto]).
  Qed.

  Lemma run_with_Forall (Q : effect * N -> Prop) ex l :
    Forall (fun i => Forall Q (fst (ex i))) l -> Forall Q (fst (run_with ex l)).
  Proof.
    induction 1 as [|i t Hi Ht IH]; simpl; [constructor|].
    destruct (ex i) as [tr ok] eqn:E. simpl in Hi.
    destruct ok; simpl; auto.
    destruct (run_with ex t) as [tr2 ok2]. simpl in *. apply Forall_app; auto.
  Qed.

  Theorem effects_in_order : forall i f, f39_free i = true -> Forall (eff_ok f) (fst (exec itab ntab f i)).
  Proof.
    induction i as [name | c m a r | r s body IH | r s body IH | gated r body IH | r body IH] using instr_ind2; intros f Hfree; simpl.
    - destruct (sys_step itab f name) eqn:S; simpl; [eapply sys_step_ok; eauto | constructor].
    - destruct (sys_step itab f "System.Contract.Call") as [tr0|] eqn:S; simpl; [|constructor].
      apply sys_step_ok in S.
      destruct (find_native c m a ntab) as [e|] eqn:F; simpl; [|constructor].
      apply find_native_some in F. destruct F as [Hin [Hc [Hm Ha]]].
      destruct (native_gate _ e) eqn:G; simpl; auto.
      apply Forall_app; split; auto.
      pose proof (native_ok_inv _ (Hntab _ Hin)) as [Hw [Hno [Hca _]]]. rewrite Hc, Hm in *.
      simpl in Hfree. apply negb_true_iff in Hfree. unfold native_effects. rewrite Hfree, orb_false_r.
      unfold native_gate in G.
      set (f' := callee_flags f r (nm_safe e)) in *.
      assert (forall b, has (nm_flags e) b = true -> has f' b = true) as Hup.
      { intros b Hb. rewrite has_spec in *. intros n Hbn. apply G. apply Hb. exact Hbn. }
      apply Forall_opt3; intros Hc'; (split; [apply callee_flags_sub | simpl; apply Hup; auto]).
    - destruct (sys_step itab f "System.Contract.Call") as [tr0|] eqn:S; simpl; [|constructor].
      apply sys_step_ok in S.
      destruct (run_with _ body) as [tr ok] eqn:R. simpl. apply Forall_app; split; auto.
      change tr with (fst (tr, ok)). rewrite <- R. apply run_with_Forall.
      simpl in Hfree. rewrite forallb_forall in Hfree. rewrite Forall_forall in *. intros x Hx.
      specialize (IH x Hx (callee_flags f r s) (Hfree x Hx)). rewrite Forall_forall in *.
      intros y Hy. eapply eff_ok_weaken; [apply callee_flags_sub | apply IH; auto].
    - destruct (has f callt_required) eqn:G; simpl; [|constructor].
      destruct (run_with _ body) as [tr ok] eqn:R. simpl. constructor.
      { split; [apply subflags_refl | simpl; apply callt_has_call; auto]. }
      change tr with (fst (tr, ok)). rewrite <- R. apply run_with_Forall.
      simpl in Hfree. rewrite forallb_forall in Hfree. rewrite Forall_forall in *. intros x Hx.
      specialize (IH x Hx (callee_flags f r s) (Hfree x Hx)). rewrite Forall_forall in *.
      intros y Hy. eapply eff_ok_weaken; [apply callee_flags_sub | apply IH; auto].
    - simpl in Hfree. apply andb_true_iff in Hfree. destruct Hfree as [Hg Hfree]. subst gated. simpl.
      destruct (has f AllowCall) eqn:G; simpl; [|constructor].
      destruct (run_with _ body) as [tr ok] eqn:R. simpl. constructor.
      { split; [apply subflags_refl | simpl; auto]. }
      change tr with (fst (tr, ok)). rewrite <- R. apply run_with_Forall.
      rewrite forallb_forall in Hfree. rewrite Forall_forall in *. intros x Hx.
      specialize (IH x Hx (callback_flags f r) (Hfree x Hx)). rewrite Forall_forall in *.
      intros y Hy. eapply eff_ok_weaken; [apply callback_flags_sub | apply IH; auto].
    - destruct (sys_step itab f "System.Runtime.LoadScript") as [tr0|] eqn:S; simpl; [|constructor].
      apply sys_step_ok in S.
      destruct (run_with _ body) as [tr ok] eqn:R. simpl. apply Forall_app; split; auto.
      change tr with (fst (tr, ok)). rewrite <- R. apply run_with_Forall.
      simpl in Hfree. rewrite forallb_forall in Hfree. rewrite Forall_forall in *. intros x Hx.
      specialize (IH x Hx (load_flags f r) (Hfree x Hx)). rewrite Forall_forall in *.
      intros y Hy. eapply eff_ok_weaken; [apply load_flags_sub | apply IH; auto].
  Qed.

  (* writes and notifications are in order even for programs that use the F39 methods *)
  Definition eff_ok_wn (f : N) (x : effect * N) : Prop :=
    subflags (snd x) f = true /\ (fst x <> ECall -> has (snd x) (effect_bit (fst x)) = true).

  Lemma eff_ok_wn_weaken f' f x : subflags f' f = true -> eff_ok_wn f' x -> eff_ok_wn f x.
  Proof. intros H [H1 H2]. split; auto. eapply subflags_trans; eauto. Qed.

  Lemma eff_ok_is_wn f x : eff_ok f x -> eff_ok_wn f x.
  Proof. intros [H1 H2]. split; auto. Qed.

  Theorem writes_notifies_in_order : forall i f, Forall (eff_ok_wn f) (fst (exec itab ntab f i)).
  Proof.
    induction i as [name | c m a r | r s body IH | r s body IH | gated r body IH | r body IH] using instr_ind2; intros f; simpl.
    - destruct (sys_step itab f name) eqn:S; simpl; [|constructor].
      eapply Forall_impl; [apply eff_ok_is_wn | eapply sys_step_ok; eauto].
    - destruct (sys_step itab f "System.Contract.Call") as [tr0|] eqn:S; simpl; [|constructor].
      apply sys_step_ok in S. apply (Forall_impl _ (eff_ok_is_wn f)) in S.
      destruct (find_native c m a ntab) as [e|] eqn:F; simpl; [|constructor].
      apply find_native_some in F. destruct F as [Hin [Hc [Hm Ha]]].
      destruct (native_gate _ e) eqn:G; simpl; auto.
      apply Forall_app; split; auto.
      pose proof (native_ok_inv _ (Hntab _ Hin)) as [Hw [Hno [Hca _]]]. rewrite Hc, Hm in *.
      unfold native_gate in G. unfold native_effects.
      set (f' := callee_flags f r (nm_safe e)) in *.
      assert (forall b, has (nm_flags e) b = true -> has f' b = true) as Hup.
      { intros b Hb. rewrite has_spec in *. intros n Hbn. apply G. apply Hb. exact Hbn. }
      apply Forall_opt3; intros Hc'; (split; [apply callee_flags_sub | simpl; intros Hne; first [exfalso; apply Hne; reflexivity | apply Hup; auto]]).
    - destruct (sys_step itab f "System.Contract.Call") as [tr0|] eqn:S; simpl; [|constructor].
      apply sys_step_ok in S. apply (Forall_impl _ (eff_ok_is_wn f)) in S.
      destruct (run_with _ body) as [tr ok] eqn:R. simpl. apply Forall_app; split; auto.
      change tr with (fst (tr, ok)). rewrite <- R. apply run_with_Forall.
      rewrite Forall_forall in *. intros x Hx.
      specialize (IH x Hx (callee_flags f r s)). rewrite Forall_forall in *.
      intros y Hy. eapply eff_ok_wn_weaken; [apply callee_flags_sub | apply IH; auto].
    - destruct (has f callt_required) eqn:G; simpl; [|constructor].
      destruct (run_with _ body) as [tr ok] eqn:R. simpl. constructor.
      { split; [apply subflags_refl | simpl; intros Hne; exfalso; apply Hne; reflexivity]. }
      change tr with (fst (tr, ok)). rewrite <- R. apply run_with_Forall.
      rewrite Forall_forall in *. intros x Hx.
      specialize (IH x Hx (callee_flags f r s)). rewrite Forall_forall in *.
      intros y Hy. eapply eff_ok_wn_weaken; [apply callee_flags_sub | apply IH; auto].
    - destruct (gated && negb (has f AllowCall)); simpl; [constructor|].
      destruct (run_with _ body) as [tr ok] eqn:R. simpl. constructor.
      { split; [apply subflags_refl | simpl; intros Hne; exfalso; apply Hne; reflexivity]. }
      change tr with (fst (tr, ok)). rewrite <- R. apply run_with_Forall.
      rewrite Forall_forall in *. intros x Hx.
      specialize (IH x Hx (callback_flags f r)). rewrite Forall_forall in *.
      intros y Hy. eapply eff_ok_wn_weaken; [apply callback_flags_sub | apply IH; auto].
    - destruct (sys_step itab f "System.Runtime.LoadScript") as [tr0|] eqn:S; simpl; [|constructor].
      apply sys_step_ok in S. apply (Forall_impl _ (eff_ok_is_wn f)) in S.
      destruct (run_with _ body) as [tr ok] eqn:R. simpl. apply Forall_app; split; auto.
      change tr with (fst (tr, ok)). rewrite <- R. apply run_with_Forall.
      rewrite Forall_forall in *. intros x Hx.
      specialize (IH x Hx (load_flags f r)). rewrite Forall_forall in *.
      intros y Hy. eapply eff_ok_wn_weaken; [apply load_flags_sub | apply IH; auto].
  Qed.

  Lemma has_effect_In e tr : has_effect e tr = true -> exists g, In (e, g) tr.
  Proof.
    unfold has_effect. rewrite existsb_exists. intros [[e' g] [Hin He]]. simpl in He.
    exists g. destruct e, e'; try discriminate; exact Hin.
  Qed.

  Theorem no_write_without_flag : forall i f, has f WriteStates = false -> has_effect EWrite (fst (exec itab ntab f i)) = false.
  Proof.
    intros i f Hf. destruct (has_effect _ _) eqn:H; auto. apply has_effect_In in H. destruct H as [g Hin].
    pose proof (writes_notifies_in_order i f) as Hall. rewrite Forall_forall in Hall.
    destruct (Hall _ Hin) as [H1 H2]. simpl in *.
    rewrite (has_mono _ _ _ H1 (H2 ltac:(discriminate))) in Hf. discriminate.
  Qed.

  Theorem no_notify_without_flag : forall i f, has f AllowNotify = false -> has_effect ENotify (fst (exec itab ntab f i)) = false.
  Proof.
    intros i f Hf. destruct (has_effect _ _) eqn:H; auto. apply has_effect_In in H. destruct H as [g Hin].
    pose proof (writes_notifies_in_order i f) as Hall. rewrite Forall_forall in Hall.
    destruct (Hall _ Hin) as [H1 H2]. simpl in *.
    rewrite (has_mono _ _ _ H1 (H2 ltac:(discriminate))) in Hf. discriminate.
  Qed.

  Theorem no_call_without_flag_partial : forall i f, f39_free i = true -> has f AllowCall = false ->
    has_effect ECall (fst (exec itab ntab f i)) = false.
  Proof.
    intros i f Hfree Hf. destruct (has_effect _ _) eqn:H; auto. apply has_effect_In in H. destruct H as [g Hin].
    pose proof (effects_in_order i f Hfree) as Hall. rewrite Forall_forall in Hall.
    destruct (Hall _ Hin) as [H1 H2]. simpl in *.
    rewrite (has_mono _ _ _ H1 H2) in Hf. discriminate.
  Qed.

  (* whatever the caller has and asks for, the body of a method called as safe neither writes nor notifies *)
  Theorem safe_is_readonly : forall f r body,
    let tr := fst (run_with (exec itab ntab (callee_flags f r true)) body) in
    has_effect EWrite tr = false /\ has_effect ENotify tr = false.
  Proof.
    intros f r body tr.
    assert (Forall (eff_ok_wn (callee_flags f r true)) tr) as Hall.
    { apply run_with_Forall. rewrite Forall_forall. intros x _. apply writes_notifies_in_order. }
    rewrite Forall_forall in Hall. split.
    - destruct (has_effect EWrite tr) eqn:H; auto. apply has_effect_In in H. destruct H as [g Hin].
      destruct (Hall _ Hin) as [H1 H2]. simpl in *.
      pose proof (has_mono _ _ _ H1 (H2 ltac:(discriminate))) as H3. rewrite safe_drops_write in H3. discriminate.
    - destruct (has_effect ENotify tr) eqn:H; auto. apply has_effect_In in H. destruct H as [g Hin].
      destruct (Hall _ Hin) as [H1 H2]. simpl in *.
      pose proof (has_mono _ _ _ H1 (H2 ltac:(discriminate))) as H3. rewrite safe_drops_notify in H3. discriminate.
  Qed.

  (* a dynamic script (System.Runtime.LoadScript) neither writes nor notifies, whatever is asked for *)
  Theorem dynamic_script_is_readonly : forall f r body,
    let tr := fst (run_with (exec itab ntab (load_flags f r)) body) in
    has_effect EWrite tr = false /\ has_effect ENotify tr = false.
  Proof.
    intros f r body tr.
    assert (Forall (eff_ok_wn (load_flags f r)) tr) as Hall.
    { apply run_with_Forall. rewrite Forall_forall. intros x _. apply writes_notifies_in_order. }
    rewrite Forall_forall in Hall. destruct (load_flags_readonly f r) as [Hw Hn]. split.
    - destruct (has_effect EWrite tr) eqn:H; auto. apply has_effect_In in H. destruct H as [g Hin].
      destruct (Hall _ Hin) as [H1 H2]. simpl in *.
      pose proof (has_mono _ _ _ H1 (H2 ltac:(discriminate))) as H3. rewrite Hw in H3. discriminate.
    - destruct (has_effect ENotify tr) eqn:H; auto. apply has_effect_In in H. destruct H as [g Hin].
      destruct (Hall _ Hin) as [H1 H2]. simpl in *.
      pose proof (has_mono _ _ _ H1 (H2 ltac:(discriminate))) as H3. rewrite Hn in H3. discriminate.
  Qed.

  (* a native method published as safe has no write / notify effect in the model *)
  Theorem safe_native_is_readonly : forall c m a r f e,
    find_native c m a ntab = Some e -> nm_safe e = true ->
    let tr := fst (exec itab ntab f (INative c m a r)) in
    has_effect EWrite tr = false /\ has_effect ENotify tr = false.
  Proof.
    intros c m a r f e F Hs tr.
    pose proof (writes_notifies_in_order (INative c m a r) f) as Hall. fold tr in Hall.
    assert (forall x, In x tr -> fst x <> ECall -> snd x = callee_flags f r true) as Hfl.
    { subst tr. simpl. destruct (sys_step itab f "System.Contract.Call") as [tr0|] eqn:S; simpl; [|tauto].
      rewrite F. rewrite Hs.
      assert (forall x, In x tr0 -> fst x = ECall) as H0.
      { unfold sys_step in S. destruct (find_interop _ itab); [|discriminate]. destruct (syscall_gate f i); [|discriminate].
        inv S. unfold sys_effects. simpl. intros x [<-|[]]. reflexivity. }
      destruct (native_gate _ e); simpl.
      - intros x Hx Hne. apply in_app_or in Hx. destruct Hx as [Hx|Hx]; [apply H0 in Hx; contradiction|].
        unfold native_effects in Hx. repeat (apply in_app_or in Hx; destruct Hx as [Hx|Hx]);
          match type of Hx with In _ (if ?c then _ else _) => destruct c end; simpl in Hx; try tauto;
          destruct Hx as [<-|[]]; reflexivity.
      - intros x Hx Hne. apply H0 in Hx. contradiction. }
    rewrite Forall_forall in Hall. split.
    - destruct (has_effect EWrite tr) eqn:H; auto. apply has_effect_In in H. destruct H as [g Hin].
      destruct (Hall _ Hin) as [H1 H2]. simpl in *. specialize (Hfl _ Hin ltac:(simpl; discriminate)). simpl in Hfl.
      specialize (H2 ltac:(discriminate)). rewrite Hfl, safe_drops_write in H2. discriminate.
    - destruct (has_effect ENotify tr) eqn:H; auto. apply has_effect_In in H. destruct H as [g Hin].
      destruct (Hall _ Hin) as [H1 H2]. simpl in *. specialize (Hfl _ Hin ltac:(simpl; discriminate)). simpl in Hfl.
      specialize (H2 ltac:(discriminate)). rewrite Hfl, safe_drops_notify in H2. discriminate.
  Qed.
End machine_proofs.

(* instantiate with the generated tables *)
Lemma itab_now : forall e, In e interops -> sys_ok e = true.
Proof. apply forallb_forall. exact interops_ok. Qed.
Lemma ntab_now : forall e, In e native_methods -> native_ok e = true.
Proof. apply forallb_forall. exact natives_ok. Qed.

Definition no_write_without_flag_now := no_write_without_flag interops native_methods itab_now ntab_now.
Definition no_notify_without_flag_now := no_notify_without_flag interops native_methods itab_now ntab_now.
Definition no_call_without_flag_partial_now := no_call_without_flag_partial interops native_methods itab_now ntab_now.
Definition safe_is_readonly_now := safe_is_readonly interops native_methods itab_now ntab_now.
Definition dynamic_script_is_readonly_now := dynamic_script_is_readonly interops native_methods itab_now ntab_now.
Definition safe_native_is_readonly_now := safe_native_is_readonly interops native_methods itab_now ntab_now.
Definition effects_in_order_now := effects_in_order interops native_methods itab_now ntab_now.

Definition writes_notifies_in_order_now := writes_notifies_in_order interops native_methods itab_now ntab_now.

(* a run started without AllowCall performs no call at all: its own frame cannot pass the gate of System.Contract.Call
   or System.Runtime.LoadScript, so no deeper frame exists (this top-level form holds without the F39 guard) *)
Theorem no_call_without_flag_now : forall i f,
  (forall r body, i <> ICallback false r body) ->
  has f AllowCall = false -> has_effect ECall (fst (exec_now f i)) = false.
Proof.
  assert (forall f name tr, is_sys_caller name = true -> has f AllowCall = false ->
            sys_step interops f name = Some tr -> False) as Hgate.
  { intros f name tr Hc Hf S. unfold sys_step in S.
    destruct (find_interop name interops) as [e|] eqn:F; [|discriminate].
    apply find_interop_some in F. destruct F as [Hin Hn].
    destruct (syscall_gate f e) eqn:G; [|discriminate].
    pose proof (sys_ok_inv _ (itab_now _ Hin)) as [_ [_ Hca]]. rewrite Hn in Hca. specialize (Hca Hc).
    unfold syscall_gate in G. assert (has f AllowCall = true) as H.
    { rewrite has_spec in *. intros n Hn'. apply G. apply Hca. exact Hn'. }
    rewrite H in Hf. discriminate. }
  intros i f Hfree Hf. unfold exec_now. destruct i as [name | c m a r | r s body | r s body | gated r body | r body]; simpl.
  - destruct (sys_step interops f name) as [tr|] eqn:S; simpl; auto.
    destruct (has_effect ECall tr) eqn:H; auto. apply has_effect_In in H. destruct H as [g Hin].
    pose proof (sys_step_ok interops itab_now _ _ _ S) as Hall. rewrite Forall_forall in Hall.
    destruct (Hall _ Hin) as [H1 H2]. simpl in *. rewrite (has_mono _ _ _ H1 H2) in Hf. discriminate.
  - destruct (sys_step interops f "System.Contract.Call") as [tr0|] eqn:S; simpl; auto.
    exfalso. eapply Hgate; eauto. reflexivity.
  - destruct (sys_step interops f "System.Contract.Call") as [tr0|] eqn:S; simpl; auto.
    exfalso. eapply Hgate; eauto. reflexivity.
  - destruct (has f callt_required) eqn:G; simpl; auto.
    apply callt_has_call in G. congruence.
  - destruct gated; [rewrite Hf; reflexivity | exfalso; eapply Hfree; reflexivity].
  - destruct (sys_step interops f "System.Runtime.LoadScript") as [tr0|] eqn:S; simpl; auto.
    exfalso. eapply Hgate; eauto. reflexivity.
Qed.

(* native -> contract callbacks: NO guard.  Whatever the native method and whether or not its frame has AllowCall
   (F39), the callback and everything below it run within the native frame's flags and within what the native asked
   for; every write / notification below it has its bit in those flags. *)
Theorem callback_flags_shrink : forall f gated r body,
  let g := callback_flags f r in
  subflags g f = true /\ subflags g r = true /\
  Forall (eff_ok_wn g) (fst (run_with (exec_now g) body)) /\
  Forall (eff_ok_wn f) (fst (exec_now f (ICallback gated r body))).
Proof.
  intros f gated r body g. repeat split.
  - apply callback_flags_sub.
  - apply callback_flags_requested.
  - apply run_with_Forall. rewrite Forall_forall. intros x _. apply writes_notifies_in_order_now.
  - apply writes_notifies_in_order_now.
Qed.

(* CALLT needs both ReadStates and AllowCall in the executing frame, whatever the token says *)
Theorem callt_requires_both : forall itab ntab f r s body,
  has f ReadStates = false \/ has f AllowCall = false -> exec itab ntab f (ICallT r s body) = ([], false).
Proof.
  intros itab ntab f r s body H. simpl. destruct (has f callt_required) eqn:G; auto.
  destruct H as [H|H]; [apply callt_has_read in G | apply callt_has_call in G]; congruence.
Qed.

(* and the callee of a CALLT runs with  caller's flags & token flags  (minus Write/Notify for a safe method): within both *)
Theorem callt_callee_flags : forall f r s,
  subflags (callee_flags f r s) f = true /\
  (s = false -> subflags (callee_flags f r s) r = true).
Proof. intros f r s. split; [apply callee_flags_sub | intros ->; apply callee_flags_requested]. Qed.

(* F39.  The frame-level statement without the guard — every effect, calls included, is performed by a frame that has
   the effect's flag — is kept visible and is refuted by the model, which gives NeoToken.vote the call it really makes. *)
Definition effects_in_order_statement : Prop :=
  forall i f, Forall (eff_ok f) (fst (exec_now f i)).

Definition f39_witness : instr := INative "NeoToken" "vote" 2 11.

Lemma effects_in_order_refuted : ~ effects_in_order_statement.
Proof.
  intros H. specialize (H f39_witness AllFlags). rewrite Forall_forall in H.
  assert (In (ECall, 11) (fst (exec_now AllFlags f39_witness))) as Hin.
  { vm_compute. right. right. right. left. reflexivity. }
  destruct (H _ Hin) as [_ H2]. vm_compute in H2. discriminate.
Qed.
