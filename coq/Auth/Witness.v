(* C15 — witness scopes and witness rules: pkg/core/interop/runtime/witness.go (CheckHashedWitness, checkScope,
   getContractGroups, scopeContext) and pkg/core/transaction/witness_condition.go (Match for the nine condition kinds).
   Script hashes, accounts and group keys are abstracted to numbers (the code only compares them); 0 is the zero hash.
   Definitions only. *)
From NG Require Import Common.Tactics.
Open Scope N_scope.

(* ---- conditions ---- *)
Inductive cond :=
| CBool (b : bool)                 (* ConditionBoolean *)
| CNot (c : cond)                  (* ConditionNot *)
| CAnd (l : list cond)             (* ConditionAnd *)
| COr (l : list cond)              (* ConditionOr *)
| CScriptHash (h : N)              (* ConditionScriptHash: the executing contract *)
| CGroup (g : N)                   (* ConditionGroup: a group of the executing contract *)
| CCalledByEntry                   (* ConditionCalledByEntry *)
| CCalledByContract (h : N)        (* ConditionCalledByContract: the calling contract *)
| CCalledByGroup (g : N).          (* ConditionCalledByGroup: a group of the calling contract *)

(* ---- the call context a check runs in ---- *)
Record wctx := mk_wctx {
  calling : N;                     (* vm.GetCallingScriptHash(), 0 for the entry script *)
  current : N;                     (* vm.GetCurrentScriptHash() *)
  by_entry : bool;                 (* vm.Context().IsCalledByEntry(): the entry script or one it called directly *)
  read_states : bool;              (* the current context's call flags contain ReadStates *)
  contracts : list (N * list N)    (* deployed contracts: hash -> group keys of the manifest *)
}.

Inductive res := Ok (b : bool) | Err.

Fixpoint assoc (h : N) (l : list (N * list N)) : option (list N) :=
  match l with
  | [] => None
  | (k, v) :: t => if k =? h then Some v else assoc h t
  end.

Definition mem (x : N) (l : list N) : bool := existsb (N.eqb x) l.

(* getContractGroups: error without ReadStates; a missing contract has no groups ("It's OK to not have the contract") *)
Definition contract_groups (x : wctx) (h : N) : option (list N) :=
  if read_states x then Some (match assoc h (contracts x) with Some gs => gs | None => [] end) else None.

(* scopeContext.checkScriptGroups *)
Definition script_has_group (x : wctx) (h g : N) : res :=
  match contract_groups x h with
  | None => Err
  | Some gs => Ok (mem g gs)
  end.

(* WitnessCondition.Match *)
Fixpoint cmatch (x : wctx) (c : cond) : res :=
  match c with
  | CBool b => Ok b
  | CNot c' => match cmatch x c' with Ok b => Ok (negb b) | Err => Err end
  | CAnd l =>
      (fix all (l : list cond) : res :=
         match l with
         | [] => Ok true
         | c' :: t => match cmatch x c' with Err => Err | Ok false => Ok false | Ok true => all t end
         end) l
  | COr l =>
      (fix any (l : list cond) : res :=
         match l with
         | [] => Ok false
         | c' :: t => match cmatch x c' with Err => Err | Ok true => Ok true | Ok false => any t end
         end) l
  | CScriptHash h => Ok (h =? current x)
  | CGroup g => script_has_group x (current x) g
  | CCalledByEntry => Ok (by_entry x)
  | CCalledByContract h => Ok (h =? calling x)
  | CCalledByGroup g => script_has_group x (calling x) g
  end.

(* the two list loops, named *)
Fixpoint match_all (x : wctx) (l : list cond) : res :=
  match l with
  | [] => Ok true
  | c :: t => match cmatch x c with Err => Err | Ok false => Ok false | Ok true => match_all x t end
  end.
Fixpoint match_any (x : wctx) (l : list cond) : res :=
  match l with
  | [] => Ok false
  | c :: t => match cmatch x c with Err => Err | Ok true => Ok true | Ok false => match_any x t end
  end.

(* ---- signers ---- *)
Inductive action := Deny | Allow.
Record rule := mk_rule { r_action : action; r_cond : cond }.

Record signer := mk_signer {
  s_account : N;
  s_scopes : N;                    (* the WitnessScope byte *)
  s_contracts : list N;            (* AllowedContracts *)
  s_groups : list N;               (* AllowedGroups *)
  s_rules : list rule              (* Rules *)
}.

Definition SCalledByEntry : N := 1.
Definition SCustomContracts : N := 16.
Definition SCustomGroups : N := 32.
Definition SRules : N := 64.
Definition SGlobal : N := 128.

Definition scope_has (s bit : N) : bool := negb (N.land s bit =? 0).
Definition is_allow (a : action) : bool := match a with Allow => true | Deny => false end.

(* the loop over c.Rules: the first rule whose condition matches decides *)
Fixpoint eval_rules (x : wctx) (rules : list rule) : res :=
  match rules with
  | [] => Ok false
  | r :: t =>
      match cmatch x (r_cond r) with
      | Err => Err
      | Ok true => Ok (is_allow (r_action r))
      | Ok false => eval_rules x t
      end
  end.

(* the body of checkScope for the signer whose account matched *)
Definition check_signer (x : wctx) (s : signer) : res :=
  if s_scopes s =? SGlobal then Ok true                                            (* c.Scopes == Global *)
  else if scope_has (s_scopes s) SCalledByEntry && by_entry x then Ok true
  else if scope_has (s_scopes s) SCustomContracts && mem (current x) (s_contracts s) then Ok true
  else
    let groups_step :=
      if scope_has (s_scopes s) SCustomGroups then
        match contract_groups x (current x) with
        | None => Err
        | Some gs => Ok (existsb (fun g => mem g gs) (s_groups s))
        end
      else Ok false in
    match groups_step with
    | Err => Err
    | Ok true => Ok true
    | Ok false => if scope_has (s_scopes s) SRules then eval_rules x (s_rules s) else Ok false
    end.

(* the loop over the signers: the FIRST signer with the account decides *)
Fixpoint check_scope_list (x : wctx) (signers : list signer) (h : N) : res :=
  match signers with
  | [] => Ok false
  | s :: t => if s_account s =? h then check_signer x s else check_scope_list x t h
  end.

Definition check_scope (x : wctx) (signers : list signer) (h : N) : res :=
  match signers with
  | [] => Err                                                     (* "no valid signers" *)
  | _ => check_scope_list x signers h
  end.

(* CheckHashedWitness: a contract always witnesses the calls it makes itself *)
Definition check_hashed_witness (x : wctx) (signers : list signer) (h : N) : res :=
  if negb (calling x =? 0) && (h =? calling x) then Ok true else check_scope x signers h.

(* ---- specification: the declarative reading of the property text ---- *)
Definition has_group (x : wctx) (h g : N) : Prop :=
  exists gs, assoc h (contracts x) = Some gs /\ In g gs.

Fixpoint holds (x : wctx) (c : cond) : Prop :=
  match c with
  | CBool b => b = true
  | CNot c' => ~ holds x c'
  | CAnd l => (fix all (l : list cond) : Prop := match l with [] => True | c' :: t => holds x c' /\ all t end) l
  | COr l => (fix any (l : list cond) : Prop := match l with [] => False | c' :: t => holds x c' \/ any t end) l
  | CScriptHash h => h = current x
  | CGroup g => has_group x (current x) g
  | CCalledByEntry => by_entry x = true
  | CCalledByContract h => h = calling x
  | CCalledByGroup g => has_group x (calling x) g
  end.

(* the first rule whose condition holds has action [a] *)
Definition first_matching_rule (x : wctx) (rules : list rule) (a : action) : Prop :=
  exists pre r post, rules = pre ++ r :: post /\
    Forall (fun r' => ~ holds x (r_cond r')) pre /\ holds x (r_cond r) /\ r_action r = a.

Definition signer_allows (x : wctx) (s : signer) : Prop :=
  s_scopes s = SGlobal \/
  (scope_has (s_scopes s) SCalledByEntry = true /\ by_entry x = true) \/
  (scope_has (s_scopes s) SCustomContracts = true /\ In (current x) (s_contracts s)) \/
  (scope_has (s_scopes s) SCustomGroups = true /\ exists g, In g (s_groups s) /\ has_group x (current x) g) \/
  (scope_has (s_scopes s) SRules = true /\ first_matching_rule x (s_rules s) Allow).

(* [s] is the first entry of the signer list for account [h] *)
Definition first_signer (signers : list signer) (h : N) (s : signer) : Prop :=
  exists pre post, signers = pre ++ s :: post /\ s_account s = h /\ Forall (fun s' => s_account s' <> h) pre.

Definition witness_spec (x : wctx) (signers : list signer) (h : N) : Prop :=
  (calling x <> 0 /\ h = calling x) \/
  (exists s, first_signer signers h s /\ signer_allows x s).

(* boolean evaluation of the specification for the harness (total: a group test on an unknown contract is false;
   it does not look at read_states) *)
Definition has_groupb (x : wctx) (h g : N) : bool :=
  match assoc h (contracts x) with Some gs => mem g gs | None => false end.

Fixpoint holdsb (x : wctx) (c : cond) : bool :=
  match c with
  | CBool b => b
  | CNot c' => negb (holdsb x c')
  | CAnd l => (fix all (l : list cond) : bool := match l with [] => true | c' :: t => holdsb x c' && all t end) l
  | COr l => (fix any (l : list cond) : bool := match l with [] => false | c' :: t => holdsb x c' || any t end) l
  | CScriptHash h => h =? current x
  | CGroup g => has_groupb x (current x) g
  | CCalledByEntry => by_entry x
  | CCalledByContract h => h =? calling x
  | CCalledByGroup g => has_groupb x (calling x) g
  end.

Fixpoint first_ruleb (x : wctx) (rules : list rule) : bool :=
  match rules with
  | [] => false
  | r :: t => if holdsb x (r_cond r) then is_allow (r_action r) else first_ruleb x t
  end.

Definition signer_allowsb (x : wctx) (s : signer) : bool :=
  (s_scopes s =? SGlobal) ||
  (scope_has (s_scopes s) SCalledByEntry && by_entry x) ||
  (scope_has (s_scopes s) SCustomContracts && mem (current x) (s_contracts s)) ||
  (scope_has (s_scopes s) SCustomGroups && existsb (fun g => has_groupb x (current x) g) (s_groups s)) ||
  (scope_has (s_scopes s) SRules && first_ruleb x (s_rules s)).

Fixpoint first_signerb (x : wctx) (signers : list signer) (h : N) : bool :=
  match signers with
  | [] => false
  | s :: t => if s_account s =? h then signer_allowsb x s else first_signerb x t h
  end.

Definition witness_specb (x : wctx) (signers : list signer) (h : N) : bool :=
  (negb (calling x =? 0) && (h =? calling x)) || first_signerb x signers h.
