(* C16 — call flags: the four-bit flag sets of pkg/smartcontract/callflag, how they propagate along calls
   (pkg/core/interop/contract/call.go: callInternal / callExFromNative), the two flag gates
   (interop.Context.SyscallHandler for system calls, native.Call for native methods) over the GENERATED tables,
   and a small effect machine on which the "no effect without its flag" corollaries are stated.
   Definitions only (everything here must vm_compute). *)
From NG Require Import Common.Tactics Auth.TableTypes Auth.Classify.
From NG Require gen.Interops gen.NativeMethods.
Open Scope N_scope.
Open Scope list_scope.

(* callflag.CallFlag bits *)
Definition ReadStates : N := 1.
Definition WriteStates : N := 2.
Definition AllowCall : N := 4.
Definition AllowNotify : N := 8.
Definition AllFlags : N := 15.

(* CallFlag.Has: every bit of [req] is set in [f] *)
Definition has (f req : N) : bool := N.land f req =? req.

(* [a] is a subset of [b] *)
Definition subflags (a b : N) : bool := has b a.

(* call.go: a safe method loses WriteStates|AllowNotify from the *requested* flags (callInternal), then the new
   context gets  caller's flags & requested  (callExFromNative). *)
Definition callee_flags (caller requested : N) (safe : bool) : N :=
  N.land caller (if safe then N.ldiff requested (N.lor WriteStates AllowNotify) else requested).

(* runtime.LoadScript: a dynamic script gets  caller's flags & ReadOnly & requested  (ReadOnly = ReadStates|AllowCall) *)
Definition ReadOnly : N := 5.
Definition load_flags (caller requested : N) : N := N.land (N.land caller ReadOnly) requested.

(* one hop of a call chain: the flags the caller asked for, and whether the called method is marked safe *)
Definition hop := (N * bool)%type.

Fixpoint chain_flags (f : N) (hops : list hop) : N :=
  match hops with
  | [] => f
  | (r, s) :: t => chain_flags (callee_flags f r s) t
  end.

(* ---- table lookups ---- *)
Fixpoint find_interop (name : string) (l : list interop_entry) : option interop_entry :=
  match l with
  | [] => None
  | e :: t => if String.eqb (io_name e) name then Some e else find_interop name t
  end.

Definition native_key_eqb (e : native_entry) (c m : string) (a : N) : bool :=
  String.eqb (nm_contract e) c && String.eqb (nm_name e) m && (nm_arity e =? a).

Fixpoint find_native (c m : string) (a : N) (l : list native_entry) : option native_entry :=
  match l with
  | [] => None
  | e :: t => if native_key_eqb e c m a then Some e else find_native c m a t
  end.

(* ---- the two gates ---- *)
(* interop.Context.SyscallHandler: refuse unless the context's flags contain RequiredFlags *)
Definition syscall_gate (f : N) (e : interop_entry) : bool := has f (io_flags e).
(* native.Call: refuse unless the context's flags contain the method's RequiredFlags
   (the pre-Aspidochelone relaxation for Management deploy/update is not modelled: tables and harness use the latest
   hard-fork set) *)
Definition native_gate (f : N) (e : native_entry) : bool := has f (nm_flags e).

(* ---- the native gate as a function of the chain state ----
   native.Call: (1) required flags of the method for the current hard-fork (before Aspidochelone, ContractManagement
   deploy/update are only asked for States|AllowNotify); (2) refuse unless the context's flags contain them; (3) ONLY
   THEN the fee: since Faun a (contract, method offset) entry of the Policy fee whitelist means the fee was already
   charged by System.Contract.Call (callExFromNative) and nothing is charged here; otherwise CPUFee/StorageFee.
   The whitelist state therefore selects a branch AFTER the flag check and must not influence whether the method runs. *)
Inductive gate_outcome := GRefused | GRun (fee_charged_here : N).

Definition gate_runs (o : gate_outcome) : bool := match o with GRun _ => true | GRefused => false end.

(* whitelisted = Some fee (the fixed fee of the whitelist entry, charged elsewhere) / None *)
Definition native_call_gate (required current : N) (whitelisted : option N) (method_fee : N) : gate_outcome :=
  if has current required
  then GRun (match whitelisted with Some _ => 0 | None => method_fee end)
  else GRefused.

(* the defective nesting: flag check only on the branch that charges *)
Definition native_call_gate_nested (required current : N) (whitelisted : option N) (method_fee : N) : gate_outcome :=
  match whitelisted with
  | Some _ => GRun 0
  | None => if has current required then GRun method_fee else GRefused
  end.

(* required flags of a table entry at hard-fork hf (0 = none enabled) *)
Definition native_required_at (hf : N) (e : native_entry) : N :=
  if (hf =? 0) && String.eqb (nm_contract e) "ContractManagement" &&
     (String.eqb (nm_name e) "deploy" || String.eqb (nm_name e) "update")
  then N.land (nm_flags e) (N.lor (N.lor ReadStates WriteStates) AllowNotify)
  else nm_flags e.

Fixpoint table_at (hf : N) (l : list (N * list native_entry)) : list native_entry :=
  match l with
  | [] => []
  | (k, t) :: r => if k =? hf then t else table_at hf r
  end.

(* ---- effect machine ----
   A program is a tree of instructions: a system call of the table, a System.Contract.Call into a native method,
   a System.Contract.Call into a deployed method with a body, a CALLT (method token) into a deployed method with a
   body, or System.Runtime.LoadScript of a body.
   Running it yields the list of effects (each with the flags of the frame that performed it) and whether the run
   completed (false = FAULT at a refused gate / unknown entry). *)
Inductive effect := EWrite | ENotify | ECall.

Definition effect_eqb (a b : effect) : bool :=
  match a, b with EWrite, EWrite | ENotify, ENotify | ECall, ECall => true | _, _ => false end.

Definition effect_bit (e : effect) : N :=
  match e with EWrite => WriteStates | ENotify => AllowNotify | ECall => AllowCall end.

Inductive instr :=
| ISys (name : string)
| INative (contract method : string) (arity requested : N)
| ICall (requested : N) (safe : bool) (body : list instr)
| ICallT (token_flags : N) (safe : bool) (body : list instr)
| ICallback (gated : bool) (requested : N) (body : list instr)
| ILoad (requested : N) (body : list instr).

(* a native method calling a deployed contract back (contract.CallFromNative -> callExFromNative: onNEP17Payment,
   _deploy, the oracle callback): executed by native code running in a frame with flags f.  There is no flag gate in
   CallFromNative itself; [gated] says whether the native method's own RequiredFlags contain AllowCall (transfer,
   deploy, update, withdraw, finish, recoverFund: the frame then always has it) or not (finding F39: vote,
   blockAccount, destroy).  The callback runs with  frame's flags & requested  (natives request All). *)
Definition callback_flags (f requested : N) : N := N.land f requested.

(* the CALLT opcode (contract.LoadToken): no row in the system-call table; the handler itself requires the executing
   context to have BOTH ReadStates and AllowCall, and the callee gets  caller's flags & the token's flags
   (through the same callInternal: a safe callee loses WriteStates|AllowNotify) *)
Definition callt_required : N := N.lor ReadStates AllowCall.

Definition trace := list (effect * N).

Definition sys_effects (name : string) (f : N) : trace :=
  ((if is_sys_writer name then [(EWrite, f)] else []) ++
   (if is_sys_notifier name then [(ENotify, f)] else []) ++
   (if is_sys_caller name then [(ECall, f)] else []))%list.

Definition native_effects (c m : string) (f : N) : trace :=
  ((if is_native_writer c m then [(EWrite, f)] else []) ++
   (if is_native_notifier c m then [(ENotify, f)] else []) ++
   (if is_native_caller c m || is_native_indirect_caller c m then [(ECall, f)] else []))%list.

(* run a list of instructions with the executor [ex], stopping at the first one that does not complete *)
Definition run_with (ex : instr -> trace * bool) : list instr -> trace * bool :=
  fix go (l : list instr) : trace * bool :=
  match l with
  | [] => ([], true)
  | i :: t => let '(tr, ok) := ex i in
              if ok then let '(tr2, ok2) := go t in (tr ++ tr2, ok2) else (tr, false)
  end.

Section Machine.
  Variable itab : list interop_entry.
  Variable ntab : list native_entry.

  (* a gated system call by name: None = unknown system call or refused *)
  Definition sys_step (f : N) (name : string) : option trace :=
    match find_interop name itab with
    | None => None
    | Some e => if syscall_gate f e then Some (sys_effects name f) else None
    end.

  Fixpoint exec (f : N) (i : instr) {struct i} : trace * bool :=
    match i with
    | ISys name =>
        match sys_step f name with Some tr => (tr, true) | None => ([], false) end
    | INative c m a r =>
        match sys_step f "System.Contract.Call" with
        | None => ([], false)
        | Some tr0 =>
            match find_native c m a ntab with
            | None => ([], false)               (* "method not found": refused before any context is created *)
            | Some e =>
                let f' := callee_flags f r (nm_safe e) in
                if native_gate f' e then (tr0 ++ native_effects c m f', true) else (tr0, false)
            end
        end
    | ICall r s body =>
        match sys_step f "System.Contract.Call" with
        | None => ([], false)
        | Some tr0 => let '(tr, ok) := run_with (exec (callee_flags f r s)) body in (tr0 ++ tr, ok)
        end
    | ICallT r s body =>
        if has f callt_required
        then let '(tr, ok) := run_with (exec (callee_flags f r s)) body in ((ECall, f) :: tr, ok)
        else ([], false)
    | ICallback gated r body =>
        if gated && negb (has f AllowCall) then ([], false)
        else let '(tr, ok) := run_with (exec (callback_flags f r)) body in ((ECall, f) :: tr, ok)
    | ILoad r body =>
        match sys_step f "System.Runtime.LoadScript" with
        | None => ([], false)
        | Some tr0 => let '(tr, ok) := run_with (exec (load_flags f r)) body in (tr0 ++ tr, ok)
        end
    end.

  Definition run_list (f : N) (l : list instr) : trace * bool := run_with (exec f) l.
End Machine.

(* the machine over the tables generated from the current source *)
Definition exec_now := exec gen.Interops.interops gen.NativeMethods.native_methods.
Definition run_now := run_list gen.Interops.interops gen.NativeMethods.native_methods.

Definition has_effect (e : effect) (tr : trace) : bool := existsb (fun x => effect_eqb (fst x) e) tr.
