(* C16 — the STORED form of manifest permissions: Permission.ToStackItem / FromStackItem and
   PermissionDesc.ToStackItem / FromStackItem (pkg/smartcontract/manifest/permission.go), through which a restarted
   node (and every contract-state read from the DAO) rebuilds the permissions it enforces.  Stack items are abstracted
   to the shape the code inspects: Null, a byte string of a given length (content = the abstract hash / key number),
   a string, an array, a struct.  Definitions only. *)
From NG Require Import Common.Tactics Auth.Permission.
From Coq Require Import String.
Open Scope N_scope.

Inductive sitem :=
| SNull
| SBytes (len : N) (v : N)       (* ByteArray of [len] bytes denoting the abstract value v *)
| SStr (s : string)              (* ByteArray holding a method name *)
| SArray (l : list sitem)
| SStruct (l : list sitem).

(* PermissionDesc.ToStackItem: wildcard -> Null, hash -> 20 bytes, group -> 33 bytes (compressed key) *)
Definition desc_to_item (d : desc) : sitem :=
  match d with
  | DWild => SNull
  | DHash h => SBytes 20 h
  | DGroup g => SBytes 33 g
  end.

(* PermissionDesc.FromStackItem: Null -> wildcard; a byte string is told apart by its LENGTH *)
Definition desc_from_item (i : sitem) : option desc :=
  match i with
  | SNull => Some DWild
  | SBytes 20 h => Some (DHash h)
  | SBytes 33 g => Some (DGroup g)
  | _ => None
  end.

(* Permission.ToStackItem: methods wildcard -> Null, otherwise the array of names (possibly EMPTY) *)
Definition methods_to_item (ms : methods) : sitem :=
  match ms with
  | MWild => SNull
  | MList l => SArray (map SStr l)
  end.

Fixpoint strs_from_items (l : list sitem) : option (list string) :=
  match l with
  | [] => Some []
  | SStr s :: t => match strs_from_items t with Some r => Some (s :: r) | None => None end
  | _ :: _ => None
  end.

Definition methods_from_item (i : sitem) : option methods :=
  match i with
  | SNull => Some MWild
  | SArray l => match strs_from_items l with Some r => Some (MList r) | None => None end
  | _ => None
  end.

Definition perm_to_item (p : permission) : sitem :=
  SStruct [desc_to_item (p_desc p); methods_to_item (p_methods p)].

Definition perm_from_item (i : sitem) : option permission :=
  match i with
  | SStruct [d; m] =>
      match desc_from_item d, methods_from_item m with
      | Some d', Some m' => Some (mk_perm d' m')
      | _, _ => None
      end
  | _ => None
  end.

(* the Permissions field of Manifest.ToStackItem / FromStackItem *)
Definition perms_to_item (ps : list permission) : sitem := SArray (map perm_to_item ps).

Fixpoint perms_from_items (l : list sitem) : option (list permission) :=
  match l with
  | [] => Some []
  | i :: t => match perm_from_item i, perms_from_items t with
              | Some p, Some r => Some (p :: r)
              | _, _ => None
              end
  end.

Definition perms_from_item (i : sitem) : option (list permission) :=
  match i with SArray l => perms_from_items l | _ => None end.

(* equality of shapes, for the harness *)
Fixpoint sitem_eqb (a b : sitem) : bool :=
  match a, b with
  | SNull, SNull => true
  | SBytes l1 v1, SBytes l2 v2 => (l1 =? l2) && (v1 =? v2)
  | SStr s1, SStr s2 => String.eqb s1 s2
  | SArray l1, SArray l2 | SStruct l1, SStruct l2 =>
      (fix go (x y : list sitem) : bool :=
         match x, y with
         | [], [] => true
         | i :: t, j :: u => sitem_eqb i j && go t u
         | _, _ => false
         end) l1 l2
  | _, _ => false
  end.
