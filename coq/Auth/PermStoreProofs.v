(* C16 — the stored form loses nothing: from_item (to_item p) = p, hence the restarted node allows exactly what the
   deploying node allowed. *)
From NG Require Import Common.Tactics Auth.Permission Auth.PermStore.
From Coq Require Import String.
Open Scope N_scope.

Lemma desc_roundtrip d : desc_from_item (desc_to_item d) = Some d.
Proof. destruct d; reflexivity. Qed.

Lemma strs_roundtrip l : strs_from_items (map SStr l) = Some l.
Proof. induction l as [|s t IH]; simpl; [reflexivity | rewrite IH; reflexivity]. Qed.

Lemma methods_roundtrip ms : methods_from_item (methods_to_item ms) = Some ms.
Proof. destruct ms as [|l]; simpl; [reflexivity | rewrite strs_roundtrip; reflexivity]. Qed.

Theorem perm_roundtrip p : perm_from_item (perm_to_item p) = Some p.
Proof. destruct p as [d m]. unfold perm_to_item, perm_from_item. simpl. rewrite desc_roundtrip, methods_roundtrip. reflexivity. Qed.

Theorem perms_roundtrip ps : perms_from_item (perms_to_item ps) = Some ps.
Proof.
  unfold perms_from_item, perms_to_item. induction ps as [|p t IH]; [reflexivity|].
  cbn [map perms_from_items]. rewrite perm_roundtrip, IH. reflexivity.
Qed.

(* what the stored form allows is what the original allows *)
Theorem stored_allows_same ps ps' c m :
  perms_from_item (perms_to_item ps) = Some ps' -> can_call ps' c m = can_call ps c m.
Proof. rewrite perms_roundtrip. intros H; inv H. reflexivity. Qed.

(* the distinctions the stored form must keep *)
Theorem stored_form_distinguishes :
  methods_to_item MWild <> methods_to_item (MList []) /\
  desc_to_item DWild <> desc_to_item (DHash 0) /\
  (forall h g, desc_to_item (DHash h) <> desc_to_item (DGroup g)).
Proof. repeat split; intros; discriminate. Qed.

Theorem to_item_injective p q : perm_to_item p = perm_to_item q -> p = q.
Proof.
  intros H. assert (Some p = Some q) as E by (rewrite <- !perm_roundtrip, H; reflexivity). inv E. reflexivity.
Qed.
