(* C16 — the hand-written classification of table entries by the effect they can have.  TRUSTED (small, explicit):
   it says which system calls / native methods change contract storage, emit events, or start another contract's
   code.  It is cross-checked on every run by the harness: an effect observed from an entry that is not listed here
   is reported (correspondence code 1/2), and the witnesses that each listed entry really has the effect are counted
   in the evidence.  The theorems of Properties/C16.v say that every listed entry of the GENERATED tables requires the
   corresponding call flag. *)
From Coq Require Import List String Bool.
Import ListNotations.
Open Scope string_scope.

Definition str_in (s : string) (l : list string) : bool := existsb (String.eqb s) l.
Definition pair_in (c m : string) (l : list (string * string)) : bool :=
  existsb (fun p => String.eqb (fst p) c && String.eqb (snd p) m) l.

(* ---- system calls (pkg/core/interops.go) ---- *)
Definition sys_writers : list string :=
  [ "System.Storage.Put"; "System.Storage.Delete"; "System.Storage.Local.Put"; "System.Storage.Local.Delete";
    "System.Contract.NativeOnPersist"; "System.Contract.NativePostPersist" ].
Definition sys_notifiers : list string := [ "System.Runtime.Notify"; "System.Runtime.Log" ].
Definition sys_callers : list string := [ "System.Contract.Call"; "System.Runtime.LoadScript" ].

(* The two block-trigger system calls also emit events (GAS Transfer for fees and rewards, NEO CommitteeChanged)
   while their table entry requires only States.  They are refused under every other trigger and the node loads the
   persist scripts with callflag.All (blockchain.go runPersist), so no frame without AllowNotify can run them; they are
   deliberately NOT in [sys_notifiers] and the harness runs them only with the flags the node uses (and with flag sets
   lacking States, to see the refusal). *)
Definition sys_block_trigger : list string := [ "System.Contract.NativeOnPersist"; "System.Contract.NativePostPersist" ].
Definition is_sys_block_trigger (n : string) := str_in n sys_block_trigger.

Definition is_sys_writer (n : string) := str_in n sys_writers.
Definition is_sys_notifier (n : string) := str_in n sys_notifiers.
Definition is_sys_caller (n : string) := str_in n sys_callers.

(* ---- native methods (contract name, method name; all overloads) ---- *)
Definition native_writers : list (string * string) :=
  [ ("ContractManagement", "deploy"); ("ContractManagement", "update"); ("ContractManagement", "destroy");
    ("ContractManagement", "setMinimumDeploymentFee");
    ("NeoToken", "transfer"); ("NeoToken", "vote"); ("NeoToken", "registerCandidate"); ("NeoToken", "unregisterCandidate");
    ("NeoToken", "onNEP17Payment"); ("NeoToken", "setGasPerBlock"); ("NeoToken", "setRegisterPrice");
    ("GasToken", "transfer");
    ("PolicyContract", "blockAccount"); ("PolicyContract", "unblockAccount"); ("PolicyContract", "recoverFund");
    ("PolicyContract", "setAttributeFee"); ("PolicyContract", "setExecFeeFactor"); ("PolicyContract", "setFeePerByte");
    ("PolicyContract", "setMaxTraceableBlocks"); ("PolicyContract", "setMaxValidUntilBlockIncrement");
    ("PolicyContract", "setMillisecondsPerBlock"); ("PolicyContract", "setStoragePrice");
    ("PolicyContract", "setWhitelistFeeContract"); ("PolicyContract", "removeWhitelistFeeContract");
    ("RoleManagement", "designateAsRole");
    ("OracleContract", "request"); ("OracleContract", "finish"); ("OracleContract", "setPrice");
    ("Notary", "lockDepositUntil"); ("Notary", "withdraw"); ("Notary", "onNEP17Payment");
    ("Notary", "setMaxNotValidBeforeDelta") ].

Definition native_notifiers : list (string * string) :=
  [ ("ContractManagement", "deploy"); ("ContractManagement", "update"); ("ContractManagement", "destroy");
    ("NeoToken", "transfer"); ("NeoToken", "vote"); ("NeoToken", "registerCandidate"); ("NeoToken", "unregisterCandidate");
    ("NeoToken", "onNEP17Payment");
    ("GasToken", "transfer");
    ("PolicyContract", "blockAccount"); ("PolicyContract", "recoverFund"); ("PolicyContract", "setMillisecondsPerBlock");
    ("PolicyContract", "setWhitelistFeeContract"); ("PolicyContract", "removeWhitelistFeeContract");
    ("RoleManagement", "designateAsRole");
    ("OracleContract", "request"); ("OracleContract", "finish") ].

(* methods whose own body starts another contract's code with contract.CallFromNative *)
Definition native_callers : list (string * string) :=
  [ ("ContractManagement", "deploy"); ("ContractManagement", "update");   (* _deploy *)
    ("NeoToken", "transfer"); ("GasToken", "transfer");                   (* onNEP17Payment *)
    ("PolicyContract", "recoverFund");                                    (* balanceOf / transfer of the token *)
    ("OracleContract", "finish");                                         (* the request's callback *)
    ("Notary", "withdraw") ].                                             (* GAS.transfer *)

(* Finding F39: methods that reach GAS MintDeferrable(callOnPayment = true) — the voter contract's onNEP17Payment —
   through NEO.voteInternalUncheckedDeferrable (vote; blockAccount and destroy revoke the account's votes), although
   their RequiredFlags lack AllowCall. *)
Definition native_indirect_callers : list (string * string) :=
  [ ("NeoToken", "vote"); ("PolicyContract", "blockAccount"); ("ContractManagement", "destroy") ].

Definition is_native_writer (c m : string) := pair_in c m native_writers.
Definition is_native_notifier (c m : string) := pair_in c m native_notifiers.
Definition is_native_caller (c m : string) := pair_in c m native_callers.
Definition is_native_indirect_caller (c m : string) := pair_in c m native_indirect_callers.
