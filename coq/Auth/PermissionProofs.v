(* C16 — proofs about manifest permissions. *)
From NG Require Import Common.Tactics Auth.Permission.
From Coq Require Import String.
Open Scope N_scope.

Lemma existsb_Neqb g l : existsb (N.eqb g) l = true <-> In g l.
Proof.
  rewrite existsb_exists. split.
  - intros [x [H1 H2]]. apply N.eqb_eq in H2. subst. exact H1.
  - intros H. exists g. split; auto. apply N.eqb_refl.
Qed.

Lemma existsb_streqb m l : existsb (String.eqb m) l = true <-> In m l.
Proof.
  rewrite existsb_exists. split.
  - intros [x [H1 H2]]. apply String.eqb_eq in H2. subst. exact H1.
  - intros H. exists m. split; auto. apply String.eqb_refl.
Qed.

Lemma methods_contain_iff ms m : methods_contain ms m = true <-> methods_match ms m.
Proof. destruct ms; simpl; [tauto | apply existsb_streqb]. Qed.

Theorem is_allowed_iff p c m :
  is_allowed p c m = true <-> desc_matches (p_desc p) c /\ methods_match (p_methods p) m.
Proof.
  unfold is_allowed. destruct (p_desc p) as [|h|g]; simpl.
  - rewrite methods_contain_iff. tauto.
  - destruct (h =? c_hash c) eqn:E; simpl.
    + apply N.eqb_eq in E. rewrite methods_contain_iff. tauto.
    + apply N.eqb_neq in E. split; [discriminate | tauto].
  - destruct (existsb (N.eqb g) (c_groups c)) eqn:E; simpl.
    + apply existsb_Neqb in E. rewrite methods_contain_iff. tauto.
    + split; [discriminate|]. intros [H _]. apply existsb_Neqb in H. congruence.
Qed.

Theorem can_call_iff perms c m : can_call perms c m = true <-> may_call perms c m.
Proof.
  unfold can_call, may_call. rewrite existsb_exists. split.
  - intros [p [H1 H2]]. exists p. split; auto. apply is_allowed_iff. exact H2.
  - intros [p [H1 H2]]. exists p. split; auto. apply is_allowed_iff. exact H2.
Qed.

Theorem may_callb_iff perms c m : may_callb perms c m = true <-> may_call perms c m.
Proof.
  unfold may_callb, may_call. rewrite existsb_exists. split.
  - intros [p [H1 H2]]. exists p. split; auto. apply andb_true_iff in H2. destruct H2 as [H2 H3]. split.
    + destruct (p_desc p); simpl in *; auto; [apply N.eqb_eq | apply existsb_Neqb]; auto.
    + destruct (p_methods p); simpl in *; auto. apply existsb_streqb; auto.
  - intros [p [H1 [H2 H3]]]. exists p. split; auto. apply andb_true_iff. split.
    + destruct (p_desc p); simpl in *; auto; [apply N.eqb_eq | apply existsb_Neqb]; auto.
    + destruct (p_methods p); simpl in *; auto. apply existsb_streqb; auto.
Qed.

Corollary can_call_is_spec perms c m : can_call perms c m = may_callb perms c m.
Proof.
  destruct (can_call perms c m) eqn:A, (may_callb perms c m) eqn:B; auto.
  - apply can_call_iff, may_callb_iff in A. congruence.
  - apply may_callb_iff, can_call_iff in B. congruence.
Qed.

(* a deployed contract can call a non-safe method only with a matching permission *)
Theorem nonsafe_call_needs_permission perms c m :
  call_permitted false true perms c m = true <-> may_call perms c m.
Proof. unfold call_permitted. apply can_call_iff. Qed.

(* safe methods and non-deployed callers are not restricted (as the property text scopes it) *)
Theorem safe_or_undeployed_unrestricted perms c m s d :
  s = true \/ d = false -> call_permitted s d perms c m = true.
Proof. unfold call_permitted. intros [-> | ->]; [reflexivity | destruct s; reflexivity]. Qed.

(* F6: the mechanism before the repair does not satisfy the specification *)
Definition can_call_unfixed_statement : Prop :=
  forall perms c m, can_call_unfixed perms c m = true <-> may_call perms c m.

Theorem can_call_unfixed_refuted : ~ can_call_unfixed_statement.
Proof.
  intros H.
  (* one group permission restricted to method "a"; the callee is in the group; method "b" is asked for *)
  specialize (H [mk_perm (DGroup 7) (MList ["a"%string])] (mk_callee 1 [7]) "b"%string).
  destruct H as [H _]. specialize (H eq_refl). destruct H as [p [[<-|[]] [_ Hm]]].
  simpl in Hm. destruct Hm as [Hm|[]]. discriminate.
Qed.

(* and differs from the repaired one only there: a group permission whose group matches and whose explicit method
   list lacks the method *)
Theorem unfixed_differs_only_on_group p c m :
  is_allowed_unfixed p c m <> is_allowed p c m ->
  exists g l, p_desc p = DGroup g /\ In g (c_groups c) /\ p_methods p = MList l /\ ~ In m l.
Proof.
  unfold is_allowed_unfixed, is_allowed. destruct (p_desc p) as [|h|g]; try congruence.
  destruct (existsb (N.eqb g) (c_groups c)) eqn:E; simpl; try congruence.
  destruct (p_methods p) as [|l]; simpl; try congruence.
  destruct (existsb (String.eqb m) l) eqn:E2; try congruence.
  intros _. exists g, l. repeat split; auto. apply existsb_Neqb; auto.
  intros Hin. apply existsb_streqb in Hin. congruence.
Qed.

(* ---- the gate is never skipped (Domovoi on): whatever ContractManagement holds for the executing contract — updated,
   destroyed — a non-safe call from a deployed contract passes exactly when the LOADED manifest allows it ---- *)
Theorem gate_never_skipped loaded current c m :
  call_gate true false true loaded current c m = can_call loaded c m /\
  (call_gate true false true loaded current c m = true <-> may_call loaded c m).
Proof. unfold call_gate, manifest_for. split; [reflexivity | apply can_call_iff]. Qed.

(* the lookup-gated form (before Domovoi) lets a contract that is no longer in ContractManagement call anything *)
Definition lookup_gated_statement : Prop :=
  forall loaded current c m, call_gate false false true loaded current c m = true -> may_call loaded c m.

Theorem lookup_gated_refuted : ~ lookup_gated_statement.
Proof.
  intros H. specialize (H [] None (mk_callee 1 []) "b"%string eq_refl).
  destruct H as [p [[] _]].
Qed.

(* before Domovoi, with the contract present, the CURRENT manifest decides *)
Theorem gate_before_domovoi loaded ps c m :
  call_gate false false true loaded (Some ps) c m = can_call ps c m.
Proof. reflexivity. Qed.

(* ---- overloads: the gate decides on the overload that is executed ---- *)
Theorem gate_uses_executed_overload abi name n perms c f md :
  find_method abi name n = Some md ->
  overload_call abi name n perms c f =
    Some (call_permitted (md_safe md) true perms c name, N.land 15 (if md_safe md then N.ldiff f 10 else f)) /\
  (md_safe md = false -> (fst (call_permitted (md_safe md) true perms c name, 0) = true <-> may_call perms c name)) /\
  (md_safe md = true -> N.land (N.land 15 (N.ldiff f 10)) 10 = 0).
Proof.
  intros H. unfold overload_call. rewrite H. split; [reflexivity|]. split.
  - intros ->. simpl. apply can_call_iff.
  - intros _. apply N.bits_inj. intros k. rewrite !N.land_spec, N.ldiff_spec, N.bits_0.
    destruct (N.testbit 10 k); simpl; rewrite ?andb_false_r; reflexivity.
Qed.

Definition by_name_lookup_statement : Prop :=
  forall abi name n perms c f md, find_method abi name n = Some md ->
    overload_call_by_name abi name n perms c f = overload_call abi name n perms c f.

Theorem by_name_lookup_refuted : ~ by_name_lookup_statement.
Proof.
  intros H.
  specialize (H [mk_md "m" 1 true; mk_md "m" 2 false] "m"%string 2 [] (mk_callee 1 []) 15 (mk_md "m" 2 false) eq_refl).
  vm_compute in H. discriminate.
Qed.
