(* C09 — the same mechanism with the mem/stor split of MemoryStore (memory_store.go:13-19, chooseMap :37-44):
   every MemCachedStore and the MemoryStore backend hold TWO maps; a key lives in `stor` when its first byte is
   STStorage (0x70) or STTempStorage (0x71), else in `mem`.  Get/Put/Delete choose by the key, Seek/SeekGC choose ONE
   map by the first byte of the seek PREFIX (an empty prefix panics in Go: "empty Prefix is not supported", store.go:55-59),
   putChangeSet copies mem to mem and stor to stor, Bolt/LevelDB PutChangeSet write both maps into one bucket.
   Definitions only; Store/SplitProof.v shows this model is simulated by the one-map model of Store/Model.v. *)
From NG Require Import Common.Tactics Store.Bytes Store.Model.
Open Scope N_scope.

(* chooseMap: true = stor.  (For the empty key Go panics; here: mem.) *)
Definition is_stor (k : key) : bool :=
  match k with b :: _ => (b =? 112) || (b =? 113) | [] => false end.

Record layer2 := { l2priv : bool; l2mem : lmap; l2stor : lmap }.

Definition choose2 (L : layer2) (k : key) : lmap := if is_stor k then l2stor L else l2mem L.
Definition set_chosen (L : layer2) (k : key) (m : lmap) : layer2 :=
  if is_stor k then {| l2priv := l2priv L; l2mem := l2mem L; l2stor := m |}
  else {| l2priv := l2priv L; l2mem := m; l2stor := l2stor L |}.
Definition put2 (L : layer2) (k : key) (ov : option val) : layer2 :=
  set_chosen L k (insert k ov (choose2 L k)).
Definition empty2 (p : bool) : layer2 := {| l2priv := p; l2mem := []; l2stor := [] |}.

(* a backend: MemoryStore has the same two maps, the disk stores one bucket *)
Inductive base2 := B2Mem (mem stor : kvs) | B2Bolt (m : kvs) | B2Level (m : kvs).

Definition pick2 {A} (k : key) (mem stor : A) : A := if is_stor k then stor else mem.

Definition base2_get (b : base2) (k : key) : option val :=
  match b with
  | B2Mem m s => lookup k (pick2 k m s)
  | B2Bolt m | B2Level m => lookup k m
  end.

Definition base2_seek (b : base2) (r : range) : kvs :=
  match b with
  | B2Mem m s => mem_seek r (pick2 (rprefix r) m s)
  | B2Bolt m => bolt_seek r m
  | B2Level m => level_seek r m
  end.

(* PutChangeSet(puts, stores) *)
Definition base2_put (mem stor : lmap) (b : base2) : base2 :=
  match b with
  | B2Mem m s => B2Mem (apply_writes mem m) (apply_writes stor s)         (* maps.Copy, nil = gone *)
  | B2Bolt m => B2Bolt (apply_writes stor (apply_writes mem m))           (* for _, m := range {puts, stores} *)
  | B2Level m => B2Level (apply_writes stor (apply_writes mem m))
  end.

(* delete(s.chooseMap(k), string(k)) for every rejected key *)
Definition remove_split {A} (ks : list key) (m s : list (key * A)) : list (key * A) * list (key * A) :=
  fold_left (fun ms k => if is_stor k then (fst ms, remove k (snd ms)) else (remove k (fst ms), snd ms)) ks (m, s).

Definition base2_gc (keep : key -> val -> bool) (stop : N) (r : range) (b : base2) : base2 :=
  match b with
  | B2Mem m s =>
      let '(m', s') := remove_split (gc_deleted keep stop (mem_seek r (pick2 (rprefix r) m s))) m s in B2Mem m' s'
  | B2Bolt m => B2Bolt (remove_all (gc_deleted keep stop (bolt_seek r m)) m)
  | B2Level m => B2Level (remove_all (gc_deleted keep stop (level_seek r m)) m)
  end.

(* MemCachedStore.SeekGC = MemoryStore.SeekGC on the layer's own two maps *)
Definition layer2_gc (keep : key -> val -> bool) (stop : N) (r : range) (L : layer2) : layer2 :=
  let '(m', s') := remove_split (gc_deleted keep stop (mem_seek r (live_of (choose2 L (rprefix r))))) (l2mem L) (l2stor L) in
  {| l2priv := l2priv L; l2mem := m'; l2stor := s' |}.

Record stack2 := { layers2 : list layer2; sbase : base2 }.

Fixpoint get_layers2 (ls : list layer2) (b : base2) (k : key) : option val :=
  match ls with
  | [] => base2_get b k
  | L :: t => match lookup k (choose2 L k) with
              | Some ov => ov
              | None => get_layers2 t b k
              end
  end.
Definition store_get2 (s : stack2) (k : key) : option val := get_layers2 (layers2 s) (sbase s) k.

Fixpoint seek_layers2 (ls : list layer2) (b : base2) (r : range) : kvs :=
  match ls with
  | [] => base2_seek b r
  | L :: t =>
      layer_seek false r (choose2 L (rprefix r))
        (match lower_depth (rdepth r) with
         | Some d' => Some (seek_layers2 t b (set_depth r d'))
         | None => None
         end)
  end.

Definition seek_top2 (cut : bool) (ls : list layer2) (b : base2) (r : range) : kvs :=
  match ls with
  | [] => base2_seek b r
  | L :: t =>
      layer_seek cut r (choose2 L (rprefix r))
        (match lower_depth (rdepth r) with
         | Some d' => Some (seek_layers2 t b (set_depth r d'))
         | None => None
         end)
  end.

Definition store_seek2 (s : stack2) (cut : bool) (r : range) : kvs := seek_top2 cut (layers2 s) (sbase s) r.

Definition dao_seek2 (s : stack2) (id : N) (r : range) : kvs :=
  let p := dao_key id (rprefix r) in
  map (fun kv => (skipn (length p) (fst kv), snd kv)) (store_seek2 s false (set_prefix r p)).
Definition dao_seek_async2 (s : stack2) (id : N) (r : range) : kvs :=
  store_seek2 s true (set_prefix r (dao_key id (rprefix r))).
Definition find_keep2 (s : stack2) (id : N) (r : range) : kvs :=
  map (fun kv => (rprefix r ++ fst kv, snd kv)) (dao_seek_async2 s id r).

(* PutChangeSet(src.mem, src.stor) into whatever is below *)
Definition write_below2 (src : layer2) (below : list layer2) (b : base2) : list layer2 * base2 :=
  match below with
  | [] => ([], base2_put (l2mem src) (l2stor src) b)
  | L :: t => ({| l2priv := l2priv L; l2mem := copy_into (l2mem src) (l2mem L); l2stor := copy_into (l2stor src) (l2stor L) |} :: t, b)
  end.

Definition swap_step2 (ls : list layer2) (b : base2) : list layer2 * base2 :=
  match ls with
  | L :: t => (empty2 (l2priv L) :: {| l2priv := false; l2mem := l2mem L; l2stor := l2stor L |} :: t, b)
  | [] => ([], b)
  end.
Definition write_step2 (ls : list layer2) (b : base2) : list layer2 * base2 :=
  match ls with
  | L :: T :: t => let '(t', b') := write_below2 T t b in (L :: T :: t', b')
  | _ => (ls, b)
  end.
Definition unswap_step2 (ls : list layer2) (b : base2) : list layer2 * base2 :=
  match ls with
  | L :: T :: t => (L :: t, b)
  | _ => (ls, b)
  end.

Definition persist_shared2 (ls : list layer2) (b : base2) : list layer2 * base2 :=
  match ls with
  | L :: _ =>
      if l2priv L || (isnil (l2mem L) && isnil (l2stor L)) then (ls, b)    (* keys = len(mem)+len(stor) == 0 *)
      else
        let '(l1, b1) := swap_step2 ls b in
        let '(l2, b2) := write_step2 l1 b1 in
        unswap_step2 l2 b2
  | [] => (ls, b)
  end.

Fixpoint at_layer2 (i : nat) (f : list layer2 -> base2 -> list layer2 * base2) (ls : list layer2) (b : base2)
  : list layer2 * base2 :=
  match i, ls with
  | O, _ => f ls b
  | S i', L :: t => let '(t', b') := at_layer2 i' f t b in (L :: t', b')
  | S _, [] => ([], b)
  end.

Definition set_stack2 (lb : list layer2 * base2) : stack2 := {| layers2 := fst lb; sbase := snd lb |}.

Definition step2 (s : stack2) (o : op) : stack2 :=
  match o, layers2 s with
  | OPut k v, L :: t => set_stack2 (put2 L k (Some v) :: t, sbase s)
  | ODel k, L :: t => set_stack2 (put2 L k None :: t, sbase s)
  | OWrap p, ls => set_stack2 (empty2 p :: ls, sbase s)
  | OPersist i, L :: t =>
      if (i =? 0) && l2priv L then
        match t with
        | [] => s
        | _ :: _ => set_stack2 (write_below2 L t (sbase s))
        end
      else set_stack2 (at_layer2 (N.to_nat i) persist_shared2 (layers2 s) (sbase s))
  | OPersistPrivate, L :: L2 :: t =>
      if l2priv L then
        set_stack2 ({| l2priv := l2priv L2; l2mem := copy_into (l2mem L) (l2mem L2); l2stor := copy_into (l2stor L) (l2stor L2) |} :: t, sbase s)
      else s
  | ODrop, _ :: (L2 :: t) => set_stack2 (L2 :: t, sbase s)
  | OGcBase r g, ls => set_stack2 (ls, base2_gc (gkeep g) (gstop g) r (sbase s))
  | OGcTop r g, L :: t => set_stack2 (layer2_gc (gkeep g) (gstop g) r L :: t, sbase s)
  | _, _ => s
  end.

Definition run2 (s : stack2) (ops : list op) : stack2 := fold_left step2 ops s.

Definition init2 (bk : backend) : stack2 :=
  {| layers2 := [empty2 false];
     sbase := match bk with BMem => B2Mem [] [] | BBolt => B2Bolt [] | BLevel => B2Level [] end |}.

(* ---- the one-map view of a split state ---- *)

(* stor's entries put into mem's list (the two key classes are disjoint, so this is the union) *)
Definition join_lists {A} (m s : list (key * A)) : list (key * A) :=
  fold_left (fun acc kv => insert (fst kv) (snd kv) acc) s m.

Definition join_layer (L : layer2) : layer := {| lpriv := l2priv L; lm := join_lists (l2mem L) (l2stor L) |}.

Definition jkind (b : base2) : backend := match b with B2Mem _ _ => BMem | B2Bolt _ => BBolt | B2Level _ => BLevel end.
Definition jbase (b : base2) : kvs := match b with B2Mem m st => join_lists m st | B2Bolt m | B2Level m => m end.

Definition join (s : stack2) : stack :=
  {| layers := map join_layer (layers2 s); bkind := jkind (sbase s); base := jbase (sbase s) |}.
