(* C09 — the two-map model (Store/Model2.v: mem/stor chosen by chooseMap) is simulated by the one-map model
   (Store/Model.v): joining the two maps of every store commutes with every operation, Get agrees, and Seek agrees
   whenever the prefix is not empty (what the code requires).  So every theorem about the one-map model holds for the
   split mechanism. *)
From NG Require Import Common.Tactics Store.Bytes Store.Model Store.Spec Store.MapLemmas Store.MergeProof Store.Refine
  Store.GcProof Store.Model2.
Open Scope N_scope.

(* ------------------------------------------------------------------ classes of keys *)

Definition class_ok {A} (c : bool) (m : list (key * A)) : Prop := Forall (fun kv => is_stor (fst kv) = c) m.

Lemma is_stor_prefix P k : has_prefix P k = true -> P <> [] -> is_stor k = is_stor P.
Proof.
  destruct P as [|x P]; [congruence|]. destruct k as [|y k]; simpl; [discriminate|].
  intros H _. apply andb_true_iff in H as [H _]. apply N.eqb_eq in H. now subst.
Qed.

Section Gen.
  Context {A : Type}.
  Implicit Types (m s : list (key * A)).

  Lemma class_lookup_none c m k : class_ok c m -> is_stor k <> c -> lookup k m = None.
  Proof.
    induction m as [|[k1 a1] t IH]; simpl; auto. intros H Hk. inv H. simpl in *.
    destruct (beq k k1) eqn:E; auto. apply beq_true in E. subst. congruence.
  Qed.

  Lemma class_insert c k a m : class_ok c m -> is_stor k = c -> class_ok c (insert k a m).
  Proof.
    induction m as [|[k1 a1] t IH]; simpl; intros H Hk.
    - constructor; auto.
    - inv H. destruct (bcmp k k1).
      + constructor; simpl; auto.
      + constructor; simpl; auto; try (constructor; auto).
      + constructor; simpl; auto; try (now apply IH).
  Qed.

  Lemma class_remove c k m : class_ok c m -> class_ok c (remove k m).
  Proof.
    induction m as [|[k1 a1] t IH]; simpl; intros H; auto. inv H.
    destruct (bcmp k k1).
    - assumption.
    - constructor; auto.
    - constructor; auto. now apply IH.
  Qed.

  Lemma class_remove_all c ks : forall m, class_ok c m -> class_ok c (remove_all ks m).
  Proof. unfold remove_all. induction ks; simpl; auto. intros m H. apply IHks. now apply class_remove. Qed.

  Lemma sorted_join m s : sorted false m -> sorted false (join_lists m s).
  Proof.
    unfold join_lists. revert m. induction s as [|[k a] t IH]; simpl; auto. intros m S. apply IH. now apply sorted_insert.
  Qed.

  Lemma keys_ok_join m s : keys_ok m -> keys_ok s -> keys_ok (join_lists m s).
  Proof.
    unfold join_lists. revert m. induction s as [|[k a] t IH]; simpl; auto. intros m Km Ks. inv Ks.
    apply IH; auto. now apply keys_ok_insert.
  Qed.

  Lemma lookup_join k m s : sorted false s ->
    lookup k (join_lists m s) = match lookup k s with Some a => Some a | None => lookup k m end.
  Proof.
    unfold join_lists. revert m. induction s as [|[k1 a1] t IH]; simpl; auto. intros m [G S].
    rewrite IH by auto. rewrite lookup_insert. destruct (beq k k1) eqn:E; auto.
    apply beq_true in E. subst. now rewrite (all_gt_lookup _ _ _ G).
  Qed.

  Lemma lookup_join_pick k m s : sorted false s -> class_ok false m -> class_ok true s ->
    lookup k (join_lists m s) = lookup k (pick2 k m s).
  Proof.
    intros S Cm Cs. rewrite lookup_join by auto. unfold pick2. destruct (is_stor k) eqn:E.
    - rewrite (class_lookup_none false m k Cm) by congruence. now destruct (lookup k s).
    - now rewrite (class_lookup_none true s k Cs) by congruence.
  Qed.

  Lemma join_nil_iff m s : isnil (join_lists m s) = isnil m && isnil s.
  Proof.
    destruct s as [|[k a] t]; simpl; [now rewrite andb_true_r|]. rewrite andb_false_r.
    unfold join_lists. simpl. assert (H : forall (l : list (key * A)) m0, m0 <> [] ->
      fold_left (fun acc kv => insert (fst kv) (snd kv) acc) l m0 <> []).
    { induction l as [|[k2 a2] l IH]; simpl; auto. intros m0 H0. apply IH.
      destruct m0 as [|[k3 a3] m0]; simpl; [discriminate|]. destruct (bcmp k2 k3); discriminate. }
    specialize (H t (insert k a m)). destruct (fold_left _ t (insert k a m)); auto.
    exfalso. apply H; auto. destruct m as [|[k3 a3] m]; simpl; [discriminate|]. destruct (bcmp k k3); discriminate.
  Qed.

  (* filtering the join by a predicate that implies a non-empty prefix = filtering the map chosen for the prefix *)
  Lemma filter_join_prefix (f : key -> bool) P m s : P <> [] -> (forall k, f k = true -> has_prefix P k = true) ->
    sorted false m -> sorted false s -> class_ok false m -> class_ok true s ->
    filter (fun kv => f (fst kv)) (join_lists m s) = filter (fun kv => f (fst kv)) (pick2 P m s).
  Proof.
    intros HP Hf Sm Ss Cm Cs. apply (sorted_ext false).
    - apply sorted_filter. now apply sorted_join.
    - apply sorted_filter. unfold pick2. now destruct (is_stor P).
    - intros k. rewrite !(lookup_filter f). destruct (f k) eqn:E; auto.
      rewrite lookup_join_pick by auto. unfold pick2. now rewrite (is_stor_prefix P k (Hf k E) HP).
  Qed.
End Gen.

Lemma is_key_ok_prefix r k : is_key_ok r k = true -> has_prefix (rprefix r) k = true.
Proof. unfold is_key_ok. intros H. now apply andb_true_iff in H as [H _]. Qed.

Lemma snapshot_join r (m s : lmap) : rprefix r <> [] ->
  sorted false m -> sorted false s -> class_ok false m -> class_ok true s ->
  snapshot r (join_lists m s) = snapshot r (pick2 (rprefix r) m s).
Proof.
  intros. unfold snapshot. f_equal. apply (filter_join_prefix (is_key_ok r) (rprefix r)); auto.
  apply is_key_ok_prefix.
Qed.

Lemma mem_seek_join r (m s : kvs) : rprefix r <> [] ->
  sorted false m -> sorted false s -> class_ok false m -> class_ok true s ->
  mem_seek r (join_lists m s) = mem_seek r (pick2 (rprefix r) m s).
Proof.
  intros. unfold mem_seek. f_equal. apply (filter_join_prefix (is_key_ok r) (rprefix r)); auto.
  apply is_key_ok_prefix.
Qed.

Lemma lookup_live_of k (m : lmap) : sorted false m -> lookup k (live_of m) = over (lookup k m) None.
Proof. apply (lookup_flat_emit false). Qed.

Lemma mem_seek_live_join r (m s : lmap) : rprefix r <> [] ->
  sorted false m -> sorted false s -> class_ok false m -> class_ok true s ->
  mem_seek r (live_of (join_lists m s)) = mem_seek r (live_of (pick2 (rprefix r) m s)).
Proof.
  intros HP Sm Ss Cm Cs. unfold mem_seek. f_equal. apply (sorted_ext false).
  - apply sorted_filter, sorted_live_of. now apply sorted_join.
  - apply sorted_filter, sorted_live_of. unfold pick2. now destruct (is_stor (rprefix r)).
  - intros k. rewrite !(lookup_filter (is_key_ok r)). destruct (is_key_ok r k) eqn:E; auto.
    rewrite !lookup_live_of; [|unfold pick2; now destruct (is_stor (rprefix r))|now apply sorted_join].
    rewrite lookup_join_pick by auto. unfold pick2.
    now rewrite (is_stor_prefix (rprefix r) k (is_key_ok_prefix r k E) HP).
Qed.

(* ------------------------------------------------------------------ joins commute with the map operations *)

Lemma class_copy_into c (src : lmap) : forall dst, class_ok c src -> class_ok c dst -> class_ok c (copy_into src dst).
Proof.
  unfold copy_into. induction src as [|[k ov] t IH]; simpl; auto. intros dst Hs Hd. inv Hs. apply IH; auto.
  now apply class_insert.
Qed.

Lemma class_apply_writes c (src : lmap) : forall (dst : kvs), class_ok c src -> class_ok c dst -> class_ok c (apply_writes src dst).
Proof.
  unfold apply_writes. induction src as [|[k ov] t IH]; simpl; auto. intros dst Hs Hd. inv Hs. apply IH; auto.
  destruct ov; [now apply class_insert|now apply class_remove].
Qed.

Lemma join_insert {A} k (a : A) (m s : list (key * A)) :
  sorted false m -> sorted false s -> class_ok false m -> class_ok true s ->
  join_lists (pick2 k (insert k a m) m) (pick2 k s (insert k a s)) = insert k a (join_lists m s).
Proof.
  intros Sm Ss Cm Cs. unfold pick2. apply (sorted_ext false).
  - destruct (is_stor k); apply sorted_join; auto using sorted_insert.
  - apply sorted_insert. now apply sorted_join.
  - intros x. rewrite lookup_insert. rewrite (lookup_join x m s) by auto.
    destruct (is_stor k) eqn:E.
    + rewrite lookup_join by now apply sorted_insert. rewrite lookup_insert. destruct (beq x k); auto.
    + rewrite lookup_join by auto. rewrite lookup_insert. destruct (beq x k) eqn:Ex; auto.
      apply beq_true in Ex. subst x. now rewrite (class_lookup_none true s k Cs) by congruence.
Qed.

Lemma join_copy_into (m1 s1 m2 s2 : lmap) :
  sorted false m1 -> sorted false s1 -> sorted false m2 -> sorted false s2 ->
  class_ok false m1 -> class_ok true s1 -> class_ok false m2 -> class_ok true s2 ->
  join_lists (copy_into m1 m2) (copy_into s1 s2) = copy_into (join_lists m1 s1) (join_lists m2 s2).
Proof.
  intros. apply (sorted_ext false).
  - apply sorted_join. now apply sorted_copy_into.
  - apply sorted_copy_into. now apply sorted_join.
  - intros k. rewrite lookup_join_pick; auto using sorted_copy_into, class_copy_into.
    rewrite lookup_copy_into by now apply sorted_join. rewrite !lookup_join_pick by auto.
    unfold pick2. destruct (is_stor k); now rewrite lookup_copy_into by auto.
Qed.

Lemma join_apply_writes (wm ws : lmap) (m s : kvs) :
  sorted false wm -> sorted false ws -> sorted false m -> sorted false s ->
  class_ok false wm -> class_ok true ws -> class_ok false m -> class_ok true s ->
  join_lists (apply_writes wm m) (apply_writes ws s) = apply_writes (join_lists wm ws) (join_lists m s).
Proof.
  intros. apply (sorted_ext false).
  - apply sorted_join. now apply sorted_apply_writes.
  - apply sorted_apply_writes. now apply sorted_join.
  - intros k. rewrite lookup_join_pick; auto using sorted_apply_writes, class_apply_writes.
    rewrite lookup_apply_writes by now apply sorted_join. rewrite !lookup_join_pick by auto.
    unfold pick2. destruct (is_stor k); now rewrite lookup_apply_writes by auto.
Qed.

(* the disk stores: both maps into one bucket, mem first *)
Lemma disk_apply_writes (wm ws : lmap) (b : kvs) : sorted false wm -> sorted false ws -> sorted false b ->
  apply_writes ws (apply_writes wm b) = apply_writes (join_lists wm ws) b.
Proof.
  intros. change (join_lists wm ws) with (copy_into ws wm). now rewrite apply_writes_copy_into.
Qed.

Lemma remove_split_spec {A} ks : forall (m s : list (key * A)),
  remove_split ks m s = (remove_all (filter (fun k => negb (is_stor k)) ks) m, remove_all (filter is_stor ks) s).
Proof.
  unfold remove_split, remove_all. induction ks as [|k ks IH]; intros m s; simpl; auto.
  destruct (is_stor k); simpl; now rewrite IH.
Qed.

Lemma join_remove_split {A} ks (m s : list (key * A)) :
  sorted false m -> sorted false s -> class_ok false m -> class_ok true s ->
  join_lists (fst (remove_split ks m s)) (snd (remove_split ks m s)) = remove_all ks (join_lists m s).
Proof.
  intros Sm Ss Cm Cs. rewrite remove_split_spec. simpl. apply (sorted_ext false).
  - apply sorted_join. now apply sorted_remove_all.
  - apply sorted_remove_all. now apply sorted_join.
  - intros k. rewrite lookup_join_pick; auto using sorted_remove_all, class_remove_all.
    rewrite lookup_remove_all by now apply sorted_join. rewrite lookup_join_pick by auto.
    unfold pick2. destruct (is_stor k) eqn:E; rewrite lookup_remove_all by auto.
    + assert (existsb (beq k) (filter is_stor ks) = existsb (beq k) ks) as ->; auto.
      induction ks as [|k1 ks IH]; simpl; auto. destruct (is_stor k1) eqn:E1; simpl; rewrite IH; auto.
      destruct (beq k k1) eqn:Eb; auto. apply beq_true in Eb. congruence.
    + assert (existsb (beq k) (filter (fun k0 => negb (is_stor k0)) ks) = existsb (beq k) ks) as ->; auto.
      induction ks as [|k1 ks IH]; simpl; auto. destruct (is_stor k1) eqn:E1; simpl; rewrite IH; auto.
      destruct (beq k k1) eqn:Eb; auto. apply beq_true in Eb. congruence.
Qed.

(* ------------------------------------------------------------------ well-formed split states *)

Definition wf2_maps {A} (m s : list (key * A)) : Prop :=
  sorted false m /\ sorted false s /\ class_ok false m /\ class_ok true s /\ keys_ok m /\ keys_ok s.
Definition wf2_layer (L : layer2) : Prop := wf2_maps (l2mem L) (l2stor L).
Definition wf2_base (b : base2) : Prop :=
  match b with B2Mem m s => wf2_maps m s | B2Bolt m | B2Level m => sorted false m /\ keys_ok m end.
Definition wf2_pair (lb : list layer2 * base2) : Prop := Forall wf2_layer (fst lb) /\ wf2_base (snd lb).
Definition wf2 (s : stack2) : Prop := wf2_pair (layers2 s, sbase s).

Definition jpair (lb : list layer2 * base2) : list layer * kvs := (map join_layer (fst lb), jbase (snd lb)).

Lemma wf2_nil {A} : @wf2_maps A [] [].
Proof. repeat split; simpl; auto; constructor. Qed.

Lemma join_layer_wf L : wf2_layer L -> sorted false (lm (join_layer L)) /\ keys_ok (lm (join_layer L)).
Proof. intros (Sm & Ss & Cm & Cs & Km & Ks). simpl. split; [now apply sorted_join|now apply keys_ok_join]. Qed.

Lemma join_layers_wf ls : Forall wf2_layer ls -> wf_layers (map join_layer ls).
Proof. induction 1; simpl; constructor; auto. now apply join_layer_wf. Qed.

Lemma jbase_wf b : wf2_base b -> sorted false (jbase b) /\ keys_ok (jbase b).
Proof.
  destruct b; simpl; auto. intros (Sm & Ss & Cm & Cs & Km & Ks). split; [now apply sorted_join|now apply keys_ok_join].
Qed.

Theorem join_wf s : wf2 s -> wf (join s).
Proof.
  intros [Hl Hb]. simpl in *. destruct (jbase_wf _ Hb). repeat split; simpl; auto. now apply join_layers_wf.
Qed.

(* ------------------------------------------------------------------ Get *)

Lemma base2_get_join b k : wf2_base b -> base2_get b k = lookup k (jbase b).
Proof.
  destruct b; simpl; auto. intros (Sm & Ss & Cm & Cs & Km & Ks). now rewrite lookup_join_pick.
Qed.

Theorem join_get s k : wf2 s -> store_get2 s k = store_get (join s) k.
Proof.
  intros [Hl Hb]. unfold store_get2, store_get, join. simpl in *.
  induction Hl as [|L t HL Ht IH]; simpl.
  - now apply base2_get_join.
  - destruct HL as (Sm & Ss & Cm & Cs & Km & Ks). rewrite lookup_join_pick by auto.
    unfold choose2, pick2. destruct (is_stor k); now rewrite IH.
Qed.

(* ------------------------------------------------------------------ Seek (prefix not empty) *)

Lemma base2_seek_join b r : wf2_base b -> rprefix r <> [] -> base2_seek b r = base_seek (jkind b) r (jbase b).
Proof.
  destruct b; simpl; auto. intros (Sm & Ss & Cm & Cs & Km & Ks) HP. now rewrite mem_seek_join.
Qed.

Lemma layer_seek_join cut r L lower : wf2_layer L -> rprefix r <> [] ->
  layer_seek cut r (choose2 L (rprefix r)) lower = layer_seek cut r (lm (join_layer L)) lower.
Proof.
  intros (Sm & Ss & Cm & Cs & Km & Ks) HP. unfold layer_seek. simpl. now rewrite snapshot_join.
Qed.

Lemma seek_layers2_join ls : forall b r, Forall wf2_layer ls -> wf2_base b -> rprefix r <> [] ->
  seek_layers2 ls b r = seek_layers (jkind b) (map join_layer ls) (jbase b) r.
Proof.
  induction ls as [|L t IH]; intros b r Hl Hb HP; simpl.
  - now apply base2_seek_join.
  - inv Hl. rewrite layer_seek_join by auto. destruct (lower_depth (rdepth r)); auto. now rewrite IH.
Qed.

Theorem join_seek s cut r : wf2 s -> rprefix r <> [] -> store_seek2 s cut r = store_seek (join s) cut r.
Proof.
  intros [Hl Hb] HP. unfold store_seek2, store_seek, join. simpl in *.
  destruct (layers2 s) as [|L t]; simpl.
  - now apply base2_seek_join.
  - inv Hl. rewrite layer_seek_join by auto. destruct (lower_depth (rdepth r)); auto. now rewrite seek_layers2_join.
Qed.

Lemma dao_key_nonempty id p : dao_key id p <> [].
Proof. unfold dao_key. discriminate. Qed.

Theorem join_dao_seek s id r : wf2 s ->
  dao_seek2 s id r = dao_seek (join s) id r /\ dao_seek_async2 s id r = dao_seek_async (join s) id r /\
  find_keep2 s id r = find_keep (join s) id r.
Proof.
  intros Hs. unfold dao_seek2, dao_seek, dao_seek_async2, dao_seek_async, find_keep2, find_keep, dao_seek_async2, dao_seek_async.
  rewrite !join_seek by (auto; apply dao_key_nonempty). auto.
Qed.

(* ------------------------------------------------------------------ writes and flushes *)

Lemma wf2_copy (m1 s1 m2 s2 : lmap) : wf2_maps m1 s1 -> wf2_maps m2 s2 -> wf2_maps (copy_into m1 m2) (copy_into s1 s2).
Proof.
  intros (A1 & A2 & A3 & A4 & A5 & A6) (B1 & B2 & B3 & B4 & B5 & B6).
  repeat split; auto using sorted_copy_into, class_copy_into, keys_ok_copy_into.
Qed.

Lemma wf2_apply (wm ws : lmap) (m s : kvs) : wf2_maps wm ws -> wf2_maps m s -> wf2_maps (apply_writes wm m) (apply_writes ws s).
Proof.
  intros (A1 & A2 & A3 & A4 & A5 & A6) (B1 & B2 & B3 & B4 & B5 & B6).
  repeat split; auto using sorted_apply_writes, class_apply_writes, keys_ok_apply_writes.
Qed.

Lemma base2_put_join (src : layer2) b : wf2_layer src -> wf2_base b ->
  jbase (base2_put (l2mem src) (l2stor src) b) = apply_writes (lm (join_layer src)) (jbase b) /\
  jkind (base2_put (l2mem src) (l2stor src) b) = jkind b /\
  wf2_base (base2_put (l2mem src) (l2stor src) b).
Proof.
  intros HL Hb. pose proof HL as (A1 & A2 & A3 & A4 & A5 & A6). destruct b; simpl in *.
  - pose proof Hb as (B1 & B2 & B3 & B4 & B5 & B6). split; [|split; auto].
    + now apply join_apply_writes.
    + now apply wf2_apply.
  - destruct Hb. split; [now apply disk_apply_writes|split; auto].
    split; auto using sorted_apply_writes, keys_ok_apply_writes.
  - destruct Hb. split; [now apply disk_apply_writes|split; auto].
    split; auto using sorted_apply_writes, keys_ok_apply_writes.
Qed.

Lemma write_below2_join src t b : wf2_layer src -> wf2_pair (t, b) ->
  jpair (write_below2 src t b) = write_below (lm (join_layer src)) (map join_layer t) (jbase b) /\
  jkind (snd (write_below2 src t b)) = jkind b /\ wf2_pair (write_below2 src t b).
Proof.
  intros HL [Ht Hb]. simpl in *. destruct t as [|L2 t2]; simpl.
  - destruct (base2_put_join src b HL Hb) as (E1 & E2 & W). unfold jpair. simpl. rewrite E1. repeat split; auto.
  - inv Ht. pose proof HL as (A1 & A2 & A3 & A4 & A5 & A6). pose proof H1 as (B1 & B2 & B3 & B4 & B5 & B6).
    unfold jpair. simpl. split; [|split; auto].
    + f_equal. f_equal. unfold join_layer, with_lm. simpl. f_equal. now apply join_copy_into.
    + split; simpl; auto. constructor; auto. now apply wf2_copy.
Qed.

Lemma empty2_join p : join_layer (empty2 p) = {| lpriv := p; lm := [] |}.
Proof. reflexivity. Qed.

Lemma persist_shared2_join ls b : wf2_pair (ls, b) ->
  jpair (persist_shared2 ls b) = persist_shared (map join_layer ls) (jbase b) /\
  jkind (snd (persist_shared2 ls b)) = jkind b /\ wf2_pair (persist_shared2 ls b).
Proof.
  intros [Hl Hb]. simpl in *. unfold persist_shared2, persist_shared.
  destruct ls as [|L t]; simpl; [repeat split; auto|].
  rewrite join_nil_iff. destruct (l2priv L || (isnil (l2mem L) && isnil (l2stor L))); [repeat split; auto|].
  inv Hl. cbn [swap_step2 swap_step write_step2 write_step map].
  assert (HT : wf2_layer {| l2priv := false; l2mem := l2mem L; l2stor := l2stor L |}) by exact H1.
  destruct (write_below2_join {| l2priv := false; l2mem := l2mem L; l2stor := l2stor L |} t b HT) as (E & K & W); [split; auto|].
  destruct (write_below2 {| l2priv := false; l2mem := l2mem L; l2stor := l2stor L |} t b) as [t' b'].
  unfold jpair in E. simpl in E, K, W.
  change (lm (with_lm (join_layer L) [])) with (@nil (key * option val)).
  cbn [with_lm lm lpriv join_layer l2mem l2stor l2priv] in *.
  destruct (write_below (join_lists (l2mem L) (l2stor L)) (map join_layer t) (jbase b)) as [t'' b''] eqn:Ew.
  inv E. unfold jpair. simpl. repeat split; auto.
  - destruct W as [W1 W2]. simpl in *. constructor; auto. apply wf2_nil.
  - apply W.
Qed.

Lemma at_layer2_join i : forall ls b, wf2_pair (ls, b) ->
  jpair (at_layer2 i persist_shared2 ls b) = at_layer i persist_shared (map join_layer ls) (jbase b) /\
  jkind (snd (at_layer2 i persist_shared2 ls b)) = jkind b /\ wf2_pair (at_layer2 i persist_shared2 ls b).
Proof.
  induction i as [|i IH]; intros ls b Hw; simpl.
  - now apply persist_shared2_join.
  - destruct ls as [|L t]; simpl; [destruct Hw; repeat split; simpl; auto|].
    destruct Hw as [Hl Hb]. simpl in *. inv Hl.
    destruct (IH t b) as (E & K & W); [split; auto|].
    destruct (at_layer2 i persist_shared2 t b) as [t' b']. unfold jpair in *. simpl in *.
    destruct (at_layer i persist_shared (map join_layer t) (jbase b)) as [t'' b''].
    inv E. repeat split; simpl; auto.
    + constructor; auto. apply W.
    + apply W.
Qed.

Lemma put2_join L k ov : wf2_layer L -> bytes_ok k ->
  join_layer (put2 L k ov) = with_lm (join_layer L) (insert k ov (lm (join_layer L))) /\ wf2_layer (put2 L k ov).
Proof.
  intros (Sm & Ss & Cm & Cs & Km & Ks) Hk. unfold put2, set_chosen, choose2, join_layer, with_lm. simpl.
  pose proof (join_insert k ov (l2mem L) (l2stor L) Sm Ss Cm Cs) as J. unfold pick2 in J.
  destruct (is_stor k) eqn:E; simpl; rewrite <- J; split; auto;
    repeat split; simpl; auto using sorted_insert, keys_ok_insert, class_insert.
Qed.

Lemma gc_keys_prefix keep stop r (l : kvs) : forall k, In k (gc_deleted keep stop (mem_seek r l)) ->
  has_prefix (rprefix r) k = true.
Proof.
  intros k H. apply gc_deleted_in in H as (v & Hin & _). rewrite mem_seek_rq in Hin.
  apply rq_in in Hin as [_ H]. unfold in_range in H. simpl in H. now apply andb_true_iff in H as [H _].
Qed.

Lemma wf2_remove_split {A} ks (m s : list (key * A)) : wf2_maps m s ->
  wf2_maps (fst (remove_split ks m s)) (snd (remove_split ks m s)).
Proof.
  intros (B1 & B2 & B3 & B4 & B5 & B6). rewrite remove_split_spec. simpl.
  repeat split; auto using sorted_remove_all, class_remove_all, keys_ok_remove_all.
Qed.

Lemma base2_gc_join keep stop r b : wf2_base b -> rprefix r <> [] ->
  jbase (base2_gc keep stop r b) = base_seekgc (jkind b) keep stop r (jbase b) /\
  jkind (base2_gc keep stop r b) = jkind b /\ wf2_base (base2_gc keep stop r b).
Proof.
  intros Hb HP. destruct b; simpl in *.
  - pose proof Hb as (B1 & B2 & B3 & B4 & B5 & B6). unfold base_seekgc. simpl.
    rewrite mem_seek_join by auto.
    pose proof (join_remove_split (gc_deleted keep stop (mem_seek r (pick2 (rprefix r) mem stor))) mem stor B1 B2 B3 B4) as J.
    pose proof (wf2_remove_split (gc_deleted keep stop (mem_seek r (pick2 (rprefix r) mem stor))) mem stor Hb) as W.
    destruct (remove_split _ mem stor) as [m' s']. simpl in *. auto.
  - destruct Hb. unfold base_seekgc. simpl. repeat split; auto using sorted_remove_all, keys_ok_remove_all.
  - destruct Hb. unfold base_seekgc. simpl. repeat split; auto using sorted_remove_all, keys_ok_remove_all.
Qed.

Lemma layer2_gc_join keep stop r L : wf2_layer L -> rprefix r <> [] ->
  join_layer (layer2_gc keep stop r L) = with_lm (join_layer L) (layer_seekgc keep stop r (lm (join_layer L))) /\
  wf2_layer (layer2_gc keep stop r L).
Proof.
  intros HL HP. pose proof HL as (B1 & B2 & B3 & B4 & B5 & B6). unfold layer2_gc, layer_seekgc, join_layer, with_lm. simpl.
  rewrite mem_seek_live_join by auto. unfold choose2, pick2.
  set (ks := gc_deleted keep stop (mem_seek r (live_of (if is_stor (rprefix r) then l2stor L else l2mem L)))).
  pose proof (join_remove_split ks (l2mem L) (l2stor L) B1 B2 B3 B4) as J.
  pose proof (wf2_remove_split ks (l2mem L) (l2stor L) HL) as W.
  destruct (remove_split ks (l2mem L) (l2stor L)) as [m' s']. simpl in *. rewrite J. split; auto.
Qed.

(* ------------------------------------------------------------------ every op commutes with the join *)

Definition op_ok2 (o : op) : Prop :=
  op_ok o /\ match o with OGcBase r _ | OGcTop r _ => rprefix r <> [] | _ => True end.

Lemma join_set_stack s lb k : jkind (snd lb) = k -> k = jkind (sbase s) ->
  join (set_stack2 lb) = set_stack (join s) (jpair lb).
Proof. intros H1 H2. unfold join, set_stack, set_stack2, jpair. simpl. now rewrite H1, H2. Qed.

Theorem join_step s o : wf2 s -> op_ok2 o -> join (step2 s o) = step (join s) o /\ wf2 (step2 s o).
Proof.
  intros Hs [Ho Hg]. pose proof Hs as [Hl Hb]. simpl in *.
  unfold step2, step. cbn [join layers].
  destruct o as [k v|k|p|i| | |r g|r g]; destruct (layers2 s) as [|L t] eqn:El; cbn [map]; try (split; [reflexivity|exact Hs]).
  - (* put *) inv Hl. destruct (put2_join L k (Some v) H1 Ho) as [E W].
    split; [|split; simpl; auto]. unfold join, set_stack, set_stack2. simpl. now rewrite ?El, E.
  - inv Hl. destruct (put2_join L k None H1 Ho) as [E W].
    split; [|split; simpl; auto]. unfold join, set_stack, set_stack2. simpl. now rewrite ?El, E.
  - split; [unfold join, set_stack, set_stack2; simpl; rewrite ?El; reflexivity|split; simpl; auto]. constructor; auto. apply wf2_nil.
  - split; [unfold join, set_stack, set_stack2; simpl; rewrite ?El; reflexivity|split; simpl; auto]. constructor; auto. apply wf2_nil.
  - (* persist *)
    change (lpriv (join_layer L)) with (l2priv L).
    destruct ((i =? 0) && l2priv L).
    + destruct t as [|L2 t2]; cbn [map].
      * split; [unfold join; simpl; rewrite ?El; reflexivity|exact Hs].
      * inv Hl. destruct (write_below2_join L (L2 :: t2) (sbase s) H1) as (E & K & W); [split; auto|].
        split; [|exact W]. rewrite (join_set_stack s _ _ K eq_refl), E. reflexivity.
    + destruct (at_layer2_join (N.to_nat i) (L :: t) (sbase s)) as (E & K & W); [split; auto|].
      split; [|exact W]. rewrite (join_set_stack s _ _ K eq_refl), E. reflexivity.
  - (* persist private *)
    destruct t as [|L2 t2]; cbn [map]; [split; [unfold join; simpl; rewrite ?El; reflexivity|exact Hs]|].
    change (lpriv (join_layer L)) with (l2priv L). destruct (l2priv L); [|split; [unfold join; simpl; rewrite ?El; reflexivity|exact Hs]].
    inv Hl. inv H2. pose proof H1 as (A1 & A2 & A3 & A4 & A5 & A6). pose proof H3 as (B1 & B2 & B3 & B4 & B5 & B6).
    split.
    + unfold join, set_stack, set_stack2, join_layer, with_lm. simpl. now rewrite join_copy_into.
    + split; simpl; auto. constructor; auto. now apply wf2_copy.
  - (* drop *)
    destruct t as [|L2 t2]; cbn [map]; [split; [unfold join; simpl; rewrite ?El; reflexivity|exact Hs]|].
    inv Hl. split; [reflexivity|split; simpl; auto].
  - (* gc base, no layer *)
    destruct (base2_gc_join (gkeep g) (gstop g) r (sbase s) Hb Hg) as (E & K & W).
    split; [|split; simpl; auto]. unfold join, set_stack, set_stack2. simpl. now rewrite E, K.
  - destruct (base2_gc_join (gkeep g) (gstop g) r (sbase s) Hb Hg) as (E & K & W).
    split; [|split; simpl; auto]. unfold join, set_stack, set_stack2. simpl. now rewrite E, K.
  - (* gc top *)
    inv Hl. destruct (layer2_gc_join (gkeep g) (gstop g) r L H1 Hg) as [E W].
    split; [|split; simpl; auto]. unfold join, set_stack, set_stack2. simpl. now rewrite E.
Qed.

Lemma wf2_init bk : wf2 (init2 bk).
Proof.
  split; simpl; [repeat constructor; apply wf2_nil|]. destruct bk; simpl; auto; try apply wf2_nil; split; simpl; auto; constructor.
Qed.

Lemma join_init bk : join (init2 bk) = init bk.
Proof. destruct bk; reflexivity. Qed.

Theorem join_run ops : forall s, wf2 s -> Forall op_ok2 ops -> join (run2 s ops) = run (join s) ops /\ wf2 (run2 s ops).
Proof.
  unfold run2, run. induction ops as [|o ops IH]; simpl; auto. intros s Hs Ho. inv Ho.
  destruct (join_step s o Hs H1) as [E W]. rewrite <- E. now apply IH.
Qed.

(* the property over histories for the split mechanism: Get and every Seek with a non-empty prefix, after any ops *)
Theorem split_history_refines bk ops : Forall op_ok2 ops ->
  let s2 := run2 (init2 bk) ops in
  let s := run (init bk) ops in
  (forall k, store_get2 s2 k = spec_get s k) /\
  (forall cut r, range_ok r -> rprefix r <> [] -> store_seek2 s2 cut r = spec_seek s cut r).
Proof.
  intros Ho s2 s.
  destruct (join_run ops (init2 bk) (wf2_init bk) Ho) as [E W]. rewrite join_init in E. fold s2 s in E, W.
  assert (Ho1 : Forall op_ok ops) by (eapply Forall_impl; [|exact Ho]; intros o [H _]; exact H).
  destruct (history_refines bk ops Ho1) as [G S]. fold s in G, S.
  split.
  - intros k. rewrite join_get by auto. rewrite E. apply G.
  - intros cut r Hr HP. rewrite join_seek by auto. rewrite E. now apply S.
Qed.
