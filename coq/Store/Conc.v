(* C09 — readers against writers and a concurrent Persist, at the granularity of the lock regions.

   System: one shared MemCachedStore L (maps [cm]) over a lower store X (content [cx], a base store whose Seek is
   one atomic snapshot: a Bolt read transaction, a LevelDB iterator, MemoryStore.seek under its lock).
   Atomic actions (each is one critical section of the Go code, or one atomic call of the lower store):
     AWrite b      Put / Delete / PutChangeSet / PersistPrivate into L           (s.lock .. s.unlock)
     ASwap         Persist, first region: tempstore := {maps, ps}; s.ps = tempstore; fresh maps
     ALowerWrite   Persist, unlocked middle: tempstore.ps.PutChangeSet(tempstore maps)   (atomic in X)
     AUnswap       Persist, last region: s.ps = tempstore.ps
     ASnap r       reader, prepareSeekMemSnapshot: under the read lock take the matching entries and capture s.ps
     ARead         reader, performSeek: Seek on the captured handle (tempstore: its immutable maps + X now; or X now)
                   merged with the snapshot
     AGc r g       SeekGC of the base store X (atomic in X, only between two Persists)
   Any list of actions is an interleaving (an action that is not enabled is a no-op), so a statement for all
   action lists is a statement for all schedules of one reader, any number of writers and the Persist thread.
   Readers do not change the store, so one observed reader is enough. *)
From NG Require Import Common.Tactics Store.Bytes Store.Model Store.Spec Store.MapLemmas Store.MergeProof Store.Refine Store.GcProof.
Open Scope N_scope.

Inductive handle := HLower | HTemp (t : lmap).

Record cstate := {
  cbk : backend;
  cm : lmap;                                (* L's maps *)
  ctemp : option (lmap * bool);             (* tempstore installed as L.ps: its maps; has the write below happened *)
  cx : kvs;                                 (* content of X *)
  rsnap : option (range * lmap * handle);   (* reader after ASnap: range, the maps it filtered (immutable copy), captured ps *)
  rans : option kvs                         (* reader after ARead *)
}.

Inductive action := AWrite (b : lmap) | ASwap | ALowerWrite | AUnswap | ASnap (r : range) | ARead
  | AGc (r : range) (g : gcfun).
  (* AGc: X.SeekGC, one write transaction of the base store (Bolt Update / LevelDB transaction / MemoryStore under its
     write lock).  Enabled only while no Persist is in flight: Blockchain runs persist and GC in one goroutine. *)

Definition handle_seek (bk : backend) (h : handle) (r : range) (x : kvs) : kvs :=
  match h with
  | HLower => base_seek bk r x
  | HTemp t => layer_seek false r t (Some (base_seek bk r x))     (* tempstore.Seek: MemCachedStore.Seek *)
  end.

Definition cstep (c : cstate) (a : action) : cstate :=
  match a with
  | AWrite b =>
      {| cbk := cbk c; cm := copy_into b (cm c); ctemp := ctemp c; cx := cx c; rsnap := rsnap c; rans := rans c |}
  | ASwap =>
      match ctemp c, cm c with
      | None, _ :: _ =>
          {| cbk := cbk c; cm := []; ctemp := Some (cm c, false); cx := cx c; rsnap := rsnap c; rans := rans c |}
      | _, _ => c
      end
  | ALowerWrite =>
      match ctemp c with
      | Some (t, false) =>
          {| cbk := cbk c; cm := cm c; ctemp := Some (t, true); cx := apply_writes t (cx c); rsnap := rsnap c; rans := rans c |}
      | _ => c
      end
  | AUnswap =>
      match ctemp c with
      | Some (t, true) =>
          {| cbk := cbk c; cm := cm c; ctemp := None; cx := cx c; rsnap := rsnap c; rans := rans c |}
      | _ => c
      end
  | ASnap r =>
      match rsnap c with
      | None =>
          {| cbk := cbk c; cm := cm c; ctemp := ctemp c; cx := cx c;
             rsnap := Some (r, cm c, match ctemp c with Some (t, _) => HTemp t | None => HLower end);
             rans := rans c |}
      | Some _ => c
      end
  | ARead =>
      match rsnap c, rans c with
      | Some (r, w, h), None =>
          {| cbk := cbk c; cm := cm c; ctemp := ctemp c; cx := cx c; rsnap := rsnap c;
             rans := Some (layer_seek false r w (Some (handle_seek (cbk c) h r (cx c)))) |}
      | _, _ => c
      end
  | AGc r g =>
      match ctemp c with
      | None =>
          {| cbk := cbk c; cm := cm c; ctemp := None; cx := base_seekgc (cbk c) (gkeep g) (gstop g) r (cx c);
             rsnap := rsnap c; rans := rans c |}
      | Some _ => c
      end
  end.

Definition crun (c : cstate) (tr : list action) : cstate := fold_left cstep tr c.

(* the one ordered map of the system *)
Definition cflat (c : cstate) : kvs :=
  apply_writes (cm c) (match ctemp c with Some (t, _) => apply_writes t (cx c) | None => cx c end).

(* invariant: ordered maps; once the tempstore has been written below, X contains it *)
Definition cwf (c : cstate) : Prop :=
  sorted false (cm c) /\ keys_ok (cm c) /\ sorted false (cx c) /\ keys_ok (cx c) /\
  match ctemp c with
  | Some (t, w) => sorted false t /\ keys_ok t /\ (w = true -> apply_writes t (cx c) = cx c)
  | None => True
  end /\
  match rsnap c with Some (_, w, h) => sorted false w /\ keys_ok w /\ match h with HTemp t => sorted false t /\ keys_ok t | HLower => True end
                | None => True end.

Definition batch_ok (a : action) : Prop :=
  match a with AWrite b => sorted false b /\ keys_ok b | _ => True end.

Lemma cstep_wf c a : cwf c -> batch_ok a -> cwf (cstep c a).
Proof.
  intros (Sm & Km & Sx & Kx & Ht & Hr) Ha. destruct a as [b| | | |r| |r' g]; simpl.
  7:{ destruct (ctemp c) as [[t w]|] eqn:Et; [repeat split; auto; rewrite Et; auto|].
      repeat split; simpl; auto; unfold base_seekgc; auto using sorted_remove_all, keys_ok_remove_all. }
  - destruct Ha as [Sb Kb]. repeat split; simpl; auto using sorted_copy_into, keys_ok_copy_into.
  - destruct (ctemp c) as [[t w]|] eqn:Et; [repeat split; auto; rewrite Et; auto|].
    destruct (cm c) as [|e m] eqn:Em; [repeat split; auto; rewrite ?Et, ?Em; auto|].
    repeat split; simpl; auto; try constructor. discriminate.
  - destruct (ctemp c) as [[t [|]]|] eqn:Et; try (repeat split; auto; rewrite Et; auto; fail).
    destruct Ht as (St & Kt & _).
    repeat split; simpl; auto using sorted_apply_writes, keys_ok_apply_writes.
    intros _. now apply apply_writes_idem.
  - destruct (ctemp c) as [[t [|]]|] eqn:Et; try (repeat split; auto; rewrite Et; auto; fail).
    all: try (repeat split; simpl; auto; fail).
  - destruct (rsnap c) as [[[r0 w0] h0]|] eqn:Es; [repeat split; auto; rewrite Es; auto|].
    repeat split; simpl; auto. destruct (ctemp c) as [[t w]|]; [tauto|auto].
  - destruct (rsnap c) as [[[r0 w0] h0]|] eqn:Es; [|repeat split; auto; rewrite Es; auto].
    destruct (rans c); [repeat split; auto; rewrite Es; auto|].
    repeat split; simpl; auto; rewrite ?Es; auto; tauto.
Qed.

(* ---- every lock region of Persist leaves the one map unchanged; a write changes it by exactly its batch ---- *)
Theorem persist_regions_preserve_flat c a : cwf c ->
  match a with
  | AWrite b => sorted false b -> cflat (cstep c a) = apply_writes b (cflat c)
  | AGc r g => ctemp c = None -> cflat (cstep c a) = apply_writes (cm c) (base_seekgc (cbk c) (gkeep g) (gstop g) r (cx c))
  | _ => cflat (cstep c a) = cflat c
  end.
Proof.
  intros (Sm & Km & Sx & Kx & Ht & Hr). destruct a as [b| | | |r| |r' g]; simpl.
  7:{ intros Et. unfold cflat. simpl. rewrite Et. reflexivity. }
  - intros Sb. unfold cflat. simpl.
    assert (Sl : sorted false (match ctemp c with Some (t, _) => apply_writes t (cx c) | None => cx c end)).
    { destruct (ctemp c) as [[t w]|]; auto. destruct Ht as (St & _). now apply sorted_apply_writes. }
    now apply apply_writes_copy_into.
  - destruct (ctemp c) as [[t w]|] eqn:Et; auto. destruct (cm c) eqn:Em; auto.
    unfold cflat. simpl. now rewrite Et, Em.
  - destruct (ctemp c) as [[t [|]]|] eqn:Et; auto. destruct Ht as (St & Kt & _).
    unfold cflat. simpl. rewrite Et. now rewrite apply_writes_idem.
  - destruct (ctemp c) as [[t [|]]|] eqn:Et; auto. destruct Ht as (St & Kt & Hw).
    unfold cflat. simpl. rewrite Et. now rewrite Hw.
  - destruct (rsnap c); reflexivity.
  - destruct (rsnap c) as [[[r0 w0] h0]|]; auto. destruct (rans c); reflexivity.
Qed.

(* ---- the reader ---- *)

(* what the reader would be handed if it performed its second step in state c *)
Definition view (c : cstate) : option kvs :=
  match rsnap c with
  | Some (r, w, h) => Some (layer_seek false r w (Some (handle_seek (cbk c) h r (cx c))))
  | None => None
  end.

(* the captured handle still denotes "everything below L's maps at snapshot time", as long as no new swap happened *)
Definition handle_ok (c : cstate) : Prop :=
  match rsnap c with
  | Some (_, _, HLower) => ctemp c = None
  | Some (_, _, HTemp t) => ctemp c = None /\ apply_writes t (cx c) = cx c \/ exists w, ctemp c = Some (t, w)
  | None => True
  end.

Definition no_swap_or_reader (a : action) : Prop :=
  match a with ASwap | ASnap _ | ARead | AGc _ _ => False | _ => True end.

Lemma handle_seek_rq bk h r x : range_ok r -> sorted false x -> keys_ok x ->
  match h with HTemp t => sorted false t | HLower => True end ->
  handle_seek bk h r x = rq r (match h with HTemp t => apply_writes t x | HLower => x end).
Proof.
  intros Hr Sx Kx Hh. destruct h as [|t]; simpl.
  - now apply base_seek_rq.
  - rewrite base_seek_rq by auto. rewrite layer_seek_rq by auto. now rewrite trim_false.
Qed.

Lemma view_spec c r w h : cwf c -> rsnap c = Some (r, w, h) -> range_ok r ->
  view c = Some (rq r (apply_writes w (match h with HTemp t => apply_writes t (cx c) | HLower => cx c end))).
Proof.
  intros (Sm & Km & Sx & Kx & Ht & Hs) Es Hr. unfold view. rewrite Es in *. destruct Hs as (Sw & Kw & Hh).
  f_equal. rewrite handle_seek_rq; auto.
  - rewrite layer_seek_rq; auto; [now rewrite trim_false|].
    destruct h; auto. destruct Hh. now apply sorted_apply_writes.
  - destruct h; tauto.
Qed.

(* between its two steps the reader's prospective answer is not changed by writers, by the write below,
   or by the unswap; only a NEW swap (whose tempstore the reader did not capture) can change it *)
Lemma view_stable c a : cwf c -> batch_ok a -> handle_ok c -> no_swap_or_reader a ->
  (forall r w h, rsnap c = Some (r, w, h) -> range_ok r) ->
  view (cstep c a) = view c /\ handle_ok (cstep c a).
Proof.
  intros Hc Hb Hh Ha Hr. pose proof (cstep_wf c a Hc Hb) as Hc'.
  destruct (rsnap c) as [[[r w] h]|] eqn:Es.
  2:{ destruct a; simpl in Ha; try contradiction; unfold view, handle_ok; simpl.
      - rewrite Es; auto.
      - destruct (ctemp c) as [[t [|]]|]; simpl; rewrite Es; auto.
      - destruct (ctemp c) as [[t [|]]|]; simpl; rewrite Es; auto. }
  specialize (Hr r w h eq_refl).
  assert (Es' : rsnap (cstep c a) = Some (r, w, h)).
  { destruct a; simpl in Ha; try contradiction; simpl; auto.
    - destruct (ctemp c) as [[t [|]]|]; simpl; auto.
    - destruct (ctemp c) as [[t [|]]|]; simpl; auto. }
  rewrite (view_spec _ _ _ _ Hc' Es' Hr), (view_spec _ _ _ _ Hc Es Hr).
  unfold handle_ok in *. rewrite Es' in *. rewrite Es in Hh.
  destruct Hc as (Sm & Km & Sx & Kx & Ht & Hs). rewrite Es in Hs. destruct Hs as (Sw & Kw & Hhs).
  destruct a as [b| | | |r0| |r0 g0]; simpl in Ha; try contradiction; simpl.
  - split; auto.
  - (* the write below *)
    destruct (ctemp c) as [[t [|]]|] eqn:Et; simpl; try (rewrite ?Et; split; auto; fail).
    destruct Ht as (St & Kt & _).
    destruct h as [|t0].
    + discriminate.
    + destruct Hh as [[Hn _]|[w0 Hw0]]; [discriminate|]. inv Hw0.
      split.
      * now rewrite apply_writes_idem.
      * right. eauto.
  - destruct (ctemp c) as [[t [|]]|] eqn:Et; simpl; try (rewrite ?Et; split; auto; fail).
    destruct Ht as (St & Kt & Hw). split; auto.
    destruct h as [|t0]; auto.
    destruct Hh as [[Hn _]|[w0 Hw0]]; [discriminate|]. inv Hw0. left. auto.
Qed.

Lemma crun_app c t1 t2 : crun c (t1 ++ t2) = crun (crun c t1) t2.
Proof. unfold crun. apply fold_left_app. Qed.

Lemma crun_wf tr : forall c, cwf c -> Forall batch_ok tr -> cwf (crun c tr).
Proof.
  unfold crun. induction tr as [|a tr IH]; simpl; auto. intros c Hc Hb. inv Hb. apply IH; auto. now apply cstep_wf.
Qed.

Lemma view_stable_run mid : forall c, cwf c -> Forall batch_ok mid -> handle_ok c -> Forall no_swap_or_reader mid ->
  (forall r w h, rsnap c = Some (r, w, h) -> range_ok r) ->
  view (crun c mid) = view c /\ rsnap (crun c mid) = rsnap c /\ rans (crun c mid) = rans c /\ cbk (crun c mid) = cbk c.
Proof.
  unfold crun. induction mid as [|a mid IH]; simpl; auto. intros c Hc Hb Hh Hn Hr. inv Hb. inv Hn.
  destruct (view_stable c a Hc H1 Hh H3 Hr) as [V H'].
  assert (Es : rsnap (cstep c a) = rsnap c /\ rans (cstep c a) = rans c /\ cbk (cstep c a) = cbk c).
  { destruct a; simpl in H3; try contradiction; simpl; auto.
    - destruct (ctemp c) as [[t [|]]|]; simpl; auto.
    - destruct (ctemp c) as [[t [|]]|]; simpl; auto. }
  destruct Es as (E1 & E2 & E3).
  destruct (IH (cstep c a)) as (I1 & I2 & I3 & I4); auto using cstep_wf.
  - intros r w h E. rewrite E1 in E. eauto.
  - rewrite I1, I2, I3, I4, V, E1, E2, E3. auto.
Qed.

(* Reader atomicity, the part that holds: if no new Persist swap falls between the reader's snapshot and its
   read of the lower store, then — whatever writers, the pending write below and the unswap do in between —
   the answer is the range query on the one ordered map AT THE INSTANT OF THE SNAPSHOT. *)
Theorem reader_atomic_partial c0 pre r mid :
  cwf c0 -> rsnap c0 = None -> rans c0 = None ->
  Forall batch_ok pre -> Forall batch_ok mid ->
  Forall (fun a => match a with ASnap _ | ARead => False | _ => True end) pre ->
  Forall no_swap_or_reader mid ->
  range_ok r ->
  let c1 := crun c0 pre in
  rans (crun c0 (pre ++ ASnap r :: mid ++ [ARead])) = Some (rq r (cflat c1)).
Proof.
  intros Hc0 Hs0 Ha0 Hbp Hbm Hpre Hmid Hr c1.
  assert (Hc1 : cwf c1) by now apply crun_wf.
  assert (Hs1 : rsnap c1 = None /\ rans c1 = None).
  { subst c1. clear -Hs0 Ha0 Hpre. revert c0 Hs0 Ha0. unfold crun.
    induction pre as [|a pre IH]; simpl; auto. intros c0 Hs0 Ha0. inv Hpre. apply IH; auto.
    - destruct a; simpl; auto; try contradiction.
      + destruct (ctemp c0); auto. destruct (cm c0); auto.
      + destruct (ctemp c0) as [[t [|]]|]; auto.
      + destruct (ctemp c0) as [[t [|]]|]; auto.
      + destruct (ctemp c0); auto.
    - destruct a; simpl; auto; try contradiction.
      + destruct (ctemp c0); auto. destruct (cm c0); auto.
      + destruct (ctemp c0) as [[t [|]]|]; auto.
      + destruct (ctemp c0) as [[t [|]]|]; auto.
      + destruct (ctemp c0); auto. }
  destruct Hs1 as [Hs1 Ha1].
  rewrite crun_app. fold c1. change (ASnap r :: mid ++ [ARead]) with ([ASnap r] ++ mid ++ [ARead]).
  rewrite crun_app, crun_app.
  set (c2 := crun c1 [ASnap r]).
  assert (Hc2 : cwf c2) by (apply crun_wf; auto; repeat constructor).
  assert (E2 : rsnap c2 = Some (r, cm c1, match ctemp c1 with Some (t, _) => HTemp t | None => HLower end)).
  { subst c2. unfold crun. simpl. rewrite Hs1. reflexivity. }
  assert (A2 : rans c2 = None) by (subst c2; unfold crun; simpl; rewrite Hs1; exact Ha1).
  assert (H2 : handle_ok c2).
  { unfold handle_ok. rewrite E2. subst c2. unfold crun. simpl. rewrite Hs1. simpl.
    destruct (ctemp c1) as [[t w]|]; eauto. }
  assert (V2 : view c2 = Some (rq r (cflat c1))).
  { rewrite (view_spec c2 _ _ _ Hc2 E2 Hr). f_equal. f_equal. unfold cflat.
    assert (cx c2 = cx c1) as -> by (subst c2; unfold crun; simpl; rewrite Hs1; reflexivity).
    destruct (ctemp c1) as [[t w]|]; reflexivity. }
  destruct (view_stable_run mid c2 Hc2 Hbm H2 Hmid) as (V3 & E3 & A3 & B3).
  { intros r0 w0 h0 E. rewrite E2 in E. inv E. exact Hr. }
  set (c3 := crun c2 mid) in *.
  rewrite V2 in V3. unfold view in V3. rewrite E3, E2 in V3.
  unfold crun. simpl. rewrite E3, E2, A3, A2. simpl. exact V3.
Qed.

(* The unrestricted statement — for EVERY interleaving the answer is the range query on the one map at some instant
   between the two reader steps — is false: a batch committed and flushed (swap + write below) inside the window is
   seen in half.  Kept as a proposition and refuted by a concrete schedule. *)
Definition reader_atomic_statement : Prop :=
  forall c0 pre r mid, cwf c0 -> rsnap c0 = None -> rans c0 = None ->
    Forall batch_ok pre -> Forall batch_ok mid ->
    Forall (fun a => match a with ASnap _ | ARead => False | _ => True end) (pre ++ mid) ->
    range_ok r ->
    exists k, (k <= length mid)%nat /\
      rans (crun c0 (pre ++ ASnap r :: mid ++ [ARead])) =
      Some (rq r (cflat (crun c0 (pre ++ ASnap r :: firstn k mid)))).

Definition half_c0 : cstate :=
  {| cbk := BLevel; cm := [([112; 1], Some [1])]; ctemp := None; cx := []; rsnap := None; rans := None |}.
Definition half_r : range := {| rprefix := [112]; rstart := []; rback := false; rdepth := 0 |}.
Definition half_mid : list action :=
  [AWrite [([112; 1], Some [2]); ([112; 2], Some [2])]; ASwap; ALowerWrite; AUnswap].

Theorem reader_atomic_refuted : ~ reader_atomic_statement.
Proof.
  intros H. specialize (H half_c0 [] half_r half_mid).
  destruct H as (k & Hk & E).
  - repeat split; simpl; auto; repeat constructor; lia.
  - reflexivity.
  - reflexivity.
  - constructor.
  - repeat constructor; simpl; auto; repeat constructor; lia.
  - repeat constructor.
  - split; repeat constructor; lia.
  - simpl in Hk.
    destruct k as [|[|[|[|[|k]]]]]; try lia; vm_compute in E; discriminate.
Qed.
