(* C09 — what a reader can and cannot get when a Persist swap DOES fall between its snapshot and its lower read
   (finding F41): for EVERY schedule of writers and Persist regions, key by key, the reported value of a key (or its
   absence) is the value that key had in the one ordered map at SOME instant of the reader's interval; consequently a
   key whose value does not change during the interval is reported exactly.  The damage of F41 is therefore confined to
   combining values of DIFFERENT keys from different instants of the interval; no value is invented, no stale value
   from before the interval is resurrected, no unaffected key is lost.
   (SeekGC of the base store inside the interval is excluded: it removes keys behind the cache layers' back.) *)
From NG Require Import Common.Tactics Store.Bytes Store.Model Store.Spec Store.MapLemmas Store.MergeProof Store.Refine
  Store.GcProof Store.Conc.
Open Scope N_scope.

Definition plain_action (a : action) : Prop :=
  match a with ASnap _ | ARead | AGc _ _ => False | _ => True end.

Lemma plain_keeps_reader c a : plain_action a ->
  rsnap (cstep c a) = rsnap c /\ rans (cstep c a) = rans c /\ cbk (cstep c a) = cbk c.
Proof.
  destruct a; simpl; try contradiction; intros _; auto.
  - destruct (ctemp c); auto. destruct (cm c); auto.
  - destruct (ctemp c) as [[t [|]]|]; auto.
  - destruct (ctemp c) as [[t [|]]|]; auto.
Qed.

(* the one map, key by key *)
Definition below_k (k : key) (c : cstate) : option val :=
  match ctemp c with
  | Some (t, _) => over (lookup k t) (lookup k (cx c))
  | None => lookup k (cx c)
  end.
Definition flat_k (k : key) (c : cstate) : option val := over (lookup k (cm c)) (below_k k c).

Lemma cflat_lookup k c : cwf c -> lookup k (cflat c) = flat_k k c.
Proof.
  intros (Sm & Km & Sx & Kx & Ht & _). unfold cflat, flat_k, below_k.
  destruct (ctemp c) as [[t w]|].
  - destruct Ht as (St & Kt & _). rewrite !lookup_apply_writes; auto using sorted_apply_writes.
  - now rewrite lookup_apply_writes.
Qed.

(* the reader's prospective value for k *)
Definition view_k (k : key) (w : lmap) (h : handle) (c : cstate) : option val :=
  over (lookup k w) (match h with HTemp t => over (lookup k t) (lookup k (cx c)) | HLower => lookup k (cx c) end).

Lemma view_lookup c r w h k : cwf c -> rsnap c = Some (r, w, h) -> range_ok r ->
  exists ans, view c = Some ans /\ sorted (rback r) ans /\
    lookup k ans = if in_range (rprefix r) (rstart r) (rback r) k then view_k k w h c else None.
Proof.
  intros Hc Es Hr. rewrite (view_spec c r w h Hc Es Hr). eexists. split; [reflexivity|].
  destruct Hc as (Sm & Km & Sx & Kx & Ht & Hs). rewrite Es in Hs. destruct Hs as (Sw & Kw & Hh).
  assert (Sl : sorted false (match h with HTemp t => apply_writes t (cx c) | HLower => cx c end)).
  { destruct h; auto. destruct Hh. now apply sorted_apply_writes. }
  split; [apply sorted_rq; now apply sorted_apply_writes|].
  rewrite lookup_rq by now apply sorted_apply_writes.
  destruct (in_range (rprefix r) (rstart r) (rback r) k); auto.
  rewrite lookup_apply_writes by auto. unfold view_k. destruct h as [|t]; auto.
  destruct Hh. now rewrite lookup_apply_writes.
Qed.

Section Window.
  Variable cs : cstate.          (* the state right after the reader's snapshot *)
  Variable r : range.
  Variable w : lmap.
  Variable h : handle.
  Variable k : key.
  Hypothesis Hcs : cwf cs.
  Hypothesis Es : rsnap cs = Some (r, w, h).
  Hypothesis Hw : w = cm cs.
  Hypothesis Hh : h = match ctemp cs with Some (t, _) => HTemp t | None => HLower end.

  (* v was the value of k in the one map at some instant among the first |done| steps after the snapshot *)
  Definition Seen (done : list action) (v : option val) : Prop :=
    exists j, (j <= length done)%nat /\ v = flat_k k (crun cs (firstn j done)).

  Lemma Seen_mono done a v : Seen done v -> Seen (done ++ [a]) v.
  Proof.
    intros (j & Hj & E). exists j. split; [rewrite app_length; simpl; lia|].
    rewrite firstn_app. replace (j - length done)%nat with 0%nat by lia. simpl. now rewrite app_nil_r.
  Qed.

  Lemma Seen_now done : Seen done (flat_k k (crun cs done)).
  Proof. exists (length done). split; auto. now rewrite firstn_all. Qed.

  Definition Inv (done : list action) : Prop :=
    let c := crun cs done in
    cwf c /\ rsnap c = Some (r, w, h) /\
    Seen done (view_k k w h c) /\
    match ctemp c with
    | Some (t', _) => h = HTemp t' \/ (forall ov, lookup k t' = Some ov -> Seen done ov)
    | None => True
    end.

  Lemma Inv_start : Inv [].
  Proof.
    unfold Inv, crun. simpl. split; [exact Hcs|split; [exact Es|split]].
    - exists 0%nat. split; auto. simpl. unfold crun. simpl. unfold view_k, flat_k, below_k. subst w h.
      destruct (ctemp cs) as [[t b]|]; reflexivity.
    - subst h. destruct (ctemp cs) as [[t b]|]; auto.
  Qed.

  Lemma Inv_step done a : plain_action a -> batch_ok a -> Inv done -> Inv (done ++ [a]).
  Proof.
    intros Hp Hb (Hc & Er & Hv & Ht). unfold Inv. rewrite crun_app. set (c := crun cs done) in *.
    change (crun c [a]) with (cstep c a).
    pose proof (cstep_wf c a Hc Hb) as Hc'.
    destruct (plain_keeps_reader c a Hp) as (E1 & _ & _).
    split; [exact Hc'|]. split; [now rewrite E1|].
    pose proof Hc as (Sm & Km & Sx & Kx & Htw & Hs).
    destruct a as [b| | | |r0| |r0 g0]; simpl in Hp; try contradiction; simpl.
    - (* a write into L: the reader's view does not move; the tempstore is the same *)
      split; [now apply Seen_mono|].
      destruct (ctemp c) as [[t' b']|]; auto. destruct Ht as [Ht|Ht]; auto. right. intros ov Hov. apply Seen_mono; auto.
    - (* swap *)
      destruct (ctemp c) as [[t' b']|] eqn:Et.
      + split; [now apply Seen_mono|]. rewrite Et. destruct Ht as [Ht|Ht]; auto. right. intros ov Hov. apply Seen_mono; auto.
      + destruct (cm c) as [|e m] eqn:Em.
        * split; [now apply Seen_mono|]. now rewrite Et.
        * simpl. split; [now apply Seen_mono|]. right. intros ov Hov.
          (* just before this swap the key's value in the one map was ov: the maps were on top *)
          apply Seen_mono. destruct (Seen_now done) as (j & Hj & E). exists j. split; auto. rewrite <- E.
          change (crun cs done) with c. unfold flat_k. rewrite Em.
          change (lookup k (e :: m) = Some ov) in Hov. rewrite Hov. reflexivity.
    - (* the write below *)
      destruct (ctemp c) as [[t' [|]]|] eqn:Et; try (split; [now apply Seen_mono|]; rewrite ?Et; auto;
        destruct Ht as [Ht|Ht]; auto; right; intros ov Hov; apply Seen_mono; auto; fail).
      destruct Htw as (St & Kt & _). simpl.
      split.
      + unfold view_k. simpl. rewrite lookup_apply_writes by auto.
        unfold view_k in Hv.
        destruct (lookup k w) as [ov|] eqn:Ew; [now apply Seen_mono|]. simpl in *.
        destruct h as [|th] eqn:Eh.
        * destruct (lookup k t') as [ov|] eqn:El; simpl; [|now apply Seen_mono].
          destruct Ht as [Ht|Ht]; [discriminate|]. apply Seen_mono. now apply Ht.
        * destruct (lookup k th) as [ov|] eqn:El2; simpl in *; [now apply Seen_mono|].
          destruct (lookup k t') as [ov|] eqn:El; simpl; [|now apply Seen_mono].
          destruct Ht as [Ht|Ht]; [inv Ht; congruence|]. apply Seen_mono. now apply Ht.
      + destruct Ht as [Ht|Ht]; auto. right. intros ov Hov. apply Seen_mono; auto.
    - (* unswap *)
      destruct (ctemp c) as [[t' [|]]|] eqn:Et; try (split; [now apply Seen_mono|]; rewrite ?Et; auto;
        destruct Ht as [Ht|Ht]; auto; right; intros ov Hov; apply Seen_mono; auto; fail).
      all: try (simpl; split; [now apply Seen_mono|auto]).
  Qed.

  Lemma Inv_run mid : Forall plain_action mid -> Forall batch_ok mid -> forall done, Inv done -> Inv (done ++ mid).
  Proof.
    induction mid as [|a mid IH]; intros Hp Hb done Hi; [now rewrite app_nil_r|].
    inv Hp. inv Hb. change (a :: mid) with ([a] ++ mid). rewrite app_assoc. apply IH; auto. now apply Inv_step.
  Qed.
End Window.

Lemma plain_run_rans l : forall c, Forall plain_action l -> rans (crun c l) = rans c.
Proof.
  unfold crun. induction l as [|a l IH]; simpl; auto. intros c H. inv H. rewrite IH by auto.
  now destruct (plain_keeps_reader c a H2) as (_ & E & _).
Qed.

(* F41 bounded: every schedule of writers and Persist regions (swaps included) between the two reader steps *)
Theorem reader_pairwise_bounded c0 pre r mid :
  cwf c0 -> rsnap c0 = None -> rans c0 = None ->
  Forall batch_ok pre -> Forall batch_ok mid ->
  Forall (fun a => match a with ASnap _ | ARead => False | _ => True end) pre ->
  Forall plain_action mid ->
  range_ok r ->
  exists ans,
    rans (crun c0 (pre ++ ASnap r :: mid ++ [ARead])) = Some ans /\
    sorted (rback r) ans /\
    forall k, exists j, (j <= length mid)%nat /\
      lookup k ans = if in_range (rprefix r) (rstart r) (rback r) k
                     then lookup k (cflat (crun c0 (pre ++ ASnap r :: firstn j mid))) else None.
Proof.
  intros Hc0 Hs0 Ha0 Hbp Hbm Hpre Hmid Hr.
  set (c1 := crun c0 pre).
  assert (Hc1 : cwf c1) by now apply crun_wf.
  assert (Hs1 : rsnap c1 = None /\ rans c1 = None).
  { subst c1. clear -Hs0 Ha0 Hpre. revert c0 Hs0 Ha0. unfold crun.
    induction pre as [|a pre IH]; simpl; auto. intros c0 Hs0 Ha0. inv Hpre. apply IH; auto.
    - destruct a; simpl; auto; try contradiction.
      + destruct (ctemp c0); auto. destruct (cm c0); auto.
      + destruct (ctemp c0) as [[t [|]]|]; auto.
      + destruct (ctemp c0) as [[t [|]]|]; auto.
      + destruct (ctemp c0); auto.
    - destruct a; simpl; auto; try contradiction.
      + destruct (ctemp c0); auto. destruct (cm c0); auto.
      + destruct (ctemp c0) as [[t [|]]|]; auto.
      + destruct (ctemp c0) as [[t [|]]|]; auto.
      + destruct (ctemp c0); auto. }
  destruct Hs1 as [Hs1 Ha1].
  set (cs := cstep c1 (ASnap r)).
  assert (Hcs : cwf cs) by (apply cstep_wf; simpl; auto).
  set (h := match ctemp c1 with Some (t, _) => HTemp t | None => HLower end).
  assert (Es : rsnap cs = Some (r, cm c1, h)) by (subst cs h; simpl; now rewrite Hs1).
  assert (Ecm : cm cs = cm c1 /\ ctemp cs = ctemp c1 /\ rans cs = None).
  { subst cs. simpl. rewrite Hs1. simpl. auto. }
  destruct Ecm as (Ecm & Ect & Eans).
  assert (Erun : forall l, crun c0 (pre ++ ASnap r :: l) = crun cs l).
  { intros l. rewrite crun_app. fold c1. reflexivity. }
  (* the invariant along mid, for every key *)
  assert (HI : forall k, Inv cs r (cm c1) h k mid).
  { intros k.
    assert (Eh : h = match ctemp cs with Some (t, _) => HTemp t | None => HLower end) by now rewrite Ect.
    apply (Inv_run cs r (cm c1) h k Es (eq_sym Ecm) Eh mid Hmid Hbm []).
    apply Inv_start; auto. }
  set (c3 := crun cs mid).
  destruct (HI [112]) as (Hc3 & E3 & _ & _). fold c3 in Hc3, E3.
  assert (A3 : rans c3 = None).
  { subst c3. rewrite plain_run_rans by auto. exact Eans. }
  destruct (view_lookup c3 r (cm c1) h [112] Hc3 E3 Hr) as (ans & Ev & Sa & _).
  exists ans. split; [|split; auto].
  - rewrite Erun, crun_app. fold c3. unfold crun. simpl. rewrite E3, A3. simpl.
    unfold view in Ev. rewrite E3 in Ev. exact Ev.
  - intros k. destruct (HI k) as (_ & _ & (j & Hj & Ej) & _). fold c3 in Ej.
    destruct (view_lookup c3 r (cm c1) h k Hc3 E3 Hr) as (ans' & Ev' & _ & El). rewrite Ev in Ev'. inv Ev'.
    exists j. split; auto. rewrite El, Erun.
    destruct (in_range (rprefix r) (rstart r) (rback r) k); auto.
    rewrite Ej. symmetry. apply cflat_lookup.
    apply crun_wf; auto.
    clear -Hbm. revert Hbm. generalize mid. induction j as [|j IH]; intros [|a l] H; simpl; auto. inv H. constructor; auto.
Qed.

(* a key the interval does not touch is reported exactly *)
Corollary reader_untouched_key_exact c0 pre r mid k v :
  cwf c0 -> rsnap c0 = None -> rans c0 = None ->
  Forall batch_ok pre -> Forall batch_ok mid ->
  Forall (fun a => match a with ASnap _ | ARead => False | _ => True end) pre ->
  Forall plain_action mid ->
  range_ok r ->
  (forall j, (j <= length mid)%nat -> lookup k (cflat (crun c0 (pre ++ ASnap r :: firstn j mid))) = v) ->
  exists ans, rans (crun c0 (pre ++ ASnap r :: mid ++ [ARead])) = Some ans /\
    lookup k ans = if in_range (rprefix r) (rstart r) (rback r) k then v else None.
Proof.
  intros Hc0 Hs0 Ha0 Hbp Hbm Hpre Hmid Hr Hk.
  destruct (reader_pairwise_bounded c0 pre r mid Hc0 Hs0 Ha0 Hbp Hbm Hpre Hmid Hr) as (ans & E & _ & H).
  exists ans. split; auto. destruct (H k) as (j & Hj & El). rewrite El. now rewrite (Hk j Hj).
Qed.

(* ---- SeekGC of the base store against a reader: the reader sees the GC entirely or not at all ---- *)

Definition is_gc (a : action) : Prop := match a with AGc _ _ => True | _ => False end.

Lemma gc_run_keeps l : forall c, Forall is_gc l ->
  cm (crun c l) = cm c /\ ctemp (crun c l) = ctemp c /\ rsnap (crun c l) = rsnap c /\ rans (crun c l) = rans c.
Proof.
  unfold crun. induction l as [|a l IH]; simpl; auto. intros c H. inv H.
  destruct a; simpl in H2; try contradiction. destruct (IH (cstep c (AGc r g)) H3) as (E1 & E2 & E3 & E4).
  rewrite E1, E2, E3, E4. simpl. destruct (ctemp c) eqn:Et; simpl; auto.
Qed.

(* While no Persist is in flight and no writer runs, any number of base-store GCs may fall between the reader's
   snapshot and its lower read: the answer is the range query on the one map at the instant of the lower read. *)
Theorem reader_gc_atomic c0 pre r mid :
  cwf c0 -> rsnap c0 = None -> rans c0 = None ->
  Forall batch_ok pre ->
  Forall (fun a => match a with ASnap _ | ARead => False | _ => True end) pre ->
  ctemp (crun c0 pre) = None ->
  Forall is_gc mid ->
  range_ok r ->
  rans (crun c0 (pre ++ ASnap r :: mid ++ [ARead])) = Some (rq r (cflat (crun c0 (pre ++ ASnap r :: mid)))).
Proof.
  intros Hc0 Hs0 Ha0 Hbp Hpre Hidle Hmid Hr.
  set (c1 := crun c0 pre) in *.
  assert (Hc1 : cwf c1) by now apply crun_wf.
  assert (Hs1 : rsnap c1 = None /\ rans c1 = None).
  { subst c1. clear -Hs0 Ha0 Hpre. revert c0 Hs0 Ha0. unfold crun.
    induction pre as [|a pre IH]; simpl; auto. intros c0 Hs0 Ha0. inv Hpre. apply IH; auto.
    - destruct a; simpl; auto; try contradiction.
      + destruct (ctemp c0); auto. destruct (cm c0); auto.
      + destruct (ctemp c0) as [[t [|]]|]; auto.
      + destruct (ctemp c0) as [[t [|]]|]; auto.
      + destruct (ctemp c0); auto.
    - destruct a; simpl; auto; try contradiction.
      + destruct (ctemp c0); auto. destruct (cm c0); auto.
      + destruct (ctemp c0) as [[t [|]]|]; auto.
      + destruct (ctemp c0) as [[t [|]]|]; auto.
      + destruct (ctemp c0); auto. }
  destruct Hs1 as [Hs1 Ha1].
  set (cs := cstep c1 (ASnap r)).
  assert (Hcs : cwf cs) by (apply cstep_wf; simpl; auto).
  assert (Es : rsnap cs = Some (r, cm c1, HLower) /\ cm cs = cm c1 /\ ctemp cs = None /\ rans cs = None).
  { subst cs. simpl. rewrite Hs1, Hidle. simpl. auto. }
  destruct Es as (Es & Ecm & Ect & Eans).
  assert (Erun : forall l, crun c0 (pre ++ ASnap r :: l) = crun cs l).
  { intros l. rewrite crun_app. fold c1. reflexivity. }
  rewrite !Erun, crun_app.
  set (c3 := crun cs mid).
  destruct (gc_run_keeps mid cs Hmid) as (E1 & E2 & E3 & E4). fold c3 in E1, E2, E3, E4.
  assert (Hc3 : cwf c3).
  { apply crun_wf; auto. clear -Hmid. induction Hmid; constructor; auto. destruct x; simpl in *; auto; contradiction. }
  unfold crun at 1. simpl. rewrite E3, Es, E4, Eans. simpl. f_equal.
  pose proof (view_spec c3 r (cm c1) HLower Hc3 (eq_trans E3 Es) Hr) as V. unfold view in V. rewrite E3, Es in V.
  inv V. rewrite H0. unfold cflat. now rewrite E1, E2, Ecm, Ect.
Qed.
