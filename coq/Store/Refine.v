(* C09 — refinement: Get and every Seek of the layered store answer like the one ordered map [flat];
   the three base stores answer alike; every lock region of a flush leaves [flat] unchanged. *)
From NG Require Import Common.Tactics Store.Bytes Store.Model Store.Spec Store.MapLemmas Store.MergeProof.
Open Scope N_scope.

(* ------------------------------------------------------------------ well-formed stacks *)

Definition keys_ok {A} (m : list (key * A)) : Prop := Forall (fun kv => bytes_ok (fst kv)) m.
Definition wf_layers (ls : list layer) : Prop := Forall (fun L => sorted false (lm L) /\ keys_ok (lm L)) ls.
Definition wf (s : stack) : Prop := wf_layers (layers s) /\ sorted false (base s) /\ keys_ok (base s).
Definition range_ok (r : range) : Prop := bytes_ok (rprefix r) /\ bytes_ok (rstart r).

(* ------------------------------------------------------------------ the in-memory filter is the range *)

Lemma is_key_ok_in_range r k : is_key_ok r k = in_range (rprefix r) (rstart r) (rback r) k.
Proof.
  unfold is_key_ok, in_range. destruct (has_prefix (rprefix r) k) eqn:Hp; [|reflexivity].
  cbn [andb]. pose proof (has_prefix_split _ _ Hp) as Ek.
  set (sfx := skipn (length (rprefix r)) k) in *.
  destruct (rstart r) as [|s0 S] eqn:Es.
  - cbn [isnil orb]. rewrite app_nil_r. destruct (rback r).
    + rewrite Hp. now rewrite orb_true_r.
    + symmetry. apply ble_true. now apply has_prefix_le.
  - cbn [isnil orb]. rewrite Ek. unfold ble. rewrite !bcmp_app, has_prefix_app. reflexivity.
Qed.

Lemma filter_ext_in {A} (f g : A -> bool) l : (forall x, In x l -> f x = g x) -> filter f l = filter g l.
Proof.
  induction l as [|x l IH]; simpl; auto. intros H.
  rewrite (H x) by auto. rewrite IH by auto. reflexivity.
Qed.

Lemma mem_seek_rq r (b : kvs) : mem_seek r b = rq r b.
Proof.
  unfold mem_seek, rq, range_query. f_equal. apply filter_ext_in. intros x _. apply is_key_ok_in_range.
Qed.

(* ------------------------------------------------------------------ the disk ranges are the range *)

Lemma ble_refl a : ble a a = true.
Proof. unfold ble. now rewrite bcmp_refl. Qed.

Lemma ble_app_r p s : ble p (p ++ s) = true.
Proof. apply ble_true. apply has_prefix_le. rewrite <- (app_nil_r p) at 1. now rewrite has_prefix_app. Qed.

Lemma ble_trans a b c : ble a b = true -> ble b c = true -> ble a c = true.
Proof.
  rewrite !ble_true. intros H1 H2 H3.
  destruct (bcmp a b) eqn:E1; try congruence.
  - apply bcmp_eq in E1. subst. congruence.
  - destruct (bcmp b c) eqn:E2; try congruence.
    + apply bcmp_eq in E2. subst. congruence.
    + rewrite (bcmp_lt_trans _ _ _ E1 E2) in H3. discriminate.
Qed.

Lemma bytes_ok_app a b : bytes_ok a -> bytes_ok b -> bytes_ok (a ++ b).
Proof. intros Ha Hb. apply Forall_app. split; assumption. Qed.

(* [Start, Limit) of seekRangeToPrefixes is the range of the specification *)
Lemma bounds_in_range r k : range_ok r -> bytes_ok k ->
  (let '(lo, hi) := seek_bounds r in ble lo k && lt_lim k hi) = in_range (rprefix r) (rstart r) (rback r) k.
Proof.
  intros [HP HS] Hk. unfold seek_bounds, in_range.
  set (P := rprefix r) in *. set (S := rstart r) in *.
  destruct (rback r).
  - (* backward: [P, succ (P++S)) *)
    rewrite succ_prefix_spec by auto using bytes_ok_app.
    destruct (has_prefix (P ++ S) k) eqn:Hps.
    + pose proof (has_prefix_app_l _ _ _ Hps) as Hp. rewrite Hp.
      rewrite !orb_true_r, !andb_true_r. apply ble_true. now apply has_prefix_le.
    + rewrite !orb_false_r. rewrite (ble_lt_or_eq k (P ++ S)).
      assert (beq k (P ++ S) = false) as ->.
      { apply beq_false. intros ->. now rewrite has_prefix_refl in Hps. }
      rewrite orb_false_r.
      destruct (blt k (P ++ S)) eqn:Hlt; [|now rewrite !andb_false_r].
      rewrite !andb_true_r.
      destruct (ble P k) eqn:Hle.
      * symmetry. eapply between_prefix; [apply ble_true; eauto|apply blt_true; eauto].
      * symmetry. destruct (has_prefix P k) eqn:Hp; auto.
        apply has_prefix_le in Hp. apply ble_true in Hp. congruence.
  - (* forward: [P++S, succ P) *)
    rewrite succ_prefix_spec by auto.
    destruct (ble (P ++ S) k) eqn:Hle; [|now rewrite andb_false_r].
    cbn [andb]. rewrite andb_true_r.
    assert (blt k P = false) as ->.
    { pose proof (ble_trans _ _ _ (ble_app_r P S) Hle) as H. apply ble_true in H.
      unfold blt. destruct (bcmp k P) eqn:E; auto. apply bcmp_gt_lt in E. congruence. }
    reflexivity.
Qed.

Lemma level_seek_rq r (b : kvs) : range_ok r -> keys_ok b -> level_seek r b = rq r b.
Proof.
  intros Hr Hb. unfold level_seek, rq, range_query.
  pose proof (fun k => bounds_in_range r k Hr) as H.
  destruct (seek_bounds r) as [lo hi]. f_equal. apply filter_ext_in.
  intros [k v] Hin. apply H. unfold keys_ok in Hb. rewrite Forall_forall in Hb. apply (Hb _ Hin).
Qed.

(* --- the Bolt cursor loop: take_while/drop_while on an ordered list are filters --- *)

Lemma take_while_filter {A} (f : A -> bool) l :
  (forall l1 x l2 y, l = l1 ++ x :: l2 -> In y l2 -> f x = false -> f y = false) ->
  take_while f l = filter f l.
Proof.
  induction l as [|x l IH]; simpl; auto. intros H.
  destruct (f x) eqn:Fx.
  - f_equal. apply IH. intros l1 x' l2 y E. apply (H (x :: l1) x' l2 y). simpl. now rewrite E.
  - symmetry. assert (forall y, In y l -> f y = false) as Hall.
    { intros y Hy. apply (H [] x l y); auto. }
    clear -Hall. induction l as [|y l IH]; simpl; auto.
    rewrite Hall by (left; reflexivity). apply IH. intros; apply Hall; now right.
Qed.

Lemma drop_while_filter {A} (f : A -> bool) l :
  (forall l1 x l2 y, l = l1 ++ x :: l2 -> In y l2 -> f x = false -> f y = false) ->
  drop_while f l = filter (fun x => negb (f x)) l.
Proof.
  induction l as [|x l IH]; simpl; auto. intros H.
  destruct (f x) eqn:Fx; simpl.
  - apply IH. intros l1 x' l2 y E. apply (H (x :: l1) x' l2 y). simpl. now rewrite E.
  - f_equal. assert (forall y, In y l -> f y = false) as Hall.
    { intros y Hy. apply (H [] x l y); auto. }
    clear -Hall. induction l as [|y l IH]; simpl; auto.
    rewrite Hall by (left; reflexivity). simpl. f_equal. apply IH. intros; apply Hall; now right.
Qed.

Lemma sorted_split_lt {A} bw (l l1 l2 : list (key * A)) x y :
  sorted bw l -> l = l1 ++ x :: l2 -> In y l2 -> cmpf bw (fst x) (fst y) = Lt.
Proof.
  intros S -> Hin. apply sorted_app in S as (_ & S2 & _).
  destruct x as [kx ax], y as [ky ay]. simpl in S2. destruct S2 as [G _].
  rewrite all_gt_in in G. simpl. eauto.
Qed.

Lemma filter_filter {A} (f g : A -> bool) l : filter f (filter g l) = filter (fun x => g x && f x) l.
Proof.
  induction l as [|x l IH]; simpl; auto. destruct (g x); simpl; [destruct (f x)|]; now rewrite IH.
Qed.

Lemma filter_rev {A} (f : A -> bool) l : filter f (rev l) = rev (filter f l).
Proof.
  induction l as [|x l IH]; simpl; auto. rewrite filter_app, IH. simpl.
  destruct (f x); simpl; auto. now rewrite app_nil_r.
Qed.

Lemma blt_ble_false a b : blt a b = true -> ble b a = false.
Proof.
  rewrite blt_true. intros H. unfold ble. apply bcmp_gt_lt in H. now rewrite H.
Qed.

Lemma ble_blt_false a b : ble a b = true -> blt b a = false.
Proof.
  intros H. destruct (blt b a) eqn:E; auto. apply blt_ble_false in E. congruence.
Qed.

Lemma negb_blt a b : negb (blt a b) = ble b a.
Proof.
  unfold blt, ble. rewrite (bcmp_antisym a b). destruct (bcmp a b); reflexivity.
Qed.

Lemma bolt_seek_rq r (b : kvs) : range_ok r -> keys_ok b -> sorted false b -> bolt_seek r b = rq r b.
Proof.
  intros Hr Hb Sb. unfold rq, range_query.
  pose proof Hr as [HP HS].
  assert (Hk : forall kv, In kv b -> bytes_ok (fst kv)) by (apply Forall_forall; exact Hb).
  unfold bolt_seek. unfold seek_bounds.
  destruct (rback r) eqn:Ebw.
  - (* backward *)
    assert (HB : forall k, bytes_ok k ->
              ble (rprefix r) k && lt_lim k (succ_prefix (rprefix r ++ rstart r)) = in_range (rprefix r) (rstart r) true k).
    { intros k Hk'. pose proof (bounds_in_range r k Hr Hk') as H. unfold seek_bounds in H. rewrite Ebw in H. exact H. }
    set (P := rprefix r) in *. set (S := rstart r) in *.
    set (hi := succ_prefix (P ++ S)) in *.
    set (below := match hi with None => b | Some l => take_while (fun kv : key * val => blt (fst kv) l) b end).
    assert (Hbelow : below = filter (fun kv => lt_lim (fst kv) hi) b).
    { subst below. destruct hi as [l|]; simpl.
      - apply take_while_filter. intros l1 x l2 y E Hin Fx.
        pose proof (sorted_split_lt false b l1 l2 x y Sb E Hin) as Hlt. simpl in Hlt.
        unfold blt in *. destruct (bcmp (fst x) l) eqn:E1; try discriminate.
        + apply bcmp_eq in E1. subst l. apply bcmp_gt_lt in Hlt. now rewrite Hlt.
        + apply bcmp_gt_lt in E1. rewrite (proj2 (bcmp_gt_lt _ _) (bcmp_lt_trans _ _ _ E1 Hlt)). reflexivity.
      - clear. induction b as [|x l IH]; simpl; auto. now f_equal. }
    rewrite Hbelow.
    rewrite take_while_filter.
    + rewrite filter_rev, filter_filter. simpl. f_equal. apply filter_ext_in.
      intros [k v] Hin. cbn [fst]. specialize (HB k (Hk _ Hin)). cbn [fst] in HB. rewrite <- HB.
      destruct (lt_lim k hi) eqn:Elim; [|now rewrite andb_false_r].
      cbn [andb]. rewrite andb_true_r.
      assert (match hi with Some l => ble k l | None => true end = true) as ->.
      { destruct hi as [l|]; auto. simpl in Elim. rewrite ble_lt_or_eq, Elim. reflexivity. }
      rewrite andb_true_r.
      (* below the limit: having prefix P is being at or above P *)
      unfold in_range in HB. rewrite andb_true_r in HB.
      destruct (has_prefix P k) eqn:Hp.
      * symmetry. apply ble_true. now apply has_prefix_le.
      * cbn [andb] in HB. symmetry. exact HB.
    + (* once a key lacks the prefix (going down), all further keys lack it *)
      intros l1 x l2 y E Hin Fx.
      assert (Sr : sorted true (rev (filter (fun kv : key * val => lt_lim (fst kv) hi) b))).
      { apply (sorted_rev false). now apply sorted_filter. }
      pose proof (sorted_split_lt true _ l1 l2 x y Sr E Hin) as Hlt. simpl in Hlt.
      assert (Hinx : In x (rev (filter (fun kv : key * val => lt_lim (fst kv) hi) b))).
      { rewrite E. apply in_or_app. right. now left. }
      assert (Hiny : In y (rev (filter (fun kv : key * val => lt_lim (fst kv) hi) b))).
      { rewrite E. apply in_or_app. right. now right. }
      apply in_rev, filter_In in Hinx as [Hxb Hxl]. apply in_rev, filter_In in Hiny as [Hyb Hyl].
      assert (match hi with Some l => ble (fst x) l | None => true end = true) as Ex.
      { destruct hi as [l|]; auto. simpl in Hxl. rewrite ble_lt_or_eq, Hxl. reflexivity. }
      rewrite Ex, andb_true_r in Fx.
      destruct (has_prefix P (fst y)) eqn:Hpy; auto. exfalso.
      (* y < x < limit of P++S and y has prefix P: then x has prefix P *)
      pose proof (HB (fst x) (Hk _ Hxb)) as HBx. rewrite Hxl, andb_true_r in HBx.
      unfold in_range in HBx. rewrite Fx in HBx. cbn [andb] in HBx.
      assert (ble P (fst x) = true).
      { apply has_prefix_le in Hpy. apply ble_true in Hpy. eapply ble_trans; eauto.
        rewrite ble_lt_or_eq. apply blt_true in Hlt. now rewrite Hlt. }
      congruence.
  - (* forward *)
    assert (HB : forall k, bytes_ok k ->
              ble (rprefix r ++ rstart r) k && lt_lim k (succ_prefix (rprefix r)) = in_range (rprefix r) (rstart r) false k).
    { intros k Hk'. pose proof (bounds_in_range r k Hr Hk') as H. unfold seek_bounds in H. rewrite Ebw in H. exact H. }
    set (P := rprefix r) in *. set (S := rstart r) in *.
    set (hi := succ_prefix P) in *.
    rewrite drop_while_filter.
    + rewrite take_while_filter.
      * rewrite filter_filter. simpl. apply filter_ext_in.
        intros [k v] Hin. cbn [fst]. specialize (HB k (Hk _ Hin)). cbn [fst] in HB. rewrite <- HB.
        rewrite negb_blt.
        destruct (ble (P ++ S) k) eqn:Hle; [|reflexivity]. cbn [andb].
        unfold in_range in HB. rewrite Hle in HB. cbn [andb] in HB. rewrite andb_true_r in HB.
        rewrite HB. destruct (has_prefix P k) eqn:Hp; auto. cbn [andb].
        destruct hi as [l|]; auto.
        assert (lt_lim k (Some l) = true) as Hl by (rewrite HB; reflexivity).
        simpl in Hl. rewrite ble_lt_or_eq, Hl. reflexivity.
      * intros l1 x l2 y E Hin Fx.
        assert (Sf : sorted false (filter (fun x0 : key * val => negb (blt (fst x0) (P ++ S))) b)) by now apply sorted_filter.
        pose proof (sorted_split_lt false _ l1 l2 x y Sf E Hin) as Hlt. simpl in Hlt.
        assert (Hinx : In x (filter (fun x0 : key * val => negb (blt (fst x0) (P ++ S))) b)).
        { rewrite E. apply in_or_app. right. now left. }
        assert (Hiny : In y (filter (fun x0 : key * val => negb (blt (fst x0) (P ++ S))) b)).
        { rewrite E. apply in_or_app. right. now right. }
        apply filter_In in Hinx as [Hxb Hxl]. apply filter_In in Hiny as [Hyb Hyl].
        rewrite negb_blt in Hxl, Hyl.
        destruct (has_prefix P (fst y)) eqn:Hpy; auto.
        (* x in [P++S, y], y has prefix P: x has prefix P and is below the limit *)
        assert (Hpx : has_prefix P (fst x) = true).
        { eapply (prefix_interval P (fst x) (fst y)); eauto.
          - apply ble_true. eapply ble_trans; [apply (ble_app_r P S)|exact Hxl].
          - rewrite Hlt. discriminate. }
        rewrite Hpx in Fx. cbn [andb] in Fx.
        pose proof (HB (fst x) (Hk _ Hxb)) as HBx. unfold in_range in HBx.
        rewrite Hxl, Hpx in HBx. cbn [andb] in HBx.
        destruct hi as [l|]; [|discriminate]. simpl in HBx.
        rewrite ble_lt_or_eq, HBx in Fx. discriminate.
    + intros l1 x l2 y E Hin Fx.
      pose proof (sorted_split_lt false b l1 l2 x y Sb E Hin) as Hlt. simpl in Hlt.
      unfold blt in *. destruct (bcmp (fst x) (P ++ S)) eqn:E1; try discriminate.
      * apply bcmp_eq in E1. rewrite <- E1. apply bcmp_gt_lt in Hlt. now rewrite Hlt.
      * apply bcmp_gt_lt in E1. rewrite (proj2 (bcmp_gt_lt _ _) (bcmp_lt_trans _ _ _ E1 Hlt)). reflexivity.
Qed.

(* all three base stores answer alike: the range query on their content *)
Theorem base_seek_rq bk r (b : kvs) : range_ok r -> keys_ok b -> sorted false b -> base_seek bk r b = rq r b.
Proof.
  intros Hr Hb Sb. destruct bk; simpl.
  - apply mem_seek_rq.
  - now apply bolt_seek_rq.
  - now apply level_seek_rq.
Qed.

(* ------------------------------------------------------------------ range queries: order, lookups *)

Lemma sorted_rq r m : sorted false m -> sorted (rback r) (rq r m).
Proof. intros S. unfold rq, range_query. apply sorted_dir. now apply sorted_filter. Qed.

Lemma lookup_rq r k m : sorted false m ->
  lookup k (rq r m) = if in_range (rprefix r) (rstart r) (rback r) k then lookup k m else None.
Proof.
  intros S. unfold rq, range_query. rewrite lookup_dir by now apply sorted_filter.
  apply (lookup_filter (in_range (rprefix r) (rstart r) (rback r))).
Qed.

Lemma sorted_snapshot r (m : lmap) : sorted false m -> sorted (rback r) (snapshot r m).
Proof. intros S. unfold snapshot. apply sorted_dir. now apply sorted_filter. Qed.

Lemma lookup_snapshot r k (m : lmap) : sorted false m ->
  lookup k (snapshot r m) = if in_range (rprefix r) (rstart r) (rback r) k then lookup k m else None.
Proof.
  intros S. unfold snapshot. rewrite lookup_dir by now apply sorted_filter.
  rewrite (lookup_filter (is_key_ok r)). now rewrite is_key_ok_in_range.
Qed.

(* merging a layer's snapshot with the range query of what is below = range query of the layer applied *)
Lemma smerge_rq r (w : lmap) (X : kvs) : sorted false w -> sorted false X ->
  smerge (rback r) (snapshot r w) (rq r X) = rq r (apply_writes w X).
Proof.
  intros Sw SX. apply (sorted_ext (rback r)).
  - apply sorted_smerge; auto using sorted_snapshot, sorted_rq.
  - apply sorted_rq. now apply sorted_apply_writes.
  - intros k. rewrite lookup_smerge by auto using sorted_snapshot, sorted_rq.
    rewrite lookup_snapshot, !lookup_rq by auto using sorted_apply_writes.
    rewrite lookup_apply_writes by auto.
    destruct (in_range (rprefix r) (rstart r) (rback r) k); reflexivity.
Qed.

Lemma rq_nil r : rq r [] = [].
Proof. unfold rq, range_query. simpl. now destruct (rback r). Qed.

Lemma rq_set_depth r d m : rq (set_depth r d) m = rq r m.
Proof. reflexivity. Qed.

(* one MemCachedStore over a lower store whose answer is the range query of X *)
Lemma layer_seek_rq cut r (w : lmap) (X : kvs) : sorted false w -> sorted false X ->
  layer_seek cut r w (Some (rq r X)) = trim cut (length (rprefix r)) (rq r (apply_writes w X)).
Proof.
  intros Sw SX. unfold layer_seek.
  rewrite perform_seek_is_merge; [|now apply sorted_snapshot|now apply sorted_rq].
  unfold tr. now rewrite smerge_rq.
Qed.

Lemma layer_seek_none cut r (w : lmap) : sorted false w ->
  layer_seek cut r w None = trim cut (length (rprefix r)) (rq r (apply_writes w [])).
Proof.
  intros Sw. unfold layer_seek.
  rewrite perform_seek_is_merge; [|now apply sorted_snapshot|exact I].
  unfold tr.
  replace (smerge (rback r) (snapshot r w) []) with (smerge (rback r) (snapshot r w) (rq r []))
    by now rewrite rq_nil.
  rewrite smerge_rq; [reflexivity|assumption|exact I].
Qed.

Lemma trim_false lp l : trim false lp l = l.
Proof. unfold trim, cutk. induction l as [|[k v] l IH]; simpl; auto. now rewrite IH. Qed.

(* ------------------------------------------------------------------ depth-limited flattening *)

Fixpoint fdr (d : N) (ls : list layer) (b : kvs) : kvs :=
  match ls with
  | [] => b
  | L :: t => apply_writes (lm L) (match lower_depth d with Some d' => fdr d' t b | None => [] end)
  end.

Lemma fdr_zero ls b : fdr 0 ls b = flat_layers ls b.
Proof. induction ls as [|L t IH]; simpl; auto. now rewrite IH. Qed.

Lemma fdr_flat : forall ls d b, fdr d ls b = flat_depth_layers d ls b.
Proof.
  induction ls as [|L t IH]; intros d b.
  - unfold flat_depth_layers. simpl. destruct ((d =? 0) || (0 <? d)) eqn:E; auto.
    exfalso. lia.
  - simpl. unfold flat_depth_layers, lower_depth.
    destruct (d =? 0) eqn:E0.
    + simpl. now rewrite fdr_zero.
    + destruct (1 <? d) eqn:E1.
      * rewrite IH. unfold flat_depth_layers.
        assert (d - 1 =? 0 = false) as -> by lia. cbn [orb].
        assert ((N.of_nat (length (L :: t)) <? d) = (N.of_nat (length t) <? d - 1)) as ->.
        { cbn [length]. lia. }
        destruct (N.of_nat (length t) <? d - 1); [reflexivity|].
        assert (N.to_nat d = S (N.to_nat (d - 1))) as -> by lia. reflexivity.
      * assert (d = 1) by lia. subst d. cbn [orb].
        assert ((N.of_nat (length (L :: t)) <? 1) = false) as -> by (cbn [length]; lia).
        reflexivity.
Qed.

Lemma wf_layers_inv L t : wf_layers (L :: t) -> sorted false (lm L) /\ keys_ok (lm L) /\ wf_layers t.
Proof. intros H. inv H. tauto. Qed.

Lemma keys_ok_insert {A} k (a : A) m : bytes_ok k -> keys_ok m -> keys_ok (insert k a m).
Proof.
  intros Hk. induction m as [|[k1 a1] t IH]; simpl; intros H.
  - constructor; auto.
  - inv H. destruct (bcmp k k1).
    + constructor; simpl; auto.
    + constructor; simpl; auto; try (constructor; auto).
    + constructor; simpl; auto; try (now apply IH).
Qed.

Lemma keys_ok_remove {A} k (m : list (key * A)) : keys_ok m -> keys_ok (remove k m).
Proof.
  induction m as [|[k1 a1] t IH]; simpl; intros H; auto.
  inv H. destruct (bcmp k k1).
  - assumption.
  - constructor; auto.
  - constructor; auto. now apply IH.
Qed.

Lemma keys_ok_remove_all {A} ks : forall (m : list (key * A)), keys_ok m -> keys_ok (remove_all ks m).
Proof.
  unfold remove_all. induction ks as [|k ks IH]; simpl; auto. intros m H. apply IH. now apply keys_ok_remove.
Qed.

Lemma keys_ok_apply_writes src : forall dst, keys_ok src -> keys_ok dst -> keys_ok (apply_writes src dst).
Proof.
  unfold apply_writes. induction src as [|[k ov] t IH]; simpl; auto.
  intros dst Hs Hd. inv Hs. apply IH; auto.
  destruct ov; [now apply keys_ok_insert|now apply keys_ok_remove].
Qed.

Lemma keys_ok_copy_into src : forall dst, keys_ok src -> keys_ok dst -> keys_ok (copy_into src dst).
Proof.
  unfold copy_into. induction src as [|[k ov] t IH]; simpl; auto.
  intros dst Hs Hd. inv Hs. apply IH; auto. now apply keys_ok_insert.
Qed.

Lemma fdr_wf : forall ls d b, wf_layers ls -> sorted false b -> keys_ok b ->
  sorted false (fdr d ls b) /\ keys_ok (fdr d ls b).
Proof.
  induction ls as [|L t IH]; intros d b Hl Sb Kb; simpl; auto.
  apply wf_layers_inv in Hl as (SL & KL & Ht).
  destruct (lower_depth d) as [d'|].
  - destruct (IH d' b Ht Sb Kb). split; [now apply sorted_apply_writes|now apply keys_ok_apply_writes].
  - split; [apply sorted_apply_writes; simpl; auto|apply keys_ok_apply_writes; auto; constructor].
Qed.

Lemma flat_layers_wf ls b : wf_layers ls -> sorted false b -> keys_ok b ->
  sorted false (flat_layers ls b) /\ keys_ok (flat_layers ls b).
Proof. intros. rewrite <- fdr_zero. now apply fdr_wf. Qed.

(* ------------------------------------------------------------------ Seek down a stack *)

Lemma seek_layers_rq bk : forall ls b r, wf_layers ls -> sorted false b -> keys_ok b -> range_ok r ->
  seek_layers bk ls b r = rq r (fdr (rdepth r) ls b).
Proof.
  induction ls as [|L t IH]; intros b r Hl Sb Kb Hr.
  - simpl. now apply base_seek_rq.
  - apply wf_layers_inv in Hl as (SL & KL & Ht). cbn [seek_layers fdr].
    destruct (lower_depth (rdepth r)) as [d'|].
    + rewrite IH by auto. rewrite rq_set_depth. cbn [set_depth rdepth].
      rewrite layer_seek_rq; auto.
      * now rewrite trim_false.
      * now apply fdr_wf.
    + rewrite layer_seek_none by auto. now rewrite trim_false.
Qed.

Lemma seek_top_rq bk cut : forall ls b r, ls <> [] -> wf_layers ls -> sorted false b -> keys_ok b -> range_ok r ->
  seek_top bk cut ls b r = trim cut (length (rprefix r)) (rq r (fdr (rdepth r) ls b)).
Proof.
  intros [|L t] b r Hne Hl Sb Kb Hr; [congruence|].
  apply wf_layers_inv in Hl as (SL & KL & Ht). cbn [seek_top fdr].
  destruct (lower_depth (rdepth r)) as [d'|].
  - rewrite seek_layers_rq by auto. rewrite rq_set_depth. cbn [set_depth rdepth].
    rewrite layer_seek_rq; auto. now apply fdr_wf.
  - now rewrite layer_seek_none by auto.
Qed.

(* ------------------------------------------------------------------ the refinement theorems *)

Theorem get_refines s k : wf s -> store_get s k = spec_get s k.
Proof.
  intros (Hl & Sb & Kb). unfold store_get, spec_get, flat.
  induction (layers s) as [|L t IH]; simpl; auto.
  apply wf_layers_inv in Hl as (SL & KL & Ht).
  rewrite lookup_apply_writes; auto; [|now apply flat_layers_wf].
  rewrite <- IH by auto. destruct (lookup k (lm L)); reflexivity.
Qed.

Theorem seek_refines s cut r : wf s -> layers s <> [] -> range_ok r ->
  store_seek s cut r = spec_seek s cut r.
Proof.
  intros (Hl & Sb & Kb) Hne Hr. unfold store_seek, spec_seek, flat_depth.
  rewrite seek_top_rq by auto. now rewrite fdr_flat.
Qed.

(* the emitted list is ordered in the seek direction (hence duplicate-free) *)
Theorem seek_sorted s r : wf s -> sorted (rback r) (rq r (flat_depth (rdepth r) s)).
Proof.
  intros (Hl & Sb & Kb). apply sorted_rq. unfold flat_depth. rewrite <- fdr_flat. now apply fdr_wf.
Qed.

(* nothing is omitted and nothing is invented: a pair is emitted iff it is in the flattened map and in the range *)
Theorem seek_complete s r k : wf s ->
  lookup k (rq r (flat_depth (rdepth r) s)) =
  if in_range (rprefix r) (rstart r) (rback r) k then lookup k (flat_depth (rdepth r) s) else None.
Proof.
  intros (Hl & Sb & Kb). apply lookup_rq. unfold flat_depth. rewrite <- fdr_flat. now apply fdr_wf.
Qed.

Lemma bytes_ok_le32 id : bytes_ok (le32 id).
Proof. unfold le32, bytes_ok. repeat constructor; lia. Qed.

Lemma range_ok_dao id r : range_ok r -> range_ok (set_prefix r (dao_key id (rprefix r))).
Proof.
  intros [HP HS]. split; simpl; auto. unfold dao_key. constructor; [lia|].
  apply bytes_ok_app; auto. apply bytes_ok_le32.
Qed.

Theorem dao_seek_async_refines s id r : wf s -> layers s <> [] -> range_ok r ->
  dao_seek_async s id r = spec_dao_seek s id r.
Proof.
  intros Hs Hne Hr. unfold dao_seek_async, spec_dao_seek.
  rewrite seek_refines by auto using range_ok_dao. reflexivity.
Qed.

Theorem dao_seek_refines s id r : wf s -> layers s <> [] -> range_ok r ->
  dao_seek s id r = spec_dao_seek s id r.
Proof.
  intros Hs Hne Hr. unfold dao_seek, spec_dao_seek.
  rewrite seek_refines by auto using range_ok_dao. unfold spec_seek. rewrite trim_false. reflexivity.
Qed.

Lemma rq_has_prefix r m kv : In kv (rq r m) -> has_prefix (rprefix r) (fst kv) = true.
Proof.
  unfold rq, range_query. intros H.
  assert (In kv (filter (fun kv0 : key * val => in_range (rprefix r) (rstart r) (rback r) (fst kv0)) m)) as H'.
  { destruct (rback r); simpl in H; auto. now apply in_rev. }
  apply filter_In in H' as [_ H']. unfold in_range in H'. now apply andb_true_iff in H' as [H' _].
Qed.

(* Storage.Find without FindRemovePrefix hands the contract its own keys back *)
Theorem find_keep_refines s id r : wf s -> layers s <> [] -> range_ok r ->
  find_keep s id r = spec_find_keep s id r.
Proof.
  intros Hs Hne Hr. unfold find_keep, spec_find_keep.
  rewrite dao_seek_async_refines by auto. unfold spec_dao_seek, trim. rewrite map_map.
  apply map_ext_in. intros kv Hin. cbn [fst snd]. f_equal.
  apply rq_has_prefix in Hin. cbn [set_prefix rprefix] in Hin.
  apply has_prefix_split in Hin. unfold cutk. rewrite Hin at 2.
  set (X := skipn (length (dao_key id (rprefix r))) (fst kv)).
  unfold dao_key, le32. reflexivity.
Qed.

(* ------------------------------------------------------------------ flushes *)

Lemma wf_layers_app l1 l2 : wf_layers (l1 ++ l2) <-> wf_layers l1 /\ wf_layers l2.
Proof. apply Forall_app. Qed.

Definition wf_pair (lb : list layer * kvs) : Prop :=
  wf_layers (fst lb) /\ sorted false (snd lb) /\ keys_ok (snd lb).
Definition flat_pair (lb : list layer * kvs) : kvs := flat_layers (fst lb) (snd lb).

Lemma write_below_wf m ls b : sorted false m -> keys_ok m -> wf_pair (ls, b) -> wf_pair (write_below m ls b).
Proof.
  intros Sm Km (Hl & Sb & Kb). simpl in *. destruct ls as [|L t]; simpl.
  - repeat split; simpl; auto using sorted_apply_writes, keys_ok_apply_writes; try constructor.
  - apply wf_layers_inv in Hl as (SL & KL & Ht). repeat split; simpl; auto.
    constructor; simpl; auto using sorted_copy_into, keys_ok_copy_into.
Qed.

(* PutChangeSet of m below, seen from above m: no change *)
Lemma write_below_flat m ls b : sorted false m -> keys_ok m -> wf_pair (ls, b) ->
  apply_writes m (flat_pair (write_below m ls b)) = apply_writes m (flat_layers ls b).
Proof.
  intros Sm Km (Hl & Sb & Kb). simpl in *. destruct ls as [|L t]; simpl; unfold flat_pair; simpl.
  - now apply apply_writes_idem.
  - apply wf_layers_inv in Hl as (SL & KL & Ht).
    destruct (flat_layers_wf t b Ht Sb Kb) as [Sf Kf].
    rewrite apply_writes_copy_into by auto.
    now rewrite apply_writes_idem by auto using sorted_apply_writes.
Qed.

(* ... and seen from below m after m is gone: m has been applied *)
Lemma write_below_flat' m ls b : sorted false m -> keys_ok m -> wf_pair (ls, b) ->
  flat_pair (write_below m ls b) = apply_writes m (flat_layers ls b).
Proof.
  intros Sm Km (Hl & Sb & Kb). simpl in *. destruct ls as [|L t]; simpl; unfold flat_pair; simpl; auto.
  apply wf_layers_inv in Hl as (SL & KL & Ht).
  destruct (flat_layers_wf t b Ht Sb Kb) as [Sf Kf].
  now rewrite apply_writes_copy_into by auto.
Qed.

(* the three lock regions of Persist, each on its own *)
Theorem swap_step_flat ls b : flat_pair (swap_step ls b) = flat_layers ls b.
Proof. destruct ls as [|L t]; reflexivity. Qed.

Theorem write_step_flat ls b : wf_pair (ls, b) -> flat_pair (write_step ls b) = flat_layers ls b.
Proof.
  intros (Hl & Sb & Kb). simpl in *. destruct ls as [|L [|T t]]; try reflexivity.
  apply wf_layers_inv in Hl as (SL & KL & Hl). apply wf_layers_inv in Hl as (ST & KT & Ht).
  unfold write_step. pose proof (write_below_flat (lm T) t b ST KT) as H.
  destruct (write_below (lm T) t b) as [t' b']. unfold flat_pair in *. simpl in *.
  rewrite H; auto. repeat split; auto.
Qed.

(* unswap is harmless once the write below has happened (the state it is executed in) *)
Theorem unswap_after_write_flat ls b : wf_pair (ls, b) ->
  (let '(l2, b2) := write_step ls b in flat_pair (unswap_step l2 b2)) =
  match ls with L :: T :: t => apply_writes (lm L) (apply_writes (lm T) (flat_layers t b)) | _ => flat_layers ls b end.
Proof.
  intros (Hl & Sb & Kb). simpl in *. destruct ls as [|L [|T t]]; try reflexivity.
  apply wf_layers_inv in Hl as (SL & KL & Hl). apply wf_layers_inv in Hl as (ST & KT & Ht).
  unfold write_step. pose proof (write_below_flat' (lm T) t b ST KT) as H.
  destruct (write_below (lm T) t b) as [t' b']. unfold flat_pair in *. simpl in *.
  rewrite H; auto. repeat split; auto.
Qed.

Lemma swap_step_wf ls b : wf_pair (ls, b) -> wf_pair (swap_step ls b).
Proof.
  intros (Hl & Sb & Kb). simpl in *. destruct ls as [|L t]; simpl; repeat split; auto.
  apply wf_layers_inv in Hl as (SL & KL & Ht).
  repeat constructor; simpl; auto.
Qed.

Lemma write_step_wf ls b : wf_pair (ls, b) -> wf_pair (write_step ls b).
Proof.
  intros (Hl & Sb & Kb). simpl in *. destruct ls as [|L [|T t]]; try (repeat split; auto; fail).
  apply wf_layers_inv in Hl as (SL & KL & Hl). apply wf_layers_inv in Hl as (ST & KT & Ht).
  unfold write_step. pose proof (write_below_wf (lm T) t b ST KT) as H.
  destruct (write_below (lm T) t b) as [t' b']. destruct H as (H1 & H2 & H3); [repeat split; auto|].
  simpl in *. repeat split; auto. repeat constructor; auto.
Qed.

Lemma unswap_step_wf ls b : wf_pair (ls, b) -> wf_pair (unswap_step ls b).
Proof.
  intros (Hl & Sb & Kb). simpl in *. destruct ls as [|L [|T t]]; try (repeat split; auto; fail).
  apply wf_layers_inv in Hl as (SL & KL & Hl). apply wf_layers_inv in Hl as (ST & KT & Ht).
  simpl. repeat split; auto. constructor; auto.
Qed.

Theorem persist_shared_flat ls b : wf_pair (ls, b) ->
  flat_pair (persist_shared ls b) = flat_layers ls b /\ wf_pair (persist_shared ls b).
Proof.
  intros Hw. unfold persist_shared. destruct ls as [|L t]; [split; auto|].
  destruct (lpriv L || isnil (lm L)); [split; auto|].
  pose proof (swap_step_wf _ _ Hw) as W1. pose proof (swap_step_flat (L :: t) b) as F1.
  destruct (swap_step (L :: t) b) as [l1 b1] eqn:E1.
  pose proof (write_step_wf _ _ W1) as W2.
  pose proof (unswap_after_write_flat _ _ W1) as F3.
  destruct (write_step l1 b1) as [l2 b2] eqn:E2.
  split; [|now apply unswap_step_wf].
  rewrite F3. simpl in E1. inv E1. unfold flat_pair in F1. simpl in *. reflexivity.
Qed.

Lemma at_layer_flat f : (forall ls b, wf_pair (ls, b) -> flat_pair (f ls b) = flat_layers ls b /\ wf_pair (f ls b)) ->
  forall i ls b, wf_pair (ls, b) -> flat_pair (at_layer i f ls b) = flat_layers ls b /\ wf_pair (at_layer i f ls b).
Proof.
  intros Hf. induction i as [|i IH]; intros ls b Hw; simpl; auto.
  destruct ls as [|L t]; [destruct Hw as (H1 & H2 & H3); repeat split; auto|].
  destruct Hw as (Hl & Sb & Kb). simpl in *. apply wf_layers_inv in Hl as (SL & KL & Ht).
  destruct (IH t b) as [F W]; [repeat split; auto|].
  destruct (at_layer i f t b) as [t' b']. unfold flat_pair in *. simpl in *. rewrite F.
  destruct W as (W1 & W2 & W3). repeat split; auto. constructor; auto.
Qed.

Lemma wf_set_stack s lb : wf_pair lb -> wf (set_stack s lb).
Proof. intros (H1 & H2 & H3). repeat split; auto. Qed.

Lemma flat_set_stack s lb : flat (set_stack s lb) = flat_pair lb.
Proof. reflexivity. Qed.

Lemma wf_pair_of s : wf s -> wf_pair (layers s, base s).
Proof. intros (H1 & H2 & H3). repeat split; auto. Qed.

Definition op_ok (o : op) : Prop :=
  match o with
  | OPut k _ => bytes_ok k
  | ODel k => bytes_ok k
  | _ => True
  end.

Lemma step_wf s o : wf s -> op_ok o -> wf (step s o).
Proof.
  intros Hs Ho. pose proof (wf_pair_of s Hs) as (Hl & Sb & Kb). simpl in *.
  unfold step. destruct o as [k v|k|p|i| | |r g|r g]; destruct (layers s) as [|L t] eqn:El; auto.
  - apply wf_layers_inv in Hl as (SL & KL & Ht). apply wf_set_stack. repeat split; simpl; auto.
    constructor; simpl; auto using sorted_insert, keys_ok_insert.
  - apply wf_layers_inv in Hl as (SL & KL & Ht). apply wf_set_stack. repeat split; simpl; auto.
    constructor; simpl; auto using sorted_insert, keys_ok_insert.
  - apply wf_set_stack. repeat split; simpl; auto. repeat constructor.
  - apply wf_set_stack. repeat split; simpl; auto. constructor; auto. simpl. split; [auto|constructor].
  - destruct ((i =? 0) && lpriv L).
    + destruct t as [|L2 t2]; auto. apply wf_layers_inv in Hl as (SL & KL & Ht).
      apply wf_set_stack. apply write_below_wf; auto. repeat split; auto.
    + apply wf_set_stack. rewrite <- El in *.
      apply (at_layer_flat persist_shared persist_shared_flat). repeat split; auto.
  - destruct t as [|L2 t2]; auto. destruct (lpriv L); auto.
    apply wf_layers_inv in Hl as (SL & KL & Ht). apply wf_layers_inv in Ht as (S2 & K2 & Ht).
    apply wf_set_stack. repeat split; simpl; auto.
    constructor; simpl; auto using sorted_copy_into, keys_ok_copy_into.
  - destruct t as [|L2 t2]; auto. apply wf_layers_inv in Hl as (SL & KL & Ht).
    apply wf_set_stack. repeat split; simpl; auto.
  - apply wf_set_stack. repeat split; simpl; auto; unfold base_seekgc; auto using sorted_remove_all, keys_ok_remove_all.
  - apply wf_set_stack. repeat split; simpl; auto; unfold base_seekgc; auto using sorted_remove_all, keys_ok_remove_all.
  - apply wf_layers_inv in Hl as (SL & KL & Ht). apply wf_set_stack. repeat split; simpl; auto.
    constructor; simpl; auto. unfold layer_seekgc. split; [now apply sorted_remove_all|now apply keys_ok_remove_all].
Qed.

Lemma step_nonempty s o : layers s <> [] -> layers (step s o) <> [].
Proof.
  intros Hne. unfold step. destruct o as [k v|k|p|i| | |r g|r g]; destruct (layers s) as [|L t] eqn:El;
    try congruence; simpl; try discriminate.
  - destruct ((i =? 0) && lpriv L).
    + destruct t as [|L2 t2]; simpl; [rewrite El; discriminate|discriminate].
    + simpl. destruct (N.to_nat i) as [|n]; simpl.
      * destruct (lpriv L || isnil (lm L)); simpl; [discriminate|].
        destruct t as [|L2 t2]; simpl; discriminate.
      * destruct (at_layer n persist_shared t (base s)). simpl. discriminate.
  - destruct t as [|L2 t2]; simpl; [rewrite El; discriminate|].
    destruct (lpriv L); simpl; [discriminate|rewrite El; discriminate].
  - destruct t as [|L2 t2]; simpl; [rewrite El; discriminate|discriminate].
Qed.

(* every flush (Persist of any layer, shared or private-top, and PersistPrivate) leaves the one map unchanged *)
Theorem persist_step_flat s : wf s ->
  (forall i, flat (step s (OPersist i)) = flat s) /\ flat (step s OPersistPrivate) = flat s.
Proof.
  intros Hs. pose proof (wf_pair_of s Hs) as Hw. pose proof Hw as (Hl & Sb & Kb). simpl in *. split.
  - intros i. unfold step. destruct (layers s) as [|L t] eqn:El; auto.
    destruct ((i =? 0) && lpriv L).
    + destruct t as [|L2 t2]; auto. apply wf_layers_inv in Hl as (SL & KL & Ht).
      rewrite flat_set_stack. rewrite write_below_flat'; auto; [|repeat split; auto].
      unfold flat. now rewrite El.
    + rewrite flat_set_stack. rewrite <- El in *.
      now apply (at_layer_flat persist_shared persist_shared_flat).
  - unfold step. destruct (layers s) as [|L [|L2 t2]] eqn:El; auto. destruct (lpriv L); auto.
    apply wf_layers_inv in Hl as (SL & KL & Ht). apply wf_layers_inv in Ht as (S2 & K2 & Ht).
    rewrite flat_set_stack. unfold flat_pair, flat. rewrite El. simpl.
    destruct (flat_layers_wf t2 (base s) Ht Sb Kb) as [Sf Kf].
    now rewrite apply_writes_copy_into by auto.
Qed.

(* consequently no full-depth answer changes *)
Corollary flush_changes_no_answer s o : wf s -> layers s <> [] ->
  (match o with OPersist _ | OPersistPrivate => True | _ => False end) ->
  (forall k, store_get (step s o) k = store_get s k) /\
  (forall cut r, range_ok r -> rdepth r = 0 -> store_seek (step s o) cut r = store_seek s cut r).
Proof.
  intros Hs Hne Ho.
  assert (Hwf' : wf (step s o)) by (apply step_wf; auto; destruct o; simpl; auto; contradiction).
  assert (Hne' : layers (step s o) <> []) by now apply step_nonempty.
  assert (Hf : flat (step s o) = flat s).
  { destruct (persist_step_flat s Hs) as [H1 H2]. destruct o; try contradiction; auto. }
  split.
  - intros k. rewrite !get_refines by auto. unfold spec_get. now rewrite Hf.
  - intros cut r Hr Hd. rewrite !seek_refines by auto. unfold spec_seek, flat_depth, flat_depth_layers.
    rewrite Hd. simpl. fold (flat (step s o)). fold (flat s). now rewrite Hf.
Qed.

(* ------------------------------------------------------------------ histories *)

Lemma wf_init bk : wf (init bk).
Proof. repeat split; simpl; auto; repeat constructor. Qed.

Lemma run_wf ops : forall s, wf s -> Forall op_ok ops -> wf (run s ops).
Proof.
  unfold run. induction ops as [|o ops IH]; simpl; auto. intros s Hs Ho. inv Ho. apply IH; auto. now apply step_wf.
Qed.

Lemma run_nonempty ops : forall s, layers s <> [] -> layers (run s ops) <> [].
Proof.
  unfold run. induction ops as [|o ops IH]; simpl; auto. intros s Hs. apply IH. now apply step_nonempty.
Qed.

(* the statement of the property over histories: after ANY op sequence on any backend,
   every Get and every Seek answers like the one ordered map *)
Theorem history_refines bk ops : Forall op_ok ops ->
  let s := run (init bk) ops in
  (forall k, store_get s k = spec_get s k) /\
  (forall cut r, range_ok r -> store_seek s cut r = spec_seek s cut r).
Proof.
  intros Ho s.
  assert (wf s) by (apply run_wf; auto using wf_init).
  assert (layers s <> []) by (apply run_nonempty; simpl; discriminate).
  split; intros; [now apply get_refines|now apply seek_refines].
Qed.

(* the answer does not depend on the backend *)
Theorem backend_agree bk1 bk2 r (b : kvs) : range_ok r -> keys_ok b -> sorted false b ->
  base_seek bk1 r b = base_seek bk2 r b.
Proof. intros. now rewrite !base_seek_rq. Qed.
