(* C09 — mechanism model of pkg/core/storage (definitions only; everything computes by vm_compute).

   What is transcribed, and from where:
     MemCachedStore.Get / Put / Delete                     memcached_store.go:95-122
     prepareSeekMemSnapshot (isKeyOK filter, snapshot)     memcached_store.go:192-224
     performSeek (closure state kvMem/haveMem/iMem, the inner loop of mergeFunc, key trimming on the
       local copy, SearchDepth handling, tail loop)        memcached_store.go:226-336
     Persist (swap / lower write / unswap), private Persist, PersistPrivate   memcached_store.go:338-437
     MemoryStore.seek (filter + sort)                      memory_store.go:98-137
     seekRangeToPrefixes, LevelDB range iterator, Bolt cursor loop   store.go:110-124, leveldb_store.go:73-120,
                                                           boltdb_store.go:153-192
     dao.Simple.Seek / SeekAsync / makeStorageItemKey      dao/dao.go:426-449
     interop/storage Iterator.Value key handling           interop/storage/find.go:60-66

   The model describes the code WITH the two repairs fixes/F1-*.diff and fixes/F2-*.diff applied
   (the unrepaired variants are kept in Store/Legacy.v together with their counter-examples).

   Abstractions (see notes/C09.md): Go maps are association lists kept strictly ascending by key, so
   "collect from the map, then slices.SortFunc" is "filter, then reverse for a backward seek"; the mem/stor
   split by first key byte (chooseMap) is not represented (for a non-empty prefix every key with that prefix
   lives in the map chosen for the prefix); the callback protocol cont/done is a lazily consumed list
   (stopping after n items = firstn n); a base MemoryStore forgets tombstones instead of keeping nil entries
   (they are invisible to Get and Seek). *)
From NG Require Import Common.Tactics Store.Bytes.
Open Scope N_scope.

(* ------------------------------------------------------------------ finite maps *)

Section Maps.
  Context {A : Type}.

  Fixpoint lookup (k : key) (m : list (key * A)) : option A :=
    match m with
    | [] => None
    | (k', a) :: t => if beq k k' then Some a else lookup k t
    end.

  Fixpoint insert (k : key) (a : A) (m : list (key * A)) : list (key * A) :=
    match m with
    | [] => [(k, a)]
    | (k', a') :: t =>
        match bcmp k k' with
        | Lt => (k, a) :: m
        | Eq => (k, a) :: t
        | Gt => (k', a') :: insert k a t
        end
    end.

  Fixpoint remove (k : key) (m : list (key * A)) : list (key * A) :=
    match m with
    | [] => []
    | (k', a') :: t =>
        match bcmp k k' with
        | Lt => m
        | Eq => t
        | Gt => (k', a') :: remove k t
        end
    end.
End Maps.

Definition lmap := list (key * option val).   (* one cache layer: None = nil value = tombstone *)
Definition kvs := list (key * val).           (* a base store's content, or an emitted answer *)

(* maps.Copy(dst, src) (putChangeSet): entries of src, tombstones included, override dst *)
Definition copy_into (src dst : lmap) : lmap :=
  fold_left (fun acc kv => insert (fst kv) (snd kv) acc) src dst.

(* PutChangeSet into a base store: Put for a value, Delete for nil *)
Definition apply_writes (src : lmap) (dst : kvs) : kvs :=
  fold_left (fun acc kv => match snd kv with
                           | Some v => insert (fst kv) v acc
                           | None => remove (fst kv) acc
                           end) src dst.

(* ------------------------------------------------------------------ ranges *)

Record range := { rprefix : key; rstart : key; rback : bool; rdepth : N }.
Definition set_depth (r : range) (d : N) : range :=
  {| rprefix := rprefix r; rstart := rstart r; rback := rback r; rdepth := d |}.
Definition set_prefix (r : range) (p : key) : range :=
  {| rprefix := p; rstart := rstart r; rback := rback r; rdepth := rdepth r |}.

Definition isnil {A} (l : list A) : bool := match l with [] => true | _ => false end.

(* isKeyOK of prepareSeekMemSnapshot and of MemoryStore.seek (with the F2 repair: a backward seek keeps
   the keys that extend prefix+start, as the disk range does) *)
Definition is_key_ok (r : range) (k : key) : bool :=
  let sfx := skipn (length (rprefix r)) k in
  has_prefix (rprefix r) k &&
  (isnil (rstart r) ||
   (if rback r then ble sfx (rstart r) || has_prefix (rstart r) sfx
    else ble (rstart r) sfx)).

Definition dir {A} (bw : bool) (l : list A) : list A := if bw then rev l else l.

(* prepareSeekMemSnapshot + the slices.SortFunc at the head of performSeek *)
Definition snapshot (r : range) (m : lmap) : lmap :=
  dir (rback r) (filter (fun kv => is_key_ok r (fst kv)) m).

(* ------------------------------------------------------------------ performSeek *)

(* closure state between two calls of mergeFunc: kvMem, haveMem, memRes[iMem:] *)
Record mstate := { kvMem : key * option val; haveMem : bool; rest : lmap }.

Definition cutk (cut : bool) (lp : nat) (k : key) : key := if cut then skipn lp k else k.

(* if kvMem.Exists { if cutPrefix { kvMem.Key = kvMem.Key[lPrefix:] }; cont(kvMem.Key, kvMem.Value) } *)
Definition emit_mem (cut : bool) (lp : nat) (it : key * option val) : kvs :=
  match snd it with Some v => [(cutk cut lp (fst it), v)] | None => [] end.
(* the local copy after that statement: its key stays trimmed *)
Definition trimmed (cut : bool) (lp : nat) (it : key * option val) : key * option val :=
  match snd it with Some _ => (cutk cut lp (fst it), snd it) | None => it end.

(* inner for-loop of mergeFunc for one lower pair with key kp, while isMem holds *)
Fixpoint drain (bw cut : bool) (lp : nat) (kp : key) (cur : key * option val) (rst : lmap) : kvs * mstate :=
  if cmp_lt bw (fst cur) kp then
    match rst with
    | [] => (emit_mem cut lp cur, {| kvMem := trimmed cut lp cur; haveMem := false; rest := [] |})
    | nxt :: rst' =>
        let '(out, st) := drain bw cut lp kp nxt rst' in (emit_mem cut lp cur ++ out, st)
    end
  else ([], {| kvMem := cur; haveMem := true; rest := rst |}).

(* one call of mergeFunc; the else-branch guard is  !haveMem || !bytes.Equal(kvMem.Key, kvPs.Key)  (F1 repair) *)
Definition merge_one (bw cut : bool) (lp : nat) (st : mstate) (kp : key) (vp : val) : kvs * mstate :=
  let '(out, st') := if haveMem st then drain bw cut lp kp (kvMem st) (rest st) else ([], st) in
  if negb (haveMem st') || negb (beq (fst (kvMem st')) kp)
  then (out ++ [(cutk cut lp kp, vp)], st')
  else (out, st').

(* ps.Seek(rng, mergeFunc): mergeFunc over the lower store's answer *)
Fixpoint merge_all (bw cut : bool) (lp : nat) (st : mstate) (ps : kvs) : kvs * mstate :=
  match ps with
  | [] => ([], st)
  | (kp, vp) :: ps' =>
      let '(o1, st1) := merge_one bw cut lp st kp vp in
      let '(o2, st2) := merge_all bw cut lp st1 ps' in (o1 ++ o2, st2)
  end.

(* if !done && haveMem { for i := iMem-1; i < len(memRes); i++ {...} } *)
Definition tail_out (cut : bool) (lp : nat) (st : mstate) : kvs :=
  if haveMem st then flat_map (emit_mem cut lp) (kvMem st :: rest st) else [].

Definition init_state (memRes : lmap) : mstate :=
  match memRes with
  | [] => {| kvMem := ([], None); haveMem := false; rest := [] |}
  | m0 :: ms => {| kvMem := m0; haveMem := true; rest := ms |}
  end.

(* lower = None: SearchDepth = 1, ps.Seek is not called *)
Definition perform_seek (bw cut : bool) (lp : nat) (memRes : lmap) (lower : option kvs) : kvs :=
  let st0 := init_state memRes in
  let '(o, st) := match lower with
                  | Some ps => merge_all bw cut lp st0 ps
                  | None => ([], st0)
                  end in
  o ++ tail_out cut lp st.

(* Seek/SeekAsync of one MemCachedStore whose map is m, given what its lower store answers *)
Definition layer_seek (cut : bool) (r : range) (m : lmap) (lower : option kvs) : kvs :=
  perform_seek (rback r) cut (length (rprefix r)) (snapshot r m) lower.

(* if rng.SearchDepth == 0 || rng.SearchDepth > 1 { if rng.SearchDepth > 1 { rng.SearchDepth-- }; ps.Seek(...) } *)
Definition lower_depth (d : N) : option N :=
  if d =? 0 then Some 0 else if 1 <? d then Some (d - 1) else None.

(* ------------------------------------------------------------------ base stores *)

(* MemoryStore.seek *)
Definition mem_seek (r : range) (b : kvs) : kvs :=
  dir (rback r) (filter (fun kv => is_key_ok r (fst kv)) b).

(* seekRangeToPrefixes: (Start, Limit) *)
Definition seek_bounds (r : range) : key * option key :=
  let start := rprefix r ++ rstart r in
  if rback r then (rprefix r, succ_prefix start) else (start, succ_prefix (rprefix r)).

(* LevelDBStore.Seek: iterator over [Start, Limit), Next from the first or Prev from the last *)
Definition level_seek (r : range) (b : kvs) : kvs :=
  let '(lo, hi) := seek_bounds r in
  dir (rback r) (filter (fun kv => ble lo (fst kv) && lt_lim (fst kv) hi) b).

Fixpoint drop_while {A} (f : A -> bool) (l : list A) : list A :=
  match l with [] => [] | x :: t => if f x then drop_while f t else l end.
Fixpoint take_while {A} (f : A -> bool) (l : list A) : list A :=
  match l with [] => [] | x :: t => if f x then x :: take_while f t else [] end.

(* boltSeek: cursor positioned by Seek(Start) / Seek(Limit);Prev / Last, then Next/Prev while
   HasPrefix(k, Prefix) && (len(Limit) == 0 || Compare(k, Limit) <= 0) *)
Definition bolt_seek (r : range) (b : kvs) : kvs :=
  let '(lo, hi) := seek_bounds r in
  let ok := fun kv : key * val =>
              has_prefix (rprefix r) (fst kv) &&
              match hi with None => true | Some l => ble (fst kv) l end in
  if rback r then
    take_while ok (rev (match hi with
                        | None => b
                        | Some l => take_while (fun kv => blt (fst kv) l) b
                        end))
  else take_while ok (drop_while (fun kv => blt (fst kv) lo) b).

Inductive backend := BMem | BBolt | BLevel.

Definition base_seek (bk : backend) (r : range) (b : kvs) : kvs :=
  match bk with
  | BMem => mem_seek r b
  | BBolt => bolt_seek r b
  | BLevel => level_seek r b
  end.

(* ------------------------------------------------------------------ SeekGC *)

(* the callback keepCont of SeekGC as data: keep k v, and "continue" until [stop] pairs have been visited
   (stop = 0: never stops) *)
Definition gc_visit (stop : N) (l : kvs) : kvs := if stop =? 0 then l else firstn (N.to_nat stop) l.
Definition gc_deleted (keep : key -> val -> bool) (stop : N) (l : kvs) : list key :=
  map fst (filter (fun kv => negb (keep (fst kv) (snd kv))) (gc_visit stop l)).
Definition remove_all {A} (ks : list key) (m : list (key * A)) : list (key * A) :=
  fold_left (fun acc k => remove k acc) ks m.

(* MemoryStore.SeekGC (write lock; seek collects the list first, then delete(map, k) for every rejected pair),
   BoltDBStore.SeekGC (one Update transaction, c.Delete() at the cursor), LevelDBStore.SeekGC (one transaction,
   tx.Delete): visit the pairs of the range in seek order, delete the rejected ones *)
Definition base_seekgc (bk : backend) (keep : key -> val -> bool) (stop : N) (r : range) (b : kvs) : kvs :=
  remove_all (gc_deleted keep stop (base_seek bk r b)) b.

(* the live pairs of a cache map (MemoryStore.seek skips nil values) *)
Definition live_of (m : lmap) : kvs :=
  flat_map (fun kv => match snd kv with Some v => [(fst kv, v)] | None => [] end) m.

(* MemCachedStore.SeekGC is the promoted MemoryStore.SeekGC on the layer's OWN maps ("only works with the current
   Store, it won't go down to layers below"): rejected live entries are dropped from the map (not tombstoned) *)
Definition layer_seekgc (keep : key -> val -> bool) (stop : N) (r : range) (m : lmap) : lmap :=
  remove_all (gc_deleted keep stop (mem_seek r (live_of m))) m.

(* keep/continue functions the harness can name: keep iff (first value byte, 0 if none) mod gmod <> gres *)
Record gcfun := { gmod : N; gres : N; gstop : N }.
Definition gkeep (g : gcfun) (k : key) (v : val) : bool :=
  negb ((match v with b :: _ => b | [] => 0 end) mod (N.max 1 (gmod g)) =? gres g).

(* ------------------------------------------------------------------ the stack *)

Record layer := { lpriv : bool; lm : lmap }.
Record stack := { layers : list layer; bkind : backend; base : kvs }.   (* layers: top first *)

Definition with_lm (L : layer) (m : lmap) : layer := {| lpriv := lpriv L; lm := m |}.

(* Get: the first layer that has the key decides (nil = not found), else the base *)
Fixpoint get_layers (ls : list layer) (b : kvs) (k : key) : option val :=
  match ls with
  | [] => lookup k b
  | L :: t => match lookup k (lm L) with
              | Some ov => ov
              | None => get_layers t b k
              end
  end.
Definition store_get (s : stack) (k : key) : option val := get_layers (layers s) (base s) k.

(* MemCachedStore.Seek down a stack (no trimming below the top call) *)
Fixpoint seek_layers (bk : backend) (ls : list layer) (b : kvs) (r : range) : kvs :=
  match ls with
  | [] => base_seek bk r b
  | L :: t =>
      layer_seek false r (lm L)
        (match lower_depth (rdepth r) with
         | Some d' => Some (seek_layers bk t b (set_depth r d'))
         | None => None
         end)
  end.

(* the top call: Seek (cut = false) or SeekAsync(ctx, rng, cut) *)
Definition seek_top (bk : backend) (cut : bool) (ls : list layer) (b : kvs) (r : range) : kvs :=
  match ls with
  | [] => base_seek bk r b
  | L :: t =>
      layer_seek cut r (lm L)
        (match lower_depth (rdepth r) with
         | Some d' => Some (seek_layers bk t b (set_depth r d'))
         | None => None
         end)
  end.

Definition store_seek (s : stack) (cut : bool) (r : range) : kvs :=
  seek_top (bkind s) cut (layers s) (base s) r.

(* dao.Simple: key = StoragePrefix(0x70) ++ LE32(id) ++ key *)
Definition le32 (id : N) : key :=
  [id mod 256; (id / 256) mod 256; (id / 65536) mod 256; (id / 16777216) mod 256].
Definition dao_key (id : N) (k : key) : key := 112 :: le32 id ++ k.

(* dao.Seek: Store.Seek on the extended prefix, f(k[len(rng.Prefix):], v) *)
Definition dao_seek (s : stack) (id : N) (r : range) : kvs :=
  let p := dao_key id (rprefix r) in
  map (fun kv => (skipn (length p) (fst kv), snd kv)) (store_seek s false (set_prefix r p)).
(* dao.SeekAsync: Store.SeekAsync(ctx, rng, true) *)
Definition dao_seek_async (s : stack) (id : N) (r : range) : kvs :=
  store_seek s true (set_prefix r (dao_key id (rprefix r))).
(* Storage.Find iterator without FindRemovePrefix: key = slices.Concat(s.prefix, key) *)
Definition find_keep (s : stack) (id : N) (r : range) : kvs :=
  map (fun kv => (rprefix r ++ fst kv, snd kv)) (dao_seek_async s id r).

(* ------------------------------------------------------------------ writes and flushes *)

(* PutChangeSet of m into whatever is below: the next layer's map, or the base *)
Definition write_below (m : lmap) (below : list layer) (b : kvs) : list layer * kvs :=
  match below with
  | [] => ([], apply_writes m b)
  | L :: t => (with_lm L (copy_into m (lm L)) :: t, b)
  end.

(* the three lock regions of a shared Persist, on the sub-stack that starts at the persisted layer *)
(* 1: tempstore takes the maps and s.ps, s gets fresh maps and ps = tempstore *)
Definition swap_step (ls : list layer) (b : kvs) : list layer * kvs :=
  match ls with
  | L :: t => (with_lm L [] :: {| lpriv := false; lm := lm L |} :: t, b)
  | [] => ([], b)
  end.
(* 2: tempstore.ps.PutChangeSet(tempstore.mem, tempstore.stor) *)
Definition write_step (ls : list layer) (b : kvs) : list layer * kvs :=
  match ls with
  | L :: T :: t => let '(t', b') := write_below (lm T) t b in (L :: T :: t', b')
  | _ => (ls, b)
  end.
(* 3: s.ps = tempstore.ps *)
Definition unswap_step (ls : list layer) (b : kvs) : list layer * kvs :=
  match ls with
  | L :: T :: t => (L :: t, b)
  | _ => (ls, b)
  end.

Definition persist_shared (ls : list layer) (b : kvs) : list layer * kvs :=
  match ls with
  | L :: _ =>
      if lpriv L || isnil (lm L) then (ls, b)      (* keys == 0: nothing happens *)
      else
        let '(l1, b1) := swap_step ls b in
        let '(l2, b2) := write_step l1 b1 in
        unswap_step l2 b2
  | [] => (ls, b)
  end.

(* apply f to the sub-stack that starts i layers below the top *)
Fixpoint at_layer (i : nat) (f : list layer -> kvs -> list layer * kvs) (ls : list layer) (b : kvs)
  : list layer * kvs :=
  match i, ls with
  | O, _ => f ls b
  | S i', L :: t => let '(t', b') := at_layer i' f t b in (L :: t', b')
  | S _, [] => ([], b)
  end.

Inductive op :=
| OPut (k : key) (v : val)       (* top.Put *)
| ODel (k : key)                 (* top.Delete *)
| OWrap (priv : bool)            (* NewMemCachedStore(top) / NewPrivateMemCachedStore(top) *)
| OPersist (i : N)               (* Persist of the layer i below the top; a private layer only when it is the top
                                    (it is closed by Persist and leaves the stack) *)
| OPersistPrivate                (* below.PersistPrivate(top) for a private top; the top leaves the stack *)
| ODrop                          (* forget the top layer and its writes *)
| OGcBase (r : range) (g : gcfun)   (* base.SeekGC, as Blockchain does (cache-less DB operation) *)
| OGcTop (r : range) (g : gcfun).   (* top.SeekGC: the cache layer's own maps only *)

Definition set_stack (s : stack) (lb : list layer * kvs) : stack :=
  {| layers := fst lb; bkind := bkind s; base := snd lb |}.

Definition step (s : stack) (o : op) : stack :=
  match o, layers s with
  | OPut k v, L :: t => set_stack s (with_lm L (insert k (Some v) (lm L)) :: t, base s)
  | ODel k, L :: t => set_stack s (with_lm L (insert k None (lm L)) :: t, base s)
  | OWrap p, ls => set_stack s ({| lpriv := p; lm := [] |} :: ls, base s)
  | OPersist i, L :: t =>
      if (i =? 0) && lpriv L then
        match t with
        | [] => s
        | _ :: _ => set_stack s (write_below (lm L) t (base s))
        end
      else set_stack s (at_layer (N.to_nat i) persist_shared (layers s) (base s))
  | OPersistPrivate, L :: L2 :: t =>
      if lpriv L then set_stack s (with_lm L2 (copy_into (lm L) (lm L2)) :: t, base s) else s
  | ODrop, _ :: (L2 :: t) => set_stack s (L2 :: t, base s)
  | OGcBase r g, ls => set_stack s (ls, base_seekgc (bkind s) (gkeep g) (gstop g) r (base s))
  | OGcTop r g, L :: t => set_stack s (with_lm L (layer_seekgc (gkeep g) (gstop g) r (lm L)) :: t, base s)
  | _, _ => s
  end.

Definition run (s : stack) (ops : list op) : stack := fold_left step ops s.

(* NewMemCachedStore(base): one shared layer over an empty base *)
Definition init (bk : backend) : stack :=
  {| layers := [{| lpriv := false; lm := [] |}]; bkind := bk; base := [] |}.
