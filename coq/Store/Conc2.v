(* C09 — readers on a stack of TWO shared layers, and depth-limited seeks.

   System: shared MemCachedStore L1 (maps [top]) over shared MemCachedStore L2 over a base store X.  The part
   "L2 over X" is exactly the system of Store/Conc.v ([sub]): writes into L2 (PersistPrivate, PutChangeSet, the lower
   write of a Persist of L1), the three lock regions of L2.Persist — the Persist of the MIDDLE layer —, and L2's own
   reader steps.  A reader on the top layer has THREE steps:
     BSnap1 r        L1.prepareSeekMemSnapshot: L1's entries under L1's read lock (its ps is L2)
     BSub (ASnap r)  L2.Seek, first half: L2's entries and L2.ps under L2's read lock
     BSub ARead      L2.Seek, second half: the captured lower store; then both merges
   and writers BWrite1 into the top layer.  The answer is what performSeek computes from the three snapshots with the
   SearchDepth handling of the code: seek_layers over the snapshot layers (for SearchDepth 0 this is the nesting of the
   two full-depth merges, [answer_depth0]). *)
From NG Require Import Common.Tactics Store.Bytes Store.Model Store.Spec Store.MapLemmas Store.MergeProof Store.Refine
  Store.GcProof Store.Conc.
Open Scope N_scope.

Record c2state := {
  top : lmap;                         (* L1's maps *)
  sub : cstate;                       (* L2 over X, with L2's reader state *)
  r1 : option (range * lmap);         (* the top reader after BSnap1: range and L1's snapshot *)
  ans2 : option kvs                   (* its answer *)
}.

Inductive action2 := BWrite1 (b : lmap) | BSnap1 (r : range) | BSub (a : action).

Definition mk (m : lmap) : layer := {| lpriv := false; lm := m |}.
Definition hl (h : handle) : list layer := match h with HTemp t => [mk t] | HLower => [] end.

Definition c2step (c : c2state) (a : action2) : c2state :=
  match a with
  | BWrite1 b => {| top := copy_into b (top c); sub := sub c; r1 := r1 c; ans2 := ans2 c |}
  | BSnap1 r =>
      match r1 c with
      | None => {| top := top c; sub := sub c; r1 := Some (r, top c); ans2 := ans2 c |}
      | Some _ => c
      end
  | BSub a =>
      let s' := cstep (sub c) a in
      match a, r1 c, rsnap (sub c), ans2 c with
      | ARead, Some (r, w1), Some (_, w2, h), None =>
          {| top := top c; sub := s'; r1 := r1 c;
             ans2 := Some (seek_layers (cbk (sub c)) (mk w1 :: mk w2 :: hl h) (cx (sub c)) r) |}
      | _, _, _, _ => {| top := top c; sub := s'; r1 := r1 c; ans2 := ans2 c |}
      end
  end.

Definition c2run (c : c2state) (tr : list action2) : c2state := fold_left c2step tr c.

(* the one ordered map of the two-layer system, and its physical layers (the tempstore of a Persist in flight is one) *)
Definition c2flat (c : c2state) : kvs := apply_writes (top c) (cflat (sub c)).
Definition phys (c : c2state) : list layer :=
  mk (top c) :: mk (cm (sub c)) :: match ctemp (sub c) with Some (t, _) => [mk t] | None => [] end.

Definition c2wf (c : c2state) : Prop :=
  sorted false (top c) /\ keys_ok (top c) /\ cwf (sub c) /\
  match r1 c with Some (_, w1) => sorted false w1 /\ keys_ok w1 | None => True end.

Definition batch_ok2 (a : action2) : Prop :=
  match a with BWrite1 b => sorted false b /\ keys_ok b | BSub a => batch_ok a | BSnap1 _ => True end.

Lemma c2wf_intro c : sorted false (top c) -> keys_ok (top c) -> cwf (sub c) ->
  match r1 c with Some (_, w1) => sorted false w1 /\ keys_ok w1 | None => True end -> c2wf c.
Proof. intros. split; [|split; [|split]]; assumption. Qed.

Lemma c2step_wf c a : c2wf c -> batch_ok2 a -> c2wf (c2step c a).
Proof.
  intros (St & Kt & Hs & Hr) Ha. destruct a as [b|r|a].
  - destruct Ha. apply c2wf_intro; simpl; auto using sorted_copy_into, keys_ok_copy_into.
  - simpl. destruct (r1 c) as [[r0 w0]|] eqn:E.
    + apply c2wf_intro; auto. now rewrite E.
    + apply c2wf_intro; simpl; auto.
  - pose proof (cstep_wf (sub c) a Hs Ha) as Hs'.
    assert (E : sub (c2step c (BSub a)) = cstep (sub c) a /\ top (c2step c (BSub a)) = top c /\ r1 (c2step c (BSub a)) = r1 c).
    { simpl. destruct a; auto. destruct (r1 c) as [[? ?]|]; auto.
      destruct (rsnap (sub c)) as [[[? ?] ?]|]; auto. destruct (ans2 c); auto. }
    destruct E as (E1 & E2 & E3). apply c2wf_intro; rewrite ?E1, ?E2, ?E3; auto.
Qed.

Lemma c2run_wf tr : forall c, c2wf c -> Forall batch_ok2 tr -> c2wf (c2run c tr).
Proof.
  unfold c2run. induction tr as [|a tr IH]; simpl; auto. intros c Hc Hb. inv Hb. apply IH; auto. now apply c2step_wf.
Qed.

Lemma c2run_app c t1 t2 : c2run c (t1 ++ t2) = c2run (c2run c t1) t2.
Proof. unfold c2run. apply fold_left_app. Qed.

(* the middle part runs exactly the schedule of its own actions *)
Definition proj1 (a : action2) : list action := match a with BSub x => [x] | _ => [] end.
Definition proj (tr : list action2) : list action := flat_map proj1 tr.

Lemma sub_c2step c a : sub (c2step c a) = crun (sub c) (proj1 a).
Proof.
  destruct a as [b|r|a]; simpl; auto.
  - destruct (r1 c); reflexivity.
  - unfold crun. simpl. destruct a; auto. destruct (r1 c) as [[? ?]|]; auto.
    destruct (rsnap (sub c)) as [[[? ?] ?]|]; auto. destruct (ans2 c); auto.
Qed.

Lemma sub_c2run tr : forall c, sub (c2run c tr) = crun (sub c) (proj tr).
Proof.
  unfold c2run, proj. induction tr as [|a tr IH]; intros c; simpl; auto.
  rewrite IH, sub_c2step. now rewrite crun_app.
Qed.

(* ---- every action except a write leaves the one map unchanged (Persist of the middle layer included) ---- *)
Theorem middle_persist_preserves_flat c a : c2wf c ->
  match a with
  | BWrite1 b => sorted false b -> c2flat (c2step c a) = apply_writes b (c2flat c)
  | BSub (AWrite _) | BSub (AGc _ _) => True
  | _ => c2flat (c2step c a) = c2flat c
  end.
Proof.
  intros (St & Kt & Hs & Hr). destruct a as [b|r|a].
  - intros Sb. unfold c2flat. simpl. apply apply_writes_copy_into; auto.
    destruct Hs as (Sm & Km & Sx & Kx & Ht & _). unfold cflat.
    apply sorted_apply_writes. destruct (ctemp (sub c)) as [[t w]|]; auto. destruct Ht. now apply sorted_apply_writes.
  - simpl. destruct (r1 c); reflexivity.
  - pose proof (persist_regions_preserve_flat (sub c) a Hs) as H.
    assert (E : sub (c2step c (BSub a)) = cstep (sub c) a) by (rewrite sub_c2step; reflexivity).
    assert (T : top (c2step c (BSub a)) = top c).
    { simpl. destruct a; auto. destruct (r1 c) as [[? ?]|]; auto.
      destruct (rsnap (sub c)) as [[[? ?] ?]|]; auto. destruct (ans2 c); auto. }
    destruct a; auto; unfold c2flat; rewrite E, T, H; reflexivity.
Qed.

(* ---- the answer for SearchDepth 0 is the nesting of the two full-depth merges ---- *)
Lemma set_depth_0 r : rdepth r = 0 -> set_depth r 0 = r.
Proof. destruct r; simpl; intros ->; reflexivity. Qed.

Lemma answer_depth0 bk w1 w2 h x r : rdepth r = 0 ->
  seek_layers bk (mk w1 :: mk w2 :: hl h) x r =
  layer_seek false r w1 (Some (layer_seek false r w2 (Some (handle_seek bk h r x)))).
Proof.
  intros Hd. cbn [seek_layers mk lm]. rewrite Hd. cbn [lower_depth N.eqb]. rewrite (set_depth_0 r Hd).
  rewrite Hd. cbn [lower_depth N.eqb]. rewrite (set_depth_0 r Hd).
  destruct h as [|t]; cbn [hl seek_layers handle_seek mk lm]; auto.
  rewrite Hd. cbn [lower_depth N.eqb]. now rewrite (set_depth_0 r Hd).
Qed.

Lemma rq_apply_congr r (w : lmap) (A B : kvs) : sorted false w -> sorted false A -> sorted false B ->
  rq r A = rq r B -> rq r (apply_writes w A) = rq r (apply_writes w B).
Proof.
  intros Sw SA SB H. apply (sorted_ext (rback r)); auto using sorted_rq, sorted_apply_writes.
  intros k. rewrite !lookup_rq, !lookup_apply_writes by auto using sorted_apply_writes.
  destruct (in_range (rprefix r) (rstart r) (rback r) k) eqn:E; auto.
  assert (lookup k (rq r A) = lookup k (rq r B)) as H' by now rewrite H.
  rewrite !lookup_rq, E in H' by auto. now rewrite H'.
Qed.

Definition no_reader2 (a : action2) : Prop :=
  match a with BSnap1 _ | BSub (ASnap _) | BSub ARead => False | _ => True end.
(* between the two snapshots: nothing may be written into the middle layer (its Persist may run) *)
Definition quiet1 (a : action2) : Prop :=
  match a with BSnap1 _ | BSub (ASnap _) | BSub ARead | BSub (AWrite _) | BSub (AGc _ _) => False | _ => True end.
(* between the middle snapshot and the lower read: no NEW swap of the middle layer (as in Conc.reader_atomic_partial) *)
Definition quiet2 (a : action2) : Prop :=
  match a with BSnap1 _ | BSub (ASnap _) | BSub ARead | BSub ASwap | BSub (AGc _ _) => False | _ => True end.

Lemma quiet_keeps_top_reader c a : no_reader2 a -> r1 (c2step c a) = r1 c /\ ans2 (c2step c a) = ans2 c.
Proof.
  destruct a as [b|r|a]; simpl; try contradiction; auto. destruct a; simpl; try contradiction; auto.
Qed.

Lemma run_keeps_top_reader l : forall c, Forall no_reader2 l -> r1 (c2run c l) = r1 c /\ ans2 (c2run c l) = ans2 c.
Proof.
  unfold c2run. induction l as [|a l IH]; simpl; auto. intros c H. inv H.
  destruct (IH (c2step c a) H3) as [E1 E2]. destruct (quiet_keeps_top_reader c a H2) as [E3 E4]. split; congruence.
Qed.

Lemma cflat_quiet_run l : forall s, cwf s -> Forall batch_ok l ->
  Forall (fun a => match a with AWrite _ | AGc _ _ => False | _ => True end) l -> cflat (crun s l) = cflat s.
Proof.
  unfold crun. induction l as [|a l IH]; simpl; auto. intros s Hs Hb Hq. inv Hb. inv Hq.
  rewrite IH; auto using cstep_wf.
  pose proof (persist_regions_preserve_flat s a Hs) as H. destruct a; auto; contradiction.
Qed.

Lemma Forall_proj (P : action -> Prop) (Q : action2 -> Prop) l :
  (forall a, Q (BSub a) -> P a) -> Forall Q l -> Forall P (proj l).
Proof.
  intros H. unfold proj. induction 1 as [|a l Ha Hl IH]; simpl; auto.
  destruct a; simpl; auto.
Qed.

(* ---- reader atomicity on two shared layers, full depth ----
   Persist of the middle layer may run anywhere around the reader, with the two provisos that are the two-layer form
   of Conc.reader_atomic_partial: nothing is written INTO the middle layer between the reader's two snapshots, and no
   NEW swap of the middle layer falls between the middle snapshot and the lower read.  Writers of the top layer are
   unrestricted.  The answer is the range query on the one map at the instant of the FIRST snapshot. *)
Theorem two_layer_reader_atomic c0 pre r mid1 mid2 :
  c2wf c0 -> r1 c0 = None -> ans2 c0 = None -> rsnap (sub c0) = None -> rans (sub c0) = None ->
  Forall batch_ok2 pre -> Forall batch_ok2 mid1 -> Forall batch_ok2 mid2 ->
  Forall no_reader2 pre -> Forall quiet1 mid1 -> Forall quiet2 mid2 ->
  range_ok r -> rdepth r = 0 ->
  ans2 (c2run c0 (pre ++ BSnap1 r :: mid1 ++ BSub (ASnap r) :: mid2 ++ [BSub ARead])) =
  Some (rq r (c2flat (c2run c0 pre))).
Proof.
  intros Hc0 Hr0 Ha0 Hs0 Hn0 Hbp Hb1 Hb2 Hpre Hq1 Hq2 Hr Hd.
  set (c1 := c2run c0 pre).
  assert (Hc1 : c2wf c1) by now apply c2run_wf.
  destruct (run_keeps_top_reader pre c0 Hpre) as [E1 E2]. fold c1 in E1, E2. rewrite Hr0 in E1. rewrite Ha0 in E2.
  set (c2 := c2step c1 (BSnap1 r)).
  assert (R2 : r1 c2 = Some (r, top c1) /\ ans2 c2 = None /\ sub c2 = sub c1).
  { subst c2. simpl. rewrite E1. simpl. auto. }
  destruct R2 as (R2 & A2 & S2).
  assert (Hc2 : c2wf c2) by (apply c2step_wf; simpl; auto).
  (* the whole run, state before the last step *)
  set (tail := mid1 ++ BSub (ASnap r) :: mid2).
  assert (Erun : c2run c0 (pre ++ BSnap1 r :: mid1 ++ BSub (ASnap r) :: mid2 ++ [BSub ARead]) =
                 c2step (c2run c2 tail) (BSub ARead)).
  { rewrite c2run_app. fold c1. change (BSnap1 r :: mid1 ++ BSub (ASnap r) :: mid2 ++ [BSub ARead])
      with ([BSnap1 r] ++ (mid1 ++ BSub (ASnap r) :: mid2 ++ [BSub ARead])).
    rewrite c2run_app. change (c2run c1 [BSnap1 r]) with c2.
    replace (mid1 ++ BSub (ASnap r) :: mid2 ++ [BSub ARead]) with (tail ++ [BSub ARead]).
    - now rewrite c2run_app.
    - subst tail. rewrite <- app_assoc. reflexivity. }
  set (c3 := c2run c2 tail) in *.
  assert (Hnr : Forall no_reader2 mid1 /\ Forall no_reader2 mid2).
  { split; [eapply Forall_impl; [|exact Hq1]|eapply Forall_impl; [|exact Hq2]]; intros a; destruct a as [| |a]; simpl; auto;
      destruct a; simpl; auto. }
  destruct Hnr as [Hn1 Hn2].
  (* top reader state at c3 *)
  assert (R3 : r1 c3 = Some (r, top c1) /\ ans2 c3 = None).
  { subst c3 tail. rewrite c2run_app.
    destruct (run_keeps_top_reader mid1 c2 Hn1) as [F1 F2].
    change (BSub (ASnap r) :: mid2) with ([BSub (ASnap r)] ++ mid2). rewrite c2run_app.
    destruct (run_keeps_top_reader mid2 (c2run (c2run c2 mid1) [BSub (ASnap r)]) Hn2) as [G1 G2].
    rewrite G1, G2. unfold c2run at 1 3. simpl. split; congruence. }
  destruct R3 as [R3 A3].
  (* the middle system ran: its own pre, snapshot, window *)
  assert (Esub : sub c3 = crun (sub c0) ((proj pre ++ proj mid1) ++ ASnap r :: proj mid2)).
  { subst c3 tail. rewrite sub_c2run, S2. subst c1. rewrite sub_c2run.
    rewrite <- crun_app. f_equal. unfold proj. rewrite flat_map_app. simpl. now rewrite <- app_assoc. }
  (* Conc's theorem for the middle reader *)
  pose proof (reader_atomic_partial (sub c0) (proj pre ++ proj mid1) r (proj mid2)) as RA.
  assert (Hsub0 : cwf (sub c0)) by apply Hc0.
  assert (Bp : Forall batch_ok (proj pre ++ proj mid1)).
  { apply Forall_app. split; (apply (Forall_proj batch_ok batch_ok2); [intros a H; exact H|assumption]). }
  assert (Bm : Forall batch_ok (proj mid2)) by (apply (Forall_proj batch_ok batch_ok2); [intros a H; exact H|assumption]).
  assert (Pp : Forall (fun a => match a with ASnap _ | ARead => False | _ => True end) (proj pre ++ proj mid1)).
  { apply Forall_app. split.
    - eapply (Forall_proj _ no_reader2); [|exact Hpre]. intros a; destruct a; simpl; auto.
    - eapply (Forall_proj _ quiet1); [|exact Hq1]. intros a; destruct a; simpl; auto. }
  assert (Pm : Forall no_swap_or_reader (proj mid2)).
  { eapply (Forall_proj _ quiet2); [|exact Hq2]. intros a; destruct a; simpl; auto. }
  specialize (RA Hsub0 Hs0 Hn0 Bp Bm Pp Pm Hr). cbv zeta in RA.
  (* state of the middle reader just before its read *)
  assert (Hc3 : c2wf c3).
  { subst c3 tail. apply c2run_wf; auto. apply Forall_app. split; auto. constructor; simpl; auto. }
  rewrite Erun.
  assert (RA' : rans (cstep (sub c3) ARead) = Some (rq r (cflat (crun (sub c0) (proj pre ++ proj mid1))))).
  { rewrite Esub, <- RA.
    replace ((proj pre ++ proj mid1) ++ ASnap r :: proj mid2 ++ [ARead])
      with (((proj pre ++ proj mid1) ++ ASnap r :: proj mid2) ++ [ARead]) by (rewrite <- app_assoc; reflexivity).
    rewrite (crun_app _ ((proj pre ++ proj mid1) ++ ASnap r :: proj mid2) [ARead]). reflexivity. }
  assert (Hsn : exists w2 h, rsnap (sub c3) = Some (r, w2, h) /\ rans (sub c3) = None /\
                  rans (cstep (sub c3) ARead) = Some (layer_seek false r w2 (Some (handle_seek (cbk (sub c3)) h r (cx (sub c3)))))).
  { pose proof RA' as RA''.
    simpl in RA''. destruct (rsnap (sub c3)) as [[[r3 w3] h3]|] eqn:E3.
    - destruct (rans (sub c3)) eqn:E4.
      + (* impossible: the middle reader had no answer before its read; rans would already be Some *)
        exfalso.
        assert (rans (sub c3) = None) as Hnone.
        { rewrite Esub. rewrite crun_app.
          assert (forall l s, Forall (fun a => match a with ARead => False | _ => True end) l -> rans s = None -> rans (crun s l) = None) as Hk.
          { unfold crun. induction l as [|a l IH]; simpl; auto. intros s Hl Hn. inv Hl. apply IH; auto.
            destruct a; simpl; auto; try contradiction.
            - destruct (ctemp s); auto. destruct (cm s); auto.
            - destruct (ctemp s) as [[? [|]]|]; auto.
            - destruct (ctemp s) as [[? [|]]|]; auto.
            - destruct (rsnap s); auto.
            - destruct (ctemp s); auto. }
          apply Hk.
          - constructor; [exact I|]. eapply Forall_impl; [|exact Pm]. intros a; destruct a; simpl; auto.
          - apply Hk; auto. eapply Forall_impl; [|exact Pp]. intros a; destruct a; simpl; auto. }
        congruence.
      + (* the range recorded is r *)
        assert (r3 = r) as ->.
        { assert (forall l s rr ww hh, rsnap s = Some (rr, ww, hh) -> rsnap (crun s l) = Some (rr, ww, hh)) as Hk.
          { unfold crun. induction l as [|a l IH]; simpl; auto. intros s rr ww hh Hn. apply IH.
            destruct a; simpl; auto.
            - destruct (ctemp s); auto. destruct (cm s); auto.
            - destruct (ctemp s) as [[? [|]]|]; auto.
            - destruct (ctemp s) as [[? [|]]|]; auto.
            - now rewrite Hn.
            - rewrite Hn. destruct (rans s); auto.
            - destruct (ctemp s); auto. }
          rewrite Esub, crun_app in E3. change (ASnap r :: proj mid2) with ([ASnap r] ++ proj mid2) in E3.
          rewrite crun_app in E3.
          set (sp := crun (sub c0) (proj pre ++ proj mid1)) in *.
          assert (rsnap sp = None) as Hsp.
          { subst sp. clear -Hs0 Pp. revert Hs0. generalize (sub c0). unfold crun.
            induction (proj pre ++ proj mid1) as [|a l IH]; simpl; auto. intros s Hn. inv Pp. apply IH; auto.
            destruct a; simpl; auto; try contradiction.
            - destruct (ctemp s); auto. destruct (cm s); auto.
            - destruct (ctemp s) as [[? [|]]|]; auto.
            - destruct (ctemp s) as [[? [|]]|]; auto.
            - destruct (ctemp s); auto. }
          assert (exists ww hh, rsnap (crun sp [ASnap r]) = Some (r, ww, hh)) as (ww & hh & Hsn).
          { unfold crun. simpl. rewrite Hsp. simpl. eauto. }
          rewrite (Hk (proj mid2) _ _ _ _ Hsn) in E3. now inv E3. }
        exists w3, h3. repeat split; auto. simpl. now rewrite E3, E4.
    - (* no snapshot: impossible *)
      rewrite Esub in E3.
      exfalso. rewrite crun_app in E3. change (ASnap r :: proj mid2) with ([ASnap r] ++ proj mid2) in E3.
      rewrite crun_app in E3.
      assert (forall l s, rsnap s <> None -> rsnap (crun s l) <> None) as Hk.
      { unfold crun. induction l as [|a l IH]; simpl; auto. intros s Hn. apply IH.
        destruct a; simpl; auto;
          repeat match goal with |- context [match ?x with _ => _ end] => destruct x eqn:? end;
          simpl; auto; try discriminate; congruence. }
      apply (Hk (proj mid2) (crun (crun (sub c0) (proj pre ++ proj mid1)) [ASnap r])); auto.
      unfold crun. simpl.
      match goal with |- context [match rsnap ?x with _ => _ end] => destruct (rsnap x) eqn:E0 end; simpl; congruence. }
  destruct Hsn as (w2 & h & E3 & N3 & Rd).
  cbn [c2step]. rewrite R3, E3, A3. cbn [ans2]. f_equal.
  rewrite answer_depth0 by exact Hd.
  (* Conc: the middle answer is the range query on the middle map at its snapshot, = at the first snapshot *)
  rewrite Rd in RA'. inv RA'. rewrite H0.
  (* window 1 preserved the middle map *)
  assert (Ef : cflat (crun (sub c0) (proj pre ++ proj mid1)) = cflat (sub c1)).
  { rewrite crun_app. subst c1. rewrite sub_c2run. apply cflat_quiet_run.
    - apply crun_wf; auto. apply (Forall_proj batch_ok batch_ok2); [intros a H; exact H|assumption].
    - apply (Forall_proj batch_ok batch_ok2); [intros a H; exact H|assumption].
    - eapply (Forall_proj _ quiet1); [|exact Hq1]. intros a; destruct a; simpl; auto. }
  rewrite Ef.
  destruct Hc1 as (St & Kt & Hs1 & _).
  assert (Sf : sorted false (cflat (sub c1))).
  { destruct Hs1 as (Sm & Km & Sx & Kx & Ht & _). unfold cflat. apply sorted_apply_writes; auto.
    destruct (ctemp (sub c1)) as [[t w]|]; auto. destruct Ht. now apply sorted_apply_writes. }
  rewrite layer_seek_rq by auto. now rewrite trim_false.
Qed.

(* ---- depth-limited seeks (any SearchDepth), two shared layers ----
   Between the first snapshot and the lower read nothing is written into the middle layer and neither its swap nor its
   unswap happens (the write below and writers of the top layer may).  Then the answer is the range query on the
   flattening of the SearchDepth topmost PHYSICAL layers — the tempstore of a Persist in flight counts as a layer, as the
   code counts it — at the instant of the first snapshot. *)
Definition still (a : action2) : Prop :=
  match a with
  | BSnap1 _ | BSub (ASnap _) | BSub ARead | BSub (AWrite _) | BSub ASwap | BSub AUnswap | BSub (AGc _ _) => False
  | _ => True
  end.

Section Depth.
  Variable c1 : c2state.     (* the state at the first snapshot *)
  Variable r : range.
  Hypothesis Hc1 : c2wf c1.

  Definition t1 : option lmap := match ctemp (sub c1) with Some (t, _) => Some t | None => None end.

  (* what may have happened to the state, seen from the reader *)
  Definition DInv (c : c2state) : Prop :=
    c2wf c /\ r1 c = Some (r, top c1) /\ ans2 c = None /\ cbk (sub c) = cbk (sub c1) /\
    cm (sub c) = cm (sub c1) /\
    match ctemp (sub c), ctemp (sub c1) with
    | Some (t, _), Some (t', _) => t = t' | None, None => True | _, _ => False
    end /\
    (cx (sub c) = cx (sub c1) \/ exists t w, ctemp (sub c1) = Some (t, w) /\ cx (sub c) = apply_writes t (cx (sub c1))) /\
    (rsnap (sub c) = None \/
     rsnap (sub c) = Some (r, cm (sub c1), match ctemp (sub c1) with Some (t, _) => HTemp t | None => HLower end)).

  Lemma DInv_step c a : still a -> batch_ok2 a -> DInv c -> DInv (c2step c a).
  Proof.
    intros Hs Hb (Hc & R & A & B & M & T & X & S).
    pose proof (c2step_wf c a Hc Hb) as Hc'.
    destruct a as [b|r0|a]; simpl in Hs; try contradiction.
    - simpl. repeat split; auto; apply Hc'.
    - destruct a; simpl in Hs; try contradiction.
      + (* the write below *)
        assert (E : c2step c (BSub ALowerWrite) =
                    {| top := top c; sub := cstep (sub c) ALowerWrite; r1 := r1 c; ans2 := ans2 c |}) by reflexivity.
        rewrite E in *. clear E.
        set (s' := cstep (sub c) ALowerWrite) in *.
        assert (F : cbk s' = cbk (sub c) /\ cm s' = cm (sub c) /\ rsnap s' = rsnap (sub c) /\
                    match ctemp s', ctemp (sub c) with
                    | Some (t, _), Some (t', _) => t = t' | None, None => True | _, _ => False end /\
                    (cx s' = cx (sub c) \/ exists t w, ctemp (sub c) = Some (t, w) /\ cx s' = apply_writes t (cx (sub c)))).
        { subst s'. simpl. destruct (ctemp (sub c)) as [[t [|]]|] eqn:Et; simpl; rewrite ?Et; repeat split; auto.
          right. eauto. }
        destruct F as (F1 & F2 & F3 & F4 & F5).
        unfold DInv. cbn [sub top r1 ans2]. split; [exact Hc'|].
        split; [exact R|]. split; [exact A|]. split; [congruence|]. split; [congruence|].
        split; [|split; [|now rewrite F3]].
        * destruct (ctemp s') as [[t w]|], (ctemp (sub c)) as [[t' w']|], (ctemp (sub c1)) as [[t'' w'']|];
            try contradiction; auto; congruence.
        * destruct F5 as [F5|(t & w & Et & F5)]; [now rewrite F5|].
          rewrite Et in T. destruct (ctemp (sub c1)) as [[t' w']|] eqn:Et1; [|contradiction]. subst t'.
          destruct X as [X|(t2 & w2 & E2 & X)].
          -- right. exists t, w'. split; auto. now rewrite F5, X.
          -- inv E2. right. exists t2, w2. split; auto. rewrite F5, X.
             destruct Hc1 as (_ & _ & Hs1 & _). destruct Hs1 as (_ & _ & Sx & _ & Ht & _). rewrite Et1 in Ht.
             destruct Ht as (St & _). now rewrite apply_writes_idem.
  Qed.

  Lemma DInv_run l : forall c, Forall still l -> Forall batch_ok2 l -> DInv c -> DInv (c2run c l).
  Proof.
    unfold c2run. induction l as [|a l IH]; simpl; auto. intros c Hs Hb Hi. inv Hs. inv Hb. apply IH; auto.
    now apply DInv_step.
  Qed.

  Lemma DInv_snap2 c : DInv c -> rsnap (sub c) = None -> DInv (c2step c (BSub (ASnap r))).
  Proof.
    intros (Hc & R & A & B & M & T & X & S) Hn.
    pose proof (c2step_wf c (BSub (ASnap r)) Hc I) as Hc'.
    assert (E : c2step c (BSub (ASnap r)) =
                {| top := top c; sub := cstep (sub c) (ASnap r); r1 := r1 c; ans2 := ans2 c |}) by reflexivity.
    rewrite E in *. clear E.
    set (s' := cstep (sub c) (ASnap r)) in *.
    assert (F : cbk s' = cbk (sub c) /\ cm s' = cm (sub c) /\ ctemp s' = ctemp (sub c) /\ cx s' = cx (sub c) /\
                rsnap s' = Some (r, cm (sub c), match ctemp (sub c) with Some (t, _) => HTemp t | None => HLower end)).
    { subst s'. simpl. rewrite Hn. simpl. auto. }
    destruct F as (F1 & F2 & F3 & F4 & F5).
    unfold DInv. cbn [sub top r1 ans2]. split; [exact Hc'|].
    split; [exact R|]. split; [exact A|]. split; [congruence|]. split; [congruence|].
    split; [now rewrite F3|]. split; [now rewrite F4|].
    right. rewrite F5, M. do 2 f_equal.
    destruct (ctemp (sub c)) as [[t w]|], (ctemp (sub c1)) as [[t' w']|]; try contradiction; congruence.
  Qed.
End Depth.

Lemma fdr_temp_idem d w1 w2 t (x : kvs) : sorted false w1 -> sorted false w2 -> sorted false t -> sorted false x ->
  fdr d [mk w1; mk w2; mk t] (apply_writes t x) = fdr d [mk w1; mk w2; mk t] x.
Proof.
  intros. cbn [fdr mk lm]. destruct (lower_depth d) as [d1|]; auto. destruct (lower_depth d1) as [d2|]; auto.
  destruct (lower_depth d2); auto. now rewrite apply_writes_idem.
Qed.

Theorem two_layer_reader_depth c0 pre r mid1 mid2 :
  c2wf c0 -> r1 c0 = None -> ans2 c0 = None -> rsnap (sub c0) = None -> rans (sub c0) = None ->
  Forall batch_ok2 pre -> Forall batch_ok2 mid1 -> Forall batch_ok2 mid2 ->
  Forall no_reader2 pre -> Forall still mid1 -> Forall still mid2 ->
  range_ok r ->
  let c1 := c2run c0 pre in
  ans2 (c2run c0 (pre ++ BSnap1 r :: mid1 ++ BSub (ASnap r) :: mid2 ++ [BSub ARead])) =
  Some (rq r (flat_depth_layers (rdepth r) (phys c1) (cx (sub c1)))).
Proof.
  intros Hc0 Hr0 Ha0 Hs0 Hn0 Hbp Hb1 Hb2 Hpre Hq1 Hq2 Hr c1.
  assert (Hc1 : c2wf c1) by now apply c2run_wf.
  destruct (run_keeps_top_reader pre c0 Hpre) as [E1 E2]. fold c1 in E1, E2. rewrite Hr0 in E1. rewrite Ha0 in E2.
  assert (Hsn1 : rsnap (sub c1) = None).
  { subst c1. rewrite sub_c2run.
    assert (Pp : Forall (fun a => match a with ASnap _ | ARead => False | _ => True end) (proj pre)).
    { eapply (Forall_proj _ no_reader2); [|exact Hpre]. intros a; destruct a; simpl; auto. }
    revert Hs0 Pp. generalize (sub c0). unfold crun. induction (proj pre) as [|a l IH]; simpl; auto. intros s Hn Pp. inv Pp.
    apply IH; auto. destruct a; simpl; auto; try contradiction.
    - destruct (ctemp s); auto. destruct (cm s); auto.
    - destruct (ctemp s) as [[? [|]]|]; auto.
    - destruct (ctemp s) as [[? [|]]|]; auto.
    - destruct (ctemp s); auto. }
  set (c2 := c2step c1 (BSnap1 r)).
  assert (D2 : DInv c1 r c2).
  { pose proof (c2step_wf c1 (BSnap1 r) Hc1 I) as W2. simpl in W2. rewrite E1 in W2.
    subst c2. unfold DInv. simpl. rewrite E1. simpl.
    split; [exact W2|]. repeat split; auto.
    destruct (ctemp (sub c1)) as [[t w]|]; auto. }
  assert (Erun : c2run c0 (pre ++ BSnap1 r :: mid1 ++ BSub (ASnap r) :: mid2 ++ [BSub ARead]) =
                 c2step (c2run (c2step (c2run c2 mid1) (BSub (ASnap r))) mid2) (BSub ARead)).
  { rewrite c2run_app. fold c1. change (BSnap1 r :: mid1 ++ BSub (ASnap r) :: mid2 ++ [BSub ARead])
      with ([BSnap1 r] ++ (mid1 ++ [BSub (ASnap r)] ++ mid2 ++ [BSub ARead])).
    rewrite !c2run_app. reflexivity. }
  rewrite Erun.
  pose proof (DInv_run c1 r Hc1 mid1 c2 Hq1 Hb1 D2) as D3.
  assert (N3 : rsnap (sub (c2run c2 mid1)) = None).
  { rewrite sub_c2run.
    assert (sub c2 = sub c1) as -> by (subst c2; simpl; now rewrite E1).
    assert (Pq : Forall (fun a => match a with ASnap _ | ARead => False | _ => True end) (proj mid1)).
    { eapply (Forall_proj _ still); [|exact Hq1]. intros a; destruct a; simpl; auto. }
    revert Hsn1 Pq. generalize (sub c1). unfold crun. induction (proj mid1) as [|a l IH]; simpl; auto. intros s Hn Pq. inv Pq.
    apply IH; auto. destruct a; simpl; auto; try contradiction.
    - destruct (ctemp s); auto. destruct (cm s); auto.
    - destruct (ctemp s) as [[? [|]]|]; auto.
    - destruct (ctemp s) as [[? [|]]|]; auto.
    - destruct (ctemp s); auto. }
  pose proof (DInv_snap2 c1 r _ D3 N3) as D4.
  assert (S4 : rsnap (sub (c2step (c2run c2 mid1) (BSub (ASnap r)))) =
               Some (r, cm (sub c1), match ctemp (sub c1) with Some (t, _) => HTemp t | None => HLower end)).
  { destruct D3 as (_ & _ & _ & _ & M & T & _ & _).
    assert (E : sub (c2step (c2run c2 mid1) (BSub (ASnap r))) = cstep (sub (c2run c2 mid1)) (ASnap r)) by reflexivity.
    rewrite E. simpl. rewrite N3. simpl. rewrite M. do 2 f_equal.
    destruct (ctemp (sub (c2run c2 mid1))) as [[t w]|], (ctemp (sub c1)) as [[t' w']|]; try contradiction; congruence. }
  set (c4 := c2step (c2run c2 mid1) (BSub (ASnap r))) in *.
  pose proof (DInv_run c1 r Hc1 mid2 c4 Hq2 Hb2 D4) as D5.
  set (c5 := c2run c4 mid2) in *.
  assert (S5 : rsnap (sub c5) = Some (r, cm (sub c1), match ctemp (sub c1) with Some (t, _) => HTemp t | None => HLower end)).
  { subst c5. rewrite sub_c2run.
    assert (forall l s v, rsnap s = Some v -> Forall (fun a => match a with ASnap _ | ARead => False | _ => True end) l ->
                      rsnap (crun s l) = Some v) as Hk.
    { unfold crun. induction l as [|a l IH]; simpl; auto. intros s v Hn Hl. inv Hl. apply IH; auto.
      destruct a; simpl; auto; try contradiction.
      - destruct (ctemp s); auto. destruct (cm s); auto.
      - destruct (ctemp s) as [[? [|]]|]; auto.
      - destruct (ctemp s) as [[? [|]]|]; auto.
      - destruct (ctemp s); auto. }
    apply Hk; auto. eapply (Forall_proj _ still); [|exact Hq2]. intros a; destruct a; simpl; auto. }
  destruct D5 as (Hc5 & R5 & A5 & B5 & M5 & T5 & X5 & _).
  cbn [c2step]. rewrite R5, S5, A5. cbn [ans2]. f_equal.
  (* the answer is seek_layers over the snapshot layers = range query on their depth-limited flattening *)
  destruct Hc1 as (St & Kt & Hs1 & _). pose proof Hs1 as (Sm & Km & Sx & Kx & Ht & _).
  destruct Hc5 as (_ & _ & Hs5 & _). pose proof Hs5 as (_ & _ & Sx5 & Kx5 & _ & _).
  rewrite seek_layers_rq; auto.
  2:{ destruct (ctemp (sub c1)) as [[t w]|]; simpl; repeat constructor; simpl; auto; apply Ht. }
  f_equal. rewrite <- fdr_flat. unfold phys.
  destruct (ctemp (sub c1)) as [[t w]|] eqn:Et1; cbn [hl app].
  - destruct Ht as (Stt & _). destruct X5 as [X5|(t2 & w2 & Eq2 & X5)]; rewrite X5; auto.
    inv Eq2. now apply fdr_temp_idem.
  - destruct X5 as [X5|(t2 & w2 & Eq2 & X5)]; [now rewrite X5|discriminate].
Qed.
