(* C09 — byte strings as keys: lexicographic order (bytes.Compare), prefixes (bytes.HasPrefix),
   and the upper limit of a prefix range (goleveldb util.BytesPrefix).  Bytes are N below 256. *)
From NG Require Import Common.Tactics.
Open Scope N_scope.

Definition key := list N.
Definition val := list N.

(* bytes.Compare *)
Fixpoint bcmp (a b : key) : comparison :=
  match a, b with
  | [], [] => Eq
  | [], _ :: _ => Lt
  | _ :: _, [] => Gt
  | x :: a', y :: b' => match N.compare x y with Eq => bcmp a' b' | c => c end
  end.
Definition beq (a b : key) : bool := match bcmp a b with Eq => true | _ => false end.
Definition blt (a b : key) : bool := match bcmp a b with Lt => true | _ => false end.
Definition ble (a b : key) : bool := match bcmp a b with Gt => false | _ => true end.

(* bytes.HasPrefix k p *)
Fixpoint has_prefix (p k : key) : bool :=
  match p, k with
  | [], _ => true
  | _ :: _, [] => false
  | x :: p', y :: k' => N.eqb x y && has_prefix p' k'
  end.

(* util.BytesPrefix(p).Limit: p with its last byte below 0xff incremented and the rest cut off;
   None (nil limit = no upper bound) when p is empty or all 0xff *)
Fixpoint succ_prefix (p : key) : option key :=
  match p with
  | [] => None
  | x :: t =>
      match succ_prefix t with
      | Some t' => Some (x :: t')
      | None => if x <? 255 then Some [x + 1] else None
      end
  end.

(* k < limit, a nil limit being +infinity *)
Definition lt_lim (k : key) (lim : option key) : bool :=
  match lim with None => true | Some l => blt k l end.

Definition bytes_ok (k : key) : Prop := Forall (fun b => b < 256) k.
Definition bytes_okb (k : key) : bool := forallb (fun b => b <? 256) k.

(* comparison used by a seek: getCmpFunc(backwards) *)
Definition cmpf (bw : bool) (a b : key) : comparison := if bw then bcmp b a else bcmp a b.
Definition cmp_lt (bw : bool) (a b : key) : bool := match cmpf bw a b with Lt => true | _ => false end.

(* ---------------------------------------------------------------- order facts *)

Lemma bytes_okb_ok k : bytes_okb k = true <-> bytes_ok k.
Proof.
  unfold bytes_okb, bytes_ok. rewrite forallb_forall, Forall_forall.
  split; intros H x Hx; specialize (H x Hx); lia.
Qed.

Lemma bcmp_refl a : bcmp a a = Eq.
Proof. induction a as [|x a IH]; simpl; [reflexivity|]. now rewrite N.compare_refl. Qed.

Lemma bcmp_eq a b : bcmp a b = Eq -> a = b.
Proof.
  revert b; induction a as [|x a IH]; intros [|y b]; simpl; try discriminate; auto.
  destruct (N.compare_spec x y) as [->|H|H]; try discriminate. intros E; f_equal; auto.
Qed.

Lemma bcmp_antisym a b : bcmp b a = CompOpp (bcmp a b).
Proof.
  revert b; induction a as [|x a IH]; intros [|y b]; simpl; auto.
  rewrite (N.compare_antisym x y). destruct (N.compare x y); simpl; auto.
Qed.

Lemma bcmp_lt_trans a b c : bcmp a b = Lt -> bcmp b c = Lt -> bcmp a c = Lt.
Proof.
  revert b c; induction a as [|x a IH]; intros [|y b] [|z c]; simpl; try discriminate; auto.
  destruct (N.compare_spec x y) as [->|Hxy|Hxy]; try discriminate.
  - destruct (N.compare_spec y z) as [->|Hyz|Hyz]; try discriminate; auto. apply IH.
  - destruct (N.compare_spec y z) as [->|Hyz|Hyz]; try discriminate; intros _ _.
    + destruct (N.compare_spec x z); try lia; auto.
    + destruct (N.compare_spec x z); try lia; auto.
Qed.

Lemma bcmp_gt_lt a b : bcmp a b = Gt <-> bcmp b a = Lt.
Proof. rewrite (bcmp_antisym a b). destruct (bcmp a b); simpl; split; congruence. Qed.

Lemma beq_true a b : beq a b = true <-> a = b.
Proof.
  unfold beq; split.
  - destruct (bcmp a b) eqn:E; try discriminate. intros _; now apply bcmp_eq.
  - intros ->; now rewrite bcmp_refl.
Qed.
Lemma beq_refl a : beq a a = true.
Proof. now apply beq_true. Qed.
Lemma beq_false a b : beq a b = false <-> a <> b.
Proof. rewrite <- beq_true. destruct (beq a b); split; congruence. Qed.
Lemma beq_sym a b : beq a b = beq b a.
Proof.
  destruct (beq a b) eqn:E; symmetry.
  - apply beq_true in E; subst; apply beq_refl.
  - apply beq_false. apply beq_false in E. congruence.
Qed.
Lemma blt_true a b : blt a b = true <-> bcmp a b = Lt.
Proof. unfold blt; destruct (bcmp a b); split; congruence. Qed.
Lemma ble_true a b : ble a b = true <-> bcmp a b <> Gt.
Proof. unfold ble; destruct (bcmp a b); split; congruence. Qed.
Lemma ble_lt_or_eq a b : ble a b = blt a b || beq a b.
Proof. unfold ble, blt, beq. destruct (bcmp a b); reflexivity. Qed.

Lemma bcmp_app p a b : bcmp (p ++ a) (p ++ b) = bcmp a b.
Proof. induction p as [|x p IH]; simpl; auto. now rewrite N.compare_refl. Qed.

Lemma bcmp_nil_r a : bcmp a [] <> Lt.
Proof. destruct a; simpl; congruence. Qed.

(* cmpf: both directions are strict total orders *)
Lemma cmpf_refl bw a : cmpf bw a a = Eq.
Proof. destruct bw; apply bcmp_refl. Qed.
Lemma cmpf_eq bw a b : cmpf bw a b = Eq -> a = b.
Proof. destruct bw; simpl; intros H; apply bcmp_eq in H; congruence. Qed.
Lemma cmpf_antisym bw a b : cmpf bw b a = CompOpp (cmpf bw a b).
Proof. destruct bw; simpl; apply bcmp_antisym. Qed.
Lemma cmpf_lt_trans bw a b c : cmpf bw a b = Lt -> cmpf bw b c = Lt -> cmpf bw a c = Lt.
Proof. destruct bw; simpl; intros H1 H2; eauto using bcmp_lt_trans. Qed.
Lemma cmpf_gt_lt bw a b : cmpf bw a b = Gt <-> cmpf bw b a = Lt.
Proof. destruct bw; simpl; apply bcmp_gt_lt. Qed.
Lemma cmp_lt_true bw a b : cmp_lt bw a b = true <-> cmpf bw a b = Lt.
Proof. unfold cmp_lt; destruct (cmpf bw a b); split; congruence. Qed.
Lemma cmpf_flip a b : cmpf true a b = cmpf false b a.
Proof. reflexivity. Qed.

(* ---------------------------------------------------------------- prefixes *)

Lemma has_prefix_nil k : has_prefix [] k = true.
Proof. destruct k; reflexivity. Qed.

Lemma has_prefix_app p s k : has_prefix (p ++ s) (p ++ k) = has_prefix s k.
Proof. induction p as [|x p IH]; simpl; auto. now rewrite N.eqb_refl. Qed.

Lemma has_prefix_refl p : has_prefix p p = true.
Proof. induction p; simpl; auto. now rewrite N.eqb_refl. Qed.

Lemma has_prefix_split p k : has_prefix p k = true -> k = p ++ skipn (length p) k.
Proof.
  revert k; induction p as [|x p IH]; intros k H; simpl in *; auto.
  destruct k as [|y k]; try discriminate. apply andb_true_iff in H as [H1 H2].
  apply N.eqb_eq in H1; subst. simpl. f_equal; auto.
Qed.

Lemma has_prefix_app_l p s k : has_prefix (p ++ s) k = true -> has_prefix p k = true.
Proof.
  revert k; induction p as [|x p IH]; intros k H; simpl in *; [reflexivity|].
  destruct k as [|y k]; try discriminate. apply andb_true_iff in H as [H1 H2].
  rewrite H1; simpl; auto.
Qed.

Lemma has_prefix_app_inv p s k : has_prefix (p ++ s) k = has_prefix p k && has_prefix s (skipn (length p) k).
Proof.
  revert k; induction p as [|x p IH]; intros k; simpl; auto.
  destruct k as [|y k]; simpl; auto. rewrite IH. now rewrite andb_assoc.
Qed.

Lemma skipn_app_prefix {A} (p k : list A) : skipn (length p) (p ++ k) = k.
Proof. induction p; simpl; auto. Qed.

Lemma has_prefix_le p k : has_prefix p k = true -> bcmp p k <> Gt.
Proof.
  revert k; induction p as [|x p IH]; intros k H; simpl in *.
  - destruct k; congruence.
  - destruct k as [|y k]; try discriminate. apply andb_true_iff in H as [H1 H2].
    apply N.eqb_eq in H1; subst. rewrite N.compare_refl. auto.
Qed.

(* a key between p and an extension of p has prefix p *)
Lemma between_prefix p s k : bcmp p k <> Gt -> bcmp k (p ++ s) = Lt -> has_prefix p k = true.
Proof.
  revert k; induction p as [|x p IH]; intros k H1 H2; simpl in *; [reflexivity|].
  destruct k as [|y k]; simpl in *; try congruence.
  destruct (N.compare_spec x y) as [->|Hxy|Hxy]; try congruence.
  - rewrite N.eqb_refl. simpl. rewrite N.compare_refl in H2. auto.
  - destruct (N.compare_spec y x); try lia; congruence.
Qed.

(* two keys with prefix p compare as their remainders *)
Lemma bcmp_skip p k1 k2 : has_prefix p k1 = true -> has_prefix p k2 = true ->
  bcmp (skipn (length p) k1) (skipn (length p) k2) = bcmp k1 k2.
Proof.
  intros H1 H2. rewrite (has_prefix_split _ _ H1) at 2. rewrite (has_prefix_split _ _ H2) at 2.
  now rewrite bcmp_app.
Qed.

(* keys strictly above every key with prefix p: everything past such a key lacks the prefix too *)
Lemma prefix_interval p k1 k2 : bcmp p k1 <> Gt -> bcmp k1 k2 <> Gt -> has_prefix p k2 = true -> has_prefix p k1 = true.
Proof.
  intros H1 H2 H3. destruct (bcmp k1 k2) eqn:E; try congruence.
  - apply bcmp_eq in E; subst; auto.
  - rewrite (has_prefix_split _ _ H3) in E. eapply between_prefix; eauto.
Qed.

(* util.BytesPrefix: k is below the limit of p exactly when it is below p or extends p *)
Lemma succ_prefix_spec p : forall k, bytes_ok k -> bytes_ok p ->
  lt_lim k (succ_prefix p) = blt k p || has_prefix p k.
Proof.
  induction p as [|x t IH]; intros k Hk Hp.
  - simpl. now rewrite orb_true_r.
  - inversion Hp as [|? ? Hx Ht]; subst. simpl succ_prefix.
    destruct k as [|y k'].
    + destruct (succ_prefix t); [reflexivity|]. destruct (x <? 255); reflexivity.
    + inversion Hk as [|? ? Hy Hk']; subst.
      specialize (IH k' Hk' Ht).
      destruct (succ_prefix t) as [t'|] eqn:Es.
      * unfold lt_lim, blt in *. simpl. destruct (N.compare_spec y x) as [->|Hyx|Hyx].
        -- rewrite N.eqb_refl. simpl. exact IH.
        -- reflexivity.
        -- assert (x =? y = false) as -> by lia. reflexivity.
      * simpl in IH. destruct (x <? 255) eqn:Ex.
        -- unfold lt_lim, blt. simpl.
           destruct (N.compare_spec y (x + 1)) as [Hy1|Hy1|Hy1].
           ++ (* y = x+1 : not below *)
              assert (bcmp k' [] <> Lt) by apply bcmp_nil_r.
              destruct (N.compare_spec y x); try (exfalso; lia).
              assert (x =? y = false) as -> by lia. simpl.
              destruct (bcmp k' []); congruence.
           ++ destruct (N.compare_spec y x) as [->|Hyx|Hyx]; try (exfalso; lia).
              ** rewrite N.eqb_refl. simpl. unfold blt in IH. exact IH.
              ** reflexivity.
           ++ destruct (N.compare_spec y x); try (exfalso; lia).
              assert (x =? y = false) as -> by lia. reflexivity.
        -- (* x = 255 *)
           assert (x = 255) by lia. subst x.
           unfold lt_lim, blt. simpl.
           destruct (N.compare_spec y 255) as [->|Hyx|Hyx]; try (exfalso; lia).
           ++ simpl. unfold blt in IH. exact IH.
           ++ reflexivity.
Qed.
