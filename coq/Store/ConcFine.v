(* C09 — the reader of Store/Conc.v at a finer grain: what prepareSeekMemSnapshot does BEFORE it takes the read lock
   is a step of its own.

   The code as written reads nothing of the store before s.rlock(): the maps are chosen, filtered and s.ps is captured
   inside the read-locked region.  The variant [capture_before = true] reads s.ps before the lock (the kind of change a
   tidy-up of local variables produces).  Fine actions:
     FA a          a writer / Persist region of Conc.v (reader actions inside FA are ignored)
     FPre          the reader's code before s.rlock()   (variant: remember the current s.ps)
     FLocked r     the read-locked region               (snapshot of the maps; s.ps captured here, or the remembered one)
     FRead         performSeek on the captured handle
   (a) for the code as written the fine system IS the coarse one (FPre is a no-op), so everything proved in Conc.v
       carries over — in particular C09_reader_atomic_partial;
   (b) for the variant there is a schedule WITHOUT any swap between the locked region and the lower read (the
       hypothesis of the partial theorem) in which a committed key is missing: the reader remembered the bare backend,
       lost the lock to Persist's first region, snapshotted the fresh empty maps and scanned a backend nothing had been
       flushed to.  harness/c09lock.go forces exactly this schedule on the implementation through the store's lock. *)
From NG Require Import Common.Tactics Store.Bytes Store.Model Store.Spec Store.MapLemmas Store.MergeProof Store.Refine Store.Conc.
Open Scope N_scope.

Inductive faction := FA (a : action) | FPre | FLocked (r : range) | FRead.

Record fstate := { fc : cstate; fpre : option handle }.

Definition cur_handle (c : cstate) : handle :=
  match ctemp c with Some (t, _) => HTemp t | None => HLower end.

Definition is_reader_action (a : action) : bool :=
  match a with ASnap _ | ARead => true | _ => false end.

Definition fstep (capture_before : bool) (st : fstate) (a : faction) : fstate :=
  match a with
  | FA x => if is_reader_action x then st else {| fc := cstep (fc st) x; fpre := fpre st |}
  | FPre => if capture_before then {| fc := fc st; fpre := Some (cur_handle (fc st)) |} else st
  | FLocked r =>
      let c := fc st in
      match rsnap c with
      | None =>
          let h := if capture_before then match fpre st with Some h => h | None => cur_handle c end
                   else cur_handle c in
          {| fc := {| cbk := cbk c; cm := cm c; ctemp := ctemp c; cx := cx c; rsnap := Some (r, cm c, h); rans := rans c |};
             fpre := fpre st |}
      | Some _ => st
      end
  | FRead => {| fc := cstep (fc st) ARead; fpre := fpre st |}
  end.

Definition frun (capture_before : bool) (st : fstate) (tr : list faction) : fstate :=
  fold_left (fstep capture_before) tr st.

(* the coarse schedule a fine schedule stands for *)
Definition erase1 (a : faction) : list action :=
  match a with
  | FA x => if is_reader_action x then [] else [x]
  | FPre => []
  | FLocked r => [ASnap r]
  | FRead => [ARead]
  end.
Definition erase (tr : list faction) : list action := flat_map erase1 tr.

Lemma fstep_inside_coarse st a : fc (fstep false st a) = crun (fc st) (erase1 a).
Proof.
  destruct a as [x| |r|]; simpl; auto.
  - destruct (is_reader_action x); reflexivity.
  - unfold crun. simpl. destruct (rsnap (fc st)); reflexivity.
Qed.

(* (a) the code as written: capture inside the locked region = the coarse reader of Conc.v, for every schedule *)
Theorem fine_inside_is_coarse : forall tr st, fc (frun false st tr) = crun (fc st) (erase tr).
Proof.
  unfold frun. induction tr as [|a tr IH]; intros st; simpl; auto.
  rewrite IH, fstep_inside_coarse. unfold erase. simpl. now rewrite crun_app.
Qed.

(* hence reader atomicity as far as it holds (Conc.reader_atomic_partial) for the fine-grained system as written:
   pre-lock steps may be scheduled anywhere *)
Corollary fine_reader_atomic_partial c0 pre r mid :
  cwf c0 -> rsnap c0 = None -> rans c0 = None ->
  Forall batch_ok (erase pre) -> Forall batch_ok (erase mid) ->
  Forall (fun a => match a with ASnap _ | ARead => False | _ => True end) (erase pre) ->
  Forall no_swap_or_reader (erase mid) ->
  range_ok r ->
  rans (fc (frun false {| fc := c0; fpre := None |} (pre ++ FLocked r :: mid ++ [FRead]))) =
  Some (rq r (cflat (crun c0 (erase pre)))).
Proof.
  intros. rewrite fine_inside_is_coarse. cbn [fc].
  unfold erase. rewrite flat_map_app. cbn [flat_map erase1 app]. rewrite flat_map_app. cbn [flat_map erase1 app].
  now apply reader_atomic_partial.
Qed.

(* (b) the variant: same statement, refuted.  One committed key, Persist's first region between the reader's pre-lock
   read and its locked region, the flush still in flight when the reader scans: the key is missing, although no swap
   lies between the locked region and the lower read and the one map never changed. *)
Definition capture_before_statement : Prop :=
  forall c0 pre r mid,
    cwf c0 -> rsnap c0 = None -> rans c0 = None ->
    Forall batch_ok (erase pre) -> Forall batch_ok (erase mid) ->
    Forall (fun a => match a with ASnap _ | ARead => False | _ => True end) (erase pre) ->
    Forall no_swap_or_reader (erase mid) ->
    range_ok r ->
    rans (fc (frun true {| fc := c0; fpre := None |} (pre ++ FLocked r :: mid ++ [FRead]))) =
    Some (rq r (cflat (crun c0 (erase pre)))).

Definition miss_c0 : cstate :=
  {| cbk := BBolt; cm := [([3; 255], Some [1])]; ctemp := None; cx := []; rsnap := None; rans := None |}.
Definition miss_r : range := {| rprefix := [3]; rstart := []; rback := true; rdepth := 0 |}.

Theorem capture_before_refuted : ~ capture_before_statement.
Proof.
  intros H. specialize (H miss_c0 [FPre; FA ASwap] miss_r []).
  assert (E : rans (fc (frun true {| fc := miss_c0; fpre := None |} ([FPre; FA ASwap] ++ FLocked miss_r :: [] ++ [FRead])))
              = Some (rq miss_r (cflat (crun miss_c0 (erase [FPre; FA ASwap]))))).
  { apply H.
    - repeat split; simpl; auto; repeat constructor; lia.
    - reflexivity.
    - reflexivity.
    - repeat constructor.
    - constructor.
    - repeat constructor.
    - constructor.
    - split; repeat constructor; lia. }
  vm_compute in E. discriminate.
Qed.

(* what the two sides of that witness are: the reader gets nothing, the one map holds the key throughout *)
Example capture_before_witness :
  rans (fc (frun true {| fc := miss_c0; fpre := None |} [FPre; FA ASwap; FLocked miss_r; FRead])) = Some [] /\
  rans (fc (frun false {| fc := miss_c0; fpre := None |} [FPre; FA ASwap; FLocked miss_r; FRead])) = Some [([3; 255], [1])] /\
  cflat miss_c0 = [([3; 255], [1])] /\
  cflat (fc (frun true {| fc := miss_c0; fpre := None |} [FPre; FA ASwap; FLocked miss_r; FRead])) = [([3; 255], [1])].
Proof. vm_compute. repeat split. Qed.
