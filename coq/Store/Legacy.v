(* C09 — the two unrepaired mechanisms, kept beside the model to show what the repairs change:
   F1: mergeFunc compared kvMem.Key with the lower key even when the cache was exhausted (haveMem = false), and by
       then kvMem.Key may be the TRIMMED key of the last emitted item;
   F2: the in-memory filters of a backward seek with a start point kept only keys <= prefix+start, while the disk
       range [prefix, succ(prefix+start)) also contains the keys that extend prefix+start.
   Each is refuted against the specification by a concrete witness (the same inputs, replayed on the implementation,
   are corpus/C09/c09.json cases 1 and 0). *)
From NG Require Import Common.Tactics Store.Bytes Store.Model Store.Spec Store.MergeProof.
Open Scope N_scope.

(* memcached_store.go:289 before fixes/F1-*.diff *)
Definition merge_one_legacy (bw cut : bool) (lp : nat) (st : mstate) (kp : key) (vp : val) : kvs * mstate :=
  let '(out, st') := if haveMem st then drain bw cut lp kp (kvMem st) (rest st) else ([], st) in
  if negb (beq (fst (kvMem st')) kp)
  then (out ++ [(cutk cut lp kp, vp)], st')
  else (out, st').

Fixpoint merge_all_legacy (bw cut : bool) (lp : nat) (st : mstate) (ps : kvs) : kvs * mstate :=
  match ps with
  | [] => ([], st)
  | (kp, vp) :: ps' =>
      let '(o1, st1) := merge_one_legacy bw cut lp st kp vp in
      let '(o2, st2) := merge_all_legacy bw cut lp st1 ps' in (o1 ++ o2, st2)
  end.

Definition perform_seek_legacy (bw cut : bool) (lp : nat) (memRes : lmap) (ps : kvs) : kvs :=
  let '(o, st) := merge_all_legacy bw cut lp (init_state memRes) ps in o ++ tail_out cut lp st.

(* memory_store.go:111-115 and memcached_store.go:203-206 before fixes/F2-*.diff *)
Definition is_key_ok_legacy (r : range) (k : key) : bool :=
  let sfx := skipn (length (rprefix r)) k in
  has_prefix (rprefix r) k &&
  (isnil (rstart r) || (if rback r then ble sfx (rstart r) else ble (rstart r) sfx)).
Definition mem_seek_legacy (r : range) (b : kvs) : kvs :=
  dir (rback r) (filter (fun kv => is_key_ok_legacy r (fst kv)) b).

(* F1: prefix 70, cache {70 70 ff ff}, lower answer {70 ff ff}, trimming on: the lower pair is lost *)
Theorem F1_legacy_refuted :
  exists memRes ps, sorted false memRes /\ sorted false ps /\
    perform_seek_legacy false true 1 memRes ps <> trim true 1 (smerge false memRes ps) /\
    perform_seek false true 1 memRes (Some ps) = trim true 1 (smerge false memRes ps).
Proof.
  exists [([112; 112; 255; 255], Some [5])], [([112; 255; 255], [4])].
  repeat split; simpl; auto. vm_compute. discriminate.
Qed.

(* F2: content {01 10, 01 20, 01 20 05, 01 30}, backward from prefix 01 start 20: memory and disk disagree *)
Theorem F2_legacy_refuted :
  exists r b, sorted false b /\ mem_seek_legacy r b <> level_seek r b /\ mem_seek_legacy r b <> bolt_seek r b /\
              mem_seek r b = level_seek r b.
Proof.
  exists {| rprefix := [1]; rstart := [32]; rback := true; rdepth := 0 |},
         [([1; 16], [10]); ([1; 32], [11]); ([1; 32; 5], [12]); ([1; 48], [13])].
  repeat split; simpl; auto; vm_compute; discriminate.
Qed.
