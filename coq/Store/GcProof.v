(* C09 — SeekGC: visit the pairs of a range in seek order under the store's write lock / one write transaction and
   delete those the callback rejects.  Resulting map = old map minus the rejected visited pairs; nothing else moves;
   the three base stores agree; on a cache layer only the layer's own live entries can go (tombstones stay). *)
From NG Require Import Common.Tactics Store.Bytes Store.Model Store.Spec Store.MapLemmas Store.MergeProof Store.Refine.
Open Scope N_scope.

Lemma lookup_in {A} bw (l : list (key * A)) k a : sorted bw l -> (lookup k l = Some a <-> In (k, a) l).
Proof.
  induction l as [|[k1 a1] t IH]; simpl; [split; [discriminate|tauto]|].
  intros [G S]. destruct (beq k k1) eqn:E.
  - apply beq_true in E. subst k1. split.
    + intros H. inv H. now left.
    + intros [H|H]; [now inv H|]. rewrite all_gt_in in G. specialize (G _ _ H). rewrite cmpf_refl in G. discriminate.
  - rewrite IH by auto. split; [tauto|]. intros [H|H]; auto. inv H. rewrite beq_refl in E. discriminate.
Qed.

Lemma lookup_filter_kv {A} bw (g : key * A -> bool) (l : list (key * A)) k : sorted bw l ->
  lookup k (filter g l) = match lookup k l with Some a => if g (k, a) then Some a else None | None => None end.
Proof.
  induction l as [|[k1 a1] t IH]; simpl; auto. intros [G S].
  destruct (beq k k1) eqn:E.
  - apply beq_true in E. subst k1. destruct (g (k, a1)); simpl.
    + now rewrite beq_refl.
    + apply (all_gt_lookup bw). now apply all_gt_filter.
  - destruct (g (k1, a1)); simpl; rewrite ?E; auto.
Qed.

Lemma In_firstn {A} n : forall (l : list A) x, In x (firstn n l) -> In x l.
Proof.
  induction n as [|n IH]; intros [|y l] x; simpl; try tauto. intros [H|H]; auto.
Qed.

Lemma existsb_beq_in k ks : existsb (beq k) ks = true <-> In k ks.
Proof.
  rewrite existsb_exists. split.
  - intros (x & Hx & E). apply beq_true in E. now subst.
  - intros H. exists k. split; auto. apply beq_refl.
Qed.

(* ---- base stores ---- *)

(* general form: any callback, any stopping point *)
Theorem base_seekgc_lookup bk keep stop r (b : kvs) k : range_ok r -> keys_ok b -> sorted false b ->
  lookup k (base_seekgc bk keep stop r b) =
  if existsb (beq k) (gc_deleted keep stop (rq r b)) then None else lookup k b.
Proof.
  intros Hr Kb Sb. unfold base_seekgc. rewrite base_seek_rq by auto. now apply lookup_remove_all.
Qed.

Theorem base_seekgc_sorted bk keep stop r (b : kvs) : sorted false b -> sorted false (base_seekgc bk keep stop r b).
Proof. intros. unfold base_seekgc. now apply sorted_remove_all. Qed.

Theorem base_seekgc_backend_agree bk1 bk2 keep stop r (b : kvs) : range_ok r -> keys_ok b -> sorted false b ->
  base_seekgc bk1 keep stop r b = base_seekgc bk2 keep stop r b.
Proof. intros. unfold base_seekgc. now rewrite !base_seek_rq. Qed.

(* only visited, rejected pairs of the range are deleted *)
Lemma gc_deleted_in keep stop (l : kvs) k : In k (gc_deleted keep stop l) ->
  exists v, In (k, v) l /\ keep k v = false.
Proof.
  unfold gc_deleted. rewrite in_map_iff. intros ([k1 v] & E & H). simpl in E. subst k1.
  apply filter_In in H as [H1 H2]. simpl in H2. exists v. split.
  - unfold gc_visit in H1. destruct (stop =? 0); auto. eapply In_firstn; eauto.
  - now apply negb_true_iff in H2.
Qed.

Lemma rq_in r (m : kvs) kv : In kv (rq r m) <-> In kv m /\ in_range (rprefix r) (rstart r) (rback r) (fst kv) = true.
Proof.
  unfold rq, range_query. destruct (rback r); simpl; rewrite <- ?in_rev, filter_In; reflexivity.
Qed.

Corollary base_seekgc_untouched bk keep stop r (b : kvs) k : range_ok r -> keys_ok b -> sorted false b ->
  in_range (rprefix r) (rstart r) (rback r) k = false \/ (forall v, lookup k b = Some v -> keep k v = true) ->
  lookup k (base_seekgc bk keep stop r b) = lookup k b.
Proof.
  intros Hr Kb Sb H. rewrite base_seekgc_lookup by auto.
  destruct (existsb (beq k) (gc_deleted keep stop (rq r b))) eqn:E; auto.
  apply existsb_beq_in in E. apply gc_deleted_in in E as (v & Hin & Hk).
  apply rq_in in Hin as [Hin Hrg]. simpl in Hrg.
  destruct H as [H|H]; [congruence|].
  apply (lookup_in false) in Hin; auto. rewrite (H v Hin) in Hk. discriminate.
Qed.

(* run to the end (the callback always continues): the new content is the old one filtered *)
Theorem base_seekgc_is_filter bk keep r (b : kvs) : range_ok r -> keys_ok b -> sorted false b ->
  base_seekgc bk keep 0 r b =
  filter (fun kv => negb (in_range (rprefix r) (rstart r) (rback r) (fst kv)) || keep (fst kv) (snd kv)) b.
Proof.
  intros Hr Kb Sb. apply (sorted_ext false).
  - now apply base_seekgc_sorted.
  - now apply sorted_filter.
  - intros k. rewrite base_seekgc_lookup by auto. rewrite (lookup_filter_kv false) by auto. simpl.
    destruct (existsb (beq k) (gc_deleted keep 0 (rq r b))) eqn:E.
    + apply existsb_beq_in in E. apply gc_deleted_in in E as (v & Hin & Hk).
      apply rq_in in Hin as [Hin Hrg]. simpl in Hrg. apply (lookup_in false) in Hin; auto.
      rewrite Hin, Hrg, Hk. reflexivity.
    + destruct (lookup k b) as [v|] eqn:El; auto.
      destruct (in_range (rprefix r) (rstart r) (rback r) k) eqn:Hrg; simpl; auto.
      destruct (keep k v) eqn:Hk; auto. exfalso.
      assert (In k (gc_deleted keep 0 (rq r b))) as Hd.
      { unfold gc_deleted, gc_visit. simpl. apply in_map_iff. exists (k, v). split; auto.
        apply filter_In. split; [|simpl; now rewrite Hk].
        apply rq_in. split; auto. now apply (lookup_in false). }
      apply existsb_beq_in in Hd. congruence.
Qed.

(* ---- a cache layer's own maps ---- *)

Lemma live_of_in (m : lmap) k v : In (k, v) (live_of m) <-> In (k, Some v) m.
Proof.
  unfold live_of. rewrite in_flat_map. split.
  - intros ([k1 [v1|]] & H1 & H2); simpl in H2; [|contradiction]. destruct H2 as [H2|[]]. now inv H2.
  - intros H. exists (k, Some v). split; auto. simpl. now left.
Qed.

Lemma sorted_live_of bw (m : lmap) : sorted bw m -> sorted bw (live_of m).
Proof. apply sorted_flat_emit. Qed.

Theorem layer_seekgc_lookup keep stop r (m : lmap) k : sorted false m ->
  lookup k (layer_seekgc keep stop r m) =
  if existsb (beq k) (gc_deleted keep stop (mem_seek r (live_of m))) then None else lookup k m.
Proof. intros S. unfold layer_seekgc. now apply lookup_remove_all. Qed.

(* what can disappear from a layer is a live, in-range, rejected entry of that layer; tombstones and everything else stay *)
Theorem layer_seekgc_only_rejected_live keep stop r (m : lmap) k : sorted false m ->
  lookup k (layer_seekgc keep stop r m) <> lookup k m ->
  exists v, lookup k m = Some (Some v) /\ keep k v = false /\ in_range (rprefix r) (rstart r) (rback r) k = true.
Proof.
  intros S H. rewrite layer_seekgc_lookup in H by auto.
  destruct (existsb (beq k) (gc_deleted keep stop (mem_seek r (live_of m)))) eqn:E; [|congruence].
  apply existsb_beq_in in E. apply gc_deleted_in in E as (v & Hin & Hk).
  rewrite mem_seek_rq in Hin. apply rq_in in Hin as [Hin Hrg]. simpl in Hrg.
  apply live_of_in in Hin. apply (lookup_in false) in Hin; auto. eauto.
Qed.

Corollary layer_seekgc_keeps_tombstones keep stop r (m : lmap) k : sorted false m ->
  lookup k m = Some None -> lookup k (layer_seekgc keep stop r m) = Some None.
Proof.
  intros S H. destruct (lookup k (layer_seekgc keep stop r m)) as [[v|]|] eqn:E; auto;
    destruct (layer_seekgc_only_rejected_live keep stop r m k S) as (v' & H1 & _); congruence.
Qed.

(* ---- effect on the one map ---- *)

Lemma flat_layers_lookup_congr ls : forall (b b' : kvs) k, wf_layers ls ->
  sorted false b -> keys_ok b -> sorted false b' -> keys_ok b' ->
  lookup k b = lookup k b' -> lookup k (flat_layers ls b) = lookup k (flat_layers ls b').
Proof.
  induction ls as [|L t IH]; intros b b' k Hl Sb Kb Sb' Kb' H; simpl; auto.
  apply wf_layers_inv in Hl as (SL & KL & Ht).
  destruct (flat_layers_wf t b Ht Sb Kb), (flat_layers_wf t b' Ht Sb' Kb').
  rewrite !lookup_apply_writes by auto. now rewrite (IH b b' k).
Qed.

(* a GC of the base store changes the one map only at keys it deleted from the base *)
Theorem gc_base_flat_untouched s r g k : wf s -> range_ok r ->
  lookup k (base_seekgc (bkind s) (gkeep g) (gstop g) r (base s)) = lookup k (base s) ->
  lookup k (flat (step s (OGcBase r g))) = lookup k (flat s).
Proof.
  intros (Hl & Sb & Kb) Hr H. unfold step, flat. simpl.
  apply flat_layers_lookup_congr; auto.
  - now apply base_seekgc_sorted.
  - unfold base_seekgc. now apply keys_ok_remove_all.
Qed.
