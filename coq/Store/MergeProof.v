(* C09 — performSeek (closure state, inner loop, trimming, tail loop) computes the plain ordered merge of
   the cache snapshot with the lower answer, cache entries overriding and tombstones erasing. *)
From NG Require Import Common.Tactics Store.Bytes Store.Model Store.Spec Store.MapLemmas.
Open Scope N_scope.

Definition emit (it : key * option val) : kvs :=
  match snd it with Some v => [(fst it, v)] | None => [] end.

(* the merge, written as a specification: no state, no trimming *)
Fixpoint smerge (bw : bool) (mem : lmap) : kvs -> kvs :=
  match mem with
  | [] => fun ps => ps
  | m :: ms =>
      fix inner (ps : kvs) : kvs :=
        match ps with
        | [] => flat_map emit (m :: ms)
        | (kp, vp) :: ps' =>
            match cmpf bw (fst m) kp with
            | Lt => emit m ++ smerge bw ms ps
            | Eq => emit m ++ smerge bw ms ps'
            | Gt => (kp, vp) :: inner ps'
            end
        end
  end.

Section Merge.
  Variable bw cut : bool.
  Variable lp : nat.

  Lemma smerge_nil ms : smerge bw ms [] = flat_map emit ms.
  Proof. destruct ms; reflexivity. Qed.
  Lemma smerge_lt m ms kp vp ps : cmpf bw (fst m) kp = Lt ->
    smerge bw (m :: ms) ((kp, vp) :: ps) = emit m ++ smerge bw ms ((kp, vp) :: ps).
  Proof. intros H; cbn. now rewrite H. Qed.
  Lemma smerge_eq m ms kp vp ps : cmpf bw (fst m) kp = Eq ->
    smerge bw (m :: ms) ((kp, vp) :: ps) = emit m ++ smerge bw ms ps.
  Proof. intros H; cbn. now rewrite H. Qed.
  Lemma smerge_gt m ms kp vp ps : cmpf bw (fst m) kp = Gt ->
    smerge bw (m :: ms) ((kp, vp) :: ps) = (kp, vp) :: smerge bw (m :: ms) ps.
  Proof. intros H; cbn. now rewrite H. Qed.
  Lemma smerge_below m ms ps : all_gt bw (fst m) ps -> smerge bw (m :: ms) ps = emit m ++ smerge bw ms ps.
  Proof.
    destruct ps as [|[kp vp] ps]; intros H.
    - rewrite !smerge_nil. reflexivity.
    - destruct H as [H _]. now apply smerge_lt.
  Qed.

  Definition tr (l : kvs) : kvs := trim cut lp l.

  Lemma tr_app a b : tr (a ++ b) = tr a ++ tr b.
  Proof. apply map_app. Qed.
  Lemma tr_emit it : tr (emit it) = emit_mem cut lp it.
  Proof. unfold emit, emit_mem. destruct (snd it); reflexivity. Qed.
  Lemma tr_flat_emit l : tr (flat_map emit l) = flat_map (emit_mem cut lp) l.
  Proof. induction l as [|x l IH]; simpl; auto. now rewrite tr_app, tr_emit, IH. Qed.

  Definition live (m : key * option val) (ms : lmap) : mstate := {| kvMem := m; haveMem := true; rest := ms |}.

  (* everything emitted from a closure state on: the rest of ps.Seek, then the tail loop *)
  Definition G (st : mstate) (ps : kvs) : kvs :=
    let '(o, st') := merge_all bw cut lp st ps in o ++ tail_out cut lp st'.

  Lemma G_cons st kp vp ps :
    G st ((kp, vp) :: ps) = let '(o, st1) := merge_one bw cut lp st kp vp in o ++ G st1 ps.
  Proof.
    unfold G. cbn [merge_all]. destruct (merge_one bw cut lp st kp vp) as [o st1].
    destruct (merge_all bw cut lp st1 ps) as [o2 st2]. now rewrite app_assoc.
  Qed.

  (* the cache is exhausted: lower pairs pass through (this is where the F1 repair matters: the stale,
     possibly trimmed kvMem.Key is no longer looked at) *)
  Lemma G_done st ps : haveMem st = false -> G st ps = tr ps.
  Proof.
    revert st; induction ps as [|[kp vp] ps IH]; intros st Hh.
    - unfold G; simpl. unfold tail_out. now rewrite Hh.
    - rewrite G_cons. unfold merge_one. rewrite Hh. simpl. rewrite Hh. simpl.
      now rewrite IH.
  Qed.

  Lemma drain_stop kp cur rst : cmp_lt bw (fst cur) kp = false ->
    drain bw cut lp kp cur rst = ([], live cur rst).
  Proof. intros H. destruct rst; cbn; rewrite H; reflexivity. Qed.
  Lemma drain_last kp cur : cmp_lt bw (fst cur) kp = true ->
    drain bw cut lp kp cur [] = (emit_mem cut lp cur, {| kvMem := trimmed cut lp cur; haveMem := false; rest := [] |}).
  Proof. intros H. cbn. now rewrite H. Qed.
  Lemma drain_step kp cur nxt rst : cmp_lt bw (fst cur) kp = true ->
    drain bw cut lp kp cur (nxt :: rst) =
    let '(o, st) := drain bw cut lp kp nxt rst in (emit_mem cut lp cur ++ o, st).
  Proof. intros H. cbn [drain]. now rewrite H. Qed.

  Lemma merge_one_step kp vp m m' ms : cmp_lt bw (fst m) kp = true ->
    merge_one bw cut lp (live m (m' :: ms)) kp vp =
    let '(o, st) := merge_one bw cut lp (live m' ms) kp vp in (emit_mem cut lp m ++ o, st).
  Proof.
    intros H. unfold merge_one. cbn [haveMem kvMem rest live]. rewrite drain_step by exact H.
    destruct (drain bw cut lp kp m' ms) as [o st].
    destruct (negb (haveMem st) || negb (beq (fst (kvMem st)) kp)); now rewrite ?app_assoc.
  Qed.

  Lemma cmp_lt_false_cases a b : cmp_lt bw a b = false -> cmpf bw a b = Eq \/ cmpf bw a b = Gt.
  Proof. unfold cmp_lt. destruct (cmpf bw a b); auto; discriminate. Qed.

  Lemma G_live : forall ps m ms, sorted bw (m :: ms) -> sorted bw ps ->
    G (live m ms) ps = tr (smerge bw (m :: ms) ps).
  Proof.
    induction ps as [|[kp vp] ps IHps]; intros m ms Hm Hps.
    - unfold G; cbn [merge_all app]. unfold tail_out. cbn [haveMem live kvMem rest].
      rewrite smerge_nil. now rewrite tr_flat_emit.
    - destruct Hps as [Hbel Hps]. revert m Hm. induction ms as [|m' ms IHms]; intros m Hm.
      + rewrite G_cons. unfold merge_one. cbn [haveMem kvMem rest live].
        destruct (cmp_lt bw (fst m) kp) eqn:Elt.
        * rewrite drain_last by exact Elt. cbn [haveMem negb orb].
          rewrite G_done by reflexivity.
          apply cmp_lt_true in Elt. rewrite smerge_lt by exact Elt.
          cbn [smerge]. rewrite tr_app, tr_emit. rewrite <- app_assoc. reflexivity.
        * rewrite drain_stop by exact Elt. cbn [kvMem live haveMem negb orb].
          destruct (cmp_lt_false_cases _ _ Elt) as [Ec|Ec].
          -- pose proof (cmpf_eq _ _ _ Ec) as Ek. rewrite Ek, beq_refl. cbn [negb app].
             rewrite IHps by (destruct m; simpl in *; auto).
             rewrite smerge_eq by exact Ec. rewrite <- Ek in Hbel.
             now rewrite (smerge_below m [] ps Hbel).
          -- assert (beq (fst m) kp = false) as ->.
             { apply beq_false. intros E. rewrite E, cmpf_refl in Ec. discriminate. }
             cbn [negb app]. rewrite IHps by (destruct m; simpl in *; auto).
             rewrite smerge_gt by exact Ec. reflexivity.
      + rewrite G_cons. destruct (cmp_lt bw (fst m) kp) eqn:Elt.
        * rewrite merge_one_step by exact Elt.
          assert (Hm' : sorted bw (m' :: ms)) by (destruct m; simpl in Hm; tauto).
          specialize (IHms m' Hm'). rewrite G_cons in IHms.
          destruct (merge_one bw cut lp (live m' ms) kp vp) as [o st].
          rewrite <- app_assoc, IHms. apply cmp_lt_true in Elt.
          rewrite (smerge_lt m) by exact Elt. now rewrite tr_app, tr_emit.
        * unfold merge_one. cbn [haveMem kvMem rest live]. rewrite drain_stop by exact Elt.
          cbn [kvMem live haveMem negb orb].
          destruct (cmp_lt_false_cases _ _ Elt) as [Ec|Ec].
          -- pose proof (cmpf_eq _ _ _ Ec) as Ek. rewrite Ek, beq_refl. cbn [negb app].
             rewrite IHps by assumption.
             rewrite smerge_eq by exact Ec. rewrite <- Ek in Hbel.
             now rewrite (smerge_below m (m' :: ms) ps Hbel).
          -- assert (beq (fst m) kp = false) as ->.
             { apply beq_false. intros E. rewrite E, cmpf_refl in Ec. discriminate. }
             cbn [negb app]. rewrite IHps by assumption.
             rewrite smerge_gt by exact Ec. reflexivity.
  Qed.

  (* performSeek = trimmed plain merge; not calling ps.Seek (SearchDepth 1) = merging with nothing *)
  Theorem perform_seek_is_merge memRes lower :
    sorted bw memRes -> sorted bw (match lower with Some ps => ps | None => [] end) ->
    perform_seek bw cut lp memRes lower =
    tr (smerge bw memRes (match lower with Some ps => ps | None => [] end)).
  Proof.
    intros Hm Hp. unfold perform_seek.
    destruct memRes as [|m ms].
    - cbn [init_state smerge]. destruct lower as [ps|].
      + pose proof (G_done {| kvMem := ([], None); haveMem := false; rest := [] |} ps eq_refl) as H.
        unfold G in H. destruct (merge_all bw cut lp _ ps) as [o st]. exact H.
      + reflexivity.
    - cbn [init_state]. destruct lower as [ps|].
      + pose proof (G_live ps m ms Hm Hp) as H. unfold G, live in H.
        destruct (merge_all bw cut lp _ ps) as [o st]. exact H.
      + pose proof (G_live [] m ms Hm I) as H. unfold G, live in H. cbn [merge_all] in H. exact H.
  Qed.
End Merge.

(* ---- what the plain merge is: ordered, and its lookups are "cache entry, else lower pair" ---- *)

Lemma all_gt_emit bw k it : cmpf bw k (fst it) = Lt -> all_gt bw k (emit it).
Proof. unfold emit. destruct (snd it); simpl; auto. Qed.

Lemma all_gt_flat_emit bw k (l : lmap) : all_gt bw k l -> all_gt bw k (flat_map emit l).
Proof.
  induction l as [|[k1 ov] t IH]; simpl; auto. intros [H1 H2].
  apply all_gt_app. split; auto. now apply all_gt_emit.
Qed.

Lemma sorted_emit_app bw it l : all_gt bw (fst it) l -> sorted bw l -> sorted bw (emit it ++ l).
Proof. unfold emit. destruct it as [k [v|]]; simpl; auto. Qed.

Lemma sorted_flat_emit bw (l : lmap) : sorted bw l -> sorted bw (flat_map emit l).
Proof.
  induction l as [|[k1 ov] t IH]; simpl; auto. intros [H1 H2].
  apply (sorted_emit_app bw (k1, ov)); auto. now apply all_gt_flat_emit.
Qed.

Lemma all_gt_smerge bw k : forall mem ps, all_gt bw k mem -> all_gt bw k ps -> all_gt bw k (smerge bw mem ps).
Proof.
  induction mem as [|[km ov] ms IHm]; [auto|].
  induction ps as [|[kp vp] ps IHp]; intros Hm Hp.
  - rewrite smerge_nil. now apply all_gt_flat_emit.
  - destruct (cmpf bw km kp) eqn:E.
    + rewrite smerge_eq by exact E. apply all_gt_app. split.
      * apply all_gt_emit. apply Hm.
      * apply IHm; [apply Hm|apply Hp].
    + rewrite smerge_lt by exact E. apply all_gt_app. split.
      * apply all_gt_emit. apply Hm.
      * apply IHm; [apply Hm|exact Hp].
    + rewrite smerge_gt by exact E. split; [apply Hp|]. apply IHp; [exact Hm|apply Hp].
Qed.

Lemma sorted_smerge bw : forall mem ps, sorted bw mem -> sorted bw ps -> sorted bw (smerge bw mem ps).
Proof.
  induction mem as [|[km ov] ms IHm]; [auto|].
  induction ps as [|[kp vp] ps IHp]; intros Hm Hp.
  - rewrite smerge_nil. now apply sorted_flat_emit.
  - destruct Hm as [Gm Sm]. destruct Hp as [Gp Sp].
    destruct (cmpf bw km kp) eqn:E.
    + rewrite smerge_eq by exact E. apply (sorted_emit_app bw (km, ov)).
      * apply all_gt_smerge; auto. apply cmpf_eq in E. now subst.
      * apply IHm; auto.
    + rewrite smerge_lt by exact E. apply (sorted_emit_app bw (km, ov)).
      * apply all_gt_smerge; auto. split; auto. eapply all_gt_trans; eauto.
      * apply IHm; simpl; auto.
    + rewrite smerge_gt by exact E. apply cmpf_gt_lt in E. split.
      * apply all_gt_smerge; auto. split; auto. eapply all_gt_trans; eauto.
      * apply IHp; simpl; auto.
Qed.

Lemma lookup_emit k it : lookup k (emit it) = if beq k (fst it) then snd it else None.
Proof. unfold emit. destruct it as [k1 [v|]]; simpl; destruct (beq k k1); reflexivity. Qed.

Lemma lookup_flat_emit bw k (l : lmap) : sorted bw l -> lookup k (flat_map emit l) = over (lookup k l) None.
Proof.
  induction l as [|[k1 ov] t IH]; simpl; auto. intros [G S].
  rewrite lookup_app, lookup_emit. simpl. destruct (beq k k1) eqn:E.
  - destruct ov; auto. apply beq_true in E. subst. simpl.
    apply (all_gt_lookup bw). now apply all_gt_flat_emit.
  - auto.
Qed.

Lemma lookup_smerge bw k : forall mem ps, sorted bw mem -> sorted bw ps ->
  lookup k (smerge bw mem ps) = over (lookup k mem) (lookup k ps).
Proof.
  induction mem as [|[km ov] ms IHm]; [reflexivity|].
  induction ps as [|[kp vp] ps IHp]; intros Hm Hp.
  - rewrite smerge_nil. now apply (lookup_flat_emit bw).
  - destruct Hm as [Gm Sm]. destruct Hp as [Gp Sp].
    destruct (cmpf bw km kp) eqn:E.
    + rewrite smerge_eq by exact E. rewrite lookup_app, lookup_emit. cbn [fst snd lookup].
      apply cmpf_eq in E. subst kp.
      destruct (beq k km) eqn:Ek.
      * destruct ov; auto. apply beq_true in Ek. subst k. simpl.
        apply (all_gt_lookup bw). apply all_gt_smerge; auto.
      * now rewrite IHm by auto.
    + rewrite smerge_lt by exact E. rewrite lookup_app, lookup_emit. cbn [fst snd].
      destruct (beq k km) eqn:Ek.
      * apply beq_true in Ek. subst k. cbn [lookup]. rewrite beq_refl.
        destruct ov; auto. simpl.
        apply (all_gt_lookup bw). apply all_gt_smerge; auto. split; auto. eapply all_gt_trans; eauto.
      * cbn [lookup]. rewrite Ek. rewrite IHm by (simpl; auto). reflexivity.
    + rewrite smerge_gt by exact E. apply cmpf_gt_lt in E. cbn [lookup].
      destruct (beq k kp) eqn:Ek.
      * apply beq_true in Ek. subst k.
        rewrite (lt_beq_false bw _ _ E). rewrite (all_gt_lookup bw kp ms); auto.
        eapply all_gt_trans; eauto.
      * rewrite IHp by (simpl; auto). cbn [lookup]. reflexivity.
Qed.
