(* C09 — facts about strictly ordered association lists: lookup characterises them (extensionality),
   insert/remove/copy_into/apply_writes/filter/rev keep them ordered and have the expected lookups. *)
From NG Require Import Common.Tactics Store.Bytes Store.Model Store.Spec.
Open Scope N_scope.

Section Gen.
  Context {A : Type}.
  Implicit Types (l m : list (key * A)) (k : key).

  Lemma all_gt_in bw k l : all_gt bw k l <-> (forall k' a, In (k', a) l -> cmpf bw k k' = Lt).
  Proof.
    induction l as [|[k1 a1] t IH]; simpl.
    - split; [intros _ ? ? []|auto].
    - rewrite IH. split.
      + intros [H1 H2] k' a [E|Hin]; [inv E; auto|eauto].
      + intros H; split; [eapply H; left; reflexivity|intros; eapply H; right; eauto].
  Qed.

  Lemma all_gt_trans bw k k' l : cmpf bw k k' = Lt -> all_gt bw k' l -> all_gt bw k l.
  Proof.
    induction l as [|[k1 a1] t IH]; simpl; auto.
    intros H [H1 H2]; split; eauto using cmpf_lt_trans.
  Qed.

  Lemma lt_beq_false bw k k' : cmpf bw k k' = Lt -> beq k k' = false.
  Proof.
    intros H. apply beq_false. intros ->. rewrite cmpf_refl in H. discriminate.
  Qed.

  Lemma all_gt_lookup bw k l : all_gt bw k l -> lookup k l = None.
  Proof.
    induction l as [|[k1 a1] t IH]; simpl; auto.
    intros [H1 H2]. rewrite (lt_beq_false _ _ _ H1). auto.
  Qed.

  Lemma sorted_tail bw x l : sorted bw (x :: l) -> sorted bw l.
  Proof. destruct x; simpl; tauto. Qed.

  (* two strictly ordered lists with the same lookups are the same list *)
  Lemma sorted_ext bw : forall l1 l2, sorted bw l1 -> sorted bw l2 ->
    (forall k, lookup k l1 = lookup k l2) -> l1 = l2.
  Proof.
    induction l1 as [|[k1 a1] t1 IH]; intros [|[k2 a2] t2] S1 S2 H; auto.
    - specialize (H k2). simpl in H. rewrite beq_refl in H. discriminate.
    - specialize (H k1). simpl in H. rewrite beq_refl in H. discriminate.
    - simpl in S1, S2. destruct S1 as [G1 S1], S2 as [G2 S2].
      destruct (cmpf bw k1 k2) eqn:E.
      + apply cmpf_eq in E. subst k2.
        pose proof (H k1) as H1. simpl in H1. rewrite beq_refl in H1. inv H1.
        f_equal. apply IH; auto. intros k. specialize (H k). simpl in H.
        destruct (beq k k1) eqn:Ek; auto.
        apply beq_true in Ek. subst k.
        now rewrite (all_gt_lookup _ _ _ G1), (all_gt_lookup _ _ _ G2).
      + (* k1 below everything in l2 *)
        specialize (H k1). simpl in H. rewrite beq_refl in H.
        rewrite (lt_beq_false _ _ _ E) in H.
        rewrite (all_gt_lookup bw k1 t2) in H; [discriminate|].
        eapply all_gt_trans; eauto.
      + apply cmpf_gt_lt in E.
        specialize (H k2). simpl in H. rewrite beq_refl in H.
        rewrite (lt_beq_false _ _ _ E) in H.
        rewrite (all_gt_lookup bw k2 t1) in H; [discriminate|].
        eapply all_gt_trans; eauto.
  Qed.

  (* ---- filter ---- *)
  Lemma all_gt_filter bw k f l : all_gt bw k l -> all_gt bw k (filter f l).
  Proof.
    induction l as [|[k1 a1] t IH]; simpl; auto. intros [H1 H2].
    destruct (f (k1, a1)); simpl; auto.
  Qed.

  Lemma sorted_filter bw f l : sorted bw l -> sorted bw (filter f l).
  Proof.
    induction l as [|[k1 a1] t IH]; simpl; auto. intros [H1 H2].
    destruct (f (k1, a1)); simpl; auto using all_gt_filter.
  Qed.

  Lemma lookup_filter (f : key -> bool) k l :
    lookup k (filter (fun kv => f (fst kv)) l) = if f k then lookup k l else None.
  Proof.
    induction l as [|[k1 a1] t IH]; simpl.
    - destruct (f k); reflexivity.
    - destruct (f k1) eqn:F1; simpl; rewrite IH.
      + destruct (beq k k1) eqn:E; auto. apply beq_true in E. subst. now rewrite F1.
      + destruct (beq k k1) eqn:E; auto. apply beq_true in E. subst. now rewrite F1.
  Qed.

  (* ---- append / reverse ---- *)
  Lemma lookup_app k l1 l2 :
    lookup k (l1 ++ l2) = match lookup k l1 with Some a => Some a | None => lookup k l2 end.
  Proof.
    induction l1 as [|[k1 a1] t IH]; simpl; auto. destruct (beq k k1); auto.
  Qed.

  Lemma all_gt_app bw k l1 l2 : all_gt bw k (l1 ++ l2) <-> all_gt bw k l1 /\ all_gt bw k l2.
  Proof.
    induction l1 as [|[k1 a1] t IH]; simpl; [tauto|]. rewrite IH. tauto.
  Qed.

  Lemma sorted_app bw l1 l2 :
    sorted bw (l1 ++ l2) <->
    sorted bw l1 /\ sorted bw l2 /\ (forall k a, In (k, a) l1 -> all_gt bw k l2).
  Proof.
    induction l1 as [|[k1 a1] t IH]; simpl.
    - split; [intros H; split; [auto|split; [auto|intros ? ? []]]|tauto].
    - rewrite IH, all_gt_app. split.
      + intros [[G1 G2] [S1 [S2 H]]]. split; [split; auto|split; auto].
        intros k a [E|Hin]; [inv E; auto|eauto].
      + intros [[G1 S1] [S2 H]]. split; [split; auto|split; [auto|split; auto]].
        * eapply H; left; reflexivity.
        * intros; eapply H; right; eauto.
  Qed.

  Lemma sorted_rev bw l : sorted bw l -> sorted (negb bw) (rev l).
  Proof.
    induction l as [|[k1 a1] t IH]; simpl; auto. intros [G S].
    apply sorted_app. split; [auto|split; [simpl; auto|]].
    intros k a Hin. simpl. split; auto. apply in_rev in Hin.
    rewrite all_gt_in in G. specialize (G _ _ Hin).
    destruct bw; simpl in *; auto.
  Qed.

  Lemma lookup_rev bw k l : sorted bw l -> lookup k (rev l) = lookup k l.
  Proof.
    induction l as [|[k1 a1] t IH]; simpl; auto. intros [G S].
    rewrite lookup_app, IH by auto. simpl.
    destruct (beq k k1) eqn:E.
    - apply beq_true in E. subst. now rewrite (all_gt_lookup _ _ _ G).
    - destruct (lookup k t); auto.
  Qed.

  Lemma sorted_dir bw l : sorted false l -> sorted bw (dir bw l).
  Proof. destruct bw; simpl; auto. apply (sorted_rev false). Qed.

  Lemma lookup_dir bw k l : sorted false l -> lookup k (dir bw l) = lookup k l.
  Proof. destruct bw; simpl; auto. apply lookup_rev. Qed.

  (* ---- insert / remove (ascending order) ---- *)
  Lemma lookup_insert k k' a m :
    lookup k (insert k' a m) = if beq k k' then Some a else lookup k m.
  Proof.
    induction m as [|[k1 a1] t IH]; simpl; auto.
    destruct (bcmp k' k1) eqn:E; simpl.
    - apply bcmp_eq in E. subst. destruct (beq k k1); auto.
    - reflexivity.
    - rewrite IH. destruct (beq k k1) eqn:E1; auto.
      destruct (beq k k') eqn:E2; auto.
      apply beq_true in E1, E2. subst. rewrite bcmp_refl in E. discriminate.
  Qed.

  Lemma all_gt_insert x k a m : all_gt false x m -> bcmp x k = Lt -> all_gt false x (insert k a m).
  Proof.
    induction m as [|[k1 a1] t IH]; simpl; auto.
    intros [H1 H2] Hx. destruct (bcmp k k1); simpl; auto.
  Qed.

  Lemma sorted_insert k a m : sorted false m -> sorted false (insert k a m).
  Proof.
    induction m as [|[k1 a1] t IH]; simpl; auto.
    intros [G S]. destruct (bcmp k k1) eqn:E; simpl.
    - apply bcmp_eq in E. subst. auto.
    - repeat split; auto. eapply all_gt_trans; eauto.
    - split; auto. apply all_gt_insert; auto. now apply bcmp_gt_lt.
  Qed.

  Lemma lookup_remove k k' m : sorted false m ->
    lookup k (remove k' m) = if beq k k' then None else lookup k m.
  Proof.
    induction m as [|[k1 a1] t IH]; simpl.
    - destruct (beq k k'); auto.
    - intros [G S]. destruct (bcmp k' k1) eqn:E; simpl.
      + apply bcmp_eq in E. subst k1. destruct (beq k k') eqn:E1; auto.
        apply beq_true in E1. subst. now apply (all_gt_lookup false).
      + destruct (beq k k') eqn:E1; auto. apply beq_true in E1. subst k'.
        rewrite (lt_beq_false false _ _ E). apply (all_gt_lookup false).
        eapply all_gt_trans; eauto.
      + rewrite IH by auto. destruct (beq k k1) eqn:E1; auto.
        destruct (beq k k') eqn:E2; auto.
        apply beq_true in E1, E2. subst. rewrite bcmp_refl in E. discriminate.
  Qed.

  Lemma all_gt_remove x k m : all_gt false x m -> all_gt false x (remove k m).
  Proof.
    induction m as [|[k1 a1] t IH]; simpl; auto.
    intros [H1 H2]. destruct (bcmp k k1); simpl; auto.
  Qed.

  Lemma sorted_remove k m : sorted false m -> sorted false (remove k m).
  Proof.
    induction m as [|[k1 a1] t IH]; simpl; auto.
    intros [G S]. destruct (bcmp k k1); simpl; auto using all_gt_remove.
  Qed.
End Gen.

(* ---- copy_into (maps.Copy) and apply_writes (PutChangeSet into a base) ---- *)

Lemma sorted_copy_into src : forall dst, sorted false dst -> sorted false (copy_into src dst).
Proof.
  unfold copy_into. induction src as [|[k ov] t IH]; simpl; auto.
  intros dst S. apply IH. now apply sorted_insert.
Qed.

Lemma lookup_copy_into k src : forall dst, sorted false src ->
  lookup k (copy_into src dst) = match lookup k src with Some ov => Some ov | None => lookup k dst end.
Proof.
  unfold copy_into. induction src as [|[k1 ov] t IH]; simpl; auto.
  intros dst [G S]. rewrite IH by auto. rewrite lookup_insert.
  destruct (beq k k1) eqn:E; auto.
  apply beq_true in E. subst. now rewrite (all_gt_lookup _ _ _ G).
Qed.

Lemma sorted_apply_writes src : forall dst, sorted false dst -> sorted false (apply_writes src dst).
Proof.
  unfold apply_writes. induction src as [|[k ov] t IH]; simpl; auto.
  intros dst S. apply IH. destruct ov; [now apply sorted_insert|now apply sorted_remove].
Qed.

(* what a layer's entry means for the map below it *)
Definition over (e : option (option val)) (below : option val) : option val :=
  match e with Some ov => ov | None => below end.

Lemma lookup_apply_writes k src : forall dst, sorted false src -> sorted false dst ->
  lookup k (apply_writes src dst) = over (lookup k src) (lookup k dst).
Proof.
  unfold apply_writes. induction src as [|[k1 ov] t IH]; simpl; auto.
  intros dst [G S] Sd. rewrite IH; auto.
  - destruct (beq k k1) eqn:E.
    + apply beq_true in E. subst. rewrite (all_gt_lookup _ _ _ G). simpl.
      destruct ov; simpl; [now rewrite lookup_insert, beq_refl|now rewrite lookup_remove, beq_refl].
    + destruct (lookup k t); auto. simpl.
      destruct ov; simpl; [now rewrite lookup_insert, E|now rewrite lookup_remove, E].
  - destruct ov; [now apply sorted_insert|now apply sorted_remove].
Qed.

Lemma apply_writes_nil m : apply_writes [] m = m.
Proof. reflexivity. Qed.

(* writing the same changeset twice is writing it once *)
Lemma apply_writes_idem w m : sorted false w -> sorted false m ->
  apply_writes w (apply_writes w m) = apply_writes w m.
Proof.
  intros Sw Sm. apply (sorted_ext false); auto using sorted_apply_writes.
  intros k. rewrite !lookup_apply_writes; auto using sorted_apply_writes.
  destruct (lookup k w); reflexivity.
Qed.

(* a changeset copied into the layer below acts, together with that layer, as the two in sequence *)
Lemma apply_writes_copy_into w1 w2 m : sorted false w1 -> sorted false w2 -> sorted false m ->
  apply_writes (copy_into w1 w2) m = apply_writes w1 (apply_writes w2 m).
Proof.
  intros S1 S2 Sm. apply (sorted_ext false); auto using sorted_apply_writes, sorted_copy_into.
  intros k. rewrite !lookup_apply_writes; auto using sorted_apply_writes, sorted_copy_into.
  rewrite lookup_copy_into by auto. destruct (lookup k w1); reflexivity.
Qed.

(* ---- remove_all (SeekGC deletions) ---- *)
Lemma sorted_remove_all {A} ks : forall (m : list (key * A)), sorted false m -> sorted false (remove_all ks m).
Proof.
  unfold remove_all. induction ks as [|k ks IH]; simpl; auto. intros m S. apply IH. now apply sorted_remove.
Qed.

Lemma lookup_remove_all {A} k ks : forall (m : list (key * A)), sorted false m ->
  lookup k (remove_all ks m) = if existsb (beq k) ks then None else lookup k m.
Proof.
  unfold remove_all. induction ks as [|k1 ks IH]; simpl; auto. intros m S.
  rewrite IH by now apply sorted_remove. rewrite lookup_remove by auto.
  destruct (beq k k1); simpl; auto. now destruct (existsb (beq k) ks).
Qed.
