(* C09 — a flush that FAILS: the error branch of MemCachedStore.persist (memcached_store.go, "We're toast").

   After the first region (maps moved into tempstore, fresh maps installed) the lower store's PutChangeSet returns an
   error and has written nothing (a Bolt Update / LevelDB transaction that is rolled back).  The last region then runs
       maps.Copy(tempstore.mem, s.mem); maps.Copy(tempstore.stor, s.stor)     (* what was written DURING the flush wins *)
       s.ps = tempstore.ps;  s.mem = tempstore.mem;  s.stor = tempstore.stor
   i.e. the un-flushed batch goes back UNDER whatever the cache received while the flush was blocked: newer values and
   newer tombstones win.  [persist_fail] is that region; the theorem says it leaves the one ordered map unchanged for
   EVERY set of writes interleaved with the flush, so "flushing changes no answer" also holds for a flush that fails.
   The merge in the other direction (the batch over the newer writes) is refuted.

   The system: upper shared layers [ups] (top first; only written, never flushed here) over the layer that is being
   flushed and its lower store, which is the system of Store/Conc.v ([fsub]). *)
From NG Require Import Common.Tactics Store.Bytes Store.Model Store.Spec Store.MapLemmas Store.MergeProof Store.Refine
  Store.GcProof Store.Conc Store.Conc2.
Open Scope N_scope.

(* the error branch: enabled after the swap, before any successful write below *)
Definition persist_fail (c : cstate) : cstate :=
  match ctemp c with
  | Some (t, false) =>
      {| cbk := cbk c; cm := copy_into (cm c) t; ctemp := None; cx := cx c; rsnap := rsnap c; rans := rans c |}
  | _ => c
  end.

(* the same region with the merge the wrong way round: the stale batch overwrites what was written during the flush *)
Definition persist_fail_wrong (c : cstate) : cstate :=
  match ctemp c with
  | Some (t, false) =>
      {| cbk := cbk c; cm := copy_into t (cm c); ctemp := None; cx := cx c; rsnap := rsnap c; rans := rans c |}
  | _ => c
  end.

Lemma persist_fail_wf c : cwf c -> cwf (persist_fail c).
Proof.
  intros (Sm & Km & Sx & Kx & Ht & Hr). unfold persist_fail.
  destruct (ctemp c) as [[t [|]]|] eqn:Et; try (split; [|split; [|split; [|split; [|split]]]]; auto; rewrite ?Et; auto; fail).
  destruct Ht as (St & Kt & _).
  split; [|split; [|split; [|split; [|split]]]]; simpl; auto using sorted_copy_into, keys_ok_copy_into.
Qed.

(* the failed flush leaves the one map unchanged, whatever was written into the cache while it was blocked *)
Theorem persist_fail_flat c : cwf c -> cflat (persist_fail c) = cflat c.
Proof.
  intros (Sm & Km & Sx & Kx & Ht & Hr). unfold persist_fail.
  destruct (ctemp c) as [[t [|]]|] eqn:Et; auto.
  destruct Ht as (St & Kt & _). unfold cflat. simpl. rewrite Et. now apply apply_writes_copy_into.
Qed.

(* stated over an explicit interleaving: swap, ANY writes, the failure: the map is the old one with exactly those writes *)
Theorem failed_flush_changes_no_answer c ws : cwf c -> ctemp c = None -> Forall (fun b => sorted false b /\ keys_ok b) ws ->
  let c' := persist_fail (crun (cstep c ASwap) (map AWrite ws)) in
  cflat c' = cflat (crun c (map AWrite ws)) /\ ctemp c' = None.
Proof.
  intros Hc Et Hws c'.
  assert (G : forall l s, cwf s -> Forall (fun b => sorted false b /\ keys_ok b) l ->
              cwf (crun s (map AWrite l)) /\ ctemp (crun s (map AWrite l)) = ctemp s /\
              cflat (crun s (map AWrite l)) = fold_left (fun f b => apply_writes b f) l (cflat s)).
  { induction l as [|b l IH]; intros s Hs Hl; [simpl; auto|]. inv Hl. destruct H1 as [Sb Kb].
    change (crun s (map AWrite (b :: l))) with (crun (cstep s (AWrite b)) (map AWrite l)).
    assert (Hs' : cwf (cstep s (AWrite b))) by (apply cstep_wf; simpl; auto).
    destruct (IH _ Hs' H2) as (W & T & F). split; [exact W|]. split; [rewrite T; reflexivity|].
    rewrite F. cbn [fold_left]. f_equal.
    pose proof (persist_regions_preserve_flat s (AWrite b) Hs) as H. cbv beta iota in H. now apply H. }
  assert (Hs : cwf (cstep c ASwap)) by (apply cstep_wf; simpl; auto).
  destruct (G ws _ Hs Hws) as (W1 & T1 & F1). destruct (G ws _ Hc Hws) as (W2 & T2 & F2).
  subst c'. rewrite persist_fail_flat by exact W1. rewrite F1, F2.
  pose proof (persist_regions_preserve_flat c ASwap Hc) as H. cbv beta iota in H. rewrite H. split; auto.
  unfold persist_fail. rewrite T1.
  assert (E : ctemp (cstep c ASwap) = match cm c with [] => None | _ :: _ => Some (cm c, false) end).
  { simpl. rewrite Et. destruct (cm c); simpl; auto. }
  rewrite E. destruct (cm c) as [|e m]; cbv beta iota.
  - exact (eq_trans T1 E).
  - reflexivity.
Qed.

(* the wrong direction: a value written during the flush is lost again *)
Definition persist_fail_wrong_statement : Prop := forall c, cwf c -> cflat (persist_fail_wrong c) = cflat c.

Definition wrong_c : cstate :=
  {| cbk := BBolt; cm := [([112; 1], Some [2])]; ctemp := Some ([([112; 1], Some [1]); ([112; 2], Some [1])], false);
     cx := []; rsnap := None; rans := None |}.

Theorem persist_fail_wrong_refuted : ~ persist_fail_wrong_statement.
Proof.
  intros H. specialize (H wrong_c).
  assert (E : cflat (persist_fail_wrong wrong_c) = cflat wrong_c).
  { apply H. unfold cwf, wrong_c; simpl. repeat split; auto; repeat constructor; simpl; try lia; try discriminate. }
  vm_compute in E. discriminate.
Qed.

Example persist_fail_witness :
  cflat wrong_c = [([112; 1], [2]); ([112; 2], [1])] /\
  cflat (persist_fail wrong_c) = [([112; 1], [2]); ([112; 2], [1])] /\
  cflat (persist_fail_wrong wrong_c) = [([112; 1], [1]); ([112; 2], [1])].
Proof. vm_compute. repeat split. Qed.

(* ------------------------------------------------------------------ the flush mode as a parameter *)

(* one flush attempt: Persist (sync = false: the lock is dropped around the write below, the batches ws are written into
   the cache meanwhile) or PersistSync (sync = true: the lock is held, nothing interleaves); the write below succeeds or fails *)
Definition persist_attempt (sync fails : bool) (ws : list lmap) (c : cstate) : cstate :=
  let c1 := cstep c ASwap in
  let c2 := if sync then c1 else crun c1 (map AWrite ws) in
  if fails then persist_fail c2 else cstep (cstep c2 ALowerWrite) AUnswap.

Lemma writes_run l : forall s, cwf s -> Forall (fun b => sorted false b /\ keys_ok b) l ->
  cwf (crun s (map AWrite l)) /\ ctemp (crun s (map AWrite l)) = ctemp s /\
  cflat (crun s (map AWrite l)) = fold_left (fun f b => apply_writes b f) l (cflat s).
Proof.
  induction l as [|b l IH]; intros s Hs Hl; [simpl; auto|]. inv Hl. destruct H1 as [Sb Kb].
  change (crun s (map AWrite (b :: l))) with (crun (cstep s (AWrite b)) (map AWrite l)).
  assert (Hs' : cwf (cstep s (AWrite b))) by (apply cstep_wf; simpl; auto).
  destruct (IH _ Hs' H2) as (W & T & F). split; [exact W|]. split; [rewrite T; reflexivity|].
  rewrite F. cbn [fold_left]. f_equal.
  pose proof (persist_regions_preserve_flat s (AWrite b) Hs) as H. cbv beta iota in H. now apply H.
Qed.

(* the law in both modes, for success and for failure: the one map afterwards is the one map before with exactly the
   batches that were written meanwhile (none in sync mode) *)
Theorem persist_attempt_flat sync fails ws c : cwf c -> Forall (fun b => sorted false b /\ keys_ok b) ws ->
  cflat (persist_attempt sync fails ws c) = cflat (if sync then c else crun c (map AWrite ws)) /\
  cwf (persist_attempt sync fails ws c).
Proof.
  intros Hc Hws. unfold persist_attempt.
  assert (H1 : cwf (cstep c ASwap)) by (apply cstep_wf; simpl; auto).
  pose proof (persist_regions_preserve_flat c ASwap Hc) as F1. cbv beta iota in F1.
  assert (H2 : cwf (if sync then cstep c ASwap else crun (cstep c ASwap) (map AWrite ws)) /\
               cflat (if sync then cstep c ASwap else crun (cstep c ASwap) (map AWrite ws)) =
               cflat (if sync then c else crun c (map AWrite ws))).
  { destruct sync; [split; auto|].
    destruct (writes_run ws _ H1 Hws) as (W1 & _ & E1). destruct (writes_run ws _ Hc Hws) as (_ & _ & E2).
    split; auto. now rewrite E1, E2, F1. }
  destruct H2 as [W2 E2]. set (c2 := if sync then cstep c ASwap else crun (cstep c ASwap) (map AWrite ws)) in *.
  destruct fails.
  - split; [now rewrite persist_fail_flat|now apply persist_fail_wf].
  - assert (H3 : cwf (cstep c2 ALowerWrite)) by (apply cstep_wf; simpl; auto).
    split; [|apply cstep_wf; simpl; auto].
    rewrite (persist_regions_preserve_flat _ AUnswap H3 : cflat _ = _).
    now rewrite (persist_regions_preserve_flat _ ALowerWrite W2 : cflat _ = _).
Qed.

(* the special case asked for: a failed PersistSync (empty interleaved set) leaves the one map unchanged *)
Corollary persist_sync_fail_flat c : cwf c -> cflat (persist_attempt true true [] c) = cflat c.
Proof. intros Hc. now destruct (persist_attempt_flat true true [] c Hc (Forall_nil _)). Qed.

(* "a sync flush holds the lock, there is nothing to merge back": s.ps restored, the tempstore's maps dropped *)
Definition persist_fail_norecover (c : cstate) : cstate :=
  match ctemp c with
  | Some (t, false) => {| cbk := cbk c; cm := cm c; ctemp := None; cx := cx c; rsnap := rsnap c; rans := rans c |}
  | _ => c
  end.
Definition sync_no_recovery_statement : Prop :=
  forall c, cwf c -> ctemp c = None -> cflat (persist_fail_norecover (cstep c ASwap)) = cflat c.

Definition norec_c : cstate :=
  {| cbk := BLevel; cm := [([3; 1], Some [9]); ([112; 1], None); ([112; 2], Some [2])]; ctemp := None;
     cx := [([112; 1], [1]); ([112; 2], [1])]; rsnap := None; rans := None |}.

(* the whole un-flushed change set is lost: the new key is missing, the overwritten value is stale, the deleted key is back *)
Theorem sync_no_recovery_refuted : ~ sync_no_recovery_statement.
Proof.
  intros H. specialize (H norec_c).
  assert (E : cflat (persist_fail_norecover (cstep norec_c ASwap)) = cflat norec_c).
  { apply H; [|reflexivity]. unfold cwf, norec_c; simpl. repeat split; auto; repeat constructor; simpl; try lia; try discriminate. }
  vm_compute in E. discriminate.
Qed.

Example sync_no_recovery_witness :
  cflat norec_c = [([3; 1], [9]); ([112; 2], [2])] /\
  cflat (persist_attempt true true [] norec_c) = [([3; 1], [9]); ([112; 2], [2])] /\
  cflat (persist_fail_norecover (cstep norec_c ASwap)) = [([112; 1], [1]); ([112; 2], [1])].
Proof. vm_compute. repeat split. Qed.

(* ------------------------------------------------------------------ with layers above (depth >= 2) *)

Record fstate := { ups : list lmap; fsub : cstate }.

Inductive fact :=
| FW (b : lmap)              (* PutChangeSet into the layer that is flushed *)
| FWTop (i : nat) (b : lmap) (* PutChangeSet into the i-th layer above it (0 = top) *)
| FSwap | FLw | FUn          (* the three regions of a successful Persist *)
| FFail                      (* the lower PutChangeSet fails: error branch *)
| FSync                      (* PersistSync (or Persist of a private layer) that succeeds: the three regions under one lock *)
| FSyncFail                  (* PersistSync (or Persist of a private layer) whose lower PutChangeSet fails *)
| FWLow (b : lmap).          (* a batch written into what lies below the flushed layer (only between two flushes) *)

Fixpoint upd_nth (i : nat) (f : lmap -> lmap) (l : list lmap) : list lmap :=
  match l, i with
  | [], _ => []
  | m :: t, O => f m :: t
  | m :: t, S i' => m :: upd_nth i' f t
  end.

(* what lies below the flushed layer is seen through its content [cx] (for layers below: their flattening; a batch put
   into them is that batch applied to the content) *)
Definition write_low (b : lmap) (c : cstate) : cstate :=
  match ctemp c with
  | None => {| cbk := cbk c; cm := cm c; ctemp := None; cx := apply_writes b (cx c); rsnap := rsnap c; rans := rans c |}
  | Some _ => c
  end.

Definition fstep (s : fstate) (a : fact) : fstate :=
  match a with
  | FW b => {| ups := ups s; fsub := cstep (fsub s) (AWrite b) |}
  | FWTop i b => {| ups := upd_nth i (copy_into b) (ups s); fsub := fsub s |}
  | FSwap => {| ups := ups s; fsub := cstep (fsub s) ASwap |}
  | FLw => {| ups := ups s; fsub := cstep (fsub s) ALowerWrite |}
  | FUn => {| ups := ups s; fsub := cstep (fsub s) AUnswap |}
  | FFail => {| ups := ups s; fsub := persist_fail (fsub s) |}
  | FSync => {| ups := ups s; fsub := cstep (cstep (cstep (fsub s) ASwap) ALowerWrite) AUnswap |}
  | FSyncFail => {| ups := ups s; fsub := persist_fail (cstep (fsub s) ASwap) |}
  | FWLow b => {| ups := ups s; fsub := write_low b (fsub s) |}
  end.
Definition frun_ (s : fstate) (l : list fact) : fstate := fold_left fstep l s.

(* the physical layers a read through the top goes through, and the one map *)
Definition f_layers (s : fstate) : list layer :=
  map mk (ups s) ++ mk (cm (fsub s)) :: match ctemp (fsub s) with Some (t, _) => [mk t] | None => [] end.
Definition f_flat (s : fstate) : kvs := flat_layers (map mk (ups s)) (cflat (fsub s)).

Definition f_seek (s : fstate) (r : range) : kvs := seek_layers (cbk (fsub s)) (f_layers s) (cx (fsub s)) r.
Definition f_get (s : fstate) (k : key) : option val := get_layers (f_layers s) (cx (fsub s)) k.

Definition fwf (s : fstate) : Prop := Forall (fun m => sorted false m /\ keys_ok m) (ups s) /\ cwf (fsub s).
Definition fact_ok (a : fact) : Prop :=
  match a with FW b | FWTop _ b | FWLow b => sorted false b /\ keys_ok b | _ => True end.

Lemma upd_nth_wf i b : forall l, sorted false b -> keys_ok b -> Forall (fun m => sorted false m /\ keys_ok m) l ->
  Forall (fun m => sorted false m /\ keys_ok m) (upd_nth i (copy_into b) l).
Proof.
  induction i as [|i IH]; intros [|m t] Sb Kb H; simpl; auto; inv H; constructor; auto.
  destruct H2. split; [now apply sorted_copy_into|now apply keys_ok_copy_into].
Qed.

Lemma write_low_wf b c : sorted false b -> keys_ok b -> cwf c -> cwf (write_low b c).
Proof.
  intros Sb Kb (Sm & Km & Sx & Kx & Ht & Hr). unfold write_low.
  destruct (ctemp c) eqn:Et; [split; [|split; [|split; [|split; [|split]]]]; auto; now rewrite Et|].
  split; [|split; [|split; [|split; [|split]]]]; simpl; auto using sorted_apply_writes, keys_ok_apply_writes.
Qed.

Lemma fstep_wf s a : fwf s -> fact_ok a -> fwf (fstep s a).
Proof.
  intros [Hu Hc] Ha. destruct a as [b|i b| | | | | | |b]; unfold fwf; cbn [fstep ups fsub].
  - split; [exact Hu|]. apply cstep_wf; auto.
  - destruct Ha. split; [now apply upd_nth_wf|exact Hc].
  - split; [exact Hu|]. apply cstep_wf; simpl; auto.
  - split; [exact Hu|]. apply cstep_wf; simpl; auto.
  - split; [exact Hu|]. apply cstep_wf; simpl; auto.
  - split; [exact Hu|]. now apply persist_fail_wf.
  - split; [exact Hu|]. apply cstep_wf; [|exact I]. apply cstep_wf; [|exact I]. apply cstep_wf; [exact Hc|exact I].
  - split; [exact Hu|]. apply persist_fail_wf. apply cstep_wf; [exact Hc|exact I].
  - destruct Ha. split; [exact Hu|]. now apply write_low_wf.
Qed.

Lemma frun_wf l : forall s, fwf s -> Forall fact_ok l -> fwf (frun_ s l).
Proof.
  unfold frun_. induction l as [|a l IH]; simpl; auto. intros s Hs Hl. inv Hl. apply IH; auto. now apply fstep_wf.
Qed.

(* every step that is not a write — the failing flush included — leaves the one map unchanged, at any depth *)
Theorem fail_step_flat s a : fwf s ->
  match a with FW _ | FWTop _ _ | FWLow _ => True | _ => f_flat (fstep s a) = f_flat s end.
Proof.
  intros [Hu Hc]. destruct a; auto; unfold f_flat; cbn [fstep ups fsub]; f_equal.
  - exact (persist_regions_preserve_flat (fsub s) ASwap Hc).
  - exact (persist_regions_preserve_flat (fsub s) ALowerWrite Hc).
  - exact (persist_regions_preserve_flat (fsub s) AUnswap Hc).
  - now apply persist_fail_flat.
  - pose proof (cstep_wf _ ASwap Hc I) as H1. pose proof (cstep_wf _ ALowerWrite H1 I) as H2.
    rewrite (persist_regions_preserve_flat _ AUnswap H2 : cflat _ = _).
    rewrite (persist_regions_preserve_flat _ ALowerWrite H1 : cflat _ = _).
    exact (persist_regions_preserve_flat (fsub s) ASwap Hc).
  - pose proof (cstep_wf _ ASwap Hc I) as H1. rewrite persist_fail_flat by exact H1.
    exact (persist_regions_preserve_flat (fsub s) ASwap Hc).
Qed.

Lemma flat_layers_app l1 l2 b : flat_layers (l1 ++ l2) b = flat_layers l1 (flat_layers l2 b).
Proof. induction l1 as [|L t IH]; simpl; auto. now rewrite IH. Qed.

Lemma f_layers_flat s : flat_layers (f_layers s) (cx (fsub s)) = f_flat s.
Proof.
  unfold f_layers, f_flat. rewrite flat_layers_app. f_equal. unfold cflat.
  destruct (ctemp (fsub s)) as [[t w]|]; reflexivity.
Qed.

Lemma f_layers_wf s : fwf s -> wf_layers (f_layers s).
Proof.
  intros [Hu (Sm & Km & Sx & Kx & Ht & _)]. unfold f_layers. apply Forall_app. split.
  - induction Hu; simpl; constructor; auto.
  - constructor; [simpl; auto|]. destruct (ctemp (fsub s)) as [[t w]|]; constructor; simpl; auto. tauto.
Qed.

(* reads through the top, before / during / after a flush that succeeds or fails, answer like the one map *)
Theorem f_seek_refines s r : fwf s -> range_ok r ->
  f_seek s r = rq r (flat_depth_layers (rdepth r) (f_layers s) (cx (fsub s))).
Proof.
  intros Hs Hr. unfold f_seek. pose proof Hs as [_ (_ & _ & Sx & Kx & _)].
  rewrite seek_layers_rq; auto using f_layers_wf. now rewrite fdr_flat.
Qed.

Corollary f_seek_full_depth s r : fwf s -> range_ok r -> rdepth r = 0 -> f_seek s r = rq r (f_flat s).
Proof.
  intros Hs Hr Hd. rewrite f_seek_refines by auto. rewrite Hd. unfold flat_depth_layers. simpl. now rewrite f_layers_flat.
Qed.

Theorem f_get_refines s k : fwf s -> f_get s k = lookup k (f_flat s).
Proof.
  intros Hs. pose proof Hs as [_ (_ & _ & Sx & Kx & _)].
  pose proof (get_refines {| layers := f_layers s; bkind := cbk (fsub s); base := cx (fsub s) |} k) as H.
  unfold store_get, spec_get, flat in H. simpl in H. unfold f_get. rewrite H.
  - now rewrite f_layers_flat.
  - split; [now apply f_layers_wf|auto].
Qed.
