(* C09 — specification: ONE ordered map holding the net effect of all writes, and range queries on it. *)
From NG Require Import Common.Tactics Store.Bytes Store.Model.
Open Scope N_scope.

(* the net effect of a stack: the base, then every layer's writes bottom-up (a value is put, a nil deletes) *)
Fixpoint flat_layers (ls : list layer) (b : kvs) : kvs :=
  match ls with
  | [] => b
  | L :: t => apply_writes (lm L) (flat_layers t b)
  end.
Definition flat (s : stack) : kvs := flat_layers (layers s) (base s).

(* SearchDepth d: only the d topmost layers (everything, base included, for d = 0 or d beyond the stack) *)
Definition flat_depth_layers (d : N) (ls : list layer) (b : kvs) : kvs :=
  if (d =? 0) || (N.of_nat (length ls) <? d) then flat_layers ls b
  else flat_layers (firstn (N.to_nat d) ls) [].
Definition flat_depth (d : N) (s : stack) : kvs := flat_depth_layers d (layers s) (base s).

(* keys under prefix P, from P++S on: forward everything >= P++S; backward everything <= P++S together
   with the keys extending P++S (the range [P, succ(P++S)) of the disk stores) *)
Definition in_range (P S : key) (bw : bool) (k : key) : bool :=
  has_prefix P k &&
  (if bw then ble k (P ++ S) || has_prefix (P ++ S) k else ble (P ++ S) k).

(* the answer of an ordered map m: matching pairs in ascending (descending) key order *)
Definition range_query (P S : key) (bw : bool) (m : kvs) : kvs :=
  dir bw (filter (fun kv => in_range P S bw (fst kv)) m).

Definition rq (r : range) (m : kvs) : kvs := range_query (rprefix r) (rstart r) (rback r) m.

Definition trim (cut : bool) (lp : nat) (l : kvs) : kvs := map (fun kv => (cutk cut lp (fst kv), snd kv)) l.

(* what each observation point must return *)
Definition spec_get (s : stack) (k : key) : option val := lookup k (flat s).
Definition spec_seek (s : stack) (cut : bool) (r : range) : kvs :=
  trim cut (length (rprefix r)) (rq r (flat_depth (rdepth r) s)).
(* dao level and Storage.Find: the contract's keys without the 5-byte 0x70++LE32(id) header *)
Definition spec_dao_seek (s : stack) (id : N) (r : range) : kvs :=
  let p := dao_key id (rprefix r) in
  trim true (length p) (rq (set_prefix r p) (flat_depth (rdepth r) s)).
Definition spec_find_keep (s : stack) (id : N) (r : range) : kvs :=
  trim true 5 (rq (set_prefix r (dao_key id (rprefix r))) (flat_depth (rdepth r) s)).

(* strictly ordered lists (by the comparison of a seek direction) *)
Fixpoint all_gt {A} (bw : bool) (k : key) (l : list (key * A)) : Prop :=
  match l with [] => True | (k', _) :: t => cmpf bw k k' = Lt /\ all_gt bw k t end.
Fixpoint sorted {A} (bw : bool) (l : list (key * A)) : Prop :=
  match l with [] => True | (k, _) :: t => all_gt bw k t /\ sorted bw t end.
