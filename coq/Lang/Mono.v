(* C14 — the fuel of the MiniGo evaluator only bounds the depth of the evaluation: a result other than
   [Timeout] does not depend on it. *)
From NG Require Import Common.Tactics Lang.MiniGo.
Open Scope nat_scope.

Section Mono.
Variable p : program.

Definition mono_at (n m : nat) : Prop :=
  (forall r e v, eval n p r e = v -> v <> Timeout -> eval m p r e = v) /\
  (forall r es v, eval_list n p r es = v -> v <> Timeout -> eval_list m p r es = v) /\
  (forall f vs v, call n p f vs = v -> v <> Timeout -> call m p f vs = v) /\
  (forall r s v, exec n p r s = v -> v <> Timeout -> exec m p r s = v) /\
  (forall r c po b v, loop n p r c po b = v -> v <> Timeout -> loop m p r c po b = v) /\
  (forall r tv cs v, exec_cases n p r tv cs = v -> v <> Timeout -> exec_cases m p r tv cs = v) /\
  (forall r num tv es v, match_any n p r num tv es = v -> v <> Timeout -> match_any m p r num tv es = v).

(* one recursive call in head position of a [bind] *)
Ltac sub_call3 H Hv t IH :=
  let E := fresh "E" in
  destruct t eqn:E;
  [ rewrite (IH _ _ _ E) by discriminate
  | rewrite (IH _ _ _ E) by discriminate
  | rewrite (IH _ _ _ E) by discriminate
  | exfalso; cbn [bind] in H; apply Hv; symmetry; exact H ].
Ltac sub_call4 H Hv t IH :=
  let E := fresh "E" in
  destruct t eqn:E;
  [ rewrite (IH _ _ _ _ E) by discriminate
  | rewrite (IH _ _ _ _ E) by discriminate
  | rewrite (IH _ _ _ _ E) by discriminate
  | exfalso; cbn [bind] in H; apply Hv; symmetry; exact H ].
Ltac sub_call5 H Hv t IH :=
  let E := fresh "E" in
  destruct t eqn:E;
  [ rewrite (IH _ _ _ _ _ E) by discriminate
  | rewrite (IH _ _ _ _ _ E) by discriminate
  | rewrite (IH _ _ _ _ _ E) by discriminate
  | exfalso; cbn [bind] in H; apply Hv; symmetry; exact H ].

Ltac mono_go H Hv IHe IHl IHc IHx IHlp IHcs IHmt :=
  repeat (cbn [bind fst snd] in H |- *;
    repeat match goal with a : (outcome * env)%type |- _ => destruct a end;
    cbn [bind fst snd] in H |- *;
    match type of H with
    | bind (eval ?n ?q ?r ?e) _ = _ => sub_call3 H Hv (eval n q r e) IHe
    | bind (eval_list ?n ?q ?r ?e) _ = _ => sub_call3 H Hv (eval_list n q r e) IHl
    | bind (call ?n ?q ?f ?vs) _ = _ => sub_call3 H Hv (call n q f vs) IHc
    | bind (exec ?n ?q ?r ?s) _ = _ => sub_call3 H Hv (exec n q r s) IHx
    | bind (loop ?n ?q ?r ?c ?po ?b) _ = _ => sub_call5 H Hv (loop n q r c po b) IHlp
    | bind (exec_cases ?n ?q ?r ?tv ?cs) _ = _ => sub_call4 H Hv (exec_cases n q r tv cs) IHcs
    | bind (match_any ?n ?q ?r ?nm ?tv ?es) _ = _ => sub_call5 H Hv (match_any n q r nm tv es) IHmt
    | context [match ?x with _ => _ end] => destruct x eqn:?
    | bind (val_match ?a ?b ?c) _ = _ => destruct (val_match a b c) eqn:?
    end);
  cbn [bind fst snd] in H |- *;
  first [ exact H
        | apply IHe; assumption | apply IHl; assumption | apply IHc; assumption
        | apply IHx; assumption | apply IHlp; assumption | apply IHcs; assumption | apply IHmt; assumption
        | exfalso; apply Hv; symmetry; exact H | exfalso; congruence ].

Lemma mono_le : forall n m, n <= m -> mono_at n m.
Proof.
  induction n as [|n IH]; intros m Hle.
  - repeat split; intros; simpl in *; congruence.
  - destruct m as [|m]; [lia|]. destruct (IH m ltac:(lia)) as (IHe & IHl & IHc & IHx & IHlp & IHcs & IHmt).
    repeat split.
    + intros r e v H Hv. destruct e; simpl in H |- *; mono_go H Hv IHe IHl IHc IHx IHlp IHcs IHmt.
    + intros r es v H Hv. destruct es; simpl in H |- *; mono_go H Hv IHe IHl IHc IHx IHlp IHcs IHmt.
    + intros f vs v H Hv. simpl in H |- *; mono_go H Hv IHe IHl IHc IHx IHlp IHcs IHmt.
    + intros r s v H Hv. destruct s; simpl in H |- *; mono_go H Hv IHe IHl IHc IHx IHlp IHcs IHmt.
    + intros r c po b v H Hv. simpl in H |- *; mono_go H Hv IHe IHl IHc IHx IHlp IHcs IHmt.
    + intros r tv cs v H Hv. destruct cs; simpl in H |- *; mono_go H Hv IHe IHl IHc IHx IHlp IHcs IHmt.
    + intros r num tv es v H Hv. destruct es; simpl in H |- *; mono_go H Hv IHe IHl IHc IHx IHlp IHcs IHmt.
Qed.

End Mono.

Theorem run_src_mono p f vs n m r : run_src n p f vs = r -> r <> Timeout -> n <= m -> run_src m p f vs = r.
Proof. intros H Hr Hle. destruct (mono_le p n m Hle) as (_ & _ & Hc & _). apply Hc; auto. Qed.

(* the source result is a function of program, function and arguments *)
Theorem run_src_det p f vs n1 n2 r1 r2 :
  run_src n1 p f vs = r1 -> r1 <> Timeout -> run_src n2 p f vs = r2 -> r2 <> Timeout -> r1 = r2.
Proof.
  intros H1 N1 H2 N2.
  rewrite <- (run_src_mono p f vs n1 (max n1 n2) r1 H1 N1) by lia.
  rewrite <- (run_src_mono p f vs n2 (max n1 n2) r2 H2 N2) by lia. reflexivity.
Qed.
