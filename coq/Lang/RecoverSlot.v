(* C14 — the slot of the saved panic value.

   MiniGo (Lang/MiniGo.v) has no panics and no defers: nothing of Lang/Correct.v speaks about recover().  This file
   is a small state machine for the ONE thing pkg/compiler does for recover() (codegen.go, case "recover"): the value
   of a caught panic is kept in a static slot (the catch block of a deferred call stores it: STSFLD), and recover()
   reads AND clears that slot — "LDSFLD; PUSHNULL; STSFLD", the load omitted when the value is not used (a bare
   `recover()` statement), the clearing never.

   A trace is what one invocation does to the slot, in order, across all its functions and deferred closures:
   panics that get caught, and recover() calls in their syntactic positions.  Source meaning (Go): recover() returns
   the value of the current panic and stops the panicking, so the NEXT recover() without a new panic returns nil —
   whatever the position of the first one.  Proved: the emitted operations reproduce the source observations on every
   trace; after a recover() in any position the slot is empty; eliding the code of the bare statement is refuted. *)
From NG Require Import Common.Tactics.
Open Scope Z_scope.

Inductive rpos :=
| PBare      (* recover()                  — statement, value unused *)
| PBlank     (* _ = recover() *)
| PVar       (* r := recover()             — tested later *)
| PCond.     (* if recover() != nil { ... } *)

Inductive ev := EPanic (v : Z) | ERecover (pos : rpos).

Definition pslot := option Z.     (* None: Null *)

(* ---------- source: observations = what every recover() whose value is looked at returned ---------- *)
Definition observed (pos : rpos) : bool := match pos with PBare | PBlank => false | _ => true end.

Fixpoint src (tr : list ev) (cur : pslot) : list pslot :=
  match tr with
  | [] => []
  | EPanic v :: t => src t (Some v)
  | ERecover pos :: t => (if observed pos then [cur] else []) ++ src t None
  end.

(* ---------- compiled: operations on the static slot ---------- *)
Inductive op := OLoad | OClear | ODrop.

Definition emit (pos : rpos) : list op :=
  match pos with
  | PBare => [OClear]
  | PBlank => [OLoad; OClear; ODrop]
  | PVar | PCond => [OLoad; OClear]
  end.

(* the elision: a call statement whose value is unused "needs no code" *)
Definition emit_elided (pos : rpos) : list op :=
  match pos with PBare => [] | _ => emit pos end.

(* slot, values pushed and not dropped *)
Fixpoint run_ops (ops : list op) (s : pslot) (stk : list pslot) : pslot * list pslot :=
  match ops with
  | [] => (s, stk)
  | OLoad :: t => run_ops t s (s :: stk)
  | OClear :: t => run_ops t None stk
  | ODrop :: t => run_ops t s (tl stk)
  end.

Fixpoint tgt (em : rpos -> list op) (tr : list ev) (s : pslot) : list pslot :=
  match tr with
  | [] => []
  | EPanic v :: t => tgt em t (Some v)                       (* the catch block stores the exception *)
  | ERecover pos :: t =>
      let '(s', out) := run_ops (em pos) s [] in out ++ tgt em t s'
  end.

Lemma emit_spec pos s :
  run_ops (emit pos) s [] = (None, if observed pos then [s] else []).
Proof. destruct pos; reflexivity. Qed.

Theorem recover_clears pos s : fst (run_ops (emit pos) s []) = None.
Proof. rewrite emit_spec. reflexivity. Qed.

Theorem recover_trace_correct tr : forall s, tgt emit tr s = src tr s.
Proof.
  induction tr as [|e t IH]; intros s; simpl; auto. destruct e as [v|pos]; auto.
  rewrite emit_spec. rewrite IH. reflexivity.
Qed.

(* a second recover() without a new panic yields nil, whatever stood first *)
Corollary recover_then_nil pos1 pos2 v rest :
  observed pos2 = true ->
  tgt emit (EPanic v :: ERecover pos1 :: ERecover pos2 :: rest) None
  = (if observed pos1 then [Some v] else []) ++ None :: tgt emit rest None.
Proof.
  intros H. rewrite !recover_trace_correct. simpl. rewrite H. reflexivity.
Qed.

(* refuted: with the bare statement elided the swallowed panic value is still there for a later recover() *)
Theorem recover_elided_refuted : ~ (forall tr s, tgt emit_elided tr s = src tr s).
Proof.
  intros H. specialize (H [EPanic 7; ERecover PBare; ERecover PVar] None). vm_compute in H. discriminate.
Qed.
