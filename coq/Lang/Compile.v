(* C14 — the model compiler: MiniGo -> target code, following the scheme of pkg/compiler/codegen.go
   for the fragment.  Definitions only.

   codegen.go                                   here
   ------------------------------------------   ------------------------------------------------
   funcScope.vars: arguments by position,        [cenv]: innermost declaration first, each name bound to
   newLocal allocates slot localsCnt++ for       [SArg i] / [SLoc k]; [SDecl] takes slot [next];
   every declaration, scopes only hide names     leaving a block forgets names, never reuses slots
   emitBoolExpr / emitBinaryExpr with            [compile_expr] in mode [MJmp cond tgt]: comparisons become
   needJump, cond, jmpLabel                      JMPxx (negated when cond=false), && / || chain jumps,
                                                 anything that is not a binary expression is evaluated
                                                 and followed by JMPIF / JMPIFNOT
   && / || in value position                     jump-mode left operand, value-mode right operand,
                                                 JMP over the pushed short-circuit constant
   IfStmt                                        condition jumps to the else label when false; JMP over
                                                 the else branch only when there is one
   ForStmt: labels start / post / end            init; start: cond (value) JMPIFNOT end; body; post: post;
                                                 JMP start; end:      break -> end, continue -> post
   CallExpr: arguments left to right,            arguments left to right, [emit_reverse], CALL entry;
   emitReverse, CALL; callee INITSLOT            callee starts with INITSLOT locals args (omitted when 0/0)
   ReturnStmt                                    values, last operand first (first result on top); RET
   a, b := f(..) / a, b = f(..)                  call; PUSH n; REVERSEN; stores last target first (a declared
                                                 target takes the next slot at that moment), _ is DROP
   call statement                                call; one DROP per declared result
   SwitchStmt (default clause last)              tag (or PUSHT); per case: DUP e EQ JMPIF start / JMPIFNOT end, body,
                                                 JMP switchEnd (deleted for the last clause); switchEnd: DROP;
                                                 break -> switchEnd; continue / return first drop the tags
   labels + writeJumps                           targets are computed from [size_*] (code size does not
                                                 depend on the targets); absolute instruction indices *)
From NG Require Import Common.Tactics Lang.MiniGo Lang.Target.
Open Scope nat_scope.

Inductive slot := SArg (n : nat) | SLoc (n : nat).
Definition cenv := list (ident * slot).

Fixpoint clookup (x : ident) (g : cenv) : option slot :=
  match g with
  | [] => None
  | (y, s) :: t => if N.eqb x y then Some s else clookup x t
  end.

(* an unknown name cannot occur in a program accepted by the Go type checker; any code will do *)
Definition slot_of (g : cenv) (x : ident) : slot :=
  match clookup x g with Some s => s | None => SLoc 0 end.

Definition load (s : slot) : instr := match s with SArg n => ILdArg n | SLoc n => ILdLoc n end.
Definition store (s : slot) : instr := match s with SArg n => IStArg n | SLoc n => IStLoc n end.

Inductive mode := MVal | MJmp (cond : bool) (tgt : nat).
Definition is_jmp (m : mode) : bool := match m with MVal => false | MJmp _ _ => true end.

Definition cmp_of (op : binop) : cmp :=
  match op with Lt => CLt | Le => CLe | Gt => CGt | Ge => CGe | Eq => CEq | _ => CNe end.

(* negateJmp *)
Definition cmp_neg (c : cmp) : cmp :=
  match c with CLt => CGe | CLe => CGt | CGt => CLe | CGe => CLt | CEq => CNe | CNe => CEq end.

(* convertToken *)
Definition op_instr (op : binop) : instr :=
  match op with
  | Add => IAdd | Sub => ISub | Mul => IMul | Div => IDiv | Mod => IMod
  | _ => ICmp (cmp_of op)
  end.

(* emitReverse *)
Definition emit_reverse (n : nat) : code :=
  match n with
  | 0 | 1 => []
  | 2 => [ISwap]
  | 3 => [IReverse3]
  | 4 => [IReverse4]
  | _ => [IPush (Z.of_nat n); IReverseN]
  end.

(* emitJumpOnCondition *)
Definition jmp_on (cond : bool) (t : nat) : instr := if cond then IJmpIf t else IJmpIfNot t.

(* number of instructions; [j]: jump mode *)
Fixpoint size_expr (j : bool) (e : expr) : nat :=
  match e with
  | ELit _ | EBool _ | EVar _ => 1 + (if j then 1 else 0)
  | ENeg a | ENot a => size_expr false a + 1 + (if j then 1 else 0)
  | EParen a => size_expr false a + (if j then 1 else 0)
  | EBin op a b =>
      size_expr false a + size_expr false b + (if j then (if is_cmp op then 1 else 2) else 1)
  | EAnd a b | EOr a b =>
      if j then size_expr true a + size_expr true b
      else size_expr true a + size_expr false b + 2
  | ECall f es =>
      (fix go (l : list expr) : nat := match l with [] => 0 | x :: t => size_expr false x + go t end) es
      + length (emit_reverse (length es)) + 1 + (if j then 1 else 0)
  end.

Fixpoint size_args (l : list expr) : nat :=
  match l with [] => 0 | x :: t => size_expr false x + size_args t end.

Section WithEntries.
Variable fe : nat -> nat.     (* entry point of each function *)
Variable fr : nat -> nat.     (* number of results of each function *)

Fixpoint compile_expr (g : cenv) (pc : nat) (e : expr) (m : mode) {struct e} : code :=
  let tail := match m with MVal => [] | MJmp cond t => [jmp_on cond t] end in
  match e with
  | ELit z => IPush z :: tail
  | EBool b => IPushB b :: tail
  | EVar x => load (slot_of g x) :: tail
  | ENeg a => compile_expr g pc a MVal ++ INegate :: tail
  | ENot a => compile_expr g pc a MVal ++ INot :: tail
  | EParen a => compile_expr g pc a MVal ++ tail
  | EBin op a b =>
      let ca := compile_expr g pc a MVal in
      let cb := compile_expr g (pc + size_expr false a) b MVal in
      match m with
      | MVal => ca ++ cb ++ [op_instr op]
      | MJmp cond t =>
          if is_cmp op then ca ++ cb ++ [IJmpCmp (if cond then cmp_of op else cmp_neg (cmp_of op)) t]
          else ca ++ cb ++ [op_instr op; jmp_on cond t]
      end
  | EAnd a b | EOr a b =>
      let short := match e with EOr _ _ => true | _ => false end in   (* true || _ , false && _ *)
      match m with
      | MVal =>
          let pb := pc + size_expr true a in
          let push := pb + size_expr false b + 1 in
          compile_expr g pc a (MJmp short push) ++ compile_expr g pb b MVal ++ [IJmp (push + 1); IPushB short]
      | MJmp cond t =>
          let pb := pc + size_expr true a in
          let endl := pb + size_expr true b in
          compile_expr g pc a (MJmp short (if Bool.eqb cond short then t else endl))
            ++ compile_expr g pb b (MJmp cond t)
      end
  | ECall f es =>
      (fix go (pc : nat) (l : list expr) : code :=
         match l with [] => [] | x :: r => compile_expr g pc x MVal ++ go (pc + size_expr false x) r end) pc es
      ++ emit_reverse (length es) ++ ICall (fe f) :: tail
  end.

Fixpoint compile_args (g : cenv) (pc : nat) (l : list expr) : code :=
  match l with [] => [] | x :: r => compile_expr g pc x MVal ++ compile_args g (pc + size_expr false x) r end.

(* ---------- statements ---------- *)

(* targets of a multiple assignment, given last target first *)
Fixpoint count_some {A} (xs : list (option A)) : nat :=
  match xs with [] => 0 | Some _ :: t => S (count_some t) | None :: t => count_some t end.

Fixpoint alloc_results (g : cenv) (next : nat) (xs : list (option ident)) : cenv :=
  match xs with
  | [] => g
  | None :: t => alloc_results g next t
  | Some x :: t => alloc_results ((x, SLoc next) :: g) (S next) t
  end.

Fixpoint store_code (decl : bool) (g : cenv) (next : nat) (xs : list (option ident)) : code :=
  match xs with
  | [] => []
  | None :: t => IDrop :: store_code decl g next t
  | Some x :: t =>
      if decl then IStLoc next :: store_code decl g (S next) t
      else store (slot_of g x) :: store_code decl g next t
  end.

(* number of declarations = local slots taken (vars.localsCnt only grows) *)
Fixpoint ndecl (s : stmt) : nat :=
  match s with
  | SDecl _ _ => 1
  | SCallAssign true xs _ _ => count_some (rev xs)
  | SSeq a b => ndecl a + ndecl b
  | SIf _ a => ndecl a
  | SIfElse _ a b => ndecl a + ndecl b
  | SFor i _ po b => ndecl i + ndecl b + ndecl po
  | SBlock a => ndecl a
  | SSwitch _ cs => ndecl cs
  | CDefault b => ndecl b
  | CCase _ _ b rest => ndecl b + ndecl rest
  | _ => 0
  end.

(* names in scope after the statement *)
Fixpoint env_after (g : cenv) (next : nat) (s : stmt) : cenv :=
  match s with
  | SDecl x _ => (x, SLoc next) :: g
  | SCallAssign true xs _ _ => alloc_results g next (rev xs)
  | SSeq a b => env_after (env_after g next a) (next + ndecl a) b
  | _ => g
  end.

(* case e1, ..., en: DUP e_j EQ JMPIF start for all but the last expression, DUP e_n EQ JMPIFNOT end for the last *)
Fixpoint size_tests (es : list expr) : nat :=
  match es with [] => 0 | e :: t => size_expr false e + 3 + size_tests t end.

Definition is_nil (cs : stmt) : bool := match cs with CNil => true | _ => false end.

(* [dc] / [dr]: the number of switch tags on the evaluation stack that continue / return have to drop first
   (codegen.go: labelList with its stack sizes, dropItems); they decide the size of the code *)
Fixpoint size_stmt (dc dr : nat) (s : stmt) : nat :=
  match s with
  | SSkip => 0
  | SSeq a b => size_stmt dc dr a + size_stmt dc dr b
  | SDecl _ e | SAssign _ e => size_expr false e + 1
  | SOpAssign _ _ e => size_expr false e + 3
  | SInc _ | SDec _ => 3
  | SIf c a => size_expr true c + size_stmt dc dr a
  | SIfElse c a b => size_expr true c + size_stmt dc dr a + 1 + size_stmt dc dr b
  | SFor i c po b => size_stmt dc dr i + size_expr false c + 1 + size_stmt 0 dr b + size_stmt 0 dr po + 1
  | SBreak => 1
  | SContinue => dc + 1
  | SReturn es => dr + size_args (rev es) + 1
  | SBlock a => size_stmt dc dr a
  | SCall f es => size_args es + length (emit_reverse (length es)) + 1 + fr f
  | SCallAssign _ xs f es => size_args es + length (emit_reverse (length es)) + 1 + 2 + length xs
  | SSwitch tag cs =>
      (match tag with Some e => size_expr false e | None => 1 end) + size_stmt dc dr cs + 1
  | CNil => 0
  | CDefault b => size_stmt (S dc) (S dr) b
  | CCase _ es b rest =>
      size_tests es + size_stmt (S dc) (S dr) b + (if is_nil rest then 0 else 1) + size_stmt dc dr rest
  end.

Fixpoint compile_tests (g : cenv) (pc : nat) (eq : instr) (pstart pend : nat) (es : list expr) : code :=
  match es with
  | [] => []
  | [e] => IDup :: compile_expr g (pc + 1) e MVal ++ [eq; IJmpIfNot pend]
  | e :: t =>
      IDup :: compile_expr g (pc + 1) e MVal ++ [eq; IJmpIf pstart]
      ++ compile_tests g (pc + size_expr false e + 3) eq pstart pend t
  end.

(* [brk] / [cont]: where break / continue of the innermost enclosing loop or switch go *)
Fixpoint compile_stmt (g : cenv) (next pc brk cont dc dr : nat) (s : stmt) {struct s} : code :=
  match s with
  | SSkip => []
  | SSeq a b =>
      compile_stmt g next pc brk cont dc dr a
      ++ compile_stmt (env_after g next a) (next + ndecl a) (pc + size_stmt dc dr a) brk cont dc dr b
  | SDecl x e => compile_expr g pc e MVal ++ [IStLoc next]
  | SAssign x e => compile_expr g pc e MVal ++ [store (slot_of g x)]
  | SOpAssign x op e =>
      load (slot_of g x) :: compile_expr g (pc + 1) e MVal ++ [op_instr op; store (slot_of g x)]
  | SInc x => [load (slot_of g x); IInc; store (slot_of g x)]
  | SDec x => [load (slot_of g x); IDec; store (slot_of g x)]
  | SIf c a =>
      let pa := pc + size_expr true c in
      compile_expr g pc c (MJmp false (pa + size_stmt dc dr a)) ++ compile_stmt g next pa brk cont dc dr a
  | SIfElse c a b =>
      let pa := pc + size_expr true c in
      let pb := pa + size_stmt dc dr a + 1 in
      compile_expr g pc c (MJmp false pb) ++ compile_stmt g next pa brk cont dc dr a
      ++ IJmp (pb + size_stmt dc dr b) :: compile_stmt g (next + ndecl a) pb brk cont dc dr b
  | SFor i c po b =>
      let g1 := env_after g next i in
      let n1 := next + ndecl i in
      let start := pc + size_stmt dc dr i in
      let pbody := start + size_expr false c + 1 in
      let ppost := pbody + size_stmt 0 dr b in
      let endl := ppost + size_stmt 0 dr po + 1 in
      compile_stmt g next pc brk cont dc dr i
      ++ compile_expr g1 start c MVal ++ IJmpIfNot endl
         :: compile_stmt g1 n1 pbody endl ppost 0 dr b
      ++ compile_stmt g1 (n1 + ndecl b) ppost endl ppost 0 dr po ++ [IJmp start]
  | SBreak => [IJmp brk]
  | SContinue => repeat IDrop dc ++ [IJmp cont]
  | SReturn es => repeat IDrop dr ++ compile_args g (pc + dr) (rev es) ++ [IRet]
  | SBlock a => compile_stmt g next pc brk cont dc dr a
  | SCall f es =>
      compile_args g pc es ++ emit_reverse (length es) ++ ICall (fe f) :: repeat IDrop (fr f)
  | SCallAssign decl xs f es =>
      compile_args g pc es ++ emit_reverse (length es) ++ ICall (fe f)
      :: IPush (Z.of_nat (length xs)) :: IReverseN :: store_code decl g next (rev xs)
  | SSwitch tag cs =>
      let ct := match tag with Some e => compile_expr g pc e MVal | None => [IPushB true] end in
      let pcs := pc + length ct in
      let swend := pcs + size_stmt dc dr cs in
      ct ++ compile_stmt g next pcs swend cont dc dr cs ++ [IDrop]
  (* the clauses of a switch; [brk] is the end of the switch (its DROP) *)
  | CNil => []
  | CDefault b => compile_stmt g next pc brk cont (S dc) (S dr) b
  | CCase num es b rest =>
      let pstart := pc + size_tests es in
      let pend := pstart + size_stmt (S dc) (S dr) b + (if is_nil rest then 0 else 1) in
      compile_tests g pc (if num then ICmp CEq else IEqual) pstart pend es
      ++ compile_stmt g next pstart brk cont (S dc) (S dr) b
      ++ (if is_nil rest then [] else [IJmp brk])     (* writeJumps deletes the jump to the next instruction *)
      ++ compile_stmt g (next + ndecl b) pend brk cont dc dr rest
  end.

(* ---------- functions and programs ---------- *)

Fixpoint params_env (i : nat) (xs : list ident) : cenv :=
  match xs with [] => [] | x :: t => (x, SArg i) :: params_env (S i) t end.

(* lastStmtIsReturn: the function body ends in a return (possibly inside trailing nested blocks) *)
Fixpoint is_empty (s : stmt) : bool :=
  match s with SSkip => true | SSeq a b => is_empty a && is_empty b | _ => false end.
Fixpoint last_is_return (s : stmt) : bool :=
  match s with
  | SReturn _ => true
  | SSeq a b => if is_empty b then last_is_return a else last_is_return b
  | SBlock a => last_is_return a
  | _ => false
  end.

Definition prologue (f : func) : code :=
  let nl := ndecl (f_body f) in
  let na := length (f_params f) in
  if (nl =? 0) && (na =? 0) then [] else [IInitSlot nl na].   (* writeJumps removes INITSLOT 0 0 *)

Definition epilogue (f : func) : code := if last_is_return (f_body f) then [] else [IRet].

Definition size_func (f : func) : nat :=
  length (prologue f) + size_stmt 0 0 (f_body f) + length (epilogue f).

Definition compile_func (base : nat) (f : func) : code :=
  prologue f
  ++ compile_stmt (params_env 0 (f_params f)) 0 (base + length (prologue f)) 0 0 0 0 (f_body f)
  ++ epilogue f.

Fixpoint compile_funcs (base : nat) (p : list func) : code :=
  match p with
  | [] => []
  | f :: t => compile_func base f ++ compile_funcs (base + size_func f) t
  end.

End WithEntries.

Definition nres (p : program) (f : nat) : nat :=
  match nth_error p f with Some fn => f_nres fn | None => 0 end.

(* functions are laid out in declaration order *)
Fixpoint entries (fr : nat -> nat) (base : nat) (p : list func) : list nat :=
  match p with [] => [] | f :: t => base :: entries fr (base + size_func fr f) t end.

Definition entry (p : program) (f : nat) : nat := nth f (entries (nres p) 0 p) 0.

Definition compile_program (p : program) : code := compile_funcs (entry p) (nres p) 0 p.
