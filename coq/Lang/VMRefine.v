(* C14 — the target machine of Lang/Target.v refines the NeoVM model of VM/Model.v.

   [assemble_with ws P] (Lang/Assemble.v) turns Target code into script bytes.  Running the VM model on
   these bytes simulates the Target machine step for step: one Target instruction = one VM instruction.
   Correspondence of states ([vm_of]):
     pc (instruction index)        ->  f_ip = byte offset of that instruction ([off ws P])
     values VInt/VBool/VNull       ->  items IInt/IBool/INull
     locs, args ([] = no slot)     ->  f_local, f_args (None = nil slot)
     stk                           ->  sc_es of the one scriptContext
     callers                       ->  s_frames (no try stack, retCount -1)
     -                             ->  s_refs = number of items on the stack and in all slots ([footprint]),
                                       heap empty, no static slot, no suspended scripts, no pending exception
   What the VM has and the Target machine lacks are stated as side conditions:
     [within]: footprint <= MaxStackSize and invocation depth <= MaxInvocationStackSize, for every state
               the Target run visits ([safe], a computable check);
     gas: the limit is negative (unlimited) or at least 512 * base per instruction remains (512 = the largest
          price coefficient in the subset: CALL).
   Integers need no side condition: both machines fault on a result outside 256 bits. *)
From NG Require Import VM.Model VM.ExecSpec.
From NG Require Import Codec.BigintProofs Lang.MiniGo Lang.Target Lang.Assemble Lang.AssembleProofs.
Open Scope Z_scope.

Definition item_of (v : val) : item :=
  match v with VInt z => IInt z | VBool b => IBool b | VNull => INull end.
Definition slot_of (l : list val) : option (list item) :=
  match l with [] => None | _ => Some (map item_of l) end.

Definition frame_size (f : Target.frame) : Z := zlen (f_locs f) + zlen (Target.f_args f).
Fixpoint frames_size (l : list Target.frame) : Z :=
  match l with [] => 0 | f :: t => frame_size f + frames_size t end.
(* what the VM's reference counter counts *)
Definition footprint (st : Target.state) : Z :=
  zlen (stk st) + zlen (locs st) + zlen (args st) + frames_size (callers st).
Definition within (st : Target.state) : bool :=
  (footprint st <=? MaxStackSize) && (zlen (callers st) + 1 <=? MaxInvocationStackSize).

(* every state of the run (at most n steps) is within the VM's limits *)
Fixpoint safe (c : code) (n : nat) (s : Target.state) : bool :=
  within s &&
  match n with
  | O => true
  | S n' => match Target.step c s with Next s' => safe c n' s' | _ => true end
  end.

Definition max_coeff : Z := 512.

(* ---------- bytes ---------- *)
Lemma opcode_roundtrip op : opcode_of_byte (byte_of_opcode op) = Some op.
Proof. destruct op; reflexivity. Qed.

Lemma take_app ps (rest : list Z) : take (length ps) (ps ++ rest) = Some (ps, rest).
Proof. induction ps as [|x ps IH]; simpl; [reflexivity|]. now rewrite IH. Qed.

Lemma decode_at bs o op ps rest :
  0 <= o -> skipn (Z.to_nat o) bs = byte_of_opcode op :: ps ++ rest ->
  operand_of op = Fixed (length ps) ->
  decode bs o = DecOk op ps (o + 1 + Z.of_nat (length ps)).
Proof.
  intros Ho Hs Hop. unfold decode. replace (o <? 0) with false by lia.
  rewrite Hs, opcode_roundtrip, Hop, take_app. reflexivity.
Qed.

Lemma decode_end (bs : list Z) : decode bs (zlen bs) = DecEnd.
Proof.
  unfold decode, zlen. replace (Z.of_nat (length bs) <? 0) with false by lia.
  rewrite Nat2Z.id, skipn_all. reflexivity.
Qed.

Definition is_ctrl (op : opcode) : bool :=
  match op with
  | JMP | JMPL | JMPIF | JMPIFL | JMPIFNOT | JMPIFNOTL | JMPEQ | JMPEQL | JMPNE | JMPNEL
  | JMPGT | JMPGTL | JMPGE | JMPGEL | JMPLT | JMPLTL | JMPLE | JMPLEL
  | CALL | CALLL | CALLA | CALLT | SYSCALL | RET | TRY | TRYL | ENDTRY | ENDTRYL | ENDFINALLY => true
  | _ => false
  end.

Lemma exec_op_data sys cip op p s : is_ctrl op = false ->
  exec_op sys cip op p s =
  match exec_data_opt (mkEnv cip (prog_len s) (sc_sid (s_sc s))) op p (view s) with
  | Some (DOk d) => XNext (unview s d)
  | Some (DThrow e d) => xopt (throw e (unview s d))
  | Some DFault | None => XFault
  end.
Proof.
  intros H. destruct op; try discriminate H; unfold exec_op, exec_data;
    match goal with |- context [exec_data_opt ?e ?o ?p ?d] => destruct (exec_data_opt e o p d) as [[]|] end;
    reflexivity.
Qed.

(* ---------- small constants and short slot opcodes: the facts needed about each, by enumeration ---------- *)
Lemma small_range z : (-1 <=? z) && (z <=? 15) = true -> exists m, (m < 17)%nat /\ z = Z.of_nat m - 1.
Proof. intros H. exists (Z.to_nat (z + 1)). lia. Qed.

Ltac small_cases H :=
  apply small_range in H; let m := fresh "m" in let Hm := fresh "Hm" in
  destruct H as (m & Hm & ->);
  do 17 (destruct m as [|m]; [try reflexivity; try (cbv; congruence)|]); exfalso; lia.

Lemma small_push_operand z : (-1 <=? z) && (z <=? 15) = true -> operand_of (small_push z) = Fixed 0.
Proof. intros H. small_cases H. Qed.
Lemma small_push_ctrl z : (-1 <=? z) && (z <=? 15) = true -> is_ctrl (small_push z) = false.
Proof. intros H. small_cases H. Qed.
Lemma small_push_coeff z : (-1 <=? z) && (z <=? 15) = true -> opcode_coeff (small_push z) = 1.
Proof. intros H. small_cases H. Qed.
Lemma small_push_exec z e p d : (-1 <=? z) && (z <=? 15) = true ->
  exec_data_opt e (small_push z) p d = okd (Data.push_int z d).
Proof. intros H. small_cases H. Qed.

Ltac slot_cases n H :=
  do 7 (destruct n as [|n]; [try reflexivity|]); exfalso; apply Nat.ltb_lt in H; lia.

Definition kind_of (k : Assemble.slot_kind) : Data.slot_kind :=
  match k with KLdLoc | KStLoc => KLocal | KLdArg | KStArg => KArg end.
Definition is_load (k : Assemble.slot_kind) : bool :=
  match k with KLdLoc | KLdArg => true | _ => false end.

Lemma slot_short_operand k n : (n <? 7)%nat = true -> operand_of (nth n (slot_short k) (slot_gen k)) = Fixed 0.
Proof. intros H. destruct k; slot_cases n H. Qed.
Lemma slot_short_ctrl k n : (n <? 7)%nat = true -> is_ctrl (nth n (slot_short k) (slot_gen k)) = false.
Proof. intros H. destruct k; slot_cases n H. Qed.
Lemma slot_short_coeff k n : (n <? 7)%nat = true -> opcode_coeff (nth n (slot_short k) (slot_gen k)) = 2.
Proof. intros H. destruct k; slot_cases n H. Qed.
Lemma slot_short_exec k n e p d : (n <? 7)%nat = true ->
  exec_data_opt e (nth n (slot_short k) (slot_gen k)) p d =
  if is_load k then ld (kind_of k) (Z.of_nat n) d else Data.st (kind_of k) (Z.of_nat n) d.
Proof. intros H. destruct k; slot_cases n H. Qed.

(* ---------- what [enc] produces is what the decoder expects, and is cheap enough ---------- *)
Ltac case_hyp H :=
  match type of H with context [if ?b then _ else _] => destruct b eqn:? end.

Lemma push_enc_operand z op ps : push_enc z = Some (op, ps) ->
  operand_of op = Fixed (length ps) /\ 0 <= opcode_coeff op <= max_coeff.
Proof.
  unfold push_enc, max_coeff. intros H. repeat case_hyp H; inv H;
    try (split; [reflexivity|cbv; split; congruence]).
  rewrite small_push_operand, small_push_coeff by assumption. split; [reflexivity|lia].
Qed.

Lemma slot_enc_operand k n op ps : slot_enc k n = Some (op, ps) ->
  operand_of op = Fixed (length ps) /\ 0 <= opcode_coeff op <= max_coeff.
Proof.
  unfold slot_enc, max_coeff. intros H. repeat case_hyp H; inv H.
  - rewrite slot_short_operand, slot_short_coeff by assumption. split; [reflexivity|lia].
  - destruct k; (split; [reflexivity|cbv; split; congruence]).
Qed.

Lemma enc_operand tgt n o long i op ps : enc tgt n o long i = Some (op, ps) ->
  operand_of op = Fixed (length ps) /\ 0 <= opcode_coeff op <= max_coeff.
Proof.
  destruct i; intros H; cbn [enc jump_of] in H;
    try (eapply push_enc_operand; eassumption);
    try (eapply slot_enc_operand; eassumption);
    try (inv H; split; [reflexivity|cbv; split; congruence]).
  - destruct b; inv H; split; try reflexivity; cbv; split; congruence.
  - destruct c; inv H; split; try reflexivity; cbv; split; congruence.
  - case_hyp H; inv H. split; [reflexivity|cbv; split; congruence].
  - case_hyp H; [|discriminate]. destruct (rel_enc long (tgt t - o)) eqn:E; [|discriminate].
    pose proof (rel_enc_length _ _ _ E). inv H.
    destruct long; (split; [cbn [operand_of]; f_equal; lia|cbv; split; congruence]).
  - case_hyp H; [|discriminate]. destruct (rel_enc long (tgt t - o)) eqn:E; [|discriminate].
    pose proof (rel_enc_length _ _ _ E). inv H.
    destruct long; (split; [cbn [operand_of]; f_equal; lia|cbv; split; congruence]).
  - case_hyp H; [|discriminate]. destruct (rel_enc long (tgt t - o)) eqn:E; [|discriminate].
    pose proof (rel_enc_length _ _ _ E). inv H.
    destruct long; (split; [cbn [operand_of]; f_equal; lia|cbv; split; congruence]).
  - case_hyp H; [|discriminate]. destruct (rel_enc long (tgt t - o)) eqn:E; [|discriminate].
    pose proof (rel_enc_length _ _ _ E). inv H.
    destruct long, c; (split; [cbn [operand_of jcmp_long jcmp_short]; f_equal; lia|cbv; split; congruence]).
  - case_hyp H; [|discriminate]. destruct (rel_enc long (tgt t - o)) eqn:E; [|discriminate].
    pose proof (rel_enc_length _ _ _ E). inv H.
    destruct long; (split; [cbn [operand_of]; f_equal; lia|cbv; split; congruence]).
Qed.

(* ---------- the data state: primitive items only ---------- *)
Lemma prim_cloc v : item_cloc (item_of v) = None.
Proof. destruct v; reflexivity. Qed.

Lemma push_prim it es l a s h r : item_cloc it = None ->
  push it (mkD es l a s h r) = mkD (it :: es) l a s h (r + 1).
Proof. intros H. unfold push, push_noref, d_add, ref_add. cbn. rewrite H. reflexivity. Qed.

Lemma pop_cons it es l a s h r : item_cloc it = None ->
  pop (mkD (it :: es) l a s h r) = Some (it, mkD es l a s h (r - 1)).
Proof. intros H. unfold pop, pop_noref, d_remove, ref_remove. cbn. rewrite H. reflexivity. Qed.

Lemma pop_nil l a s h r : pop (mkD [] l a s h r) = None.
Proof. reflexivity. Qed.

Lemma try_int_of v : try_int (item_of v) = as_int v.
Proof. destruct v as [z|[]|]; reflexivity. Qed.
Lemma try_bool_of v : try_bool (item_of v) = Some (as_bool v).
Proof. destruct v; reflexivity. Qed.

Lemma pop_int_cons v es l a s h r :
  pop_int (mkD (item_of v :: es) l a s h r) =
  match as_int v with Some z => Some (z, mkD es l a s h (r - 1)) | None => None end.
Proof. unfold pop_int. rewrite pop_cons by apply prim_cloc. rewrite try_int_of. destruct (as_int v); reflexivity. Qed.

Lemma pop_bool_cons v es l a s h r :
  pop_bool (mkD (item_of v :: es) l a s h r) = Some (as_bool v, mkD es l a s h (r - 1)).
Proof. unfold pop_bool. rewrite pop_cons by apply prim_cloc. rewrite try_bool_of. reflexivity. Qed.

Lemma push_int_d z es l a s h r :
  Data.push_int z (mkD es l a s h r) =
  if fits256 z then Some (mkD (IInt z :: es) l a s h (r + 1)) else None.
Proof.
  unfold Data.push_int, mk_int256. change (in_int256 z) with (fits256 z).
  destruct (fits256 z); [|reflexivity]. rewrite push_prim by reflexivity. reflexivity.
Qed.

Lemma zlen_cons {A} (x : A) l : zlen (x :: l) = 1 + zlen l.
Proof. unfold zlen. simpl length. lia. Qed.
Lemma zlen_nil {A} : zlen (@nil A) = 0.
Proof. reflexivity. Qed.
Lemma zlen_map {A B} (f : A -> B) l : zlen (map f l) = zlen l.
Proof. unfold zlen. now rewrite map_length. Qed.
Lemma zlen_nonneg {A} (l : list A) : 0 <= zlen l.
Proof. unfold zlen. lia. Qed.

Lemma slot_of_ne l : l <> [] -> slot_of l = Some (map item_of l).
Proof. destruct l; [congruence|reflexivity]. Qed.

Lemma set_nth_map n l v : set_nth n (map item_of l) (item_of v) = map item_of (list_set n v l).
Proof. revert n; induction l as [|x l IH]; intros [|n]; simpl; try reflexivity. now rewrite IH. Qed.
Lemma list_set_length {A} n (v : A) l : length (list_set n v l) = length l.
Proof. revert n; induction l as [|x l IH]; intros [|n]; simpl; try reflexivity. now rewrite IH. Qed.

Lemma reverse_top_map n stk :
  reverse_top n (map item_of stk) = option_map (map item_of) (rev_top n stk).
Proof.
  unfold reverse_top, rev_top. rewrite map_length.
  destruct (Nat.ltb_spec (length stk) n); destruct (Nat.leb_spec n (length stk)); try lia; [reflexivity|].
  simpl. now rewrite map_app, map_rev, firstn_map, skipn_map.
Qed.

Lemma item_equals_of h va vb : item_equals h (item_of va) (item_of vb) = Some (val_equal va vb).
Proof. destruct va, vb; reflexivity. Qed.

Lemma from_bytes_le w z : (1 <= w)%nat -> fits_bytes w z = true -> from_bytes (le_bytes w z) = z.
Proof.
  intros Hw H. rewrite from_bytes_is_spec by apply le_bytes_ok.
  destruct w as [|n]; [lia|]. apply spec_le_bytes. unfold fits_bytes in H. lia.
Qed.

(* the data view of a Target state *)
Definition dview (st : Target.state) : dstate :=
  mkD (map item_of (stk st)) (slot_of (locs st)) (slot_of (args st)) None [] (footprint st).

Lemma dview_eq es l a r st :
  es = map item_of (stk st) -> l = slot_of (locs st) -> a = slot_of (args st) -> r = footprint st ->
  mkD es l a None [] r = dview st.
Proof. intros -> -> -> ->. reflexivity. Qed.

(* ---------- data instructions: the VM's [exec_data] on the view of a Target state ---------- *)
Definition dsim (r : option dres) (t : sres) (st : Target.state) : Prop :=
  match t with
  | Next st' => r = Some (DOk (dview st')) /\ pc st' = S (pc st) /\ callers st' = callers st
  | Halt _ => False
  | SFault => r = None
  end.

Ltac zl := unfold footprint; cbn [stk locs args callers pc]; rewrite ?zlen_cons, ?zlen_map, ?zlen_nil; try lia.
Ltac dfin := cbn [dsim]; unfold okd, ok; repeat split; try reflexivity;
  try (apply f_equal; apply f_equal; unfold dview; cbn [stk locs args callers pc map]; f_equal; try reflexivity; zl).

Lemma sim_arith2 e op ps st (fv : Z -> Z -> option Z) (ft : Z -> Z -> option Z) :
  (forall d, exec_data_opt e op ps d = bin_int fv d) ->
  (forall a b, (do r <- fv a b; mk_int256 r) = (do z <- ft a b; mk_int256 z)) ->
  dsim (exec_data_opt e op ps (dview st)) (arith2 st ft) st.
Proof.
  intros He Hf. rewrite He. destruct st as [pc0 locs0 args0 stk0 cs0].
  unfold arith2, dview. cbn [stk locs args callers pc].
  destruct stk0 as [|vb [|va rest]]; cbn [map].
  - reflexivity.
  - unfold bin_int. rewrite pop_int_cons. destruct (as_int vb); reflexivity.
  - unfold bin_int. rewrite pop_int_cons. destruct (as_int vb) as [b|]; [|destruct (as_int va); reflexivity].
    rewrite pop_int_cons. destruct (as_int va) as [a|]; [|reflexivity].
    specialize (Hf a b). unfold mk_int256 in Hf. change in_int256 with fits256 in Hf.
    unfold Target.push_int.
    destruct (fv a b) as [r|]; destruct (ft a b) as [z|]; rewrite ?push_int_d.
    + destruct (fits256 r) eqn:Er, (fits256 z) eqn:Ez; inv Hf; rewrite ?Er; try reflexivity. dfin.
    + destruct (fits256 r); [discriminate|reflexivity].
    + destruct (fits256 z); [discriminate|reflexivity].
    + reflexivity.
Qed.

Lemma sim_arith1 e op ps st (f : Z -> Z) :
  (forall d, exec_data_opt e op ps d = un_int (fun a => Some (f a)) d) ->
  dsim (exec_data_opt e op ps (dview st)) (arith1 st f) st.
Proof.
  intros He. rewrite He. destruct st as [pc0 locs0 args0 stk0 cs0].
  unfold arith1, dview. cbn [stk locs args callers pc].
  destruct stk0 as [|va rest]; cbn [map]; [reflexivity|].
  unfold un_int. rewrite pop_int_cons. destruct (as_int va) as [a|]; [|reflexivity].
  unfold Target.push_int. destruct (fits256 (f a)) eqn:Hz; rewrite push_int_d, Hz; [dfin|reflexivity].
Qed.

Lemma gtb_ltb a b : (a >? b) = (b <? a). Proof. apply Z.gtb_ltb. Qed.
Lemma geb_leb a b : (a >=? b) = (b <=? a). Proof. apply Z.geb_leb. Qed.

Lemma sim_cmp e c st :
  dsim (exec_data_opt e (cmp_op c) [] (dview st)) (exec_instr (ICmp c) st) st.
Proof.
  destruct st as [pc0 locs0 args0 stk0 cs0].
  unfold dview. cbn [exec_instr stk locs args callers pc].
  destruct stk0 as [|vb [|va rest]]; cbn [map].
  - destruct c; reflexivity.
  - destruct c; cbn [cmp_op exec_data_opt]; unfold cmp_null, bin_cmp; rewrite ?pop_int_cons, ?pop_cons by apply prim_cloc;
      try reflexivity; destruct (as_int vb); reflexivity.
  - destruct c, va as [x|[]|], vb as [y|[]|]; cbn [cmp_op exec_data_opt is_ord]; unfold cmp_null, bin_cmp;
      repeat (rewrite pop_int_cons; cbn [as_int]); rewrite ?pop_cons by apply prim_cloc;
      cbn [item_of is_null orb try_int as_int bool_z cmp_eval];
      rewrite ?push_prim by reflexivity; unfold set_stk; rewrite ?gtb_ltb, ?geb_leb; try reflexivity; dfin.
Qed.

Local Opaque le_bytes.
Lemma sim_push e z op ps st : push_enc z = Some (op, ps) ->
  dsim (exec_data_opt e op ps (dview st)) (exec_instr (IPush z) st) st.
Proof.
  intros H.
  assert (He : exec_data_opt e op ps (dview st) = okd (Data.push_int z (dview st))).
  { unfold push_enc in H. repeat case_hyp H; inv H;
      try (cbn [exec_data_opt]; rewrite from_bytes_le by (assumption || lia); reflexivity).
    apply small_push_exec; assumption. }
  rewrite He. destruct st as [pc0 locs0 args0 stk0 cs0]. unfold dview, Target.push_int.
  cbn [exec_instr stk locs args callers pc]. unfold Target.push_int. rewrite push_int_d.
  destruct (fits256 z); [dfin|reflexivity].
Qed.

Local Transparent le_bytes.
Lemma sim_pushb e (b : bool) st :
  dsim (exec_data_opt e (if b then PUSHT else PUSHF) [] (dview st)) (exec_instr (IPushB b) st) st.
Proof.
  destruct st as [pc0 locs0 args0 stk0 cs0]. unfold dview. cbn [exec_instr stk locs args callers pc].
  destruct b; cbn [exec_data_opt]; rewrite push_prim by reflexivity; unfold set_stk; dfin.
Qed.

Lemma sim_not e st : dsim (exec_data_opt e NOT [] (dview st)) (exec_instr INot st) st.
Proof.
  destruct st as [pc0 locs0 args0 stk0 cs0]. unfold dview. cbn [exec_instr exec_data_opt stk locs args callers pc].
  destruct stk0 as [|v rest]; cbn [map]; [reflexivity|].
  rewrite pop_bool_cons, push_prim by reflexivity. unfold set_stk. dfin.
Qed.

Lemma sim_drop e st : dsim (exec_data_opt e DROP [] (dview st)) (exec_instr IDrop st) st.
Proof.
  destruct st as [pc0 locs0 args0 stk0 cs0]. unfold dview. cbn [exec_instr exec_data_opt stk locs args callers pc].
  destruct stk0 as [|v rest]; cbn [map]; [reflexivity|].
  rewrite pop_cons by apply prim_cloc. unfold set_stk. dfin.
Qed.

Lemma sim_dup e st : dsim (exec_data_opt e DUP [] (dview st)) (exec_instr IDup st) st.
Proof.
  destruct st as [pc0 locs0 args0 stk0 cs0]. unfold dview. cbn [exec_instr exec_data_opt stk locs args callers pc d_es].
  destruct stk0 as [|v rest]; cbn [map nth_error]; [reflexivity|].
  rewrite push_prim by apply prim_cloc. unfold set_stk. dfin.
Qed.

Lemma sim_nop e st : dsim (exec_data_opt e NOP [] (dview st)) (exec_instr INop st) st.
Proof.
  destruct st as [pc0 locs0 args0 stk0 cs0]. unfold dview. cbn [exec_instr exec_data_opt stk locs args callers pc].
  unfold set_stk. dfin.
Qed.

Lemma sim_equal e st : dsim (exec_data_opt e EQUAL [] (dview st)) (exec_instr IEqual st) st.
Proof.
  destruct st as [pc0 locs0 args0 stk0 cs0]. unfold dview. cbn [exec_instr exec_data_opt stk locs args callers pc d_es].
  destruct stk0 as [|vb [|va rest]]; cbn [map]; try reflexivity.
  rewrite pop_cons by apply prim_cloc. rewrite pop_cons by apply prim_cloc. cbn [d_heap].
  rewrite item_equals_of, push_prim by reflexivity. unfold set_stk. dfin.
Qed.

Lemma sim_revk e op k st : (k = 2 \/ k = 3 \/ k = 4)%nat ->
  (forall d, exec_data_opt e op [] d = do es <- reverse_top k (d_es d); ok (set_es d es)) ->
  dsim (exec_data_opt e op [] (dview st)) (match rev_top k (stk st) with Some s => set_stk st s | None => SFault end) st.
Proof.
  intros Hk He. rewrite He. destruct st as [pc0 locs0 args0 stk0 cs0]. unfold dview. cbn [stk locs args callers pc d_es].
  rewrite reverse_top_map. destruct (rev_top k stk0) as [s|] eqn:E; cbn [option_map]; [|reflexivity].
  unfold set_stk, set_es. cbn [d_local d_args d_static d_heap d_refs stk locs args callers pc].
  assert (length s = length stk0).
  { unfold rev_top in E. case_hyp E; inv E. rewrite app_length, rev_length.
    rewrite <- (firstn_skipn k stk0) at 3. now rewrite app_length. }
  dfin. unfold zlen. lia.
Qed.

Lemma sim_reversen e st : footprint st <= MaxStackSize ->
  dsim (exec_data_opt e REVERSEN [] (dview st)) (exec_instr IReverseN st) st.
Proof.
  intros Hw. destruct st as [pc0 locs0 args0 stk0 cs0]. unfold dview.
  cbn [exec_instr exec_data_opt stk locs args callers pc].
  destruct stk0 as [|v rest]; cbn [map]; [reflexivity|].
  unfold pop_i32. rewrite pop_int_cons. destruct (as_int v) as [z|]; [|reflexivity].
  assert (Hlen : zlen rest <= MaxStackSize).
  { unfold footprint in Hw. cbn [stk locs args callers] in Hw. rewrite zlen_cons in Hw.
    pose proof (zlen_nonneg locs0). pose proof (zlen_nonneg args0).
    assert (0 <= frames_size cs0).
    { clear. induction cs0 as [|f t IH]; simpl; [lia|]. unfold frame_size.
      pose proof (zlen_nonneg (f_locs f)). pose proof (zlen_nonneg (Target.f_args f)). lia. }
    lia. }
  unfold to_i32. destruct (Z.ltb_spec z 0) as [Hneg|Hpos].
  - destruct ((-2147483648 <=? z) && (z <=? 2147483647)); [|reflexivity].
    replace (z <? 0) with true by lia. reflexivity.
  - destruct ((-2147483648 <=? z) && (z <=? 2147483647)) eqn:Hr.
    + replace (z <? 0) with false by lia. cbn [d_es]. rewrite sidx_reverse_top by lia.
      rewrite reverse_top_map. destruct (rev_top (Z.to_nat z) rest) as [s|] eqn:E; cbn [option_map]; [|reflexivity].
      unfold set_stk, set_es. cbn [d_local d_args d_static d_heap d_refs stk locs args callers pc].
      assert (length s = length rest).
      { unfold rev_top in E. case_hyp E; inv E. rewrite app_length, rev_length.
        rewrite <- (firstn_skipn (Z.to_nat z) rest) at 3. now rewrite app_length. }
      dfin. unfold zlen. lia.
    + unfold rev_top. unfold MaxStackSize, zlen in Hlen.
      destruct (Nat.leb_spec (Z.to_nat z) (length rest)); [lia|reflexivity].
Qed.

Lemma nth_error_map_of l n : nth_error (map item_of l) n = option_map item_of (nth_error l n).
Proof. revert n; induction l; intros [|n]; simpl; auto. Qed.

Lemma sim_ldloc n st : dsim (ld KLocal (Z.of_nat n) (dview st)) (exec_instr (ILdLoc n) st) st.
Proof.
  destruct st as [pc0 locs0 args0 stk0 cs0]. unfold dview, ld, slot_load.
  cbn [exec_instr stk locs args callers pc get_slot d_local]. rewrite Nat2Z.id.
  destruct locs0 as [|x l]; [destruct n; reflexivity|]. cbn [slot_of].
  rewrite nth_error_map_of. destruct (nth_error (x :: l) n); cbn [option_map]; [|reflexivity].
  rewrite push_prim by apply prim_cloc. unfold set_stk. dfin.
Qed.

Lemma sim_ldarg n st : dsim (ld KArg (Z.of_nat n) (dview st)) (exec_instr (ILdArg n) st) st.
Proof.
  destruct st as [pc0 locs0 args0 stk0 cs0]. unfold dview, ld, slot_load.
  cbn [exec_instr stk locs args callers pc get_slot d_args]. rewrite Nat2Z.id.
  destruct args0 as [|x l]; [destruct n; reflexivity|]. cbn [slot_of].
  rewrite nth_error_map_of. destruct (nth_error (x :: l) n); cbn [option_map]; [|reflexivity].
  rewrite push_prim by apply prim_cloc. unfold set_stk. dfin.
Qed.

Lemma list_set_ne {A} n (v : A) l : l <> [] -> list_set n v l <> [].
Proof. destruct l, n; simpl; congruence. Qed.

Lemma sim_stloc n st : dsim (Data.st KLocal (Z.of_nat n) (dview st)) (exec_instr (IStLoc n) st) st.
Proof.
  destruct st as [pc0 locs0 args0 stk0 cs0]. unfold dview, Data.st, slot_store.
  cbn [exec_instr stk locs args callers pc get_slot d_local]. rewrite Nat2Z.id.
  destruct locs0 as [|x l].
  - cbn [slot_of]. destruct stk0; [reflexivity|]. destruct n; reflexivity.
  - set (L := x :: l) in *. assert (HL : L <> []) by discriminate. rewrite (slot_of_ne L HL). clearbody L.
    rewrite nth_error_map_of.
    destruct (nth_error L n) as [old|] eqn:E; cbn [option_map].
    + assert (Hn : (n <? length L)%nat = true).
      { apply Nat.ltb_lt. apply nth_error_Some. congruence. }
      destruct stk0 as [|v rest]; [reflexivity|]. rewrite Hn.
      unfold pop_noref. cbn [map d_es]. unfold d_remove, ref_remove. rewrite prim_cloc.
      unfold put_slot, set_local, set_mem, set_es. cbn [d_heap d_refs d_local d_args d_static d_es].
      rewrite set_nth_map. rewrite <- slot_of_ne by (apply list_set_ne; assumption).
      dfin. pose proof (list_set_length n v L). unfold zlen. lia.
    + assert (Hn : (n <? length L)%nat = false).
      { apply Nat.ltb_ge. apply nth_error_None. assumption. }
      rewrite Hn. destruct stk0; reflexivity.
Qed.

Lemma sim_starg n st : dsim (Data.st KArg (Z.of_nat n) (dview st)) (exec_instr (IStArg n) st) st.
Proof.
  destruct st as [pc0 locs0 args0 stk0 cs0]. unfold dview, Data.st, slot_store.
  cbn [exec_instr stk locs args callers pc get_slot d_args]. rewrite Nat2Z.id.
  destruct args0 as [|x l].
  - cbn [slot_of]. destruct stk0; [reflexivity|]. destruct n; reflexivity.
  - set (L := x :: l) in *. assert (HL : L <> []) by discriminate. rewrite (slot_of_ne L HL). clearbody L.
    rewrite nth_error_map_of.
    destruct (nth_error L n) as [old|] eqn:E; cbn [option_map].
    + assert (Hn : (n <? length L)%nat = true).
      { apply Nat.ltb_lt. apply nth_error_Some. congruence. }
      destruct stk0 as [|v rest]; [reflexivity|]. rewrite Hn.
      unfold pop_noref. cbn [map d_es]. unfold d_remove, ref_remove. rewrite prim_cloc.
      unfold put_slot, set_args, set_mem, set_es. cbn [d_heap d_refs d_local d_args d_static d_es].
      rewrite set_nth_map. rewrite <- slot_of_ne by (apply list_set_ne; assumption).
      dfin. pose proof (list_set_length n v L). unfold zlen. lia.
    + assert (Hn : (n <? length L)%nat = false).
      { apply Nat.ltb_ge. apply nth_error_None. assumption. }
      rewrite Hn. destruct stk0; reflexivity.
Qed.

Lemma map_repeat_null n : map item_of (repeat VNull n) = repeat INull n.
Proof. induction n; simpl; congruence. Qed.
Lemma repeat_ne {A} (x : A) n : n <> O -> repeat x n <> [].
Proof. destruct n; simpl; congruence. Qed.
Lemma firstn_ne {A} n (l : list A) : n <> O -> (n <= length l)%nat -> firstn n l <> [].
Proof. destruct n, l; simpl; try congruence; lia. Qed.
Lemma zlen_repeat {A} (x : A) n : zlen (repeat x n) = Z.of_nat n.
Proof. unfold zlen. now rewrite repeat_length. Qed.
Lemma zlen_firstn_skipn {A} n (l : list A) : zlen (firstn n l) + zlen (skipn n l) = zlen l.
Proof. unfold zlen. rewrite <- (firstn_skipn n l) at 3. rewrite app_length. lia. Qed.

Lemma sim_initslot e nl na st :
  dsim (exec_data_opt e INITSLOT [Z.of_nat nl; Z.of_nat na] (dview st)) (exec_instr (IInitSlot nl na) st) st.
Proof.
  destruct st as [pc0 locs0 args0 stk0 cs0]. unfold dview.
  cbn [exec_instr exec_data_opt stk locs args callers pc d_local d_args].
  destruct locs0 as [|x l]; [|destruct args0; reflexivity].
  destruct args0 as [|x l]; [|reflexivity]. cbn [slot_of].
  destruct (Nat.eqb_spec nl 0) as [->|Hnl]; destruct (Nat.eqb_spec na 0) as [->|Hna]; cbn [andb].
  - reflexivity.
  - change (Z.of_nat 0 =? 0) with true. assert (Hq : (Z.of_nat na =? 0) = false) by lia. rewrite Hq. cbn [andb].
    change (0 <? Z.of_nat 0) with false. replace (0 <? Z.of_nat na) with true by lia.
    cbn [d_es]. rewrite zlen_map. rewrite Nat2Z.id.
    destruct (Nat.leb_spec na (length stk0)).
    + replace (zlen stk0 <? Z.of_nat na) with false by (unfold zlen; lia).
      unfold set_es, set_args. cbn [d_heap d_refs d_local d_args d_static d_es].
      rewrite firstn_map, skipn_map. rewrite <- slot_of_ne by (apply firstn_ne; assumption).
      dfin. pose proof (zlen_firstn_skipn na stk0). unfold zlen in *. simpl repeat. simpl length. lia.
    + replace (zlen stk0 <? Z.of_nat na) with true by (unfold zlen; lia). reflexivity.
  - replace (Z.of_nat nl =? 0) with false by lia. cbn [andb].
    replace (0 <? Z.of_nat nl) with true by lia. change (0 <? Z.of_nat 0) with false.
    rewrite Nat2Z.id. cbn [Nat.leb firstn skipn].
    unfold set_refs, set_mem, set_local. cbn [d_heap d_refs d_local d_args d_static d_es].
    rewrite <- map_repeat_null. rewrite <- slot_of_ne by (apply repeat_ne; assumption).
    dfin. rewrite zlen_repeat. lia.
  - replace (Z.of_nat nl =? 0) with false by lia. cbn [andb].
    replace (0 <? Z.of_nat nl) with true by lia. replace (0 <? Z.of_nat na) with true by lia.
    unfold set_refs, set_mem, set_local. cbn [d_heap d_refs d_local d_args d_static d_es].
    rewrite zlen_map. rewrite !Nat2Z.id.
    destruct (Nat.leb_spec na (length stk0)).
    + replace (zlen stk0 <? Z.of_nat na) with false by (unfold zlen; lia).
      unfold set_es, set_args. cbn [d_heap d_refs d_local d_args d_static d_es].
      rewrite firstn_map, skipn_map. rewrite <- slot_of_ne by (apply firstn_ne; assumption).
      rewrite <- map_repeat_null. rewrite <- slot_of_ne by (apply repeat_ne; assumption).
      dfin. pose proof (zlen_firstn_skipn na stk0). rewrite zlen_repeat. lia.
    + replace (zlen stk0 <? Z.of_nat na) with true by (unfold zlen; lia). reflexivity.
Qed.

Lemma sim_swap e st : dsim (exec_data_opt e SWAP [] (dview st)) (exec_instr ISwap st) st.
Proof.
  destruct st as [pc0 locs0 args0 stk0 cs0]. unfold dview. cbn [exec_instr exec_data_opt stk locs args callers pc d_es].
  destruct stk0 as [|a [|b rest]]; cbn [map]; try reflexivity.
  unfold set_stk, set_es. cbn [rev_top length Nat.leb firstn skipn rev app d_local d_args d_static d_heap d_refs]. dfin.
Qed.

Lemma slot_enc_spec k n op ps e d : slot_enc k n = Some (op, ps) ->
  is_ctrl op = false /\
  exec_data_opt e op ps d = if is_load k then ld (kind_of k) (Z.of_nat n) d else Data.st (kind_of k) (Z.of_nat n) d.
Proof.
  unfold slot_enc. intros H. repeat case_hyp H; try discriminate H.
  - assert (Ho : op = nth n (slot_short k) (slot_gen k)) by congruence. subst op.
    split; [apply slot_short_ctrl; assumption|apply slot_short_exec; assumption].
  - assert (Ho : op = slot_gen k) by congruence. assert (Hp : ps = [Z.of_nat n]) by congruence. subst.
    destruct k; split; reflexivity.
Qed.

Definition data_ok (i : instr) : bool :=
  match i with IJmp _ | IJmpIf _ | IJmpIfNot _ | IJmpCmp _ _ | ICall _ | IRet => false | _ => true end.

Lemma data_sim tgt n o long i op ps e st :
  data_ok i = true -> enc tgt n o long i = Some (op, ps) -> footprint st <= MaxStackSize ->
  is_ctrl op = false /\ dsim (exec_data_opt e op ps (dview st)) (exec_instr i st) st.
Proof.
  intros Hd H Hw. destruct i; try discriminate Hd; cbn [enc] in H.
  - (* IPush *) split; [|eapply sim_push; eassumption].
    unfold push_enc in H. repeat case_hyp H; inv H; try reflexivity. apply small_push_ctrl; assumption.
  - inv H. split; [destruct b; reflexivity|apply sim_pushb].
  - inv H. split; [reflexivity|]. apply sim_arith2 with (fv := total2 Z.add); reflexivity.
  - inv H. split; [reflexivity|]. apply sim_arith2 with (fv := total2 Z.sub); reflexivity.
  - inv H. split; [reflexivity|]. apply sim_arith2 with (fv := total2 Z.mul); reflexivity.
  - inv H. split; [reflexivity|]. apply sim_arith2 with (fv := ar_div); [reflexivity|].
    intros a b. unfold ar_div, mk_int256. destruct (b =? 0); [reflexivity|].
    destruct (in_int256 (a ÷ b)) eqn:E; cbn; rewrite ?E; reflexivity.
  - inv H. split; [reflexivity|]. apply sim_arith2 with (fv := ar_mod); [reflexivity|].
    intros a b. unfold ar_mod, mk_int256. destruct (b =? 0); [reflexivity|].
    destruct (in_int256 (Z.rem a b)) eqn:E; cbn; rewrite ?E; reflexivity.
  - inv H. split; [reflexivity|]. apply sim_arith1. reflexivity.
  - inv H. split; [reflexivity|]. apply sim_arith1. reflexivity.
  - inv H. split; [reflexivity|]. apply sim_arith1. reflexivity.
  - inv H. split; [destruct c; reflexivity|apply sim_cmp].
  - inv H. split; [reflexivity|apply sim_not].
  - (* ILdLoc *) destruct (slot_enc_spec _ _ _ _ e (dview st) H) as [Hc Hx]. split; [exact Hc|]. rewrite Hx. apply sim_ldloc.
  - destruct (slot_enc_spec _ _ _ _ e (dview st) H) as [Hc Hx]. split; [exact Hc|]. rewrite Hx. apply sim_stloc.
  - destruct (slot_enc_spec _ _ _ _ e (dview st) H) as [Hc Hx]. split; [exact Hc|]. rewrite Hx. apply sim_ldarg.
  - destruct (slot_enc_spec _ _ _ _ e (dview st) H) as [Hc Hx]. split; [exact Hc|]. rewrite Hx. apply sim_starg.
  - case_hyp H; inv H. split; [reflexivity|apply sim_initslot].
  - inv H. split; [reflexivity|apply sim_drop].
  - inv H. split; [reflexivity|]. apply sim_swap.
  - inv H. split; [reflexivity|]. apply (sim_revk e REVERSE3 3); [tauto|reflexivity].
  - inv H. split; [reflexivity|]. apply (sim_revk e REVERSE4 4); [tauto|reflexivity].
  - inv H. split; [reflexivity|apply sim_reversen; assumption].
  - inv H. split; [reflexivity|apply sim_nop].
  - inv H. split; [reflexivity|apply sim_dup].
  - inv H. split; [reflexivity|apply sim_equal].
Qed.

(* ---------- control flow, and the step simulation ---------- *)
Lemma nth_error_Some_lt {A} (l : list A) n x : nth_error l n = Some x -> (n < length l)%nat.
Proof. intros H. apply nth_error_Some. congruence. Qed.

(* ---------- jumps: condition and the stack that is left (None = FAULT) ---------- *)
Definition jcond (i : instr) (s : list val) : option (bool * list val) :=
  match i with
  | IJmp _ => Some (true, s)
  | IJmpIf _ => match s with v :: rest => Some (as_bool v, rest) | [] => None end
  | IJmpIfNot _ => match s with v :: rest => Some (negb (as_bool v), rest) | [] => None end
  | IJmpCmp c _ =>
      match s with
      | vb :: va :: rest =>
          match as_int va, as_int vb with Some a, Some b => Some (cmp_eval c a b, rest) | _, _ => None end
      | _ => None
      end
  | _ => None
  end.
Definition is_jump (i : instr) : bool :=
  match i with IJmp _ | IJmpIf _ | IJmpIfNot _ | IJmpCmp _ _ => true | _ => false end.

Definition with_stk (st : Target.state) (s : list val) : Target.state :=
  St (pc st) (locs st) (args st) s (callers st).

Lemma jump_target_exec i sop lop t st : is_jump i = true -> jump_of i = Some (sop, lop, t) ->
  exec_instr i st =
  match jcond i (stk st) with
  | Some (true, s) => Target.jump st t s
  | Some (false, s) => set_stk st s
  | None => SFault
  end.
Proof.
  intros Hj Ht. destruct i; try discriminate Hj; cbn [jump_of] in Ht; inv Ht; cbn [exec_instr jcond].
  - reflexivity.
  - destruct (stk st) as [|v rest]; [reflexivity|]. destruct (as_bool v); reflexivity.
  - destruct (stk st) as [|v rest]; [reflexivity|]. destruct (as_bool v); reflexivity.
  - destruct (stk st) as [|vb [|va rest]]; try reflexivity.
    destruct (as_int va), (as_int vb); reflexivity.
Qed.

Lemma jump_cond_sim i sop lop t (long : bool) st : is_jump i = true -> jump_of i = Some (sop, lop, t) ->
  jump_cond (if long then lop else sop) (dview st) =
  match jcond i (stk st) with
  | Some (c, s) => Some (c, dview (with_stk st s))
  | None => None
  end.
Proof.
  intros Hj Ht. destruct st as [pc0 locs0 args0 stk0 cs0]. unfold dview, with_stk. cbn [stk locs args callers pc].
  destruct i; try discriminate Hj; cbn [jump_of] in Ht; inv Ht; cbn [jcond].
  - destruct long; reflexivity.
  - destruct stk0 as [|v rest]; [destruct long; reflexivity|]. cbn [map].
    destruct long; cbn [jump_cond]; rewrite pop_bool_cons; repeat f_equal; zl.
  - destruct stk0 as [|v rest]; [destruct long; reflexivity|]. cbn [map].
    destruct long; cbn [jump_cond]; rewrite pop_bool_cons; repeat f_equal; zl.
  - destruct stk0 as [|vb [|va rest]].
    + destruct long, c; reflexivity.
    + cbn [map]. destruct long, c; cbn [jump_cond jcmp_long jcmp_short]; rewrite pop_int_cons; destruct (as_int vb); reflexivity.
    + cbn [map]. destruct (as_int va) as [a|] eqn:Ea; destruct (as_int vb) as [b|] eqn:Eb;
        destruct long, c; cbn [jump_cond jcmp_long jcmp_short]; rewrite pop_int_cons, Eb; try reflexivity;
        rewrite pop_int_cons, Ea; try reflexivity; cbn [cmp_eval]; rewrite ?gtb_ltb, ?geb_leb;
        repeat f_equal; zl.
Qed.

Lemma rel_offset_enc long r ps : rel_enc long r = Some ps -> rel_offset ps = Some r.
Proof.
  unfold rel_enc. destruct long.
  - case_if; [|discriminate]. intros H; inv H. unfold fits_i32 in *.
    cbn [le_bytes]. unfold rel_offset.
    change [r mod 256; (r / 256) mod 256; (r / 256 / 256) mod 256; (r / 256 / 256 / 256) mod 256]
      with (le_bytes 4 r).
    rewrite from_le_le_bytes. change (2 ^ (8 * Z.of_nat 4)) with 4294967296. f_equal. case_if; lia.
  - case_if; [|discriminate]. intros H; inv H. unfold fits_i8 in *. cbn [le_bytes rel_offset]. f_equal. case_if; lia.
Qed.

Lemma jump_offset_enc long r ps cip len : rel_enc long r = Some ps -> 0 <= cip + r <= len ->
  jump_offset cip len ps = Some (cip + r).
Proof.
  intros H Hr. unfold jump_offset. rewrite (rel_offset_enc _ _ _ H).
  replace ((cip + r <? 0) || (len <? cip + r)) with false by lia. reflexivity.
Qed.

Lemma jump_enc_inv tgt n o long i sop lop t op ps : jump_of i = Some (sop, lop, t) ->
  enc tgt n o long i = Some (op, ps) ->
  (t < n)%nat /\ rel_enc long (tgt t - o) = Some ps /\ op = if long then lop else sop.
Proof.
  intros Hj He. destruct i; try discriminate Hj; cbn [enc] in He; rewrite Hj in He;
    (case_hyp He; [|discriminate]);
    (destruct (rel_enc long (tgt t - o)) eqn:E; [|discriminate]); inv He;
    (split; [apply Nat.ltb_lt; assumption|split; reflexivity]).
Qed.

Lemma ref_remove_prims : forall (l : list val) fuel r, (length l < fuel)%nat ->
  ref_remove_wl fuel [] r (map item_of l) = ([], r - zlen l).
Proof.
  induction l as [|v l IH]; intros fuel r H; destruct fuel; try (simpl in H; lia).
  - simpl. rewrite zlen_nil. f_equal. lia.
  - cbn [map ref_remove_wl]. rewrite prim_cloc. rewrite IH by (simpl in H; lia). rewrite zlen_cons. f_equal. lia.
Qed.

Lemma clear_slot_of l r : clear_slot (slot_of l) ([], r) = ([], r - zlen l).
Proof.
  destruct l as [|v l]; [cbn; rewrite zlen_nil; f_equal; lia|].
  unfold slot_of, clear_slot, ref_remove_list. cbn [fst snd]. apply ref_remove_prims.
  unfold ref_fuel. rewrite map_length. lia.
Qed.

Lemma frames_size_nonneg cs : 0 <= frames_size cs.
Proof.
  induction cs as [|f t IH]; simpl; [lia|]. unfold frame_size.
  pose proof (zlen_nonneg (f_locs f)). pose proof (zlen_nonneg (Target.f_args f)). lia.
Qed.

Section Refine.
Variables (ws : list bool) (P : code) (bs : list Z) (sid : N) (base limit : Z).
Hypothesis Hasm : assemble_with ws P = Some bs.
Hypothesis Hbase : 0 <= base.

Definition offs (k : nat) : Z := off ws P k.
Definition frame_of (f : Target.frame) : Model.frame :=
  mkFrame (offs (f_pc f)) (slot_of (f_locs f)) (slot_of (Target.f_args f)) [] (-1).
Definition vm_at (st : Target.state) (ip g : Z) : Model.state :=
  mkState (mkFrame ip (slot_of (locs st)) (slot_of (args st)) [] (-1))
          (mkScript bs sid None (map item_of (stk st)) false)
          (map frame_of (callers st)) [] [] (footprint st) None g limit base.
Definition vm_of (st : Target.state) (g : Z) : Model.state := vm_at st (offs (pc st)) g.

Definition pcs_ok (st : Target.state) : Prop :=
  (pc st <= length P)%nat /\ Forall (fun f => (f_pc f <= length P)%nat) (callers st).
(* gas: unlimited, or enough for k more instructions at the highest price of the subset *)
Definition gas_ok (g : Z) (k : nat) : Prop := limit < 0 \/ g + Z.of_nat k * (max_coeff * base) <= limit.

Lemma len_bs : zlen bs = offs (length P).
Proof. destruct (assemble_spec _ _ _ Hasm) as [H _]. exact H. Qed.
Lemma offs_nonneg k : 0 <= offs k.
Proof. apply off_go_nonneg. Qed.
Lemma offs_lt k : (k < length P)%nat -> offs k < zlen bs.
Proof. intros H. rewrite len_bs. apply off_go_lt. exact H. Qed.
Lemma offs_le k : offs k <= zlen bs.
Proof.
  rewrite len_bs. unfold offs, off. destruct (Nat.le_gt_cases k (length P)).
  - apply off_go_le. assumption.
  - rewrite (off_go_beyond P ws k) by lia. lia.
Qed.

Lemma view_vm_at st ip g : view (vm_at st ip g) = dview st.
Proof. reflexivity. Qed.

Lemma unview_vm_at st st' ip g : callers st' = callers st ->
  unview (vm_at st ip g) (dview st') = vm_at st' ip g.
Proof. intros H. unfold unview, vm_at, dview. cbn. rewrite H. reflexivity. Qed.

Lemma step_decoded st g i : nth_error P (pc st) = Some i -> gas_ok g 1 ->
  exists op ps, enc offs (length P) (offs (pc st)) (long_at ws (pc st)) i = Some (op, ps) /\
    0 <= price base op <= max_coeff * base /\
    Model.step (vm_of st g) =
    post (g + price base op)
         (exec_op no_sys (offs (pc st)) op ps (vm_at st (offs (S (pc st))) (g + price base op))).
Proof.
  intros Hi Hg. destruct (assemble_spec _ _ _ Hasm) as [_ Hn].
  destruct (Hn _ _ Hi) as (op & ps & He & Hs). exists op, ps. split; [exact He|].
  destruct (enc_operand _ _ _ _ _ _ _ He) as [Hop Hco].
  assert (Hpr : 0 <= price base op <= max_coeff * base) by (unfold price; nia).
  split; [exact Hpr|].
  pose proof (decode_at bs (offs (pc st)) op ps _ (offs_nonneg _) Hs Hop) as Hd.
  assert (Hnext : offs (pc st) + 1 + Z.of_nat (length ps) = offs (S (pc st))).
  { unfold offs, off. rewrite (off_go_S P ws (pc st) i Hi).
    rewrite <- (enc_size _ _ _ _ _ _ _ He). lia. }
  rewrite Hnext in Hd.
  unfold Model.step, step_with, vm_of. cbn [vm_at s_fr f_ip s_sc sc_prog s_gas s_base s_limit].
  rewrite Hd.
  replace ((0 <=? limit) && (limit <? g + price base op)) with false
    by (unfold gas_ok in Hg; lia).
  reflexivity.
Qed.

Definition sim_res (st : Target.state) (g : Z) (t : sres) : Prop :=
  match t with
  | Next st' => within st' = true ->
      exists g', Model.step (vm_of st g) = Running (vm_of st' g') /\ g <= g' <= g + max_coeff * base /\ pcs_ok st'
  | Halt rs => exists s', Model.step (vm_of st g) = Halted s' /\ final_stack s' = map item_of rs
  | SFault => exists g', Model.step (vm_of st g) = Faulted g'
  end.

Lemma within_refs st : within st = true -> (MaxStackSize <? footprint st) = false.
Proof. unfold within. intros H. lia. Qed.

Lemma step_data st g i : nth_error P (pc st) = Some i -> data_ok i = true ->
  pcs_ok st -> within st = true -> gas_ok g 1 -> sim_res st g (exec_instr i st).
Proof.
  intros Hi Hd Hpc Hw Hg.
  destruct (step_decoded st g i Hi Hg) as (op & ps & He & Hpr & Hstep).
  assert (Hfp : footprint st <= MaxStackSize) by (unfold within in Hw; lia).
  destruct (data_sim _ _ _ _ _ _ _ (mkEnv (offs (pc st)) (prog_len (vm_at st (offs (S (pc st))) (g + price base op))) sid) st Hd He Hfp)
    as [Hc Hsim].
  rewrite exec_op_data in Hstep by exact Hc. rewrite view_vm_at in Hstep.
  change (sc_sid (s_sc (vm_at st (offs (S (pc st))) (g + price base op)))) with sid in Hstep.
  destruct (exec_instr i st) as [st'| |]; cbn [dsim sim_res] in *.
  - destruct Hsim as (Hx & Hpc' & Hcs). intros Hw'. rewrite Hx in Hstep.
    rewrite unview_vm_at in Hstep by exact Hcs.
    exists (g + price base op). split; [|split; [lia|]].
    + rewrite Hstep. unfold post. change (s_refs (vm_at st' _ _)) with (footprint st').
      rewrite within_refs by exact Hw'. unfold vm_of. rewrite Hpc'. reflexivity.
    + destruct Hpc as [Hp Hf]. split; [|rewrite Hcs; exact Hf].
      rewrite Hpc'. apply nth_error_Some_lt in Hi. lia.
  - contradiction.
  - rewrite Hsim in Hstep. eexists. exact Hstep.
Qed.

Lemma unview_with_stk st s ip g : unview (vm_at st ip g) (dview (with_stk st s)) = vm_at (with_stk st s) ip g.
Proof. apply unview_vm_at. reflexivity. Qed.

Lemma set_ip_vm_at st ip ip' g : set_ip (vm_at st ip g) ip' = vm_at st ip' g.
Proof. reflexivity. Qed.

Lemma prog_len_vm_at st ip g : prog_len (vm_at st ip g) = zlen bs.
Proof. reflexivity. Qed.

Lemma step_jump st g i sop lop t : nth_error P (pc st) = Some i -> is_jump i = true ->
  jump_of i = Some (sop, lop, t) ->
  pcs_ok st -> within st = true -> gas_ok g 1 -> sim_res st g (exec_instr i st).
Proof.
  intros Hi Hj Ht Hpc Hw Hg.
  destruct (step_decoded st g i Hi Hg) as (op & ps & He & Hpr & Hstep).
  destruct (jump_enc_inv _ _ _ _ _ _ _ _ _ _ Ht He) as (Htn & Hrel & Hop).
  assert (Hjo : jump_offset (offs (pc st)) (zlen bs) ps = Some (offs t)).
  { rewrite (jump_offset_enc _ _ _ _ _ Hrel).
    - f_equal. lia.
    - pose proof (offs_nonneg t). pose proof (offs_le t). lia. }
  assert (Hx : exec_op no_sys (offs (pc st)) op ps (vm_at st (offs (S (pc st))) (g + price base op)) =
               match jump_cond op (dview st) with
               | None => XFault
               | Some (c, d) =>
                   let s := unview (vm_at st (offs (S (pc st))) (g + price base op)) d in
                   if c then xopt (Model.jump s (offs t)) else XNext s
               end).
  { subst op. unfold exec_op. rewrite prog_len_vm_at, Hjo, view_vm_at.
    destruct i; try discriminate Hj; cbn [jump_of] in Ht; inv Ht; destruct (long_at ws (pc st)); try reflexivity;
      destruct c; reflexivity. }
  rewrite Hx in Hstep. clear Hx. subst op.
  rewrite (jump_cond_sim i sop lop t _ st Hj Ht) in Hstep.
  rewrite (jump_target_exec i sop lop t st Hj Ht).
  destruct (jcond i (stk st)) as [[c s]|].
  - cbv zeta in Hstep. rewrite unview_with_stk in Hstep.
    destruct c.
    + unfold Model.jump in Hstep. rewrite prog_len_vm_at in Hstep.
      replace (jump_ok (zlen bs) (offs t)) with true in Hstep
        by (unfold jump_ok; pose proof (offs_nonneg t); pose proof (offs_lt t Htn); lia).
      cbn [xopt sim_res Target.jump]. intros Hw'.
      match type of Hstep with _ = post ?G _ => exists G end. split; [|split; [lia|]].
      * rewrite Hstep, set_ip_vm_at. cbn [xopt post].
        change (vm_at (with_stk st s) (offs t) ?G) with (vm_of (St t (locs st) (args st) s (callers st)) G).
        change (s_refs (vm_of ?S _)) with (footprint S).
        rewrite within_refs by exact Hw'. reflexivity.
      * destruct Hpc as [Hp Hf]. split; [cbn [pc]; lia|exact Hf].
    + cbn [sim_res set_stk]. intros Hw'.
      match type of Hstep with _ = post ?G _ => exists G end. split; [|split; [lia|]].
      * rewrite Hstep. unfold post.
        change (s_refs (vm_at (with_stk st s) _ _)) with (footprint (St (S (pc st)) (locs st) (args st) s (callers st))).
        rewrite within_refs by exact Hw'. reflexivity.
      * destruct Hpc as [Hp Hf]. split; [|exact Hf]. cbn [pc]. apply nth_error_Some_lt in Hi. lia.
  - cbn [sim_res]. eexists. exact Hstep.
Qed.

Lemma step_call st g t : nth_error P (pc st) = Some (ICall t) ->
  pcs_ok st -> within st = true -> gas_ok g 1 -> sim_res st g (exec_instr (ICall t) st).
Proof.
  intros Hi Hpc Hw Hg.
  destruct (step_decoded st g _ Hi Hg) as (op & ps & He & Hpr & Hstep).
  destruct (jump_enc_inv _ _ _ _ (ICall t) CALL CALLL t _ _ eq_refl He) as (Htn & Hrel & Hop).
  assert (Hjo : jump_offset (offs (pc st)) (zlen bs) ps = Some (offs t)).
  { rewrite (jump_offset_enc _ _ _ _ _ Hrel).
    - f_equal. lia.
    - pose proof (offs_nonneg t). pose proof (offs_le t). lia. }
  assert (Hx : exec_op no_sys (offs (pc st)) op ps (vm_at st (offs (S (pc st))) (g + price base op)) =
               xopt (Model.call (vm_at st (offs (S (pc st))) (g + price base op)) (offs t))).
  { subst op. unfold exec_op. rewrite prog_len_vm_at, Hjo. destruct (long_at ws (pc st)); reflexivity. }
  rewrite Hx in Hstep. clear Hx.
  cbn [exec_instr sim_res]. intros Hw'.
  unfold Model.call in Hstep. rewrite prog_len_vm_at in Hstep.
  assert (Hdepth : (MaxInvocationStackSize <=? depth (vm_at st (offs (S (pc st))) (g + price base op))) = false).
  { unfold depth. cbn [vm_at s_frames s_outer outer_depth]. rewrite zlen_map.
    unfold within in Hw'. cbn [callers] in Hw'. rewrite zlen_cons in Hw'. lia. }
  rewrite Hdepth in Hstep.
  replace (jump_ok (zlen bs) (offs t)) with true in Hstep
    by (unfold jump_ok; pose proof (offs_nonneg t); pose proof (offs_lt t Htn); lia).
  cbn [negb xopt post] in Hstep.
  exists (g + price base op). split; [|split; [lia|]].
  - rewrite Hstep. cbn [vm_at s_refs s_fr s_sc s_frames s_outer s_heap s_exc s_gas s_limit s_base].
    assert (Hfp : footprint (St t [] [] (stk st) (Frame (S (pc st)) (locs st) (args st) :: callers st)) = footprint st).
    { unfold footprint. cbn [stk locs args callers frames_size]. unfold frame_size. cbn [f_locs Target.f_args].
      rewrite zlen_nil. lia. }
    rewrite <- Hfp. rewrite within_refs by exact Hw'. unfold vm_of, vm_at. cbn [pc locs args stk callers slot_of map frame_of f_pc f_locs Target.f_args].
    reflexivity.
  - destruct Hpc as [Hp Hf]. split; [cbn [pc]; lia|]. cbn [callers]. constructor; [|exact Hf].
    cbn [f_pc]. apply nth_error_Some_lt in Hi. lia.
Qed.

(* RET, and the implicit RET at the end of the script *)
Lemma do_ret_sim st ip g :
  pcs_ok st -> within st = true ->
  match exec_instr IRet st with
  | Next st' => post g (do_ret (vm_at st ip g)) = Running (vm_of st' g) /\ pcs_ok st'
  | Halt rs => exists s', post g (do_ret (vm_at st ip g)) = Halted s' /\ final_stack s' = map item_of rs
  | SFault => False
  end.
Proof.
  intros Hpc Hw. destruct st as [pc0 locs0 args0 stk0 cs0]. cbn [exec_instr callers].
  assert (Hfp : footprint (St pc0 locs0 args0 stk0 cs0) <= MaxStackSize) by (unfold within in Hw; lia).
  unfold footprint in Hfp. cbn [stk locs args callers] in Hfp.
  pose proof (zlen_nonneg locs0). pose proof (zlen_nonneg args0). pose proof (zlen_nonneg stk0).
  unfold do_ret, unload, vm_at. cbn [s_frames s_fr s_sc s_outer s_heap s_refs f_local Model.f_args callers locs args stk map].
  destruct cs0 as [|fr k].
  - cbn [map]. rewrite !clear_slot_of. cbn [fst snd post s_refs sc_static clear_slot]. cbn [frames_size] in Hfp.
    replace (MaxStackSize <? _) with false by (unfold footprint; cbn [stk locs args callers frames_size]; lia).
    eexists. split; [reflexivity|]. reflexivity.
  - cbn [map]. rewrite !clear_slot_of. cbn [fst snd post s_refs].
    pose proof (frames_size_nonneg (fr :: k)).
    replace (MaxStackSize <? _) with false by (unfold footprint; cbn [stk locs args callers]; lia).
    split.
    + f_equal. unfold vm_of, vm_at. cbn [pc locs args stk callers f_pc f_locs Target.f_args frame_of s_exc s_gas s_limit s_base].
      f_equal. unfold footprint. cbn [stk locs args callers frames_size]. unfold frame_size. lia.
    + destruct Hpc as [Hp Hf]. cbn [callers] in Hf. inv Hf. split; [cbn [pc]; assumption|cbn [callers]; assumption].
Qed.

Lemma step_ret st g : nth_error P (pc st) = Some IRet ->
  pcs_ok st -> within st = true -> gas_ok g 1 -> sim_res st g (exec_instr IRet st).
Proof.
  intros Hi Hpc Hw Hg.
  destruct (step_decoded st g _ Hi Hg) as (op & ps & He & Hpr & Hstep).
  cbn [enc] in He. inv He.
  change (exec_op no_sys (offs (pc st)) RET [] ?s) with (do_ret s) in Hstep.
  pose proof (do_ret_sim st (offs (S (pc st))) (g + price base RET) Hpc Hw) as Hr.
  destruct (exec_instr IRet st) as [st'|rs|]; cbn [sim_res].
  - intros _. destruct Hr as [Hr Hp']. exists (g + price base RET). split; [congruence|split; [lia|exact Hp']].
  - destruct Hr as (s' & Hr & Hf). exists s'. split; [congruence|exact Hf].
  - contradiction.
Qed.

Lemma step_end st g : nth_error P (pc st) = None ->
  pcs_ok st -> within st = true -> sim_res st g (exec_instr IRet st).
Proof.
  intros Hi Hpc Hw.
  assert (Hp : pc st = length P).
  { apply nth_error_None in Hi. destruct Hpc as [Hp _]. lia. }
  assert (Hstep : Model.step (vm_of st g) = post g (do_ret (vm_of st g))).
  { unfold Model.step, step_with, vm_of. cbn [vm_at s_fr f_ip s_sc sc_prog s_gas].
    rewrite Hp. rewrite <- len_bs. rewrite decode_end. reflexivity. }
  pose proof (do_ret_sim st (offs (pc st)) g Hpc Hw) as Hr. fold (vm_of st g) in Hr.
  destruct (exec_instr IRet st) as [st'|rs|]; cbn [sim_res].
  - intros _. destruct Hr as [Hr Hp']. exists g. split; [congruence|split; [unfold max_coeff; lia|exact Hp']].
  - destruct Hr as (s' & Hr & Hf). exists s'. split; [congruence|exact Hf].
  - contradiction.
Qed.

Theorem step_sim st g : pcs_ok st -> within st = true -> gas_ok g 1 -> sim_res st g (Target.step P st).
Proof.
  intros Hpc Hw Hg. unfold Target.step. destruct (nth_error P (pc st)) as [i|] eqn:Hi.
  - destruct (data_ok i) eqn:Hd; [apply step_data; assumption|].
    destruct i; try discriminate Hd.
    + eapply step_jump; try eassumption; reflexivity.
    + eapply step_jump; try eassumption; reflexivity.
    + eapply step_jump; try eassumption; reflexivity.
    + eapply step_jump; try eassumption; reflexivity.
    + apply step_call; assumption.
    + apply step_ret; assumption.
  - assert (Hp : pc st = length P).
    { apply nth_error_None in Hi. destruct Hpc as [Hp _]. lia. }
    rewrite Hp, Nat.eqb_refl. apply step_end; assumption.
Qed.

Theorem run_sim : forall n st g, pcs_ok st -> safe P n st = true -> gas_ok g n ->
  match Target.run P n st with
  | THalt rs => exists s', Model.run n (vm_of st g) = Halted s' /\ final_stack s' = map item_of rs
  | TFault => exists g', Model.run n (vm_of st g) = Faulted g'
  | TTimeout => exists st' g', Model.run n (vm_of st g) = Running (vm_of st' g')
  end.
Proof.
  induction n as [|n IH]; intros st g Hpc Hs Hg.
  - simpl. exists st, g. reflexivity.
  - cbn [safe] in Hs. apply andb_prop in Hs. destruct Hs as [Hw Hs].
    assert (Hg1 : gas_ok g 1) by (unfold gas_ok, max_coeff in *; nia).
    pose proof (step_sim st g Hpc Hw Hg1) as H1.
    cbn [Target.run Model.run]. destruct (Target.step P st) as [st'|rs|]; cbn [sim_res] in H1.
    + assert (Hw' : within st' = true) by (destruct n; cbn [safe] in Hs; apply andb_prop in Hs; tauto).
      destruct (H1 Hw') as (g' & Hst & Hgg & Hpc'). rewrite Hst.
      apply IH; [exact Hpc'|exact Hs|]. unfold gas_ok, max_coeff in *. nia.
    + destruct H1 as (s' & Hst & Hf). rewrite Hst. exists s'. split; [reflexivity|exact Hf].
    + destruct H1 as (g' & Hst). rewrite Hst. exists g'. reflexivity.
Qed.
End Refine.

(* ---------- the initial state: the script loaded, the arguments pushed (last one first), entered at an offset ---------- *)
Definition vm_entry (bs : list Z) (sid : N) (base limit : Z) (ip : Z) (vs : list item) : Model.state :=
  fold_right seed_push (set_ip (Model.init_state bs sid base limit) ip) vs.

Lemma vm_entry_of ws P bs sid base limit entry vs :
  vm_entry bs sid base limit (off ws P entry) (map item_of vs)
  = vm_of ws P bs sid base limit (Target.init_state entry vs) 0.
Proof.
  unfold vm_entry. induction vs as [|v vs IH].
  - reflexivity.
  - cbn [map fold_right]. rewrite IH. unfold seed_push, vm_of. rewrite view_vm_at.
    unfold dview. rewrite push_prim by apply prim_cloc.
    unfold unview, vm_at, Target.init_state. cbn. f_equal. unfold footprint. cbn [stk locs args callers frames_size].
    rewrite zlen_cons. lia.
Qed.

Definition gas_enough (n : nat) (base limit : Z) : Prop :=
  limit < 0 \/ Z.of_nat n * (max_coeff * base) <= limit.

Theorem target_refines_vm ws P bs sid base limit entry vs n :
  assemble_with ws P = Some bs -> 0 <= base -> (entry <= length P)%nat ->
  safe P n (Target.init_state entry vs) = true ->
  gas_enough n base limit ->
  match run_tgt P n entry vs with
  | THalt rs => exists s', Model.run n (vm_entry bs sid base limit (off ws P entry) (map item_of vs)) = Halted s'
                           /\ final_stack s' = map item_of rs
  | TFault => exists g, Model.run n (vm_entry bs sid base limit (off ws P entry) (map item_of vs)) = Faulted g
  | TTimeout => exists s', Model.run n (vm_entry bs sid base limit (off ws P entry) (map item_of vs)) = Running s'
  end.
Proof.
  intros Hasm Hb He Hs Hg. rewrite vm_entry_of. unfold run_tgt.
  assert (Hpc : pcs_ok P (Target.init_state entry vs)) by (split; [exact He|constructor]).
  pose proof (run_sim ws P bs sid base limit Hasm Hb n (Target.init_state entry vs) 0 Hpc Hs) as H.
  assert (Hg' : gas_ok base limit 0 n) by (unfold gas_ok, gas_enough in *; lia).
  specialize (H Hg'). destruct (Target.run P n (Target.init_state entry vs)); [exact H|exact H|].
  destruct H as (st' & g' & H). eexists. exact H.
Qed.

(* the other direction: what the VM model run ends with is what the Target run ends with *)
Theorem vm_reflects_target ws P bs sid base limit entry vs n :
  assemble_with ws P = Some bs -> 0 <= base -> (entry <= length P)%nat ->
  safe P n (Target.init_state entry vs) = true ->
  gas_enough n base limit ->
  match Model.run n (vm_entry bs sid base limit (off ws P entry) (map item_of vs)) with
  | Halted s' => exists rs, run_tgt P n entry vs = THalt rs /\ final_stack s' = map item_of rs
  | Faulted _ => run_tgt P n entry vs = TFault
  | Running _ => run_tgt P n entry vs = TTimeout
  end.
Proof.
  intros Hasm Hb He Hs Hg.
  pose proof (target_refines_vm ws P bs sid base limit entry vs n Hasm Hb He Hs Hg) as H.
  destruct (run_tgt P n entry vs) as [rs| |].
  - destruct H as (s' & -> & Hf). exists rs. split; [reflexivity|exact Hf].
  - destruct H as (g & ->). reflexivity.
  - destruct H as (s' & ->). reflexivity.
Qed.

(* ---------- a static sufficient condition for [safe] ----------
   One instruction adds at most max(1, locals of an INITSLOT of the program) items and at most one frame. *)
Definition max_locals (P : code) : Z :=
  fold_right (fun i m => match i with IInitSlot nl _ => Z.max (Z.of_nat nl) m | _ => m end) 1 P.

Lemma max_locals_ge1 P : 1 <= max_locals P.
Proof. induction P as [|i P IH]; simpl; [lia|]. destruct i; lia. Qed.

Lemma max_locals_in P nl na : In (IInitSlot nl na) P -> Z.of_nat nl <= max_locals P.
Proof.
  induction P as [|i P IH]; simpl; [tauto|]. intros [->|H]; [lia|].
  specialize (IH H). destruct i; lia.
Qed.

Lemma rev_top_zlen n s s' : rev_top n s = Some s' -> zlen s' = zlen s.
Proof.
  unfold rev_top. destruct (n <=? length s)%nat; [|discriminate]. intros H; inv H.
  unfold zlen. rewrite app_length, rev_length. rewrite <- (firstn_skipn n s) at 3. rewrite app_length. lia.
Qed.

Lemma zlen_list_set {A} n (v : A) l : zlen (list_set n v l) = zlen l.
Proof. unfold zlen. now rewrite list_set_length. Qed.

Ltac grow_fin :=
  unfold footprint; cbn [stk locs args callers frames_size]; unfold frame_size; cbn [f_locs Target.f_args];
  rewrite ?zlen_cons, ?zlen_nil, ?zlen_list_set; lia.

Lemma exec_growth i st st' K : 1 <= K -> (forall nl na, i = IInitSlot nl na -> Z.of_nat nl <= K) ->
  exec_instr i st = Next st' ->
  footprint st' <= footprint st + K /\ zlen (callers st') <= zlen (callers st) + 1.
Proof.
  intros HK Hi H. destruct st as [pc0 l0 a0 s0 c0].
  destruct i; cbn [exec_instr stk locs args callers pc] in H;
    unfold arith2, arith1, Target.push_int, set_stk, Target.jump in H; cbn [stk locs args callers pc] in H;
    repeat match type of H with
           | context [match ?x with _ => _ end] => destruct x eqn:?; try discriminate H
           end;
    try (inv H; split; grow_fin).
  all: try (inv H; match goal with E : rev_top _ _ = Some _ |- _ => apply rev_top_zlen in E end; split; grow_fin).
  - (* INITSLOT *) inv H. specialize (Hi _ _ eq_refl). split; [|grow_fin].
    unfold footprint. cbn [stk locs args callers]. rewrite zlen_repeat.
    pose proof (zlen_firstn_skipn na s0). rewrite !zlen_nil. lia.
  - (* RET to a caller *) inv H. pose proof (zlen_nonneg l0). pose proof (zlen_nonneg a0). split; grow_fin.
Qed.

Lemma step_growth P st st' : Target.step P st = Next st' ->
  footprint st' <= footprint st + max_locals P /\ zlen (callers st') <= zlen (callers st) + 1.
Proof.
  unfold Target.step. pose proof (max_locals_ge1 P) as HK.
  destruct (nth_error P (pc st)) as [i|] eqn:Hi.
  - apply exec_growth; [exact HK|]. intros nl na ->. apply (max_locals_in P nl na). eapply nth_error_In; eassumption.
  - destruct (pc st =? length P)%nat; [|discriminate]. apply exec_growth; [exact HK|discriminate].
Qed.

(* a run of n steps from a state with enough room stays within the limits *)
Theorem safe_of_bound P : forall n st,
  footprint st + Z.of_nat n * max_locals P <= MaxStackSize ->
  zlen (callers st) + 1 + Z.of_nat n <= MaxInvocationStackSize ->
  safe P n st = true.
Proof.
  pose proof (max_locals_ge1 P) as HK.
  induction n as [|n IH]; intros st Hf Hd; cbn [safe].
  - unfold within. apply andb_true_intro. split; lia.
  - apply andb_true_intro. split; [unfold within; apply andb_true_intro; split; nia|].
    destruct (Target.step P st) as [st'| |] eqn:Hs; try reflexivity.
    destruct (step_growth P st st' Hs) as [H1 H2]. apply IH; nia.
Qed.

