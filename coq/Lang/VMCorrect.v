(* C14 — source semantics to the NeoVM model: [compile_correct] (Lang/Correct.v, MiniGo -> Target machine)
   composed with [target_refines_vm] (Lang/VMRefine.v, Target machine -> VM/Model.v on the assembled bytes). *)
From NG Require Import VM.Model.
From NG Require Import Lang.MiniGo Lang.Target Lang.Compile Lang.CorrectBase Lang.Correct
  Lang.Assemble Lang.AssembleProofs Lang.VMRefine.
Open Scope Z_scope.

(* every entry point lies inside the compiled program (or is 0 for a function that does not exist) *)
Lemma entries_le fe fr : forall p base f d,
  (d <= base + length (compile_funcs fe fr base p))%nat ->
  (nth f (entries fr base p) d <= base + length (compile_funcs fe fr base p))%nat.
Proof.
  induction p as [|fn t IH]; intros base f d Hd.
  - destruct f; simpl in *; lia.
  - cbn [entries compile_funcs]. rewrite app_length, length_compile_func.
    destruct f as [|f]; cbn [nth]; [lia|].
    specialize (IH (base + size_func fr fn)%nat f d).
    cbn [compile_funcs] in Hd. rewrite app_length, length_compile_func in Hd. lia.
Qed.

Lemma entry_le p f : (entry p f <= length (compile_program p))%nat.
Proof.
  unfold entry, compile_program.
  pose proof (entries_le (entry p) (nres p) p 0 f 0). lia.
Qed.

(* Whenever the source run is defined, every run of the VM model on the assembled compiled code that is
   given enough steps, stays within the VM's limits ([safe]: stack items and invocation depth, checked on
   the Target run) and has the gas, ends the same way: HALT with exactly the source's values on the stack,
   respectively FAULT. *)
Theorem compile_correct_on_vm_model p f vs n ws bs sid base :
  assemble_with ws (compile_program p) = Some bs -> 0 <= base ->
  match run_src n p f vs with
  | Ok rs => exists m0, forall m limit, (m0 <= m)%nat ->
      safe (compile_program p) m (Target.init_state (entry p f) vs) = true -> gas_enough m base limit ->
      exists s', Model.run m (vm_entry bs sid base limit (off ws (compile_program p) (entry p f)) (map item_of vs))
                 = Halted s' /\ final_stack s' = map item_of rs
  | Fault => exists m0, forall m limit, (m0 <= m)%nat ->
      safe (compile_program p) m (Target.init_state (entry p f) vs) = true -> gas_enough m base limit ->
      exists g, Model.run m (vm_entry bs sid base limit (off ws (compile_program p) (entry p f)) (map item_of vs))
                = Faulted g
  | _ => True
  end.
Proof.
  intros Hasm Hb. pose proof (compile_correct p f vs n) as Hc.
  destruct (run_src n p f vs) as [rs| | |]; auto.
  - destruct Hc as (m0 & Hr). exists m0. intros m limit Hm Hs Hg.
    pose proof (target_refines_vm ws _ bs sid base limit (entry p f) vs m Hasm Hb (entry_le p f) Hs Hg) as H.
    unfold run_tgt in *. rewrite (run_mono _ _ _ _ Hr ltac:(discriminate) m Hm) in H. exact H.
  - destruct Hc as (m0 & Hr). exists m0. intros m limit Hm Hs Hg.
    pose proof (target_refines_vm ws _ bs sid base limit (entry p f) vs m Hasm Hb (entry_le p f) Hs Hg) as H.
    unfold run_tgt in *. rewrite (run_mono _ _ _ _ Hr ltac:(discriminate) m Hm) in H. exact H.
Qed.

(* ... and no run of the VM model within these conditions ends any other way, whatever the number of steps *)
Theorem compile_correct_on_vm_model_any_fuel p f vs n m ws bs sid base limit :
  assemble_with ws (compile_program p) = Some bs -> 0 <= base ->
  safe (compile_program p) m (Target.init_state (entry p f) vs) = true -> gas_enough m base limit ->
  match run_src n p f vs,
        Model.run m (vm_entry bs sid base limit (off ws (compile_program p) (entry p f)) (map item_of vs)) with
  | Ok rs, Halted s' => final_stack s' = map item_of rs
  | Ok _, Faulted _ => False
  | Fault, Halted _ => False
  | _, _ => True
  end.
Proof.
  intros Hasm Hb Hs Hg.
  pose proof (vm_reflects_target ws _ bs sid base limit (entry p f) vs m Hasm Hb (entry_le p f) Hs Hg) as H.
  destruct (Model.run m _) as [s'|s'|g].
  - destruct (run_src n p f vs); exact I.
  - destruct H as (rs' & Hr & Hf).
    pose proof (compile_correct_any_fuel p f vs n m _ Hr ltac:(discriminate)) as Ha.
    destruct (run_src n p f vs) as [rs| | |]; try exact I.
    + inv Ha. exact Hf.
    + discriminate Ha.
  - pose proof (compile_correct_any_fuel p f vs n m _ H ltac:(discriminate)) as Ha.
    destruct (run_src n p f vs) as [rs| | |]; try exact I. discriminate Ha.
Qed.

