(* C14 — facts about the assembler's layout: sizes, offsets, and where the encoding of instruction k
   sits in the assembled script. *)
From NG Require Import Common.Tactics Codec.Bigint Codec.BigintProofs gen.Opcodes Lang.MiniGo Lang.Target Lang.Assemble.
Open Scope Z_scope.

Lemma push_size_pos z : 0 < push_size z.
Proof. unfold push_size. repeat case_if; lia. Qed.

Lemma isize_pos long i : 0 < isize long i.
Proof.
  destruct i; simpl; try lia; try apply push_size_pos; unfold slot_size; repeat case_if; lia.
Qed.

Lemma push_enc_size z op ps : push_enc z = Some (op, ps) -> 1 + Z.of_nat (length ps) = push_size z.
Proof.
  unfold push_enc, push_size. repeat case_if; intros H; inv H; rewrite ?le_bytes_length; simpl; lia.
Qed.

Lemma slot_enc_size k n op ps : slot_enc k n = Some (op, ps) -> 1 + Z.of_nat (length ps) = slot_size n.
Proof. unfold slot_enc, slot_size. repeat case_if; intros H; inv H; simpl; lia. Qed.

Lemma rel_enc_length long r ps : rel_enc long r = Some ps -> Z.of_nat (length ps) = if long then 4 else 1.
Proof. unfold rel_enc. destruct long; case_if; intros H; inv H; reflexivity. Qed.

Ltac case_hyp H :=
  match type of H with context [if ?b then _ else _] => destruct b eqn:? end.
Ltac enc_jump H E long :=
  case_hyp H; [|discriminate];
  match type of H with context [rel_enc ?l ?r] => destruct (rel_enc l r) eqn:E; [|discriminate] end;
  apply rel_enc_length in E; inv H; destruct long; lia.

Lemma enc_size tgt n o long i op ps :
  enc tgt n o long i = Some (op, ps) -> 1 + Z.of_nat (length ps) = isize long i.
Proof.
  destruct i; intros H; cbn [enc isize jump_of] in *;
    try (inv H; reflexivity);
    try (eapply push_enc_size; eassumption);
    try (eapply slot_enc_size; eassumption).
  - case_hyp H; inv H; reflexivity.
  - enc_jump H E long.
  - enc_jump H E long.
  - enc_jump H E long.
  - enc_jump H E long.
  - enc_jump H E long.
Qed.

(* ---------- offsets ---------- *)
Lemma long_at_S ws k : long_at ws (S k) = long_at (tl ws) k.
Proof. unfold long_at. destruct ws; simpl; [destruct k; reflexivity|reflexivity]. Qed.
Lemma long_at_0 ws : long_at ws 0 = hd true ws.
Proof. destruct ws; reflexivity. Qed.

Lemma off_go_nonneg : forall P ws k, 0 <= off_go ws P k.
Proof.
  induction P as [|i P IH]; intros ws k; destruct k; simpl; try lia.
  pose proof (isize_pos (hd true ws) i). pose proof (IH (tl ws) k). lia.
Qed.

Lemma off_go_S : forall P ws k i, nth_error P k = Some i ->
  off_go ws P (S k) = off_go ws P k + isize (long_at ws k) i.
Proof.
  induction P as [|j P IH]; intros ws k i H; destruct k; simpl in H; try discriminate.
  - inv H. rewrite long_at_0. simpl. destruct P; simpl; lia.
  - change (off_go ws (j :: P) (S (S k))) with (isize (hd true ws) j + off_go (tl ws) P (S k)).
    change (off_go ws (j :: P) (S k)) with (isize (hd true ws) j + off_go (tl ws) P k).
    rewrite (IH (tl ws) k i H), long_at_S. lia.
Qed.

Lemma off_go_le : forall P ws k k', (k <= k')%nat -> off_go ws P k <= off_go ws P k'.
Proof.
  induction P as [|j P IH]; intros ws k k' H; destruct k, k'; simpl; try lia.
  - pose proof (isize_pos (hd true ws) j). pose proof (off_go_nonneg P (tl ws) k'). lia.
  - pose proof (IH (tl ws) k k'). lia.
Qed.

Lemma off_go_lt ws P k : (k < length P)%nat -> off_go ws P k < off_go ws P (length P).
Proof.
  intros H. destruct (nth_error P k) as [i|] eqn:E; [|apply nth_error_None in E; lia].
  pose proof (off_go_S P ws k i E). pose proof (isize_pos (long_at ws k) i).
  pose proof (off_go_le P ws (S k) (length P)). lia.
Qed.

Lemma off_go_beyond : forall P ws k, (length P <= k)%nat -> off_go ws P k = off_go ws P (length P).
Proof.
  induction P as [|j P IH]; intros ws k H; destruct k; simpl in *; try lia.
  rewrite (IH (tl ws) k) by lia. reflexivity.
Qed.

Lemma off_0 ws P : off ws P 0 = 0.
Proof. unfold off. destruct P; reflexivity. Qed.

(* ---------- skipn ---------- *)
Lemma skipn_app_plus {A} (l1 r : list A) x : 0 <= x ->
  skipn (Z.to_nat (Z.of_nat (length l1) + x)) (l1 ++ r) = skipn (Z.to_nat x) r.
Proof.
  intros Hx. replace (Z.to_nat (Z.of_nat (length l1) + x)) with (length l1 + Z.to_nat x)%nat by lia.
  induction l1; simpl; [reflexivity|assumption].
Qed.

(* ---------- the encoding of instruction k inside the script ---------- *)
Lemma asm_go_spec tgt n : forall P ws o bs, asm_go tgt n ws o P = Some bs ->
  Z.of_nat (length bs) = off_go ws P (length P) /\
  forall k i, nth_error P k = Some i -> exists op ps,
    enc tgt n (o + off_go ws P k) (long_at ws k) i = Some (op, ps) /\
    skipn (Z.to_nat (off_go ws P k)) bs
    = byte_of_opcode op :: ps ++ skipn (Z.to_nat (off_go ws P (S k))) bs.
Proof.
  induction P as [|j P IH]; intros ws o bs H.
  - simpl in H. inv H. split; [reflexivity|]. intros [|k] i Hk; discriminate.
  - simpl in H.
    destruct (enc tgt n o (hd true ws) j) as [[op ps]|] eqn:Ee; [|discriminate].
    destruct (asm_go tgt n (tl ws) (o + isize (hd true ws) j) P) as [r|] eqn:Er; [|discriminate].
    inv H. destruct (IH _ _ _ Er) as [Hlen Hnth].
    pose proof (enc_size _ _ _ _ _ _ _ Ee) as Hsz.
    split.
    + cbn [length off_go]. rewrite app_length. lia.
    + intros [|k] i Hk.
      * simpl in Hk. inv Hk. exists op, ps. rewrite long_at_0.
        replace (off_go ws (i :: P) 0) with 0 by reflexivity. rewrite Z.add_0_r. split; [assumption|].
        change (skipn (Z.to_nat 0) ?l) with l. f_equal. f_equal.
        replace (off_go ws (i :: P) 1) with (isize (hd true ws) i)
          by (destruct P; simpl; lia).
        rewrite <- Hsz. change (byte_of_opcode op :: ps ++ r) with ((byte_of_opcode op :: ps) ++ r).
        replace (1 + Z.of_nat (length ps)) with (Z.of_nat (length (byte_of_opcode op :: ps)) + 0)
          by (simpl length; lia).
        rewrite skipn_app_plus by lia. reflexivity.
      * simpl in Hk. destruct (Hnth k i Hk) as (op' & ps' & He' & Hs').
        exists op', ps'.
        change (off_go ws (j :: P) (S k)) with (isize (hd true ws) j + off_go (tl ws) P k).
        change (off_go ws (j :: P) (S (S k))) with (isize (hd true ws) j + off_go (tl ws) P (S k)).
        rewrite long_at_S.
        split.
        -- rewrite <- He'. f_equal. lia.
        -- change (byte_of_opcode op :: ps ++ r) with ((byte_of_opcode op :: ps) ++ r).
           rewrite <- Hsz.
           replace (1 + Z.of_nat (length ps)) with (Z.of_nat (length (byte_of_opcode op :: ps)))
             by (simpl length; lia).
           rewrite !skipn_app_plus by apply off_go_nonneg. exact Hs'.
Qed.

Lemma assemble_spec ws P bs : assemble_with ws P = Some bs ->
  Z.of_nat (length bs) = off ws P (length P) /\
  forall k i, nth_error P k = Some i -> exists op ps,
    enc (off ws P) (length P) (off ws P k) (long_at ws k) i = Some (op, ps) /\
    skipn (Z.to_nat (off ws P k)) bs = byte_of_opcode op :: ps ++ skipn (Z.to_nat (off ws P (S k))) bs.
Proof.
  intros H. destruct (asm_go_spec _ _ _ _ _ _ H) as [Hl Hn]. split; [exact Hl|].
  intros k i Hk. destruct (Hn k i Hk) as (op & ps & He & Hs). exists op, ps.
  rewrite Z.add_0_l in He. split; assumption.
Qed.
