(* C14 — correctness of the model compiler (Lang/Compile.v) with respect to the MiniGo semantics
   (Lang/MiniGo.v) and the target machine (Lang/Target.v): a forward simulation, by induction on the
   fuel of the source evaluation, covering results [Ok] (same value) and [Fault] (the machine faults). *)
From NG Require Import Common.Tactics Lang.MiniGo Lang.Target Lang.Compile Lang.CorrectBase.
Open Scope nat_scope.

(* ---------- arithmetic side conditions ---------- *)
Lemma in64_fits256 z : in64 z = true -> fits256 z = true.
Proof.
  unfold in64, fits256. intros H.
  assert (- 2 ^ 255 <= - 2 ^ 63)%Z by (vm_compute; discriminate).
  assert (2 ^ 63 <= 2 ^ 255)%Z by (vm_compute; discriminate).
  lia.
Qed.

Lemma ret64_ok z v : ret64 z = Ok v -> v = VInt z /\ fits256 z = true.
Proof. unfold ret64. destruct (in64 z) eqn:E; intros H; inv H. split; auto using in64_fits256. Qed.

Lemma ret64_cases z : (ret64 z = Ok (VInt z) /\ fits256 z = true) \/ ret64 z = Undef.
Proof. unfold ret64. destruct (in64 z) eqn:E; auto using in64_fits256. Qed.

Lemma fits256_small k : k <= 255 -> fits256 (Z.of_nat k) = true.
Proof.
  intros H. unfold fits256.
  assert (- 2 ^ 255 <= 0)%Z by (vm_compute; discriminate).
  assert (256 <= 2 ^ 255)%Z by (vm_compute; discriminate).
  lia.
Qed.

Lemma cmp_eval_neg c a b : cmp_eval (cmp_neg c) a b = negb (cmp_eval c a b).
Proof. destruct c; simpl; try rewrite negb_involutive; lia. Qed.

Lemma star_eq C s1 s2 s2' : star C s1 s2 -> s2 = s2' -> star C s1 s2'.
Proof. intros H <-; exact H. Qed.

Lemma update_lookup x v r r' : update x v r = Some r' -> exists w, lookup x r = Some w.
Proof.
  revert r'; induction r as [|[y w] r IH]; simpl; intros r' H; [congruence|].
  destruct (N.eqb x y); eauto. destruct (update x v r); [|congruence]. eauto.
Qed.

Lemma clookup_slot_of g x sl : clookup x g = Some sl -> slot_of g x = sl.
Proof. unfold slot_of; intros ->; reflexivity. Qed.

Lemma length_slot_set sl v L A :
  length (fst (slot_set sl v L A)) = length L /\ length (snd (slot_set sl v L A)) = length A.
Proof. destruct sl; simpl; rewrite ?length_list_set; auto. Qed.

(* ---------- one instruction at a time ---------- *)
Section Instr.
Variable C : code.

Ltac one H := apply star_one; unfold step; simpl pc; rewrite H; simpl.

Lemma x_push q z L A s K : nth_error C q = Some (IPush z) -> fits256 z = true ->
  star C (St q L A s K) (St (S q) L A (VInt z :: s) K).
Proof. intros H Hz. one H. unfold push_int. simpl. rewrite Hz. reflexivity. Qed.

Lemma x_pushb q b L A s K : nth_error C q = Some (IPushB b) ->
  star C (St q L A s K) (St (S q) L A (VBool b :: s) K).
Proof. intros H. one H. reflexivity. Qed.

Lemma x_load q sl v L A s K : nth_error C q = Some (load sl) -> slot_get sl L A = Some v ->
  star C (St q L A s K) (St (S q) L A (v :: s) K).
Proof. intros H Hv. one H. destruct sl; simpl in *; rewrite Hv; reflexivity. Qed.

Lemma x_store q sl v L A s K : nth_error C q = Some (store sl) -> slot_ok sl L A ->
  star C (St q L A (v :: s) K) (St (S q) (fst (slot_set sl v L A)) (snd (slot_set sl v L A)) s K).
Proof.
  intros H Hok. one H. destruct sl; simpl in *;
  match goal with |- context [(?n <? ?m)] => destruct (Nat.ltb_spec n m); [reflexivity|lia] end.
Qed.

Lemma x_stloc q n v L A s K : nth_error C q = Some (IStLoc n) -> n < length L ->
  star C (St q L A (v :: s) K) (St (S q) (list_set n v L) A s K).
Proof. intros H Hn. apply (x_store q (SLoc n) v L A s K H Hn). Qed.

Lemma x_neg q z L A s K : nth_error C q = Some INegate -> fits256 (- z) = true ->
  star C (St q L A (VInt z :: s) K) (St (S q) L A (VInt (- z) :: s) K).
Proof. intros H Hz. one H. unfold arith1, push_int; simpl. rewrite Hz. reflexivity. Qed.

Lemma x_inc q z L A s K : nth_error C q = Some IInc -> fits256 (z + 1) = true ->
  star C (St q L A (VInt z :: s) K) (St (S q) L A (VInt (z + 1) :: s) K).
Proof. intros H Hz. one H. unfold arith1, push_int; simpl. rewrite Hz. reflexivity. Qed.

Lemma x_dec q z L A s K : nth_error C q = Some IDec -> fits256 (z - 1) = true ->
  star C (St q L A (VInt z :: s) K) (St (S q) L A (VInt (z - 1) :: s) K).
Proof. intros H Hz. one H. unfold arith1, push_int; simpl. rewrite Hz. reflexivity. Qed.

Lemma x_not q b L A s K : nth_error C q = Some INot ->
  star C (St q L A (VBool b :: s) K) (St (S q) L A (VBool (negb b) :: s) K).
Proof. intros H. one H. reflexivity. Qed.

Lemma x_drop q v L A s K : nth_error C q = Some IDrop ->
  star C (St q L A (v :: s) K) (St (S q) L A s K).
Proof. intros H. one H. reflexivity. Qed.

Lemma x_jmp q t L A s K : nth_error C q = Some (IJmp t) -> star C (St q L A s K) (St t L A s K).
Proof. intros H. one H. reflexivity. Qed.

Lemma x_jmp_on q cond t b L A s K : nth_error C q = Some (jmp_on cond t) ->
  star C (St q L A (VBool b :: s) K) (St (if Bool.eqb b cond then t else S q) L A s K).
Proof. intros H. one H. destruct cond, b; reflexivity. Qed.

Lemma x_jmpifnot q t b L A s K : nth_error C q = Some (IJmpIfNot t) ->
  star C (St q L A (VBool b :: s) K) (St (if b then S q else t) L A s K).
Proof. intros H. one H. destruct b; reflexivity. Qed.

Lemma x_binop q op a b v L A s K : nth_error C q = Some (op_instr op) -> arith op a b = Ok v ->
  star C (St q L A (VInt b :: VInt a :: s) K) (St (S q) L A (v :: s) K).
Proof.
  intros H Hv. one H. destruct op; simpl in *; unfold arith2, push_int; simpl;
    try (apply ret64_ok in Hv; destruct Hv as [-> Hz]; rewrite Hz; reflexivity);
    try (destruct (b =? 0)%Z; [discriminate|]; apply ret64_ok in Hv; destruct Hv as [-> Hz]; rewrite Hz; reflexivity);
    inv Hv; reflexivity.
Qed.

Lemma x_binop_fault q op a b L A s K : nth_error C q = Some (op_instr op) -> arith op a b = Fault ->
  goes_wrong C (St q L A (VInt b :: VInt a :: s) K).
Proof.
  intros H Hv. eexists; split; [apply star_refl|]. unfold step; simpl pc; rewrite H.
  destruct op; simpl in *; unfold ret64 in Hv; try (destruct (in64 _); discriminate); try discriminate;
    unfold arith2; simpl; destruct (b =? 0)%Z; try reflexivity; destruct (in64 _); discriminate.
Qed.

Lemma x_jmpcmp q op (cond : bool) t a b bb L A s K :
  nth_error C q = Some (IJmpCmp (if cond then cmp_of op else cmp_neg (cmp_of op)) t) ->
  is_cmp op = true -> arith op a b = Ok (VBool bb) ->
  star C (St q L A (VInt b :: VInt a :: s) K) (St (if Bool.eqb bb cond then t else S q) L A s K).
Proof.
  intros H Hc Hv. one H.
  assert (E : cmp_eval (cmp_of op) a b = bb) by (destruct op; simpl in *; try discriminate; inv Hv; reflexivity).
  destruct cond; [|rewrite cmp_eval_neg]; rewrite E; destruct bb; reflexivity.
Qed.

Lemma x_call q t L A s K : nth_error C q = Some (ICall t) ->
  star C (St q L A s K) (St t [] [] s (Frame (S q) L A :: K)).
Proof. intros H. one H. reflexivity. Qed.

Lemma x_ret q L A s fr K : nth_error C q = Some IRet ->
  star C (St q L A s (fr :: K)) (St (f_pc fr) (f_locs fr) (f_args fr) s K).
Proof. intros H. one H. reflexivity. Qed.

Lemma rev_top_rev vs s : rev_top (length vs) (rev vs ++ s) = Some (vs ++ s).
Proof.
  unfold rev_top. rewrite app_length, rev_length.
  destruct (Nat.leb_spec (length vs) (length vs + length s)); [|lia].
  pose proof (rev_length vs) as E. rewrite <- E.
  rewrite firstn_app, skipn_app, firstn_all, skipn_all, Nat.sub_diag.
  simpl. rewrite app_nil_r, rev_involutive. reflexivity.
Qed.

Lemma x_reverse q vs L A s K : code_at C q (emit_reverse (length vs)) -> length vs <= 255 ->
  star C (St q L A (rev vs ++ s) K) (St (q + length (emit_reverse (length vs))) L A (vs ++ s) K).
Proof.
  intros Hc Hle.
  destruct vs as [|v1 [|v2 [|v3 [|v4 [|v5 vs]]]]].
  1-2: simpl; rewrite Nat.add_0_r; apply star_refl.
  1-3: simpl emit_reverse in *; apply code_at_cons in Hc; destruct Hc as [H _]; eapply star_eq;
       [one H; reflexivity | simpl; f_equal; lia].
  assert (Hr := rev_top_rev (v1 :: v2 :: v3 :: v4 :: v5 :: vs) s).
  remember (v1 :: v2 :: v3 :: v4 :: v5 :: vs) as l eqn:El.
  assert (Ee : emit_reverse (length l) = [IPush (Z.of_nat (length l)); IReverseN]) by (subst l; reflexivity).
  rewrite Ee in *. clear Ee El.
  apply code_at_cons in Hc; destruct Hc as [H1 Hc]. apply code_at_cons in Hc; destruct Hc as [H2 _].
  eapply star_trans; [apply x_push; [exact H1 | apply fits256_small; exact Hle]|].
  replace (q + length [IPush (Z.of_nat (length l)); IReverseN]) with (S (S q)) by (simpl; lia).
  apply star_one; unfold step; simpl pc; rewrite H2; unfold exec_instr; simpl stk; cbv iota.
  change (as_int (VInt (Z.of_nat (length l)))) with (Some (Z.of_nat (length l))). cbv iota beta.
  destruct (Z.ltb_spec (Z.of_nat (length l)) 0); [lia|]. rewrite Nat2Z.id, Hr. reflexivity.
Qed.

End Instr.

(* ---------- the simulation ---------- *)
Section Sim.
Variable p : program.
Variable C : code.
Variable fe : nat -> nat.
(* every function of the program sits at its entry point *)
Hypothesis Hfun : forall f fn, nth_error p f = Some fn -> code_at C (fe f) (compile_func fe (fe f) fn).

Definition expr_post (m : mode) (e : expr) (res : res val) (q : nat) (L A s : list val) (K : list frame) : Prop :=
  match res with
  | Ok v =>
      match m with
      | MVal => star C (St q L A s K) (St (q + size_expr false e) L A (v :: s) K)
      | MJmp cond t =>
          forall b, v = VBool b ->
          star C (St q L A s K) (St (if Bool.eqb b cond then t else q + size_expr true e) L A s K)
      end
  | Fault => goes_wrong C (St q L A s K)
  | _ => True
  end.

Definition sim_expr (n : nat) : Prop := forall r e m g q L A s K,
  menv r g L A -> code_at C q (compile_expr fe g q e m) -> expr_post m e (eval n p r e) q L A s K.

Definition sim_list (n : nat) : Prop := forall r es g q L A s K,
  menv r g L A -> code_at C q (compile_args fe g q es) ->
  match eval_list n p r es with
  | Ok vs => star C (St q L A s K) (St (q + size_args es) L A (rev vs ++ s) K)
  | Fault => goes_wrong C (St q L A s K)
  | _ => True
  end.

Definition sim_call (n : nat) : Prop := forall f vs s K,
  match call n p f vs with
  | Ok v => exists qr L A, nth_error C qr = Some IRet /\ star C (St (fe f) [] [] (vs ++ s) K) (St qr L A (v :: s) K)
  | Fault => goes_wrong C (St (fe f) [] [] (vs ++ s) K)
  | _ => True
  end.

(* where a statement leaves the machine, by outcome; [qn]: the pc after normal completion *)
Definition out_post (o : outcome) (qn brk cont : nat) (s0 : state) (L' A' s : list val) (K : list frame) : Prop :=
  match o with
  | ONormal => star C s0 (St qn L' A' s K)
  | OBreak => star C s0 (St brk L' A' s K)
  | OContinue => star C s0 (St cont L' A' s K)
  | OReturn v => exists qr, nth_error C qr = Some IRet /\ star C s0 (St qr L' A' (v :: s) K)
  end.

Definition stmt_post (g : cenv) (next : nat) (st : stmt) (q brk cont : nat) (L A s : list val) (K : list frame)
           (res : res (outcome * env)) : Prop :=
  match res with
  | Ok (o, r') =>
      exists ext L' A', length L' = length L /\ length A' = length A /\ menv r' (ext ++ g) L' A' /\
        (o = ONormal -> ext ++ g = env_after g next st) /\
        out_post o (q + size_stmt st) brk cont (St q L A s K) L' A' s K
  | Fault => goes_wrong C (St q L A s K)
  | _ => True
  end.

(* the same after leaving the scope: the environment is back to the names of [g] *)
Definition block_post (g : cenv) (qn q brk cont : nat) (L A s : list val) (K : list frame)
           (res : res (outcome * env)) : Prop :=
  match res with
  | Ok (o, r') =>
      exists L' A', length L' = length L /\ length A' = length A /\ menv r' g L' A' /\
        out_post o qn brk cont (St q L A s K) L' A' s K
  | Fault => goes_wrong C (St q L A s K)
  | _ => True
  end.

Definition sim_exec (n : nat) : Prop := forall r st g next q brk cont L A s K,
  menv r g L A -> wf g next -> next + ndecl st <= length L ->
  code_at C q (compile_stmt fe g next q brk cont st) ->
  stmt_post g next st q brk cont L A s K (exec n p r st).

Definition loop_code (g : cenv) (next start : nat) (c : expr) (po b : stmt) : code :=
  let pbody := start + size_expr false c + 1 in
  let ppost := pbody + size_stmt b in
  let endl := ppost + size_stmt po + 1 in
  compile_expr fe g start c MVal ++ IJmpIfNot endl :: compile_stmt fe g next pbody endl ppost b
  ++ compile_stmt fe g (next + ndecl b) ppost endl ppost po ++ [IJmp start].

Definition sim_loop (n : nat) : Prop := forall r c po b g next start L A s K,
  menv r g L A -> wf g next -> next + ndecl b + ndecl po <= length L ->
  code_at C start (loop_code g next start c po b) ->
  match loop n p r c po b with
  | Ok (o, r') =>
      exists L' A', length L' = length L /\ length A' = length A /\ menv r' g L' A' /\
        match o with
        | ONormal => star C (St start L A s K)
                       (St (start + size_expr false c + 1 + size_stmt b + size_stmt po + 1) L' A' s K)
        | OReturn v => exists qr, nth_error C qr = Some IRet /\ star C (St start L A s K) (St qr L' A' (v :: s) K)
        | _ => False
        end
  | Fault => goes_wrong C (St start L A s K)
  | _ => True
  end.

Definition sim_all (n : nat) : Prop := sim_expr n /\ sim_list n /\ sim_call n /\ sim_exec n /\ sim_loop n.

Lemma sim_all_0 : sim_all 0.
Proof. repeat split; red; intros; simpl; exact I. Qed.

(* ----- helpers ----- *)
Ltac split_code :=
  repeat match goal with
  | H : code_at _ _ (_ ++ _) |- _ =>
      let H1 := fresh "Hc" in apply code_at_app in H; destruct H as [H1 H]
  | H : code_at _ _ (_ :: _) |- _ =>
      let H1 := fresh "Hi" in apply code_at_cons in H; destruct H as [H1 H]
  | H : code_at _ _ [] |- _ => clear H
  end;
  rewrite ?length_compile_expr, ?length_compile_stmt, ?length_compile_args in *; simpl is_jmp in *.

(* normalise a program counter *)
Ltac pceq := f_equal; simpl; try lia.

Lemma jump_tail m e q L A s K v :
  star C (St q L A s K) (St (q + size_expr false e) L A (v :: s) K) ->
  size_expr true e = size_expr false e + 1 ->
  match m with
  | MVal => True
  | MJmp cond t => nth_error C (q + size_expr false e) = Some (jmp_on cond t)
  end ->
  expr_post m e (Ok v) q L A s K.
Proof.
  intros Hs Hsz Ht. destruct m as [|cond t]; simpl; auto.
  intros b ->. eapply star_trans; [exact Hs|]. eapply star_eq; [apply x_jmp_on; exact Ht|].
  destruct (Bool.eqb b cond); pceq.
Qed.

Lemma block_of_stmt g next st q brk cont L A s K res k :
  stmt_post g next st q brk cont L A s K res -> k = length g ->
  block_post g (q + size_stmt st) q brk cont L A s K
    (bind res (fun or => Ok (fst or, truncate k (snd or)))).
Proof.
  intros H ->. destruct res as [[o r']| | |]; simpl in *; auto.
  destruct H as (ext & L' & A' & HL & HA & Hm & _ & Ho).
  exists L', A'. repeat split; auto. eapply menv_truncate; eauto.
Qed.

Lemma arith_cmp_nofault op a b : is_cmp op = true -> arith op a b <> Fault.
Proof. destruct op; simpl; congruence. Qed.

Lemma arith_noncmp_int op a b v : is_cmp op = false -> arith op a b = Ok v -> exists z, v = VInt z.
Proof.
  destruct op; simpl; try discriminate; intros _ H;
    try (destruct (b =? 0)%Z; [discriminate|]); apply ret64_ok in H; destruct H as [-> _]; eauto.
Qed.

(* execute the instruction at the current pc with instruction lemma [lem] *)
Ltac xstep lem :=
  match goal with
  | H : nth_error C ?q' = Some _ |- star C (St ?q _ _ _ _) _ =>
      replace q with q' by lia; eapply lem; [exact H | ..]
  end.
Ltac xthen lem := eapply star_trans; [xstep lem|].
Ltac xlast lem := eapply star_eq; [xstep lem|].

Lemma tail_at (m : mode) q q' :
  code_at C q' (match m with MVal => [] | MJmp cond t => [jmp_on cond t] end) -> q' = q ->
  match m with MVal => True | MJmp cond t => nth_error C q = Some (jmp_on cond t) end.
Proof. intros H ->. destruct m; auto. apply code_at_cons in H. tauto. Qed.

Lemma eval_list_length n r es vs : eval_list n p r es = Ok vs -> length vs = length es.
Proof.
  revert es vs; induction n; intros es vs; simpl; [discriminate|].
  destruct es as [|e t]; [intros H; inv H; reflexivity|].
  destruct (eval n p r e); simpl; try discriminate.
  destruct (eval_list n p r t) eqn:E; simpl; try discriminate. intros H; inv H. simpl. f_equal. eauto.
Qed.

Lemma call_args_le n f vs : (exists v, call n p f vs = Ok v) \/ call n p f vs = Fault -> length vs <= 255.
Proof.
  destruct n; simpl; [intros [[v H]|H]; discriminate|].
  destruct (nth_error p f); [|intros [[v H]|H]; discriminate].
  destruct (Nat.leb_spec (length vs) 255); auto.
  rewrite andb_false_r. intros [[v E]|E]; discriminate.
Qed.

Lemma sim_expr_step n : sim_all n -> sim_expr (S n).
Proof.
  intros (IHe & IHl & IHc & _ & _) r e m g q L A s K Hm Hc.
  destruct e; simpl eval.
  - (* ELit *)
    simpl in Hc. split_code.
    destruct (ret64_cases z) as [[-> Hz]| ->]; [|exact I].
    apply jump_tail; [eapply star_eq; [apply x_push; eauto|pceq] | reflexivity | eapply tail_at; [eauto|simpl; lia]].
  - (* EBool *)
    simpl in Hc. split_code.
    apply jump_tail; [eapply star_eq; [apply x_pushb; eauto|pceq] | reflexivity | eapply tail_at; [eauto|simpl; lia]].
  - (* EVar *)
    simpl in Hc. split_code.
    destruct (lookup x r) as [v|] eqn:El; [|exact I].
    destruct (menv_lookup _ _ _ _ _ _ Hm El) as (sl & Hsl & Hg). rewrite (clookup_slot_of _ _ _ Hsl) in *.
    apply jump_tail; [eapply star_eq; [eapply x_load; eauto|pceq] | reflexivity | eapply tail_at; [eauto|simpl; lia]].
  - (* ENeg *)
    simpl in Hc. split_code.
    specialize (IHe r e MVal g q L A s K Hm Hc0).
    destruct (eval n p r e) as [v| | |]; cbn [bind]; [|exact IHe|exact I|exact I].
    destruct v as [z| |]; try exact I.
    destruct (ret64_cases (- z)%Z) as [[-> Hz]| ->]; [|exact I].
    apply jump_tail; [eapply star_trans; [exact IHe|eapply star_eq; [apply x_neg; eauto|pceq]] | simpl; lia
                     | eapply tail_at; [eauto|simpl; lia]].
  - (* ENot *)
    simpl in Hc. split_code.
    specialize (IHe r e MVal g q L A s K Hm Hc0).
    destruct (eval n p r e) as [v| | |]; cbn [bind]; [|exact IHe|exact I|exact I].
    destruct v as [|b|]; try exact I.
    apply jump_tail; [eapply star_trans; [exact IHe|eapply star_eq; [apply x_not; eauto|pceq]] | simpl; lia
                     | eapply tail_at; [eauto|simpl; lia]].
  - (* EParen *)
    simpl in Hc. split_code.
    specialize (IHe r e MVal g q L A s K Hm Hc0).
    destruct (eval n p r e) as [v| | |]; [|exact IHe|exact I|exact I].
    apply jump_tail; [eapply star_eq; [exact IHe|pceq] | simpl; lia | eapply tail_at; [eauto|simpl; lia]].
  - (* EBin *)
    assert (IHa := IHe r e1 MVal g q L A s K Hm).
    assert (IHb := fun v => IHe r e2 MVal g (q + size_expr false e1) L A (v :: s) K Hm).
    destruct m as [|cond t]; simpl in Hc; [|destruct (is_cmp op) eqn:Ecmp]; split_code;
      specialize (IHa Hc0);
      (destruct (eval n p r e1) as [va| | |]; cbn [bind]; [|exact IHa|exact I|exact I]);
      specialize (IHb va Hc1);
      (destruct (eval n p r e2) as [vb| | |]; cbn [bind]; [|eapply goes_wrong_star; [exact IHa|exact IHb]|exact I|exact I]);
      (destruct va as [a| |], vb as [b| |]; try exact I); simpl eval_binop;
      destruct (arith op a b) as [v| | |] eqn:Ea; try exact I.
    + eapply star_trans; [exact IHa|]. eapply star_trans; [exact IHb|]. xlast x_binop; [eauto|pceq].
    + eapply goes_wrong_star; [exact IHa|]. eapply goes_wrong_star; [exact IHb|].
      replace (q + size_expr false e1 + size_expr false e2) with (q + size_expr false e1 + size_expr false e2) in * by lia.
      eapply x_binop_fault; eauto.
    + intros bb ->. eapply star_trans; [exact IHa|]. eapply star_trans; [exact IHb|].
      xlast x_jmpcmp; [eauto|eauto|]. simpl size_expr. rewrite Ecmp. destruct (Bool.eqb bb cond); pceq.
    + exfalso. eapply arith_cmp_nofault; eauto.
    + intros bb ->. destruct (arith_noncmp_int _ _ _ _ Ecmp Ea) as [z Hz]. discriminate.
    + eapply goes_wrong_star; [exact IHa|]. eapply goes_wrong_star; [exact IHb|]. eapply x_binop_fault; eauto.
  - (* EAnd *)
    destruct m as [|cond t]; simpl in Hc; split_code.
    + (* value *)
      assert (IHa := IHe r e1 _ g q L A s K Hm Hc0).
      destruct (eval n p r e1) as [va| | |]; cbn [bind]; [|exact IHa|exact I|exact I].
      destruct va as [|ba|]; try exact I. specialize (IHa ba eq_refl). destruct ba; simpl in IHa.
      * assert (IHb := IHe r e2 _ g _ L A s K Hm Hc1).
        destruct (eval n p r e2) as [vb| | |]; cbn [bind]; [|eapply goes_wrong_star; [exact IHa|exact IHb]|exact I|exact I].
        destruct vb as [|bb|]; try exact I.
        eapply star_trans; [exact IHa|]. eapply star_trans; [exact IHb|]. xlast x_jmp. pceq.
      * eapply star_trans; [exact IHa|]. xlast x_pushb. pceq.
    + (* jump *)
      assert (IHa := IHe r e1 _ g q L A s K Hm Hc0).
      destruct (eval n p r e1) as [va| | |]; cbn [bind]; [|exact IHa|exact I|exact I].
      destruct va as [|ba|]; try exact I. specialize (IHa ba eq_refl). destruct ba; simpl in IHa.
      * assert (IHb := IHe r e2 _ g _ L A s K Hm Hc).
        destruct (eval n p r e2) as [vb| | |]; cbn [bind]; [|eapply goes_wrong_star; [exact IHa|exact IHb]|exact I|exact I].
        destruct vb as [|bb|]; try exact I.
        intros b0 E; inv E. specialize (IHb b0 eq_refl).
        eapply star_trans; [exact IHa|]. eapply star_eq; [exact IHb|]. destruct (Bool.eqb b0 cond); pceq.
      * intros b0 E; inv E. eapply star_eq; [exact IHa|]. destruct cond; pceq.
  - (* EOr *)
    destruct m as [|cond t]; simpl in Hc; split_code.
    + (* value *)
      assert (IHa := IHe r e1 _ g q L A s K Hm Hc0).
      destruct (eval n p r e1) as [va| | |]; cbn [bind]; [|exact IHa|exact I|exact I].
      destruct va as [|ba|]; try exact I. specialize (IHa ba eq_refl). destruct ba; simpl in IHa.
      * eapply star_trans; [exact IHa|]. xlast x_pushb. pceq.
      * assert (IHb := IHe r e2 _ g _ L A s K Hm Hc1).
        destruct (eval n p r e2) as [vb| | |]; cbn [bind]; [|eapply goes_wrong_star; [exact IHa|exact IHb]|exact I|exact I].
        destruct vb as [|bb|]; try exact I.
        eapply star_trans; [exact IHa|]. eapply star_trans; [exact IHb|]. xlast x_jmp. pceq.
    + (* jump *)
      assert (IHa := IHe r e1 _ g q L A s K Hm Hc0).
      destruct (eval n p r e1) as [va| | |]; cbn [bind]; [|exact IHa|exact I|exact I].
      destruct va as [|ba|]; try exact I. specialize (IHa ba eq_refl). destruct ba; simpl in IHa.
      * intros b0 E; inv E. eapply star_eq; [exact IHa|]. destruct cond; pceq.
      * assert (IHb := IHe r e2 _ g _ L A s K Hm Hc).
        destruct (eval n p r e2) as [vb| | |]; cbn [bind]; [|eapply goes_wrong_star; [exact IHa|exact IHb]|exact I|exact I].
        destruct vb as [|bb|]; try exact I.
        intros b0 E; inv E. specialize (IHb b0 eq_refl).
        eapply star_trans; [exact IHa|]. eapply star_eq; [exact IHb|]. destruct (Bool.eqb b0 cond); pceq.
  - (* ECall *)
    admit.
Admitted.

End Sim.
