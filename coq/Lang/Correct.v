(* C14 — correctness of the model compiler (Lang/Compile.v) with respect to the MiniGo semantics
   (Lang/MiniGo.v) and the target machine (Lang/Target.v): a forward simulation, by induction on the
   fuel of the source evaluation, covering results [Ok] (same value) and [Fault] (the machine faults). *)
From NG Require Import Common.Tactics Lang.MiniGo Lang.Target Lang.Compile Lang.CorrectBase.
Open Scope nat_scope.

(* ---------- arithmetic side conditions ---------- *)
Lemma in64_fits256 z : in64 z = true -> fits256 z = true.
Proof.
  unfold in64, fits256. intros H.
  assert (- 2 ^ 255 <= - 2 ^ 63)%Z by (vm_compute; discriminate).
  assert (2 ^ 63 <= 2 ^ 255)%Z by (vm_compute; discriminate).
  lia.
Qed.

Lemma ret64_ok z v : ret64 z = Ok v -> v = VInt z /\ fits256 z = true.
Proof. unfold ret64. destruct (in64 z) eqn:E; intros H; inv H. split; auto using in64_fits256. Qed.

Lemma ret64_cases z : (ret64 z = Ok (VInt z) /\ fits256 z = true) \/ ret64 z = Undef.
Proof. unfold ret64. destruct (in64 z) eqn:E; auto using in64_fits256. Qed.

Lemma fits256_small k : k <= 255 -> fits256 (Z.of_nat k) = true.
Proof.
  intros H. unfold fits256.
  assert (- 2 ^ 255 <= 0)%Z by (vm_compute; discriminate).
  assert (256 <= 2 ^ 255)%Z by (vm_compute; discriminate).
  lia.
Qed.

Lemma cmp_eval_neg c a b : cmp_eval (cmp_neg c) a b = negb (cmp_eval c a b).
Proof. destruct c; simpl; try rewrite negb_involutive; lia. Qed.

Lemma star_eq C s1 s2 s2' : star C s1 s2 -> s2 = s2' -> star C s1 s2'.
Proof. intros H <-; exact H. Qed.

Lemma update_lookup x v r r' : update x v r = Some r' -> exists w, lookup x r = Some w.
Proof.
  revert r'; induction r as [|[y w] r IH]; simpl; intros r' H; [congruence|].
  destruct (N.eqb x y); eauto. destruct (update x v r); [|congruence]. eauto.
Qed.

Lemma clookup_slot_of g x sl : clookup x g = Some sl -> slot_of g x = sl.
Proof. unfold slot_of; intros ->; reflexivity. Qed.

Lemma length_slot_set sl v L A :
  length (fst (slot_set sl v L A)) = length L /\ length (snd (slot_set sl v L A)) = length A.
Proof. destruct sl; simpl; rewrite ?length_list_set; auto. Qed.

(* ---------- one instruction at a time ---------- *)
Section Instr.
Variable C : code.

Ltac one H := apply star_one; unfold step; simpl pc; rewrite H; simpl.

Lemma x_push q z L A s K : nth_error C q = Some (IPush z) -> fits256 z = true ->
  star C (St q L A s K) (St (S q) L A (VInt z :: s) K).
Proof. intros H Hz. one H. unfold push_int. simpl. rewrite Hz. reflexivity. Qed.

Lemma x_pushb q b L A s K : nth_error C q = Some (IPushB b) ->
  star C (St q L A s K) (St (S q) L A (VBool b :: s) K).
Proof. intros H. one H. reflexivity. Qed.

Lemma x_load q sl v L A s K : nth_error C q = Some (load sl) -> slot_get sl L A = Some v ->
  star C (St q L A s K) (St (S q) L A (v :: s) K).
Proof. intros H Hv. one H. destruct sl; simpl in *; rewrite Hv; reflexivity. Qed.

Lemma x_store q sl v L A s K : nth_error C q = Some (store sl) -> slot_ok sl L A ->
  star C (St q L A (v :: s) K) (St (S q) (fst (slot_set sl v L A)) (snd (slot_set sl v L A)) s K).
Proof.
  intros H Hok. one H. destruct sl; simpl in *;
  match goal with |- context [(?n <? ?m)] => destruct (Nat.ltb_spec n m); [reflexivity|lia] end.
Qed.

Lemma x_stloc q n v L A s K : nth_error C q = Some (IStLoc n) -> n < length L ->
  star C (St q L A (v :: s) K) (St (S q) (list_set n v L) A s K).
Proof. intros H Hn. apply (x_store q (SLoc n) v L A s K H Hn). Qed.

Lemma x_neg q z L A s K : nth_error C q = Some INegate -> fits256 (- z) = true ->
  star C (St q L A (VInt z :: s) K) (St (S q) L A (VInt (- z) :: s) K).
Proof. intros H Hz. one H. unfold arith1, push_int; simpl. rewrite Hz. reflexivity. Qed.

Lemma x_inc q z L A s K : nth_error C q = Some IInc -> fits256 (z + 1) = true ->
  star C (St q L A (VInt z :: s) K) (St (S q) L A (VInt (z + 1) :: s) K).
Proof. intros H Hz. one H. unfold arith1, push_int; simpl. rewrite Hz. reflexivity. Qed.

Lemma x_dec q z L A s K : nth_error C q = Some IDec -> fits256 (z - 1) = true ->
  star C (St q L A (VInt z :: s) K) (St (S q) L A (VInt (z - 1) :: s) K).
Proof. intros H Hz. one H. unfold arith1, push_int; simpl. rewrite Hz. reflexivity. Qed.

Lemma x_not q b L A s K : nth_error C q = Some INot ->
  star C (St q L A (VBool b :: s) K) (St (S q) L A (VBool (negb b) :: s) K).
Proof. intros H. one H. reflexivity. Qed.

Lemma x_drop q v L A s K : nth_error C q = Some IDrop ->
  star C (St q L A (v :: s) K) (St (S q) L A s K).
Proof. intros H. one H. reflexivity. Qed.

Lemma x_jmp q t L A s K : nth_error C q = Some (IJmp t) -> star C (St q L A s K) (St t L A s K).
Proof. intros H. one H. reflexivity. Qed.

Lemma x_jmp_on q cond t b L A s K : nth_error C q = Some (jmp_on cond t) ->
  star C (St q L A (VBool b :: s) K) (St (if Bool.eqb b cond then t else S q) L A s K).
Proof. intros H. one H. destruct cond, b; reflexivity. Qed.

Lemma x_jmpifnot q t b L A s K : nth_error C q = Some (IJmpIfNot t) ->
  star C (St q L A (VBool b :: s) K) (St (if b then S q else t) L A s K).
Proof. intros H. one H. destruct b; reflexivity. Qed.

Lemma x_binop q op a b v L A s K : nth_error C q = Some (op_instr op) -> arith op a b = Ok v ->
  star C (St q L A (VInt b :: VInt a :: s) K) (St (S q) L A (v :: s) K).
Proof.
  intros H Hv. one H. destruct op; simpl in *; unfold arith2, push_int; simpl;
    try (apply ret64_ok in Hv; destruct Hv as [-> Hz]; rewrite Hz; reflexivity);
    try (destruct (b =? 0)%Z; [discriminate|]; apply ret64_ok in Hv; destruct Hv as [-> Hz]; rewrite Hz; reflexivity);
    inv Hv; reflexivity.
Qed.

Lemma x_binop_fault q op a b L A s K : nth_error C q = Some (op_instr op) -> arith op a b = Fault ->
  goes_wrong C (St q L A (VInt b :: VInt a :: s) K).
Proof.
  intros H Hv. eexists; split; [apply star_refl|]. unfold step; simpl pc; rewrite H.
  destruct op; simpl in *; unfold ret64 in Hv; try (destruct (in64 _); discriminate); try discriminate;
    unfold arith2; simpl; destruct (b =? 0)%Z; try reflexivity; destruct (in64 _); discriminate.
Qed.

Lemma x_jmpcmp q op (cond : bool) t a b bb L A s K :
  nth_error C q = Some (IJmpCmp (if cond then cmp_of op else cmp_neg (cmp_of op)) t) ->
  is_cmp op = true -> arith op a b = Ok (VBool bb) ->
  star C (St q L A (VInt b :: VInt a :: s) K) (St (if Bool.eqb bb cond then t else S q) L A s K).
Proof.
  intros H Hc Hv. one H.
  assert (E : cmp_eval (cmp_of op) a b = bb) by (destruct op; simpl in *; try discriminate; inv Hv; reflexivity).
  destruct cond; [|rewrite cmp_eval_neg]; rewrite E; destruct bb; reflexivity.
Qed.

Lemma x_dup q v L A s K : nth_error C q = Some IDup ->
  star C (St q L A (v :: s) K) (St (S q) L A (v :: v :: s) K).
Proof. intros H. one H. reflexivity. Qed.

Lemma x_eq q (num : bool) tv v m L A s K :
  nth_error C q = Some (if num then ICmp CEq else IEqual) -> val_match num tv v = Ok m ->
  star C (St q L A (v :: tv :: s) K) (St (S q) L A (VBool m :: s) K).
Proof.
  intros H Hm. one H. destruct num, tv, v; simpl in Hm; try discriminate; inv Hm; reflexivity.
Qed.

Lemma x_call q t L A s K : nth_error C q = Some (ICall t) ->
  star C (St q L A s K) (St t [] [] s (Frame (S q) L A :: K)).
Proof. intros H. one H. reflexivity. Qed.

Lemma x_ret q L A s fr K : nth_error C q = Some IRet ->
  star C (St q L A s (fr :: K)) (St (f_pc fr) (f_locs fr) (f_args fr) s K).
Proof. intros H. one H. reflexivity. Qed.

Lemma rev_top_rev vs s : rev_top (length vs) (rev vs ++ s) = Some (vs ++ s).
Proof.
  unfold rev_top. rewrite app_length, rev_length.
  destruct (Nat.leb_spec (length vs) (length vs + length s)); [|lia].
  pose proof (rev_length vs) as E. rewrite <- E.
  rewrite firstn_app, skipn_app, firstn_all, skipn_all, Nat.sub_diag.
  simpl. rewrite app_nil_r, rev_involutive. reflexivity.
Qed.

Lemma x_reverse q vs L A s K : code_at C q (emit_reverse (length vs)) -> length vs <= 255 ->
  star C (St q L A (rev vs ++ s) K) (St (q + length (emit_reverse (length vs))) L A (vs ++ s) K).
Proof.
  intros Hc Hle.
  destruct vs as [|v1 [|v2 [|v3 [|v4 [|v5 vs]]]]].
  1-2: simpl; rewrite Nat.add_0_r; apply star_refl.
  1-3: simpl emit_reverse in *; apply code_at_cons in Hc; destruct Hc as [H _]; eapply star_eq;
       [one H; reflexivity | simpl; f_equal; lia].
  assert (Hr := rev_top_rev (v1 :: v2 :: v3 :: v4 :: v5 :: vs) s).
  remember (v1 :: v2 :: v3 :: v4 :: v5 :: vs) as l eqn:El.
  assert (Ee : emit_reverse (length l) = [IPush (Z.of_nat (length l)); IReverseN]) by (subst l; reflexivity).
  rewrite Ee in *. clear Ee El.
  apply code_at_cons in Hc; destruct Hc as [H1 Hc]. apply code_at_cons in Hc; destruct Hc as [H2 _].
  eapply star_trans; [apply x_push; [exact H1 | apply fits256_small; exact Hle]|].
  replace (q + length [IPush (Z.of_nat (length l)); IReverseN]) with (S (S q)) by (simpl; lia).
  apply star_one; unfold step; simpl pc; rewrite H2; unfold exec_instr; simpl stk; cbv iota.
  change (as_int (VInt (Z.of_nat (length l)))) with (Some (Z.of_nat (length l))). cbv iota beta.
  destruct (Z.ltb_spec (Z.of_nat (length l)) 0); [lia|]. rewrite Nat2Z.id, Hr. reflexivity.
Qed.

End Instr.

(* ---------- the simulation ---------- *)
Section Sim.
Variable p : program.
Variable C : code.
Variable fe : nat -> nat.
Variable fr : nat -> nat.
(* every function of the program sits at its entry point; [fr] gives the declared number of results *)
Hypothesis Hfun : forall f fn, nth_error p f = Some fn -> code_at C (fe f) (compile_func fe fr (fe f) fn).
Hypothesis Hfr : forall f fn, nth_error p f = Some fn -> fr f = f_nres fn.

Definition expr_post (m : mode) (e : expr) (res : res val) (q : nat) (L A s : list val) (K : list frame) : Prop :=
  match res with
  | Ok v =>
      match m with
      | MVal => star C (St q L A s K) (St (q + size_expr false e) L A (v :: s) K)
      | MJmp cond t =>
          forall b, v = VBool b ->
          star C (St q L A s K) (St (if Bool.eqb b cond then t else q + size_expr true e) L A s K)
      end
  | Fault => goes_wrong C (St q L A s K)
  | _ => True
  end.

Definition sim_expr (n : nat) : Prop := forall r e m g q L A s K,
  menv r g L A -> code_at C q (compile_expr fe g q e m) -> expr_post m e (eval n p r e) q L A s K.

Definition sim_list (n : nat) : Prop := forall r es g q L A s K,
  menv r g L A -> code_at C q (compile_args fe g q es) ->
  match eval_list n p r es with
  | Ok vs => star C (St q L A s K) (St (q + size_args es) L A (rev vs ++ s) K)
  | Fault => goes_wrong C (St q L A s K)
  | _ => True
  end.

Definition sim_call (n : nat) : Prop := forall f vs s K,
  match call n p f vs with
  | Ok rs => exists qr L A, nth_error C qr = Some IRet /\ length rs = fr f /\
                          star C (St (fe f) [] [] (vs ++ s) K) (St qr L A (rs ++ s) K)
  | Fault => goes_wrong C (St (fe f) [] [] (vs ++ s) K)
  | _ => True
  end.

(* where a statement leaves the machine, by outcome; [qn]: the pc after normal completion; [dc] / [dr]: the number of
   switch tags (on top of the stack [s]) that continue / return drop *)
Definition out_post (o : outcome) (qn brk cont dc dr : nat) (s0 : state) (L' A' s : list val) (K : list frame) : Prop :=
  match o with
  | ONormal => star C s0 (St qn L' A' s K)
  | OBreak => star C s0 (St brk L' A' s K)
  | OContinue => star C s0 (St cont L' A' (skipn dc s) K)
  | OReturn vs => exists qr, nth_error C qr = Some IRet /\ star C s0 (St qr L' A' (vs ++ skipn dr s) K)
  end.

Definition stmt_post (g : cenv) (next : nat) (st : stmt) (q brk cont dc dr : nat) (L A s : list val) (K : list frame)
           (res : res (outcome * env)) : Prop :=
  match res with
  | Ok (o, r') =>
      exists ext L' A', length L' = length L /\ length A' = length A /\ menv r' (ext ++ g) L' A' /\
        (o = ONormal -> ext ++ g = env_after g next st) /\
        out_post o (q + size_stmt fr dc dr st) brk cont dc dr (St q L A s K) L' A' s K
  | Fault => goes_wrong C (St q L A s K)
  | _ => True
  end.

(* the same after leaving the scope: the environment is back to the names of [g] *)
Definition block_post (g : cenv) (qn q brk cont dc dr : nat) (L A s : list val) (K : list frame)
           (res : res (outcome * env)) : Prop :=
  match res with
  | Ok (o, r') =>
      exists L' A', length L' = length L /\ length A' = length A /\ menv r' g L' A' /\
        out_post o qn brk cont dc dr (St q L A s K) L' A' s K
  | Fault => goes_wrong C (St q L A s K)
  | _ => True
  end.

Definition sim_exec (n : nat) : Prop := forall r st g next q brk cont dc dr L A s K,
  menv r g L A -> wf g next -> next + ndecl st <= length L -> dc <= dr -> dr <= length s ->
  code_at C q (compile_stmt fe fr g next q brk cont dc dr st) ->
  stmt_post g next st q brk cont dc dr L A s K (exec n p r st).

Definition loop_code (g : cenv) (next start dr : nat) (c : expr) (po b : stmt) : code :=
  let pbody := start + size_expr false c + 1 in
  let ppost := pbody + size_stmt fr 0 dr b in
  let endl := ppost + size_stmt fr 0 dr po + 1 in
  compile_expr fe g start c MVal ++ IJmpIfNot endl :: compile_stmt fe fr g next pbody endl ppost 0 dr b
  ++ compile_stmt fe fr g (next + ndecl b) ppost endl ppost 0 dr po ++ [IJmp start].

Definition sim_loop (n : nat) : Prop := forall r c po b g next start dr L A s K,
  menv r g L A -> wf g next -> next + ndecl b + ndecl po <= length L -> dr <= length s ->
  code_at C start (loop_code g next start dr c po b) ->
  match loop n p r c po b with
  | Ok (o, r') =>
      exists L' A', length L' = length L /\ length A' = length A /\ menv r' g L' A' /\
        match o with
        | ONormal => star C (St start L A s K)
                       (St (start + size_expr false c + 1 + size_stmt fr 0 dr b + size_stmt fr 0 dr po + 1) L' A' s K)
        | OReturn vs => exists qr, nth_error C qr = Some IRet /\
                                   star C (St start L A s K) (St qr L' A' (vs ++ skipn dr s) K)
        | _ => False
        end
  | Fault => goes_wrong C (St start L A s K)
  | _ => True
  end.

(* the tests of one case clause: the tag stays on the stack; control ends at the body or behind the clause *)
Definition sim_match (n : nat) : Prop := forall r (num : bool) tv es g q pstart pend L A s K,
  menv r g L A -> pstart = q + size_tests es ->
  code_at C q (compile_tests fe g q (if num then ICmp CEq else IEqual) pstart pend es) ->
  match match_any n p r num tv es with
  | Ok m => es <> [] -> star C (St q L A (tv :: s) K) (St (if m then pstart else pend) L A (tv :: s) K)
  | Fault => goes_wrong C (St q L A (tv :: s) K)
  | _ => True
  end.

(* the clauses of a switch, entered with the tag on the stack; [swend] is the DROP that ends the switch *)
Definition sim_cases (n : nat) : Prop := forall r tv cs g next q swend cont dc dr L A s K,
  menv r g L A -> wf g next -> next + ndecl cs <= length L -> dc <= dr -> dr <= length s ->
  code_at C q (compile_stmt fe fr g next q swend cont dc dr cs) ->
  swend = q + size_stmt fr dc dr cs ->
  match exec_cases n p r tv cs with
  | Ok (o, r') =>
      exists ext L' A', length L' = length L /\ length A' = length A /\ menv r' (ext ++ g) L' A' /\
        out_post o swend swend cont (S dc) (S dr) (St q L A (tv :: s) K) L' A' (tv :: s) K
  | Fault => goes_wrong C (St q L A (tv :: s) K)
  | _ => True
  end.

Definition sim_all (n : nat) : Prop :=
  sim_expr n /\ sim_list n /\ sim_call n /\ sim_exec n /\ sim_loop n /\ sim_match n /\ sim_cases n.

Lemma sim_all_0 : sim_all 0.
Proof. repeat split; red; intros; simpl; exact I. Qed.

(* ----- helpers ----- *)
Ltac split_code :=
  repeat match goal with
  | H : code_at _ _ (_ ++ _) |- _ =>
      let H1 := fresh "Hc" in apply code_at_app in H; destruct H as [H1 H]
  | H : code_at _ _ (_ :: _) |- _ =>
      let H1 := fresh "Hi" in apply code_at_cons in H; destruct H as [H1 H]
  | H : code_at _ _ [] |- _ => clear H
  end;
  rewrite ?length_compile_expr, ?length_compile_stmt, ?length_compile_args in *; simpl is_jmp in *.

(* normalise a program counter *)
Ltac pceq := f_equal; simpl; try lia.

Lemma jump_tail m e q L A s K v :
  star C (St q L A s K) (St (q + size_expr false e) L A (v :: s) K) ->
  size_expr true e = size_expr false e + 1 ->
  match m with
  | MVal => True
  | MJmp cond t => nth_error C (q + size_expr false e) = Some (jmp_on cond t)
  end ->
  expr_post m e (Ok v) q L A s K.
Proof.
  intros Hs Hsz Ht. destruct m as [|cond t]; simpl; auto.
  intros b ->. eapply star_trans; [exact Hs|]. eapply star_eq; [apply x_jmp_on; exact Ht|].
  destruct (Bool.eqb b cond); pceq.
Qed.

Lemma block_of_stmt g next st q brk cont dc dr L A s K res k :
  stmt_post g next st q brk cont dc dr L A s K res -> k = length g ->
  block_post g (q + size_stmt fr dc dr st) q brk cont dc dr L A s K
    (bind res (fun or => Ok (fst or, truncate k (snd or)))).
Proof.
  intros H ->. destruct res as [[o r']| | |]; simpl in *; auto.
  destruct H as (ext & L' & A' & HL & HA & Hm & _ & Ho).
  exists L', A'. repeat split; auto. eapply menv_truncate; eauto.
Qed.

Lemma arith_cmp_nofault op a b : is_cmp op = true -> arith op a b <> Fault.
Proof. destruct op; simpl; congruence. Qed.

Lemma arith_noncmp_int op a b v : is_cmp op = false -> arith op a b = Ok v -> exists z, v = VInt z.
Proof.
  destruct op; simpl; try discriminate; intros _ H;
    try (destruct (b =? 0)%Z; [discriminate|]); apply ret64_ok in H; destruct H as [-> _]; eauto.
Qed.

(* execute the instruction at the current pc with instruction lemma [lem] *)
Ltac xstep lem :=
  match goal with
  | H : nth_error C ?q' = Some _ |- star C (St ?q _ _ _ _) _ =>
      replace q with q' by lia; eapply lem; [exact H | ..]
  end.
Ltac xfault lem :=
  match goal with
  | H : nth_error C ?q' = Some _ |- goes_wrong C (St ?q _ _ _ _) =>
      replace q with q' by lia; eapply lem; [exact H | ..]
  end.
Ltac xthen lem := eapply star_trans; [xstep lem|].
Ltac xlast lem := eapply star_eq; [xstep lem|].

Lemma tail_at (m : mode) q q' :
  code_at C q' (match m with MVal => [] | MJmp cond t => [jmp_on cond t] end) -> q' = q ->
  match m with MVal => True | MJmp cond t => nth_error C q = Some (jmp_on cond t) end.
Proof. intros H ->. destruct m; auto. apply code_at_cons in H. tauto. Qed.

Lemma eval_list_length n r es vs : eval_list n p r es = Ok vs -> length vs = length es.
Proof.
  revert es vs; induction n; intros es vs; simpl; [discriminate|].
  destruct es as [|e t]; [intros H; inv H; reflexivity|].
  destruct (eval n p r e); simpl; try discriminate.
  destruct (eval_list n p r t) eqn:E; simpl; try discriminate. intros H; inv H. simpl. f_equal. eauto.
Qed.

Lemma call_args_le n f vs : (exists v, call n p f vs = Ok v) \/ call n p f vs = Fault -> length vs <= 255.
Proof.
  destruct n; simpl; [intros [[v H]|H]; discriminate|].
  destruct (nth_error p f); [|intros [[v H]|H]; discriminate].
  destruct (Nat.leb_spec (length vs) 255); auto.
  rewrite andb_false_r. intros [[v E]|E]; discriminate.
Qed.

(* arguments, reversal, CALL, the callee's RET: shared by call expressions, call statements and multiple assignments *)
Lemma call_seq n : sim_list n -> sim_call n -> forall r es g q L A s K f,
  menv r g L A ->
  code_at C q (compile_args fe g q es) ->
  code_at C (q + size_args es) (emit_reverse (length es)) ->
  nth_error C (q + size_args es + length (emit_reverse (length es))) = Some (ICall (fe f)) ->
  match bind (eval_list n p r es) (fun vs => call n p f vs) with
  | Ok rs => length rs = fr f /\
             star C (St q L A s K) (St (q + size_args es + length (emit_reverse (length es)) + 1) L A (rs ++ s) K)
  | Fault => goes_wrong C (St q L A s K)
  | _ => True
  end.
Proof.
  intros IHl IHc r es g q L A s K f Hm Hc0 Hc1 Hi.
  assert (IHL := IHl r es g q L A s K Hm Hc0).
  destruct (eval_list n p r es) as [vs| | |] eqn:El; cbn [bind]; [|exact IHL|exact I|exact I].
  pose proof (eval_list_length _ _ _ _ El) as Hlen. rewrite <- Hlen in Hc1, Hi. rewrite <- Hlen.
  assert (IHC := IHc f vs s (Frame (S (q + size_args es + length (emit_reverse (length vs)))) L A :: K)).
  destruct (call n p f vs) as [rs| | |] eqn:Ec; try exact I.
  - assert (Hle : length vs <= 255) by (eapply call_args_le; left; eauto).
    destruct IHC as (qr & L' & A' & Hret & Hnr & Hst). split; [exact Hnr|].
    eapply star_trans; [exact IHL|]. eapply star_trans; [apply x_reverse; eauto|].
    xthen x_call. eapply star_trans; [exact Hst|]. eapply star_eq; [eapply x_ret; exact Hret|].
    simpl. pceq.
  - assert (Hle : length vs <= 255) by (eapply call_args_le; right; eauto).
    eapply goes_wrong_star; [exact IHL|]. eapply goes_wrong_star; [apply x_reverse; eauto|].
    eapply goes_wrong_star; [xstep x_call|]. exact IHC.
Qed.

Lemma sim_expr_step n : sim_all n -> sim_expr (S n).
Proof.
  intros (IHe & IHl & IHc & _ & _) r e m g q L A s K Hm Hc.
  destruct e as [z|bl|x|e|e|e|op e1 e2|e1 e2|e1 e2|f es]; simpl eval.
  - (* ELit *)
    simpl in Hc. split_code.
    destruct (ret64_cases z) as [[-> Hz]| ->]; [|exact I].
    apply jump_tail; [eapply star_eq; [apply x_push; eauto|pceq] | reflexivity | eapply tail_at; [eauto|simpl; lia]].
  - (* EBool *)
    simpl in Hc. split_code.
    apply jump_tail; [eapply star_eq; [apply x_pushb; eauto|pceq] | reflexivity | eapply tail_at; [eauto|simpl; lia]].
  - (* EVar *)
    simpl in Hc. split_code.
    destruct (lookup x r) as [v|] eqn:El; [|exact I].
    destruct (menv_lookup _ _ _ _ _ _ Hm El) as (sl & Hsl & Hg). rewrite (clookup_slot_of _ _ _ Hsl) in *.
    apply jump_tail; [eapply star_eq; [eapply x_load; eauto|pceq] | reflexivity | eapply tail_at; [eauto|simpl; lia]].
  - (* ENeg *)
    simpl in Hc. split_code.
    specialize (IHe r e MVal g q L A s K Hm Hc0).
    destruct (eval n p r e) as [v| | |]; cbn [bind]; [|exact IHe|exact I|exact I].
    destruct v as [z| |]; try exact I.
    destruct (ret64_cases (- z)%Z) as [[-> Hz]| ->]; [|exact I].
    apply jump_tail; [eapply star_trans; [exact IHe|eapply star_eq; [apply x_neg; eauto|pceq]] | simpl; lia
                     | eapply tail_at; [eauto|simpl; lia]].
  - (* ENot *)
    simpl in Hc. split_code.
    specialize (IHe r e MVal g q L A s K Hm Hc0).
    destruct (eval n p r e) as [v| | |]; cbn [bind]; [|exact IHe|exact I|exact I].
    destruct v as [|b|]; try exact I.
    apply jump_tail; [eapply star_trans; [exact IHe|eapply star_eq; [apply x_not; eauto|pceq]] | simpl; lia
                     | eapply tail_at; [eauto|simpl; lia]].
  - (* EParen *)
    simpl in Hc. split_code.
    specialize (IHe r e MVal g q L A s K Hm Hc0).
    destruct (eval n p r e) as [v| | |]; [|exact IHe|exact I|exact I].
    apply jump_tail; [eapply star_eq; [exact IHe|pceq] | simpl; lia | eapply tail_at; [eauto|simpl; lia]].
  - (* EBin *)
    assert (IHa := IHe r e1 MVal g q L A s K Hm).
    assert (IHb := fun v => IHe r e2 MVal g (q + size_expr false e1) L A (v :: s) K Hm).
    destruct m as [|cond t]; simpl in Hc; [|destruct (is_cmp op) eqn:Ecmp]; split_code;
      specialize (IHa Hc0);
      (destruct (eval n p r e1) as [va| | |]; cbn [bind]; [|exact IHa|exact I|exact I]);
      specialize (IHb va Hc1);
      (destruct (eval n p r e2) as [vb| | |]; cbn [bind]; [|eapply goes_wrong_star; [exact IHa|exact IHb]|exact I|exact I]);
      (destruct va as [za| |], vb as [zb| |]; try exact I); simpl eval_binop;
      destruct (arith op za zb) as [v| | |] eqn:Ea; try exact I.
    + eapply star_trans; [exact IHa|]. eapply star_trans; [exact IHb|]. xlast x_binop; [eauto|pceq].
    + eapply goes_wrong_star; [exact IHa|]. eapply goes_wrong_star; [exact IHb|].
      eapply x_binop_fault; eauto.
    + intros bb ->. eapply star_trans; [exact IHa|]. eapply star_trans; [exact IHb|].
      xlast x_jmpcmp; [eauto|eauto|]. simpl size_expr. rewrite Ecmp. destruct (Bool.eqb bb cond); pceq.
    + exfalso. eapply arith_cmp_nofault; eauto.
    + intros bb ->. destruct (arith_noncmp_int _ _ _ _ Ecmp Ea) as [z Hz]. discriminate.
    + eapply goes_wrong_star; [exact IHa|]. eapply goes_wrong_star; [exact IHb|]. eapply x_binop_fault; eauto.
  - (* EAnd *)
    destruct m as [|cond t]; simpl in Hc; split_code.
    + (* value *)
      assert (IHa := IHe r e1 _ g q L A s K Hm Hc0).
      destruct (eval n p r e1) as [va| | |]; cbn [bind]; [|exact IHa|exact I|exact I].
      destruct va as [|ba|]; try exact I. specialize (IHa ba eq_refl). destruct ba; simpl in IHa.
      * assert (IHb := IHe r e2 _ g _ L A s K Hm Hc1).
        destruct (eval n p r e2) as [vb| | |]; cbn [bind]; [|eapply goes_wrong_star; [exact IHa|exact IHb]|exact I|exact I].
        destruct vb as [|bb|]; try exact I.
        eapply star_trans; [exact IHa|]. eapply star_trans; [exact IHb|]. xlast x_jmp. pceq.
      * eapply star_trans; [exact IHa|]. xlast x_pushb. pceq.
    + (* jump *)
      assert (IHa := IHe r e1 _ g q L A s K Hm Hc0).
      destruct (eval n p r e1) as [va| | |]; cbn [bind]; [|exact IHa|exact I|exact I].
      destruct va as [|ba|]; try exact I. specialize (IHa ba eq_refl). destruct ba; simpl in IHa.
      * assert (IHb := IHe r e2 _ g _ L A s K Hm Hc).
        destruct (eval n p r e2) as [vb| | |]; cbn [bind]; [|eapply goes_wrong_star; [exact IHa|exact IHb]|exact I|exact I].
        destruct vb as [|bb|]; try exact I.
        intros b0 E; inv E. specialize (IHb b0 eq_refl).
        eapply star_trans; [exact IHa|]. eapply star_eq; [exact IHb|]. destruct (Bool.eqb b0 cond); pceq.
      * intros b0 E; inv E. eapply star_eq; [exact IHa|]. destruct cond; pceq.
  - (* EOr *)
    destruct m as [|cond t]; simpl in Hc; split_code.
    + (* value *)
      assert (IHa := IHe r e1 _ g q L A s K Hm Hc0).
      destruct (eval n p r e1) as [va| | |]; cbn [bind]; [|exact IHa|exact I|exact I].
      destruct va as [|ba|]; try exact I. specialize (IHa ba eq_refl). destruct ba; simpl in IHa.
      * eapply star_trans; [exact IHa|]. xlast x_pushb. pceq.
      * assert (IHb := IHe r e2 _ g _ L A s K Hm Hc1).
        destruct (eval n p r e2) as [vb| | |]; cbn [bind]; [|eapply goes_wrong_star; [exact IHa|exact IHb]|exact I|exact I].
        destruct vb as [|bb|]; try exact I.
        eapply star_trans; [exact IHa|]. eapply star_trans; [exact IHb|]. xlast x_jmp. pceq.
    + (* jump *)
      assert (IHa := IHe r e1 _ g q L A s K Hm Hc0).
      destruct (eval n p r e1) as [va| | |]; cbn [bind]; [|exact IHa|exact I|exact I].
      destruct va as [|ba|]; try exact I. specialize (IHa ba eq_refl). destruct ba; simpl in IHa.
      * intros b0 E; inv E. eapply star_eq; [exact IHa|]. destruct cond; pceq.
      * assert (IHb := IHe r e2 _ g _ L A s K Hm Hc).
        destruct (eval n p r e2) as [vb| | |]; cbn [bind]; [|eapply goes_wrong_star; [exact IHa|exact IHb]|exact I|exact I].
        destruct vb as [|bb|]; try exact I.
        intros b0 E; inv E. specialize (IHb b0 eq_refl).
        eapply star_trans; [exact IHa|]. eapply star_eq; [exact IHb|]. destruct (Bool.eqb b0 cond); pceq.
  - (* ECall *)
    rewrite compile_expr_call in Hc. split_code.
    assert (Hcs := call_seq n IHl IHc r es g q L A s K f Hm Hc0 Hc1 Hi).
    destruct (eval_list n p r es) as [vs| | |]; cbn [bind] in Hcs |- *; [|exact Hcs|exact I|exact I].
    destruct (call n p f vs) as [rs| | |]; cbn [bind] in Hcs |- *; [|exact Hcs|exact I|exact I].
    destruct rs as [|v [|v2 rs]]; try exact I. destruct Hcs as [_ Hst].
    apply jump_tail.
    + eapply star_eq; [exact Hst|]. rewrite size_expr_call. simpl. pceq.
    + rewrite !size_expr_call. lia.
    + eapply tail_at; [eauto|rewrite size_expr_call; simpl; lia].
Qed.

Lemma sim_list_step n : sim_all n -> sim_list (S n).
Proof.
  intros (IHe & IHl & _) r es g q L A s K Hm Hc. simpl eval_list.
  destruct es as [|e t].
  - simpl. eapply star_eq; [apply star_refl|pceq].
  - simpl in Hc. split_code.
    assert (IHa := IHe r e MVal g q L A s K Hm Hc0).
    destruct (eval n p r e) as [v| | |]; cbn [bind]; [|exact IHa|exact I|exact I].
    assert (IHt := IHl r t g _ L A (v :: s) K Hm Hc).
    destruct (eval_list n p r t) as [vs| | |]; cbn [bind];
      [|eapply goes_wrong_star; [exact IHa|exact IHt]|exact I|exact I].
    eapply star_trans; [exact IHa|]. eapply star_eq; [exact IHt|]. simpl. rewrite <- app_assoc. simpl. pceq.
Qed.

Lemma params_env_slots xs : forall i k, In (SArg k) (map snd (params_env i xs)) -> i <= k.
Proof.
  induction xs; simpl; intros i k H; [tauto|]. destruct H as [E|H]; [inv E; lia|]. apply IHxs in H. lia.
Qed.

Lemma wf_params xs i : wf (params_env i xs) 0.
Proof.
  split.
  - revert i; induction xs; simpl; intros i; constructor; auto.
    intros H. apply params_env_slots in H. lia.
  - intros k H. exfalso. revert i H; induction xs; simpl; intros i H; [tauto|].
    destruct H as [E|H]; [discriminate|eauto].
Qed.

Lemma menv_params L xs : forall vs A0, length xs = length vs ->
  menv (combine xs vs) (params_env (length A0) xs) L (A0 ++ vs).
Proof.
  induction xs as [|x xs IH]; intros [|v vs] A0 Hl; simpl in *; try discriminate; constructor.
  - split; auto. simpl. rewrite nth_error_app2 by lia. rewrite Nat.sub_diag. reflexivity.
  - specialize (IH vs (A0 ++ [v])). rewrite app_length, <- app_assoc in IH. simpl in IH.
    replace (length A0 + 1) with (S (length A0)) in IH by lia. apply IH. lia.
Qed.

Lemma sim_call_step n : sim_all n -> sim_call (S n).
Proof.
  intros (_ & _ & _ & IHx & _) f vs s K. simpl call.
  destruct (nth_error p f) as [fn|] eqn:Ef; [|exact I].
  destruct (Nat.eqb_spec (length (f_params fn)) (length vs)) as [Hlen|]; [|exact I]. simpl andb.
  destruct (Nat.leb_spec (length vs) 255); [|exact I].
  pose proof (Hfun f fn Ef) as Hc. unfold compile_func in Hc.
  apply code_at_app in Hc. destruct Hc as [Hpro Hc]. apply code_at_app in Hc. destruct Hc as [Hbody _].
  assert (Hpre : star C (St (fe f) [] [] (vs ++ s) K)
                        (St (fe f + length (prologue fn)) (repeat VNull (ndecl (f_body fn))) vs s K)).
  { unfold prologue in *. destruct ((ndecl (f_body fn) =? 0) && (length (f_params fn) =? 0)) eqn:E0.
    - apply andb_true_iff in E0; destruct E0 as [E1 E2]. apply Nat.eqb_eq in E1, E2.
      rewrite E1. assert (vs = []) by (destruct vs; simpl in *; [auto|lia]). subst vs.
      simpl. rewrite Nat.add_0_r. apply star_refl.
    - apply code_at_cons in Hpro. destruct Hpro as [Hi _].
      eapply star_eq; [apply star_one; unfold step; simpl pc; rewrite Hi; simpl; rewrite E0|].
      + rewrite Hlen. rewrite app_length. destruct (Nat.leb_spec (length vs) (length vs + length s)); [|lia].
        reflexivity.
      + rewrite firstn_app, skipn_app, firstn_all, skipn_all, Nat.sub_diag. simpl. rewrite app_nil_r. pceq. }
  assert (Hm : menv (combine (f_params fn) vs) (params_env 0 (f_params fn)) (repeat VNull (ndecl (f_body fn))) vs)
    by (apply (menv_params _ (f_params fn) vs [] Hlen)).
  assert (IH := IHx _ (f_body fn) _ 0 (fe f + length (prologue fn)) 0 0 0 0 _ _ s K Hm (wf_params _ 0)).
  rewrite repeat_length in IH. specialize (IH (Nat.le_refl _) (Nat.le_refl _) (Nat.le_0_l _) Hbody).
  destruct (exec n p (combine (f_params fn) vs) (f_body fn)) as [[o r']| | |]; cbn [bind]; try exact I.
  - simpl fst. destruct o as [| | |rs]; try exact I.
    destruct (Nat.eqb_spec (length rs) (f_nres fn)) as [Hn|]; [|exact I].
    destruct IH as (ext & L' & A' & _ & _ & _ & _ & qr & Hret & Hst).
    exists qr, L', A'. split; auto. split; [rewrite (Hfr f fn Ef); exact Hn|]. eapply star_trans; eauto.
  - eapply goes_wrong_star; eauto.
Qed.

Lemma stmt_of_block g next st q q0 qn0 brk cont dc dr L A s K res :
  star C (St q L A s K) (St q0 L A s K) ->
  block_post g qn0 q0 brk cont dc dr L A s K res ->
  (forall L' A', star C (St qn0 L' A' s K) (St (q + size_stmt fr dc dr st) L' A' s K)) ->
  env_after g next st = g ->
  stmt_post g next st q brk cont dc dr L A s K res.
Proof.
  intros Hpre Hb Hk Henv. destruct res as [[o r']| | |]; simpl in *; auto.
  - destruct Hb as (L' & A' & HL & HA & Hm & Ho). exists [], L', A'.
    split; [exact HL|]. split; [exact HA|]. split; [exact Hm|]. split; [intros _; symmetry; exact Henv|].
    destruct o; simpl in *.
    + eapply star_trans; [exact Hpre|]. eapply star_trans; [exact Ho|apply Hk].
    + eapply star_trans; eauto.
    + eapply star_trans; eauto.
    + destruct Ho as (qr & ? & ?). exists qr; split; auto. eapply star_trans; eauto.
  - eapply goes_wrong_star; eauto.
Qed.

(* the five obligations of a successful statement *)
Ltac ok_post ext L' A' := exists ext, L', A'; split; [|split; [|split; [|split]]].

Lemma x_drops rs : forall q L A s K, code_at C q (repeat IDrop (length rs)) ->
  star C (St q L A (rs ++ s) K) (St (q + length rs) L A s K).
Proof.
  induction rs as [|v rs IH]; intros q L A s K Hc; simpl in *.
  - rewrite Nat.add_0_r. apply star_refl.
  - apply code_at_cons in Hc. destruct Hc as [Hi Hc].
    eapply star_trans; [eapply x_drop; exact Hi|]. eapply star_eq; [apply IH; exact Hc|]. pceq.
Qed.

Lemma x_dropn k : forall q L A s K, code_at C q (repeat IDrop k) -> k <= length s ->
  star C (St q L A s K) (St (q + k) L A (skipn k s) K).
Proof.
  induction k as [|k IH]; intros q L A s K Hc Hk; simpl in *.
  - rewrite Nat.add_0_r. apply star_refl.
  - destruct s as [|v s]; simpl in Hk; [lia|].
    apply code_at_cons in Hc. destruct Hc as [Hi Hc].
    eapply star_trans; [eapply x_drop; exact Hi|]. eapply star_eq; [apply IH; [exact Hc|lia]|]. pceq.
Qed.

Lemma x_reversen q vs L A s K :
  nth_error C q = Some (IPush (Z.of_nat (length vs))) -> nth_error C (S q) = Some IReverseN -> length vs <= 255 ->
  star C (St q L A (vs ++ s) K) (St (S (S q)) L A (rev vs ++ s) K).
Proof.
  intros H1 H2 Hle.
  eapply star_trans; [apply x_push; [exact H1|apply fits256_small; exact Hle]|].
  apply star_one; unfold step; simpl pc; rewrite H2; unfold exec_instr; simpl stk; cbv iota.
  change (as_int (VInt (Z.of_nat (length vs)))) with (Some (Z.of_nat (length vs))). cbv iota beta.
  destruct (Z.ltb_spec (Z.of_nat (length vs)) 0); [lia|]. rewrite Nat2Z.id.
  pose proof (rev_top_rev (rev vs) s) as Hr. rewrite rev_involutive, rev_length in Hr. rewrite Hr. reflexivity.
Qed.

(* storing the results of a call into freshly declared targets / into existing ones (targets last first) *)
Lemma stores_decl g0 : forall xs rs r g next q L A s K,
  length rs = length xs -> menv r g L A -> wf g next -> next + count_some xs <= length L ->
  code_at C q (store_code true g0 next xs) ->
  exists L', length L' = length L /\ menv (decl_results xs rs r) (alloc_results g next xs) L' A /\
             star C (St q L A (rs ++ s) K) (St (q + length xs) L' A s K).
Proof.
  induction xs as [|[x|] xs IH]; intros [|v rs] r g next q L A s K Hl Hm Hwf Hle Hc; simpl in *; try discriminate.
  - exists L. split; auto. split; auto. rewrite Nat.add_0_r. apply star_refl.
  - apply code_at_cons in Hc. destruct Hc as [Hi Hc].
    destruct (IH rs ((x, v) :: r) ((x, SLoc next) :: g) (S next) (S q) (list_set next v L) A s K) as (L' & HL & Hm' & Hst);
      auto; [apply menv_decl; auto; lia|apply wf_decl; auto|rewrite length_list_set; lia|].
    exists L'. rewrite length_list_set in HL. split; auto. split; auto.
    eapply star_trans; [apply x_stloc; [exact Hi|lia]|]. eapply star_eq; [exact Hst|]. pceq.
  - apply code_at_cons in Hc. destruct Hc as [Hi Hc].
    destruct (IH rs r g next (S q) L A s K) as (L' & HL & Hm' & Hst); auto.
    exists L'. split; auto. split; auto.
    eapply star_trans; [eapply x_drop; exact Hi|]. eapply star_eq; [exact Hst|]. pceq.
Qed.

Lemma stores_assign g next : forall xs rs r r' q L A s K,
  length rs = length xs -> menv r g L A -> NoDup (map snd g) -> assign_results xs rs r = Some r' ->
  code_at C q (store_code false g next xs) ->
  exists L' A', length L' = length L /\ length A' = length A /\ menv r' g L' A' /\
                star C (St q L A (rs ++ s) K) (St (q + length xs) L' A' s K).
Proof.
  induction xs as [|[x|] xs IH]; intros [|v rs] r r' q L A s K Hl Hm Hnd Ha Hc; simpl in *; try discriminate.
  - inv Ha. exists L, A. repeat split; auto. rewrite Nat.add_0_r. apply star_refl.
  - apply code_at_cons in Hc. destruct Hc as [Hi Hc].
    destruct (update x v r) as [r1|] eqn:Eu; [|discriminate].
    destruct (update_lookup _ _ _ _ Eu) as [w Hw]. destruct (menv_lookup _ _ _ _ _ _ Hm Hw) as (sl & Hsl & Hg).
    destruct (menv_update _ _ _ _ _ _ _ _ Hm Hnd Eu Hsl) as [Hok Hm1].
    rewrite (clookup_slot_of _ _ _ Hsl) in Hi.
    destruct (length_slot_set sl v L A) as [E1 E2].
    destruct (IH rs r1 r' (S q) _ _ s K ltac:(lia) Hm1 Hnd Ha Hc) as (L' & A' & HL & HA & Hm' & Hst).
    exists L', A'. split; [lia|]. split; [lia|]. split; auto.
    eapply star_trans; [apply x_store; [exact Hi|exact Hok]|]. eapply star_eq; [exact Hst|]. pceq.
  - apply code_at_cons in Hc. destruct Hc as [Hi Hc].
    destruct (IH rs r r' (S q) L A s K ltac:(lia) Hm Hnd Ha Hc) as (L' & A' & HL & HA & Hm' & Hst).
    exists L', A'. repeat split; auto.
    eapply star_trans; [eapply x_drop; exact Hi|]. eapply star_eq; [exact Hst|]. pceq.
Qed.

Ltac ok_same L A Hm :=
  ok_post (@nil (ident * slot)) L A;
    [reflexivity | reflexivity | exact Hm | let E := fresh in intros E; first [discriminate E | reflexivity] | simpl].

Lemma sim_exec_step n : sim_all n -> sim_exec (S n).
Proof.
  intros (IHe & IHl & IHc & IHx & IHlp & IHmt & IHcs) r st g next q brk cont dc dr L A s K Hm Hwf Hle Hdc Hdr Hc.
  pose proof (menv_length _ _ _ _ Hm) as Hrg.
  destruct st as [|a b|x e|x e|x op e|x|x|c a|c a b|i c po b| | |es|a|f es|decl xs f es|tag cs| |b|num es b rest];
    simpl exec; simpl in Hle.
  - (* SSkip *)
    ok_post (@nil (ident * slot)) L A; auto. simpl. eapply star_eq; [apply star_refl|pceq].
  - (* SSeq *)
    simpl in Hc. split_code.
    assert (IHa := IHx r a g next q brk cont dc dr L A s K Hm Hwf ltac:(lia) Hdc Hdr Hc0).
    destruct (exec n p r a) as [[o1 r1]| | |]; cbn [bind]; [|exact IHa|exact I|exact I].
    destruct IHa as (ext1 & L1 & A1 & HL1 & HA1 & Hm1 & Henv1 & Ho1). simpl fst; simpl snd.
    destruct o1.
    + specialize (Henv1 eq_refl). rewrite Henv1 in Hm1.
      assert (IHb := IHx r1 b (env_after g next a) (next + ndecl a) (q + size_stmt fr dc dr a) brk cont dc dr L1 A1 s K
                         Hm1 (wf_env_after _ _ _ Hwf) ltac:(lia) Hdc ltac:(lia) Hc).
      destruct (exec n p r1 b) as [[o2 r2]| | |]; [|eapply goes_wrong_star; [exact Ho1|exact IHb]|exact I|exact I].
      destruct IHb as (ext2 & L2 & A2 & HL2 & HA2 & Hm2 & Henv2 & Ho2).
      ok_post (ext2 ++ ext1) L2 A2; try lia.
      * rewrite <- app_assoc, Henv1. exact Hm2.
      * intros E. rewrite <- app_assoc, Henv1. simpl. apply Henv2. exact E.
      * destruct o2; simpl in *.
        -- eapply star_trans; [exact Ho1|]. eapply star_eq; [exact Ho2|pceq].
        -- eapply star_trans; eauto.
        -- eapply star_trans; eauto.
        -- destruct Ho2 as (qr & ? & ?). exists qr; split; auto. eapply star_trans; eauto.
    + ok_post ext1 L1 A1; auto. discriminate.
    + ok_post ext1 L1 A1; auto. discriminate.
    + ok_post ext1 L1 A1; auto. discriminate.
  - (* SDecl *)
    simpl in Hc. split_code.
    assert (IHa := IHe r e MVal g q L A s K Hm Hc0).
    destruct (eval n p r e) as [v| | |]; cbn [bind]; [|exact IHa|exact I|exact I].
    ok_post [(x, SLoc next)] (list_set next v L) A.
    + apply length_list_set.
    + reflexivity.
    + simpl. apply menv_decl; auto. lia.
    + reflexivity.
    + simpl. eapply star_trans; [exact IHa|]. xlast x_stloc; [lia|pceq].
  - (* SAssign *)
    simpl in Hc. split_code.
    assert (IHa := IHe r e MVal g q L A s K Hm Hc0).
    destruct (eval n p r e) as [v| | |]; cbn [bind]; [|exact IHa|exact I|exact I].
    unfold assign. destruct (update x v r) as [r'|] eqn:Eu; [|exact I].
    destruct (update_lookup _ _ _ _ Eu) as [w Hw]. destruct (menv_lookup _ _ _ _ _ _ Hm Hw) as (sl & Hsl & Hg).
    destruct (menv_update _ _ _ _ _ _ _ _ Hm (proj1 Hwf) Eu Hsl) as [Hok Hm'].
    rewrite (clookup_slot_of _ _ _ Hsl) in *.
    ok_post (@nil (ident * slot)) (fst (slot_set sl v L A)) (snd (slot_set sl v L A)).
    + apply length_slot_set.
    + apply length_slot_set.
    + exact Hm'.
    + reflexivity.
    + simpl. eapply star_trans; [exact IHa|]. xlast x_store; [exact Hok|pceq].
  - (* SOpAssign *)
    destruct (is_cmp op) eqn:Ecmp; [exact I|]. destruct (lookup x r) as [vx|] eqn:Elx; [|exact I].
    destruct (menv_lookup _ _ _ _ _ _ Hm Elx) as (sl & Hsl & Hg).
    simpl in Hc. rewrite (clookup_slot_of _ _ _ Hsl) in *. split_code.
    replace (S q) with (q + 1) in Hc0 by lia.
    assert (IHa := IHe r e MVal g (q + 1) L A (vx :: s) K Hm Hc0).
    assert (Hld : star C (St q L A s K) (St (q + 1) L A (vx :: s) K))
      by (eapply star_eq; [eapply x_load; eauto|pceq]).
    destruct (eval n p r e) as [v| | |]; cbn [bind];
      [|eapply goes_wrong_star; [exact Hld|exact IHa]|exact I|exact I].
    destruct vx as [zx| |], v as [z| |]; try exact I. simpl eval_binop.
    destruct (arith op zx z) as [w| | |] eqn:Ea; cbn [bind]; try exact I.
    + unfold assign. destruct (update x w r) as [r'|] eqn:Eu; [|exact I].
      destruct (menv_update _ _ _ _ _ _ _ _ Hm (proj1 Hwf) Eu Hsl) as [Hok Hm'].
      ok_post (@nil (ident * slot)) (fst (slot_set sl w L A)) (snd (slot_set sl w L A)).
      * apply length_slot_set.
      * apply length_slot_set.
      * exact Hm'.
      * reflexivity.
      * simpl. eapply star_trans; [exact Hld|]. eapply star_trans; [exact IHa|].
        xthen x_binop; [eauto|]. xlast x_store; [exact Hok|pceq].
    + eapply goes_wrong_star; [exact Hld|]. eapply goes_wrong_star; [exact IHa|].
      xfault x_binop_fault; eauto.
  - (* SInc *)
    destruct (lookup x r) as [[z| |]|] eqn:Elx; try exact I.
    destruct (ret64_cases (z + 1)%Z) as [[-> Hz]| ->]; [|exact I]. cbn [bind].
    unfold assign. destruct (update x (VInt (z + 1)) r) as [r'|] eqn:Eu; [|exact I].
    destruct (menv_lookup _ _ _ _ _ _ Hm Elx) as (sl & Hsl & Hg).
    destruct (menv_update _ _ _ _ _ _ _ _ Hm (proj1 Hwf) Eu Hsl) as [Hok Hm'].
    simpl in Hc. rewrite (clookup_slot_of _ _ _ Hsl) in *. split_code.
    ok_post (@nil (ident * slot)) (fst (slot_set sl (VInt (z + 1)) L A)) (snd (slot_set sl (VInt (z + 1)) L A)).
    + apply length_slot_set.
    + apply length_slot_set.
    + exact Hm'.
    + reflexivity.
    + simpl. xthen x_load; [eauto|]. xthen x_inc; [eauto|]. xlast x_store; [exact Hok|pceq].
  - (* SDec *)
    destruct (lookup x r) as [[z| |]|] eqn:Elx; try exact I.
    destruct (ret64_cases (z - 1)%Z) as [[-> Hz]| ->]; [|exact I]. cbn [bind].
    unfold assign. destruct (update x (VInt (z - 1)) r) as [r'|] eqn:Eu; [|exact I].
    destruct (menv_lookup _ _ _ _ _ _ Hm Elx) as (sl & Hsl & Hg).
    destruct (menv_update _ _ _ _ _ _ _ _ Hm (proj1 Hwf) Eu Hsl) as [Hok Hm'].
    simpl in Hc. rewrite (clookup_slot_of _ _ _ Hsl) in *. split_code.
    ok_post (@nil (ident * slot)) (fst (slot_set sl (VInt (z - 1)) L A)) (snd (slot_set sl (VInt (z - 1)) L A)).
    + apply length_slot_set.
    + apply length_slot_set.
    + exact Hm'.
    + reflexivity.
    + simpl. xthen x_load; [eauto|]. xthen x_dec; [eauto|]. xlast x_store; [exact Hok|pceq].
  - (* SIf *)
    simpl in Hc. split_code.
    assert (IHcd := IHe r c _ g q L A s K Hm Hc0).
    destruct (eval n p r c) as [v| | |]; cbn [bind]; [|exact IHcd|exact I|exact I].
    destruct v as [|bc|]; try exact I. specialize (IHcd bc eq_refl). destruct bc; simpl in IHcd.
    + assert (IHa := IHx r a g next (q + size_expr true c) brk cont dc dr L A s K Hm Hwf ltac:(lia) Hdc Hdr Hc).
      apply block_of_stmt with (k := length r) in IHa; [|exact Hrg].
      eapply stmt_of_block; [exact IHcd|exact IHa| |reflexivity].
      intros L' A'. eapply star_eq; [apply star_refl|pceq].
    + ok_post (@nil (ident * slot)) L A; auto. simpl. eapply star_eq; [exact IHcd|pceq].
  - (* SIfElse *)
    simpl in Hc. split_code.
    assert (IHcd := IHe r c _ g q L A s K Hm Hc0).
    destruct (eval n p r c) as [v| | |]; cbn [bind]; [|exact IHcd|exact I|exact I].
    destruct v as [|bc|]; try exact I. specialize (IHcd bc eq_refl). destruct bc; simpl in IHcd.
    + assert (IHa := IHx r a g next (q + size_expr true c) brk cont dc dr L A s K Hm Hwf ltac:(lia) Hdc Hdr Hc1).
      apply block_of_stmt with (k := length r) in IHa; [|exact Hrg].
      eapply stmt_of_block; [exact IHcd|exact IHa| |reflexivity].
      intros L' A'. xlast x_jmp. pceq.
    + replace (S (q + size_expr true c + size_stmt fr dc dr a)) with (q + size_expr true c + size_stmt fr dc dr a + 1) in Hc by lia.
      assert (IHb := IHx r b g (next + ndecl a) (q + size_expr true c + size_stmt fr dc dr a + 1) brk cont dc dr L A s K Hm
                         (wf_mono g next (next + ndecl a) Hwf ltac:(lia)) ltac:(lia) Hdc Hdr Hc).
      apply block_of_stmt with (k := length r) in IHb; [|exact Hrg].
      eapply stmt_of_block; [exact IHcd|exact IHb| |reflexivity].
      intros L' A'. eapply star_eq; [apply star_refl|pceq].
  - (* SFor *)
    simpl in Hc. apply code_at_app in Hc. destruct Hc as [Hci Hloop]. rewrite length_compile_stmt in Hloop.
    assert (IHi := IHx r i g next q brk cont dc dr L A s K Hm Hwf ltac:(lia) Hdc Hdr Hci).
    destruct (exec n p r i) as [[oi r1]| | |]; cbn [bind]; [|exact IHi|exact I|exact I].
    destruct IHi as (ext1 & L1 & A1 & HL1 & HA1 & Hm1 & Henv1 & Ho1). simpl fst; simpl snd.
    destruct oi; try exact I. specialize (Henv1 eq_refl). rewrite Henv1 in Hm1. simpl in Ho1.
    assert (IHL := IHlp r1 c po b (env_after g next i) (next + ndecl i) (q + size_stmt fr dc dr i) dr L1 A1 s K
                        Hm1 (wf_env_after _ _ _ Hwf) ltac:(lia) Hdr Hloop).
    destruct (loop n p r1 c po b) as [[o2 r2]| | |]; cbn [bind];
      [|eapply goes_wrong_star; [exact Ho1|exact IHL]|exact I|exact I].
    destruct IHL as (L2 & A2 & HL2 & HA2 & Hm2 & Ho2). simpl fst; simpl snd.
    ok_post (@nil (ident * slot)) L2 A2; try lia.
    + rewrite <- Henv1 in Hm2. simpl. eapply menv_truncate; eauto.
    + reflexivity.
    + destruct o2; simpl; try contradiction.
      * eapply star_trans; [exact Ho1|]. eapply star_eq; [exact Ho2|pceq].
      * destruct Ho2 as (qr & ? & ?). exists qr; split; auto. eapply star_trans; eauto.
  - (* SBreak *)
    simpl in Hc. split_code. ok_same L A Hm. eapply x_jmp; eauto.
  - (* SContinue *)
    simpl in Hc. split_code. rewrite repeat_length in *. ok_same L A Hm.
    eapply star_trans; [apply x_dropn; [exact Hc0|lia]|]. eapply x_jmp; eauto.
  - (* SReturn *)
    simpl in Hc. split_code. rewrite repeat_length in *.
    assert (Hd : star C (St q L A s K) (St (q + dr) L A (skipn dr s) K)) by (apply x_dropn; [exact Hc0|lia]).
    assert (IHL := IHl r (rev es) g (q + dr) L A (skipn dr s) K Hm Hc1).
    destruct (eval_list n p r (rev es)) as [vs| | |]; cbn [bind];
      [|eapply goes_wrong_star; [exact Hd|exact IHL]|exact I|exact I].
    ok_same L A Hm. eexists; split; [exact Hi|]. eapply star_trans; [exact Hd|exact IHL].
  - (* SBlock *)
    simpl in Hc.
    assert (IHa := IHx r a g next q brk cont dc dr L A s K Hm Hwf ltac:(lia) Hdc Hdr Hc).
    apply block_of_stmt with (k := length r) in IHa; [|exact Hrg].
    eapply stmt_of_block; [apply star_refl|exact IHa| |reflexivity].
    intros L' A'. apply star_refl.
  - (* SCall *)
    simpl in Hc. split_code.
    assert (Hcs := call_seq n IHl IHc r es g q L A s K f Hm Hc0 Hc1 Hi).
    destruct (eval_list n p r es) as [vs| | |]; cbn [bind] in Hcs |- *; [|exact Hcs|exact I|exact I].
    destruct (call n p f vs) as [rs| | |]; cbn [bind] in Hcs |- *; [|exact Hcs|exact I|exact I].
    destruct Hcs as [Hn Hst]. rewrite <- Hn in Hc.
    ok_same L A Hm. eapply star_trans; [exact Hst|].
    eapply star_eq; [apply x_drops; replace (q + size_args es + length (emit_reverse (length es)) + 1)
                                      with (S (q + size_args es + length (emit_reverse (length es)))) by lia; exact Hc|].
    rewrite Hn. pceq.
  - (* SCallAssign *)
    simpl in Hc. split_code.
    assert (Hcs := call_seq n IHl IHc r es g q L A s K f Hm Hc0 Hc1 Hi).
    destruct (eval_list n p r es) as [vs| | |]; cbn [bind] in Hcs |- *; [|exact Hcs|exact I|exact I].
    destruct (call n p f vs) as [rs| | |]; cbn [bind] in Hcs |- *; [|exact Hcs|exact I|exact I].
    destruct Hcs as [_ Hst].
    destruct (Nat.eqb_spec (length rs) (length xs)) as [Hlx|]; [|exact I]. simpl andb.
    destruct (Nat.leb_spec (length xs) 255) as [Hle255|]; [|exact I].
    set (q1 := q + size_args es + length (emit_reverse (length es))) in *.
    assert (Hrv : star C (St q L A s K) (St (S (S (S q1))) L A (rev rs ++ s) K)).
    { eapply star_trans; [exact Hst|]. replace (q1 + 1) with (S q1) by lia.
      apply x_reversen; [rewrite Hlx; exact Hi0|exact Hi1|lia]. }
    destruct decl.
    + destruct (stores_decl g (rev xs) (rev rs) r g next (S (S (S q1))) L A s K) as (L' & HL & Hm' & Hst2);
        auto; [rewrite !rev_length; exact Hlx|].
      destruct (alloc_results_ext (rev xs) g next) as [ext Hext].
      ok_post ext L' A.
      * exact HL.
      * reflexivity.
      * rewrite <- Hext. exact Hm'.
      * intros _. simpl. symmetry. exact Hext.
      * simpl. eapply star_trans; [exact Hrv|]. eapply star_eq; [exact Hst2|]. rewrite rev_length. unfold q1. pceq.
    + destruct (assign_results (rev xs) (rev rs) r) as [r'|] eqn:Ea; [|exact I].
      destruct (stores_assign g next (rev xs) (rev rs) r r' (S (S (S q1))) L A s K) as (L' & A' & HL & HA & Hm' & Hst2);
        auto; [rewrite !rev_length; exact Hlx|exact (proj1 Hwf)|].
      ok_post (@nil (ident * slot)) L' A'.
      * exact HL.
      * exact HA.
      * exact Hm'.
      * intros _. reflexivity.
      * simpl. eapply star_trans; [exact Hrv|]. eapply star_eq; [exact Hst2|]. rewrite rev_length. unfold q1. pceq.
  - (* SSwitch *)
    assert (Hrest : forall tv qs,
      code_at C qs (compile_stmt fe fr g next qs (qs + size_stmt fr dc dr cs) cont dc dr cs) ->
      nth_error C (qs + size_stmt fr dc dr cs) = Some IDrop ->
      star C (St q L A s K) (St qs L A (tv :: s) K) ->
      qs + size_stmt fr dc dr cs + 1 = q + size_stmt fr dc dr (SSwitch tag cs) ->
      stmt_post g next (SSwitch tag cs) q brk cont dc dr L A s K
        (bind (exec_cases n p r tv cs) (fun or =>
           let r1 := truncate (length r) (snd or) in
           match fst or with OBreak => Ok (ONormal, r1) | o => Ok (o, r1) end))).
    { intros tv qs Hcs Hdrop Htag Hsz.
      assert (IH := IHcs r tv cs g next qs (qs + size_stmt fr dc dr cs) cont dc dr L A s K Hm Hwf Hle Hdc Hdr Hcs eq_refl).
      destruct (exec_cases n p r tv cs) as [[o r1]| | |]; cbn [bind];
        [|eapply goes_wrong_star; [exact Htag|exact IH]|exact I|exact I].
      destruct IH as (ext & L' & A' & HL & HA & Hm' & Ho). simpl fst; simpl snd.
      assert (Hmt : menv (truncate (length r) r1) g L' A') by (eapply menv_truncate; eauto).
      assert (Hend : forall L2 A2, star C (St (qs + size_stmt fr dc dr cs) L2 A2 (tv :: s) K)
                                       (St (q + size_stmt fr dc dr (SSwitch tag cs)) L2 A2 s K)).
      { intros L2 A2. eapply star_eq; [eapply x_drop; exact Hdrop|]. f_equal. lia. }
      destruct o; simpl in Ho;
        (ok_post (@nil (ident * slot)) L' A';
          [exact HL|exact HA|exact Hmt|let E := fresh in intros E; first [discriminate E|reflexivity]|simpl]).
      - eapply star_trans; [exact Htag|]. eapply star_trans; [exact Ho|apply Hend].
      - eapply star_trans; [exact Htag|]. eapply star_trans; [exact Ho|apply Hend].
      - eapply star_trans; [exact Htag|exact Ho].
      - destruct Ho as (qr & ? & ?). exists qr; split; auto. eapply star_trans; [exact Htag|eassumption]. }
    destruct tag as [e|]; simpl in Hc; split_code.
    + assert (IHt := IHe r e MVal g q L A s K Hm Hc0).
      destruct (eval n p r e) as [tv| | |]; cbn [bind]; [|exact IHt|exact I|exact I].
      apply (Hrest tv (q + size_expr false e)); auto. simpl. lia.
    + replace (S q) with (q + 1) in * by lia.
      apply (Hrest (VBool true) (q + 1)); auto.
      * eapply star_eq; [apply x_pushb; exact Hi|]. pceq.
      * simpl. lia.
  - exact I.
  - exact I.
  - exact I.
Qed.

Lemma sim_loop_step n : sim_all n -> sim_loop (S n).
Proof.
  intros (IHe & _ & _ & IHx & IHlp & _ & _) r c po b g next start dr L A s K Hm Hwf Hle Hdr Hcode.
  pose proof (menv_length _ _ _ _ Hm) as Hrg.
  pose proof Hcode as Hc. unfold loop_code in Hc. cbv zeta in Hc. split_code.
  replace (S (start + size_expr false c)) with (start + size_expr false c + 1) in * by lia.
  simpl loop.
  assert (IHc := IHe r c MVal g start L A s K Hm Hc0).
  destruct (eval n p r c) as [v| | |]; cbn [bind]; [|exact IHc|exact I|exact I].
  destruct v as [|bc|]; try exact I. destruct bc.
  - (* condition true *)
    assert (Hcond : star C (St start L A s K) (St (start + size_expr false c + 1) L A s K)).
    { eapply star_trans; [exact IHc|]. eapply star_eq; [eapply x_jmpifnot; eauto|]. pceq. }
    assert (IHb := IHx r b g next _ _ _ 0 dr L A s K Hm Hwf ltac:(lia) (Nat.le_0_l _) Hdr Hc1).
    apply block_of_stmt with (k := length r) in IHb; [|exact Hrg].
    destruct (exec n p r b) as [[ob rb]| | |]; cbn [bind] in *;
      [|eapply goes_wrong_star; [exact Hcond|exact IHb]|exact I|exact I].
    destruct IHb as (L1 & A1 & HL1 & HA1 & Hm1 & Ho1). simpl fst in *; simpl snd in *.
    assert (Hcont : star C (St start L A s K) (St (start + size_expr false c + 1 + size_stmt fr 0 dr b) L1 A1 s K) ->
      match bind (exec n p (truncate (length r) rb) po)
              (fun or2 => match fst or2 with
                          | ONormal => loop n p (truncate (length r) (snd or2)) c po b
                          | _ => Undef end) with
      | Ok (o, r') =>
          exists L' A', length L' = length L /\ length A' = length A /\ menv r' g L' A' /\
            match o with
            | ONormal => star C (St start L A s K)
                           (St (start + size_expr false c + 1 + size_stmt fr 0 dr b + size_stmt fr 0 dr po + 1) L' A' s K)
            | OReturn v => exists qr, nth_error C qr = Some IRet /\ star C (St start L A s K) (St qr L' A' (v ++ skipn dr s) K)
            | _ => False
            end
      | Fault => goes_wrong C (St start L A s K)
      | _ => True
      end).
    { intros Hat.
      assert (IHp := IHx (truncate (length r) rb) po g (next + ndecl b) _ (start + size_expr false c + 1 + size_stmt fr 0 dr b + size_stmt fr 0 dr po + 1)
                         (start + size_expr false c + 1 + size_stmt fr 0 dr b) 0 dr L1 A1 s K Hm1
                         (wf_mono g next (next + ndecl b) Hwf ltac:(lia)) ltac:(lia) (Nat.le_0_l _) Hdr Hc2).
      apply block_of_stmt with (k := length r) in IHp; [|exact Hrg].
      destruct (exec n p (truncate (length r) rb) po) as [[op rp]| | |]; cbn [bind] in *;
        [|eapply goes_wrong_star; [exact Hat|exact IHp]|exact I|exact I].
      destruct IHp as (L2 & A2 & HL2 & HA2 & Hm2 & Ho2). simpl fst in *; simpl snd in *.
      destruct op; try exact I. simpl in Ho2.
      assert (Hback : star C (St start L A s K) (St start L2 A2 s K)).
      { eapply star_trans; [exact Hat|]. eapply star_trans; [exact Ho2|]. xstep x_jmp. }
      assert (IHL := IHlp (truncate (length r) rp) c po b g next start dr L2 A2 s K Hm2 Hwf ltac:(lia) Hdr Hcode).
      destruct (loop n p (truncate (length r) rp) c po b) as [[o3 r3]| | |];
        [|eapply goes_wrong_star; [exact Hback|exact IHL]|exact I|exact I].
      destruct IHL as (L3 & A3 & HL3 & HA3 & Hm3 & Ho3).
      exists L3, A3. split; [lia|]. split; [lia|]. split; [exact Hm3|].
      destruct o3; try contradiction.
      - eapply star_trans; [exact Hback|exact Ho3].
      - destruct Ho3 as (qr & ? & ?). exists qr; split; auto. eapply star_trans; eauto. }
    destruct ob; simpl in Ho1.
    + apply Hcont. eapply star_trans; [exact Hcond|exact Ho1].
    + exists L1, A1. split; [exact HL1|]. split; [exact HA1|]. split; [exact Hm1|].
      eapply star_trans; [exact Hcond|exact Ho1].
    + apply Hcont. eapply star_trans; [exact Hcond|exact Ho1].
    + exists L1, A1. split; [exact HL1|]. split; [exact HA1|]. split; [exact Hm1|].
      destruct Ho1 as (qr & ? & ?). exists qr; split; auto. eapply star_trans; eauto.
  - (* condition false *)
    exists L, A. split; [reflexivity|]. split; [reflexivity|]. split; [exact Hm|].
    eapply star_trans; [exact IHc|]. eapply star_eq; [eapply x_jmpifnot; eauto|]. pceq.
Qed.

Lemma sim_match_step n : sim_all n -> sim_match (S n).
Proof.
  intros (IHe & _ & _ & _ & _ & IHmt & _) r num tv es g q pstart pend L A s K Hm Hps Hc.
  destruct es as [|e t]; simpl match_any; [intros H; congruence|].
  (* the first test: DUP e EQ; the jump differs between the last expression and the others *)
  assert (Hfirst : forall jmp rest, code_at C q (IDup :: compile_expr fe g (q + 1) e MVal ++ [if num then ICmp CEq else IEqual; jmp] ++ rest) ->
    match eval n p r e with
    | Ok v => forall m, val_match num tv v = Ok m ->
        nth_error C (q + size_expr false e + 2) = Some jmp /\
        star C (St q L A (tv :: s) K) (St (q + size_expr false e + 2) L A (VBool m :: tv :: s) K)
    | Fault => goes_wrong C (St q L A (tv :: s) K)
    | _ => True
    end).
  { intros jmp rest Hcode. split_code. replace (S q) with (q + 1) in * by lia.
    assert (Hd : star C (St q L A (tv :: s) K) (St (q + 1) L A (tv :: tv :: s) K))
      by (eapply star_eq; [apply x_dup; exact Hi|pceq]).
    assert (IH := IHe r e MVal g (q + 1) L A (tv :: tv :: s) K Hm Hc0).
    destruct (eval n p r e) as [v| | |]; [|eapply goes_wrong_star; [exact Hd|exact IH]|exact I|exact I].
    intros m Hvm. split.
    - replace (q + size_expr false e + 2) with (S (q + 1 + size_expr false e)) by lia. exact Hi1.
    - eapply star_trans; [exact Hd|]. eapply star_trans; [exact IH|].
      eapply star_eq; [eapply x_eq; [exact Hi0|exact Hvm]|]. pceq. }
  destruct t as [|e2 t].
  - simpl in Hc. specialize (Hfirst (IJmpIfNot pend) []). rewrite app_nil_r in Hfirst. specialize (Hfirst Hc).
    destruct (eval n p r e) as [v| | |]; cbn [bind]; [|exact Hfirst|exact I|exact I].
    destruct (val_match num tv v) as [m| | |] eqn:Evm; cbn [bind]; try exact I;
      [|exfalso; clear - Evm; destruct num, tv, v; simpl in Evm; discriminate].
    destruct (Hfirst m eq_refl) as [Hj Hst].
    destruct m.
    + intros _. eapply star_trans; [exact Hst|]. eapply star_eq; [eapply x_jmpifnot; exact Hj|].
      simpl in Hps. subst pstart. pceq.
    + destruct n; simpl; [exact I|]. intros _.
      eapply star_trans; [exact Hst|]. eapply star_eq; [eapply x_jmpifnot; exact Hj|]. reflexivity.
  - rewrite compile_tests_cons2 in Hc.
    specialize (Hfirst (IJmpIf pstart) _ Hc).
    destruct (eval n p r e) as [v| | |]; cbn [bind]; [|exact Hfirst|exact I|exact I].
    destruct (val_match num tv v) as [m| | |] eqn:Evm; cbn [bind]; try exact I;
      [|exfalso; clear - Evm; destruct num, tv, v; simpl in Evm; discriminate].
    destruct (Hfirst m eq_refl) as [Hj Hst].
    destruct m.
    + intros _. eapply star_trans; [exact Hst|]. eapply star_eq; [eapply (x_jmp_on _ _ true); exact Hj|]. reflexivity.
    + assert (Hc2 : code_at C (q + size_expr false e + 3)
                      (compile_tests fe g (q + size_expr false e + 3) (if num then ICmp CEq else IEqual) pstart pend (e2 :: t))).
      { apply code_at_cons in Hc. destruct Hc as [_ Hc]. apply code_at_app in Hc. destruct Hc as [_ Hc].
        apply code_at_app in Hc. destruct Hc as [_ Hc]. rewrite length_compile_expr in Hc. cbn [length is_jmp] in Hc.
        replace (S q + size_expr false e + 2) with (q + size_expr false e + 3) in Hc by lia. exact Hc. }
      assert (IH := IHmt r num tv (e2 :: t) g (q + size_expr false e + 3) pstart pend L A s K Hm
                         ltac:(rewrite size_tests_cons in Hps; lia) Hc2).
      destruct (match_any n p r num tv (e2 :: t)) as [m2| | |]; try exact I.
      * intros _. eapply star_trans; [exact Hst|].
        eapply star_trans; [eapply star_eq; [eapply (x_jmp_on _ _ true); exact Hj|reflexivity]|].
        simpl. replace (S (q + size_expr false e + 2)) with (q + size_expr false e + 3) by lia.
        apply IH. discriminate.
      * eapply goes_wrong_star; [exact Hst|].
        eapply goes_wrong_star; [eapply star_eq; [eapply (x_jmp_on _ _ true); exact Hj|reflexivity]|].
        simpl. replace (S (q + size_expr false e + 2)) with (q + size_expr false e + 3) by lia. exact IH.
Qed.

Lemma sim_cases_step n : sim_all n -> sim_cases (S n).
Proof.
  intros (_ & _ & _ & IHx & _ & IHmt & IHcs) r tv cs g next q swend cont dc dr L A s K Hm Hwf Hle Hdc Hdr Hc Hsw.
  destruct cs; simpl exec_cases; try exact I; simpl in Hle, Hsw, Hc.
  - (* CNil *)
    exists (@nil (ident * slot)), L, A. repeat split; auto. simpl. subst swend. rewrite Nat.add_0_r. apply star_refl.
  - (* CDefault *)
    assert (IH := IHx r cs g next q swend cont (S dc) (S dr) L A (tv :: s) K Hm Hwf Hle ltac:(lia) ltac:(simpl; lia) Hc).
    destruct (exec n p r cs) as [[o r']| | |]; try exact IH; try exact I.
    destruct IH as (ext & L' & A' & HL & HA & Hm' & _ & Ho).
    exists ext, L', A'. repeat split; auto. subst swend. exact Ho.
  - (* CCase *)
    destruct es as [|e0 es0]; [exact I|]. remember (e0 :: es0) as es1 eqn:Hes1.
    apply code_at_app in Hc. destruct Hc as [Htests Hc]. rewrite length_compile_tests in Hc.
    apply code_at_app in Hc. destruct Hc as [Hbody Hc]. rewrite length_compile_stmt in Hc.
    apply code_at_app in Hc. destruct Hc as [Hjmp Hrest].
    assert (IHt := IHmt r num tv es1 g q _ _ L A s K Hm eq_refl Htests).
    destruct (match_any n p r num tv es1) as [m| | |]; cbn [bind]; [|exact IHt|exact I|exact I].
    specialize (IHt ltac:(subst es1; discriminate)).
    destruct m.
    + (* the body of this clause *)
      assert (IH := IHx r cs1 g next (q + size_tests es1) swend cont (S dc) (S dr) L A (tv :: s) K Hm Hwf ltac:(lia)
                        ltac:(lia) ltac:(simpl; lia) Hbody).
      destruct (exec n p r cs1) as [[o r']| | |]; [|eapply goes_wrong_star; [exact IHt|exact IH]|exact I|exact I].
      destruct IH as (ext & L' & A' & HL & HA & Hm' & _ & Ho).
      exists ext, L', A'. split; [exact HL|]. split; [exact HA|]. split; [exact Hm'|].
      destruct o; simpl in Ho |- *.
      * eapply star_trans; [exact IHt|]. eapply star_trans; [exact Ho|].
        destruct (is_nil cs2) eqn:En.
        -- destruct cs2; try discriminate. simpl in Hsw. eapply star_eq; [apply star_refl|]. f_equal. lia.
        -- apply code_at_cons in Hjmp. destruct Hjmp as [Hj _]. eapply x_jmp. exact Hj.
      * eapply star_trans; [exact IHt|exact Ho].
      * eapply star_trans; [exact IHt|exact Ho].
      * destruct Ho as (qr & ? & ?). exists qr; split; auto. eapply star_trans; [exact IHt|eassumption].
    + (* the following clauses *)
      assert (Hr2 : code_at C (q + size_tests es1 + size_stmt fr (S dc) (S dr) cs1 + (if is_nil cs2 then 0 else 1))
                      (compile_stmt fe fr g (next + ndecl cs1)
                         (q + size_tests es1 + size_stmt fr (S dc) (S dr) cs1 + (if is_nil cs2 then 0 else 1))
                         swend cont dc dr cs2)).
      { destruct (is_nil cs2); cbn [length] in Hrest; exact Hrest. }
      assert (IH := IHcs r tv cs2 g (next + ndecl cs1) _ swend cont dc dr L A s K Hm
                         (wf_mono g next (next + ndecl cs1) Hwf ltac:(lia)) ltac:(lia) Hdc Hdr Hr2 ltac:(lia)).
      destruct (exec_cases n p r tv cs2) as [[o r']| | |]; [|eapply goes_wrong_star; [exact IHt|exact IH]|exact I|exact I].
      destruct IH as (ext & L' & A' & HL & HA & Hm' & Ho).
      exists ext, L', A'. split; [exact HL|]. split; [exact HA|]. split; [exact Hm'|].
      destruct o; simpl in Ho |- *; try (eapply star_trans; [exact IHt|exact Ho]).
      destruct Ho as (qr & ? & ?). exists qr; split; auto. eapply star_trans; [exact IHt|eassumption].
Qed.

Lemma sim_all_n n : sim_all n.
Proof.
  induction n; [apply sim_all_0|].
  repeat split; [apply sim_expr_step|apply sim_list_step|apply sim_call_step|apply sim_exec_step|apply sim_loop_step
                |apply sim_match_step|apply sim_cases_step]; exact IHn.
Qed.

End Sim.

(* ---------- layout of the compiled program ---------- *)
Lemma length_compile_func fe fr base f : length (compile_func fe fr base f) = size_func fr f.
Proof. unfold compile_func, size_func. rewrite !app_length, length_compile_stmt. lia. Qed.

Lemma code_at_funcs fe fr : forall p base Cpre f fn, length Cpre = base -> nth_error p f = Some fn ->
  code_at (Cpre ++ compile_funcs fe fr base p) (nth f (entries fr base p) 0)
          (compile_func fe fr (nth f (entries fr base p) 0) fn).
Proof.
  induction p as [|f0 t IH]; intros base Cpre f fn Hl Hn; [destruct f; discriminate|].
  destruct f as [|f']; simpl in *.
  - inv Hn. apply code_at_self_app.
  - specialize (IH (base + size_func fr f0) (Cpre ++ compile_func fe fr base f0) f' fn).
    rewrite <- app_assoc in IH. apply IH; auto. rewrite app_length, length_compile_func. lia.
Qed.

Lemma program_layout p f fn : nth_error p f = Some fn ->
  code_at (compile_program p) (entry p f) (compile_func (entry p) (nres p) (entry p f) fn).
Proof. intros H. apply (code_at_funcs (entry p) (nres p) p 0 [] f fn eq_refl H). Qed.

Lemma nres_spec p f fn : nth_error p f = Some fn -> nres p f = f_nres fn.
Proof. unfold nres. intros ->. reflexivity. Qed.

(* the simulation for a call in any context *)
Lemma call_simulation p f vs s K n :
  match call n p f vs with
  | Ok rs => exists qr L A, nth_error (compile_program p) qr = Some IRet /\
               star (compile_program p) (St (entry p f) [] [] (vs ++ s) K) (St qr L A (rs ++ s) K)
  | Fault => goes_wrong (compile_program p) (St (entry p f) [] [] (vs ++ s) K)
  | _ => True
  end.
Proof.
  pose proof (sim_all_n p (compile_program p) (entry p) (nres p) (program_layout p) (nres_spec p) n) as (_ & _ & Hc & _ & _).
  specialize (Hc f vs s K). destruct (call n p f vs); auto.
  destruct Hc as (qr & L & A & H1 & _ & H2). eauto.
Qed.

(* ---------- the theorem ---------- *)
Theorem compile_correct p f vs n :
  match run_src n p f vs with
  | Ok rs => exists m, run_tgt (compile_program p) m (entry p f) vs = THalt rs
  | Fault => exists m, run_tgt (compile_program p) m (entry p f) vs = TFault
  | _ => True
  end.
Proof.
  pose proof (call_simulation p f vs [] [] n) as Hc. rewrite app_nil_r in Hc. unfold run_src, run_tgt, init_state.
  destruct (call n p f vs) as [rs| | |]; auto.
  - destruct Hc as (qr & L & A & Hret & Hst). rewrite app_nil_r in Hst. eapply star_run_halt; [exact Hst|].
    unfold step. simpl. rewrite Hret. reflexivity.
  - apply goes_wrong_run. exact Hc.
Qed.

Lemma run_det C s m1 m2 r1 r2 :
  run C m1 s = r1 -> r1 <> TTimeout -> run C m2 s = r2 -> r2 <> TTimeout -> r1 = r2.
Proof.
  intros H1 N1 H2 N2.
  rewrite <- (run_mono C m1 s r1 H1 N1 (max m1 m2)) by lia.
  rewrite <- (run_mono C m2 s r2 H2 N2 (max m1 m2)) by lia. reflexivity.
Qed.

(* whenever the source run is defined (values or a division by zero), every run of the compiled code
   that is given enough steps ends the same way: it halts with exactly those values, or it faults *)
Theorem compile_correct_any_fuel p f vs n m t :
  run_tgt (compile_program p) m (entry p f) vs = t -> t <> TTimeout ->
  match run_src n p f vs with
  | Ok rs => t = THalt rs
  | Fault => t = TFault
  | _ => True
  end.
Proof.
  intros Ht Hn. pose proof (compile_correct p f vs n) as H.
  destruct (run_src n p f vs) as [rs| | |]; auto; destruct H as [m0 H0]; unfold run_tgt in *.
  - apply (run_det _ _ m m0 t (THalt rs) Ht Hn H0). discriminate.
  - apply (run_det _ _ m m0 t TFault Ht Hn H0). discriminate.
Qed.

Theorem compile_fault_iff p f vs n m t :
  (run_src n p f vs = Fault \/ exists rs, run_src n p f vs = Ok rs) ->
  run_tgt (compile_program p) m (entry p f) vs = t -> t <> TTimeout ->
  (t = TFault <-> run_src n p f vs = Fault).
Proof.
  intros Hs Ht Hn. pose proof (compile_correct_any_fuel p f vs n m t Ht Hn) as H.
  destruct Hs as [E|[v E]]; rewrite E in *; split; intros H1; auto; congruence.
Qed.
