(* C14 — the shared frame: several bodies compiled into ONE method with ONE INITSLOT.

   pkg/compiler (analysis.go traverseGlobals / codegen.go convertInitFuncs, convertDeployFuncs) compiles the bodies
   of all init() functions of a program, one after the other, into the method _initialize, and the bodies of the
   _deploy functions of all packages into the method _deploy.  Each body is compiled like a function body of its own
   (fresh scope, slot numbering restarting at 0), but there is a single prologue, whose local count has to be
   enough for EVERY body: the compiler takes the maximum.  (Between two bodies the real compiler also stores Null
   into the slots the previous body used; the fragment needs no such reset — every declaration stores before any
   load — and the model leaves it out.  The stores of that reset go to indices below the previous body's count,
   hence below the maximum; the harness checks that on the real bytecode.)

   here                        pkg/compiler
   -------------------------   -------------------------------------------------------------
   [compile_bodies]            convertInitFuncs / convertDeployFuncs: convertFuncDecl per body, no INITSLOT, no RET
   [frame_locals] (maximum)    maxCnt / maxCount, written into the INITSLOT by writeJumps (reverseOffsetMap)
   [frame_prologue]            INITSLOT locals args, deleted when both are 0
   [params]                    [] for _initialize, [data; isUpdate] for _deploy: ONE set of argument slots for all
                               bodies — an assignment to a parameter is seen by the bodies after it (finding F158;
                               Go gives every function its own copies; no difference for _initialize)
   a body that returns         leaves the whole frame (findings F151): outside the statement ([Undef])

   Proved: for ANY count that covers every body (the maximum, the sum, ...) the compiled frame runs the bodies in
   sequence — it halts iff they all complete, faults iff one of them divides by zero — so no slot index is ever
   out of range; the maximum is the least such count; and the rule "count of the LAST body" is refuted. *)
From NG Require Import Common.Tactics Lang.MiniGo Lang.Target Lang.Compile Lang.CorrectBase Lang.Correct.
Open Scope nat_scope.

(* ---------- source: the bodies one after the other ---------- *)
(* every body starts in the scope of the parameters alone; its own locals are gone when it ends *)
Fixpoint exec_bodies (n : nat) (p : program) (r : env) (bs : list stmt) : res env :=
  match bs with
  | [] => Ok r
  | b :: t =>
      bind (exec n p r b) (fun or =>
        match fst or with
        | ONormal => exec_bodies n p (truncate (length r) (snd or)) t
        | _ => Undef
        end)
  end.

(* ---------- the local count of the frame ---------- *)
Definition frame_locals (bs : list stmt) : nat := fold_right (fun b m => Nat.max (ndecl b) m) 0 bs.
Definition sum_locals (bs : list stmt) : nat := fold_right (fun b m => ndecl b + m) 0 bs.
Definition last_locals (bs : list stmt) : nat := ndecl (last bs SSkip).
Definition first_locals (bs : list stmt) : nat := ndecl (hd SSkip bs).

Definition covers (count : nat) (bs : list stmt) : Prop := forall b, In b bs -> ndecl b <= count.

Lemma frame_locals_covers bs : covers (frame_locals bs) bs.
Proof.
  induction bs as [|a t IH]; intros b Hin; simpl in *; [tauto|].
  destruct Hin as [->|Hin]; [lia|]. apply IH in Hin. lia.
Qed.

Lemma sum_locals_covers bs : covers (sum_locals bs) bs.
Proof.
  induction bs as [|a t IH]; intros b Hin; simpl in *; [tauto|].
  destruct Hin as [->|Hin]; [lia|]. apply IH in Hin. lia.
Qed.

Lemma frame_locals_least bs k : covers k bs -> frame_locals bs <= k.
Proof.
  induction bs as [|a t IH]; intros H; simpl; [lia|].
  assert (ndecl a <= k) by (apply H; simpl; auto).
  assert (frame_locals t <= k) by (apply IH; intros b Hb; apply H; simpl; auto). lia.
Qed.

(* ---------- the compiled frame ---------- *)
Section Frame.
Variable fe : nat -> nat.
Variable fr : nat -> nat.

Fixpoint size_bodies (bs : list stmt) : nat :=
  match bs with [] => 0 | b :: t => size_stmt fr 0 0 b + size_bodies t end.

Fixpoint compile_bodies (g : cenv) (pc : nat) (bs : list stmt) : code :=
  match bs with
  | [] => []
  | b :: t => compile_stmt fe fr g 0 pc 0 0 0 0 b ++ compile_bodies g (pc + size_stmt fr 0 0 b) t
  end.

Lemma length_compile_bodies g bs : forall pc, length (compile_bodies g pc bs) = size_bodies bs.
Proof. induction bs; intros pc; simpl; auto. rewrite app_length, length_compile_stmt, IHbs. reflexivity. Qed.

Definition frame_prologue (nl na : nat) : code :=
  if (nl =? 0) && (na =? 0) then [] else [IInitSlot nl na].

Definition compile_frame (count : nat) (params : list ident) (base : nat) (bs : list stmt) : code :=
  let pro := frame_prologue count (length params) in
  pro ++ compile_bodies (params_env 0 params) (base + length pro) bs ++ [IRet].

Definition size_frame (count : nat) (params : list ident) (bs : list stmt) : nat :=
  length (frame_prologue count (length params)) + size_bodies bs + 1.

Lemma length_compile_frame count params base bs :
  length (compile_frame count params base bs) = size_frame count params bs.
Proof. unfold compile_frame, size_frame. rewrite !app_length, length_compile_bodies. simpl. lia. Qed.

End Frame.

(* ---------- the simulation ---------- *)
Section FrameSim.
Variable p : program.
Variable C : code.
Variable fe : nat -> nat.
Variable fr : nat -> nat.
Hypothesis Hfun : forall f fn, nth_error p f = Some fn -> code_at C (fe f) (compile_func fe fr (fe f) fn).
Hypothesis Hfr : forall f fn, nth_error p f = Some fn -> fr f = f_nres fn.

Lemma bodies_sim n : forall bs r g q L A s K,
  menv r g L A -> wf g 0 -> covers (length L) bs ->
  code_at C q (compile_bodies fe fr g q bs) ->
  match exec_bodies n p r bs with
  | Ok r' => exists L' A', length L' = length L /\ length A' = length A /\ menv r' g L' A' /\
               star C (St q L A s K) (St (q + size_bodies fr bs) L' A' s K)
  | Fault => goes_wrong C (St q L A s K)
  | _ => True
  end.
Proof.
  induction bs as [|b t IH]; intros r g q L A s K Hm Hwf Hcov Hc; simpl.
  - exists L, A. repeat split; auto. rewrite Nat.add_0_r. apply star_refl.
  - apply code_at_app in Hc. destruct Hc as [Hb Ht]. rewrite length_compile_stmt in Ht.
    pose proof (sim_all_n p C fe fr Hfun Hfr n) as (_ & _ & _ & Hx & _).
    assert (Hnb : 0 + ndecl b <= length L) by (simpl; apply Hcov; simpl; auto).
    specialize (Hx r b g 0 q 0 0 0 0 L A s K Hm Hwf Hnb (Nat.le_refl _) (Nat.le_0_l _) Hb).
    destruct (exec n p r b) as [[o r1]| | |]; cbn [bind]; try exact I.
    + simpl fst. simpl snd. destruct o; try exact I.
      destruct Hx as (ext & L1 & A1 & HL & HA & Hm1 & _ & Hst). simpl in Hst.
      assert (Hm2 : menv (truncate (length r) r1) g L1 A1).
      { eapply menv_truncate; [exact Hm1|]. apply (menv_length _ _ _ _ Hm). }
      assert (Hcov1 : covers (length L1) t) by (rewrite HL; intros x Hin; apply Hcov; simpl; auto).
      specialize (IH (truncate (length r) r1) g (q + size_stmt fr 0 0 b) L1 A1 s K Hm2 Hwf Hcov1 Ht).
      destruct (exec_bodies n p (truncate (length r) r1) t) as [r2| | |]; try exact I.
      * destruct IH as (L2 & A2 & HL2 & HA2 & Hm3 & Hst2).
        exists L2, A2. repeat split; try congruence.
        eapply star_trans; [exact Hst|]. eapply star_eq; [exact Hst2|]. f_equal. lia.
      * eapply goes_wrong_star; eauto.
    + exact Hx.
Qed.

(* the frame entered like a method: arguments on the stack, first one on top *)
Theorem frame_sim count params bs base vs s K n :
  code_at C base (compile_frame fe fr count params base bs) ->
  covers count bs -> length params = length vs ->
  match exec_bodies n p (combine params vs) bs with
  | Ok r' => exists qr L A, nth_error C qr = Some IRet /\ length L = count /\ menv r' (params_env 0 params) L A /\
               star C (St base [] [] (vs ++ s) K) (St qr L A s K)
  | Fault => goes_wrong C (St base [] [] (vs ++ s) K)
  | _ => True
  end.
Proof.
  intros Hc Hcov Hlen. unfold compile_frame in Hc.
  apply code_at_app in Hc. destruct Hc as [Hpro Hc]. apply code_at_app in Hc. destruct Hc as [Hbs Hret].
  rewrite length_compile_bodies in Hret. apply code_at_cons in Hret. destruct Hret as [Hret _].
  set (q0 := base + length (frame_prologue count (length params))) in *.
  assert (Hpre : star C (St base [] [] (vs ++ s) K) (St q0 (repeat VNull count) vs s K)).
  { unfold q0, frame_prologue in *. destruct ((count =? 0) && (length params =? 0)) eqn:E0.
    - apply andb_true_iff in E0; destruct E0 as [E1 E2]. apply Nat.eqb_eq in E1, E2.
      rewrite E1. assert (vs = []) by (destruct vs; simpl in *; [auto|lia]). subst vs.
      simpl. rewrite Nat.add_0_r. apply star_refl.
    - apply code_at_cons in Hpro. destruct Hpro as [Hi _].
      eapply star_eq; [apply star_one; unfold step; simpl pc; rewrite Hi; simpl; rewrite E0|].
      + rewrite Hlen. rewrite app_length. destruct (Nat.leb_spec (length vs) (length vs + length s)); [|lia].
        reflexivity.
      + rewrite firstn_app, skipn_app, firstn_all, skipn_all, Nat.sub_diag. simpl. rewrite app_nil_r.
        f_equal. simpl. lia. }
  assert (Hm : menv (combine params vs) (params_env 0 params) (repeat VNull count) vs)
    by (apply (menv_params _ params vs [] Hlen)).
  assert (Hcov0 : covers (length (repeat VNull count)) bs) by (rewrite repeat_length; exact Hcov).
  pose proof (bodies_sim n bs _ _ q0 _ _ s K Hm (wf_params p C fe fr Hfun Hfr _ 0) Hcov0 Hbs) as H.
  destruct (exec_bodies n p (combine params vs) bs) as [r'| | |]; try exact I.
  - destruct H as (L & A & HL & _ & Hm' & Hst). rewrite repeat_length in HL.
    exists (q0 + size_bodies fr bs), L, A. repeat split; auto. eapply star_trans; eauto.
  - eapply goes_wrong_star; eauto.
Qed.

End FrameSim.

(* ---------- a whole program: the frame first (offset 0, as _initialize is), the functions behind it ---------- *)
Definition entry_after (p : program) (off : nat) (f : nat) : nat := nth f (entries (nres p) off p) 0.

Definition compile_with_frame (count : nat) (params : list ident) (bs : list stmt) (p : program) : code :=
  let off := size_frame (nres p) count params bs in
  compile_frame (entry_after p off) (nres p) count params 0 bs
  ++ compile_funcs (entry_after p off) (nres p) off p.

Theorem frame_correct p count params bs vs n :
  covers count bs -> length params = length vs ->
  match exec_bodies n p (combine params vs) bs with
  | Ok _ => exists m, run_tgt (compile_with_frame count params bs p) m 0 vs = THalt []
  | Fault => exists m, run_tgt (compile_with_frame count params bs p) m 0 vs = TFault
  | _ => True
  end.
Proof.
  intros Hcov Hlen. set (off := size_frame (nres p) count params bs).
  set (fe := entry_after p off). set (C := compile_with_frame count params bs p).
  assert (Hfun : forall f fn, nth_error p f = Some fn -> code_at C (fe f) (compile_func fe (nres p) (fe f) fn)).
  { intros f fn Hn. unfold C, compile_with_frame. fold off. fold fe.
    apply (code_at_funcs fe (nres p) p off _ f fn); auto. apply length_compile_frame. }
  assert (Hframe : code_at C 0 (compile_frame fe (nres p) count params 0 bs)).
  { unfold C, compile_with_frame. fold off. fold fe.
    intros k i Hk. simpl. rewrite nth_error_app1; auto. apply nth_error_Some. congruence. }
  pose proof (frame_sim p C fe (nres p) Hfun (nres_spec p) count params bs 0 vs [] [] n Hframe Hcov Hlen) as H.
  rewrite app_nil_r in H. unfold run_tgt, init_state.
  destruct (exec_bodies n p (combine params vs) bs) as [r'| | |]; auto.
  - destruct H as (qr & L & A & Hret & _ & _ & Hst). eapply star_run_halt; [exact Hst|].
    unfold step. simpl. rewrite Hret. reflexivity.
  - apply goes_wrong_run. exact H.
Qed.

(* every run that ends, ends that way *)
Theorem frame_correct_any_fuel p count params bs vs n m t :
  covers count bs -> length params = length vs ->
  run_tgt (compile_with_frame count params bs p) m 0 vs = t -> t <> TTimeout ->
  match exec_bodies n p (combine params vs) bs with
  | Ok _ => t = THalt []
  | Fault => t = TFault
  | _ => True
  end.
Proof.
  intros Hcov Hlen Ht Hn. pose proof (frame_correct p count params bs vs n Hcov Hlen) as H.
  destruct (exec_bodies n p (combine params vs) bs) as [r'| | |]; auto; destruct H as [m0 H0]; unfold run_tgt in *.
  - apply (run_det _ _ m m0 t (THalt []) Ht Hn H0). discriminate.
  - apply (run_det _ _ m m0 t TFault Ht Hn H0). discriminate.
Qed.

(* the compiler's rule *)
Corollary frame_correct_max p params bs vs n :
  length params = length vs ->
  match exec_bodies n p (combine params vs) bs with
  | Ok _ => exists m, run_tgt (compile_with_frame (frame_locals bs) params bs p) m 0 vs = THalt []
  | Fault => exists m, run_tgt (compile_with_frame (frame_locals bs) params bs p) m 0 vs = TFault
  | _ => True
  end.
Proof. apply frame_correct. apply frame_locals_covers. Qed.

(* ---------- the rule "locals of the last body" is refuted ---------- *)
(* func init() { a := 1; b := 2 }   func init() { c := 3 } *)
Definition ex_bodies : list stmt :=
  [SSeq (SDecl 0%N (ELit 1)) (SDecl 1%N (ELit 2)); SDecl 2%N (ELit 3)].

Lemma ex_bodies_source : exec_bodies 10 [] [] ex_bodies = Ok [].
Proof. vm_compute. reflexivity. Qed.

Lemma ex_bodies_max : run_tgt (compile_with_frame (frame_locals ex_bodies) [] ex_bodies []) 10 0 [] = THalt [].
Proof. vm_compute. reflexivity. Qed.

Lemma ex_bodies_last : run_tgt (compile_with_frame (last_locals ex_bodies) [] ex_bodies []) 10 0 [] = TFault.
Proof. vm_compute. reflexivity. Qed.

Theorem frame_last_refuted :
  ~ (forall p bs n, match exec_bodies n p [] bs with
                    | Ok _ => exists m, run_tgt (compile_with_frame (last_locals bs) [] bs p) m 0 [] = THalt []
                    | _ => True
                    end).
Proof.
  intros H. specialize (H [] ex_bodies 10). rewrite ex_bodies_source in H. destruct H as [m Hm].
  pose proof (run_det _ _ m 10 (THalt []) TFault Hm) as D. unfold run_tgt in *.
  assert (THalt [] = TFault) by (apply D; [discriminate|exact ex_bodies_last|discriminate]). discriminate.
Qed.

(* ... and so is "locals of the first body" (the same two bodies the other way round) *)
Theorem frame_first_refuted :
  ~ (forall p bs n, match exec_bodies n p [] bs with
                    | Ok _ => exists m, run_tgt (compile_with_frame (first_locals bs) [] bs p) m 0 [] = THalt []
                    | _ => True
                    end).
Proof.
  intros H. specialize (H [] (rev ex_bodies) 10).
  assert (E : exec_bodies 10 [] [] (rev ex_bodies) = Ok []) by (vm_compute; reflexivity).
  rewrite E in H. destruct H as [m Hm].
  assert (F : run_tgt (compile_with_frame (first_locals (rev ex_bodies)) [] (rev ex_bodies) []) 10 0 [] = TFault)
    by (vm_compute; reflexivity).
  pose proof (run_det _ _ m 10 (THalt []) TFault Hm) as D. unfold run_tgt in *.
  assert (THalt [] = TFault) by (apply D; [discriminate|exact F|discriminate]). discriminate.
Qed.
