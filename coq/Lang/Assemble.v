(* C14 — the assembler: Target code (Lang/Target.v, instruction indices) to NeoVM script bytes, the
   way pkg/vm/emit and the compiler's writeJumps (pkg/compiler/codegen.go) write them.

   encoding of one instruction (opcode byte from gen/Opcodes.v, operand widths as VM/Decode.v reads them)
     IPush z          emit.Int: PUSHM1 / PUSH0..PUSH15 for -1..15 (emit.Int never writes PUSH16: 16 becomes
                      PUSHINT8 16), else PUSHINT8/16/32/64/128/256 with the
                      smallest of these widths that holds z in two's complement, little-endian, sign-extended
     IPushB           PUSHT / PUSHF
     ILdLoc n ...     emit load/store: LDLOC0..LDLOC6 for n < 7, else LDLOC n (one operand byte; n < 256)
     IInitSlot l a    INITSLOT l a  (two operand bytes)
     jumps and calls  short form (JMP.., CALL: signed 8-bit offset) or long form (JMPL.., CALLL: signed 32-bit
                      little-endian offset); the offset is relative to the offset of the jump instruction itself
                      and the target must be an instruction of the program (Context.Jump rejects the script end)
     everything else  one opcode byte
   Which jumps are short is an input ([ws]: one boolean per instruction, true = long): [assemble_with ws P]
   is defined whenever every offset fits the width chosen for it; the refinement theorem (Lang/VMRefine.v)
   holds for every such choice.  [shorten P] is the choice writeJumps makes: emit everything long, then turn
   into the short form exactly the jumps whose offset *in the all-long layout* fits a signed byte (new
   candidates that appear after the shortening are ignored, as in removeNOPs); [assemble P] uses it.
   (The real long layout also contains the INITSLOT 0 0 / JMPL +5 place holders that writeJumps deletes
   afterwards; they only lengthen distances, so in border cases the real emitter keeps a jump long that
   [shorten] makes short, never the other way round.  Harness "c14" therefore compares bytes with the widths
   read off the real script, checks that every jump [shorten] keeps long is long in the real script, and
   counts the border cases.) *)
From NG Require Import Common.Tactics Codec.Bigint gen.Opcodes Lang.MiniGo Lang.Target.
Open Scope Z_scope.

Notation "'dO' p <- e ; k" := (match e with Some p => k | None => None end)
  (at level 200, p pattern, e at level 100, k at level 200, right associativity).

(* ---------- constants ---------- *)
Definition small_ops : list opcode :=
  [PUSHM1; PUSH0; PUSH1; PUSH2; PUSH3; PUSH4; PUSH5; PUSH6; PUSH7; PUSH8; PUSH9; PUSH10; PUSH11; PUSH12;
   PUSH13; PUSH14; PUSH15].
Definition small_push (z : Z) : opcode := nth (Z.to_nat (z + 1)) small_ops PUSH0.

(* z fits w bytes of two's complement *)
Definition fits_bytes (w : nat) (z : Z) : bool :=
  (- 2 ^ (8 * Z.of_nat w - 1) <=? z) && (z <? 2 ^ (8 * Z.of_nat w - 1)).

Definition push_enc (z : Z) : option (opcode * list Z) :=
  if (-1 <=? z) && (z <=? 15) then Some (small_push z, [])
  else if fits_bytes 1 z then Some (PUSHINT8, le_bytes 1 z)
  else if fits_bytes 2 z then Some (PUSHINT16, le_bytes 2 z)
  else if fits_bytes 4 z then Some (PUSHINT32, le_bytes 4 z)
  else if fits_bytes 8 z then Some (PUSHINT64, le_bytes 8 z)
  else if fits_bytes 16 z then Some (PUSHINT128, le_bytes 16 z)
  else if fits_bytes 32 z then Some (PUSHINT256, le_bytes 32 z)
  else None.

(* ---------- slots ---------- *)
Inductive slot_kind := KLdLoc | KStLoc | KLdArg | KStArg.
Definition slot_short (k : slot_kind) : list opcode :=
  match k with
  | KLdLoc => [LDLOC0; LDLOC1; LDLOC2; LDLOC3; LDLOC4; LDLOC5; LDLOC6]
  | KStLoc => [STLOC0; STLOC1; STLOC2; STLOC3; STLOC4; STLOC5; STLOC6]
  | KLdArg => [LDARG0; LDARG1; LDARG2; LDARG3; LDARG4; LDARG5; LDARG6]
  | KStArg => [STARG0; STARG1; STARG2; STARG3; STARG4; STARG5; STARG6]
  end.
Definition slot_gen (k : slot_kind) : opcode :=
  match k with KLdLoc => LDLOC | KStLoc => STLOC | KLdArg => LDARG | KStArg => STARG end.
Definition slot_enc (k : slot_kind) (n : nat) : option (opcode * list Z) :=
  if (n <? 7)%nat then Some (nth n (slot_short k) (slot_gen k), [])
  else if (n <? 256)%nat then Some (slot_gen k, [Z.of_nat n])
  else None.

(* ---------- jumps ---------- *)
Definition cmp_op (c : cmp) : opcode :=
  match c with CLt => LT | CLe => LE | CGt => GT | CGe => GE | CEq => NUMEQUAL | CNe => NUMNOTEQUAL end.
Definition jcmp_short (c : cmp) : opcode :=
  match c with CLt => JMPLT | CLe => JMPLE | CGt => JMPGT | CGe => JMPGE | CEq => JMPEQ | CNe => JMPNE end.
Definition jcmp_long (c : cmp) : opcode :=
  match c with CLt => JMPLTL | CLe => JMPLEL | CGt => JMPGTL | CGe => JMPGEL | CEq => JMPEQL | CNe => JMPNEL end.

(* short opcode, long opcode, target *)
Definition jump_of (i : instr) : option (opcode * opcode * nat) :=
  match i with
  | IJmp t => Some (JMP, JMPL, t)
  | IJmpIf t => Some (JMPIF, JMPIFL, t)
  | IJmpIfNot t => Some (JMPIFNOT, JMPIFNOTL, t)
  | IJmpCmp c t => Some (jcmp_short c, jcmp_long c, t)
  | ICall t => Some (CALL, CALLL, t)
  | _ => None
  end.

Definition fits_i8 (r : Z) : bool := (-128 <=? r) && (r <=? 127).
Definition fits_i32 (r : Z) : bool := (-2147483648 <=? r) && (r <=? 2147483647).

Definition rel_enc (long : bool) (r : Z) : option (list Z) :=
  if long then (if fits_i32 r then Some (le_bytes 4 r) else None)
  else (if fits_i8 r then Some (le_bytes 1 r) else None).

(* ---------- one instruction: opcode and operand bytes.
   tgt: byte offset of an instruction index; n: number of instructions; o: byte offset of this instruction ---------- *)
Definition enc (tgt : nat -> Z) (n : nat) (o : Z) (long : bool) (i : instr) : option (opcode * list Z) :=
  match i with
  | IPush z => push_enc z
  | IPushB b => Some (if b then PUSHT else PUSHF, [])
  | IAdd => Some (ADD, []) | ISub => Some (SUB, []) | IMul => Some (MUL, [])
  | IDiv => Some (DIV, []) | IMod => Some (MOD, [])
  | INegate => Some (NEGATE, []) | IInc => Some (INC, []) | IDec => Some (DEC, [])
  | ICmp c => Some (cmp_op c, [])
  | INot => Some (NOT, [])
  | ILdLoc k => slot_enc KLdLoc k | IStLoc k => slot_enc KStLoc k
  | ILdArg k => slot_enc KLdArg k | IStArg k => slot_enc KStArg k
  | IInitSlot nl na =>
      if ((nl <? 256) && (na <? 256))%nat then Some (INITSLOT, [Z.of_nat nl; Z.of_nat na]) else None
  | IJmp _ | IJmpIf _ | IJmpIfNot _ | IJmpCmp _ _ | ICall _ =>
      dO (sop, lop, t) <- jump_of i;
      if (t <? n)%nat then
        dO ps <- rel_enc long (tgt t - o); Some (if long then lop else sop, ps)
      else None
  | IRet => Some (RET, [])
  | IDrop => Some (DROP, []) | ISwap => Some (SWAP, [])
  | IReverse3 => Some (REVERSE3, []) | IReverse4 => Some (REVERSE4, []) | IReverseN => Some (REVERSEN, [])
  | INop => Some (NOP, []) | IDup => Some (DUP, []) | IEqual => Some (EQUAL, [])
  end.

(* size in bytes; does not depend on the offsets *)
Definition push_size (z : Z) : Z :=
  if (-1 <=? z) && (z <=? 15) then 1
  else if fits_bytes 1 z then 2 else if fits_bytes 2 z then 3 else if fits_bytes 4 z then 5
  else if fits_bytes 8 z then 9 else if fits_bytes 16 z then 17 else 33.
Definition slot_size (n : nat) : Z := if (n <? 7)%nat then 1 else 2.
Definition isize (long : bool) (i : instr) : Z :=
  match i with
  | IPush z => push_size z
  | ILdLoc n | IStLoc n | ILdArg n | IStArg n => slot_size n
  | IInitSlot _ _ => 3
  | IJmp _ | IJmpIf _ | IJmpIfNot _ | IJmpCmp _ _ | ICall _ => if long then 5 else 2
  | _ => 1
  end.

(* ---------- layout ---------- *)
Definition long_at (ws : list bool) (k : nat) : bool := nth k ws true.

(* bytes taken by the first k instructions of P; ws runs along with P (hd ws = width of the first instruction) *)
Fixpoint off_go (ws : list bool) (P : code) (k : nat) : Z :=
  match k, P with
  | S k', i :: P' => isize (hd true ws) i + off_go (tl ws) P' k'
  | _, _ => 0
  end.
Definition off (ws : list bool) (P : code) (k : nat) : Z := off_go ws P k.

Fixpoint asm_go (tgt : nat -> Z) (n : nat) (ws : list bool) (o : Z) (P : code) : option (list Z) :=
  match P with
  | [] => Some []
  | i :: P' =>
      dO (op, ps) <- enc tgt n o (hd true ws) i;
      dO r <- asm_go tgt n (tl ws) (o + isize (hd true ws) i) P';
      Some (byte_of_opcode op :: ps ++ r)
  end.

Definition assemble_with (ws : list bool) (P : code) : option (list Z) :=
  asm_go (off ws P) (length P) ws 0 P.

(* ---------- the emitter's choice of widths ---------- *)
Fixpoint shorten_go (tgt : nat -> Z) (o : Z) (P : code) : list bool :=
  match P with
  | [] => []
  | i :: P' =>
      (match jump_of i with
       | Some (_, _, t) => negb (fits_i8 (tgt t - o))
       | None => true
       end) :: shorten_go tgt (o + isize true i) P'
  end.
Definition shorten (P : code) : list bool := shorten_go (off [] P) 0 P.

Definition assemble (P : code) : option (list Z) := assemble_with (shorten P) P.


(* widths are only looked at for jumps and calls: a normal form, to compare two choices *)
Fixpoint norm_ws (ws : list bool) (P : code) : list bool :=
  match P with
  | [] => []
  | i :: P' => (match jump_of i with Some _ => hd true ws | None => true end) :: norm_ws (tl ws) P'
  end.
