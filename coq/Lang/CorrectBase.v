(* C14 — supporting lemmas for the compiler-correctness proof: code placement, machine runs,
   environment/slot matching, static facts about the compiler. *)
From NG Require Import Common.Tactics Lang.MiniGo Lang.Target Lang.Compile.
Open Scope nat_scope.

(* ---------- code placement ---------- *)
Definition code_at (C : code) (pc : nat) (c : code) : Prop :=
  forall k i, nth_error c k = Some i -> nth_error C (pc + k) = Some i.

Lemma code_at_app C pc c1 c2 :
  code_at C pc (c1 ++ c2) -> code_at C pc c1 /\ code_at C (pc + length c1) c2.
Proof.
  intros H; split; intros k i Hk.
  - apply H. rewrite nth_error_app1; auto. apply nth_error_Some; congruence.
  - replace (pc + length c1 + k) with (pc + (length c1 + k)) by lia. apply H.
    rewrite nth_error_app2 by lia. replace (length c1 + k - length c1) with k by lia. exact Hk.
Qed.

Lemma code_at_cons C pc i c :
  code_at C pc (i :: c) -> nth_error C pc = Some i /\ code_at C (S pc) c.
Proof.
  intros H; split.
  - replace pc with (pc + 0) by lia. apply H. reflexivity.
  - intros k j Hk. replace (S pc + k) with (pc + S k) by lia. apply H. exact Hk.
Qed.

Lemma code_at_app_intro C pc c1 c2 :
  code_at C pc c1 -> code_at C (pc + length c1) c2 -> code_at C pc (c1 ++ c2).
Proof.
  intros H1 H2 k i Hk. destruct (Nat.lt_ge_cases k (length c1)).
  - rewrite nth_error_app1 in Hk by lia. auto.
  - rewrite nth_error_app2 in Hk by lia. apply H2 in Hk.
    replace (pc + k) with (pc + length c1 + (k - length c1)) by lia. exact Hk.
Qed.

Lemma code_at_self_app C1 c C2 : code_at (C1 ++ c ++ C2) (length C1) c.
Proof.
  intros k i Hk. rewrite nth_error_app2 by lia.
  replace (length C1 + k - length C1) with k by lia.
  rewrite nth_error_app1; auto. apply nth_error_Some; congruence.
Qed.

(* ---------- runs of the machine ---------- *)
Inductive star (C : code) : state -> state -> Prop :=
| star_refl s : star C s s
| star_step s s' s'' : step C s = Next s' -> star C s' s'' -> star C s s''.

Lemma star_one C s s' : step C s = Next s' -> star C s s'.
Proof. intros; eapply star_step; eauto using star_refl. Qed.

Lemma star_trans C s1 s2 s3 : star C s1 s2 -> star C s2 s3 -> star C s1 s3.
Proof. induction 1; eauto using star_step. Qed.

Definition goes_wrong (C : code) (s : state) : Prop := exists s', star C s s' /\ step C s' = SFault.

Lemma goes_wrong_star C s s' : star C s s' -> goes_wrong C s' -> goes_wrong C s.
Proof. intros H (s'' & H1 & H2). exists s''; split; eauto using star_trans. Qed.

Lemma star_run_halt C s s' st : star C s s' -> step C s' = Halt st -> exists n, run C n s = THalt st.
Proof.
  induction 1; intros Hh.
  - exists 1. simpl. rewrite Hh. reflexivity.
  - destruct (IHstar Hh) as [n Hn]. exists (S n). simpl. rewrite H. exact Hn.
Qed.

Lemma goes_wrong_run C s : goes_wrong C s -> exists n, run C n s = TFault.
Proof.
  intros (s' & H & Hf). induction H.
  - exists 1. simpl. rewrite Hf. reflexivity.
  - destruct (IHstar Hf) as [n Hn]. exists (S n). simpl. rewrite H. exact Hn.
Qed.

Lemma run_mono C n s r : run C n s = r -> r <> TTimeout -> forall m, n <= m -> run C m s = r.
Proof.
  revert s; induction n; intros s H Hr m Hm; simpl in H; [congruence|].
  destruct m; [lia|]. simpl. destruct (step C s); auto. apply IHn; auto. lia.
Qed.

Lemma step_at C s i : nth_error C (pc s) = Some i -> step C s = exec_instr i s.
Proof. unfold step; intros ->; reflexivity. Qed.

(* ---------- slots ---------- *)
Definition slot_get (sl : slot) (L A : list val) : option val :=
  match sl with SArg n => nth_error A n | SLoc n => nth_error L n end.

Definition menv (r : env) (g : cenv) (L A : list val) : Prop :=
  Forall2 (fun xv ys => fst xv = fst ys /\ slot_get (snd ys) L A = Some (snd xv)) r g.

Definition wf (g : cenv) (next : nat) : Prop :=
  NoDup (map snd g) /\ forall k, In (SLoc k) (map snd g) -> k < next.

Lemma Forall2_len {A B} (R : A -> B -> Prop) l1 l2 : Forall2 R l1 l2 -> length l1 = length l2.
Proof. induction 1; simpl; auto. Qed.

Lemma menv_length r g L A : menv r g L A -> length r = length g.
Proof. apply Forall2_len. Qed.

Lemma menv_lookup r g L A x v :
  menv r g L A -> lookup x r = Some v ->
  exists sl, clookup x g = Some sl /\ slot_get sl L A = Some v.
Proof.
  induction 1 as [|[y w] [z sl] r g [Hn Hs] _ IH]; simpl; [congruence|].
  simpl in Hn, Hs; subst z. destruct (N.eqb x y); eauto. intros E; inv E; eauto.
Qed.

Lemma nth_error_list_set_same {A} n (v : A) l : n < length l -> nth_error (list_set n v l) n = Some v.
Proof. revert n; induction l; intros [|n] H; simpl in *; try lia; auto. apply IHl; lia. Qed.

Lemma nth_error_list_set_other {A} n m (v : A) l : n <> m -> nth_error (list_set n v l) m = nth_error l m.
Proof. revert n m; induction l; intros [|n] [|m] H; simpl; auto; try congruence. Qed.

Lemma length_list_set {A} n (v : A) l : length (list_set n v l) = length l.
Proof. revert n; induction l; intros [|n]; simpl; auto. Qed.

Definition slot_set (sl : slot) (v : val) (L A : list val) : list val * list val :=
  match sl with SArg n => (L, list_set n v A) | SLoc n => (list_set n v L, A) end.

Definition slot_ok (sl : slot) (L A : list val) : Prop :=
  match sl with SArg n => n < length A | SLoc n => n < length L end.

Lemma slot_get_ok sl L A v : slot_get sl L A = Some v -> slot_ok sl L A.
Proof. destruct sl; simpl; intros H; apply nth_error_Some; congruence. Qed.

Lemma slot_get_set_same sl v L A :
  slot_ok sl L A -> slot_get sl (fst (slot_set sl v L A)) (snd (slot_set sl v L A)) = Some v.
Proof. destruct sl; simpl; apply nth_error_list_set_same. Qed.

Lemma slot_get_set_other sl sl' v L A :
  sl <> sl' -> slot_get sl' (fst (slot_set sl v L A)) (snd (slot_set sl v L A)) = slot_get sl' L A.
Proof.
  destruct sl, sl'; simpl; intros H; auto; apply nth_error_list_set_other; congruence.
Qed.

(* storing into a slot that no entry of [g] uses keeps the match *)
Lemma menv_set_fresh r g L A sl v :
  menv r g L A -> ~ In sl (map snd g) ->
  menv r g (fst (slot_set sl v L A)) (snd (slot_set sl v L A)).
Proof.
  induction 1 as [|[y w] [z s] r g [Hn Hs] _ IH]; simpl; intros Hni; constructor.
  - split; auto. simpl. rewrite slot_get_set_other; auto; try (intros ->; apply Hni; simpl; auto).
  - apply IH. simpl in Hni. tauto.
Qed.

Lemma menv_update r g L A x v r' sl :
  menv r g L A -> NoDup (map snd g) -> update x v r = Some r' -> clookup x g = Some sl ->
  slot_ok sl L A /\ menv r' g (fst (slot_set sl v L A)) (snd (slot_set sl v L A)).
Proof.
  intros H; revert r'. induction H as [|[y w] [z s] r g [Hn Hs] Hr IH]; simpl; intros r' Hnd Hu Hc; [congruence|].
  simpl in Hn, Hs; subst z. inv Hnd. destruct (N.eqb x y) eqn:E.
  - inv Hu. inv Hc. split; [eapply slot_get_ok; eauto|]. constructor.
    + split; auto. simpl. apply slot_get_set_same. eapply slot_get_ok; eauto.
    + apply menv_set_fresh; auto.
  - destruct (update x v r) as [t'|] eqn:Eu; [|congruence]. inv Hu.
    destruct (IH t' H2 eq_refl Hc) as [Hok Hm]. split; auto. constructor; auto.
    split; auto. simpl. rewrite slot_get_set_other; auto.
    intros ->. apply H1. clear - Hc. induction g as [|[a b] g IHg]; simpl in *; [congruence|].
    destruct (N.eqb x a); [inv Hc; auto|right; auto].
Qed.

Lemma menv_decl r g L A next x v :
  menv r g L A -> wf g next -> next < length L ->
  menv ((x, v) :: r) ((x, SLoc next) :: g) (list_set next v L) A.
Proof.
  intros H [Hnd Hlt] Hn. constructor.
  - split; auto. simpl. apply nth_error_list_set_same; auto.
  - apply (menv_set_fresh r g L A (SLoc next) v H). intros Hin. apply Hlt in Hin. lia.
Qed.

Lemma wf_decl g next x : wf g next -> wf ((x, SLoc next) :: g) (S next).
Proof.
  intros [Hnd Hlt]; split; simpl.
  - constructor; auto. intros Hin. apply Hlt in Hin. lia.
  - intros k [E|Hin]; [inv E; lia|]. apply Hlt in Hin. lia.
Qed.

Lemma wf_mono g n m : wf g n -> n <= m -> wf g m.
Proof. intros [H1 H2] Hle; split; auto. intros k Hk. apply H2 in Hk. lia. Qed.

(* leaving a scope *)
Lemma truncate_length_eq {A} (l : list A) : truncate (length l) l = l.
Proof. unfold truncate. rewrite Nat.sub_diag. reflexivity. Qed.

Lemma menv_truncate r' ext g L A k :
  menv r' (ext ++ g) L A -> k = length g -> menv (truncate k r') g L A.
Proof.
  intros H ->. unfold truncate, menv in *.
  pose proof (Forall2_len _ _ _ H) as Hl. rewrite app_length in Hl.
  replace (length r' - length g) with (length ext) by lia.
  apply Forall2_app_inv_r in H. destruct H as (r1 & r2 & H1 & H2 & ->).
  apply Forall2_len in H1. rewrite <- H1. rewrite skipn_app, skipn_all, Nat.sub_diag. simpl. exact H2.
Qed.

(* ---------- static facts about the compiler ---------- *)
(* induction principle for the nested inductive [expr] *)
Section ExprInd.
  Variable P : expr -> Prop.
  Hypothesis HLit : forall z, P (ELit z).
  Hypothesis HBool : forall b, P (EBool b).
  Hypothesis HVar : forall x, P (EVar x).
  Hypothesis HNeg : forall e, P e -> P (ENeg e).
  Hypothesis HNot : forall e, P e -> P (ENot e).
  Hypothesis HParen : forall e, P e -> P (EParen e).
  Hypothesis HBin : forall op a b, P a -> P b -> P (EBin op a b).
  Hypothesis HAnd : forall a b, P a -> P b -> P (EAnd a b).
  Hypothesis HOr : forall a b, P a -> P b -> P (EOr a b).
  Hypothesis HCall : forall f es, Forall P es -> P (ECall f es).
  Fixpoint expr_ind2 (e : expr) : P e :=
    match e with
    | ELit z => HLit z | EBool b => HBool b | EVar x => HVar x
    | ENeg a => HNeg a (expr_ind2 a) | ENot a => HNot a (expr_ind2 a) | EParen a => HParen a (expr_ind2 a)
    | EBin op a b => HBin op a b (expr_ind2 a) (expr_ind2 b)
    | EAnd a b => HAnd a b (expr_ind2 a) (expr_ind2 b)
    | EOr a b => HOr a b (expr_ind2 a) (expr_ind2 b)
    | ECall f es =>
        HCall f es ((fix go (l : list expr) : Forall P l :=
                       match l with [] => Forall_nil P | x :: t => Forall_cons x (expr_ind2 x) (go t) end) es)
    end.
End ExprInd.

Lemma size_expr_call j f es :
  size_expr j (ECall f es) = size_args es + length (emit_reverse (length es)) + 1 + (if j then 1 else 0).
Proof.
  simpl. assert (E : forall l, (fix go (l : list expr) : nat := match l with [] => 0 | x :: t => size_expr false x + go t end) l = size_args l)
    by (induction l; simpl; auto).
  rewrite E. reflexivity.
Qed.

Lemma compile_expr_call fe g pc f es m :
  compile_expr fe g pc (ECall f es) m =
  compile_args fe g pc es ++ emit_reverse (length es) ++ ICall (fe f) ::
    match m with MVal => [] | MJmp cond t => [jmp_on cond t] end.
Proof.
  simpl. f_equal. revert pc; induction es; intros pc; simpl; auto. f_equal. apply IHes.
Qed.

Lemma length_compile_expr fe g e : forall pc m, length (compile_expr fe g pc e m) = size_expr (is_jmp m) e.
Proof.
  induction e using expr_ind2; intros pc m.
  1-3: destruct m; reflexivity.
  1-2: destruct m; simpl; rewrite app_length, IHe; simpl; lia.
  - destruct m; simpl; rewrite app_length, IHe; simpl; lia.
  - destruct m as [|cond t]; simpl.
    + rewrite !app_length, IHe1, IHe2. simpl. lia.
    + destruct (is_cmp op); rewrite !app_length, IHe1, IHe2; simpl; lia.
  - destruct m as [|cond t]; simpl; rewrite !app_length, IHe1, IHe2; simpl; lia.
  - destruct m as [|cond t]; simpl; rewrite !app_length, IHe1, IHe2; simpl; lia.
  - rewrite compile_expr_call, size_expr_call. rewrite !app_length.
    assert (Ha : forall pc, length (compile_args fe g pc es) = size_args es).
    { induction H; intros pc'; simpl; auto. rewrite app_length, H, IHForall. reflexivity. }
    rewrite Ha. destruct m; simpl; lia.
Qed.

Lemma length_compile_args fe g es : forall pc, length (compile_args fe g pc es) = size_args es.
Proof.
  induction es; intros pc; simpl; auto. rewrite app_length, length_compile_expr, IHes. reflexivity.
Qed.

Lemma length_store_code decl g xs : forall next, length (store_code decl g next xs) = length xs.
Proof. induction xs as [|[x|] xs IH]; intros next; simpl; auto. destruct decl; simpl; rewrite IH; auto. Qed.

Lemma compile_tests_cons2 fe g pc eq ps pe e e2 t :
  compile_tests fe g pc eq ps pe (e :: e2 :: t) =
  IDup :: compile_expr fe g (pc + 1) e MVal ++ [eq; IJmpIf ps]
  ++ compile_tests fe g (pc + size_expr false e + 3) eq ps pe (e2 :: t).
Proof. reflexivity. Qed.

Lemma size_tests_cons e t : size_tests (e :: t) = size_expr false e + 3 + size_tests t.
Proof. reflexivity. Qed.

Lemma length_compile_tests fe g eq ps pe es : forall pc,
  length (compile_tests fe g pc eq ps pe es) = size_tests es.
Proof.
  induction es as [|e [|e2 t] IH]; intros pc; auto.
  - simpl. rewrite app_length, length_compile_expr. simpl. lia.
  - rewrite compile_tests_cons2, size_tests_cons.
    remember (compile_tests fe g (pc + size_expr false e + 3) eq ps pe (e2 :: t)) as Y.
    assert (HY : length Y = size_tests (e2 :: t)) by (subst Y; apply IH).
    cbn [length]. rewrite !app_length, length_compile_expr, HY. cbn [length is_jmp]. lia.
Qed.

Lemma length_compile_stmt fe fr s : forall g next pc brk cont dc dr,
  length (compile_stmt fe fr g next pc brk cont dc dr s) = size_stmt fr dc dr s.
Proof.
  induction s; intros g next pc brk cont dc dr; simpl;
    repeat (rewrite ?app_length, ?length_compile_expr, ?length_compile_args, ?repeat_length, ?length_store_code,
                    ?length_compile_tests, ?rev_length, ?IHs, ?IHs1, ?IHs2, ?IHs3; simpl); try lia.
  - destruct tag; simpl; rewrite ?length_compile_expr; simpl; lia.
  - destruct (is_nil s2); simpl; lia.
Qed.

Lemma alloc_results_ext xs : forall g next, exists ext, alloc_results g next xs = ext ++ g.
Proof.
  induction xs as [|[x|] xs IH]; intros g next; simpl.
  - exists []; reflexivity.
  - destruct (IH ((x, SLoc next) :: g) (S next)) as [e He]. exists (e ++ [(x, SLoc next)]).
    rewrite He, <- app_assoc. reflexivity.
  - apply IH.
Qed.

Lemma env_after_ext s : forall g next, exists ext, env_after g next s = ext ++ g.
Proof.
  induction s; intros g next; simpl; try (exists []; reflexivity).
  - destruct (IHs1 g next) as [e1 H1]. destruct (IHs2 (env_after g next s1) (next + ndecl s1)) as [e2 H2].
    exists (e2 ++ e1). rewrite H2, H1, app_assoc. reflexivity.
  - exists [(x, SLoc next)]. reflexivity.
  - destruct decl; [apply alloc_results_ext|exists []; reflexivity].
Qed.

Lemma wf_alloc_results xs : forall g next, wf g next -> wf (alloc_results g next xs) (next + count_some xs).
Proof.
  induction xs as [|[x|] xs IH]; intros g next H; simpl.
  - rewrite Nat.add_0_r. exact H.
  - replace (next + S (count_some xs)) with (S next + count_some xs) by lia. apply IH, wf_decl, H.
  - apply IH, H.
Qed.

Lemma wf_env_after s : forall g next, wf g next -> wf (env_after g next s) (next + ndecl s).
Proof.
  induction s; intros g next H; simpl; try (eapply wf_mono; [exact H|lia]).
  - rewrite Nat.add_assoc. apply IHs2, IHs1, H.
  - replace (next + 1) with (S next) by lia. apply wf_decl, H.
  - destruct decl; [apply wf_alloc_results, H|rewrite Nat.add_0_r; exact H].
Qed.
