(* C14 — MiniGo: the fragment of the Go dialect accepted by pkg/compiler for which a model compiler is
   proved correct.  Definitions only (must vm_compute); proofs are in Lang/Correct.v.

   Fragment: integers and booleans; arguments and block-scoped locals (a declaration shadows);
   expressions: literals, variables, unary minus / not, parentheses, + - * / %, comparisons on
   integers, && and || with short-circuit evaluation, calls (recursion allowed);
   statements: x := e, x = e, x op= e, x++ / x--, if / if-else, three-clause for, break, continue,
   return e1, ..., en, nested blocks, call statements, a, _, c := f(...) and a, _, c = f(...) for functions
   with several results, switch (on an integer tag, on a boolean tag, or without tag; several expressions per
   case; default clause last; break leaves the switch, continue and return pass through it).

   One choice follows pkg/compiler rather than the Go specification: the operands of a return with several
   values are evaluated right to left, and the targets of a multiple assignment are stored last to first. Go and
   this semantics agree whenever every operand is defined and the targets are distinct (expressions have no side
   effects here); the difference (which of two failing operands fails, or a diverging one) is finding F156.

   Integers are mathematical (Z).  Go's int is 64 bits wide and the VM's is 256: a result outside
   [-2^63, 2^63) is *undefined* here (result [Undef]), so every statement proved about a defined run
   is a statement about runs in which Go and the VM compute the same integers.
   Division and remainder truncate towards zero (Go; big.Int Quo/Rem in the VM); a zero divisor is
   the one run-time failure of the fragment ([Fault]: a Go run-time panic, a VM fault).

   The semantics is big-step with fuel: the fuel bounds the depth of the evaluation (every recursive
   call of the evaluator, structural or not, spends one unit), [Timeout] means "fuel exhausted". *)
From NG Require Import Common.Tactics.
Open Scope Z_scope.

Definition ident := N.

(* Stack items of the VM subset; [VNull] is what an unassigned local slot holds, the source semantics
   never produces it. *)
Inductive val := VInt (z : Z) | VBool (b : bool) | VNull.

Inductive binop := Add | Sub | Mul | Div | Mod | Lt | Le | Gt | Ge | Eq | Ne.

Inductive expr :=
| ELit (z : Z)
| EBool (b : bool)
| EVar (x : ident)
| ENeg (e : expr)
| ENot (e : expr)
| EParen (e : expr)                      (* ( e ): same value; the code generator treats it as "not a binary expression" *)
| EBin (op : binop) (a b : expr)
| EAnd (a b : expr)
| EOr (a b : expr)
| ECall (f : nat) (args : list expr).    (* f: index in the program's function list; exactly one result *)

Inductive stmt :=
| SSkip
| SSeq (s1 s2 : stmt)
| SDecl (x : ident) (e : expr)           (* x := e *)
| SAssign (x : ident) (e : expr)         (* x = e *)
| SOpAssign (x : ident) (op : binop) (e : expr)   (* x op= e, op arithmetic *)
| SInc (x : ident)                       (* x++ *)
| SDec (x : ident)                       (* x-- *)
| SIf (c : expr) (a : stmt)              (* if c { a } *)
| SIfElse (c : expr) (a b : stmt)        (* if c { a } else { b }   (b may itself be an if) *)
| SFor (init : stmt) (c : expr) (post : stmt) (body : stmt)   (* for init; c; post { body } *)
| SBreak
| SContinue
| SReturn (es : list expr)               (* return e1, ..., en *)
| SBlock (s : stmt)                      (* { s } *)
| SCall (f : nat) (args : list expr)     (* call statement, results dropped *)
| SCallAssign (decl : bool) (xs : list (option ident)) (f : nat) (args : list expr)
                                         (* x1, ..., xn := f(args)  /  x1, ..., xn = f(args); None is the blank _ *)
| SSwitch (tag : option expr) (cs : stmt) (* switch tag { cs }; no tag = true; cs is a chain of the three clause
                                            constructors below (they are statements only to keep one inductive type) *)
| CNil                                   (* end of the clauses *)
| CDefault (body : stmt)                 (* default: body   -- the last clause *)
| CCase (num : bool) (es : list expr) (body : stmt) (rest : stmt).
                                         (* case e1, ..., en: body; num: integer comparison (else boolean) *)

Record func := { f_params : list ident; f_nres : nat; f_body : stmt }.
Definition program := list func.

(* ---------- results ---------- *)
Inductive res (A : Type) := Ok (a : A) | Fault | Undef | Timeout.
Arguments Ok {A} a. Arguments Fault {A}. Arguments Undef {A}. Arguments Timeout {A}.

Definition bind {A B} (r : res A) (k : A -> res B) : res B :=
  match r with Ok a => k a | Fault => Fault | Undef => Undef | Timeout => Timeout end.

Definition in64 (z : Z) : bool := (- 2 ^ 63 <=? z) && (z <? 2 ^ 63).
Definition ret64 (z : Z) : res val := if in64 z then Ok (VInt z) else Undef.

Definition is_cmp (op : binop) : bool :=
  match op with Lt | Le | Gt | Ge | Eq | Ne => true | _ => false end.

Definition arith (op : binop) (a b : Z) : res val :=
  match op with
  | Add => ret64 (a + b)
  | Sub => ret64 (a - b)
  | Mul => ret64 (a * b)
  | Div => if b =? 0 then Fault else ret64 (Z.quot a b)
  | Mod => if b =? 0 then Fault else ret64 (Z.rem a b)
  | Lt => Ok (VBool (a <? b))
  | Le => Ok (VBool (a <=? b))
  | Gt => Ok (VBool (b <? a))
  | Ge => Ok (VBool (b <=? a))
  | Eq => Ok (VBool (a =? b))
  | Ne => Ok (VBool (negb (a =? b)))
  end.

Definition eval_binop (op : binop) (va vb : val) : res val :=
  match va, vb with VInt a, VInt b => arith op a b | _, _ => Undef end.

(* ---------- environments: innermost declaration first ---------- *)
Definition env := list (ident * val).

Fixpoint lookup (x : ident) (r : env) : option val :=
  match r with
  | [] => None
  | (y, v) :: t => if N.eqb x y then Some v else lookup x t
  end.

Fixpoint update (x : ident) (v : val) (r : env) : option env :=
  match r with
  | [] => None
  | (y, w) :: t =>
      if N.eqb x y then Some ((y, v) :: t)
      else match update x v t with Some t' => Some ((y, w) :: t') | None => None end
  end.

(* leaving a scope: keep the [k] outermost entries *)
Definition truncate {A} (k : nat) (l : list A) : list A := skipn (length l - k) l.

Inductive outcome := ONormal | OBreak | OContinue | OReturn (vs : list val).

Definition assign (r : env) (x : ident) (v : val) : res (outcome * env) :=
  match update x v r with Some r' => Ok (ONormal, r') | None => Undef end.

(* results of a call bound to the targets of a multiple assignment; both lists are given last target first, the
   order in which the compiled code stores them *)
Fixpoint decl_results (xs : list (option ident)) (rs : list val) (r : env) : env :=
  match xs, rs with
  | Some x :: xs', v :: rs' => decl_results xs' rs' ((x, v) :: r)
  | None :: xs', _ :: rs' => decl_results xs' rs' r
  | _, _ => r
  end.

Fixpoint assign_results (xs : list (option ident)) (rs : list val) (r : env) : option env :=
  match xs, rs with
  | Some x :: xs', v :: rs' => match update x v r with Some r' => assign_results xs' rs' r' | None => None end
  | None :: xs', _ :: rs' => assign_results xs' rs' r
  | _, _ => Some r
  end.

(* case expression against the tag *)
Definition val_match (num : bool) (tv v : val) : res bool :=
  match num, tv, v with
  | true, VInt a, VInt b => Ok (a =? b)
  | false, VBool a, VBool b => Ok (Bool.eqb a b)
  | _, _, _ => Undef
  end.

(* ---------- the evaluator ---------- *)
Fixpoint eval (n : nat) (p : program) (r : env) (e : expr) {struct n} : res val :=
  match n with
  | O => Timeout
  | S n =>
      match e with
      | ELit z => ret64 z
      | EBool b => Ok (VBool b)
      | EVar x => match lookup x r with Some v => Ok v | None => Undef end
      | ENeg a => bind (eval n p r a) (fun v => match v with VInt z => ret64 (- z) | _ => Undef end)
      | ENot a => bind (eval n p r a) (fun v => match v with VBool b => Ok (VBool (negb b)) | _ => Undef end)
      | EParen a => eval n p r a
      | EBin op a b => bind (eval n p r a) (fun va => bind (eval n p r b) (fun vb => eval_binop op va vb))
      | EAnd a b =>
          bind (eval n p r a) (fun va =>
            match va with
            | VBool false => Ok (VBool false)
            | VBool true => bind (eval n p r b) (fun vb => match vb with VBool _ => Ok vb | _ => Undef end)
            | _ => Undef
            end)
      | EOr a b =>
          bind (eval n p r a) (fun va =>
            match va with
            | VBool true => Ok (VBool true)
            | VBool false => bind (eval n p r b) (fun vb => match vb with VBool _ => Ok vb | _ => Undef end)
            | _ => Undef
            end)
      | ECall f args =>
          bind (eval_list n p r args) (fun vs =>
            bind (call n p f vs) (fun rs => match rs with [v] => Ok v | _ => Undef end))
      end
  end

with eval_list (n : nat) (p : program) (r : env) (es : list expr) {struct n} : res (list val) :=
  match n with
  | O => Timeout
  | S n =>
      match es with
      | [] => Ok []
      | e :: t => bind (eval n p r e) (fun v => bind (eval_list n p r t) (fun vs => Ok (v :: vs)))
      end
  end

with call (n : nat) (p : program) (f : nat) (vs : list val) {struct n} : res (list val) :=
  match n with
  | O => Timeout
  | S n =>
      match nth_error p f with
      | None => Undef
      | Some fn =>
          if Nat.eqb (length (f_params fn)) (length vs) && Nat.leb (length vs) 255 then   (* INITSLOT counts are one byte *)
            bind (exec n p (combine (f_params fn) vs) (f_body fn))
                 (fun or => match fst or with
                            | OReturn rs => if Nat.eqb (length rs) (f_nres fn) then Ok rs else Undef
                            | _ => Undef
                            end)
          else Undef
      end
  end

with exec (n : nat) (p : program) (r : env) (s : stmt) {struct n} : res (outcome * env) :=
  match n with
  | O => Timeout
  | S n =>
      let scoped := fun (s : stmt) =>
        bind (exec n p r s) (fun or => Ok (fst or, truncate (length r) (snd or))) in
      match s with
      | SSkip => Ok (ONormal, r)
      | SSeq a b =>
          bind (exec n p r a) (fun or =>
            match fst or with ONormal => exec n p (snd or) b | o => Ok (o, snd or) end)
      | SDecl x e => bind (eval n p r e) (fun v => Ok (ONormal, (x, v) :: r))
      | SAssign x e => bind (eval n p r e) (fun v => assign r x v)
      | SOpAssign x op e =>
          if is_cmp op then Undef else
          match lookup x r with
          | None => Undef
          | Some vx => bind (eval n p r e) (fun v => bind (eval_binop op vx v) (fun w => assign r x w))
          end
      | SInc x =>
          match lookup x r with
          | Some (VInt z) => bind (ret64 (z + 1)) (fun w => assign r x w)
          | _ => Undef
          end
      | SDec x =>
          match lookup x r with
          | Some (VInt z) => bind (ret64 (z - 1)) (fun w => assign r x w)
          | _ => Undef
          end
      | SIf c a =>
          bind (eval n p r c) (fun v =>
            match v with
            | VBool true => scoped a
            | VBool false => Ok (ONormal, r)
            | _ => Undef
            end)
      | SIfElse c a b =>
          bind (eval n p r c) (fun v =>
            match v with
            | VBool true => scoped a
            | VBool false => scoped b
            | _ => Undef
            end)
      | SFor init c post body =>
          bind (exec n p r init) (fun or =>
            match fst or with
            | ONormal =>
                bind (loop n p (snd or) c post body)
                     (fun or' => Ok (fst or', truncate (length r) (snd or')))
            | _ => Undef
            end)
      | SBreak => Ok (OBreak, r)
      | SContinue => Ok (OContinue, r)
      | SReturn es => bind (eval_list n p r (rev es)) (fun vs => Ok (OReturn (rev vs), r))
      | SBlock a => scoped a
      | SCall f args => bind (eval_list n p r args) (fun vs => bind (call n p f vs) (fun _ => Ok (ONormal, r)))
      | SCallAssign decl xs f args =>
          bind (eval_list n p r args) (fun vs =>
            bind (call n p f vs) (fun rs =>
              if Nat.eqb (length rs) (length xs) && Nat.leb (length xs) 255 then
                if decl then Ok (ONormal, decl_results (rev xs) (rev rs) r)
                else match assign_results (rev xs) (rev rs) r with
                     | Some r' => Ok (ONormal, r')
                     | None => Undef
                     end
              else Undef))
      | CNil | CDefault _ | CCase _ _ _ _ => Undef     (* clauses occur inside a switch only *)
      | SSwitch tag cs =>
          bind (match tag with Some e => eval n p r e | None => Ok (VBool true) end) (fun tv =>
            bind (exec_cases n p r tv cs) (fun or =>
              let r1 := truncate (length r) (snd or) in
              match fst or with
              | OBreak => Ok (ONormal, r1)
              | o => Ok (o, r1)
              end))
      end
  end

(* the clause selected by the tag: case expressions are tried in order, top to bottom, left to right *)
with exec_cases (n : nat) (p : program) (r : env) (tv : val) (cs : stmt) {struct n}
  : res (outcome * env) :=
  match n with
  | O => Timeout
  | S n =>
      match cs with
      | CNil => Ok (ONormal, r)
      | CDefault b => exec n p r b
      | CCase num [] b rest => Undef                 (* a case has at least one expression *)
      | CCase num es b rest =>
          bind (match_any n p r num tv es) (fun m =>
            if m then exec n p r b else exec_cases n p r tv rest)
      | _ => Undef
      end
  end

with match_any (n : nat) (p : program) (r : env) (num : bool) (tv : val) (es : list expr) {struct n} : res bool :=
  match n with
  | O => Timeout
  | S n =>
      match es with
      | [] => Ok false
      | e :: t =>
          bind (eval n p r e) (fun v =>
            bind (val_match num tv v) (fun m => if m then Ok true else match_any n p r num tv t))
      end
  end

(* the loop proper, entered with the loop scope (the init declaration) already open *)
with loop (n : nat) (p : program) (r : env) (c : expr) (post body : stmt) {struct n} : res (outcome * env) :=
  match n with
  | O => Timeout
  | S n =>
      bind (eval n p r c) (fun v =>
        match v with
        | VBool false => Ok (ONormal, r)
        | VBool true =>
            bind (exec n p r body) (fun or =>
              let r1 := truncate (length r) (snd or) in
              match fst or with
              | OBreak => Ok (ONormal, r1)
              | OReturn w => Ok (OReturn w, r1)
              | _ =>
                  bind (exec n p r1 post) (fun or2 =>
                    match fst or2 with
                    | ONormal => loop n p (truncate (length r) (snd or2)) c post body
                    | _ => Undef
                    end)
              end)
        | _ => Undef
        end)
  end.

(* running function [f] of [p] on arguments [vs] *)
Definition run_src (n : nat) (p : program) (f : nat) (vs : list val) : res (list val) := call n p f vs.
