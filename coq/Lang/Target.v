(* C14 — the target machine: the subset of NeoVM that code compiled from the MiniGo fragment uses,
   with its own executable semantics (pkg/vm/vm.go is the reference; the full VM model is being
   built separately under coq/VM and is not used here: harness "c14" ties this file to the real VM
   by running the real compiler's bytecode on both).

   Code is a list of instructions; a program counter is an index in that list and jump / call
   operands are *absolute instruction indices* (the harness decoder resolves NeoVM's relative byte
   offsets, short or long form, to the index of the instruction that starts there).

   Correspondence with NeoVM opcodes (pkg/vm/opcode):
     IPush z        PUSHINT8..PUSHINT256, PUSHM1, PUSH0..PUSH16      IPushB b   PUSHT / PUSHF
     IAdd ISub IMul IDiv IMod INegate IInc IDec    ADD SUB MUL DIV MOD NEGATE INC DEC
     ICmp c         LT LE GT GE NUMEQUAL NUMNOTEQUAL                  INot       NOT
     ILdLoc/IStLoc/ILdArg/IStArg n   LDLOC0..6,LDLOC n / STLOC.. / LDARG.. / STARG..
     IInitSlot l a  INITSLOT l a
     IJmp IJmpIf IJmpIfNot            JMP[_L] JMPIF[_L] JMPIFNOT[_L]
     IJmpCmp c      JMPLT JMPLE JMPGT JMPGE JMPEQ JMPNE [_L]
     ICall t        CALL[_L]          IRet  RET        IDrop DROP     INop NOP
     ISwap IReverse3 IReverse4 IReverseN              SWAP REVERSE3 REVERSE4 REVERSEN
     IDup DUP        IEqual EQUAL (primitive items: same type and same value)
   Not modelled: gas, the 2048-item stack limit, the 1024-frame invocation limit, reference counting
   (all items of the subset are primitive). *)
From NG Require Import Common.Tactics Lang.MiniGo.
Open Scope Z_scope.

Inductive cmp := CLt | CLe | CGt | CGe | CEq | CNe.

Inductive instr :=
| IPush (z : Z) | IPushB (b : bool)
| IAdd | ISub | IMul | IDiv | IMod | INegate | IInc | IDec
| ICmp (c : cmp) | INot
| ILdLoc (n : nat) | IStLoc (n : nat) | ILdArg (n : nat) | IStArg (n : nat)
| IInitSlot (nl na : nat)
| IJmp (t : nat) | IJmpIf (t : nat) | IJmpIfNot (t : nat) | IJmpCmp (c : cmp) (t : nat)
| ICall (t : nat) | IRet
| IDrop | ISwap | IReverse3 | IReverse4 | IReverseN | INop
| IDup | IEqual.

Definition code := list instr.

Record frame := Frame { f_pc : nat; f_locs : list val; f_args : list val }.

(* the evaluation stack is shared by all frames of one script (CALL clones the context, RET leaves
   whatever is on the stack to the caller); head of the list = top *)
Record state := St { pc : nat; locs : list val; args : list val; stk : list val; callers : list frame }.

Inductive sres := Next (s : state) | Halt (stack : list val) | SFault.

(* stackitem conversions: Integer/Boolean to big.Int, anything to bool; Null has no integer value *)
Definition as_int (v : val) : option Z :=
  match v with VInt z => Some z | VBool b => Some (if b then 1 else 0) | VNull => None end.
Definition as_bool (v : val) : bool :=
  match v with VInt z => negb (z =? 0) | VBool b => b | VNull => false end.

(* stackitem.NewBigInteger panics beyond 256 bits *)
Definition fits256 (z : Z) : bool := (- 2 ^ 255 <=? z) && (z <? 2 ^ 255).

(* stackitem Equals on the primitive items of the subset: no conversion between Integer and Boolean *)
Definition val_equal (a b : val) : bool :=
  match a, b with
  | VInt x, VInt y => x =? y
  | VBool x, VBool y => Bool.eqb x y
  | VNull, VNull => true
  | _, _ => false
  end.

Definition is_ord (c : cmp) : bool := match c with CEq | CNe => false | _ => true end.

Definition cmp_eval (c : cmp) (a b : Z) : bool :=
  match c with
  | CLt => a <? b | CLe => a <=? b | CGt => b <? a | CGe => b <=? a
  | CEq => a =? b | CNe => negb (a =? b)
  end.

Fixpoint list_set {A} (n : nat) (v : A) (l : list A) : list A :=
  match l, n with
  | [], _ => []
  | _ :: t, O => v :: t
  | x :: t, S n => x :: list_set n v t
  end.

Definition rev_top (n : nat) (s : list val) : option (list val) :=
  if (n <=? length s)%nat then Some (rev (firstn n s) ++ skipn n s) else None.

Definition push_int (s : state) (z : Z) (rest : list val) : sres :=
  if fits256 z then Next (St (S (pc s)) (locs s) (args s) (VInt z :: rest) (callers s)) else SFault.

Definition set_stk (s : state) (st : list val) : sres :=
  Next (St (S (pc s)) (locs s) (args s) st (callers s)).

Definition jump (s : state) (t : nat) (st : list val) : sres :=
  Next (St t (locs s) (args s) st (callers s)).

Definition arith2 (s : state) (f : Z -> Z -> option Z) : sres :=
  match stk s with
  | vb :: va :: rest =>
      match as_int va, as_int vb with
      | Some a, Some b => match f a b with Some z => push_int s z rest | None => SFault end
      | _, _ => SFault
      end
  | _ => SFault
  end.

Definition arith1 (s : state) (f : Z -> Z) : sres :=
  match stk s with
  | va :: rest => match as_int va with Some a => push_int s (f a) rest | None => SFault end
  | _ => SFault
  end.

Definition exec_instr (i : instr) (s : state) : sres :=
  match i with
  | IPush z => push_int s z (stk s)
  | IPushB b => set_stk s (VBool b :: stk s)
  | IAdd => arith2 s (fun a b => Some (a + b))
  | ISub => arith2 s (fun a b => Some (a - b))
  | IMul => arith2 s (fun a b => Some (a * b))
  | IDiv => arith2 s (fun a b => if b =? 0 then None else Some (Z.quot a b))
  | IMod => arith2 s (fun a b => if b =? 0 then None else Some (Z.rem a b))
  | INegate => arith1 s Z.opp
  | IInc => arith1 s (fun a => a + 1)
  | IDec => arith1 s (fun a => a - 1)
  | ICmp c =>
      match stk s with
      | vb :: va :: rest =>
          match as_int va, as_int vb with
          | Some a, Some b => set_stk s (VBool (cmp_eval c a b) :: rest)
          | _, _ =>                                         (* only Null has no integer value *)
              if is_ord c then set_stk s (VBool false :: rest)   (* LT/LE/GT/GE with a Null operand: false *)
              else SFault                                        (* NUMEQUAL/NUMNOTEQUAL: BigInt() panics *)
          end
      | _ => SFault
      end
  | INot => match stk s with v :: rest => set_stk s (VBool (negb (as_bool v)) :: rest) | _ => SFault end
  | ILdLoc n => match nth_error (locs s) n with Some v => set_stk s (v :: stk s) | None => SFault end
  | ILdArg n => match nth_error (args s) n with Some v => set_stk s (v :: stk s) | None => SFault end
  | IStLoc n =>
      match stk s with
      | v :: rest =>
          if (n <? length (locs s))%nat then Next (St (S (pc s)) (list_set n v (locs s)) (args s) rest (callers s))
          else SFault
      | _ => SFault
      end
  | IStArg n =>
      match stk s with
      | v :: rest =>
          if (n <? length (args s))%nat then Next (St (S (pc s)) (locs s) (list_set n v (args s)) rest (callers s))
          else SFault
      | _ => SFault
      end
  | IInitSlot nl na =>
      match locs s, args s with
      | [], [] =>
          if ((nl =? 0) && (na =? 0))%nat then SFault
          else if (na <=? length (stk s))%nat then
            Next (St (S (pc s)) (repeat VNull nl) (firstn na (stk s)) (skipn na (stk s)) (callers s))
          else SFault
      | _, _ => SFault                                       (* "already initialized" *)
      end
  | IJmp t => jump s t (stk s)
  | IJmpIf t => match stk s with v :: rest => if as_bool v then jump s t rest else set_stk s rest | _ => SFault end
  | IJmpIfNot t => match stk s with v :: rest => if as_bool v then set_stk s rest else jump s t rest | _ => SFault end
  | IJmpCmp c t =>
      match stk s with
      | vb :: va :: rest =>
          match as_int va, as_int vb with
          | Some a, Some b => if cmp_eval c a b then jump s t rest else set_stk s rest
          | _, _ => SFault
          end
      | _ => SFault
      end
  | ICall t => Next (St t [] [] (stk s) (Frame (S (pc s)) (locs s) (args s) :: callers s))
  | IRet =>
      match callers s with
      | [] => Halt (stk s)
      | fr :: k => Next (St (f_pc fr) (f_locs fr) (f_args fr) (stk s) k)
      end
  | IDrop => match stk s with _ :: rest => set_stk s rest | _ => SFault end
  | ISwap => match rev_top 2 (stk s) with Some st => set_stk s st | None => SFault end
  | IReverse3 => match rev_top 3 (stk s) with Some st => set_stk s st | None => SFault end
  | IReverse4 => match rev_top 4 (stk s) with Some st => set_stk s st | None => SFault end
  | IReverseN =>
      match stk s with
      | v :: rest =>
          match as_int v with
          | Some z => if z <? 0 then SFault else
                      match rev_top (Z.to_nat z) rest with Some st => set_stk s st | None => SFault end
          | None => SFault
          end
      | _ => SFault
      end
  | INop => set_stk s (stk s)
  | IDup => match stk s with v :: rest => set_stk s (v :: v :: rest) | _ => SFault end
  | IEqual => match stk s with vb :: va :: rest => set_stk s (VBool (val_equal va vb) :: rest) | _ => SFault end
  end.

(* at the end of the script the VM executes an implicit RET (Context.Next); a pc beyond it cannot
   arise: the jump that would produce it is rejected *)
Definition step (c : code) (s : state) : sres :=
  match nth_error c (pc s) with
  | Some i => exec_instr i s
  | None => if (pc s =? length c)%nat then exec_instr IRet s else SFault
  end.

Inductive tres := THalt (stack : list val) | TFault | TTimeout.

Fixpoint run (c : code) (n : nat) (s : state) : tres :=
  match n with
  | O => TTimeout
  | S n =>
      match step c s with
      | Next s' => run c n s'
      | Halt st => THalt st
      | SFault => TFault
      end
  end.

(* invoking the method at [entry]: arguments on the stack, first argument on top (what the node and
   the compiler tests do: push arguments in reverse order, jump to the method offset) *)
Definition init_state (entry : nat) (vs : list val) : state := St entry [] [] vs [].
Definition run_tgt (c : code) (n : nat) (entry : nat) (vs : list val) : tres := run c n (init_state entry vs).
