(* Block size accounting of ApplyPolicyToTxSet with the real size function: the encoded block is the header part,
   the transaction count as a var-uint (1 byte up to 252, 3 bytes from 253, 5 from 65536) and the transactions.
   The code sizes the block with the prefix of the count BEFORE the size cut (len(txes) after the
   MaxTransactionsPerBlock cut), which is never smaller than the prefix of the final count. *)
From NG Require Import Common.Tactics Codec.Wire Codec.WireProofs Admission.Fee Admission.Admit Admission.AdmitProofs
  Mempool.Model Mempool.Spec.
Open Scope N_scope.

Definition count_prefix (k : nat) : N := Z.to_N (varuint_size (Z.of_nat k)).

(* it is the length of the encoding (C17) *)
Lemma count_prefix_is_encoding : forall k, (Z.of_nat k <= 4294967295)%Z ->
  count_prefix k = N.of_nat (length (write_varuint (Z.of_nat k))).
Proof. intros k H. unfold count_prefix. rewrite varuint_size_eq by lia. lia. Qed.

Lemma count_prefix_mono : forall a b, (a <= b)%nat -> count_prefix a <= count_prefix b.
Proof.
  intros a b H. unfold count_prefix, varuint_size.
  repeat case_if; lia.
Qed.

(* the encoded size of a block of these transactions: [hdr0] = everything but the count and the transactions *)
Definition block_size (hdr0 : N) (b : list tx) : N := hdr0 + count_prefix (length b) + total_size b.

Definition apply_policy_real (max_tx : nat) (max_size max_sysfee hdr0 : N) (txs : list tx) : list tx :=
  apply_policy max_tx max_size max_sysfee (fun k => hdr0 + count_prefix k) txs.

Theorem pack_valid_real : forall U bal s max_tx max_size max_sysfee hdr0,
  Inv U bal s ->
  let b := apply_policy_real max_tx max_size max_sysfee hdr0 (vtxs s) in
  (exists r, vtxs s = b ++ r)
  /\ (max_tx <> O -> (length b <= max_tx)%nat)
  /\ (b <> [] -> block_size hdr0 b <= max_size)          (* for every count, across the var-uint boundaries *)
  /\ total_sysfee b <= max_sysfee.
Proof.
  intros U bal s max_tx max_size max_sysfee hdr0 I b.
  destruct (pack_valid U bal s max_tx max_size max_sysfee (fun k => hdr0 + count_prefix k) I) as (A & B & C & D).
  { intros x y H. pose proof (count_prefix_mono x y H). lia. }
  fold (apply_policy_real max_tx max_size max_sysfee hdr0 (vtxs s)) in *. fold b in A, B, C, D.
  repeat split; auto.
Qed.

(* sizing with the one-byte prefix whatever the count is two bytes short from 253 transactions on *)
Definition tiny_pool (n : nat) : list tx := map (fun i => mkTx (N.of_nat i) [2] 0 0 10 false [] None) (seq 0 n).

Lemma pack_short_count_prefix_refuted :
  let b := apply_policy 0 (100 + 1 + 2530) 100000 (fun _ => 100 + 1) (tiny_pool 260) in
  length b = 253%nat /\ 100 + 1 + 2530 < block_size 100 b.
Proof. vm_compute. split; reflexivity. Qed.

Lemma pack_real_example :
  length (apply_policy_real 0 (100 + 1 + 2530) 100000 100 (tiny_pool 260)) = 252%nat
  /\ length (apply_policy_real 0 (100 + 3 + 2530) 100000 100 (tiny_pool 260)) = 253%nat
  /\ length (apply_policy_real 300 (100 + 3 + 2529) 100000 100 (tiny_pool 260)) = 252%nat.
Proof. vm_compute. repeat split; reflexivity. Qed.
