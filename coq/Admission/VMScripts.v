(* The standard witness scripts as BYTES, exactly as the builders emit them
   (pkg/smartcontract/contract.go CreateMultiSigRedeemScript, pkg/crypto/keys PublicKey.GetVerificationScript,
   the invocation scripts of wallet.Account.SignTx / neotest: PUSHDATA1 64 <signature> per signature;
   pkg/vm/emit: Int, Bytes, Syscall), and the handler for the two crypto system calls on the NeoVM model
   (VM/Model.v [step_with]). Definitions only.

   Signatures are 64-byte strings, public keys 33-byte strings (compressed); their contents are arbitrary. *)
From NG Require Import VM.Model.
From NG Require Import Auth.TableTypes gen.Interops.
From Coq Require Import String.
Open Scope Z_scope.

(* emit.Int for a key / signature count 0 <= k: PUSH0..PUSH15 (smallInt stops below 16: PUSH16 is never
   emitted), else the minimal little-endian two's complement padded to 1, 2, 4, 8 bytes: PUSHINT8 for k < 128,
   PUSHINT16 for k < 32768 (larger counts do not occur) *)
Definition emit_int (k : Z) : list Z :=
  if k <? 16 then [byte_of_opcode PUSH0 + k]
  else if k <? 128 then [byte_of_opcode PUSHINT8; k]
  else [byte_of_opcode PUSHINT16; k mod 256; k / 256].

(* emit.Bytes for a string shorter than 256 bytes *)
Definition emit_bytes (bs : list Z) : list Z := byte_of_opcode PUSHDATA1 :: zlen bs :: bs.

Definition le32 (x : Z) : list Z := [x mod 256; (x / 256) mod 256; (x / 65536) mod 256; (x / 16777216) mod 256].

(* interop ids and prices from the generated table of pkg/core/interops.go *)
Definition interop_by_name (name : String.string) : option interop_entry :=
  find (fun e => String.eqb (io_name e) name) interops.
Definition checksig_id : Z := match interop_by_name "System.Crypto.CheckSig"%string with Some e => Z.of_N (io_id e) | None => -1 end.
Definition checkmultisig_id : Z := match interop_by_name "System.Crypto.CheckMultisig"%string with Some e => Z.of_N (io_id e) | None => -1 end.
Definition checksig_price : Z := match interop_by_name "System.Crypto.CheckSig"%string with Some e => Z.of_N (io_price e) | None => 0 end.
Definition checkmultisig_price : Z := match interop_by_name "System.Crypto.CheckMultisig"%string with Some e => Z.of_N (io_price e) | None => 0 end.

Definition emit_syscall (id : Z) : list Z := byte_of_opcode SYSCALL :: le32 id.

(* keys.PublicKey.GetVerificationScript *)
Definition sig_verification (key : list Z) : list Z := emit_bytes key ++ emit_syscall checksig_id.
Definition sig_invocation (sg : list Z) : list Z := emit_bytes sg.
(* smartcontract.CreateMultiSigRedeemScript m keys *)
Definition multisig_verification (m : Z) (keys : list (list Z)) : list Z :=
  emit_int m ++ List.concat (map emit_bytes keys) ++ emit_int (zlen keys) ++ emit_syscall checkmultisig_id.
Definition multisig_invocation (sigs : list (list Z)) : list Z := List.concat (map emit_bytes sigs).

(* ---------- the crypto system calls ---------- *)
(* abstract ECDSA: does signature [sg] verify under [key] for the container being verified *)
Section Sys.
  Variable ecdsa : list Z -> list Z -> bool.       (* key -> signature -> ok *)
  Variable ecdsa_price : Z.                        (* fee.ECDSAVerifyPrice: what CheckMultisig charges per key *)

  (* crypto.checkMultisigPar's matching: signatures and keys in the same order, each signature consumes keys until one fits *)
  Fixpoint match_sigs (keys sigs : list (list Z)) : bool :=
    match sigs with
    | [] => true
    | sg :: sigs' =>
        match keys with
        | [] => false
        | k :: keys' => if ecdsa k sg then match_sigs keys' sigs' else match_sigs keys' sigs
        end
    end.

  (* AddPicoGas: consume, fail beyond the limit *)
  Definition charge (g : Z) (s : state) : option state :=
    let gas := s_gas s + g in
    if (0 <=? s_limit s) && (s_limit s <? gas) then None else Some (set_gas s gas).

  (* Stack.PopSigElements, integer form: the count, then that many byte strings *)
  Fixpoint pop_bytes_n (n : nat) (d : dstate) : option (list (list Z) * dstate) :=
    match n with
    | O => Some ([], d)
    | S n' =>
        match pop d with
        | Some (IBytes bs, d') =>
            match pop_bytes_n n' d' with Some (l, d'') => Some (bs :: l, d'') | None => None end
        | _ => None
        end
    end.
  Definition pop_sig_elements (d : dstate) : option (list (list Z) * dstate) :=
    match pop d with
    | Some (it, d') =>
        match it with
        | IArr _ | IStruct _ => None                 (* array form: not produced by the standard scripts *)
        | _ =>
            match try_int it with
            | Some n => if (n <? 1) || (zlen (d_es d') <? n) then None else pop_bytes_n (Z.to_nat n) d'
            | None => None
            end
        end
    | None => None
    end.

  (* interop dispatch: the fixed price times the base fee is charged first (interop.Context.SyscallHandler),
     CheckMultisig pops keys and signatures and then charges base * ECDSAVerifyPrice * len(keys). A malformed public
     key (an error in the real interop) is not distinguished from a failing signature here. *)
  Definition crypto_sys : syshandler := fun op p s =>
    match op with
    | SYSCALL =>
        let id := from_le p in
        if id =? checksig_id then
          match charge (checksig_price * s_base s) s with
          | None => None
          | Some s =>
              match pop (view s) with
              | Some (IBytes key, d) =>
                  match pop d with
                  | Some (IBytes sg, d) => Some (unview s (push (IBool (ecdsa key sg)) d))
                  | _ => None
                  end
              | _ => None
              end
          end
        else if id =? checkmultisig_id then
          match charge (checkmultisig_price * s_base s) s with
          | None => None
          | Some s =>
              match pop_sig_elements (view s) with
              | None => None
              | Some (keys, d) =>
                  match pop_sig_elements d with
                  | None => None
                  | Some (sigs, d) =>
                      match charge (s_base s * ecdsa_price * zlen keys) s with
                      | None => None
                      | Some s =>
                          if zlen keys <? zlen sigs then None
                          else Some (unview s (push (IBool (match_sigs keys sigs)) d))
                      end
                  end
              end
          end
        else None
    | _ => None
    end.

  Fixpoint run_with (fuel : nat) (s : state) : result :=
    match fuel with
    | O => Running s
    | S f => match step_with crypto_sys s with Running s' => run_with f s' | r => r end
    end.

  (* Blockchain.InitVerificationContext: verification script loaded first, the invocation script on top of it *)
  Definition witness_state (inv ver : list Z) (base limit : Z) : state :=
    load_script (init_state ver 0%N base limit) inv 1%N (-1).
End Sys.
