(* Concrete instances for the C07 theorems (non-vacuity) and the witness for the block-size finding. *)
From NG Require Import Common.Tactics Admission.Fee Admission.FeeProofs Admission.Admit Admission.AdmitProofs
  Mempool.Model Mempool.Spec Mempool.Examples.
Open Scope N_scope.

Definition ex_chain : chainfacts := mkChain 2 500 1000 900000000000 150000000.
Definition ex_base : N := 300000.
Definition ex_shapes : list shape := [(0, 0); (2, 3)].
(* size 426, network fee = 426*1000 + fee of a signature account + fee of a 2-of-3 account *)
Definition ex_facts (netfee : N) : txfacts :=
  mkFacts true 3 426 1000000 netfee 0 true false false (std_witnesses ex_base ex_shapes) true.

Lemma ex_calculated : calculated_fee ex_base ex_shapes = 983520 + 2950380.
Proof. vm_compute. reflexivity. Qed.

Lemma ex_admissible :
  precheck ex_chain (ex_facts (426000 + 3933900)) = None
  /\ precheck ex_chain (ex_facts (426000 + 3933900 - 1)) = Some AWitness
  /\ precheck ex_chain (ex_facts (426000 - 1)) = Some ASmallNetFee.
Proof. vm_compute. repeat split; reflexivity. Qed.

Lemma ex_threshold_hyps :
  ex_shapes <> [] /\ Forall (fun s => 0 < calc_pico ex_base s /\ calc_fee ex_base s <= c_max_verif_gas ex_chain) ex_shapes.
Proof. split; [discriminate|]. repeat constructor; vm_compute; auto; discriminate. Qed.

(* a 160-key account: the calculator's fee exceeds the verification gas limit, it is never accepted *)
Lemma ex_beyond_limit :
  c_max_verif_gas ex_chain < calc_fee ex_base (2, 160)
  /\ verify_loop (c_max_verif_gas ex_chain) (calc_fee ex_base (2, 160) + 1000000) [(witness_cost ex_base (2, 160), true)] = false.
Proof. vm_compute. split; reflexivity. Qed.

(* packing the pool of Mempool/Examples.v (three transactions of size 100) *)
Lemma ex_pack :
  map tid (apply_policy 2 1000 5000 (fun _ => 221) (vtxs (st_pool ex_state_full))) = [0; 3]
  /\ map tid (apply_policy 0 420 5000 (fun _ => 221) (vtxs (st_pool ex_state_full))) = [0]
  /\ map tid (apply_policy 0 1000 5000 (fun _ => 221) (vtxs (st_pool ex_state_full))) = [0; 3; 4].
Proof. vm_compute. repeat split; reflexivity. Qed.

(* the block-size finding: the code sizes the block with a header estimate [hdr] that lacks the
   32-byte previous state root; with StateRootInHeader the real block is 32 bytes longer *)
Lemma pack_short_header_refuted :
  let hdr := fun _ : nat => 221 in
  let real_hdr := fun k : nat => hdr k + 32 in
  let b := apply_policy 0 450 5000 hdr (vtxs (st_pool ex_state_full)) in
  map tid b = [0; 3] /\ 450 < real_hdr (length b) + total_size b.
Proof. vm_compute. split; reflexivity. Qed.
