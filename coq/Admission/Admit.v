(* Model of the admission decision of Blockchain.verifyAndPoolOffChainTx / verifyAndPoolTx (ordered
   checks, first failure wins) and of Blockchain.ApplyPolicyToTxSet. Definitions only.

   A transaction is seen through the facts the checks read ([txfacts]); the chain through [chainfacts].
   Oracles (not modelled further): script well-formedness (scparser.IsScriptCorrect), Policy block list,
   the on-chain / conflict records of the DAO, the attribute rules of verifyTxAttributes, and for every
   witness the picoGAS its execution consumes and whether it ends with `true` on the stack. *)
From NG Require Import Common.Tactics Admission.Fee Mempool.Model.
Open Scope N_scope.

Record chainfacts := mkChain {
  c_height : N;
  c_max_vub_inc : N;            (* GetMaxValidUntilBlockIncrement *)
  c_fee_per_byte : N;           (* Policy *)
  c_max_block_sysfee : N;       (* config.MaxBlockSystemFee *)
  c_max_verif_gas : N           (* Policy.GetMaxVerificationGas, Datoshi *)
}.

Record txfacts := mkFacts {
  f_script_ok : bool;
  f_vub : N;
  f_size : N;
  f_sysfee : N;
  f_netfee : N;
  f_attr_fee : N;             (* CalculateAttributesFee *)
  f_policy_ok : bool;         (* no signer is blocked *)
  f_on_chain : bool;          (* dao.HasTransaction = ErrAlreadyExists *)
  f_conflict_on_chain : bool; (* dao.HasTransaction = ErrHasConflicts: named by an on-chain transaction of one of its signers *)
  f_witnesses : list (N * bool);   (* per signer: picoGAS consumed, ends with true *)
  f_attrs_ok : bool           (* verifyTxAttributes *)
}.

Inductive aerr :=
| APolicySysFee      (* ErrPolicy: system fee above MaxBlockSystemFee *)
| AInvalidScript
| AExpired
| ANotYetValid
| APolicy            (* blocked signer *)
| ATooBig
| ASmallNetFee
| AAlreadyExists
| AHasConflicts
| AWitness           (* a witness failed: wrong hash / out of gas / false *)
| AInvalidAttr
| APool (e : err).   (* refused by mempool.Add *)

(* the checks before mempool.Add, in the order of the code; None = all passed *)
Definition precheck (c : chainfacts) (t : txfacts) : option aerr :=
  if c_max_block_sysfee c <? f_sysfee t then Some APolicySysFee
  else if negb (f_script_ok t) then Some AInvalidScript
  else if f_vub t <=? c_height c then Some AExpired
  else if c_height c + c_max_vub_inc c <? f_vub t then Some ANotYetValid
  else if negb (f_policy_ok t) then Some APolicy
  else if max_transaction_size <? f_size t then Some ATooBig
  else
    let need := f_size t * c_fee_per_byte c + f_attr_fee t in
    if f_netfee t <? need then Some ASmallNetFee
    else if f_on_chain t then Some AAlreadyExists
    else if f_conflict_on_chain t then Some AHasConflicts
    else if negb (verify_loop (c_max_verif_gas c) (f_netfee t - need) (f_witnesses t)) then Some AWitness
    else if negb (f_attrs_ok t) then Some AInvalidAttr
    else None.

(* the whole decision, with the pool as in Mempool/Model.v *)
Definition accept_tx (c : chainfacts) (t : txfacts) (bal : payer -> N) (s : pool) (x : tx) : (aerr + unit) * pool :=
  match precheck c t with
  | Some e => (inl e, s)
  | None =>
      match add fixed_cfg bal s x with
      | (ROk, s') => (inr tt, s')
      | (RErr e, s') => (inl (APool e), s')
      | (_, s') => (inl (APool EDup), s')      (* unreachable: see C08_no_panic *)
      end
  end.

(* everything the property asks of an accepted transaction *)
Definition admissible (c : chainfacts) (t : txfacts) : Prop :=
  f_sysfee t <= c_max_block_sysfee c
  /\ f_script_ok t = true
  /\ c_height c < f_vub t <= c_height c + c_max_vub_inc c
  /\ f_policy_ok t = true
  /\ f_size t <= max_transaction_size
  /\ f_on_chain t = false /\ f_conflict_on_chain t = false
  /\ f_attrs_ok t = true
  /\ f_size t * c_fee_per_byte c + f_attr_fee t <= f_netfee t
  /\ verify_loop (c_max_verif_gas c) (f_netfee t - (f_size t * c_fee_per_byte c + f_attr_fee t)) (f_witnesses t) = true.

(* ---------- ApplyPolicyToTxSet ---------- *)
(* [hdr k] = Block.GetExpectedBlockSizeWithoutTransactions(k) for the default block witness *)
Fixpoint take_fitting (max_size max_sysfee : N) (size sysfee_acc : N) (txs : list tx) : list tx :=
  match txs with
  | [] => []
  | t :: r =>
      let size' := size + Model.size t in
      let sys' := sysfee_acc + sysfee t in
      if (max_size <? size') || (max_sysfee <? sys') then []
      else t :: take_fitting max_size max_sysfee size' sys' r
  end.

Definition apply_policy (max_tx : nat) (max_size max_sysfee : N) (hdr : nat -> N) (txs : list tx) : list tx :=
  let txs1 := if negb (max_tx =? 0)%nat && (max_tx <? length txs)%nat then firstn max_tx txs else txs in
  take_fitting max_size max_sysfee (hdr (length txs1)) 0 txs1.

Definition total_size (l : list tx) : N := fold_right (fun t a => Model.size t + a) 0 l.
Definition total_sysfee (l : list tx) : N := fold_right (fun t a => sysfee t + a) 0 l.
