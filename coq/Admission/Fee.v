(* Model of pkg/core/fee/calculate.go (Calculate, calculateMultisig, Opcode) over the GENERATED price
   table coq/gen/FeeTable.v, of the gas the VM charges for running a standard signature / m-of-n
   witness, and of the gas loop of Blockchain.verifyTxWitnesses / verifyHashAgainstScript.
   Definitions only. Units: [base] is the execution fee factor in picoGAS (what GetBaseExecFee returns),
   costs are picoGAS, fees and budgets are Datoshi. *)
From NG Require Import Common.Tactics.
From NG Require Export gen.FeeTable.
Open Scope N_scope.

Definition coeff (op : N) : N := nth (N.to_nat op) fee_coeff 0.
Definition push_op (k : N) : N := nth (N.to_nat k) push_int_op 0.      (* opcode of emit.Int(k) *)

(* fee.Opcode(base, ops...) *)
Definition opcode_price (base : N) (ops : list N) : N := fold_left (fun a op => a + coeff op) ops 0 * base.

(* vm.PicoGasToDatoshiInt64 *)
Definition pico_to_datoshi (x : N) : N := (x + exec_fee_multiplier - 1) / exec_fee_multiplier.

(* fee.Calculate, network-fee part, before the conversion *)
Definition calc_multisig_part (base k : N) : N :=
  opcode_price base [op_PUSHDATA1] * k + opcode_price base [push_op k].
Definition calc_sig_pico (base : N) : N :=
  opcode_price base [op_PUSHDATA1; op_PUSHDATA1] + base * ecdsa_verify_price.
Definition calc_multisig_pico (base m n : N) : N :=
  calc_multisig_part base m + calc_multisig_part base n + base * ecdsa_verify_price * n.

(* a signer shape: (0, _) = single signature account, (m, n) = m-of-n account *)
Definition shape := (N * N)%type.
Definition calc_pico (base : N) (s : shape) : N :=
  if fst s =? 0 then calc_sig_pico base else calc_multisig_pico base (fst s) (snd s).
Definition calc_fee (base : N) (s : shape) : N := pico_to_datoshi (calc_pico base s).

(* fee.Calculate, size part *)
Definition varint_size (n : N) : N :=
  if n <? 253 then 1 else if n <=? 65535 then 3 else if n <=? 4294967295 then 5 else 9.
Definition var_bytes_size (len : N) : N := varint_size len + len.
Definition calc_size (s : shape) (verif_len : N) : N :=
  if fst s =? 0 then 67 + var_bytes_size verif_len
  else let size_inv := 66 * fst s in varint_size size_inv + size_inv + var_bytes_size verif_len.
(* the encoded witness: two var-bytes fields *)
Definition witness_size (inv_len verif_len : N) : N := var_bytes_size inv_len + var_bytes_size verif_len.

(* ---------- what running the witness costs ---------- *)
(* opcodes of the instructions executed, invocation script first (straight-line scripts) *)
Definition inv_ops (s : shape) : list N :=
  if fst s =? 0 then [op_PUSHDATA1] else repeat op_PUSHDATA1 (N.to_nat (fst s)).
Definition ver_ops (s : shape) : list N :=
  if fst s =? 0 then [op_PUSHDATA1; op_SYSCALL]
  else [push_op (fst s)] ++ repeat op_PUSHDATA1 (N.to_nat (snd s)) ++ [push_op (snd s); op_SYSCALL].
(* signature checks charged by the system call: CheckSig has price ECDSAVerifyPrice, CheckMultisig charges
   ECDSAVerifyPrice per public key at run time *)
Definition nchecks (s : shape) : N := if fst s =? 0 then 1 else snd s.

(* the VM charges coeff(op) * base for every instruction executed, and the system call's price *)
Definition run_cost (base : N) (ops : list N) (checks : N) : N :=
  fold_left (fun a op => a + coeff op * base) ops 0 + base * ecdsa_verify_price * checks.
Definition witness_cost (base : N) (s : shape) : N := run_cost base (inv_ops s ++ ver_ops s) (nchecks s).

(* ---------- verifyTxWitnesses ---------- *)
(* [budget] Datoshi are left; the witness runs with limit min(budget, MaxVerificationGas) (in picoGAS:
   times the multiplier; limit 0 stays 0), fails when its cost exceeds the limit or the signature is
   wrong, and the consumed gas rounded up to Datoshi is deducted *)
Fixpoint verify_loop (maxgas budget : N) (ws : list (N * bool)) : bool :=
  match ws with
  | [] => true
  | (c, valid) :: r =>
      let limit := N.min budget maxgas in
      if limit * exec_fee_multiplier <? c then false
      else if valid then verify_loop maxgas (budget - pico_to_datoshi c) r else false
  end.

Definition needed_gas (ws : list (N * bool)) : N := fold_right (fun w a => pico_to_datoshi (fst w) + a) 0 ws.
