(* Running the standard witness scripts (as bytes) on the NeoVM model of VM/Model.v with the crypto system calls:
   the machine halts with `true` and has consumed exactly what fee.Calculate charges; with a smaller limit it faults. *)
From NG Require Import VM.Model Admission.VMScripts Admission.VMSteps.
From NG Require Import Codec.BigintProofs Admission.Fee Admission.FeeProofs.
Open Scope Z_scope.

Lemma decode_end : forall prog, decode prog (zlen prog) = DecEnd.
Proof.
  intros; unfold decode. assert (H0 : (zlen prog <? 0) = false) by (apply Z.ltb_ge, zlen_nonneg). rewrite H0.
  unfold zlen. rewrite Nat2Z.id, skipn_all. reflexivity.
Qed.

Lemma from_le_le32 : forall x, 0 <= x < 4294967296 -> from_le (le32 x) = x.
Proof. intros x H; unfold le32; cbn [from_le]. lia. Qed.

Lemma decode_syscall : forall pre id post,
  decode (pre ++ emit_syscall id ++ post) (zlen pre) = DecOk SYSCALL (le32 id) (zlen pre + 5).
Proof.
  intros pre id post. unfold decode.
  assert (H0 : (zlen pre <? 0) = false) by (apply Z.ltb_ge, zlen_nonneg). rewrite H0, skipn_zlen.
  unfold emit_syscall, le32. cbn [app]. change (opcode_of_byte (byte_of_opcode SYSCALL)) with (Some SYSCALL).
  cbn [operand_of take]. f_equal. simpl Z.of_nat. lia.
Qed.

Ltac norm_state :=
  unfold Model.post, unview, set_mem, push_noref, set_es, view, set_ip, set_fr, fr_set_ip, set_gas;
  cbn [s_fr s_sc s_frames s_outer s_heap s_refs s_exc s_gas s_limit s_base f_ip f_local f_args f_try f_ret
       sc_prog sc_sid sc_static sc_es sc_shared d_es d_local d_args d_static d_heap d_refs].

Section Sys.
  Variable ecdsa : list Z -> list Z -> bool.
  Variable eprice : Z.
  Notation sys := (crypto_sys ecdsa eprice).
  Variables (base limit : Z).

  (* the invocation script has ended: its evaluation stack is the verification script's (shared), no charge *)
  Lemma step_end_invocation : forall inv ver es gas refs,
    refs <= MaxStackSize ->
    step_with sys (St inv 1%N true [(mkScript ver 0%N None [] false, (mkFrame 0 None None [] (-1), []))] base limit (zlen inv) es gas refs)
    = Running (St ver 0%N false [] base limit 0 es gas refs).
  Proof.
    intros inv ver es gas refs R. unfold step_with, St. cbn [s_fr s_sc f_ip sc_prog]. rewrite decode_end.
    cbn. assert (H : (MaxStackSize <? refs) = false) by (apply Z.ltb_ge; lia).
    unfold MaxStackSize in *. rewrite H. reflexivity.
  Qed.

  Lemma step_end_verification : forall ver es gas refs,
    refs <= MaxStackSize ->
    step_with sys (St ver 0%N false [] base limit (zlen ver) es gas refs)
    = Halted (St ver 0%N false [] base limit (zlen ver) es gas refs).
  Proof.
    intros ver es gas refs R. unfold step_with, St. cbn [s_fr s_sc f_ip sc_prog]. rewrite decode_end.
    cbn. assert (H : (MaxStackSize <? refs) = false) by (apply Z.ltb_ge; lia).
    unfold MaxStackSize in *. rewrite H. reflexivity.
  Qed.

  Lemma ids_ok : 0 <= checksig_id < 4294967296 /\ 0 <= checkmultisig_id < 4294967296 /\ checksig_id <> checkmultisig_id.
  Proof. vm_compute. repeat split; congruence. Qed.

  (* System.Crypto.CheckSig on [key; signature; ...] *)
  Lemma step_checksig : forall prog sid shared outer pre post key sg rest gas refs,
    prog = pre ++ emit_syscall checksig_id ++ post -> refs - 1 <= MaxStackSize ->
    step_with sys (St prog sid shared outer base limit (zlen pre) (IBytes key :: IBytes sg :: rest) gas refs)
    = if gas_ok limit (gas + 0 * base) && gas_ok limit (gas + 0 * base + checksig_price * base)
      then Running (St prog sid shared outer base limit (zlen pre + 5) (IBool (ecdsa key sg) :: rest)
                       (gas + 0 * base + checksig_price * base) (refs - 1 - 1 + 1))
      else Faulted (gas + 0 * base).
  Proof.
    intros prog sid shared outer pre post key sg rest gas refs P R.
    destruct ids_ok as (I1 & _ & _).
    unfold step_with, St. cbn [s_fr s_sc f_ip sc_prog s_gas s_base s_limit]. rewrite P, decode_syscall.
    unfold price. change (opcode_coeff SYSCALL) with 0. unfold gas_ok.
    destruct ((0 <=? limit) && (limit <? gas + 0 * base)) eqn:G1; cbn [negb andb]; auto.
    unfold exec_op, crypto_sys. rewrite from_le_le32 by auto. rewrite Z.eqb_refl.
    unfold charge. norm_state.
    destruct ((0 <=? limit) && (limit <? gas + 0 * base + checksig_price * base)) eqn:G2; cbn [negb xopt]; auto.
    cbn -[Z.add Z.mul Z.ltb Z.sub]. norm_state.
    assert (H : (MaxStackSize <? refs - 1 - 1 + 1) = false) by (apply Z.ltb_ge; lia). rewrite H. reflexivity.
  Qed.

  Lemma pop_bytes_n_spec : forall items rest lo ar st hp refs,
    pop_bytes_n (length items) (mkD (map IBytes items ++ rest) lo ar st hp refs)
    = Some (items, mkD rest lo ar st hp (refs - zlen items)).
  Proof.
    induction items as [|b items IH]; intros rest lo ar st hp refs.
    - cbn. f_equal. f_equal. f_equal. unfold zlen; simpl. lia.
    - cbn [length map app pop_bytes_n]. unfold pop, pop_noref. cbn [d_es].
      unfold d_remove, ref_remove. cbn [item_cloc]. unfold set_mem, set_es. cbn [d_heap d_refs d_es d_local d_args d_static].
      rewrite IH. f_equal. f_equal. f_equal. rewrite zlen_cons. lia.
  Qed.

  Lemma pop_sig_elements_spec : forall items rest lo ar st hp refs,
    1 <= zlen items -> zlen items <= 1024 ->
    pop_sig_elements (mkD (IInt (zlen items) :: map IBytes items ++ rest) lo ar st hp refs)
    = Some (items, mkD rest lo ar st hp (refs - 1 - zlen items)).
  Proof.
    intros items rest lo ar st hp refs H1 H2. unfold pop_sig_elements, pop, pop_noref. cbn [d_es].
    unfold d_remove, ref_remove. cbn [item_cloc]. unfold set_mem, set_es. cbn [d_heap d_refs d_es d_local d_args d_static try_int].
    assert (A : (zlen items <? 1) = false) by (apply Z.ltb_ge; lia). rewrite A.
    assert (B : (zlen (map IBytes items ++ rest) <? zlen items) = false).
    { apply Z.ltb_ge. rewrite zlen_app. unfold zlen at 2. rewrite map_length. fold (zlen items). pose proof (zlen_nonneg rest). lia. }
    rewrite B. cbn [orb]. unfold zlen at 1. rewrite Nat2Z.id. apply pop_bytes_n_spec.
  Qed.

  (* System.Crypto.CheckMultisig on [n; key_n .. key_1; m; sig_m .. sig_1; ...] (ks, ss: as popped) *)
  Lemma step_checkmultisig : forall prog sid shared outer pre post ks ss rest gas refs,
    prog = pre ++ emit_syscall checkmultisig_id ++ post ->
    1 <= zlen ss <= zlen ks -> zlen ks <= 1024 -> refs <= MaxStackSize + zlen ks ->
    step_with sys (St prog sid shared outer base limit (zlen pre)
                      (IInt (zlen ks) :: map IBytes ks ++ IInt (zlen ss) :: map IBytes ss ++ rest) gas refs)
    = if gas_ok limit (gas + 0 * base) && gas_ok limit (gas + 0 * base + checkmultisig_price * base)
         && gas_ok limit (gas + 0 * base + checkmultisig_price * base + base * eprice * zlen ks)
      then Running (St prog sid shared outer base limit (zlen pre + 5) (IBool (match_sigs ecdsa ks ss) :: rest)
                       (gas + 0 * base + checkmultisig_price * base + base * eprice * zlen ks)
                       (refs - 1 - zlen ks - 1 - zlen ss + 1))
      else Faulted (gas + 0 * base).
  Proof.
    intros prog sid shared outer pre post ks ss rest gas refs P L1 L2 R.
    destruct ids_ok as (_ & I2 & I3).
    unfold step_with, St. cbn [s_fr s_sc f_ip sc_prog s_gas s_base s_limit]. rewrite P, decode_syscall.
    unfold price. change (opcode_coeff SYSCALL) with 0. unfold gas_ok.
    destruct ((0 <=? limit) && (limit <? gas + 0 * base)) eqn:G1; cbn [negb andb]; auto.
    unfold exec_op, crypto_sys. rewrite from_le_le32 by auto.
    assert (E : (checkmultisig_id =? checksig_id) = false) by (apply Z.eqb_neq; congruence). rewrite E, Z.eqb_refl.
    unfold charge at 1. norm_state.
    destruct ((0 <=? limit) && (limit <? gas + 0 * base + checkmultisig_price * base)) eqn:G2; cbn [negb andb xopt]; auto.
    norm_state. rewrite pop_sig_elements_spec by lia.
    rewrite pop_sig_elements_spec by lia.
    unfold charge. norm_state.
    destruct ((0 <=? limit) && (limit <? gas + 0 * base + checkmultisig_price * base + base * eprice * zlen ks)) eqn:G3;
      cbn [negb xopt]; auto.
    assert (F : (zlen ks <? zlen ss) = false) by (apply Z.ltb_ge; lia). rewrite F.
    unfold push, d_add, ref_add. cbn [item_cloc]. norm_state. cbn [xopt]. norm_state.
    assert (H : (MaxStackSize <? refs - 1 - zlen ks - 1 - zlen ss + 1) = false) by (apply Z.ltb_ge; lia). rewrite H.
    reflexivity.
  Qed.
End Sys.

(* ---------- runs ---------- *)
Lemma gas_ok_true : forall limit g, gas_ok limit g = true <-> limit < 0 \/ g <= limit.
Proof. intros; unfold gas_ok. rewrite negb_true_iff, andb_false_iff, Z.leb_gt, Z.ltb_ge. tauto. Qed.
Lemma gas_ok_false : forall limit g, gas_ok limit g = false <-> 0 <= limit < g.
Proof. intros; unfold gas_ok. rewrite negb_false_iff, andb_true_iff, Z.leb_le, Z.ltb_lt. tauto. Qed.

Section Runs.
  Variable ecdsa : list Z -> list Z -> bool.
  Variable eprice : Z.
  Notation sys := (crypto_sys ecdsa eprice).
  Notation RUN := (run_with ecdsa eprice).
  Variables (base limit : Z).
  Hypothesis base_nonneg : 0 <= base.

  Lemma run_with_app : forall a b s,
    RUN (a + b) s = match RUN a s with Running s' => RUN b s' | r => r end.
  Proof.
    induction a as [|a IH]; intros b s; [reflexivity|].
    cbn [Nat.add run_with]. destruct (step_with sys s); auto.
  Qed.

  (* a run of PUSHDATA1 instructions *)
  Lemma run_pushes : forall prog sid shared outer items pre post es gas refs,
    prog = pre ++ List.concat (map emit_bytes items) ++ post ->
    Forall (fun d => zlen d <= 255) items -> refs + zlen items <= MaxStackSize ->
    gas_ok limit gas = true ->
    match RUN (length items) (St prog sid shared outer base limit (zlen pre) es gas refs) with
    | Running s =>
        gas_ok limit (gas + 8 * base * zlen items) = true
        /\ s = St prog sid shared outer base limit (zlen pre + zlen (List.concat (map emit_bytes items)))
                  (map IBytes (rev items) ++ es) (gas + 8 * base * zlen items) (refs + zlen items)
    | Faulted _ => gas_ok limit (gas + 8 * base * zlen items) = false
    | Halted _ => False
    end.
  Proof.
    intros prog sid shared outer. induction items as [|d items IH]; intros pre post es gas refs P F R G0.
    - cbn [length run_with map concat rev app]. change (zlen (@nil (list Z))) with 0. change (zlen (@nil Z)) with 0.
      rewrite Z.mul_0_r, !Z.add_0_r. auto.
    - pose proof (Forall_inv F) as H1. pose proof (Forall_inv_tail F) as H2. rewrite zlen_cons in *. pose proof (zlen_nonneg items) as Hn.
      cbn [length run_with]. cbn [map concat] in P. rewrite <- app_assoc in P.
      rewrite (step_pushdata1 sys prog sid shared outer base limit (zlen pre) es gas refs d (zlen pre + 2 + zlen d));
        [|rewrite P; apply decode_pushdata1; auto|lia].
      destruct (gas_ok limit (gas + 8 * base)) eqn:G1.
      + assert (P' : prog = (pre ++ emit_bytes d) ++ List.concat (map emit_bytes items) ++ post)
          by (rewrite P, <- app_assoc; reflexivity).
        specialize (IH (pre ++ emit_bytes d) post (IBytes d :: es) (gas + 8 * base) (refs + 1) P' H2 ltac:(lia) G1).
        assert (Z1 : zlen (pre ++ emit_bytes d) = zlen pre + 2 + zlen d).
        { rewrite zlen_app. unfold emit_bytes. rewrite !zlen_cons. lia. }
        rewrite Z1 in IH.
        destruct (RUN (length items) _) as [s| |g]; auto.
        * destruct IH as [G2 ->]. split; [replace (gas + 8 * base * (1 + zlen items)) with (gas + 8 * base + 8 * base * zlen items) by lia; auto|].
          cbn [map concat rev]. rewrite zlen_app, map_app, <- app_assoc. cbn [map app].
          unfold emit_bytes at 2. rewrite !zlen_cons.
          f_equal; lia.
        * replace (gas + 8 * base * (1 + zlen items)) with (gas + 8 * base + 8 * base * zlen items) by lia; auto.
      + apply gas_ok_false in G1. apply gas_ok_false. nia.
  Qed.

  Hypothesis eprice_nonneg : 0 <= eprice.

  Lemma witness_state_St : forall inv ver,
    witness_state inv ver base limit
    = St inv 1%N true [(mkScript ver 0%N None [] false, (mkFrame 0 None None [] (-1), []))] base limit 0 [] 0 0.
  Proof. reflexivity. Qed.

  Lemma prices_ok : checkmultisig_price = 0 /\ checksig_price = Z.of_N ecdsa_verify_price.
  Proof. vm_compute. split; reflexivity. Qed.

  Lemma zlen_emit_bytes_concat : forall (items : list (list Z)) L,
    Forall (fun d => zlen d = L) items -> zlen (List.concat (map emit_bytes items)) = (2 + L) * zlen items.
  Proof.
    induction items as [|d items IH]; intros L F; cbn [map concat].
    - change (zlen (@nil Z)) with 0. change (zlen (@nil (list Z))) with 0. lia.
    - rewrite zlen_app, (IH L (Forall_inv_tail F)), zlen_cons. unfold emit_bytes. rewrite !zlen_cons, (Forall_inv F). lia.
  Qed.

  (* ---------- the m-of-n witness ---------- *)
  Theorem multisig_on_vm : forall keys sigs,
    Forall (fun k => zlen k = 33) keys -> Forall (fun sg => zlen sg = 64) sigs ->
    1 <= zlen sigs <= zlen keys -> zlen keys <= 1024 -> zlen sigs + zlen keys + 2 <= MaxStackSize ->
    let m := zlen sigs in let n := zlen keys in
    let cost := 8 * base * m + 1 * base + 8 * base * n + 1 * base + 0 * base + checkmultisig_price * base + base * eprice * n in
    match RUN (length sigs + (1 + (1 + (length keys + (1 + (1 + 1)))))) (witness_state (multisig_invocation sigs) (multisig_verification m keys) base limit) with
    | Halted s => gas_ok limit cost = true /\ final_stack s = [IBool (match_sigs ecdsa (rev keys) (rev sigs))] /\ s_gas s = cost
    | Faulted _ => gas_ok limit cost = false
    | Running _ => False
    end.
  Proof.
    intros keys sigs Fk Fs Hm Hn Hst m n cost. subst m n.
    set (m := zlen sigs) in *. set (n := zlen keys) in *.
    destruct prices_ok as [PM _]. pose proof (zlen_nonneg sigs) as Zm. pose proof (zlen_nonneg keys) as Zn.
    assert (Fk' : Forall (fun d => zlen d <= 255) keys) by (eapply Forall_impl; [|exact Fk]; simpl; intros; lia).
    assert (Fs' : Forall (fun d => zlen d <= 255) sigs) by (eapply Forall_impl; [|exact Fs]; simpl; intros; lia).
    unfold MaxStackSize in *.
    rewrite witness_state_St. unfold multisig_invocation, multisig_verification. fold n.
    set (inv := List.concat (map emit_bytes sigs)).
    set (ver := emit_int m ++ List.concat (map emit_bytes keys) ++ emit_int n ++ emit_syscall checkmultisig_id).
    set (outer := [(mkScript ver 0%N None [] false, (mkFrame 0 None None [] (-1), []))]).
    (* 1: the signatures *)
    rewrite run_with_app.
    pose proof (run_pushes inv 1%N true outer sigs [] [] [] 0 0) as R1.
    change (zlen (@nil Z)) with 0 in R1. cbn [app] in R1. rewrite app_nil_r in R1.
    specialize (R1 eq_refl Fs' ltac:(unfold MaxStackSize; fold m; lia) ltac:(apply gas_ok_true; destruct (Z_lt_dec limit 0); [auto|right; lia])).
    fold m in R1. rewrite Z.add_0_l in R1.
    destruct (RUN (length sigs) _) as [s1| |g1]; [|contradiction|apply gas_ok_false in R1; apply gas_ok_false; unfold cost; rewrite PM; nia].
    destruct R1 as [G1 ->]. apply gas_ok_true in G1. fold inv. rewrite !Z.add_0_l, app_nil_r.
    (* 2: end of the invocation script *)
    rewrite run_with_app. cbn [run_with]. unfold outer. rewrite step_end_invocation by (unfold MaxStackSize; lia).
    (* 3: push m *)
    rewrite run_with_app. cbn [run_with].
    rewrite (step_emit_int sys ver 0%N false [] base limit [] (List.concat (map emit_bytes keys) ++ emit_int n ++ emit_syscall checkmultisig_id) m)
      by (try reflexivity; unfold MaxStackSize; lia).
    change (zlen (@nil Z)) with 0. rewrite Z.add_0_l.
    destruct (gas_ok limit (8 * base * m + 1 * base)) eqn:G3;
      [|apply gas_ok_false in G3; apply gas_ok_false; unfold cost; rewrite PM; nia].
    (* 4: the keys *)
    rewrite run_with_app.
    pose proof (run_pushes ver 0%N false [] keys (emit_int m) (emit_int n ++ emit_syscall checkmultisig_id)
                  (IInt m :: map IBytes (rev sigs)) (8 * base * m + 1 * base) (m + 1)) as R4.
    specialize (R4 eq_refl Fk' ltac:(unfold MaxStackSize; fold n; lia) G3). fold n in R4.
    destruct (RUN (length keys) _) as [s4| |g4]; [|contradiction|apply gas_ok_false in R4; apply gas_ok_false; unfold cost; rewrite PM; nia].
    destruct R4 as [G4 ->].
    (* 5: push n *)
    rewrite run_with_app. cbn [run_with].
    rewrite <- zlen_app.
    rewrite (step_emit_int sys ver 0%N false [] base limit (emit_int m ++ List.concat (map emit_bytes keys)) (emit_syscall checkmultisig_id) n)
      by (try (unfold ver; rewrite <- !app_assoc; reflexivity); unfold MaxStackSize; lia).
    destruct (gas_ok limit (8 * base * m + 1 * base + 8 * base * n + 1 * base)) eqn:G5;
      [|apply gas_ok_false in G5; apply gas_ok_false; unfold cost; rewrite PM; nia].
    (* 6: the system call *)
    rewrite run_with_app. cbn [run_with].
    rewrite <- zlen_app.
    assert (Zrk : zlen (rev keys) = n) by (unfold zlen; rewrite rev_length; reflexivity).
    assert (Zrs : zlen (rev sigs) = m) by (unfold zlen; rewrite rev_length; reflexivity).
    pose proof (step_checkmultisig ecdsa eprice base limit ver 0%N false []
                  ((emit_int m ++ List.concat (map emit_bytes keys)) ++ emit_int n) [] (rev keys) (rev sigs) []
                  (8 * base * m + 1 * base + 8 * base * n + 1 * base) (m + 1 + n + 1)) as R6.
    rewrite Zrk, Zrs, !app_nil_r in R6.
    rewrite R6 by (try (unfold ver; rewrite <- !app_assoc; reflexivity); unfold MaxStackSize; lia). clear R6.
    destruct (gas_ok limit (8 * base * m + 1 * base + 8 * base * n + 1 * base + 0 * base)
              && gas_ok limit (8 * base * m + 1 * base + 8 * base * n + 1 * base + 0 * base + checkmultisig_price * base)
              && gas_ok limit (8 * base * m + 1 * base + 8 * base * n + 1 * base + 0 * base + checkmultisig_price * base + base * eprice * n)) eqn:G6.
    - (* 7: end of the verification script *)
      apply andb_true_iff in G6 as [_ G6].
      assert (Zv : zlen ((emit_int m ++ List.concat (map emit_bytes keys)) ++ emit_int n) + 5 = zlen ver).
      { unfold ver. rewrite !zlen_app. unfold emit_syscall, le32. rewrite !zlen_cons. change (zlen (@nil Z)) with 0. lia. }
      rewrite Zv. rewrite step_end_verification by (unfold MaxStackSize; lia).
      unfold final_stack, St; cbn [s_sc sc_es s_gas]. repeat split; auto.
    - apply gas_ok_false. rewrite !andb_false_iff, !gas_ok_false in G6. unfold cost. rewrite PM in *. nia.
  Qed.

  (* ---------- the signature witness ---------- *)
  Theorem sig_on_vm : forall key sg,
    zlen key = 33 -> zlen sg = 64 ->
    let cost := 8 * base + 8 * base + 0 * base + checksig_price * base in
    match RUN 5 (witness_state (sig_invocation sg) (sig_verification key) base limit) with
    | Halted s => gas_ok limit cost = true /\ final_stack s = [IBool (ecdsa key sg)] /\ s_gas s = cost
    | Faulted _ => gas_ok limit cost = false
    | Running _ => False
    end.
  Proof.
    intros key sg Hk Hs cost. destruct prices_ok as [_ PS].
    assert (PSn : 0 <= checksig_price) by (rewrite PS; lia).
    rewrite witness_state_St. unfold sig_invocation, sig_verification.
    set (ver := emit_bytes key ++ emit_syscall checksig_id).
    change 5%nat with (1 + (1 + (1 + (1 + 1))))%nat.
    (* the signature *)
    rewrite run_with_app. cbn [run_with].
    assert (D1 : decode (emit_bytes sg) 0 = DecOk PUSHDATA1 sg (0 + 2 + zlen sg)).
    { pose proof (decode_pushdata1 [] sg []) as D. rewrite app_nil_r in D. apply D; lia. }
    rewrite (step_pushdata1 sys (emit_bytes sg) 1%N true _ base limit 0 [] 0 0 sg (0 + 2 + zlen sg) D1)
      by (unfold MaxStackSize; lia).
    destruct (gas_ok limit (0 + 8 * base)) eqn:G1; [|apply gas_ok_false in G1; apply gas_ok_false; unfold cost; nia].
    (* end of the invocation script *)
    rewrite run_with_app. cbn [run_with].
    assert (Zi : 0 + 2 + zlen sg = zlen (emit_bytes sg)) by (unfold emit_bytes; rewrite !zlen_cons; lia).
    rewrite Zi, step_end_invocation by (unfold MaxStackSize; lia).
    (* the key *)
    rewrite run_with_app. cbn [run_with].
    assert (D2 : decode ver 0 = DecOk PUSHDATA1 key (0 + 2 + zlen key)).
    { apply (decode_pushdata1 [] key (emit_syscall checksig_id)); lia. }
    rewrite (step_pushdata1 sys ver 0%N false [] base limit 0 [IBytes sg] (0 + 8 * base) (0 + 1) key (0 + 2 + zlen key) D2)
      by (unfold MaxStackSize; lia).
    destruct (gas_ok limit (0 + 8 * base + 8 * base)) eqn:G2; [|apply gas_ok_false in G2; apply gas_ok_false; unfold cost; nia].
    (* the system call *)
    rewrite run_with_app. cbn [run_with].
    assert (Zk : 0 + 2 + zlen key = zlen (emit_bytes key)) by (unfold emit_bytes; rewrite !zlen_cons; lia).
    rewrite Zk.
    rewrite (step_checksig ecdsa eprice base limit ver 0%N false [] (emit_bytes key) [] key sg [])
      by (try (unfold ver; rewrite app_nil_r; reflexivity); unfold MaxStackSize; lia).
    destruct (gas_ok limit (0 + 8 * base + 8 * base + 0 * base)
              && gas_ok limit (0 + 8 * base + 8 * base + 0 * base + checksig_price * base)) eqn:G3.
    - apply andb_true_iff in G3 as [_ G3].
      assert (Zv : zlen (emit_bytes key) + 5 = zlen ver).
      { unfold ver. rewrite zlen_app. unfold emit_syscall, le32. rewrite !zlen_cons. change (zlen (@nil Z)) with 0. lia. }
      rewrite Zv, step_end_verification by (unfold MaxStackSize; lia).
      unfold final_stack, St; cbn [s_sc sc_es s_gas]. unfold cost.
      replace (8 * base + 8 * base + 0 * base + checksig_price * base) with (0 + 8 * base + 8 * base + 0 * base + checksig_price * base) by lia.
      repeat split; auto.
    - apply gas_ok_false. rewrite andb_false_iff, !gas_ok_false in G3. unfold cost. nia.
  Qed.
End Runs.

(* ---------- in terms of fee.Calculate ---------- *)
Definition vm_fuel_multisig (m n : nat) : nat := (m + (1 + (1 + (n + (1 + (1 + 1))))))%nat.

Lemma calc_multisig_Z : forall base m n, 0 <= base -> 1 <= m <= 1024 -> 1 <= n <= 1024 ->
  Z.of_N (calc_multisig_pico (Z.to_N base) (Z.to_N m) (Z.to_N n))
  = 8 * base * m + 1 * base + 8 * base * n + 1 * base + 0 * base + checkmultisig_price * base + base * Z.of_N ecdsa_verify_price * n.
Proof.
  intros base m n Hb Hm Hn. destruct prices_ok as [PM _]. rewrite PM.
  rewrite calc_multisig_closed by lia.
  rewrite !N2Z.inj_mul, !N2Z.inj_add, !N2Z.inj_mul, !Z2N.id by lia. simpl (Z.of_N 8). simpl (Z.of_N 2). lia.
Qed.

Lemma calc_sig_Z : forall base, 0 <= base ->
  Z.of_N (calc_sig_pico (Z.to_N base)) = 8 * base + 8 * base + 0 * base + checksig_price * base.
Proof.
  intros base Hb. destruct prices_ok as [_ PS]. rewrite PS, calc_sig_closed.
  rewrite !N2Z.inj_mul, !N2Z.inj_add, !Z2N.id by lia. simpl (Z.of_N 16). lia.
Qed.

Theorem fee_exact_multisig_on_vm : forall ecdsa base limit keys sigs,
  0 <= base ->
  Forall (fun k => zlen k = 33) keys -> Forall (fun sg => zlen sg = 64) sigs ->
  1 <= zlen sigs <= zlen keys -> zlen keys <= 1024 -> zlen sigs + zlen keys + 2 <= MaxStackSize ->
  let m := zlen sigs in let n := zlen keys in
  let cost := Z.of_N (calc_multisig_pico (Z.to_N base) (Z.to_N m) (Z.to_N n)) in
  let r := run_with ecdsa (Z.of_N ecdsa_verify_price) (vm_fuel_multisig (length sigs) (length keys))
             (witness_state (multisig_invocation sigs) (multisig_verification m keys) base limit) in
  (limit < 0 \/ cost <= limit ->
     exists s, r = Halted s /\ final_stack s = [IBool (match_sigs ecdsa (rev keys) (rev sigs))] /\ s_gas s = cost)
  /\ (0 <= limit < cost -> exists g, r = Faulted g).
Proof.
  intros ecdsa base limit keys sigs Hb Fk Fs Hm Hn Hst m n cost r.
  pose proof (multisig_on_vm ecdsa (Z.of_N ecdsa_verify_price) base limit Hb (N2Z.is_nonneg _) keys sigs Fk Fs Hm Hn Hst) as H.
  cbv zeta in H. fold m n in H. rewrite <- calc_multisig_Z in H by (subst m n; lia). fold cost in H.
  unfold vm_fuel_multisig in r. fold r in H.
  split.
  - intros Hl. destruct r as [s|s|g]; [contradiction| |].
    + destruct H as (_ & H1 & H2). exists s; auto.
    + apply gas_ok_false in H. lia.
  - intros Hl. destruct r as [s|s|g]; [contradiction| |eauto].
    destruct H as (H0 & _). apply gas_ok_true in H0. lia.
Qed.

Theorem fee_exact_sig_on_vm : forall ecdsa base limit key sg,
  0 <= base -> zlen key = 33 -> zlen sg = 64 ->
  let cost := Z.of_N (calc_sig_pico (Z.to_N base)) in
  let r := run_with ecdsa (Z.of_N ecdsa_verify_price) 5 (witness_state (sig_invocation sg) (sig_verification key) base limit) in
  (limit < 0 \/ cost <= limit -> exists s, r = Halted s /\ final_stack s = [IBool (ecdsa key sg)] /\ s_gas s = cost)
  /\ (0 <= limit < cost -> exists g, r = Faulted g).
Proof.
  intros ecdsa base limit key sg Hb Hk Hs cost r.
  pose proof (sig_on_vm ecdsa (Z.of_N ecdsa_verify_price) base limit key sg Hk Hs) as H.
  cbv zeta in H. rewrite <- calc_sig_Z in H by auto. fold cost in H. fold r in H.
  split.
  - intros Hl. destruct r as [s|s|g]; [contradiction| |].
    + destruct H as (_ & H1 & H2). exists s; auto.
    + apply gas_ok_false in H. lia.
  - intros Hl. destruct r as [s|s|g]; [contradiction| |eauto].
    destruct H as (H0 & _). apply gas_ok_true in H0. lia.
Qed.

(* in Datoshi, as verifyHashAgainstScript sets the limit (SetGasLimit(G): G * ExecFeeFactorMultiplier picoGAS):
   any G >= fee.Calculate is enough, G = fee.Calculate - 1 is not *)
Lemma datoshi_limit : forall c G, 0 <= G ->
  (Z.of_N (pico_to_datoshi c) <= G -> Z.of_N c <= G * Z.of_N exec_fee_multiplier)
  /\ (G = Z.of_N (pico_to_datoshi c) - 1 -> 0 <= G * Z.of_N exec_fee_multiplier < Z.of_N c).
Proof.
  intros c G HG. unfold pico_to_datoshi, exec_fee_multiplier.
  rewrite N2Z.inj_div, N2Z.inj_sub, N2Z.inj_add by lia. simpl (Z.of_N 10000). simpl (Z.of_N 1).
  split; intros H; lia.
Qed.

(* the same with the limit in Datoshi (G * ExecFeeFactorMultiplier), as Blockchain.verifyHashAgainstScript sets it *)
Theorem multisig_threshold_on_vm : forall ecdsa base G keys sigs,
  0 <= base -> 0 <= G ->
  Forall (fun k => zlen k = 33) keys -> Forall (fun sg => zlen sg = 64) sigs ->
  1 <= zlen sigs <= zlen keys -> zlen keys <= 1024 -> zlen sigs + zlen keys + 2 <= MaxStackSize ->
  let m := zlen sigs in let n := zlen keys in
  let fee := Z.of_N (calc_fee (Z.to_N base) (Z.to_N m, Z.to_N n)) in       (* fee.Calculate, Datoshi *)
  let r := run_with ecdsa (Z.of_N ecdsa_verify_price) (vm_fuel_multisig (length sigs) (length keys))
             (witness_state (multisig_invocation sigs) (multisig_verification m keys) base (G * Z.of_N exec_fee_multiplier)) in
  (fee <= G -> exists s, r = Halted s /\ final_stack s = [IBool (match_sigs ecdsa (rev keys) (rev sigs))]
                        /\ Z.of_N (pico_to_datoshi (Z.to_N (s_gas s))) = fee)
  /\ (G = fee - 1 -> exists g, r = Faulted g).
Proof.
  intros ecdsa base G keys sigs Hb HG Fk Fs Hm Hn Hst m n fee r.
  destruct (fee_exact_multisig_on_vm ecdsa base (G * Z.of_N exec_fee_multiplier) keys sigs Hb Fk Fs Hm Hn Hst) as [A B].
  fold m n in A, B. fold r in A, B.
  assert (Ef : fee = Z.of_N (pico_to_datoshi (calc_multisig_pico (Z.to_N base) (Z.to_N m) (Z.to_N n)))).
  { unfold fee, calc_fee, calc_pico. cbn [fst snd].
    assert (X : (Z.to_N m =? 0)%N = false) by (apply N.eqb_neq; subst m; lia). rewrite X. reflexivity. }
  destruct (datoshi_limit (calc_multisig_pico (Z.to_N base) (Z.to_N m) (Z.to_N n)) G HG) as [D1 D2].
  rewrite <- Ef in D1, D2. split.
  - intros H. destruct (A (or_intror (D1 H))) as (s & E1 & E2 & E3). exists s. repeat split; auto.
    rewrite E3, N2Z.id. auto.
  - intros H. apply B. auto.
Qed.

Theorem sig_threshold_on_vm : forall ecdsa base G key sg,
  0 <= base -> 0 <= G -> zlen key = 33 -> zlen sg = 64 ->
  let fee := Z.of_N (calc_fee (Z.to_N base) (0%N, 0%N)) in
  let r := run_with ecdsa (Z.of_N ecdsa_verify_price) 5
             (witness_state (sig_invocation sg) (sig_verification key) base (G * Z.of_N exec_fee_multiplier)) in
  (fee <= G -> exists s, r = Halted s /\ final_stack s = [IBool (ecdsa key sg)] /\ Z.of_N (pico_to_datoshi (Z.to_N (s_gas s))) = fee)
  /\ (G = fee - 1 -> exists g, r = Faulted g).
Proof.
  intros ecdsa base G key sg Hb HG Hk Hs fee r.
  destruct (fee_exact_sig_on_vm ecdsa base (G * Z.of_N exec_fee_multiplier) key sg Hb Hk Hs) as [A B]. fold r in A, B.
  destruct (datoshi_limit (calc_sig_pico (Z.to_N base)) G HG) as [D1 D2].
  change (Z.of_N (pico_to_datoshi (calc_sig_pico (Z.to_N base)))) with fee in D1, D2. split.
  - intros H. destruct (A (or_intror (D1 H))) as (s & E1 & E2 & E3). exists s. repeat split; auto.
    rewrite E3, N2Z.id. auto.
  - intros H. apply B. auto.
Qed.
