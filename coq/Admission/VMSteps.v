(* Single steps of the NeoVM model (VM/Model.v) on the instructions the standard witness scripts consist of. *)
From NG Require Import VM.Model Admission.VMScripts.
From NG Require Import Codec.BigintProofs Admission.Fee Admission.FeeProofs.
Open Scope Z_scope.

(* ---------- an explicit family of machine states: one executing context without slots / try blocks ---------- *)
Definition St (prog : list Z) (sid : N) (shared : bool) (outer : list (script * (frame * list frame)))
           (base limit : Z) (ip : Z) (es : list item) (gas refs : Z) : state :=
  mkState (mkFrame ip None None [] (-1)) (mkScript prog sid None es shared) [] outer [] refs None gas limit base.

Definition gas_ok (limit g : Z) : bool := negb ((0 <=? limit) && (limit <? g)).

Lemma zlen_app : forall {A} (a b : list A), zlen (a ++ b) = zlen a + zlen b.
Proof. intros; unfold zlen. rewrite app_length. lia. Qed.
Lemma zlen_cons : forall {A} (x : A) l, zlen (x :: l) = 1 + zlen l.
Proof. intros; unfold zlen; simpl length. lia. Qed.
Lemma zlen_nonneg : forall {A} (l : list A), 0 <= zlen l.
Proof. intros; unfold zlen; lia. Qed.

Lemma take_app : forall a b, take (length a) (a ++ b) = Some (a, b).
Proof. induction a as [|x a IH]; intros b; simpl; auto. rewrite IH; auto. Qed.

Lemma skipn_zlen : forall (pre rest : list Z), skipn (Z.to_nat (zlen pre)) (pre ++ rest) = rest.
Proof. intros; unfold zlen. rewrite Nat2Z.id. apply skipn_app_exact || (rewrite skipn_app, skipn_all, Nat.sub_diag; reflexivity). Qed.

(* ---------- decoding at a known offset ---------- *)
Lemma decode_pushdata1 : forall pre data post,
  zlen data <= 255 ->
  decode (pre ++ emit_bytes data ++ post) (zlen pre) = DecOk PUSHDATA1 data (zlen pre + 2 + zlen data).
Proof.
  intros pre data post Hl. unfold decode.
  assert (H0 : (zlen pre <? 0) = false) by (apply Z.ltb_ge, zlen_nonneg). rewrite H0.
  rewrite skipn_zlen. unfold emit_bytes. cbn [app].
  change (opcode_of_byte (byte_of_opcode PUSHDATA1)) with (Some PUSHDATA1). cbn [operand_of take].
  change (from_le [zlen data]) with (zlen data + 256 * 0). rewrite Z.mul_0_r, Z.add_0_r.
  assert (H1 : (MaxItemSize <? zlen data) = false) by (apply Z.ltb_ge; unfold MaxItemSize; lia). rewrite H1.
  unfold zlen at 1. rewrite Nat2Z.id, take_app. f_equal. lia.
Qed.

(* ---------- single steps ---------- *)
Section Steps.
  Variable sys : syshandler.
  Variables (prog : list Z) (sid : N) (shared : bool) (outer : list (script * (frame * list frame))) (base limit : Z).
  Notation ST := (St prog sid shared outer base limit).

  Lemma step_pushdata1 : forall ip es gas refs data next,
    decode prog ip = DecOk PUSHDATA1 data next -> refs + 1 <= MaxStackSize ->
    step_with sys (ST ip es gas refs)
    = if gas_ok limit (gas + 8 * base) then Running (ST next (IBytes data :: es) (gas + 8 * base) (refs + 1))
      else Faulted (gas + 8 * base).
  Proof.
    intros ip es gas refs data next D R. unfold step_with, St. cbn [s_fr s_sc f_ip sc_prog s_gas s_base s_limit].
    rewrite D. unfold price. change (opcode_coeff PUSHDATA1) with 8. unfold gas_ok.
    destruct ((0 <=? limit) && (limit <? gas + 8 * base)); cbn [negb]; auto.
    cbn. assert (H : (MaxStackSize <? refs + 1) = false) by (apply Z.ltb_ge; lia). rewrite H. reflexivity.
  Qed.

  (* emit.Int of a count: one instruction pushing the integer, coefficient 1 *)
  Lemma step_emit_int : forall pre post k es gas refs,
    prog = pre ++ emit_int k ++ post -> 1 <= k <= 1024 -> refs + 1 <= MaxStackSize ->
    step_with sys (ST (zlen pre) es gas refs)
    = if gas_ok limit (gas + 1 * base)
      then Running (ST (zlen pre + zlen (emit_int k)) (IInt k :: es) (gas + 1 * base) (refs + 1))
      else Faulted (gas + 1 * base).
  Proof.
    intros pre post k es gas refs P K R.
    assert (H0 : (zlen pre <? 0) = false) by (apply Z.ltb_ge, zlen_nonneg).
    assert (HR : (MaxStackSize <? refs + 1) = false) by (apply Z.ltb_ge; lia).
    unfold step_with, St. cbn [s_fr s_sc f_ip sc_prog s_gas s_base s_limit]. rewrite P.
    unfold emit_int, gas_ok.
    destruct (k <? 16) eqn:E1.
    - apply Z.ltb_lt in E1.
      assert (C : k = 1 \/ k = 2 \/ k = 3 \/ k = 4 \/ k = 5 \/ k = 6 \/ k = 7 \/ k = 8 \/ k = 9 \/ k = 10 \/ k = 11
                  \/ k = 12 \/ k = 13 \/ k = 14 \/ k = 15 \/ k = 16) by lia.
      assert (Hc : forall c, c = 17 \/ c = 18 \/ c = 19 \/ c = 20 \/ c = 21 \/ c = 22 \/ c = 23 \/ c = 24 \/ c = 25 \/ c = 26 \/ c = 27
                  \/ c = 28 \/ c = 29 \/ c = 30 \/ c = 31 \/ c = 32 ->
        match
          match decode (pre ++ [c] ++ post) (zlen pre) with DecOk op p next => Some (op, p, next) | _ => None end
        with
        | Some (op, p, next) => opcode_of_byte c = Some op /\ p = [] /\ next = zlen pre + 1 /\ opcode_coeff op = 1
            /\ (forall e d, exec_data e op [] d = match push_int (c - 16) d with Some d' => DOk d' | None => DFault end)
            /\ (forall cip s, exec_op sys cip op [] s =
                  match exec_data (mkEnv cip (prog_len s) (sc_sid (s_sc s))) op [] (view s) with
                  | DOk d => XNext (unview s d) | DThrow e d => xopt (throw e (unview s d)) | DFault => XFault end)
        | None => False
        end).
      { intros c Hcs. unfold decode. rewrite H0, skipn_zlen.
        repeat (destruct Hcs as [->|Hcs]; [cbn; repeat split; auto; lia|]). subst c. cbn; repeat split; auto; lia. }
      specialize (Hc (byte_of_opcode PUSH0 + k)). change (byte_of_opcode PUSH0) with 16 in *.
      assert (Hk : 16 + k = 17 \/ 16 + k = 18 \/ 16 + k = 19 \/ 16 + k = 20 \/ 16 + k = 21 \/ 16 + k = 22 \/ 16 + k = 23 \/ 16 + k = 24
                   \/ 16 + k = 25 \/ 16 + k = 26 \/ 16 + k = 27 \/ 16 + k = 28 \/ 16 + k = 29 \/ 16 + k = 30 \/ 16 + k = 31 \/ 16 + k = 32) by lia.
      specialize (Hc Hk). clear Hk C.
      destruct (decode (pre ++ [16 + k] ++ post) (zlen pre)) as [| |op p next]; try contradiction.
      destruct Hc as (_ & -> & -> & Hco & Hex & Hop). unfold price. rewrite Hco.
      destruct ((0 <=? limit) && (limit <? gas + 1 * base)); cbn [negb]; auto.
      rewrite Hop, Hex. replace (16 + k - 16) with k by lia.
      assert (I256 : mk_int256 k = Some k).
      { unfold mk_int256, in_int256. assert (X : (- 2 ^ 255 <=? k) && (k <? 2 ^ 255) = true)
          by (apply andb_true_iff; split; [apply Z.leb_le|apply Z.ltb_lt]; lia). rewrite X; auto. }
      unfold push_int. rewrite I256. cbn -[Z.add Z.mul Z.ltb]. rewrite HR.
      first [reflexivity | (f_equal; unfold St; f_equal; f_equal; unfold zlen; simpl length; lia)].
    - apply Z.ltb_ge in E1. destruct (k <? 128) eqn:E2.
      + apply Z.ltb_lt in E2. unfold decode. rewrite H0, skipn_zlen. cbn [app].
        change (opcode_of_byte (byte_of_opcode PUSHINT8)) with (Some PUSHINT8). cbn [operand_of take].
        unfold price. change (opcode_coeff PUSHINT8) with 1.
        destruct ((0 <=? limit) && (limit <? gas + 1 * base)); cbn [negb]; auto.
        assert (FB : from_bytes [k] = k).
        { rewrite from_bytes_is_spec by (repeat constructor; lia). unfold from_bytes_spec, is_neg. cbn [last].
          assert (X : (128 <=? k) = false) by (apply Z.leb_gt; lia). rewrite X. cbn [from_le]. lia. }
        assert (I256 : mk_int256 k = Some k).
        { unfold mk_int256, in_int256. assert (X : (- 2 ^ 255 <=? k) && (k <? 2 ^ 255) = true)
            by (apply andb_true_iff; split; [apply Z.leb_le|apply Z.ltb_lt]; lia). rewrite X; auto. }
        unfold exec_op, exec_data, exec_data_opt. rewrite FB. unfold push_int. rewrite I256.
        cbn -[Z.add Z.mul Z.ltb]. unfold Model.post, unview, set_mem, push_noref, set_es, view, set_ip, set_fr, fr_set_ip, set_gas;
        cbn [s_fr s_sc s_frames s_outer s_heap s_refs s_exc s_gas s_limit s_base f_ip f_local f_args f_try f_ret sc_prog sc_sid sc_static sc_es sc_shared d_es d_local d_args d_static d_heap d_refs]. rewrite HR.
        first [reflexivity | (f_equal; unfold St; f_equal; f_equal; unfold zlen; simpl length; lia)].
      + apply Z.ltb_ge in E2. unfold decode. rewrite H0, skipn_zlen. cbn [app].
        change (opcode_of_byte (byte_of_opcode PUSHINT16)) with (Some PUSHINT16). cbn [operand_of take].
        unfold price. change (opcode_coeff PUSHINT16) with 1.
        destruct ((0 <=? limit) && (limit <? gas + 1 * base)); cbn [negb]; auto.
        assert (FB : from_bytes [k mod 256; k / 256] = k).
        { rewrite from_bytes_is_spec by (repeat constructor; lia). unfold from_bytes_spec, is_neg.
          assert (L : last [k mod 256; k / 256] 0 = k / 256) by reflexivity. rewrite L.
          assert (X : (128 <=? k / 256) = false) by (apply Z.leb_gt; lia). rewrite X. cbn [from_le]. lia. }
        assert (I256 : mk_int256 k = Some k).
        { unfold mk_int256, in_int256. assert (X : (- 2 ^ 255 <=? k) && (k <? 2 ^ 255) = true)
            by (apply andb_true_iff; split; [apply Z.leb_le|apply Z.ltb_lt]; lia). rewrite X; auto. }
        unfold exec_op, exec_data, exec_data_opt. rewrite FB. unfold push_int. rewrite I256.
        cbn -[Z.add Z.mul Z.ltb Z.modulo Z.div]. unfold Model.post, unview, set_mem, push_noref, set_es, view, set_ip, set_fr, fr_set_ip, set_gas;
        cbn [s_fr s_sc s_frames s_outer s_heap s_refs s_exc s_gas s_limit s_base f_ip f_local f_args f_try f_ret sc_prog sc_sid sc_static sc_es sc_shared d_es d_local d_args d_static d_heap d_refs]. rewrite HR.
        first [reflexivity | (f_equal; unfold St; f_equal; f_equal; unfold zlen; simpl length; lia)].
  Qed.
End Steps.

