(* The attribute rules of a transaction (Transaction.isValid at decoding + Blockchain.verifyTxAttributes), stated on
   the WHOLE attribute list. The rules speak about the multiset of attributes, never about positions: which
   attribute precedes which is irrelevant ([attrs_ok_permutation_invariant]). Duplicate Conflicts = the hashes named
   by the Conflicts attributes, taken out of the mixed list, are not duplicate-free. A duplicate search that walks
   the mixed list with one index and the filtered Conflicts list with the same index is refuted. *)
From NG Require Import Common.Tactics.
From Coq Require Import Sorting.Permutation.
Open Scope N_scope.

Inductive attr :=
| AHigh                 (* HighPriority *)
| ANvb (h : N)          (* NotValidBefore *)
| AConf (h : N)         (* Conflicts *)
| AOracle               (* OracleResponse *)
| ANotary               (* NotaryAssisted *)
| AReserved (t : N).    (* a type in 0xe0..0xff *)

(* what the rules look at besides the list *)
Record actx := mkActx {
  a_height : N;               (* current block height *)
  a_committee : bool;         (* signed by the committee address *)
  a_notary : bool;            (* NotaryAssisted is active, Notary is a signer (and, as sender, one of two signers) *)
  a_oracle : bool;            (* oracle signer, None scopes, response script, known request, enough gas *)
  a_reserved : bool;          (* ReservedAttributes enabled *)
  a_onchain : N -> bool;      (* a transaction with this hash is on chain *)
  a_signers : nat
}.

Definition conf_hashes (l : list attr) : list N := flat_map (fun a => match a with AConf h => [h] | _ => [] end) l.
Definition singles (l : list attr) : list N :=      (* the types allowed once, as numbers *)
  flat_map (fun a => match a with AHigh => [1] | ANvb _ => [32] | AOracle => [17] | ANotary => [34] | _ => [] end) l.

Definition attr_ok (c : actx) (a : attr) : bool :=
  match a with
  | AHigh => a_committee c
  | ANvb h => h <=? a_height c
  | AConf h => negb (a_onchain c h)
  | AOracle => a_oracle c
  | ANotary => a_notary c
  | AReserved _ => a_reserved c
  end.

Fixpoint nodupb (l : list N) : bool :=
  match l with [] => true | x :: r => negb (existsb (N.eqb x) r) && nodupb r end.

Definition max_attributes : nat := 16.

Definition attrs_ok (c : actx) (l : list attr) : bool :=
  (length l + a_signers c <=? max_attributes)%nat && nodupb (singles l) && forallb (attr_ok c) l && nodupb (conf_hashes l).

(* the same as a proposition over library notions *)
Definition attrs_okP (c : actx) (l : list attr) : Prop :=
  (length l + a_signers c <= max_attributes)%nat /\ NoDup (singles l) /\ Forall (fun a => attr_ok c a = true) l /\ NoDup (conf_hashes l).

Lemma nodupb_NoDup : forall l, nodupb l = true <-> NoDup l.
Proof.
  induction l as [|x r IH]; simpl; [split; [constructor|auto]|].
  rewrite andb_true_iff, negb_true_iff, IH. split.
  - intros [E N]. constructor; auto. intros H. assert (X : existsb (N.eqb x) r = true) by (apply existsb_exists; exists x; split; auto; apply N.eqb_refl). congruence.
  - intros H; inv H. split; auto. destruct (existsb (N.eqb x) r) eqn:E; auto.
    apply existsb_exists in E as (y & Hy & Ey). apply N.eqb_eq in Ey; subst. contradiction.
Qed.

Lemma attrs_ok_iff : forall c l, attrs_ok c l = true <-> attrs_okP c l.
Proof.
  intros c l. unfold attrs_ok, attrs_okP. rewrite !andb_true_iff, !nodupb_NoDup, Nat.leb_le, forallb_forall, Forall_forall. tauto.
Qed.

(* the rules do not depend on the order of the attributes *)
Theorem attrs_ok_permutation_invariant : forall c l l', Permutation l l' -> attrs_ok c l = attrs_ok c l'.
Proof.
  assert (G : forall c l l', Permutation l l' -> attrs_okP c l -> attrs_okP c l').
  { intros c l l' P (A & B & C & D). unfold attrs_okP. split; [rewrite <- (Permutation_length P); auto|].
    split; [eapply Permutation_NoDup; [apply Permutation_flat_map; exact P|auto]|].
    split; [eapply Permutation_Forall; eauto|].
    eapply Permutation_NoDup; [apply Permutation_flat_map; exact P|auto]. }
  intros c l l' P. apply Bool.eq_iff_eq_true. rewrite !attrs_ok_iff. split; apply G; auto. apply Permutation_sym; auto.
Qed.

(* ---------- the mixed-index duplicate search ---------- *)
(* attribute i of the MIXED list is compared with the entries from i+1 on of the FILTERED Conflicts list *)
Definition mixed_index_dup (l : list attr) : bool :=
  let cs := conf_hashes l in
  existsb (fun i => match nth_error l i with
                    | Some (AConf h) => existsb (N.eqb h) (skipn (S i) cs)
                    | _ => false
                    end) (seq 0 (length l)).
Definition attrs_ok_mixed_index (c : actx) (l : list attr) : bool :=
  (length l + a_signers c <=? max_attributes)%nat && nodupb (singles l) && forallb (attr_ok c) l && negb (mixed_index_dup l).

(* duplicates checked between ADJACENT attributes only *)
Fixpoint adjacent_dup (l : list attr) : bool :=
  match l with
  | AConf x :: ((AConf y :: _) as r) => (x =? y) || adjacent_dup r
  | _ :: r => adjacent_dup r
  | [] => false
  end.

Definition ax_ctx : actx := mkActx 10 false false false false (fun _ => false) 1.

Theorem mixed_index_loop_refuted :
  (* alone or first, the duplicate is found ... *)
  attrs_ok_mixed_index ax_ctx [AConf 7; AConf 7] = false
  /\ attrs_ok_mixed_index ax_ctx [AConf 7; AConf 8; AConf 7] = false
  /\ attrs_ok_mixed_index ax_ctx [AConf 7; AConf 7; ANvb 3] = false
  (* ... behind another attribute it is not *)
  /\ attrs_ok_mixed_index ax_ctx [ANvb 3; AConf 7; AConf 7] = true
  /\ attrs_ok_mixed_index ax_ctx [ANvb 3; AConf 8; AConf 7; AConf 7] = true
  /\ attrs_ok ax_ctx [ANvb 3; AConf 7; AConf 7] = false
  /\ attrs_ok ax_ctx [ANvb 3; AConf 8; AConf 7; AConf 7] = false
  (* and the adjacent-only search misses a separated pair *)
  /\ adjacent_dup [AConf 7; ANvb 3; AConf 7] = false /\ attrs_ok ax_ctx [AConf 7; ANvb 3; AConf 7] = false.
Proof. vm_compute. repeat split; reflexivity. Qed.

Example attrs_ok_examples :
  attrs_ok ax_ctx [ANvb 3; AConf 8; AConf 7] = true
  /\ attrs_ok ax_ctx [ANvb 11] = false                       (* not yet valid *)
  /\ attrs_ok ax_ctx [AConf 8; AHigh] = false                 (* not signed by the committee *)
  /\ attrs_ok ax_ctx [ANvb 3; AConf 8; ANvb 4] = false        (* two NotValidBefore *)
  /\ attrs_ok ax_ctx (map AConf (map N.of_nat (seq 0 15))) = true
  /\ attrs_ok ax_ctx (map AConf (map N.of_nat (seq 0 16))) = false.   (* 16 attributes + 1 signer *)
Proof. vm_compute. repeat split; reflexivity. Qed.
