(* Admission: soundness and completeness of the ordered checks, exact fee threshold for standard
   witnesses, the pool is untouched by a refusal, and what a packed prefix of the pool satisfies. *)
From NG Require Import Common.Tactics Admission.Fee Admission.FeeProofs Admission.Admit
  Mempool.Model Mempool.Spec Mempool.Lemmas Mempool.AddMain Mempool.Main.
From Coq Require Import Sorting.Sorted.
Open Scope N_scope.

Theorem precheck_sound_complete : forall c t, precheck c t = None <-> admissible c t.
Proof.
  intros c t; unfold precheck, admissible.
  destruct (c_max_block_sysfee c <? f_sysfee t) eqn:E1; [split; [discriminate|intros; lia]|].
  destruct (f_script_ok t) eqn:E2; cbn [negb]; [|split; [discriminate|intros (_ & ? & _); discriminate]].
  destruct (f_vub t <=? c_height c) eqn:E3; [split; [discriminate|intros; lia]|].
  destruct (c_height c + c_max_vub_inc c <? f_vub t) eqn:E4; [split; [discriminate|intros; lia]|].
  destruct (f_policy_ok t) eqn:E5; cbn [negb]; [|split; [discriminate|intros (_ & _ & _ & ? & _); discriminate]].
  destruct (max_transaction_size <? f_size t) eqn:E6; [split; [discriminate|intros; lia]|].
  cbv zeta.
  destruct (f_netfee t <? f_size t * c_fee_per_byte c + f_attr_fee t) eqn:E7; [split; [discriminate|intros; lia]|].
  destruct (f_on_chain t) eqn:E8; [split; [discriminate|intros (_ & _ & _ & _ & _ & ? & _); discriminate]|].
  destruct (f_conflict_on_chain t) eqn:E9; [split; [discriminate|intros (_ & _ & _ & _ & _ & _ & ? & _); discriminate]|].
  destruct (verify_loop _ _ _) eqn:E10; cbn [negb];
    [|split; [discriminate|intros (_ & _ & _ & _ & _ & _ & _ & _ & _ & ?); discriminate]].
  destruct (f_attrs_ok t) eqn:E11; cbn [negb]; [|split; [discriminate|intros (_ & _ & _ & _ & _ & _ & _ & ? & _); discriminate]].
  split; [intros _|reflexivity]. repeat split; auto; lia.
Qed.

(* in the pool => every listed condition held, and the pool accepted it *)
Theorem accept_sound : forall c t bal s x s',
  accept_tx c t bal s x = (inr tt, s') -> admissible c t /\ add fixed_cfg bal s x = (ROk, s').
Proof.
  intros c t bal s x s' H. unfold accept_tx in H.
  destruct (precheck c t) eqn:P; [inv H|]. apply precheck_sound_complete in P.
  destruct (add fixed_cfg bal s x) as [[| | |] s1] eqn:A; inv H. auto.
Qed.

(* a refusal leaves the pool as it was; an admission keeps the pool invariant *)
Theorem accept_pool : forall U, good_universe U -> forall c t bal s x,
  bal_ok bal -> Inv U bal s -> U x ->
  Inv U bal (snd (accept_tx c t bal s x))
  /\ (forall e, fst (accept_tx c t bal s x) = inl e -> pool_eqv bal s (snd (accept_tx c t bal s x))).
Proof.
  intros U GU c t bal s x BOK I Ux. unfold accept_tx.
  destruct (precheck c t); [simpl; split; auto using pool_eqv_refl|].
  pose proof (add_spec U bal GU BOK s x I Ux) as A.
  destruct (add fixed_cfg bal s x) as [r s1]; simpl in A.
  destruct A as (A1 & A2 & A3 & _ & _ & A6 & _).
  destruct r; simpl; split; auto; try discriminate; try congruence;
    try (intros e0 _; eapply A6; eauto); try (exfalso; eapply A2; eauto).
Qed.

(* standard witnesses: the fee calculator gives the exact threshold *)
Definition std_witnesses (base : N) (shapes : list shape) : list (N * bool) :=
  map (fun s => (witness_cost base s, true)) shapes.
Definition calculated_fee (base : N) (shapes : list shape) : N :=
  fold_right (fun s a => calc_fee base s + a) 0 shapes.

Lemma needed_gas_std : forall base shapes, needed_gas (std_witnesses base shapes) = calculated_fee base shapes.
Proof.
  intros base; induction shapes as [|s l IH]; simpl; auto.
  rewrite IH. unfold calc_fee. rewrite fee_exact. reflexivity.
Qed.

Theorem fee_threshold_exact : forall c t base shapes,
  shapes <> [] ->
  Forall (fun s => 0 < calc_pico base s /\ calc_fee base s <= c_max_verif_gas c) shapes ->
  f_witnesses t = std_witnesses base shapes ->
  (* every other condition holds *)
  f_sysfee t <= c_max_block_sysfee c -> f_script_ok t = true -> c_height c < f_vub t <= c_height c + c_max_vub_inc c ->
  f_policy_ok t = true -> f_size t <= max_transaction_size -> f_on_chain t = false -> f_conflict_on_chain t = false ->
  f_attrs_ok t = true ->
  (precheck c t = None <-> f_size t * c_fee_per_byte c + f_attr_fee t + calculated_fee base shapes <= f_netfee t).
Proof.
  intros c t base shapes Hne F W H1 H2 H3 H4 H5 H6 H7 H8.
  rewrite precheck_sound_complete. unfold admissible. rewrite W.
  assert (F' : Forall (fun w => snd w = true /\ pico_to_datoshi (fst w) <= c_max_verif_gas c) (std_witnesses base shapes)).
  { unfold std_witnesses. rewrite Forall_map. eapply Forall_impl; [|exact F]. intros s [_ Hs]; simpl.
    split; auto. rewrite fee_exact. exact Hs. }
  split.
  - intros (_ & _ & _ & _ & _ & _ & _ & _ & Hfee & Hv).
    apply verify_loop_threshold in Hv; auto. rewrite needed_gas_std in Hv. lia.
  - intros Hfee. repeat split; auto; try lia.
    apply verify_loop_threshold; auto. rewrite needed_gas_std. lia.
Qed.

(* ---------- packing ---------- *)
Lemma take_fitting_spec : forall max_size max_sysfee txs size sys,
  let b := take_fitting max_size max_sysfee size sys txs in
  (exists r, txs = b ++ r)
  /\ (b <> [] -> size + total_size b <= max_size)
  /\ sys + total_sysfee b <= max_sysfee \/ b = [].
Proof.
  intros max_size max_sysfee; induction txs as [|t r IH]; intros size sys; simpl.
  - right; auto.
  - destruct ((max_size <? size + Model.size t) || (max_sysfee <? sys + sysfee t)) eqn:E; [right; auto|].
    apply orb_false_iff in E as [E1 E2]. apply N.ltb_ge in E1, E2.
    left. destruct (IH (size + Model.size t) (sys + sysfee t)) as [((r' & Hr) & Hs & Hf)|Hnil].
    + split; [exists r'; simpl; congruence|]. simpl. split; [|lia].
      intros _. destruct (take_fitting max_size max_sysfee (size + Model.size t) (sys + sysfee t) r) eqn:B.
      * simpl; lia.
      * rewrite <- B in *. specialize (Hs ltac:(rewrite B; discriminate)). lia.
    + rewrite Hnil. split; [exists r; reflexivity|]. simpl. split; intros; lia.
Qed.

Lemma sorted_prefix : forall b r, sorted (b ++ r) -> sorted b.
Proof. intros b r H. apply sorted_app in H; tauto. Qed.

Lemma nodup_prefix : forall (b r : list tx), NoDup (map tid (b ++ r)) -> NoDup (map tid b).
Proof. intros b r H. rewrite map_app in H. apply NoDup_app_iff' in H; tauto. Qed.

(* transactions taken from the pool in pool order under the block limits *)
Theorem pack_valid : forall U bal s max_tx max_size max_sysfee hdr,
  Inv U bal s ->
  (forall a b, (a <= b)%nat -> hdr a <= hdr b) ->
  let b := apply_policy max_tx max_size max_sysfee hdr (vtxs s) in
  (exists r, vtxs s = b ++ r)                                         (* a prefix of the pool, in pool order *)
  /\ (max_tx <> O -> (length b <= max_tx)%nat)                         (* MaxTransactionsPerBlock *)
  /\ (b <> [] -> hdr (length b) + total_size b <= max_size)            (* MaxBlockSize *)
  /\ total_sysfee b <= max_sysfee.                                    (* MaxBlockSystemFee *)
Proof.
  intros U bal s max_tx max_size max_sysfee hdr I Hm. unfold apply_policy.
  set (txs1 := if negb (max_tx =? 0)%nat && (max_tx <? length (vtxs s))%nat then firstn max_tx (vtxs s) else vtxs s).
  assert (P1 : exists r1, vtxs s = txs1 ++ r1).
  { unfold txs1. destruct (negb (max_tx =? 0)%nat && (max_tx <? length (vtxs s))%nat).
    - exists (skipn max_tx (vtxs s)). symmetry; apply firstn_skipn.
    - exists []. rewrite app_nil_r; auto. }
  assert (L1 : max_tx <> O -> (length txs1 <= max_tx)%nat).
  { intros Hz. unfold txs1. destruct (max_tx =? 0)%nat eqn:E0; [apply Nat.eqb_eq in E0; contradiction|]. cbn [negb andb].
    destruct (max_tx <? length (vtxs s))%nat eqn:E1.
    - rewrite firstn_length. lia.
    - apply Nat.ltb_ge in E1. auto. }
  destruct (take_fitting_spec max_size max_sysfee txs1 (hdr (length txs1)) 0) as [((r & Hr) & Hs & Hf)|Hnil].
  - destruct P1 as (r1 & Hr1).
    set (b := take_fitting max_size max_sysfee (hdr (length txs1)) 0 txs1) in *.
    assert (Lb : (length b <= length txs1)%nat) by (rewrite Hr, app_length; lia).
    split; [exists (r ++ r1); rewrite app_assoc, <- Hr; auto|].
    split; [intros Hz; specialize (L1 Hz); lia|].
    split; [|lia]. intros Hb. specialize (Hs Hb). specialize (Hm _ _ Lb). lia.
  - rewrite Hnil. split; [exists (vtxs s); reflexivity|]. split; [simpl; lia|]. split; [congruence|simpl; lia].
Qed.

(* and, because it is a prefix of a pool satisfying the C08 invariant, it is free of duplicates and
   conflicts, ordered, and every payer can pay for all of it *)
Theorem pack_inherits_pool_invariant : forall U bal s b r,
  Inv U bal s -> vtxs s = b ++ r ->
  NoDup (map tid b) /\ sorted b
  /\ (forall x y, In x b -> In y b -> ~ In (tid x) (confl y))
  /\ (forall p, sum_fees p b <= bal p)
  /\ (forall x y id, In x b -> In y b -> oracle x = Some id -> oracle y = Some id -> x = y).
Proof.
  intros U bal s b r I Hv.
  destruct (inv_meaning U bal s I) as (N1 & _ & _ & N4 & N5 & N6 & N7).
  rewrite Hv in *.
  split; [eapply nodup_prefix; eauto|]. split; [eapply sorted_prefix; eauto|].
  split; [intros x y Hx Hy; apply N6; apply in_app_iff; auto|].
  split; [intros p; specialize (N5 p); rewrite sum_fees_app in N5; lia|].
  intros x y id Hx Hy; apply N7; apply in_app_iff; auto.
Qed.
