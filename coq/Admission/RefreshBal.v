(* The refresh of the pool after a block, with the balances the block LEFT.
   A block moves GAS: a pooled transaction that was affordable together with its payer's other pooled transactions
   may not be after one of them (or somebody else's transaction co-signed by the payer) has transferred most of the
   payer's GAS away. Blockchain.storeBlock therefore refreshes the pool after the block has been applied
   (Pool.RemoveStale with the chain as Feer): it goes through the pool in priority order and re-books every kept
   transaction against the FRESH balance, evicting what no longer fits. Then whatever prefix is packed next is
   payable - on this node and on every node that verifies the block from scratch.
   Here: the statement for one refresh and for whole histories (submissions and blocks in any order), and three
   refresh variants that do not have the property: re-summing without the check, checking only the first
   transaction of every payer, and checking against the balances from before the block. *)
From NG Require Import Common.Tactics Mempool.Model Mempool.Spec Mempool.Lemmas Mempool.StaleProofs Mempool.Main
  Admission.Admit Admission.AdmitProofs Admission.PackSize.
Open Scope N_scope.

(* what GetVerifiedTransactions shows, as a model state good enough for RemoveStale (which reads the list, the
   hash map and the oracle index and rebuilds the fee table and the Conflicts index from scratch) *)
Definition pool_of_list (l : list tx) (capacity : nat) (fpb : N) : pool :=
  mkPool l (map (fun t => (tid t, t)) l) [] [] [] capacity fpb.

(* one refresh: the invariant holds for the NEW balances, nothing is kept that the filter refused or that was not
   there, and every payer can pay for everything kept *)
Theorem refresh_restores_solvency : forall U, good_universe U -> forall bal bal' newfpb isok s,
  bal_ok bal' -> Inv U bal s ->
  let s' := remove_stale bal' newfpb isok s in
  Inv U bal' s'
  /\ (forall p, sum_fees p (vtxs s') <= bal' p)
  /\ (forall x, In x (vtxs s') -> In x (vtxs s) /\ isok x = true).
Proof.
  intros U GU bal bal' newfpb isok s B I s'.
  assert (I' : Inv U bal' s') by (eapply remove_stale_inv; eauto).
  split; auto. split.
  - destruct (inv_meaning U bal' s' I') as (_ & _ & _ & _ & S & _). exact S.
  - intros x. apply remove_stale_sub.
Qed.

(* ... so the block packed next is payable under the balances the previous block left *)
Theorem pack_after_refresh_payable : forall U, good_universe U -> forall bal bal' newfpb isok s max_tx max_size max_sysfee hdr0,
  bal_ok bal' -> Inv U bal s ->
  let s' := remove_stale bal' newfpb isok s in
  let b := apply_policy_real max_tx max_size max_sysfee hdr0 (vtxs s') in
  (forall p, sum_fees p b <= bal' p)
  /\ NoDup (map tid b)
  /\ (forall x y, In x b -> In y b -> ~ In (tid x) (confl y))
  /\ (forall x, In x b -> In x (vtxs s) /\ isok x = true).
Proof.
  intros U GU bal bal' newfpb isok s max_tx max_size max_sysfee hdr0 B I s' b.
  destruct (refresh_restores_solvency U GU bal bal' newfpb isok s B I) as (I' & _ & Sub). fold s' in I', Sub.
  destruct (pack_valid_real U bal' s' max_tx max_size max_sysfee hdr0 I') as ((r & E) & _). fold b in E.
  destruct (pack_inherits_pool_invariant U bal' s' b r I' E) as (N1 & _ & N3 & N4 & _).
  repeat split; auto; apply Sub; rewrite E; apply in_app_iff; auto.
Qed.

(* whole histories: submissions (Add), removals, and blocks (RemoveStale with any filter and any new balances) in
   any order - the block packed from the pool at any moment is payable under the balances of that moment *)
Theorem pack_history_payable : forall U, good_universe U -> forall capacity bal0 ops max_tx max_size max_sysfee hdr0,
  bal_ok bal0 -> Forall (op_ok U) ops ->
  let st := run fixed_cfg (mkState (new_pool capacity) bal0) ops in
  let b := apply_policy_real max_tx max_size max_sysfee hdr0 (vtxs (st_pool st)) in
  (forall p, sum_fees p b <= st_bal st p)
  /\ NoDup (map tid b)
  /\ (forall x y, In x b -> In y b -> ~ In (tid x) (confl y)).
Proof.
  intros U GU capacity bal0 ops max_tx max_size max_sysfee hdr0 B F st b.
  pose proof (inv_reachable U GU capacity bal0 ops B F) as I. fold st in I.
  destruct (pack_valid_real U (st_bal st) (st_pool st) max_tx max_size max_sysfee hdr0 I) as ((r & E) & _). fold b in E.
  destruct (pack_inherits_pool_invariant U (st_bal st) (st_pool st) b r I E) as (N1 & _ & N3 & N4 & _).
  repeat split; auto.
Qed.

(* ---------- refresh variants without the property ---------- *)
(* (a) re-summing the fees without the balance check (tryAddSendersFee(..., needCheck = false)) *)
Definition stale_step_resum (bal : payer -> N) (isok : tx -> bool)
           (acc : list tx * list (payer * (N * N))) (t : tx) : list tx * list (payer * (N * N)) :=
  if isok t then (fst acc ++ [t], snd (try_add_senders_fee bal (snd acc) t false)) else acc.
Definition refresh_resum (bal : payer -> N) (isok : tx -> bool) (l : list tx) : list tx :=
  fst (fold_left (stale_step_resum bal isok) l ([], [])).

(* (b) the check only when the payer is met for the first time *)
Definition stale_step_first (bal : payer -> N) (isok : tx -> bool)
           (acc : list tx * list (payer * (N * N))) (t : tx) : list tx * list (payer * (N * N)) :=
  if isok t then
    let first := match mget payer_eqb (payer_of t) (snd acc) with None => true | Some _ => false end in
    let pass := try_add_senders_fee bal (snd acc) t first in
    if fst pass then (fst acc ++ [t], snd pass) else (fst acc, snd pass)
  else acc.
Definition refresh_first_only (bal : payer -> N) (isok : tx -> bool) (l : list tx) : list tx :=
  fst (fold_left (stale_step_first bal isok) l ([], [])).

(* payer 2 holds 400 and has four pooled transactions of 60 + 40 fees each... *)
Definition rb_tx (i : N) : tx := mkTx i [2] 60 40 100 false [] None.
Definition rb_drain : tx := mkTx 0 [2] 10 90 50 false [] None.     (* the most prioritised: moves 250 away *)
Definition rb_pool : list tx := [rb_drain; rb_tx 1; rb_tx 2; rb_tx 3].
Definition rb_bal (p : payer) : N := if payer_eqb p (2, 0) then 400 else 0.
Definition rb_bal' (p : payer) : N := if payer_eqb p (2, 0) then 150 else 0.   (* 400 - 100 (fees of the drain) - 150 moved away *)
Definition rb_isok (t : tx) : bool := negb (tid t =? 0).                       (* the block took the drain *)
Definition rb_state : pool := pool_of_list rb_pool 10 0.

(* ... the real refresh keeps one of the remaining three (100 <= 150 < 200); the variants keep three, three and three:
   200-300 of fees against 150 GAS - the next block packed from the pool is refused with "insufficient funds" *)
Theorem refresh_variants_refuted :
  sum_fees (2, 0) rb_pool = 400 /\ rb_bal (2, 0) = 400
  /\ map tid (vtxs (remove_stale rb_bal' 0 rb_isok rb_state)) = [1]
  /\ map tid (refresh_resum rb_bal' rb_isok rb_pool) = [1; 2; 3]
  /\ rb_bal' (2, 0) < sum_fees (2, 0) (refresh_resum rb_bal' rb_isok rb_pool)
  /\ map tid (refresh_first_only rb_bal' rb_isok rb_pool) = [1; 2; 3]
  /\ rb_bal' (2, 0) < sum_fees (2, 0) (refresh_first_only rb_bal' rb_isok rb_pool)
  /\ map tid (vtxs (remove_stale rb_bal 0 rb_isok rb_state)) = [1; 2; 3]          (* the balances from before the block *)
  /\ rb_bal' (2, 0) < sum_fees (2, 0) (vtxs (remove_stale rb_bal 0 rb_isok rb_state)).
Proof. vm_compute. repeat split; reflexivity. Qed.

(* the variants agree with the real refresh as long as balances do not drop (why sequences without value-moving
   blocks never tell them apart) *)
Lemma refresh_variants_agree_without_drop :
  map tid (vtxs (remove_stale rb_bal 0 rb_isok rb_state)) = map tid (refresh_resum rb_bal rb_isok rb_pool)
  /\ map tid (vtxs (remove_stale rb_bal 0 rb_isok rb_state)) = map tid (refresh_first_only rb_bal rb_isok rb_pool).
Proof. vm_compute. split; reflexivity. Qed.
