(* Refresh of the pool after a block (Blockchain.IsTxStillRelevant as the filter of Pool.RemoveStale) and the
   witnesses of pooled transactions. A witness is seen through an oracle indexed by the chain state: does it
   verify (within the gas the transaction pays for) in that state. Three kinds, as the code distinguishes them
   (scparser.IsStandardContract on the verification script):
     WStandard  plain signature or m-of-n contract;
     WScript    any other verification script carried in the witness;
     WContract  empty verification script: the `verify` method of a deployed contract.
   A standard witness is state-independent: its scripts push the signatures and the public keys and call
   CheckSig / CheckMultisig, whose result is a function of the transaction's hash (the signed data), the keys in
   the verification script and the signatures in the invocation script only, and whose price is fixed; no
   instruction reads the chain. Every other script may call Ledger, a token or any contract with ReadStates. *)
From NG Require Import Common.Tactics.
Open Scope N_scope.

Section Refresh.
  Variable state : Type.                 (* chain state after some block *)
  Variable st_height : state -> N.

  Inductive wkind := WStandard | WScript | WContract.
  Record witness := mkWit { w_kind : wkind; w_ok : state -> bool }.
  Record ptx := mkPtx {
    p_vub : N;
    p_wits : list witness;
    p_other_ok : state -> bool    (* not on chain, not named as a conflict, attribute rules: re-evaluated on every refresh *)
  }.

  Definition standard (w : witness) : bool := match w_kind w with WStandard => true | _ => false end.
  Definition wits_ok (s : state) (t : ptx) : bool := forallb (fun w => w_ok w s) (p_wits t).

  (* admission in state s (the part that matters here) *)
  Definition admissible_in (s : state) (t : ptx) : bool :=
    (st_height s <? p_vub t) && p_other_ok t s && wits_ok s t.

  (* IsTxStillRelevant: witnesses are re-verified (all of them) iff some verification script is not standard.
     [recheck_script] = false is the code that re-verifies deployed-contract witnesses only. *)
  Definition needs_recheck (recheck_script : bool) (t : ptx) : bool :=
    existsb (fun w => match w_kind w with
                      | WStandard => false
                      | WScript => recheck_script
                      | WContract => true
                      end) (p_wits t).
  Definition still_relevant (recheck_script : bool) (s : state) (t : ptx) : bool :=
    (st_height s <? p_vub t) && p_other_ok t s
    && (if needs_recheck recheck_script t then wits_ok s t else true).

  Inductive pop := PSubmit (t : ptx) | PBlock (s' : state).
  (* (current state, pool) *)
  Definition pstep (rs : bool) (c : state * list ptx) (o : pop) : state * list ptx :=
    match o with
    | PSubmit t => if admissible_in (fst c) t then (fst c, snd c ++ [t]) else c
    | PBlock s' => (s', filter (still_relevant rs s') (snd c))
    end.
  Definition prun (rs : bool) (s0 : state) (ops : list pop) : state * list ptx :=
    fold_left (pstep rs) ops (s0, []).

  (* standard witnesses do not depend on the chain state *)
  Definition std_state_independent (t : ptx) : Prop :=
    forall w, In w (p_wits t) -> standard w = true -> forall s s', w_ok w s = w_ok w s'.
  Definition op_wf (o : pop) : Prop := match o with PSubmit t => std_state_independent t | PBlock _ => True end.

  Lemma needs_recheck_false : forall t, needs_recheck true t = false -> forall w, In w (p_wits t) -> standard w = true.
  Proof.
    intros t H w Hw. unfold needs_recheck in H.
    destruct (standard w) eqn:E; auto. exfalso.
    assert (X : existsb (fun w => match w_kind w with WStandard => false | WScript => true | WContract => true end) (p_wits t) = true).
    { apply existsb_exists. exists w; split; auto. unfold standard in E. destruct (w_kind w); auto; discriminate. }
    congruence.
  Qed.

  Definition pool_valid (c : state * list ptx) : Prop :=
    forall t, In t (snd c) -> std_state_independent t /\ wits_ok (fst c) t = true /\ (st_height (fst c) <? p_vub t) = true.

  Lemma pstep_valid : forall c o, op_wf o -> pool_valid c -> pool_valid (pstep true c o).
  Proof.
    intros [s l] o Wf V. destruct o as [t|s']; simpl in *.
    - unfold admissible_in; simpl. destruct ((st_height s <? p_vub t) && p_other_ok t s && wits_ok s t) eqn:E; auto.
      rewrite !andb_true_iff in E. destruct E as [[E1 E2] E3].
      intros x Hx; simpl in Hx. apply in_app_iff in Hx as [Hx|[<-|[]]]; auto.
    - intros t Ht; simpl in *. apply filter_In in Ht as [Ht R].
      destruct (V t Ht) as (SI & W & _). unfold still_relevant in R. rewrite !andb_true_iff in R. destruct R as [[R1 R2] R3].
      split; auto. split; auto.
      destruct (needs_recheck true t) eqn:N; auto.
      (* only standard witnesses: what held in the old state holds in the new one *)
      unfold wits_ok in *. rewrite forallb_forall in *. intros w Hw.
      rewrite (SI w Hw (needs_recheck_false t N w Hw) s' s). auto.
  Qed.

  Theorem pool_witnesses_valid_after_refresh : forall s0 ops,
    Forall op_wf ops ->
    let c := prun true s0 ops in
    forall t, In t (snd c) -> forall w, In w (p_wits t) -> w_ok w (fst c) = true.
  Proof.
    intros s0 ops F.
    assert (G : forall ops c, Forall op_wf ops -> pool_valid c -> pool_valid (fold_left (pstep true) ops c)).
    { induction ops0 as [|o l IH]; intros c Fl V; simpl; auto. inv Fl. apply IH; auto. apply pstep_valid; auto. }
    intros c t Ht w Hw.
    assert (V : pool_valid c) by (apply G; auto; intros x []).
    destruct (V t Ht) as (_ & W & _). unfold wits_ok in W. rewrite forallb_forall in W. auto.
  Qed.
End Refresh.

(* the code that re-verifies deployed-contract witnesses only does not have the property: a witness script
   "current index < 5", pooled at height 3, is still pooled at height 6 *)
Definition ex_script_wit : witness N := mkWit N WScript (fun h => h <? 5).
Definition ex_sig_wit : witness N := mkWit N WStandard (fun _ => true).
Definition ex_ptx : ptx N := mkPtx N 100 [ex_sig_wit; ex_script_wit] (fun _ => true).

Lemma refresh_scripts_not_rechecked_refuted :
  let c := prun N (fun h => h) false 3 [PSubmit N ex_ptx; PBlock N 4; PBlock N 6] in
  snd c = [ex_ptx] /\ w_ok N ex_script_wit (fst c) = false.
Proof. vm_compute. split; reflexivity. Qed.

Lemma refresh_example :
  Forall (op_wf N) [PSubmit N ex_ptx; PBlock N 4; PBlock N 6]
  /\ snd (prun N (fun h => h) true 3 [PSubmit N ex_ptx; PBlock N 4]) = [ex_ptx]
  /\ snd (prun N (fun h => h) true 3 [PSubmit N ex_ptx; PBlock N 4; PBlock N 6]) = [].
Proof.
  split; [|vm_compute; split; reflexivity].
  repeat constructor. intros w [<-|[<-|[]]] Hs s s'; [reflexivity|discriminate].
Qed.
