(* fee.Calculate at an ARBITRARY execution fee factor. Since the factor is kept in picoGAS (Faun), the committee can set
   one that is not a whole number of Datoshi (not a multiple of ExecFeeFactorMultiplier = 10000 picoGAS, e.g. 300001).
   The VM sums the picoGAS it charges and the consumption is rounded up to Datoshi ONCE per witness
   (verifyHashAgainstScript); the calculator has to do the same: sum the price components in picoGAS and round once.
   [base] is universally quantified in the exactness theorems of FeeProofs.v / VMFeeProofs.v, so they cover every
   factor; here the consequences are put together for one witness, and a calculator that rounds every component on
   its own is refuted. *)
From NG Require Import Common.Tactics Admission.Fee Admission.FeeProofs.
Open Scope N_scope.

(* what the witness costs on the VM is what the calculator says, in picoGAS, for every factor *)
Lemma witness_cost_is_calc : forall base s, s = (0, 0) \/ fst s <> 0 -> witness_cost base s = calc_pico base s.
Proof.
  intros base [m n] [E|H]; simpl in *.
  - inv E. unfold calc_pico; simpl. apply fee_exact_sig.
  - unfold calc_pico; simpl. apply N.eqb_neq in H as H'. rewrite H'. apply fee_exact_multisig; auto.
Qed.

(* one standard witness at any factor: a budget of calc_fee Datoshi passes, one Datoshi less does not; and the VM's
   consumption rounded up to Datoshi is calc_fee. The rounding happens once, on the sum. *)
Theorem fee_threshold_any_factor : forall base maxgas s,
  s = (0, 0) \/ fst s <> 0 -> 0 < calc_pico base s -> calc_fee base s <= maxgas ->
  pico_to_datoshi (witness_cost base s) = calc_fee base s
  /\ verify_loop maxgas (calc_fee base s) [(witness_cost base s, true)] = true
  /\ verify_loop maxgas (calc_fee base s - 1) [(witness_cost base s, true)] = false.
Proof.
  intros base maxgas s Hs Hp Hm. rewrite (witness_cost_is_calc base s Hs). split; [reflexivity|].
  pose proof (threshold_exact maxgas [(calc_pico base s, true)]) as T.
  unfold needed_gas in T; simpl in T. rewrite N.add_0_r in T. apply T; [discriminate|].
  constructor; [|constructor]. simpl. auto.
Qed.

(* ---------- rounding every component on its own ---------- *)
Definition calc_fee_componentwise (base : N) (s : shape) : N :=
  if fst s =? 0 then
    pico_to_datoshi (opcode_price base [op_PUSHDATA1; op_PUSHDATA1]) + pico_to_datoshi (base * ecdsa_verify_price)
  else
    pico_to_datoshi (calc_multisig_part base (fst s)) + pico_to_datoshi (calc_multisig_part base (snd s))
    + pico_to_datoshi (base * ecdsa_verify_price * snd s).

Lemma ceil_add_le : forall a b, pico_to_datoshi (a + b) <= pico_to_datoshi a + pico_to_datoshi b.
Proof. intros a b. unfold pico_to_datoshi. change exec_fee_multiplier with 10000. lia. Qed.

Lemma ceil_mult : forall k, pico_to_datoshi (k * 10000) = k.
Proof. intros k. unfold pico_to_datoshi. change exec_fee_multiplier with 10000. lia. Qed.

(* it never underestimates ... *)
Theorem componentwise_overestimates : forall base s, calc_fee base s <= calc_fee_componentwise base s.
Proof.
  intros base [m n]. unfold calc_fee, calc_fee_componentwise, calc_pico, calc_sig_pico, calc_multisig_pico; simpl.
  destruct (m =? 0).
  - apply ceil_add_le.
  - etransitivity; [apply ceil_add_le|]. pose proof (ceil_add_le (calc_multisig_part base m) (calc_multisig_part base n)). lia.
Qed.

(* ... agrees with the single rounding when the factor is a whole number of Datoshi (all chains before a committee
   sets a fractional one: 30 Datoshi = 300000) ... *)
Theorem componentwise_exact_on_whole_factors : forall d s, calc_fee_componentwise (d * 10000) s = calc_fee (d * 10000) s.
Proof.
  intros d [m n]. unfold calc_fee, calc_fee_componentwise, calc_pico, calc_sig_pico, calc_multisig_pico, calc_multisig_part; simpl.
  rewrite !opcode_price_sum.
  assert (R : forall x, x * (d * 10000) = (x * d) * 10000) by (intros; lia).
  assert (R2 : forall x, d * 10000 * x = (d * x) * 10000) by (intros; lia).
  destruct (m =? 0).
  - rewrite R, R2, <- N.mul_add_distr_r, !ceil_mult. reflexivity.
  - rewrite !R, !R2.
    replace (sum_coeff [op_PUSHDATA1] * d * 10000 * m) with (sum_coeff [op_PUSHDATA1] * d * m * 10000) by lia.
    replace (sum_coeff [op_PUSHDATA1] * d * 10000 * n) with (sum_coeff [op_PUSHDATA1] * d * n * 10000) by lia.
    replace (d * ecdsa_verify_price * 10000 * n) with (d * ecdsa_verify_price * n * 10000) by lia.
    rewrite <- !N.mul_add_distr_r, !ceil_mult. reflexivity.
Qed.

(* ... and is 1-2 Datoshi too high at the factor 300001: a transaction paying one Datoshi less than such a calculator
   asks for still passes the VM's gas limit (its threshold is calc_fee), so "calculated fee - 1" is ADMITTED *)
Theorem componentwise_rounding_refuted :
  calc_fee 300001 (0, 0) = 983524 /\ calc_fee_componentwise 300001 (0, 0) = 983525
  /\ calc_fee 300001 (1, 1) = 983584 /\ calc_fee_componentwise 300001 (1, 1) = 983586
  /\ calc_fee 300001 (2, 3) = 2950390 /\ calc_fee_componentwise 300001 (2, 3) = 2950392
  /\ calc_fee 300001 (3, 4) = 3933914 /\ calc_fee_componentwise 300001 (3, 4) = 3933916
  /\ verify_loop 150000000 (calc_fee_componentwise 300001 (0, 0) - 1) [(witness_cost 300001 (0, 0), true)] = true
  /\ verify_loop 150000000 (calc_fee_componentwise 300001 (2, 3) - 1) [(witness_cost 300001 (2, 3), true)] = true
  /\ verify_loop 150000000 (calc_fee 300001 (2, 3) - 1) [(witness_cost 300001 (2, 3), true)] = false.
Proof. vm_compute. repeat split; reflexivity. Qed.
