(* The on-chain conflict records of the DAO (dao.StoreAsTransaction / dao.HasTransaction): for every hash H
   named in a Conflicts attribute of an on-chain transaction a stub H -> block index and, per signer of that
   transaction, a record (H, signer) -> block index; later transactions overwrite (newest index wins).
   HasTransaction(H, signers, cur, mtb) answers "has conflicts" when the stub is traceable and some signer's
   record is traceable. Model and proof that this equals the declarative meaning: some on-chain transaction
   within the traceable window names H and shares a signer. (Full transactions / blocks stored under H
   are the separate fact [f_on_chain].) *)
From NG Require Import Common.Tactics Mempool.Model Mempool.Lemmas.
Open Scope N_scope.

Record crecords := mkRecords { stubs : list (N * N); recs : list ((N * N) * N) }.
Definition no_records := mkRecords [] [].

(* an on-chain transaction: block index, signers, hashes named in its Conflicts attributes *)
Record cevent := mkEvent { e_idx : N; e_signers : list N; e_names : list N }.

Definition store_one (idx : N) (signers : list N) (r : crecords) (h : N) : crecords :=
  mkRecords (mset N.eqb h idx (stubs r))
            (fold_left (fun m s => mset payer_eqb (h, s) idx m) signers (recs r)).
Definition store_event (r : crecords) (e : cevent) : crecords :=
  fold_left (store_one (e_idx e) (e_signers e)) (e_names e) r.
Definition build (es : list cevent) : crecords := fold_left store_event es no_records.

(* isTraceableBlock *)
Definition traceable (idx cur mtb : N) : bool := (idx <=? cur) && (cur <? idx + mtb).

Definition rec_hit (r : crecords) (h cur mtb s : N) : bool :=
  match mget payer_eqb (h, s) (recs r) with Some j => traceable j cur mtb | None => false end.

(* dao.HasTransaction = ErrHasConflicts (non-empty signers) *)
Definition has_conflict (r : crecords) (h : N) (signers : list N) (cur mtb : N) : bool :=
  match mget N.eqb h (stubs r) with
  | None => false
  | Some i => if traceable i cur mtb then existsb (rec_hit r h cur mtb) signers else false
  end.

(* the meaning *)
Definition memN (x : N) (l : list N) : bool := existsb (N.eqb x) l.
Definition names_and_shares (h : N) (signers : list N) (cur mtb : N) (e : cevent) : bool :=
  memN h (e_names e) && traceable (e_idx e) cur mtb && existsb (fun s => memN s (e_signers e)) signers.
Definition conflict_spec (es : list cevent) (h : N) (signers : list N) (cur mtb : N) : bool :=
  existsb (names_and_shares h signers cur mtb) es.

(* ---------- proofs ---------- *)
Lemma memN_in : forall x l, memN x l = true <-> In x l.
Proof.
  intros; unfold memN. rewrite existsb_exists. split.
  - intros (y & Hy & E). apply N.eqb_eq in E; subst; auto.
  - intros H; exists x; split; auto. apply N.eqb_refl.
Qed.

Lemma fold_recs_get : forall (h idx : N) signers (m : list ((N * N) * N)) k s,
  mget payer_eqb (k, s) (fold_left (fun m s => mset payer_eqb (h, s) idx m) signers m)
  = if (k =? h) && memN s signers then Some idx else mget payer_eqb (k, s) m.
Proof.
  intros h idx; induction signers as [|a l IH]; intros m k s; simpl.
  - rewrite andb_false_r; auto.
  - rewrite IH. destruct (k =? h) eqn:E1; simpl; auto.
    apply N.eqb_eq in E1; subst k.
    destruct (memN s l); [rewrite orb_true_r; auto|]. rewrite orb_false_r.
    destruct (s =? a) eqn:E2.
    + apply N.eqb_eq in E2; subst. apply pget_set_eq.
    + apply pget_set_neq. intros E; inv E. rewrite N.eqb_refl in E2; discriminate.
    + apply pget_set_neq. intros E; inv E. rewrite N.eqb_refl in E1; discriminate.
Qed.

Lemma store_one_get : forall idx signers r h,
  (forall k, mget N.eqb k (stubs (store_one idx signers r h)) = if k =? h then Some idx else mget N.eqb k (stubs r))
  /\ (forall k s, mget payer_eqb (k, s) (recs (store_one idx signers r h))
                = if (k =? h) && memN s signers then Some idx else mget payer_eqb (k, s) (recs r)).
Proof.
  intros; unfold store_one; cbn [stubs recs]. split.
  - intros k. destruct (k =? h) eqn:E; [apply N.eqb_eq in E; subst; apply nget_set_eq|].
    apply nget_set_neq. intros ->; rewrite N.eqb_refl in E; discriminate.
  - intros; apply fold_recs_get.
Qed.

Lemma store_event_get : forall e r,
  (forall k, mget N.eqb k (stubs (store_event r e)) = if memN k (e_names e) then Some (e_idx e) else mget N.eqb k (stubs r))
  /\ (forall k s, mget payer_eqb (k, s) (recs (store_event r e))
                = if memN k (e_names e) && memN s (e_signers e) then Some (e_idx e) else mget payer_eqb (k, s) (recs r)).
Proof.
  intros e; unfold store_event. generalize (e_idx e) (e_signers e). intros idx sg.
  induction (e_names e) as [|h hs IH]; intros r; simpl; [split; auto|].
  destruct (IH (store_one idx sg r h)) as [A B]. destruct (store_one_get idx sg r h) as [C D]. split.
  - intros k. rewrite A, C. destruct (memN k hs), (k =? h); auto.
  - intros k s. rewrite B, D. destruct (memN k hs), (k =? h), (memN s sg); auto.
Qed.

Lemma build_snoc : forall es e, build (es ++ [e]) = store_event (build es) e.
Proof. intros; unfold build. rewrite fold_left_app. reflexivity. Qed.

Lemma traceable_mono : forall i j cur mtb, i <= j -> j <= cur -> traceable i cur mtb = true -> traceable j cur mtb = true.
Proof. intros i j cur mtb H1 H2; unfold traceable. rewrite !andb_true_iff, !N.leb_le, !N.ltb_lt. lia. Qed.

(* no event is above the current height *)
Definition below (es : list cevent) (cur : N) : Prop := forall e, In e es -> e_idx e <= cur.

Section Exact.
  Variables (cur mtb : N).

  (* every record carries the index of an event naming that hash, signed by that signer; the stub is not older *)
  Definition table_inv (es : list cevent) (r : crecords) : Prop :=
    (forall h i, mget N.eqb h (stubs r) = Some i -> i <= cur /\ exists e, In e es /\ e_idx e = i)
    /\ (forall h s j, mget payer_eqb (h, s) (recs r) = Some j ->
                      exists i, mget N.eqb h (stubs r) = Some i /\ j <= i)
    /\ (forall h s, rec_hit r h cur mtb s = existsb (fun e => memN h (e_names e) && memN s (e_signers e) && traceable (e_idx e) cur mtb) es).

  Lemma build_inv : forall es,
    (forall l1 e l2, es = l1 ++ e :: l2 -> forall x, In x l1 -> e_idx x <= e_idx e) -> below es cur ->
    table_inv es (build es).
  Proof.
    induction es as [|e es IH] using rev_ind; intros Ord Bel.
    - repeat split; try discriminate; auto.
    - rewrite build_snoc.
      assert (Ord' : forall l1 x l2, es = l1 ++ x :: l2 -> forall y, In y l1 -> e_idx y <= e_idx x).
      { intros l1 x l2 E y Hy. apply (Ord l1 x (l2 ++ [e])); auto. rewrite E, <- app_assoc; reflexivity. }
      assert (Bel' : below es cur) by (intros x Hx; apply Bel; apply in_app_iff; auto).
      assert (Hle : forall x, In x es -> e_idx x <= e_idx e) by (intros x Hx; apply (Ord es e []); auto).
      assert (He : e_idx e <= cur) by (apply Bel; apply in_app_iff; simpl; auto).
      destruct (IH Ord' Bel') as (I1 & I2 & I3). destruct (store_event_get e (build es)) as [A B].
      split; [|split].
      + intros h i. rewrite A. destruct (memN h (e_names e)).
        * intros E; inv E. split; auto. exists e; split; auto. apply in_app_iff; simpl; auto.
        * intros E. destruct (I1 h i E) as (? & x & Hx & ?). split; auto. exists x; split; auto. apply in_app_iff; auto.
      + intros h s j. rewrite B, A. destruct (memN h (e_names e)); simpl.
        * destruct (memN s (e_signers e)).
          -- intros E; inv E. exists (e_idx e); split; auto. lia.
          -- intros E. destruct (I2 h s j E) as (i & Hi & Hji). exists (e_idx e); split; auto.
             destruct (I1 h i Hi) as (_ & x & Hx & <-). specialize (Hle x Hx). lia.
        * intros E; exact (I2 h s j E).
      + intros h s. rewrite existsb_app; simpl. rewrite orb_false_r. unfold rec_hit. rewrite B.
        destruct (memN h (e_names e) && memN s (e_signers e)) eqn:Eh; simpl.
        * fold (rec_hit (build es) h cur mtb s). rewrite <- I3.
          destruct (traceable (e_idx e) cur mtb) eqn:T; [rewrite orb_true_r; auto|]. rewrite orb_false_r.
          unfold rec_hit. destruct (mget payer_eqb (h, s) (recs (build es))) as [j|] eqn:G; auto.
          destruct (traceable j cur mtb) eqn:Tj; auto.
          destruct (I2 h s j G) as (i & Hi & Hji). destruct (I1 h i Hi) as (_ & x & Hx & <-).
          rewrite (traceable_mono j (e_idx e) cur mtb) in T; auto; try discriminate. specialize (Hle x Hx). lia.
        * rewrite orb_false_r. apply I3.
  Qed.

  Theorem conflict_records_exact : forall es h signers,
    (forall l1 e l2, es = l1 ++ e :: l2 -> forall x, In x l1 -> e_idx x <= e_idx e) -> below es cur ->
    has_conflict (build es) h signers cur mtb = conflict_spec es h signers cur mtb.
  Proof.
    intros es h signers Ord Bel. destruct (build_inv es Ord Bel) as (I1 & I2 & I3).
    unfold has_conflict, conflict_spec.
    assert (Hrec : existsb (rec_hit (build es) h cur mtb) signers = existsb (names_and_shares h signers cur mtb) es).
    { apply eq_true_iff_eq. rewrite !existsb_exists. split.
      - intros (s & Hs & Hh). rewrite I3 in Hh. apply existsb_exists in Hh as (e & He & Hc).
        exists e; split; auto. unfold names_and_shares. rewrite !andb_true_iff in *. destruct Hc as [[? ?] ?].
        repeat split; auto. apply existsb_exists. exists s; auto.
      - intros (e & He & Hc). unfold names_and_shares in Hc. rewrite !andb_true_iff in Hc. destruct Hc as [[? ?] Hs].
        apply existsb_exists in Hs as (s & Hs & Hm). exists s; split; auto. rewrite I3. apply existsb_exists.
        exists e; split; auto. rewrite !andb_true_iff; auto. }
    destruct (mget N.eqb h (stubs (build es))) as [i|] eqn:G.
    - destruct (traceable i cur mtb) eqn:T; auto.
      (* the newest record for h is out of the window: so is every event naming h, hence every signer record *)
      rewrite <- Hrec. symmetry. apply not_true_is_false. intros Hex.
      apply existsb_exists in Hex as (s & Hs & Hh). unfold rec_hit in Hh.
      destruct (mget payer_eqb (h, s) (recs (build es))) as [j|] eqn:Gj; [|discriminate].
      destruct (I2 h s j Gj) as (i' & Hi' & Hji). rewrite G in Hi'; inv Hi'.
      destruct (I1 h i' G) as (Hc & _). rewrite (traceable_mono j i' cur mtb) in T; auto; discriminate.
    - rewrite <- Hrec. symmetry. apply not_true_is_false. intros Hex.
      apply existsb_exists in Hex as (s & Hs & Hh). unfold rec_hit in Hh.
      destruct (mget payer_eqb (h, s) (recs (build es))) as [j|] eqn:Gj; [|discriminate].
      destruct (I2 h s j Gj) as (i' & Hi' & _). congruence.
  Qed.
End Exact.
