(* Facts about the fee calculator: it charges exactly what the VM charges for the standard witnesses;
   closed forms over the generated table; the calculated fee is the exact acceptance threshold of the gas loop. *)
From NG Require Import Common.Tactics Admission.Fee.
Open Scope N_scope.

(* ---------- facts read off the generated table (re-checked whenever the source changes) ---------- *)
Lemma table_shape : length fee_coeff = 256%nat /\ length push_int_op = 1025%nat.
Proof. split; vm_compute; reflexivity. Qed.
Lemma coeff_syscall : coeff op_SYSCALL = 0. Proof. vm_compute; reflexivity. Qed.
Lemma coeff_pushdata1 : coeff op_PUSHDATA1 = 8. Proof. vm_compute; reflexivity. Qed.
Lemma push_op_coeff_all : forallb (fun k => coeff (push_op (N.of_nat k)) =? 1) (seq 1 1024) = true.
Proof. vm_compute; reflexivity. Qed.
Lemma push_op_coeff : forall k, 1 <= k <= 1024 -> coeff (push_op k) = 1.
Proof.
  intros k Hk. pose proof push_op_coeff_all as H. rewrite forallb_forall in H.
  specialize (H (N.to_nat k)). rewrite N2Nat.id in H. apply N.eqb_eq, H. apply in_seq. lia.
Qed.
Lemma multiplier_pos : 0 < exec_fee_multiplier. Proof. vm_compute; reflexivity. Qed.

(* ---------- sums ---------- *)
Definition sum_coeff (ops : list N) : N := fold_left (fun a op => a + coeff op) ops 0.

Lemma fold_coeff_acc : forall ops a, fold_left (fun a op => a + coeff op) ops a = a + sum_coeff ops.
Proof.
  unfold sum_coeff; induction ops as [|o ops IH]; intros a; simpl; [lia|].
  rewrite (IH (a + coeff o)), (IH (coeff o)). lia.
Qed.
Lemma sum_coeff_cons : forall o ops, sum_coeff (o :: ops) = coeff o + sum_coeff ops.
Proof. intros; unfold sum_coeff; simpl. rewrite fold_coeff_acc. unfold sum_coeff. lia. Qed.
Lemma sum_coeff_app : forall a b, sum_coeff (a ++ b) = sum_coeff a + sum_coeff b.
Proof. induction a as [|o a IH]; intros b; simpl; [reflexivity|]. rewrite !sum_coeff_cons, IH. lia. Qed.
Lemma sum_coeff_repeat : forall o k, sum_coeff (repeat o k) = N.of_nat k * coeff o.
Proof. induction k as [|k IH]; [reflexivity|]. cbn [repeat]. rewrite sum_coeff_cons, IH. lia. Qed.

Lemma fold_price_acc : forall base ops a,
  fold_left (fun a op => a + coeff op * base) ops a = a + sum_coeff ops * base.
Proof.
  intros base; induction ops as [|o ops IH]; intros a; simpl; [unfold sum_coeff; simpl; lia|].
  rewrite IH, sum_coeff_cons. lia.
Qed.

Lemma opcode_price_sum : forall base ops, opcode_price base ops = sum_coeff ops * base.
Proof. reflexivity. Qed.
Lemma run_cost_sum : forall base ops k, run_cost base ops k = sum_coeff ops * base + base * ecdsa_verify_price * k.
Proof. intros; unfold run_cost. rewrite fold_price_acc. lia. Qed.

(* ---------- the calculator charges what the VM charges ---------- *)
Theorem fee_exact_sig : forall base, witness_cost base (0, 0) = calc_sig_pico base.
Proof.
  intros base. unfold witness_cost, calc_sig_pico. rewrite run_cost_sum, opcode_price_sum.
  cbn [inv_ops ver_ops nchecks fst snd N.eqb app].
  rewrite !sum_coeff_cons. change (sum_coeff []) with 0. rewrite coeff_syscall. lia.
Qed.

Theorem fee_exact_multisig : forall base m n, m <> 0 ->
  witness_cost base (m, n) = calc_multisig_pico base m n.
Proof.
  intros base m n Hm. unfold witness_cost, calc_multisig_pico, calc_multisig_part, inv_ops, ver_ops, nchecks.
  cbn [fst snd]. apply N.eqb_neq in Hm. rewrite Hm.
  rewrite run_cost_sum, !opcode_price_sum, !sum_coeff_app, !sum_coeff_repeat, !sum_coeff_cons, !N2Nat.id.
  change (sum_coeff []) with 0. rewrite coeff_syscall. lia.
Qed.

Theorem fee_exact : forall base s, witness_cost base s = calc_pico base s.
Proof.
  intros base [m n]. unfold calc_pico; cbn [fst snd]. destruct (m =? 0) eqn:E.
  - apply N.eqb_eq in E; subst. unfold witness_cost, inv_ops, ver_ops, nchecks; cbn [fst snd N.eqb].
    exact (fee_exact_sig base).
  - apply fee_exact_multisig. apply N.eqb_neq; auto.
Qed.

(* closed forms *)
Theorem calc_sig_closed : forall base, calc_sig_pico base = base * (16 + ecdsa_verify_price).
Proof.
  intros; unfold calc_sig_pico. rewrite opcode_price_sum, !sum_coeff_cons. change (sum_coeff []) with 0.
  rewrite coeff_pushdata1. lia.
Qed.
Theorem calc_multisig_closed : forall base m n, 1 <= m <= 1024 -> 1 <= n <= 1024 ->
  calc_multisig_pico base m n = base * (8 * m + 8 * n + 2 + ecdsa_verify_price * n).
Proof.
  intros base m n Hm Hn; unfold calc_multisig_pico, calc_multisig_part.
  rewrite !opcode_price_sum, !sum_coeff_cons. change (sum_coeff []) with 0.
  rewrite coeff_pushdata1, !push_op_coeff by lia. lia.
Qed.

(* size part: what Calculate adds is the encoded size of the witness *)
Lemma varint_size_66 : varint_size 66 = 1. Proof. reflexivity. Qed.
Theorem calc_size_exact : forall s verif_len,
  calc_size s verif_len = witness_size (if fst s =? 0 then 66 else 66 * fst s) verif_len.
Proof.
  intros [m n] v; unfold calc_size, witness_size; cbn [fst snd].
  destruct (m =? 0).
  - unfold var_bytes_size at 2. rewrite varint_size_66. reflexivity.
  - unfold var_bytes_size at 2. generalize (varint_size (66 * m)) (var_bytes_size v). intros; lia.
Qed.

(* ---------- the gas loop: the sum of the rounded costs is the exact threshold ---------- *)
Lemma ceil_le_iff : forall c l, c <= l * exec_fee_multiplier <-> pico_to_datoshi c <= l.
Proof.
  intros c l. unfold pico_to_datoshi, exec_fee_multiplier. split; intros H; lia.
Qed.

Theorem verify_loop_threshold : forall maxgas ws budget,
  Forall (fun w => snd w = true /\ pico_to_datoshi (fst w) <= maxgas) ws ->
  (verify_loop maxgas budget ws = true <-> needed_gas ws <= budget).
Proof.
  intros maxgas; induction ws as [|[c v] ws IH]; intros budget F; simpl.
  - split; [lia|reflexivity].
  - inv F. destruct H1 as [Hv Hc]; simpl in Hv, Hc; subst v.
    destruct (N.min budget maxgas * exec_fee_multiplier <? c) eqn:E.
    + apply N.ltb_lt in E. split; [discriminate|]. intros Hn. exfalso.
      assert (pico_to_datoshi c <= N.min budget maxgas) by (apply N.min_glb; lia).
      apply ceil_le_iff in H. lia.
    + apply N.ltb_ge in E. apply ceil_le_iff in E. rewrite IH by auto. lia.
Qed.

(* accepted with the needed amount, rejected with one Datoshi less *)
Theorem threshold_exact : forall maxgas ws,
  ws <> [] -> Forall (fun w => snd w = true /\ 0 < fst w /\ pico_to_datoshi (fst w) <= maxgas) ws ->
  verify_loop maxgas (needed_gas ws) ws = true /\ verify_loop maxgas (needed_gas ws - 1) ws = false.
Proof.
  intros maxgas ws Hne F.
  assert (F' : Forall (fun w => snd w = true /\ pico_to_datoshi (fst w) <= maxgas) ws)
    by (eapply Forall_impl; [|exact F]; simpl; tauto).
  split; [apply verify_loop_threshold; auto; lia|].
  destruct (verify_loop maxgas (needed_gas ws - 1) ws) eqn:E; auto.
  apply verify_loop_threshold in E; auto.
  assert (0 < needed_gas ws).
  { destruct ws as [|[c v] ws]; [contradiction|]. inv F. destruct H1 as (_ & Hc & _); simpl in *.
    assert (0 < pico_to_datoshi c); [|lia].
    unfold pico_to_datoshi, exec_fee_multiplier. lia. }
  lia.
Qed.
