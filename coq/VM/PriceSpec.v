(* Reference price coefficients of the NeoVM instruction set (Neo N3 protocol: ApplicationEngine.OpCodePrices of the
   reference implementation; unit = one base execution fee).  HAND-WRITTEN and never regenerated: this is the specification
   the generated table of pkg/core/fee (coq/gen/OpcodePrices.v) is compared with on every run. *)
From Coq Require Import ZArith.
From NG Require Import gen.Opcodes gen.OpcodePrices.
Open Scope Z_scope.

Definition reference_coeff (o : opcode) : Z :=
  match o with
  | ABORT | RET | SYSCALL | ABORTMSG => 0
  | PUSHINT8 | PUSHINT16 | PUSHINT32 | PUSHINT64 | PUSHT | PUSHF | PUSHNULL | PUSHM1 | PUSH0 | PUSH1 | PUSH2
   | PUSH3 | PUSH4 | PUSH5 | PUSH6 | PUSH7 | PUSH8 | PUSH9 | PUSH10 | PUSH11 | PUSH12 | PUSH13 | PUSH14
   | PUSH15 | PUSH16 | NOP | ASSERT | ASSERTMSG => 1
  | JMP | JMPL | JMPIF | JMPIFL | JMPIFNOT | JMPIFNOTL | JMPEQ | JMPEQL | JMPNE | JMPNEL | JMPGT | JMPGTL
   | JMPGE | JMPGEL | JMPLT | JMPLTL | JMPLE | JMPLEL | DEPTH | DROP | NIP | DUP | OVER | PICK | TUCK | SWAP
   | ROT | REVERSE3 | REVERSE4 | LDSFLD0 | LDSFLD1 | LDSFLD2 | LDSFLD3 | LDSFLD4 | LDSFLD5 | LDSFLD6 | LDSFLD
   | STSFLD0 | STSFLD1 | STSFLD2 | STSFLD3 | STSFLD4 | STSFLD5 | STSFLD6 | STSFLD | LDLOC0 | LDLOC1 | LDLOC2
   | LDLOC3 | LDLOC4 | LDLOC5 | LDLOC6 | LDLOC | STLOC0 | STLOC1 | STLOC2 | STLOC3 | STLOC4 | STLOC5 | STLOC6
   | STLOC | LDARG0 | LDARG1 | LDARG2 | LDARG3 | LDARG4 | LDARG5 | LDARG6 | LDARG | STARG0 | STARG1 | STARG2
   | STARG3 | STARG4 | STARG5 | STARG6 | STARG | ISNULL | ISTYPE => 2
  | PUSHINT128 | PUSHINT256 | PUSHA | TRY | TRYL | ENDTRY | ENDTRYL | ENDFINALLY | INVERT | SIGN | ABS
   | NEGATE | INC | DEC | NOT | NZ | SIZE => 4
  | PUSHDATA1 | AND | OR | XOR | ADD | SUB | MUL | DIV | MOD | SHL | SHR | BOOLAND | BOOLOR | NUMEQUAL
   | NUMNOTEQUAL | LT | LE | GT | GE | MIN | MAX | WITHIN | NEWMAP => 8
  | XDROP | CLEAR | ROLL | REVERSEN | INITSSLOT | NEWARRAY0 | NEWSTRUCT0 | KEYS | REMOVE | CLEARITEMS
   | POPITEM => 16
  | EQUAL | NOTEQUAL | MODMUL => 32
  | INITSLOT | POW | SQRT | HASKEY | PICKITEM => 64
  | NEWBUFFER => 256
  | PUSHDATA2 | CALL | CALLL | CALLA | THROW | NEWARRAY | NEWARRAYT | NEWSTRUCT => 512
  | MEMCPY | CAT | SUBSTR | LEFT | RIGHT | MODPOW | PACKMAP | PACKSTRUCT | PACK | UNPACK => 2048
  | PUSHDATA4 => 4096
  | VALUES | APPEND | SETITEM | REVERSEITEMS | CONVERT => 8192
  | CALLT => 32768
  end.

Lemma prices_match_reference : forall o, opcode_coeff o = reference_coeff o.
Proof. destruct o; reflexivity. Qed.
