(* The specification side of the item accounting (C12): [reach_count s] is the number of item references that
   are really there - the entries of every evaluation stack and slot of every context on the invocation stack
   plus the child references of every compound reachable from them, each compound visited once - found by an
   actual walk with a visited set.  Definitions only. *)
From NG Require Import VM.Model.
Open Scope Z_scope.

Definition slot_items (sl : option (list item)) : list item := match sl with Some l => l | None => [] end.
Definition frame_roots (f : frame) : list item := slot_items (f_local f) ++ slot_items (f_args f).

(* evaluation stacks and static slots of the suspended script contexts; a stack object shared with the script
   context above it is counted once (the copy kept below is the stale, empty one) *)
Fixpoint outer_roots (above_shared : bool) (o : list (script * (frame * list frame))) : list item :=
  match o with
  | [] => []
  | (sc, (f, fs)) :: t =>
      (if above_shared then [] else sc_es sc) ++ slot_items (sc_static sc)
      ++ frame_roots f ++ flat_map frame_roots fs ++ outer_roots (sc_shared sc) t
  end.

Definition roots (s : state) : list item :=
  sc_es (s_sc s) ++ slot_items (sc_static (s_sc s)) ++ frame_roots (s_fr s) ++ flat_map frame_roots (s_frames s)
  ++ outer_roots (sc_shared (s_sc s)) (s_outer s).

Fixpoint mem_loc (l : loc) (seen : list loc) : bool :=
  match seen with [] => false | x :: t => Nat.eqb x l || mem_loc l t end.

(* work list walk: [acc] counts the child references of the compounds expanded so far *)
Fixpoint reach_wl (fuel : nat) (h : heap) (seen : list loc) (acc : Z) (work : list item) : Z * list loc :=
  match fuel with
  | O => (acc, seen)
  | S f =>
      match work with
      | [] => (acc, seen)
      | it :: w =>
          match item_cloc it with
          | Some l =>
              if mem_loc l seen then reach_wl f h seen acc w
              else match hget h l with
                   | Some c => reach_wl f h (l :: seen) (acc + zlen (cell_children c)) (cell_children c ++ w)
                   | None => reach_wl f h seen acc w
                   end
          | None => reach_wl f h seen acc w
          end
      end
  end.

Definition reach_from (h : heap) (rs : list item) : Z :=
  zlen rs + fst (reach_wl (ref_fuel h rs) h [] 0 rs).

Definition reach_count (s : state) : Z := reach_from (s_heap s) (roots s).

(* compounds reachable from the roots *)
Definition reachable_locs (s : state) : list loc :=
  snd (reach_wl (ref_fuel (s_heap s) (roots s)) (s_heap s) [] 0 (roots s)).
