(* Results are fresh (C13): buffers are the only mutable byte storage of the model; this file shows which buffer cells an
   instruction can change.
     bk x h h'      every buffer cell of h other than location x is the same in h'
     exec_data_keeps_buffers    every data instruction other than the three in-place mutators (SETITEM, REVERSEITEMS, MEMCPY)
                                leaves ALL existing buffers as they are (x = None)
     mutator_one_buffer         SETITEM / REVERSEITEMS / MEMCPY change at most ONE buffer cell
     producer_fresh             NEWBUFFER, CAT, SUBSTR, LEFT, RIGHT push a Buffer at a location that did not exist before
   Together: mutating a result in place cannot change any other value.  (Derived from VM/RefsShape.v by replacing the
   relation.) *)
From NG Require Import VM.Model VM.LimitsData VM.Reach VM.RefsInv VM.RefsMoves.
Open Scope Z_scope.

Definition bk (x : option loc) (h h' : heap) : Prop :=
  forall l bs, Some l <> x -> hget h l = Some (CBuf bs) -> hget h' l = Some (CBuf bs).

Lemma bk_hset_buf h l c' : bk (Some l) h (hset h l c').
Proof. intros l0 bs N E. rewrite hget_hset_other; [exact E|]. intros ->. apply N. reflexivity. Qed.

Section BK.
Variable xl : option loc.
Lemma bk_refl h : bk xl h h. Proof. intros l bs _ E. exact E. Qed.
Lemma bk_trans a b c : bk xl a b -> bk xl b c -> bk xl a c.
Proof. intros H1 H2 l bs N E. apply H2; [exact N|]. apply H1; assumption. Qed.
Lemma bk_rc_only h h' : rc_only h h' -> bk xl h h'.
Proof. intros [_ H] l bs _ E. destruct (H l _ E) as (r & E'). exact E'. Qed.
Lemma bk_app h t : bk xl h (h ++ t).
Proof. intros l bs _ E. unfold hget in *. rewrite nth_error_app1; [assumption|]. apply nth_error_Some. congruence. Qed.
Lemma bk_hset_other h i c c' : hget h i = Some c -> is_comp c -> bk xl h (hset h i c').
Proof.
  intros Ei C l bs _ E. destruct (Nat.eq_dec i l) as [->|N]; [rewrite Ei in E; inv E; destruct C|].
  rewrite hget_hset_other by assumption. exact E.
Qed.

Definition bkd (d d' : dstate) : Prop := bk xl (d_heap d) (d_heap d').
Lemma bkd_refl d : bkd d d. Proof. apply bk_refl. Qed.
Lemma bkd_trans a b c : bkd a b -> bkd b c -> bkd a c. Proof. apply bk_trans. Qed.

Lemma bkd_add it d : bkd d (d_add it d).
Proof.
  unfold bkd, d_add. pose proof (ref_add_rc_only (d_heap d) (d_refs d) it) as R.
  destruct (ref_add (d_heap d) (d_refs d) it). apply bk_rc_only. exact R.
Qed.
Lemma bkd_remove it d : bkd d (d_remove it d).
Proof.
  unfold bkd, d_remove. pose proof (ref_remove_rc_only (d_heap d) (d_refs d) it) as R.
  destruct (ref_remove (d_heap d) (d_refs d) it). apply bk_rc_only. exact R.
Qed.
Lemma bkd_add_list w d : bkd d (d_add_list w d).
Proof.
  unfold bkd, d_add_list, ref_add_list. pose proof (ref_add_wl_rc_only (ref_fuel (d_heap d) w) (d_heap d) (d_refs d) w) as R.
  destruct (ref_add_wl _ (d_heap d) (d_refs d) w). apply bk_rc_only. exact R.
Qed.
Lemma bkd_remove_list w d : bkd d (d_remove_list w d).
Proof.
  unfold bkd, d_remove_list, ref_remove_list. pose proof (ref_remove_wl_rc_only (ref_fuel (d_heap d) w) (d_heap d) (d_refs d) w) as R.
  destruct (ref_remove_wl _ (d_heap d) (d_refs d) w). apply bk_rc_only. exact R.
Qed.
Lemma bkd_push it d : bkd d (push it d).
Proof. unfold push. apply (bkd_trans _ (push_noref it d)); [apply bk_refl|apply bkd_add]. Qed.
Lemma bkd_pop_noref d it d' : pop_noref d = Some (it, d') -> bkd d d'.
Proof. unfold pop_noref. destruct (d_es d); [discriminate|]. intros Q; inv Q. (unfold bkd; apply bk_refl). Qed.
Lemma bkd_pop d it d' : pop d = Some (it, d') -> bkd d d'.
Proof.
  unfold pop. destruct (pop_noref d) as [[i d1]|] eqn:E; [|discriminate]. intros Q; inv Q.
  eapply bkd_trans; [eapply bkd_pop_noref; eauto|apply bkd_remove].
Qed.
Lemma bkd_pop_int d z d' : pop_int d = Some (z, d') -> bkd d d'.
Proof. unfold pop_int. destruct (pop d) as [[i d1]|] eqn:E; [|discriminate]. destruct (try_int i); [|discriminate]. intros Q; inv Q. eapply bkd_pop; eauto. Qed.
Lemma bkd_pop_i32 d z d' : pop_i32 d = Some (z, d') -> bkd d d'.
Proof. unfold pop_i32. destruct (pop_int d) as [[i d1]|] eqn:E; [|discriminate]. destruct (to_i32 i); [|discriminate]. intros Q; inv Q. eapply bkd_pop_int; eauto. Qed.
Lemma bkd_pop_bool d z d' : pop_bool d = Some (z, d') -> bkd d d'.
Proof. unfold pop_bool. destruct (pop d) as [[i d1]|] eqn:E; [|discriminate]. destruct (try_bool i); [|discriminate]. intros Q; inv Q. eapply bkd_pop; eauto. Qed.
Lemma bkd_pop_bytes d z d' : pop_bytes d = Some (z, d') -> bkd d d'.
Proof. unfold pop_bytes. destruct (pop d) as [[i d1]|] eqn:E; [|discriminate]. destruct (try_bytes (d_heap d1) i); [|discriminate]. intros Q; inv Q. eapply bkd_pop; eauto. Qed.
Lemma bkd_push_int z d d' : push_int z d = Some d' -> bkd d d'.
Proof. unfold push_int. destruct (mk_int256 z); [|discriminate]. intros Q; inv Q. apply bkd_push. Qed.
Lemma bkd_alloc d c : bkd d (set_heap d (d_heap d ++ [c])).
Proof. unfold bkd. cbn. apply bk_app. Qed.
Lemma bkd_push_new_buffer bs d : bkd d (push_new_buffer bs d).
Proof. unfold push_new_buffer, alloc, halloc. cbn [fst snd]. eapply bkd_trans; [apply bkd_alloc|apply bkd_push]. Qed.

Lemma bkd_hset_seq d l rc its c' : get_seq (d_heap d) l = Some (rc, its) -> is_comp c' -> bkd d (set_heap d (hset (d_heap d) l c')).
Proof.
  unfold get_seq, bkd. destruct (hget (d_heap d) l) as [[| |]|] eqn:E; try discriminate. intros _ C. cbn.
  eapply bk_hset_other; [exact E|exact I].
Qed.
Lemma bkd_hset_map d l rc es c' : get_map (d_heap d) l = Some (rc, es) -> is_comp c' -> bkd d (set_heap d (hset (d_heap d) l c')).
Proof.
  unfold get_map, bkd. destruct (hget (d_heap d) l) as [[| |]|] eqn:E; try discriminate. intros _ C. cbn.
  eapply bk_hset_other; [exact E|exact I].
Qed.
Lemma bkd_slot_store sl i d s' d' : slot_store sl i d = Some (s', d') -> bkd d d'.
Proof.
  unfold slot_store. destruct sl as [s|]; [|discriminate]. destruct (nth_error s (Z.to_nat i)); [|discriminate].
  destruct (pop_noref d) as [[it d1]|] eqn:P; [|discriminate]. intros Q; inv Q.
  eapply bkd_trans; [eapply bkd_pop_noref; eauto|apply bkd_remove].
Qed.

(* Struct.Clone only appends *)
Lemma clone_struct_shape fuel : forall h l lim h' l' lim', clone_struct fuel h l lim = Some (h', l', lim') -> bk xl h h'.
Proof.
  induction fuel as [|f IH]; intros h l lim h' l' lim'; simpl; [discriminate|].
  destruct (get_seq h l) as [[rc xs]|]; [|discriminate].
  match goal with |- match ?go xs h lim [] with _ => _ end = _ -> _ => set (GO := go) end.
  assert (K : forall xs h0 lim0 acc h1 ys lim1, GO xs h0 lim0 acc = Some (h1, ys, lim1) -> bk xl h0 h1).
  { clear - IH. induction xs as [|x xs IHxs]; intros h0 lim0 acc h1 ys lim1; simpl.
    - intros Q; inv Q. apply bk_refl.
    - case_if; [discriminate|]. destruct x; try (apply IHxs; fail).
      destruct (clone_struct f h0 l (lim0 - 1)) as [[[h2 l2] lim2]|] eqn:C; [|discriminate].
      intros Q. eapply bk_trans; [eapply IH; eauto|eapply IHxs; eauto]. }
  destruct (GO xs h lim []) as [[[h1 ys] lim1]|] eqn:Eg; [|discriminate].
  unfold halloc. intros Q; inv Q. eapply bk_trans; [eapply K; eauto|apply bk_app].
Qed.
Lemma clone_if_struct_shape h it h' it' b : clone_if_struct h it = Some (h', it', b) -> bk xl h h'.
Proof.
  unfold clone_if_struct. destruct it; try (intros Q; inv Q; apply bk_refl).
  destruct (clone_struct clone_fuel h l (MaxClonableNumOfItems - 1)) as [[[h1 l1] lim1]|] eqn:C; [|discriminate].
  intros Q; inv Q. eapply clone_struct_shape; eauto.
Qed.
Lemma bkd_clone d it h' it' b : clone_if_struct (d_heap d) it = Some (h', it', b) -> bkd d (set_heap d h').
Proof. intros C. unfold bkd. cbn. eapply clone_if_struct_shape; eauto. Qed.

Lemma bkd_packmap n : forall es d es' d', packmap_loop n es d = Some (es', d') -> bkd d d'.
Proof.
  induction n as [|n IH]; intros es d es' d'; simpl; [intros Q; inv Q; (unfold bkd; apply bk_refl)|].
  destruct (pop_noref d) as [[k d1]|] eqn:P1; [|discriminate].
  destruct (pop_noref d1) as [[v d2]|] eqn:P2; [|discriminate]. case_if; [discriminate|].
  pose proof (bkd_trans _ _ _ (bkd_pop_noref _ _ _ P1) (bkd_pop_noref _ _ _ P2)) as S.
  destruct (map_index es k).
  - destruct (nth_error es n0) as [[? old]|]; [|discriminate]. intros Q. eapply bkd_trans; [exact S|].
    eapply bkd_trans; [|eapply IH; exact Q]. eapply bkd_trans; [|apply bkd_remove]. (unfold bkd; apply bk_refl).
  - intros Q. eapply bkd_trans; [exact S|eapply IH; exact Q].
Qed.
Lemma bkd_cp_values b : forall src acc d arr d', cp_values b src acc d = Some (arr, d') -> bkd d d'.
Proof.
  induction src as [|it src IH]; intros acc d arr d'; simpl; [intros Q; inv Q; (unfold bkd; apply bk_refl)|].
  destruct (clone_if_struct (d_heap d) it) as [[[h cl] s]|] eqn:C; [|discriminate]. intros Q.
  eapply bkd_trans; [apply (bkd_clone _ _ _ _ _ C)|]. eapply bkd_trans; [|eapply IH; exact Q].
  destruct b; [apply bkd_add|]. destruct s; [|(unfold bkd; apply bk_refl)]. eapply bkd_trans; [apply bkd_remove|apply bkd_add].
Qed.

End BK.

Lemma bk_weaken x h h' : bk None h h' -> bk x h h'.
Proof. intros H l bs _ E. apply H; [discriminate|exact E]. Qed.

(* ---------- all data instructions ---------- *)
Definition res_B (x : option loc) (d0 : dstate) (r : option dres) : Prop :=
  match r with Some (DOk d) => bkd x d0 d | Some (DThrow _ d) => bkd x d0 d | _ => True end.

Ltac openB :=
  match goal with
  | |- res_B _ _ (match ?e with Some _ => _ | None => None end) =>
      let E := fresh "E" in destruct e as [?|] eqn:E; [|exact I]
  | |- res_B _ _ (let (_, _) := alloc _ _ in _) => unfold alloc, halloc; cbv beta iota zeta
  | |- res_B _ _ (let (_, _) := ?p in _) => destruct p
  | |- res_B _ _ (let _ := _ in _) => cbv zeta
  | |- res_B _ _ (if ?b then _ else _) => let E := fresh "C" in destruct b eqn:E
  | |- res_B _ _ None => exact I
  | |- res_B _ _ (ok _) => unfold ok
  | |- res_B _ _ (okd _) => unfold okd
  | |- res_B _ _ (Some (DOk _)) => cbn [res_B]
  | |- res_B _ _ (Some (DThrow _ _)) => cbn [res_B]
  | |- res_B _ _ (match ?x with _ => _ end) => is_var x; destruct x
  | |- res_B _ _ (match ?e with _ => _ end) => let E := fresh "E" in destruct e eqn:E
  end.

Ltac bn := cbn [d_heap set_es set_mem set_heap set_refs set_local set_args set_static push_noref push_counted put_slot
                alloc halloc fst snd] in *.

Lemma hb_seq x h l rc its c' : get_seq h l = Some (rc, its) -> bk x h (hset h l c').
Proof. unfold get_seq. destruct (hget h l) as [[| |]|] eqn:E; try discriminate. intros _. eapply bk_hset_other; [exact E|exact I]. Qed.
Lemma hb_map x h l rc es c' : get_map h l = Some (rc, es) -> bk x h (hset h l c').
Proof. unfold get_map. destruct (hget h l) as [[| |]|] eqn:E; try discriminate. intros _. eapply bk_hset_other; [exact E|exact I]. Qed.

(* the goal is [bk ?x h0 h]; ?x may still be an evar: it is fixed by the first write to a buffer cell *)
Ltac bh :=
  unfold bkd; bn;
  lazymatch goal with
  | |- bk _ ?a ?a => apply bk_refl
  | |- bk _ _ (d_heap (if _ then _ else _)) => case_if; bh
  | |- bk _ _ (d_heap (match ?x with _ => _ end)) => destruct x; bh
  | |- bk _ _ (d_heap (d_add _ _)) => eapply bk_trans; [|apply bkd_add]; bh
  | |- bk _ _ (d_heap (d_remove _ _)) => eapply bk_trans; [|apply bkd_remove]; bh
  | |- bk _ _ (d_heap (d_add_list _ _)) => eapply bk_trans; [|apply bkd_add_list]; bh
  | |- bk _ _ (d_heap (d_remove_list _ _)) => eapply bk_trans; [|apply bkd_remove_list]; bh
  | |- bk _ _ (d_heap (push _ _)) => eapply bk_trans; [|apply bkd_push]; bh
  | |- bk _ _ (d_heap (push_new_buffer _ _)) => eapply bk_trans; [|apply bkd_push_new_buffer]; bh
  | |- bk _ _ (hset ?H _ _) =>
      eapply bk_trans;
      [|first [eapply hb_seq; eassumption | eapply hb_map; eassumption | apply bk_hset_buf]]; bh
  | |- bk _ _ (?H ++ [_]) => eapply bk_trans; [|apply bk_app]; bh
  | |- bk _ _ (d_heap ?d) =>
      is_var d;
      match goal with
      | X : pop _ = Some (_, d) |- _ => eapply bk_trans; [|exact (bkd_pop _ _ _ _ X)]; clear X; bh
      | X : pop_noref _ = Some (_, d) |- _ => eapply bk_trans; [|exact (bkd_pop_noref _ _ _ _ X)]; clear X; bh
      | X : pop_int _ = Some (_, d) |- _ => eapply bk_trans; [|exact (bkd_pop_int _ _ _ _ X)]; clear X; bh
      | X : pop_i32 _ = Some (_, d) |- _ => eapply bk_trans; [|exact (bkd_pop_i32 _ _ _ _ X)]; clear X; bh
      | X : pop_bool _ = Some (_, d) |- _ => eapply bk_trans; [|exact (bkd_pop_bool _ _ _ _ X)]; clear X; bh
      | X : pop_bytes _ = Some (_, d) |- _ => eapply bk_trans; [|exact (bkd_pop_bytes _ _ _ _ X)]; clear X; bh
      | X : slot_store _ _ _ = Some (_, d) |- _ => eapply bk_trans; [|exact (bkd_slot_store _ _ _ _ _ _ X)]; clear X; bh
      | X : push_int _ _ = Some d |- _ => eapply bk_trans; [|exact (bkd_push_int _ _ _ _ X)]; clear X; bh
      | X : packmap_loop _ _ _ = Some (_, d) |- _ => eapply bk_trans; [|exact (bkd_packmap _ _ _ _ _ _ X)]; clear X; bh
      | X : cp_values _ _ _ _ = Some (_, d) |- _ => eapply bk_trans; [|exact (bkd_cp_values _ _ _ _ _ _ _ X)]; clear X; bh
      end
  | |- bk _ _ ?h =>
      is_var h;
      match goal with
      | X : clone_if_struct _ _ = Some (h, _, _) |- _ => eapply bk_trans; [|exact (clone_if_struct_shape _ _ _ _ _ _ X)]; clear X; bh
      end
  end.

Ltac unfB := unfold un_int, bin_int, bin_cmp, cmp_null, ld, st; unfold slot_load, new_seq, new_empty, op_append,
  op_packmap, op_pack, op_unpack, throw_bytes, op_pickitem, op_setitem, op_reverseitems, op_remove, op_clearitems, op_popitem,
  op_size, op_keys, op_values, op_haskey, op_convert, op_memcpy, throw_bytes, okd, ok.

Definition inplace_mutator (op : opcode) : bool := match op with SETITEM | REVERSEITEMS | MEMCPY => true | _ => false end.

(* every instruction but the three in-place mutators leaves every existing buffer as it is *)
Theorem exec_data_opt_keeps_buffers e op p d : inplace_mutator op = false -> res_B None d (exec_data_opt e op p d).
Proof. intros M. destruct op; try discriminate M; cbn [exec_data_opt]; try exact I; unfB; repeat openB; bh. Qed.

Theorem exec_data_keeps_buffers e op p d :
  inplace_mutator op = false ->
  match exec_data e op p d with DOk d' => bk None (d_heap d) (d_heap d') | DThrow _ d' => bk None (d_heap d) (d_heap d') | DFault => True end.
Proof.
  intros M. unfold exec_data. pose proof (exec_data_opt_keeps_buffers e op p d M) as H.
  destruct (exec_data_opt e op p d) as [[]|]; exact H.
Qed.

(* the three in-place mutators change at most one buffer cell *)
Definition res_BE (d0 : dstate) (r : option dres) : Prop :=
  match r with
  | Some (DOk d) => exists x, bk x (d_heap d0) (d_heap d)
  | Some (DThrow _ d) => exists x, bk x (d_heap d0) (d_heap d)
  | _ => True
  end.
Ltac openBE :=
  match goal with
  | |- res_BE _ (match ?e with Some _ => _ | None => None end) =>
      let E := fresh "E" in destruct e as [?|] eqn:E; [|exact I]
  | |- res_BE _ (let (_, _) := alloc _ _ in _) => unfold alloc, halloc; cbv beta iota zeta
  | |- res_BE _ (let (_, _) := ?p in _) => destruct p
  | |- res_BE _ (let _ := _ in _) => cbv zeta
  | |- res_BE _ (if ?b then _ else _) => let E := fresh "C" in destruct b eqn:E
  | |- res_BE _ None => exact I
  | |- res_BE _ (ok _) => unfold ok
  | |- res_BE _ (okd _) => unfold okd
  | |- res_BE _ (Some (DOk _)) => cbn [res_BE]
  | |- res_BE _ (Some (DThrow _ _)) => cbn [res_BE]
  | |- res_BE _ (match ?x with _ => _ end) => is_var x; destruct x
  | |- res_BE _ (match ?e with _ => _ end) => let E := fresh "E" in destruct e eqn:E
  end.

Theorem mutator_one_buffer_opt e op p d : inplace_mutator op = true -> res_BE d (exec_data_opt e op p d).
Proof.
  intros M. destruct op; try discriminate M; cbn [exec_data_opt]; unfB; repeat openBE;
    first [solve [exists None; bh] | solve [eexists; bh]].
Qed.

Theorem mutator_one_buffer e op p d :
  inplace_mutator op = true ->
  match exec_data e op p d with
  | DOk d' => exists x, bk x (d_heap d) (d_heap d')
  | DThrow _ d' => exists x, bk x (d_heap d) (d_heap d')
  | DFault => True
  end.
Proof.
  intros M. unfold exec_data. pose proof (mutator_one_buffer_opt e op p d M) as H.
  destruct (exec_data_opt e op p d) as [[]|]; exact H.
Qed.

(* the byte-string producing instructions push a Buffer that lives at a location the heap did not have before: no
   other stack entry, slot or compound element can refer to it *)
Definition buffer_producer (op : opcode) : bool :=
  match op with NEWBUFFER | CAT | SUBSTR | LEFT | RIGHT => true | _ => false end.

Lemma push_new_buffer_top bs d :
  exists h', d_es (push_new_buffer bs d) = IBuf (length (d_heap d)) :: d_es d /\
             d_heap (push_new_buffer bs d) = h' /\ hget h' (length (d_heap d)) = Some (CBuf bs) /\ length h' = S (length (d_heap d)).
Proof.
  unfold push_new_buffer, alloc, halloc. cbn [fst snd]. unfold push, d_add, ref_add, push_noref. cbn [item_cloc set_es set_heap set_mem d_heap d_refs d_es].
  eexists. split; [reflexivity|]. split; [reflexivity|]. split.
  - unfold hget. rewrite nth_error_app2 by lia. rewrite Nat.sub_diag. reflexivity.
  - rewrite app_length. simpl. lia.
Qed.

Definition res_F (d0 : dstate) (r : option dres) : Prop :=
  match r with
  | Some (DOk d) => exists l bs tl, d_es d = IBuf l :: tl /\ hget (d_heap d) l = Some (CBuf bs) /\ (length (d_heap d0) <= l)%nat
  | _ => True
  end.

Lemma len_remove it d : length (d_heap (d_remove it d)) = length (d_heap d).
Proof.
  unfold d_remove. pose proof (ref_remove_rc_only (d_heap d) (d_refs d) it) as [L _].
  destruct (ref_remove (d_heap d) (d_refs d) it). exact L.
Qed.
Lemma len_pop d it d' : pop d = Some (it, d') -> length (d_heap d') = length (d_heap d).
Proof.
  unfold pop, pop_noref. destruct (d_es d); [discriminate|]. intros Q; inv Q. rewrite len_remove. reflexivity.
Qed.
Lemma len_pop_int d z d' : pop_int d = Some (z, d') -> length (d_heap d') = length (d_heap d).
Proof. unfold pop_int. destruct (pop d) as [[i d1]|] eqn:E; [|discriminate]. destruct (try_int i); [|discriminate]. intros Q; inv Q. eapply len_pop; eauto. Qed.
Lemma len_pop_i32 d z d' : pop_i32 d = Some (z, d') -> length (d_heap d') = length (d_heap d).
Proof. unfold pop_i32. destruct (pop_int d) as [[i d1]|] eqn:E; [|discriminate]. destruct (to_i32 i); [|discriminate]. intros Q; inv Q. eapply len_pop_int; eauto. Qed.
Lemma len_pop_bytes d z d' : pop_bytes d = Some (z, d') -> length (d_heap d') = length (d_heap d).
Proof. unfold pop_bytes. destruct (pop d) as [[i d1]|] eqn:E; [|discriminate]. destruct (try_bytes (d_heap d1) i); [|discriminate]. intros Q; inv Q. eapply len_pop; eauto. Qed.

Theorem producer_fresh_opt e op p d : buffer_producer op = true -> res_F d (exec_data_opt e op p d).
Proof.
  intros M. destruct op; try discriminate M; cbn [exec_data_opt];
  repeat match goal with
  | |- res_F _ (match ?e with Some _ => _ | None => None end) =>
      let E := fresh "E" in destruct e as [[? ?]|] eqn:E; [|exact I]
  | |- res_F _ (if ?b then _ else _) => destruct b
  | |- res_F _ None => exact I
  end;
  repeat match goal with
  | X : pop_i32 _ = Some _ |- _ => apply len_pop_i32 in X
  | X : pop_bytes _ = Some _ |- _ => apply len_pop_bytes in X
  end;
  unfold ok; cbn [res_F];
  match goal with |- context [push_new_buffer ?bs ?d1] =>
    destruct (push_new_buffer_top bs d1) as (h' & Es & Eh & Eg & _); rewrite Es, Eh;
    exists (length (d_heap d1)), bs, (d_es d1); split; [reflexivity|split; [exact Eg|lia]]
  end.
Qed.

(* NEWBUFFER, CAT, SUBSTR, LEFT, RIGHT: the result is a Buffer on top of the stack at a location >= the size of the heap
   before the instruction *)
Theorem producer_fresh e op p d d' :
  buffer_producer op = true -> exec_data e op p d = DOk d' ->
  exists l bs tl, d_es d' = IBuf l :: tl /\ hget (d_heap d') l = Some (CBuf bs) /\ (length (d_heap d) <= l)%nat.
Proof.
  intros M. unfold exec_data. pose proof (producer_fresh_opt e op p d M) as H.
  destruct (exec_data_opt e op p d) as [[]|]; try discriminate. intros Q; inv Q. exact H.
Qed.
