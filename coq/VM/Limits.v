(* The VM limits as an invariant of [step]: after every non-faulting instruction the item counter is at most
   MaxStackSize, every integer anywhere in the state is within 256 bits, every byte string and buffer within
   MaxItemSize, at most MaxInvocationStackSize contexts and MaxTryNestingDepth nested try blocks per context. *)
From NG Require Import VM.Model Codec.BigintProofs VM.LimitsData VM.LimitsExec VM.LimitsOps VM.Total.
Open Scope Z_scope.

Section WithPtr.
Context {PS : PtrSpec}.

Definition frame_ok (f : frame) : Prop :=
  slot_ok (f_local f) /\ slot_ok (f_args f) /\ zlen (f_try f) <= MaxTryNestingDepth.
Definition script_ok (sc : script) : Prop := slot_ok (sc_static sc) /\ Forall item_ok (sc_es sc).
Definition outer_ok (x : script * (frame * list frame)) : Prop :=
  script_ok (fst x) /\ frame_ok (fst (snd x)) /\ Forall frame_ok (snd (snd x)).
Definition exc_ok (e : option item) : Prop := match e with Some x => item_ok x | None => True end.

Definition state_ok (s : state) : Prop :=
  frame_ok (s_fr s) /\ script_ok (s_sc s) /\ Forall frame_ok (s_frames s) /\ Forall outer_ok (s_outer s) /\
  heap_ok (s_heap s) /\ exc_ok (s_exc s) /\ depth s <= MaxInvocationStackSize.

Lemma view_ok s : state_ok s -> d_ok (view s).
Proof. intros ((L & A & T) & (St & Es) & _ & _ & H & _). repeat split; assumption. Qed.

Lemma unview_ok s d : state_ok s -> d_ok d -> state_ok (unview s d).
Proof.
  intros ((L & A & T) & (St & Es) & Fs & O & H & X & D) (Es' & L' & A' & St' & H').
  repeat split; assumption.
Qed.

Lemma set_try_ok s t : state_ok s -> zlen t <= MaxTryNestingDepth -> state_ok (set_try s t).
Proof. intros ((L & A & T) & Sc & Fs & O & H & X & D) Ht. repeat split; try assumption; apply Sc. Qed.
Lemma set_exc_ok s e : state_ok s -> exc_ok e -> state_ok (set_exc s e).
Proof. intros (F & Sc & Fs & O & H & X & D) He. repeat split; try assumption; try apply F; apply Sc. Qed.

Lemma jump_ok' s p s' : state_ok s -> jump s p = Some s' -> state_ok s'.
Proof.
  unfold jump. case_if; [|discriminate]. intros ((L & A & T) & Sc & Fs & O & H & X & D) E; inv E.
  repeat split; try assumption; apply Sc.
Qed.

Lemma call_ok s p s' : state_ok s -> call s p = Some s' -> state_ok s'.
Proof.
  intros K E. pose proof (call_ctl _ _ _ E) as [_ Dp]. revert E. unfold call.
  case_if; [discriminate|]. case_if; [discriminate|]. intros E; inv E.
  destruct K as (F & Sc & Fs & O & H & X & D).
  repeat split; try assumption; try apply Sc; try exact I.
  - vm_compute; discriminate.
  - constructor; assumption.
  - lia.
Qed.

Lemma zlen_nil_try : zlen (@nil tryctx) <= MaxTryNestingDepth.
Proof. vm_compute; discriminate. Qed.

Lemma clear_slot_ok sl hr : heap_ok (fst hr) -> heap_ok (fst (clear_slot sl hr)).
Proof. intros H. destruct sl; simpl; [apply ref_remove_wl_ok|]; assumption. Qed.

Lemma unload_ok b s :
  state_ok s ->
  match unload b s with
  | UNext s' => state_ok s'
  | ULast s' => state_ok s'
  | UFault => True
  end.
Proof.
  intros K. pose proof (unload_ctl b s) as C. revert C. unfold unload.
  destruct K as ((L & A & T) & (St & Es) & Fs & O & H & X & D).
  destruct (s_frames s) as [|f' fs] eqn:Ef.
  - destruct (s_outer s) as [|[sc' [f' fs']] o'] eqn:Eo.
    + intros (_ & Dp & _). repeat split; try assumption; try exact I; try apply Forall_nil.
      * apply zlen_nil_try.
      * repeat apply clear_slot_ok. assumption.
      * rewrite Dp. assumption.
    + inv O. destruct H2 as ((St' & Es') & F' & Fs'). simpl in *.
      match goal with |- match (match ?x with _ => _ end) with _ => _ end -> _ => destruct x as [es'|] eqn:Ees end; [|trivial].
      intros (_ & Dp). repeat split; try assumption; try apply F'.
      * simpl. revert Ees. repeat case_if; intros Ees; inv Ees; try assumption. apply Forall_app; split; assumption.
      * case_if.
        -- match goal with |- heap_ok (s_heap ?st) => change (s_heap st) with (fst (clear_slot (Some (sc_es (s_sc s)))
             (clear_slot (sc_static (s_sc s)) (clear_slot (f_args (s_fr s)) (clear_slot (f_local (s_fr s)) (s_heap s, s_refs s)))))) end.
           repeat apply clear_slot_ok. assumption.
        -- repeat apply clear_slot_ok. assumption.
      * lia.
  - inv Fs. intros (_ & Dp). repeat split; try assumption; try apply H2.
    + repeat apply clear_slot_ok. assumption.
    + lia.
Qed.

Lemma trim_try_len ts : zlen (trim_try ts) <= zlen ts.
Proof.
  induction ts as [|t ts IH]; simpl; [lia|]. rewrite zlen_cons'.
  destruct (t_state t); try case_if; rewrite ?zlen_cons'; lia.
Qed.

Lemma unwind_ok fuel : forall s s', state_ok s -> unwind fuel s = Some s' -> state_ok s'.
Proof.
  induction fuel as [|f IH]; intros s s' K; simpl; [discriminate|].
  pose proof (trim_try_len (f_try (s_fr s))) as TL.
  assert (T : zlen (f_try (s_fr s)) <= MaxTryNestingDepth) by apply K.
  destruct (trim_try (f_try (s_fr s))) as [|t ts] eqn:Et.
  - pose proof (unload_ok false (set_try s []) (set_try_ok _ _ K zlen_nil_try)) as U.
    destruct (unload false (set_try s [])); try discriminate. apply IH; assumption.
  - rewrite zlen_cons' in TL.
    assert (K1 : forall st, state_ok (set_try s (mkTry (t_catch t) (t_finally t) (t_end t) st :: ts))).
    { intros st. apply set_try_ok; [assumption|]. rewrite zlen_cons'. lia. }
    destruct (t_state t), (has_catch t), (s_exc s) eqn:Ex; intros E; try (eapply jump_ok'; [|exact E]; apply K1).
    eapply jump_ok'; [|exact E]. apply set_exc_ok; [|exact I]. apply unview_ok; [apply K1|].
    apply push_ok; [|apply view_ok, K1].
    destruct K as (_ & _ & _ & _ & _ & X & _). rewrite Ex in X. exact X.
Qed.

Lemma throw_ok e s s' : state_ok s -> item_ok e -> throw e s = Some s' -> state_ok s'.
Proof. intros K He. unfold throw. apply unwind_ok. apply set_exc_ok; assumption. Qed.

(* ---------- decoding: operands are never longer than MaxItemSize ---------- *)
Lemma take_length n : forall l a r, take n l = Some (a, r) -> length a = n.
Proof.
  induction n as [|n IH]; intros l a r; simpl; [intros E; inv E; reflexivity|].
  destruct l; [discriminate|]. destruct (take n l) as [[a' r']|] eqn:E; [|discriminate].
  intros X; inv X. simpl. f_equal. eapply IH; eauto.
Qed.
Lemma decode_param_ok prog ip op p next : decode prog ip = DecOk op p next -> param_ok p.
Proof.
  unfold decode, param_ok. case_if; [discriminate|].
  destruct (skipn (Z.to_nat ip) prog) as [|b rest]; [discriminate|].
  destruct (opcode_of_byte b) as [o|]; [|discriminate].
  destruct (operand_of o) as [n|k] eqn:Eo.
  - destruct (take n rest) as [[a r]|] eqn:Et; [|discriminate]. intros E; inv E.
    apply take_length in Et. unfold zlen. rewrite Et.
    assert (n <= 32)%nat by (destruct op; simpl in Eo; inv Eo; lia). unfold MaxItemSize. lia.
  - destruct (take k rest) as [[lp rest']|]; [|discriminate]. case_if; [discriminate|].
    destruct (take (Z.to_nat (from_le lp)) rest') as [[a r]|] eqn:Et; [|discriminate]. intros E; inv E.
    apply take_length in Et. unfold zlen. rewrite Et. unfold MaxItemSize in *. lia.
Qed.

(* ---------- one instruction ---------- *)
Definition xres_ok (r : xres) : Prop :=
  match r with XNext s' => state_ok s' | XHalt s' => state_ok s' | XFault => True end.

Lemma xopt_ok o : (forall s', o = Some s' -> state_ok s') -> xres_ok (xopt o).
Proof. destruct o; simpl; auto. Qed.

Lemma do_ret_ok s : state_ok s -> xres_ok (do_ret s).
Proof. intros K. unfold do_ret. pose proof (unload_ok true s K). destruct (unload true s); simpl; auto. Qed.

(* a SYSCALL / CALLT handler that keeps the limits (e.g. loaders that check the invocation stack size) *)
Definition sys_lim_ok (sys : syshandler) : Prop := forall op p s s', state_ok s -> sys op p s = Some s' -> state_ok s'.
Lemma no_sys_lim_ok : sys_lim_ok no_sys.
Proof. intros op p s s' _ E. discriminate. Qed.

Lemma exec_op_ok_sys sys cip op p s :
  sys_lim_ok sys -> state_ok s -> param_ok p -> pusha_ok (mkEnv cip (prog_len s) (sc_sid (s_sc s))) op p ->
  xres_ok (exec_op sys cip op p s).
Proof.
  intros SO K P PA.
  assert (DD : xres_ok (match exec_data (mkEnv cip (prog_len s) (sc_sid (s_sc s))) op p (view s) with
               | DOk d => XNext (unview s d) | DThrow e d => xopt (throw e (unview s d)) | DFault => XFault end)).
  { pose proof (exec_data_ok (mkEnv cip (prog_len s) (sc_sid (s_sc s))) op p (view s) (view_ok _ K) P PA) as R.
    destruct (exec_data _ op p (view s)) as [d|e d|]; simpl in R; [apply unview_ok; assumption| |exact I].
    destruct R. apply xopt_ok. intros s' E. eapply throw_ok; [| |exact E]; [apply unview_ok|]; assumption. }
  assert (JC : xres_ok (match jump_offset cip (prog_len s) p with
                      | None => XFault
                      | Some off => match jump_cond op (view s) with
                                    | None => XFault
                                    | Some (c, d) => let s0 := unview s d in if c then xopt (jump s0 off) else XNext s0
                                    end end)).
  { destruct (jump_offset cip (prog_len s) p); [|exact I].
    destruct (jump_cond op (view s)) as [[c d]|] eqn:E; [|exact I]. cbv zeta.
    apply jump_cond_ok in E; [|apply view_ok; assumption].
    destruct c; [apply xopt_ok; intros s' J; eapply jump_ok'; [|exact J]|]; apply unview_ok; assumption. }
  destruct op; try exact DD; try exact JC; unfold exec_op.
  - (* CALL *) destruct (jump_offset cip (prog_len s) p); [|exact I].
    apply xopt_ok. intros s' E. eapply call_ok; eauto.
  - (* CALLL *) destruct (jump_offset cip (prog_len s) p); [|exact I].
    apply xopt_ok. intros s' E. eapply call_ok; eauto.
  - (* CALLA *) destruct (pop (view s)) as [[[] d]|] eqn:E; try exact I.
    case_if; [|exact I]. apply xopt_ok. intros s' C. eapply call_ok; [|exact C].
    apply unview_ok; [assumption|]. eapply pop_ok; [|exact E]. apply view_ok; assumption.
  - (* CALLT *) apply xopt_ok. intros s' E. eapply SO; eauto.
  - (* TRY *) destruct (try_params TRY p) as [cp fp].
    destruct (MaxTryNestingDepth <=? zlen (f_try (s_fr s))) eqn:C; [exact I|]. unfold xres_ok. peel.
    apply set_try_ok; [assumption|]. rewrite zlen_cons'. lia.
  - (* TRYL *) destruct (try_params TRYL p) as [cp fp].
    destruct (MaxTryNestingDepth <=? zlen (f_try (s_fr s))) eqn:C; [exact I|]. unfold xres_ok. peel.
    apply set_try_ok; [assumption|]. rewrite zlen_cons'. lia.
  - (* ENDTRY *) assert (T : zlen (f_try (s_fr s)) <= MaxTryNestingDepth) by apply K.
    destruct (f_try (s_fr s)) as [|t ts]; [exact I|]. rewrite zlen_cons' in T.
    destruct (t_state t); try exact I; (destruct (jump_offset cip (prog_len s) p); [|exact I]); case_if;
      apply xopt_ok; intros s' J; (eapply jump_ok'; [|exact J]); apply set_try_ok; try assumption;
      rewrite ?zlen_cons'; lia.
  - (* ENDTRYL *) assert (T : zlen (f_try (s_fr s)) <= MaxTryNestingDepth) by apply K.
    destruct (f_try (s_fr s)) as [|t ts]; [exact I|]. rewrite zlen_cons' in T.
    destruct (t_state t); try exact I; (destruct (jump_offset cip (prog_len s) p); [|exact I]); case_if;
      apply xopt_ok; intros s' J; (eapply jump_ok'; [|exact J]); apply set_try_ok; try assumption;
      rewrite ?zlen_cons'; lia.
  - (* ENDFINALLY *) destruct (s_exc s) eqn:Ex.
    + apply xopt_ok. intros s' E. refine (throw_ok _ _ _ K _ E).
      destruct K as (_ & _ & _ & _ & _ & X & _). rewrite Ex in X. exact X.
    + assert (T : zlen (f_try (s_fr s)) <= MaxTryNestingDepth) by apply K.
      destruct (f_try (s_fr s)) as [|t ts]; [exact I|]. rewrite zlen_cons' in T.
      apply xopt_ok; intros s' J. eapply jump_ok'; [|exact J]. apply set_try_ok; [assumption|lia].
  - (* RET *) apply do_ret_ok; assumption.
  - (* SYSCALL *) apply xopt_ok. intros s' E. eapply SO; eauto.
Qed.
Lemma exec_op_ok cip op p s :
  state_ok s -> param_ok p -> pusha_ok (mkEnv cip (prog_len s) (sc_sid (s_sc s))) op p ->
  xres_ok (exec_op no_sys cip op p s).
Proof. apply exec_op_ok_sys. exact no_sys_lim_ok. Qed.

Lemma set_gas_ip_ok s g n : state_ok s -> state_ok (set_ip (set_gas s g) n).
Proof. intros ((L & A & T) & Sc & Fs & O & H & X & D). repeat split; try assumption; apply Sc. Qed.

Definition within_limits (s : state) : Prop := state_ok s /\ s_refs s <= MaxStackSize.

(* the pointer condition has to hold for the target of the PUSHA about to be executed, if any *)
Definition pusha_here (s : state) : Prop :=
  forall op p next, decode (sc_prog (s_sc s)) (f_ip (s_fr s)) = DecOk op p next ->
  pusha_ok (mkEnv (f_ip (s_fr s)) (prog_len s) (sc_sid (s_sc s))) op p.

Theorem step_with_limits_gen sys s :
  sys_lim_ok sys -> state_ok s -> pusha_here s ->
  match step_with sys s with
  | Running s' => within_limits s'
  | Halted s' => within_limits s'
  | Faulted _ => True
  end.
Proof.
  intros SO K PH. unfold step_with.
  assert (P : forall g r, xres_ok r ->
              match post g r with Running s' => within_limits s' | Halted s' => within_limits s' | Faulted _ => True end).
  { intros g r R. destruct r; simpl; try exact I; case_if; try exact I; split; try assumption; lia. }
  destruct (decode (sc_prog (s_sc s)) (f_ip (s_fr s))) as [| |op p next] eqn:D; [|exact I|].
  - apply P. apply do_ret_ok; assumption.
  - case_if; [exact I|]. apply P. apply exec_op_ok_sys; [exact SO|apply set_gas_ip_ok; assumption| |].
    + eapply decode_param_ok; eauto.
    + exact (PH op p next D).
Qed.
Theorem step_limits_gen s :
  state_ok s -> pusha_here s ->
  match step s with
  | Running s' => within_limits s'
  | Halted s' => within_limits s'
  | Faulted _ => True
  end.
Proof. apply step_with_limits_gen. exact no_sys_lim_ok. Qed.

Lemma init_state_ok prog sid base limit : state_ok (init_state prog sid base limit).
Proof.
  repeat split; simpl; try constructor; try exact I; vm_compute; discriminate.
Qed.

End WithPtr.

(* ---------- the size limits proper: nothing is asked of Pointer items ---------- *)
#[local] Instance any_ptr : PtrSpec := fun _ _ => True.
Definition size_ok : item -> Prop := @item_ok any_ptr.
Definition heap_size_ok : heap -> Prop := @heap_ok any_ptr.
Definition limits_ok : state -> Prop := @state_ok any_ptr.

Theorem step_limits s :
  limits_ok s ->
  match step s with
  | Running s' => limits_ok s' /\ s_refs s' <= MaxStackSize
  | Halted s' => limits_ok s' /\ s_refs s' <= MaxStackSize
  | Faulted _ => True
  end.
Proof. intros K. apply (step_limits_gen s K). intros op p next _ off _ _. exact I. Qed.

(* along any execution *)
Theorem run_limits : forall n s,
  limits_ok s ->
  match run n s with
  | Running s' => limits_ok s'
  | Halted s' => limits_ok s' /\ s_refs s' <= MaxStackSize
  | Faulted _ => True
  end.
Proof.
  induction n as [|n IH]; intros s K; simpl; [assumption|].
  pose proof (step_limits s K) as S. destruct (step s) as [s1|s1|g]; [|assumption|exact I].
  apply IH. apply S.
Qed.

Theorem run_limits_init n prog sid base limit :
  match run n (init_state prog sid base limit) with
  | Running s' => limits_ok s'
  | Halted s' => limits_ok s' /\ s_refs s' <= MaxStackSize
  | Faulted _ => True
  end.
Proof. apply run_limits. apply init_state_ok. Qed.

(* what limits_ok says, spelled out on the executing context *)
Theorem limits_ok_meaning s : limits_ok s ->
  depth s <= MaxInvocationStackSize /\ zlen (f_try (s_fr s)) <= MaxTryNestingDepth /\
  Forall size_ok (final_stack s) /\ heap_size_ok (s_heap s).
Proof. intros (F & Sc & _ & _ & H & _ & D). repeat split; try assumption; [apply F|apply Sc]. Qed.

(* size_ok / heap_size_ok unfolded *)
Lemma size_ok_int z : size_ok (IInt z) <-> - 2 ^ 255 <= z < 2 ^ 255.
Proof. unfold size_ok; simpl. unfold in_int256. rewrite andb_true_iff, Z.leb_le, Z.ltb_lt. tauto. Qed.
Lemma size_ok_bytes bs : size_ok (IBytes bs) <-> zlen bs <= MaxItemSize.
Proof. reflexivity. Qed.
Lemma heap_size_ok_buf h l bs : heap_size_ok h -> hget h l = Some (CBuf bs) -> zlen bs <= MaxItemSize.
Proof. intros H E. exact (hget_ok h l _ H E). Qed.
