(* Elementary moves on the balance G (VM/RefsInv.v): allocation, edits of a compound's children, manual count
   adjustments - the building blocks of the hand-adjusted sites of vm.go - and the soundness of the counter against
   the walk (reach_from). *)
From NG Require Import VM.Model VM.LimitsData VM.Reach VM.RefsInv.
Open Scope Z_scope.

(* ---------- the invariant with well-formedness ---------- *)
Record GI (h : heap) (refs : Z) (A X : list item) : Prop := mkGI {
  gi_g : G h refs A X;
  gi_wf : wfh h;
  gi_vx : Forall (valid h) X;
  gi_va : Forall (valid h) A
}.

Lemma valid_prim h it : item_cloc it = None -> valid h it.
Proof. unfold valid. intros ->. exact I. Qed.
Lemma valid_lt h it l : valid h it -> item_cloc it = Some l -> (l < length h)%nat.
Proof.
  unfold valid. intros V E. rewrite E in V. destruct V as (c & Ec & _). apply nth_error_Some. unfold hget in Ec. congruence.
Qed.
Lemma hit_fresh h it : valid h it -> hit (length h) it = 0.
Proof.
  intros V. unfold hit. destruct (item_cloc it) as [l|] eqn:E; [|reflexivity].
  pose proof (valid_lt _ _ _ V E). destruct (Nat.eqb l (length h)) eqn:Q; [apply Nat.eqb_eq in Q; lia|reflexivity].
Qed.
Lemma occ_fresh h its : Forall (valid h) its -> occ (length h) its = 0.
Proof. induction 1; simpl; [reflexivity|]. rewrite hit_fresh by assumption. lia. Qed.
Lemma live_occ_fresh h : wfh h -> live_occ h (length h) = 0.
Proof.
  intros W. unfold live_occ, wfh in *.
  assert (K : forall h0, Forall (fun c => Forall (valid h) (cell_children c)) h0 -> sumf (kocc (length h)) h0 = 0).
  { induction h0 as [|c h0 IH]; intros F; simpl; [reflexivity|]. inv F. rewrite IH by assumption.
    unfold kocc. case_if; [rewrite occ_fresh by assumption|]; lia. }
  apply K. assumption.
Qed.
Lemma hget_app_old h t l : (l < length h)%nat -> hget (h ++ t) l = hget h l.
Proof. intros L. unfold hget. apply nth_error_app1. assumption. Qed.
Lemma hget_app_new h c : hget (h ++ [c]) (length h) = Some c.
Proof. unfold hget. rewrite nth_error_app2 by lia. rewrite Nat.sub_diag. reflexivity. Qed.
Lemma rc_of_app h c l : rc_of (h ++ [c]) l = if Nat.eqb l (length h) then cell_rc c else rc_of h l.
Proof.
  unfold rc_of. destruct (Nat.eqb l (length h)) eqn:Q.
  - apply Nat.eqb_eq in Q. subst. rewrite hget_app_new. reflexivity.
  - apply Nat.eqb_neq in Q. destruct (Nat.lt_ge_cases l (length h)) as [L|L].
    + rewrite hget_app_old by assumption. reflexivity.
    + unfold hget. rewrite (proj2 (nth_error_None _ _)); [|rewrite app_length; simpl; lia].
      rewrite (proj2 (nth_error_None _ _)); [reflexivity|lia].
Qed.
Lemma live_occ_app h c l : live_occ (h ++ [c]) l = live_occ h l + kocc l c.
Proof. unfold live_occ. rewrite sumf_app. simpl. lia. Qed.
Lemma live_size_app h c : live_size (h ++ [c]) = live_size h + ksize c.
Proof. unfold live_size. rewrite sumf_app. simpl. lia. Qed.
Lemma rc_nonneg_app h c : rc_nonneg h -> 0 <= cell_rc c -> rc_nonneg (h ++ [c]).
Proof. intros. apply Forall_app; split; [assumption|repeat constructor; assumption]. Qed.
Lemma wfh_app h c : wfh h -> Forall (valid h) (cell_children c) -> wfh (h ++ [c]).
Proof.
  intros W V. unfold wfh. apply Forall_app; split.
  - eapply Forall_impl; [|exact W]. intros a. apply Forall_valid_shape. apply same_shape_app.
  - constructor; [|constructor]. eapply Forall_valid_shape; [apply same_shape_app|assumption].
Qed.
Lemma valid_new h c mk : is_comp c -> item_cloc (mk (length h)) = Some (length h) -> valid (h ++ [c]) (mk (length h)).
Proof. intros C E. unfold valid. rewrite E. exists c. split; [apply hget_app_new|assumption]. Qed.
Lemma valid_app h t it : valid h it -> valid (h ++ t) it.
Proof. apply valid_shape. apply same_shape_app. Qed.
Lemma Forall_valid_app h t its : Forall (valid h) its -> Forall (valid (h ++ t)) its.
Proof. apply Forall_valid_shape. apply same_shape_app. Qed.

(* X as a multiset *)
Lemma GI_meq h refs A X A' X' :
  meq A A' -> meq X X' -> Forall (valid h) X' -> Forall (valid h) A' -> GI h refs A X -> GI h refs A' X'.
Proof. intros Ma Mx Vx Va [Hg W _ _]. constructor; try assumption. eapply G_meq; eauto. Qed.

(* ---------- counting a primitive by hand ---------- *)
Lemma G_count_prim h refs A X p : item_cloc p = None -> G h refs (p :: A) X -> G h (refs + 1) A X.
Proof.
  intros E [R O T]. constructor; [assumption| |rewrite zlen_cons' in T; lia].
  intros l. specialize (O l). cbn [occ] in O. rewrite (hit_prim _ _ E) in O. lia.
Qed.
Lemma G_token h refs A X p : item_cloc p = None -> G h refs A X -> G h (refs + 1) A (p :: X).
Proof.
  intros E [R O T]. constructor; [assumption| |rewrite zlen_cons'; lia].
  intros l. specialize (O l). cbn [occ]. rewrite (hit_prim _ _ E). lia.
Qed.
Lemma G_untoken h refs A X p : item_cloc p = None -> G h refs A (p :: X) -> G h (refs - 1) A X.
Proof.
  intros E [R O T]. constructor; [assumption| |rewrite zlen_cons' in T; lia].
  intros l. specialize (O l). cbn [occ] in O. rewrite (hit_prim _ _ E) in O. lia.
Qed.

(* ---------- allocation ---------- *)
(* a compound nobody refers to yet (rc = 0): NEWARRAY0, NEWSTRUCT0, NEWMAP, CONVERT, clones *)
Lemma GI_alloc_dead h refs A X c :
  GI h refs A X -> cell_rc c = 0 -> Forall (valid h) (cell_children c) -> GI (h ++ [c]) refs A X.
Proof.
  intros [[R O T] W Vx Va] Z V.
  assert (Lc : live c = false) by (unfold live; rewrite Z; reflexivity).
  constructor; [constructor| | |].
  - apply rc_nonneg_app; [assumption|lia].
  - intros l. rewrite rc_of_app, live_occ_app. unfold kocc. rewrite Lc.
    destruct (Nat.eqb l (length h)) eqn:Q; [|specialize (O l); lia].
    apply Nat.eqb_eq in Q. subst l. rewrite Z, (occ_fresh _ _ Vx), (occ_fresh _ _ Va), (live_occ_fresh _ W). lia.
  - rewrite live_size_app. unfold ksize. rewrite Lc. lia.
  - apply wfh_app; assumption.
  - apply Forall_valid_app; assumption.
  - apply Forall_valid_app; assumption.
Qed.

(* a compound with rc = 1 whose children were held counted (PACK, PACKSTRUCT, PACKMAP, KEYS/VALUES results), put on
   the stack with one more count *)
Lemma GI_alloc_live_held h refs A X c r :
  GI h refs A (cell_children c ++ X) -> cell_rc c = 1 -> is_comp c -> item_cloc r = Some (length h) ->
  GI (h ++ [c]) (refs + 1) A (r :: X).
Proof.
  intros [[R O T] W Vx Va] Z C Er.
  assert (Lc : live c = true) by (unfold live; rewrite Z; reflexivity).
  apply Forall_app in Vx. destruct Vx as [Vc Vx].
  constructor; [constructor| | |].
  - apply rc_nonneg_app; [assumption|lia].
  - intros l. rewrite rc_of_app, live_occ_app. unfold kocc. rewrite Lc. cbn [occ].
    destruct (Nat.eqb l (length h)) eqn:Q.
    + apply Nat.eqb_eq in Q. subst l. rewrite Z, (hit_self _ _ Er), (occ_fresh _ _ Vx), (occ_fresh _ _ Va),
        (occ_fresh _ _ Vc), (live_occ_fresh _ W). lia.
    + apply Nat.eqb_neq in Q. specialize (O l). rewrite occ_app in O.
      rewrite (hit_other _ _ _ Er) by (intros K; apply Q; auto). lia.
  - rewrite live_size_app, zlen_cons'. unfold ksize. rewrite Lc. rewrite zlen_app in T. lia.
  - apply wfh_app; assumption.
  - constructor; [|apply Forall_valid_app; assumption]. unfold valid. rewrite Er. exists c. split; [apply hget_app_new|assumption].
  - apply Forall_valid_app; assumption.
Qed.

Lemma occ_prims l its : Forall (fun it => item_cloc it = None) its -> occ l its = 0.
Proof. induction 1; simpl; [reflexivity|]. rewrite hit_prim by assumption. lia. Qed.

(* a compound with rc = 1 and only primitive children, counted |children| + 1 (NEWARRAY, NEWARRAY_T, NEWSTRUCT) *)
Lemma GI_alloc_live_prims h refs A X c r :
  GI h refs A X -> cell_rc c = 1 -> is_comp c -> Forall (fun it => item_cloc it = None) (cell_children c) ->
  item_cloc r = Some (length h) ->
  GI (h ++ [c]) (refs + zlen (cell_children c) + 1) A (r :: X).
Proof.
  intros Hgi Z C P Er.
  assert (Vc : Forall (valid h) (cell_children c)).
  { eapply Forall_impl; [|exact P]. intros a. apply valid_prim. }
  assert (Oc : forall l, occ l (cell_children c) = 0) by (intros l; apply occ_prims; assumption).
  apply (GI_alloc_live_held h (refs + zlen (cell_children c)) A X c r); try assumption.
  destruct Hgi as [[R O T] W Vx Va]. constructor; [constructor| | |]; try assumption.
  - intros l. specialize (O l). rewrite occ_app, Oc. lia.
  - rewrite zlen_app. lia.
  - apply Forall_app; split; assumption.
Qed.

(* ---------- editing the children of a compound ---------- *)
Definition set_children (c : cell) (ch : list item) : cell :=
  match c with CSeq rc _ => CSeq rc ch | c => c end.
(* for maps the children are given through the entry list; the lemmas below are stated on cell_children *)

Lemma GI_edit h refs A X l0 c c' add rem :
  GI h refs A X -> hget h l0 = Some c -> is_comp c -> is_comp c' -> cell_rc c' = cell_rc c ->
  (if live c then meq (cell_children c' ++ rem) (cell_children c ++ add) else add = [] /\ rem = []) ->
  Forall (valid h) (cell_children c') -> Forall (valid h) rem ->
  GI (hset h l0 c') refs (add ++ A) (rem ++ X).
Proof.
  intros [[R O T] W Vx Va] E C C' Erc M Vc Vr.
  assert (S : same_shape h (hset h l0 c')) by (eapply same_shape_hset; eauto).
  assert (Lc' : live c' = live c) by (unfold live; rewrite Erc; reflexivity).
  assert (Vadd : Forall (valid h) add).
  { destruct (live c); [|destruct M as [-> _]; constructor].
    destruct M as [Mo _]. pose proof (wfh_children _ _ _ W E) as Vch.
    apply Forall_forall. intros it Hin. unfold valid. destruct (item_cloc it) as [l|] eqn:Ei; [|exact I].
    pose proof (occ_in l add it Hin Ei) as P. specialize (Mo l). rewrite !occ_app in Mo.
    pose proof (occ_nonneg l (cell_children c)).
    (* it occurs in children c' or in rem *)
    assert (Q : 1 <= occ l (cell_children c') + occ l rem) by lia.
    assert (K : forall its, Forall (valid h) its -> 1 <= occ l its -> exists c0, hget h l = Some c0 /\ is_comp c0).
    { induction 1 as [|a its Va' _ IHits]; simpl; [lia|]. intros Hq. unfold hit in Hq.
      destruct (item_cloc a) as [la|] eqn:Ea.
      - destruct (Nat.eqb la l) eqn:Qa.
        + apply Nat.eqb_eq in Qa. subst la. unfold valid in Va'. rewrite Ea in Va'. exact Va'.
        + apply IHits. lia.
      - apply IHits. lia. }
    pose proof (occ_nonneg l (cell_children c')). pose proof (occ_nonneg l rem).
    destruct (Z_le_gt_dec 1 (occ l (cell_children c'))) as [G1|G1]; [exact (K _ Vc G1)|apply (K rem Vr); lia]. }
  constructor; [constructor| | |].
  - apply rc_nonneg_hset; [assumption|]. rewrite Erc. eapply rc_nonneg_get; eauto.
  - intros l. specialize (O l). unfold live_occ. rewrite (sumf_hset _ _ _ _ _ E). fold (live_occ h l).
    unfold kocc. rewrite Lc'. rewrite !occ_app.
    assert (Rl : rc_of (hset h l0 c') l = rc_of h l).
    { destruct (Nat.eq_dec l0 l) as [->|N]; [rewrite (rc_of_hset_same _ _ _ _ E); unfold rc_of; rewrite E; assumption|
        apply rc_of_hset_other; assumption]. }
    rewrite Rl. destruct (live c).
    + destruct M as [Mo _]. specialize (Mo l). rewrite !occ_app in Mo. lia.
    + destruct M as [-> ->]. cbn [occ]. lia.
  - unfold live_size. rewrite (sumf_hset _ _ _ _ _ E). fold (live_size h). unfold ksize. rewrite Lc'. rewrite !zlen_app.
    destruct (live c).
    + destruct M as [_ Ml]. rewrite !zlen_app in Ml. lia.
    + destruct M as [-> ->]. rewrite zlen_nil. lia.
  - (* wfh *)
    unfold wfh in *.
    assert (K : forall h0 j, Forall (fun c0 => Forall (valid h) (cell_children c0)) h0 ->
                Forall (fun c0 => Forall (valid (hset h l0 c')) (cell_children c0)) (hset h0 j c')).
    { induction h0 as [|x h0 IH]; intros [|j] F; simpl; inv F; constructor;
        try (eapply Forall_valid_shape; [exact S|assumption]); auto.
      eapply Forall_impl; [|exact H2]. intros a. apply Forall_valid_shape. exact S. }
    apply K. assumption.
  - apply Forall_app; split; eapply Forall_valid_shape; eauto.
  - apply Forall_app; split; eapply Forall_valid_shape; eauto.
Qed.

(* ---------- one decrement of a compound's count by hand (UNPACK, VALUES): the first iteration of Remove without
   descending; if the count reaches 0 the children are now held ---------- *)
Lemma GI_dec_rc h refs X it l0 c :
  GI h refs [] (it :: X) -> item_cloc it = Some l0 -> hget h l0 = Some c ->
  1 <= cell_rc c /\ is_comp c /\
  GI (hset h l0 (cell_set_rc c (cell_rc c - 1))) (refs - 1) []
     (if cell_rc c - 1 =? 0 then cell_children c ++ X else X).
Proof.
  intros [[R O T] W Vx Va] Ecl Ec. inv Vx. rename H1 into Vit. rename H2 into Vx.
  pose proof (O l0) as O0. cbn [occ] in O0. rewrite (hit_self _ _ Ecl) in O0.
  pose proof (occ_nonneg l0 X). pose proof (live_occ_nonneg h l0). unfold rc_of in O0. rewrite Ec in O0.
  assert (Rp : 1 <= cell_rc c) by lia.
  assert (Cc : is_comp c) by (apply rc_pos_comp; lia).
  assert (Lc : live c = true) by (unfold live; destruct (cell_rc c =? 0) eqn:Q; [lia|reflexivity]).
  split; [assumption|]. split; [assumption|].
  set (h1 := hset h l0 (cell_set_rc c (cell_rc c - 1))).
  assert (S1 : same_shape h h1) by (eapply same_shape_hset; eauto; apply set_rc_comp).
  assert (Vch : Forall (valid h) (cell_children c)) by (eapply wfh_children; eauto).
  constructor; [constructor| | |].
  - apply rc_nonneg_hset; [assumption|]. rewrite set_rc_rc by assumption. lia.
  - intros l. specialize (O l). cbn [occ] in *. unfold h1. rewrite (live_occ_set_rc _ _ _ _ _ Ec Cc), Lc.
    destruct (Nat.eq_dec l0 l) as [->|N].
    + rewrite (rc_of_hset_same _ _ _ _ Ec), set_rc_rc by assumption. rewrite (hit_self _ _ Ecl) in O.
      unfold rc_of in O. rewrite Ec in O. destruct (cell_rc c - 1 =? 0); rewrite ?occ_app; lia.
    + rewrite rc_of_hset_other by assumption. rewrite (hit_other _ _ _ Ecl N) in O.
      destruct (cell_rc c - 1 =? 0); rewrite ?occ_app; lia.
  - unfold h1. rewrite (live_size_set_rc _ _ _ _ Ec Cc), Lc. rewrite zlen_cons', zlen_nil in *.
    destruct (cell_rc c - 1 =? 0); rewrite ?zlen_app; lia.
  - apply wfh_set_rc; assumption.
  - destruct (cell_rc c - 1 =? 0); [apply Forall_app; split|]; eapply Forall_valid_shape; eauto.
  - constructor.
Qed.

(* ---------- Add / Remove on the invariant ---------- *)
Lemma GI_add h refs it A X :
  GI h refs (it :: A) X -> GI (fst (ref_add h refs it)) (snd (ref_add h refs it)) A X /\ post_ok h (fst (ref_add h refs it)).
Proof.
  intros [Hg W Vx Va]. inv Va. destruct (ref_add_G h refs it A X Hg W H1) as [K P]. split; [|exact P].
  destruct P as (Pw & Ps & Pl). constructor; [assumption|auto| |]; eapply Forall_valid_shape; eauto.
Qed.
Lemma GI_add_list h refs w A X :
  GI h refs (w ++ A) X ->
  GI (fst (ref_add_list h refs w)) (snd (ref_add_list h refs w)) A X /\ post_ok h (fst (ref_add_list h refs w)).
Proof.
  intros [Hg W Vx Va]. apply Forall_app in Va. destruct Va as [Vw Va].
  destruct (ref_add_list_G h refs w A X Hg W Vw) as [K P]. split; [|exact P].
  destruct P as (Pw & Ps & Pl). constructor; [assumption|auto| |]; eapply Forall_valid_shape; eauto.
Qed.
Lemma GI_remove h refs it X :
  GI h refs [] (it :: X) -> GI (fst (ref_remove h refs it)) (snd (ref_remove h refs it)) [] X /\ post_ok h (fst (ref_remove h refs it)).
Proof.
  intros [Hg W Vx Va]. inv Vx. destruct (ref_remove_G h refs it X Hg) as [K P]. split; [|exact P].
  destruct P as (Pw & Ps & Pl). constructor; [assumption|auto| |constructor]. eapply Forall_valid_shape; eauto.
Qed.
Lemma GI_remove_list h refs w X :
  GI h refs [] (w ++ X) ->
  GI (fst (ref_remove_list h refs w)) (snd (ref_remove_list h refs w)) [] X /\ post_ok h (fst (ref_remove_list h refs w)).
Proof.
  intros [Hg W Vx Va]. apply Forall_app in Vx. destruct Vx as [Vw Vx].
  destruct (ref_remove_list_G h refs w X Hg) as [K P]. split; [|exact P].
  destruct P as (Pw & Ps & Pl). constructor; [assumption|auto| |constructor]. eapply Forall_valid_shape; eauto.
Qed.

(* ---------- soundness: the walk never finds more than the counter says ---------- *)
Lemma sumf_ge_term f : (forall c, 0 <= f c) -> forall h i c, hget h i = Some c -> f c <= sumf f h.
Proof.
  intros P. induction h as [|x h IH]; intros [|i] c E; simpl in *; try discriminate.
  - inv E. pose proof (sumf_nonneg f h P). lia.
  - specialize (IH i c E). specialize (P x). lia.
Qed.

Definition live_at (h : heap) (l : loc) : Prop := exists c, hget h l = Some c /\ live c = true.

Lemma G_root_live h refs X it l : G h refs [] X -> In it X -> item_cloc it = Some l -> live_at h l.
Proof.
  intros [R O T] Hin E. specialize (O l). cbn [occ] in O. pose proof (occ_in _ _ _ Hin E). pose proof (live_occ_nonneg h l).
  unfold rc_of in O. destruct (hget h l) as [c|] eqn:Ec; [|lia]. exists c. split; [first [exact Ec|reflexivity]|].
  unfold live. destruct (cell_rc c =? 0) eqn:Q; [lia|reflexivity].
Qed.
Lemma G_child_live h refs X l0 c it l :
  G h refs [] X -> hget h l0 = Some c -> live c = true -> In it (cell_children c) -> item_cloc it = Some l -> live_at h l.
Proof.
  intros [R O T] Ec Lc Hin E. specialize (O l). cbn [occ] in O. pose proof (occ_nonneg l X).
  pose proof (sumf_ge_term (kocc l) (kocc_nonneg l) h l0 c Ec) as K. fold (live_occ h l) in K.
  unfold kocc in K. rewrite Lc in K. pose proof (occ_in _ _ _ Hin E).
  unfold rc_of in O. destruct (hget h l) as [c1|] eqn:Ec1; [|lia]. exists c1. split; [first [exact Ec1|reflexivity]|].
  unfold live. destruct (cell_rc c1 =? 0) eqn:Q; [lia|reflexivity].
Qed.

Lemma mem_loc_In l seen : mem_loc l seen = true <-> In l seen.
Proof.
  induction seen as [|x s IH]; simpl; [split; [discriminate|tauto]|].
  rewrite orb_true_iff, Nat.eqb_eq, IH. tauto.
Qed.

Lemma reach_wl_bound h refs X (Hg : G h refs [] X) : forall fuel g seen acc w,
  (forall l, ~ In l seen -> hget g l = hget h l) ->
  (forall it l, In it w -> item_cloc it = Some l -> live_at h l) ->
  acc + live_size g <= live_size h ->
  fst (reach_wl fuel h seen acc w) <= live_size h.
Proof.
  induction fuel as [|f IH]; intros g seen acc w U Wl B; simpl.
  - pose proof (live_size_nonneg g). lia.
  - destruct w as [|it w]; [simpl; pose proof (live_size_nonneg g); lia|].
    destruct (item_cloc it) as [l|] eqn:E.
    + destruct (mem_loc l seen) eqn:M.
      * apply (IH g); try assumption. intros a la Ha. apply Wl. right. assumption.
      * destruct (Wl it l (or_introl eq_refl) E) as (c & Ec & Lc). rewrite Ec.
        assert (Nin : ~ In l seen) by (intros K; apply mem_loc_In in K; congruence).
        assert (Eg : hget g l = Some c) by (rewrite U; assumption).
        assert (Cc : is_comp c).
        { apply rc_pos_comp. unfold live in Lc. destruct (cell_rc c =? 0) eqn:Q; [discriminate|lia]. }
        apply (IH (hset g l (cell_set_rc c 0))).
        -- intros l' N'. simpl in N'. rewrite hget_hset_other by tauto. apply U. tauto.
        -- intros a la Ha Ea. apply in_app_or in Ha. destruct Ha as [Ha|Ha]; [|eapply Wl; [right|]; eauto].
           eapply G_child_live; eauto.
        -- rewrite (live_size_set_rc _ _ _ _ Eg Cc), Lc. simpl. lia.
    + apply (IH g); try assumption. intros a la Ha. apply Wl. right. assumption.
Qed.

Theorem G_sound h refs X R :
  G h refs [] X -> (forall it, In it R -> In it X) -> zlen R <= zlen X -> reach_from h R <= refs.
Proof.
  intros Hg Sub Len. unfold reach_from.
  pose proof (reach_wl_bound h refs X Hg (ref_fuel h R) h [] 0 R (fun _ _ => eq_refl)) as K.
  assert (Wl : forall it l, In it R -> item_cloc it = Some l -> live_at h l).
  { intros it l Hin E. eapply G_root_live; eauto. }
  specialize (K Wl ltac:(lia)). destruct Hg as [_ _ T]. rewrite zlen_nil in T. lia.
Qed.

(* ---------- the counter procedures change nothing but counts ---------- *)
Definition rc_only (h h' : heap) : Prop :=
  length h' = length h /\ forall l c, hget h l = Some c -> exists r, hget h' l = Some (cell_set_rc c r).
Lemma set_rc_twice c r r' : cell_set_rc (cell_set_rc c r) r' = cell_set_rc c r'.
Proof. destruct c; reflexivity. Qed.
Lemma set_rc_id c : cell_set_rc c (cell_rc c) = c.
Proof. destruct c; reflexivity. Qed.
Lemma rc_only_refl h : rc_only h h.
Proof. split; [reflexivity|]. intros l c E. exists (cell_rc c). rewrite set_rc_id. assumption. Qed.
Lemma rc_only_trans a b c : rc_only a b -> rc_only b c -> rc_only a c.
Proof.
  intros [L1 H1] [L2 H2]. split; [congruence|]. intros l x E. destruct (H1 l x E) as (r & E1).
  destruct (H2 l _ E1) as (r' & E2). exists r'. rewrite set_rc_twice in E2. assumption.
Qed.
Lemma rc_only_hset h i c r : hget h i = Some c -> rc_only h (hset h i (cell_set_rc c r)).
Proof.
  intros E. split; [apply hset_length|]. intros l x Ex. destruct (Nat.eq_dec i l) as [->|N].
  - rewrite E in Ex. inv Ex. exists r. eapply hget_hset_same; eauto.
  - exists (cell_rc x). rewrite hget_hset_other, set_rc_id by assumption. assumption.
Qed.
Lemma ref_add_wl_rc_only : forall fuel h refs w, rc_only h (fst (ref_add_wl fuel h refs w)).
Proof.
  induction fuel as [|f IH]; intros h refs w; simpl; [apply rc_only_refl|].
  destruct w as [|it w]; [apply rc_only_refl|]. destruct (item_cloc it) as [l|]; [|apply IH].
  destruct (hget h l) as [c|] eqn:E; [|apply IH].
  case_if; (eapply rc_only_trans; [apply rc_only_hset; eassumption|apply IH]).
Qed.
Lemma ref_remove_wl_rc_only : forall fuel h refs w, rc_only h (fst (ref_remove_wl fuel h refs w)).
Proof.
  induction fuel as [|f IH]; intros h refs w; simpl; [apply rc_only_refl|].
  destruct w as [|it w]; [apply rc_only_refl|]. destruct (item_cloc it) as [l|]; [|apply IH].
  destruct (hget h l) as [c|] eqn:E; [|apply IH]. case_if; [apply IH|].
  case_if; (eapply rc_only_trans; [apply rc_only_hset; eassumption|apply IH]).
Qed.
Lemma ref_add_rc_only h r it : rc_only h (fst (ref_add h r it)).
Proof. unfold ref_add. destruct (item_cloc it); [apply ref_add_wl_rc_only|apply rc_only_refl]. Qed.
Lemma ref_remove_rc_only h r it : rc_only h (fst (ref_remove h r it)).
Proof. unfold ref_remove. destruct (item_cloc it); [apply ref_remove_wl_rc_only|apply rc_only_refl]. Qed.

(* keys of maps are primitive values *)
Definition cell_kp (c : cell) : Prop :=
  match c with CMap _ es => Forall (fun kv => item_cloc (fst kv) = None) es | _ => True end.
Definition keys_prim (h : heap) : Prop := Forall cell_kp h.
Lemma cell_kp_set_rc c r : cell_kp c -> cell_kp (cell_set_rc c r).
Proof. destruct c; simpl; auto. Qed.
Lemma keys_prim_rc_only h h' : rc_only h h' -> keys_prim h -> keys_prim h'.
Proof.
  intros [L H] K. unfold keys_prim in *. apply Forall_forall. intros c' Hin.
  apply In_nth_error in Hin. destruct Hin as [l El].
  assert (Ll : (l < length h)%nat) by (rewrite <- L; apply nth_error_Some; congruence).
  destruct (nth_error h l) as [c|] eqn:Ec; [|apply nth_error_None in Ec; lia].
  destruct (H l c Ec) as (r & E'). unfold hget in E'. rewrite El in E'. inv E'.
  apply cell_kp_set_rc. eapply Forall_nth_error; eauto.
Qed.
Lemma keys_prim_get h l c : keys_prim h -> hget h l = Some c -> cell_kp c.
Proof. intros K E. eapply Forall_nth_error; eauto. Qed.
Lemma keys_prim_hset h l c : keys_prim h -> cell_kp c -> keys_prim (hset h l c).
Proof.
  unfold keys_prim. revert l; induction h as [|x h IH]; intros [|l] K C; simpl; inv K; constructor; auto.
Qed.
Lemma keys_prim_app h c : keys_prim h -> cell_kp c -> keys_prim (h ++ [c]).
Proof. intros. apply Forall_app; split; [assumption|repeat constructor; assumption]. Qed.
