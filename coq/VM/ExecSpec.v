(* Instruction-level statements (C13): the stack effect of the unary / binary integer instructions, the link
   between each arithmetic opcode and its pure function, determinism. *)
From NG Require Import VM.Model VM.ArithProofs.
Open Scope Z_scope.

Lemma pop_int_prim d z es :
  d_es d = IInt z :: es ->
  pop_int d = Some (z, mkD es (d_local d) (d_args d) (d_static d) (d_heap d) (d_refs d - 1)).
Proof. intros E. unfold pop_int, pop, pop_noref. rewrite E. reflexivity. Qed.

(* a binary integer instruction on two integers: both operands are replaced by the range-checked result, the
   item counter goes down by one, nothing else changes *)
Theorem bin_int_effect f d a b es :
  d_es d = IInt b :: IInt a :: es ->
  bin_int f d =
    match f a b with
    | Some r => match mk_int256 r with
                | Some r' => Some (DOk (mkD (IInt r' :: es) (d_local d) (d_args d) (d_static d) (d_heap d) (d_refs d - 1)))
                | None => None
                end
    | None => None
    end.
Proof.
  intros E. unfold bin_int. rewrite (pop_int_prim d b (IInt a :: es) E).
  rewrite (pop_int_prim (mkD (IInt a :: es) (d_local d) (d_args d) (d_static d) (d_heap d) (d_refs d - 1)) a es eq_refl).
  cbn [d_local d_args d_static d_heap d_refs d_es].
  destruct (f a b) as [r|]; [|reflexivity]. unfold okd, push_int. destruct (mk_int256 r) as [r'|]; [|reflexivity].
  unfold ok, push, push_noref, d_add, set_es, ref_add, set_mem; cbn.
  replace (d_refs d - 1 - 1 + 1) with (d_refs d - 1) by lia. reflexivity.
Qed.

Theorem un_int_effect f d a es :
  d_es d = IInt a :: es ->
  un_int f d =
    match f a with
    | Some r => match mk_int256 r with
                | Some r' => Some (DOk (mkD (IInt r' :: es) (d_local d) (d_args d) (d_static d) (d_heap d) (d_refs d)))
                | None => None
                end
    | None => None
    end.
Proof.
  intros E. unfold un_int. rewrite (pop_int_prim d a es E).
  destruct (f a) as [r|]; [|reflexivity]. unfold okd, push_int. destruct (mk_int256 r) as [r'|]; [|reflexivity].
  unfold ok, push, push_noref, d_add, set_es, ref_add, set_mem; cbn.
  replace (d_refs d - 1 + 1) with (d_refs d) by lia. reflexivity.
Qed.

(* which pure function each arithmetic opcode applies (operands: a below b) *)
Definition binop_fun (op : opcode) : option (Z -> Z -> option Z) :=
  match op with
  | ADD => Some (total2 Z.add) | SUB => Some (total2 Z.sub) | MUL => Some (total2 Z.mul)
  | DIV => Some ar_div | MOD => Some ar_mod | POW => Some ar_pow
  | AND => Some (total2 Z.land) | OR => Some (total2 Z.lor) | XOR => Some (total2 Z.lxor)
  | MIN => Some (total2 Z.min) | MAX => Some (total2 Z.max)
  | _ => None
  end.
Theorem binop_exec e op p d f : binop_fun op = Some f -> exec_data e op p d = match bin_int f d with Some r => r | None => DFault end.
Proof. destruct op; try discriminate; intros E; inv E; reflexivity. Qed.

(* the result of every arithmetic instruction that does not FAULT is an integer within 256 bits on top of the stack *)
Theorem binop_result_in_range e op p d f a b es d' :
  binop_fun op = Some f -> d_es d = IInt b :: IInt a :: es -> exec_data e op p d = DOk d' ->
  exists r, d_es d' = IInt r :: es /\ int256 r /\ f a b = Some r.
Proof.
  intros F E X. rewrite (binop_exec e op p d f F), (bin_int_effect f d a b es E) in X.
  destruct (f a b) as [r|] eqn:Fr; [|discriminate]. destruct (mk_int256 r) as [r'|] eqn:M; [|discriminate].
  inv X. apply mk_int256_range in M. destruct M as [-> R]. exists r. auto.
Qed.

(* determinism: the model is a function of the state *)
Theorem step_deterministic s r1 r2 : step s = r1 -> step s = r2 -> r1 = r2.
Proof. congruence. Qed.
Theorem run_deterministic n s r1 r2 : run n s = r1 -> run n s = r2 -> r1 = r2.
Proof. congruence. Qed.
(* more fuel never changes a finished run *)
Theorem run_fuel_irrelevant : forall n m s r, run n s = r -> (match r with Running _ => False | _ => True end) ->
  (n <= m)%nat -> run m s = r.
Proof.
  induction n as [|n IH]; intros m s r E F L; simpl in E.
  - subst r. contradiction.
  - destruct m as [|m]; [lia|]. simpl. destruct (step s) as [s1| |]; try assumption.
    apply IH; [assumption|assumption|lia].
Qed.

(* ---------- the clamped stack index [sidx] of XDROP / PICK / ROLL / REVERSEN is the plain index ---------- *)
Lemma sidx_eq n (es : list item) : 0 <= n <= zlen es -> sidx n es = Z.to_nat n.
Proof. intros H. unfold sidx. rewrite Z.min_l by lia. reflexivity. Qed.
Lemma sidx_beyond n (es : list item) : zlen es < n -> sidx n es = S (length es) /\ (length es < Z.to_nat n)%nat.
Proof. intros H. unfold sidx, zlen in *. rewrite Z.min_r by lia. split; lia. Qed.
Lemma sidx_nth n es : 0 <= n -> nth_error es (sidx n es) = nth_error es (Z.to_nat n).
Proof.
  intros H. destruct (Z_le_gt_dec n (zlen es)) as [L|G]; [rewrite sidx_eq by lia; reflexivity|].
  destruct (sidx_beyond n es) as [E Lt]; [lia|]. rewrite E.
  rewrite (proj2 (nth_error_None es (S (length es)))) by lia. symmetry. apply nth_error_None. lia.
Qed.
Lemma sidx_roll n es : 0 <= n -> roll (sidx n es) es = roll (Z.to_nat n) es.
Proof.
  intros H. destruct (Z_le_gt_dec n (zlen es)) as [L|G]; [rewrite sidx_eq by lia; reflexivity|].
  unfold roll. rewrite sidx_nth by assumption. destruct (sidx_beyond n es) as [E Lt]; [lia|].
  rewrite (proj2 (nth_error_None es (Z.to_nat n))) by lia. reflexivity.
Qed.
Lemma sidx_reverse_top n es : 0 <= n -> reverse_top (sidx n es) es = reverse_top (Z.to_nat n) es.
Proof.
  intros H. destruct (Z_le_gt_dec n (zlen es)) as [L|G]; [rewrite sidx_eq by lia; reflexivity|].
  destruct (sidx_beyond n es) as [E Lt]; [lia|]. unfold reverse_top. rewrite E.
  rewrite (proj2 (Nat.ltb_lt (length es) (S (length es)))) by lia.
  rewrite (proj2 (Nat.ltb_lt (length es) (Z.to_nat n))) by lia. reflexivity.
Qed.

(* ---------- VM reuse: vm.Reset, then SetPriceGetter / SetGasLimit / LoadScript ----------
   The node executes all transactions of a block on one VM.  [vm_reset] clears exactly what vm.Reset clears: invocation
   stack, evaluation stack, the uncaught-exception register, the item counter, the gas consumed, the gas limit and the
   price getter (the values the old stacks referred to become garbage: the heap is empty again).  [vm_prepare] is what
   the caller does next; it touches nothing but the price factor, the limit and the script - every other register is taken
   over from the state it is given.  So [reset_is_init] says: after Reset every register [run] reads has its initial value. *)
Definition vm_reset (s : state) : state :=
  mkState (empty_frame 0 (-1)) (mkScript [] (sc_sid (s_sc s)) None [] false) [] [] [] 0 None 0 0 0.
Definition vm_prepare (s : state) (prog : list Z) (sid : N) (base limit : Z) : state :=
  mkState (mkFrame 0 (f_local (s_fr s)) (f_args (s_fr s)) (f_try (s_fr s)) (-1))
          (mkScript prog sid (sc_static (s_sc s)) (sc_es (s_sc s)) false)
          (s_frames s) (s_outer s) (s_heap s) (s_refs s) (s_exc s) (s_gas s) limit base.
Theorem reset_is_init s prog sid base limit :
  vm_prepare (vm_reset s) prog sid base limit = init_state prog sid base limit.
Proof. reflexivity. Qed.
Theorem run_after_reset s prog sid base limit n :
  run n (vm_prepare (vm_reset s) prog sid base limit) = run n (init_state prog sid base limit).
Proof. rewrite reset_is_init. reflexivity. Qed.

(* ---------- slot initialisation happens at most once per group ---------- *)
(* INITSLOT succeeds iff NEITHER the local NOR the argument slot of the context exists yet (one guard for the pair, as in the
   reference implementation: INITSLOT 1,0 followed by INITSLOT 0,1 faults), the two counts are not both zero and the
   arguments are on the stack *)
Lemma initslot_once e nl na d :
  exec_data e INITSLOT [nl; na] d <> DFault <->
  d_local d = None /\ d_args d = None /\ ~ (nl = 0 /\ na = 0) /\ (0 < na -> na <= zlen (d_es d)).
Proof.
  unfold exec_data. cbn [exec_data_opt].
  destruct (d_local d) as [lo|]; [split; [intros H; exfalso; apply H; reflexivity|intros (X & _); discriminate]|].
  destruct (d_args d) as [ar|]; [split; [intros H; exfalso; apply H; reflexivity|intros (_ & X & _); discriminate]|].
  destruct ((nl =? 0) && (na =? 0)) eqn:Z0.
  - apply andb_true_iff in Z0. destruct Z0 as [A B]. apply Z.eqb_eq in A. apply Z.eqb_eq in B.
    split; [intros H; exfalso; apply H; reflexivity|intros (_ & _ & N & _); exfalso; apply N; split; assumption].
  - assert (NZ : ~ (nl = 0 /\ na = 0)).
    { intros [A B]. subst. discriminate. }
    destruct (0 <? na) eqn:Pa.
    + match goal with |- context [zlen ?es <? na] => destruct (zlen es <? na) eqn:L end.
      * split; [intros H; exfalso; apply H; reflexivity|]. intros (_ & _ & _ & K).
        destruct (0 <? nl); cbn [d_es set_refs set_local set_mem] in L; lia.
      * split; [intros _|intros _; discriminate]. repeat split; auto. intros _.
        destruct (0 <? nl); cbn [d_es set_refs set_local set_mem] in L; lia.
    + split; [intros _|intros _; discriminate]. repeat split; auto. lia.
Qed.
(* INITSSLOT succeeds iff the script has no static slot yet and the count is not zero *)
Lemma initsslot_once e n d : exec_data e INITSSLOT [n] d <> DFault <-> d_static d = None /\ n <> 0.
Proof.
  unfold exec_data. cbn [exec_data_opt param0]. destruct (n =? 0) eqn:Z0.
  - split; [intros H; exfalso; apply H; reflexivity|intros [_ N]; lia].
  - destruct (d_static d); [split; [intros H; exfalso; apply H; reflexivity|intros [X _]; discriminate]|].
    split; [intros _; split; [reflexivity|lia]|intros _; discriminate].
Qed.
(* every context has its own local and argument slots; the static slot belongs to the script *)
Lemma call_fresh_slots s pos s' :
  call s pos = Some s' ->
  f_local (s_fr s') = None /\ f_args (s_fr s') = None /\ sc_static (s_sc s') = sc_static (s_sc s) /\ s_frames s' = s_fr s :: s_frames s.
Proof. unfold call. repeat case_if; try discriminate. intros Q; inv Q. repeat split. Qed.
Lemma load_script_fresh_slots s prog sid rv :
  let s' := load_script s prog sid rv in
  f_local (s_fr s') = None /\ f_args (s_fr s') = None /\ sc_static (s_sc s') = None /\
  s_outer s' = (s_sc s, (s_fr s, s_frames s)) :: s_outer s.
Proof. repeat split. Qed.

(* ---------- the result of every arithmetic / bitwise instruction is an Integer, whatever the operand item types ---------- *)
Definition arith_op (op : opcode) : bool :=
  match op with
  | INVERT | AND | OR | XOR | SIGN | ABS | NEGATE | INC | DEC | ADD | SUB | MUL | DIV | MOD | POW | SQRT
  | MODMUL | MODPOW | SHL | SHR | MIN | MAX => true | _ => false end.
Lemma d_add_es' it d : d_es (d_add it d) = d_es d.
Proof. unfold d_add. destruct (ref_add (d_heap d) (d_refs d) it). reflexivity. Qed.
Lemma push_int_top z d d' : push_int z d = Some d' -> exists z', d_es d' = IInt z' :: d_es d.
Proof. unfold push_int. destruct (mk_int256 z) as [z'|]; [|discriminate]. intros Q; inv Q. exists z'. unfold push. rewrite d_add_es'. reflexivity. Qed.
Theorem arith_results_are_integers e op p d d' :
  arith_op op = true -> exec_data e op p d = DOk d' -> exists z tl, d_es d' = IInt z :: tl.
Proof.
  intros A. unfold exec_data. destruct op; try discriminate A; cbn [exec_data_opt]; unfold un_int, bin_int, okd, ok;
  repeat match goal with
  | |- match (match ?x with Some _ => _ | None => None end) with _ => _ end = _ -> _ => destruct x as [[? ?]|] eqn:?; [|discriminate]
  | |- match (match ?x with Some _ => _ | None => None end) with _ => _ end = _ -> _ => destruct x eqn:?; [|discriminate]
  | |- match (if ?b then _ else _) with _ => _ end = _ -> _ => destruct b; [discriminate|]
  | |- match (if ?b then _ else _) with _ => _ end = _ -> _ => destruct b
  end; try discriminate; intros Q; inv Q;
  match goal with H : push_int _ _ = Some _ |- _ => destruct (push_int_top _ _ _ H) as (z' & E); eauto end.
Qed.
