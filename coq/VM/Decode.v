(* Instruction decoding from script bytes.  Anchor: pkg/smartcontract/scparser/context.go (Context.Next,
   CalcJumpOffset, Jump, GetTryParams).  Definitions only. *)
From NG Require Import Common.Tactics Codec.Bigint gen.Opcodes gen.VMLimits VM.Items.
Open Scope Z_scope.

(* operand layout: fixed number of bytes, or a little-endian length prefix of k bytes followed by that many bytes *)
Inductive operand := Fixed (n : nat) | Prefixed (k : nat).

Definition operand_of (op : opcode) : operand :=
  match op with
  | PUSHINT8 => Fixed 1 | PUSHINT16 => Fixed 2 | PUSHINT32 => Fixed 4
  | PUSHINT64 => Fixed 8 | PUSHINT128 => Fixed 16 | PUSHINT256 => Fixed 32
  | PUSHDATA1 => Prefixed 1 | PUSHDATA2 => Prefixed 2 | PUSHDATA4 => Prefixed 4
  | JMP | JMPIF | JMPIFNOT | JMPEQ | JMPNE | JMPGT | JMPGE | JMPLT | JMPLE
  | CALL | ISTYPE | CONVERT | NEWARRAYT | ENDTRY
  | INITSSLOT | LDSFLD | STSFLD | LDARG | STARG | LDLOC | STLOC => Fixed 1
  | INITSLOT | TRY | CALLT => Fixed 2
  | JMPL | JMPIFL | JMPIFNOTL | JMPEQL | JMPNEL | JMPGTL | JMPGEL | JMPLTL | JMPLEL
  | ENDTRYL | CALLL | SYSCALL | PUSHA => Fixed 4
  | TRYL => Fixed 8
  | _ => Fixed 0
  end.

(* first n elements and the rest; None when the list is shorter *)
Fixpoint take (n : nat) (l : list Z) : option (list Z * list Z) :=
  match n with
  | O => Some ([], l)
  | S n' => match l with
            | [] => None
            | x :: t => match take n' t with Some (a, r) => Some (x :: a, r) | None => None end
            end
  end.

Inductive decoded :=
| DecEnd                                             (* ip >= len: the implicit RET, not charged *)
| DecErr                                             (* invalid opcode / missing operand bytes: FAULT, not charged *)
| DecOk (op : opcode) (param : list Z) (next : Z).   (* next = instruction pointer after the operand *)

Definition decode (prog : list Z) (ip : Z) : decoded :=
  if ip <? 0 then DecErr else
  match skipn (Z.to_nat ip) prog with
  | [] => DecEnd
  | b :: rest =>
      match opcode_of_byte b with
      | None => DecErr
      | Some op =>
          match operand_of op with
          | Fixed n =>
              match take n rest with
              | Some (p, _) => DecOk op p (ip + 1 + Z.of_nat n)
              | None => DecErr
              end
          | Prefixed k =>
              match take k rest with
              | None => DecErr
              | Some (lp, rest') =>
                  let n := from_le lp in
                  if MaxItemSize <? n then DecErr       (* only PUSHDATA4 can exceed; "parameter is too big" *)
                  else match take (Z.to_nat n) rest' with
                       | Some (p, _) => DecOk op p (ip + 1 + Z.of_nat k + n)
                       | None => DecErr
                       end
              end
          end
      end
  end.

(* signed relative offset: int8 for 1 byte, int32 little-endian for 4 bytes *)
Definition rel_offset (param : list Z) : option Z :=
  match param with
  | [b] => Some (if 128 <=? b then b - 256 else b)
  | [_; _; _; _] => let u := from_le param in Some (if 2147483648 <=? u then u - 4294967296 else u)
  | _ => None
  end.

(* CalcJumpOffset: absolute offset, allowed to equal the script length *)
Definition jump_offset (cip len : Z) (param : list Z) : option Z :=
  match rel_offset param with
  | Some r => let off := cip + r in if (off <? 0) || (len <? off) then None else Some off
  | None => None
  end.

(* Context.Jump: the target must be inside the script *)
Definition jump_ok (len pos : Z) : bool := (0 <=? pos) && (pos <? len).
