(* Soundness of the static script check (model of scparser.IsScriptCorrect, VM/Static.v): a script that passes it
   never executes an offset that is not one of the instruction boundaries the check found (or the end of the script,
   where the implicit RET sits).  Invariant: every instruction pointer of every context, every Pointer item anywhere in
   the state, and every offset stored in a try context is such a boundary. *)
From NG Require Import VM.Model Codec.BigintProofs VM.LimitsData VM.LimitsExec VM.LimitsOps VM.Total VM.Limits VM.Static.
Open Scope Z_scope.

Lemma mem_z_In x l : mem_z x l = true <-> In x l.
Proof.
  induction l as [|y l IH]; simpl; [split; [discriminate|tauto]|].
  rewrite orb_true_iff, IH, Z.eqb_eq. split; intros [H|H]; auto.
Qed.

(* ---------- what the linear pass establishes ---------- *)
Definition instr_facts (prog : list Z) (len : Z) (ins js : list Z) (q : Z) : Prop :=
  exists op p next ts,
    decode prog q = DecOk op p next /\ static_targets op p q len = Some ts /\
    (In next ins \/ len <= next) /\ (forall t, In t ts -> t <> len -> In t js).

Lemma static_scan_facts prog len : forall fuel ip ins0 js0 ins js,
  static_scan fuel prog len ip ins0 js0 = Some (ins, js) ->
  (forall x, In x ins0 -> In x ins) /\ (forall j, In j js0 -> In j js) /\
  (In ip ins \/ len <= ip) /\
  (forall q, In q ins -> In q ins0 \/ instr_facts prog len ins js q).
Proof.
  induction fuel as [|f IH]; intros ip ins0 js0 ins js; simpl; [discriminate|].
  destruct (len <=? ip) eqn:L.
  - intros E; inv E. repeat split; auto. right. lia.
  - destruct (decode prog ip) as [| |op p next] eqn:D; try discriminate.
    destruct (static_targets op p ip len) as [ts|] eqn:T; [|discriminate].
    intros E. apply IH in E. destruct E as (M1 & M2 & Nx & F).
    split; [intros x Hx; apply M1; right; assumption|].
    split; [intros j Hj; apply M2; apply in_or_app; right; assumption|].
    split; [left; apply M1; left; reflexivity|].
    intros q Hq. destruct (F q Hq) as [[->|Hin]|Fq]; [|left; assumption|right; assumption].
    right. exists op, p, next, ts. repeat split; auto.
    intros t Ht Hne. apply M2. apply in_or_app. left. apply filter_In. split; [assumption|].
    apply negb_true_iff, Z.eqb_neq. assumption.
Qed.

(* ---------- decoding never runs past the end ---------- *)
Lemma take_some_len n : forall l a r, take n l = Some (a, r) -> (length l = n + length r)%nat.
Proof.
  induction n as [|n IH]; intros l a r; simpl; [intros E; inv E; reflexivity|].
  destruct l; [discriminate|]. destruct (take n l) as [[a' r']|] eqn:E; [|discriminate].
  intros X; inv X. simpl. f_equal. eapply IH; eauto.
Qed.
Lemma decode_next_le prog ip op p next : decode prog ip = DecOk op p next -> next <= zlen prog.
Proof.
  unfold decode. case_if; [discriminate|].
  destruct (skipn (Z.to_nat ip) prog) as [|b rest] eqn:Sk; [discriminate|].
  assert (LS : (length prog >= Z.to_nat ip + S (length rest))%nat).
  { pose proof (skipn_length (Z.to_nat ip) prog) as SL. rewrite Sk in SL. simpl in SL. lia. }
  destruct (opcode_of_byte b); [|discriminate].
  destruct (operand_of o) as [n|k].
  - destruct (take n rest) as [[a r]|] eqn:T; [|discriminate]. intros E; inv E.
    apply take_some_len in T. unfold zlen. lia.
  - destruct (take k rest) as [[lp rest']|] eqn:T1; [|discriminate]. case_if; [discriminate|].
    destruct (take (Z.to_nat (from_le lp)) rest') as [[a r]|] eqn:T2; [|discriminate]. intros E; inv E.
    apply take_some_len in T1. apply take_some_len in T2. unfold zlen. lia.
Qed.
Lemma decode_end prog : decode prog (zlen prog) = DecEnd.
Proof.
  unfold decode, zlen. destruct (Z.of_nat (length prog) <? 0) eqn:E; [lia|].
  rewrite Nat2Z.id, skipn_all. reflexivity.
Qed.

Section Sound.
Variable prog : list Z.
Variable sid0 : N.
Variables instrs jumps : list Z.
Hypothesis Info : static_info prog = Some (instrs, jumps).
Hypothesis JI : forallb (fun j => mem_z j instrs) jumps = true.

Let len := zlen prog.

(* an instruction boundary found by the check, or the end of the script *)
Definition bnd (pos : Z) : Prop := In pos instrs \/ pos = len.

Lemma jumps_in_instrs t : In t jumps -> In t instrs.
Proof. intros H. rewrite forallb_forall in JI. apply mem_z_In. apply JI. assumption. Qed.

Lemma boundary_facts q : In q instrs ->
  exists op p next ts,
    decode prog q = DecOk op p next /\ static_targets op p q len = Some ts /\ bnd next /\ (forall t, In t ts -> bnd t).
Proof.
  intros Hq. unfold static_info in Info. apply static_scan_facts in Info. destruct Info as (_ & _ & _ & F).
  destruct (F q Hq) as [[]|(op & p & next & ts & D & T & Nx & J)].
  exists op, p, next, ts. repeat split; auto.
  - destruct Nx as [H|H]; [left; assumption|right]. apply decode_next_le in D. fold len in D. unfold len in *. lia.
  - intros t Ht. destruct (Z.eq_dec t (zlen prog)) as [->|Ne]; [right; reflexivity|left].
    apply jumps_in_instrs. apply J; assumption.
Qed.

(* Pointer items into this script point at boundaries *)
Instance bnd_ptr : PtrSpec := fun pos sid => sid = sid0 -> bnd pos.

Definition off_ok (o : Z) : Prop := o = -1 \/ bnd o.
Definition try_ok (t : tryctx) : Prop := off_ok (t_catch t) /\ off_ok (t_finally t) /\ off_ok (t_end t).
Definition frame_b (f : frame) : Prop := bnd (f_ip f) /\ Forall try_ok (f_try f).

Definition ctl_inv (s : state) : Prop :=
  frame_b (s_fr s) /\ Forall frame_b (s_frames s) /\ s_outer s = [] /\ sc_prog (s_sc s) = prog /\ sc_sid (s_sc s) = sid0.
Definition sinv (s : state) : Prop := state_ok s /\ ctl_inv s.

Lemma unview_ctl_inv s d : ctl_inv s -> ctl_inv (unview s d).
Proof. intros ((B & T) & Fs & O & P & S). repeat split; assumption. Qed.
Lemma set_try_ctl_inv s t : ctl_inv s -> Forall try_ok t -> ctl_inv (set_try s t).
Proof. intros ((B & T) & Fs & O & P & S) Ht. repeat split; assumption. Qed.
Lemma set_exc_ctl_inv s e : ctl_inv s -> ctl_inv (set_exc s e).
Proof. intros ((B & T) & Fs & O & P & S). repeat split; assumption. Qed.
Lemma jump_ctl_inv s pos s' : ctl_inv s -> bnd pos -> jump s pos = Some s' -> ctl_inv s'.
Proof.
  unfold jump. case_if; [|discriminate]. intros ((B & T) & Fs & O & P & S) Hb E; inv E.
  repeat split; assumption.
Qed.
Lemma jump_off_ok s pos s' : ctl_inv s -> off_ok pos -> jump s pos = Some s' -> ctl_inv s'.
Proof.
  intros K [->|Hb] E; [|eapply jump_ctl_inv; eauto].
  unfold jump, jump_ok in E. destruct (prog_len s); discriminate.
Qed.
Lemma call_ctl_inv s pos s' : ctl_inv s -> bnd pos -> call s pos = Some s' -> ctl_inv s'.
Proof.
  unfold call. repeat case_if; try discriminate. intros ((B & T) & Fs & O & P & S) Hb E; inv E.
  repeat split; try assumption; constructor; try assumption. split; assumption.
Qed.

Lemma unload_ctl_inv b s : ctl_inv s ->
  match unload b s with UNext s' => ctl_inv s' | _ => True end.
Proof.
  intros ((B & T) & Fs & O & P & S). unfold unload. destruct (s_frames s) as [|f' fs]; [rewrite O; exact I|].
  inv Fs. repeat split; try assumption; apply H1.
Qed.

Lemma trim_try_ok ts : Forall try_ok ts -> Forall try_ok (trim_try ts).
Proof.
  induction ts as [|t ts IH]; simpl; intros H; [constructor|]. inv H.
  destruct (t_state t); try case_if; auto.
Qed.

Lemma unwind_ctl_inv fuel : forall s s', ctl_inv s -> unwind fuel s = Some s' -> ctl_inv s'.
Proof.
  induction fuel as [|f IH]; intros s s' K; simpl; [discriminate|].
  assert (T : Forall try_ok (trim_try (f_try (s_fr s)))) by (apply trim_try_ok; apply K).
  destruct (trim_try (f_try (s_fr s))) as [|t ts].
  - pose proof (unload_ctl_inv false (set_try s []) (set_try_ctl_inv _ _ K (Forall_nil _))) as U.
    destruct (unload false (set_try s [])); try discriminate. apply IH; assumption.
  - inv T. destruct H1 as (Hc & Hf & He).
    assert (K1 : forall st, ctl_inv (set_try s (mkTry (t_catch t) (t_finally t) (t_end t) st :: ts))).
    { intros st. apply set_try_ctl_inv; [assumption|]. constructor; [repeat split; assumption|assumption]. }
    destruct (t_state t), (has_catch t), (s_exc s); intros E;
      try (eapply jump_off_ok; [| |exact E]; [apply K1|assumption]).
Qed.

Lemma throw_ctl_inv e s s' : ctl_inv s -> throw e s = Some s' -> ctl_inv s'.
Proof. intros K. unfold throw. apply unwind_ctl_inv. apply set_exc_ctl_inv. assumption. Qed.

(* the targets an instruction at a boundary can jump to are boundaries *)
Lemma target_bnd op p cip off :
  In cip instrs -> (exists next, decode prog cip = DecOk op p next) ->
  jump_offset cip len p = Some off ->
  match op with
  | JMP | JMPIF | JMPIFNOT | JMPEQ | JMPNE | JMPGT | JMPGE | JMPLT | JMPLE | CALL | ENDTRY
  | JMPL | JMPIFL | JMPIFNOTL | JMPEQL | JMPNEL | JMPGTL | JMPGEL | JMPLTL | JMPLEL | ENDTRYL | CALLL | PUSHA => bnd off
  | _ => True
  end.
Proof.
  intros Hc [next D] J. destruct (boundary_facts cip Hc) as (op' & p' & next' & ts & D' & T & _ & Tb).
  rewrite D in D'. inv D'. unfold static_targets in T. fold len in J.
  destruct op'; try exact I; rewrite J in T; inv T; apply Tb; left; reflexivity.
Qed.
Lemma try_targets_bnd op p cip cp fp c f :
  In cip instrs -> (exists next, decode prog cip = DecOk op p next) -> (op = TRY \/ op = TRYL) ->
  try_params op p = (cp, fp) -> jump_offset cip len cp = Some c -> jump_offset cip len fp = Some f -> bnd c /\ bnd f.
Proof.
  intros Hc [next D] Hop TP Jc Jf. destruct (boundary_facts cip Hc) as (op' & p' & next' & ts & D' & T & _ & Tb).
  rewrite D in D'. inv D'. unfold static_targets in T.
  destruct Hop as [-> | ->]; rewrite TP in T; fold len in Jc, Jf; rewrite Jc, Jf in T; inv T;
    split; apply Tb; simpl; auto.
Qed.

(* ---------- one instruction ---------- *)
Lemma state_ok_prog_len s : ctl_inv s -> prog_len s = len.
Proof. intros (_ & _ & _ & P & _). unfold prog_len. rewrite P. reflexivity. Qed.

Lemma exec_op_ctl_inv cip op p next s0 s :
  state_ok s -> ctl_inv s -> In cip instrs -> decode prog cip = DecOk op p next -> f_ip (s_fr s) = next ->
  bnd next -> s = s0 ->
  match exec_op no_sys cip op p s with XNext s' => ctl_inv s' | _ => True end.
Proof.
  intros SK K Hc D Hip Hn _.
  pose proof (state_ok_prog_len s K) as PL.
  assert (Dx : exists nx, decode prog cip = DecOk op p nx) by (eexists; eauto).
  assert (TB := fun off => target_bnd op p cip off Hc Dx).
  assert (DD : match (match exec_data (mkEnv cip (prog_len s) (sc_sid (s_sc s))) op p (view s) with
               | DOk d => XNext (unview s d) | DThrow e d => xopt (throw e (unview s d)) | DFault => XFault end) with
              | XNext s' => ctl_inv s' | _ => True end).
  { destruct (exec_data _ op p (view s)) as [d|e d|]; [apply unview_ctl_inv; assumption| |exact I].
    destruct (throw e (unview s d)) eqn:E; simpl; [|exact I]. eapply throw_ctl_inv; [|exact E]. apply unview_ctl_inv; assumption. }
  assert (JC : forall (Hop : forall off, jump_offset cip len p = Some off -> bnd off),
               match (match jump_offset cip (prog_len s) p with
                      | None => XFault
                      | Some off => match jump_cond op (view s) with
                                    | None => XFault
                                    | Some (c, d) => let s0 := unview s d in if c then xopt (jump s0 off) else XNext s0
                                    end end) with
               | XNext s' => ctl_inv s' | _ => True end).
  { intros Hop. rewrite PL. destruct (jump_offset cip len p) as [off|] eqn:J; [|exact I].
    destruct (jump_cond op (view s)) as [[c d]|]; [|exact I]. cbv zeta.
    destruct c; [|apply unview_ctl_inv; assumption].
    destruct (jump (unview s d) off) eqn:E; simpl; [|exact I].
    eapply jump_ctl_inv; [| |exact E]; [apply unview_ctl_inv; assumption|apply Hop; reflexivity]. }
  destruct op; try exact DD; try (apply JC; intros off J; exact (TB off J)); unfold exec_op; rewrite ?PL.
  - (* CALL *) destruct (jump_offset cip len p) as [off|] eqn:J; [|exact I].
    destruct (call s off) eqn:E; simpl; [|exact I]. eapply call_ctl_inv; [| |exact E]; [assumption|exact (TB off eq_refl)].
  - (* CALLL *) destruct (jump_offset cip len p) as [off|] eqn:J; [|exact I].
    destruct (call s off) eqn:E; simpl; [|exact I]. eapply call_ctl_inv; [| |exact E]; [assumption|exact (TB off eq_refl)].
  - (* CALLA *) destruct (pop (view s)) as [[[] d]|] eqn:E; try exact I.
    destruct (N.eqb sid (sc_sid (s_sc s))) eqn:Es; [|exact I]. apply N.eqb_eq in Es.
    destruct (call (unview s d) pos) eqn:C; simpl; [|exact I].
    eapply call_ctl_inv; [| |exact C]; [apply unview_ctl_inv; assumption|].
    destruct (pop_ok _ _ _ (view_ok _ SK) E) as [Hp _]. apply Hp. rewrite Es. apply K.
  - (* TRY *) destruct (try_params TRY p) as [cp fp] eqn:TP. case_if; [exact I|].
    destruct (jump_offset cip len cp) as [c|] eqn:Jc; [|exact I].
    destruct (jump_offset cip len fp) as [f|] eqn:Jf; [|exact I].
    destruct (try_targets_bnd TRY p cip cp fp c f Hc Dx (or_introl eq_refl) TP Jc Jf) as [Bc Bf].
    case_if; [exact I|]. apply set_try_ctl_inv; [assumption|]. constructor; [|apply K].
    repeat split; simpl; unfold off_ok; repeat case_if; auto.
  - (* TRYL *) destruct (try_params TRYL p) as [cp fp] eqn:TP. case_if; [exact I|].
    destruct (jump_offset cip len cp) as [c|] eqn:Jc; [|exact I].
    destruct (jump_offset cip len fp) as [f|] eqn:Jf; [|exact I].
    destruct (try_targets_bnd TRYL p cip cp fp c f Hc Dx (or_intror eq_refl) TP Jc Jf) as [Bc Bf].
    case_if; [exact I|]. apply set_try_ctl_inv; [assumption|]. constructor; [|apply K].
    repeat split; simpl; unfold off_ok; repeat case_if; auto.
  - (* ENDTRY *) assert (T : Forall try_ok (f_try (s_fr s))) by apply K.
    destruct (f_try (s_fr s)) as [|t ts]; [exact I|]. inv T. destruct H1 as (Hc' & Hf' & He').
    destruct (t_state t); try exact I; (destruct (jump_offset cip len p) as [e|] eqn:J; [|exact I]);
      pose proof (TB e eq_refl) as Be; case_if;
      match goal with |- match xopt (jump ?s1 ?pos) with _ => _ end =>
        destruct (jump s1 pos) eqn:E; simpl; [|exact I]; eapply jump_off_ok; [| |exact E] end;
      try (apply set_try_ctl_inv; [assumption|]); try assumption; try (right; assumption);
      constructor; try assumption; repeat split; simpl; try assumption; right; assumption.
  - (* ENDTRYL *) assert (T : Forall try_ok (f_try (s_fr s))) by apply K.
    destruct (f_try (s_fr s)) as [|t ts]; [exact I|]. inv T. destruct H1 as (Hc' & Hf' & He').
    destruct (t_state t); try exact I; (destruct (jump_offset cip len p) as [e|] eqn:J; [|exact I]);
      pose proof (TB e eq_refl) as Be; case_if;
      match goal with |- match xopt (jump ?s1 ?pos) with _ => _ end =>
        destruct (jump s1 pos) eqn:E; simpl; [|exact I]; eapply jump_off_ok; [| |exact E] end;
      try (apply set_try_ctl_inv; [assumption|]); try assumption; try (right; assumption);
      constructor; try assumption; repeat split; simpl; try assumption; right; assumption.
  - (* ENDFINALLY *) destruct (s_exc s).
    + destruct (throw i s) eqn:E; simpl; [|exact I]. eapply throw_ctl_inv; eauto.
    + assert (T : Forall try_ok (f_try (s_fr s))) by apply K.
      destruct (f_try (s_fr s)) as [|t ts]; [exact I|]. inv T. destruct H1 as (Hc' & Hf' & He').
      destruct (jump (set_try s ts) (t_end t)) eqn:E; simpl; [|exact I].
      eapply jump_off_ok; [| |exact E]; [apply set_try_ctl_inv|]; assumption.
  - (* RET *) unfold do_ret. pose proof (unload_ctl_inv true s K). destruct (unload true s); auto.
Qed.

Lemma set_gas_ip_ctl_inv s g n : ctl_inv s -> bnd n -> ctl_inv (set_ip (set_gas s g) n).
Proof. intros ((B & T) & Fs & O & P & S) Hn. repeat split; assumption. Qed.

Theorem step_sinv s s' : sinv s -> step s = Running s' -> sinv s'.
Proof.
  intros [SK K] E. split.
  - (* sizes and pointers *)
    assert (PH : pusha_here s).
    { intros op p next D off Hop J _. subst op.
      destruct K as ((B & _) & _ & _ & P & S). rewrite P in D. unfold prog_len in J. rewrite P in J.
      destruct B as [Hin|Hend]; [|rewrite Hend in D; unfold len in D; rewrite decode_end in D; discriminate].
      apply (target_bnd PUSHA p (f_ip (s_fr s)) off Hin); [eexists; eauto|assumption]. }
    pose proof (step_limits_gen s SK PH) as L. rewrite E in L. apply L.
  - (* control *)
    revert E. unfold step, step_with.
    assert (P : sc_prog (s_sc s) = prog) by apply K. rewrite P.
    assert (B : bnd (f_ip (s_fr s))) by apply K.
    destruct (decode prog (f_ip (s_fr s))) as [| |op p next] eqn:D; [|discriminate|].
    + intros E. apply post_running in E. unfold do_ret in E.
      pose proof (unload_ctl_inv true s K) as U. destruct (unload true s); inv E. assumption.
    + case_if; [discriminate|]. intros E. apply post_running in E.
      destruct B as [Hin|Hend]; [|rewrite Hend in D; unfold len in D; rewrite decode_end in D; discriminate].
      destruct (boundary_facts _ Hin) as (op' & p' & next' & ts & D' & _ & Bn & _). rewrite D in D'. inv D'.
      set (s1 := set_ip (set_gas s (s_gas s + price (s_base s) op')) next') in *.
      assert (SK1 : state_ok s1) by (apply set_gas_ip_ok; assumption).
      assert (K1 : ctl_inv s1) by (apply set_gas_ip_ctl_inv; assumption).
      pose proof (exec_op_ctl_inv (f_ip (s_fr s)) op' p' next' s1 s1 SK1 K1 Hin D eq_refl Bn eq_refl) as X.
      rewrite E in X. exact X.
Qed.

Lemma init_sinv base limit : sinv (init_state prog sid0 base limit).
Proof.
  split; [apply init_state_ok|].
  assert (B0 : bnd 0).
  { unfold static_info in Info. apply static_scan_facts in Info. destruct Info as (_ & _ & [H|H] & _).
    - left. assumption.
    - right. pose proof (zlen_ge0 prog). unfold len. lia. }
  repeat split; simpl; try assumption; try (apply Forall_nil); try reflexivity.
Qed.

Lemma start_sinv base limit m : bnd m -> sinv (start_at prog sid0 base limit m).
Proof.
  intros B. split.
  - change (start_at prog sid0 base limit m) with (set_ip (set_gas (init_state prog sid0 base limit) 0) m).
    apply set_gas_ip_ok. apply init_state_ok.
  - repeat split; simpl; try assumption; try (apply Forall_nil); try reflexivity.
Qed.

Theorem run_sinv : forall n s s', sinv s -> run n s = Running s' -> sinv s'.
Proof.
  induction n as [|n IH]; intros s s' K; simpl; [intros E; inv E; assumption|].
  destruct (step s) as [s1| |] eqn:S; try discriminate. apply IH. eapply step_sinv; eauto.
Qed.

End Sound.

(* every offset at which an execution of a script that passes the check stands is an instruction boundary found by the
   check, or the end of the script *)
Theorem static_check_sound prog sid base limit n s :
  script_correct prog = true ->
  run n (init_state prog sid base limit) = Running s ->
  In (f_ip (s_fr s)) (boundaries prog) \/ f_ip (s_fr s) = zlen prog.
Proof.
  unfold script_correct, boundaries. destruct (static_info prog) as [[instrs jumps]|] eqn:Info; [|discriminate].
  intros JI R. pose proof (run_sinv prog sid instrs jumps Info JI n _ s (init_sinv prog sid instrs jumps Info base limit) R) as K.
  apply K.
Qed.

(* the same for an execution that starts at a method offset accepted by the check with a methods bit field *)
Theorem static_check_sound_methods prog sid base limit methods m n s :
  script_correct_m prog methods = true -> In m methods ->
  run n (start_at prog sid base limit m) = Running s ->
  In (f_ip (s_fr s)) (boundaries prog) \/ f_ip (s_fr s) = zlen prog.
Proof.
  unfold script_correct_m, script_correct, boundaries. destruct (static_info prog) as [[instrs jumps]|] eqn:Info; [|discriminate].
  rewrite andb_true_iff. intros [JI Ms] Hm R. rewrite forallb_forall in Ms.
  assert (B : bnd prog instrs m) by (left; apply mem_z_In; apply Ms; exact Hm).
  pose proof (run_sinv prog sid instrs jumps Info JI n _ s (start_sinv prog sid instrs base limit m B) R) as K.
  apply K.
Qed.
