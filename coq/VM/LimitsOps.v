(* every data instruction preserves the size limits *)
From NG Require Import VM.Model Codec.BigintProofs VM.LimitsData VM.LimitsExec.
Open Scope Z_scope.

Ltac t := intros; opens; repeat case_if; dok.

Lemma un_int_ok f d : d_ok d -> res_ok (un_int f d).
Proof. unfold un_int. t. Qed.
Lemma bin_int_ok f d : d_ok d -> res_ok (bin_int f d).
Proof. unfold bin_int. t. Qed.
Lemma bin_cmp_ok f d : d_ok d -> res_ok (bin_cmp f d).
Proof. unfold bin_cmp. t. Qed.
Lemma cmp_null_ok f d : d_ok d -> res_ok (cmp_null f d).
Proof. unfold cmp_null. t. Qed.

Lemma slot_load_ok sl i d : d_ok d -> slot_ok sl -> res_ok (slot_load sl i d).
Proof. unfold slot_load. intros. destruct sl as [s|]; [|exact I]. simpl in *. t. Qed.
Lemma ld_ok k i d : d_ok d -> res_ok (ld k i d).
Proof. intros. unfold ld. apply slot_load_ok; [assumption|]. destruct k; simpl; dok. Qed.
Lemma slot_store_ok sl i d s' d' :
  d_ok d -> slot_ok sl -> slot_store sl i d = Some (s', d') -> Forall item_ok s' /\ d_ok d'.
Proof.
  intros H S. unfold slot_store. destruct sl as [s|]; [|discriminate]. simpl in S.
  destruct (nth_error s (Z.to_nat i)) as [old|] eqn:E1; [|discriminate].
  destruct (pop_noref d) as [[it d1]|] eqn:E2; [|discriminate]. intros X; inv X.
  destruct (pop_noref_ok _ _ _ H E2). split; dok.
Qed.
Lemma st_ok k i d : d_ok d -> res_ok (st k i d).
Proof.
  intros H. unfold st.
  assert (S : slot_ok (get_slot k d)) by (destruct k; simpl; dok).
  destruct (slot_store (get_slot k d) i d) as [[s' d']|] eqn:E; [|exact I].
  destruct (slot_store_ok _ _ _ _ _ H S E). unfold ok; cbn [res_ok]. destruct k; simpl; dok.
Qed.
Lemma default_of_ok t : item_ok (default_of t).
Proof. unfold default_of. repeat case_if; simpl; try exact I; vm_compute; congruence. Qed.
#[export] Hint Resolve default_of_ok : vmok.
Lemma new_seq_ok b t d : d_ok d -> res_ok (new_seq b t d).
Proof. unfold new_seq. t. Qed.

Lemma new_empty_ok c mk d : cell_ok c -> (forall l, item_ok (mk l)) -> d_ok d -> res_ok (new_empty c mk d).
Proof. unfold new_empty. intros Hc Hm H. opens. apply push_ok; [apply Hm|dok]. Qed.
Lemma op_append_ok d : d_ok d -> res_ok (op_append d).
Proof. unfold op_append. t. Qed.
Lemma op_pack_ok b d : d_ok d -> res_ok (op_pack b d).
Proof. unfold op_pack. t. Qed.
Lemma op_unpack_ok d : d_ok d -> res_ok (op_unpack d).
Proof. unfold op_unpack. t. Qed.
Lemma op_pickitem_ok d : d_ok d -> res_ok (op_pickitem d).
Proof. unfold op_pickitem. t. Qed.
