(* every data instruction preserves the size limits *)
From NG Require Import VM.Model Codec.BigintProofs VM.LimitsData VM.LimitsExec.
Open Scope Z_scope.

Ltac t := intros; opens; repeat case_if; dok.

Section WithPtr.
Context {PS : PtrSpec}.

Lemma un_int_ok f d : d_ok d -> res_ok (un_int f d).
Proof. unfold un_int. t. Qed.
Lemma bin_int_ok f d : d_ok d -> res_ok (bin_int f d).
Proof. unfold bin_int. t. Qed.
Lemma bin_cmp_ok f d : d_ok d -> res_ok (bin_cmp f d).
Proof. unfold bin_cmp. t. Qed.
Lemma cmp_null_ok f d : d_ok d -> res_ok (cmp_null f d).
Proof. unfold cmp_null. t. Qed.

Lemma slot_load_ok sl i d : d_ok d -> slot_ok sl -> res_ok (slot_load sl i d).
Proof. unfold slot_load. intros. destruct sl as [s|]; [|exact I]. simpl in *. t. Qed.
Lemma ld_ok k i d : d_ok d -> res_ok (ld k i d).
Proof. intros. unfold ld. apply slot_load_ok; [assumption|]. destruct k; simpl; dok. Qed.
Lemma slot_store_ok sl i d s' d' :
  d_ok d -> slot_ok sl -> slot_store sl i d = Some (s', d') -> Forall item_ok s' /\ d_ok d'.
Proof.
  intros H S. unfold slot_store. destruct sl as [s|]; [|discriminate]. simpl in S.
  destruct (nth_error s (Z.to_nat i)) as [old|] eqn:E1; [|discriminate].
  destruct (pop_noref d) as [[it d1]|] eqn:E2; [|discriminate]. intros X; inv X.
  destruct (pop_noref_ok _ _ _ H E2). split; dok.
Qed.
Lemma st_ok k i d : d_ok d -> res_ok (st k i d).
Proof.
  intros H. unfold st.
  assert (S : slot_ok (get_slot k d)) by (destruct k; simpl; dok).
  destruct (slot_store (get_slot k d) i d) as [[s' d']|] eqn:E; [|exact I].
  destruct (slot_store_ok _ _ _ _ _ H S E). unfold ok; cbn [res_ok]. destruct k; simpl; dok.
Qed.
Lemma new_seq_ok b t d : d_ok d -> res_ok (new_seq b t d).
Proof. unfold new_seq. t. Qed.

Lemma new_empty_ok c mk d : cell_ok c -> (forall l, item_ok (mk l)) -> d_ok d -> res_ok (new_empty c mk d).
Proof. unfold new_empty. intros Hc Hm H. opens. apply push_ok; [apply Hm|]. apply alloc_ok; assumption. Qed.
Lemma op_append_ok d : d_ok d -> res_ok (op_append d).
Proof. unfold op_append. t. Qed.
Lemma op_pack_ok b d : d_ok d -> res_ok (op_pack b d).
Proof. unfold op_pack. t. Qed.
Lemma op_unpack_ok d : d_ok d -> res_ok (op_unpack d).
Proof. unfold op_unpack. t. Qed.
Lemma op_pickitem_ok d : d_ok d -> res_ok (op_pickitem d).
Proof. unfold op_pickitem. t. Qed.

Lemma op_setitem_ok d : d_ok d -> res_ok (op_setitem d).
Proof. unfold op_setitem. t. Qed.
Lemma op_reverseitems_ok d : d_ok d -> res_ok (op_reverseitems d).
Proof. unfold op_reverseitems. t. Qed.
Lemma op_remove_ok d : d_ok d -> res_ok (op_remove d).
Proof. unfold op_remove. t. Qed.
Lemma op_clearitems_ok d : d_ok d -> res_ok (op_clearitems d).
Proof. unfold op_clearitems. t. Qed.
Lemma op_popitem_ok d : d_ok d -> res_ok (op_popitem d).
Proof. unfold op_popitem. t. Qed.
Lemma op_size_ok d : d_ok d -> res_ok (op_size d).
Proof. unfold op_size. t. Qed.
Lemma op_keys_ok d : d_ok d -> res_ok (op_keys d).
Proof. unfold op_keys. t. Qed.
Lemma op_haskey_ok d : d_ok d -> res_ok (op_haskey d).
Proof. unfold op_haskey. t. Qed.
Lemma op_convert_ok t0 d : d_ok d -> res_ok (op_convert t0 d).
Proof. unfold op_convert. t. Qed.
Lemma op_memcpy_ok d : d_ok d -> res_ok (op_memcpy d).
Proof.
  unfold op_memcpy. t.
  unfold slice, zlen in *. rewrite !app_length, !firstn_length, !skipn_length. lia.
Qed.

Lemma packmap_loop_ok n : forall es d es' d',
  d_ok d -> Forall item_ok (flat_entries es) -> packmap_loop n es d = Some (es', d') ->
  Forall item_ok (flat_entries es') /\ d_ok d'.
Proof.
  induction n as [|n IH]; intros es d es' d' H He; simpl.
  - intros E; inv E. auto.
  - destruct (pop_noref d) as [[k d1]|] eqn:E1; [|discriminate].
    destruct (pop_noref_ok _ _ _ H E1) as [Hk H1].
    destruct (pop_noref d1) as [[v d2]|] eqn:E2; [|discriminate].
    destruct (pop_noref_ok _ _ _ H1 E2) as [Hv H2].
    case_if; [discriminate|].
    destruct (map_index es k) as [i|].
    + destruct (nth_error es i) as [[k0 old]|] eqn:E3; [|discriminate].
      apply IH; [dok|apply map_add_ok; assumption].
    + apply IH; [assumption|apply map_add_ok; assumption].
Qed.
Lemma op_packmap_ok d : d_ok d -> res_ok (op_packmap d).
Proof.
  unfold op_packmap. intros. opens.
  apply packmap_loop_ok in E; [destruct E; dok|assumption|constructor].
Qed.

Lemma cp_values_ok b : forall src acc d arr d',
  d_ok d -> Forall item_ok src -> Forall item_ok acc -> cp_values b src acc d = Some (arr, d') ->
  Forall item_ok arr /\ d_ok d'.
Proof.
  induction src as [|it src IH]; intros acc d arr d' H Hs Ha; simpl.
  - intros E; inv E. split; [apply Forall_rev; assumption|assumption].
  - inv Hs. destruct (clone_if_struct (d_heap d) it) as [[[h c] s]|] eqn:E; [|discriminate].
    destruct (clone_if_struct_ok _ _ _ _ _ (d_ok_heap _ H) H2 E).
    apply IH; [repeat case_if; dok|assumption|constructor; assumption].
Qed.
Lemma op_values_ok d : d_ok d -> res_ok (op_values d).
Proof.
  unfold op_values. intros. opens;
  match goal with E : cp_values _ _ _ _ = Some _ |- _ =>
    apply cp_values_ok in E; [destruct E; dok|repeat case_if; dok|dok|constructor] end.
Qed.

Lemma jump_cond_ok op d b d' : d_ok d -> jump_cond op d = Some (b, d') -> d_ok d'.
Proof.
  intros H. unfold jump_cond.
  destruct op; try discriminate; intros E;
    repeat match goal with
    | E : Some _ = Some _ |- _ => inv E
    | E : match ?e with Some _ => _ | None => None end = Some _ |- _ =>
        let X := fresh "X" in destruct e as [[? ?]|] eqn:X; [|discriminate]
    end; learn; assumption.
Qed.

Definition param_ok (p : list Z) : Prop := zlen p <= MaxItemSize.
Definition dres_ok (r : dres) : Prop :=
  match r with DOk d => d_ok d | DThrow x d => item_ok x /\ d_ok d | DFault => True end.

(* the only instruction that makes a Pointer is PUSHA: its target has to satisfy the pointer condition *)
Definition pusha_ok (e : env) (op : opcode) (p : list Z) : Prop :=
  forall off, op = PUSHA -> jump_offset (e_ip e) (e_len e) p = Some off -> ptr_ok off (e_sid e).

Theorem exec_data_ok e op p d : d_ok d -> param_ok p -> pusha_ok e op p -> dres_ok (exec_data e op p d).
Proof.
  intros H P PA. unfold exec_data.
  enough (R : res_ok (exec_data_opt e op p d)).
  { destruct (exec_data_opt e op p d) as [[]|]; exact R || exact I. }
  unfold param_ok in P.
  destruct op; cbn [exec_data_opt]; try exact I;
  first
    [ solve [apply un_int_ok; assumption]
    | solve [apply bin_int_ok; assumption]
    | solve [apply bin_cmp_ok; assumption]
    | solve [apply cmp_null_ok; assumption]
    | solve [apply ld_ok; assumption]
    | solve [apply st_ok; assumption]
    | solve [apply new_seq_ok; assumption]
    | solve [apply new_empty_ok; [constructor| intros; exact I | assumption]]
    | solve [apply op_append_ok; assumption]
    | solve [apply op_pack_ok; assumption]
    | solve [apply op_packmap_ok; assumption]
    | solve [apply op_unpack_ok; assumption]
    | solve [apply op_pickitem_ok; assumption]
    | solve [apply op_setitem_ok; assumption]
    | solve [apply op_reverseitems_ok; assumption]
    | solve [apply op_remove_ok; assumption]
    | solve [apply op_clearitems_ok; assumption]
    | solve [apply op_popitem_ok; assumption]
    | solve [apply op_size_ok; assumption]
    | solve [apply op_keys_ok; assumption]
    | solve [apply op_values_ok; assumption]
    | solve [apply op_haskey_ok; assumption]
    | solve [apply op_memcpy_ok; assumption]
    | solve [opens; first [apply ld_ok | apply st_ok | apply new_seq_ok | apply op_convert_ok]; assumption]
    | solve [t]
    | idtac ].
  (* PUSHA *)
  opens. apply push_ok; [|assumption]. apply PA; [reflexivity|assumption].
Qed.

End WithPtr.
