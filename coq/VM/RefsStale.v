(* refCounter.Remove of an element that is still listed among its container's children (vm.go un-counts a[k] before
   it overwrites / deletes a[k]).  If the removal frees a cycle through the container itself, Remove walks the container's
   children and meets the element again - then already dead, so the second visit does nothing.  The balance is therefore
   stated on the heap with the container already edited ([ed]), while the procedure runs on the real heap. *)
From NG Require Import VM.Model VM.LimitsData VM.Reach VM.RefsInv VM.RefsMoves.
Open Scope Z_scope.

(* one step of Remove on the balance (no well-formedness needed) *)
Lemma G_dec_rc h refs X it l0 c :
  G h refs [] (it :: X) -> item_cloc it = Some l0 -> hget h l0 = Some c ->
  1 <= cell_rc c /\ is_comp c /\
  G (hset h l0 (cell_set_rc c (cell_rc c - 1))) (refs - 1) []
    ((if cell_rc c - 1 =? 0 then cell_children c else []) ++ X).
Proof.
  intros [R O T] Ecl Ec.
  pose proof (O l0) as O0. cbn [occ] in O0. rewrite (hit_self _ _ Ecl) in O0.
  pose proof (occ_nonneg l0 X). pose proof (live_occ_nonneg h l0). unfold rc_of in O0. rewrite Ec in O0.
  assert (Rp : 1 <= cell_rc c) by lia.
  assert (Cc : is_comp c) by (apply rc_pos_comp; lia).
  assert (Lc : live c = true) by (unfold live; destruct (cell_rc c =? 0) eqn:Q; [lia|reflexivity]).
  split; [assumption|]. split; [assumption|].
  constructor.
  - apply rc_nonneg_hset; [assumption|]. rewrite set_rc_rc by assumption. lia.
  - intros l. specialize (O l). cbn [occ] in *. rewrite (live_occ_set_rc _ _ _ _ _ Ec Cc), Lc.
    destruct (Nat.eq_dec l0 l) as [->|N].
    + rewrite (rc_of_hset_same _ _ _ _ Ec), set_rc_rc by assumption. rewrite (hit_self _ _ Ecl) in O.
      unfold rc_of in O. rewrite Ec in O. destruct (cell_rc c - 1 =? 0); cbn [app]; rewrite ?occ_app; cbn [occ]; lia.
    + rewrite rc_of_hset_other by assumption. rewrite (hit_other _ _ _ Ecl N) in O.
      destruct (cell_rc c - 1 =? 0); cbn [app]; rewrite ?occ_app; cbn [occ]; lia.
  - rewrite (live_size_set_rc _ _ _ _ Ec Cc), Lc. rewrite zlen_cons', zlen_nil in *.
    destruct (cell_rc c - 1 =? 0); cbn [app]; rewrite ?zlen_app, ?zlen_nil; lia.
Qed.

(* w with some occurrences of [old] deleted *)
Inductive ph (old : item) : list item -> list item -> Prop :=
| ph_nil : ph old [] []
| ph_skip w w' : ph old w w' -> ph old (old :: w) w'
| ph_keep x w w' : ph old w w' -> ph old (x :: w) (x :: w').
Lemma ph_refl old w : ph old w w.
Proof. induction w; constructor; assumption. Qed.
Lemma ph_app old a a' b b' : ph old a a' -> ph old b b' -> ph old (a ++ b) (a' ++ b').
Proof. induction 1; simpl; intros; try constructor; auto. Qed.
Lemma ph_nil_inv old w' : ph old [] w' -> w' = [].
Proof. inversion 1. reflexivity. Qed.
Lemma ph_remove_nth old n its : nth_error its n = Some old -> ph old its (remove_nth n its).
Proof.
  revert n. induction its as [|x its IH]; intros [|n] E; simpl in *; try discriminate.
  - inv E. apply ph_skip. apply ph_refl.
  - apply ph_keep. apply IH. assumption.
Qed.

Section Stale.
Variable l : loc.              (* the container *)
Variable upd : cell -> cell.   (* the pending edit of its children *)
Hypothesis upd_rc : forall c, cell_rc (upd c) = cell_rc c.
Hypothesis upd_comp : forall c, is_comp c -> is_comp (upd c).
Hypothesis upd_set_rc : forall c r, upd (cell_set_rc c r) = cell_set_rc (upd c) r.
Variable old : item.
Variable lo : loc.
Hypothesis old_loc : item_cloc old = Some lo.
(* the edited children are the real ones without some occurrences of old *)
Hypothesis upd_ph : forall c, ph old (cell_children c) (cell_children (upd c)).

Definition ed (h : heap) : heap := match hget h l with Some c => hset h l (upd c) | None => h end.

Lemma ed_hget_l h c : hget h l = Some c -> hget (ed h) l = Some (upd c).
Proof. intros E. unfold ed. rewrite E. eapply hget_hset_same; eauto. Qed.
Lemma ed_hget_other h l' : l' <> l -> hget (ed h) l' = hget h l'.
Proof. intros N. unfold ed. destruct (hget h l); [apply hget_hset_other; auto|reflexivity]. Qed.
Lemma ed_rc_of h l' : rc_of (ed h) l' = rc_of h l'.
Proof.
  destruct (Nat.eq_dec l' l) as [->|N].
  - unfold rc_of. destruct (hget h l) as [c|] eqn:E; [rewrite (ed_hget_l _ _ E), upd_rc; reflexivity|].
    unfold ed. rewrite E, E. reflexivity.
  - unfold rc_of. rewrite ed_hget_other by assumption. reflexivity.
Qed.
Lemma hset_hset : forall (h : heap) i a b, hset (hset h i a) i b = hset h i b.
Proof. induction h as [|x h IH]; intros [|i] a b; simpl; auto. rewrite IH. reflexivity. Qed.
Lemma hset_comm : forall (h : heap) i j a b, i <> j -> hset (hset h i a) j b = hset (hset h j b) i a.
Proof.
  induction h as [|x h IH]; intros [|i] [|j] a b N; simpl; auto; try lia. rewrite IH by lia. reflexivity.
Qed.
Lemma hget_hset_any : forall (h : heap) i j c, hget h i <> None -> hget (hset h j c) i <> None.
Proof.
  intros h i j c N. destruct (Nat.eq_dec j i) as [->|Q].
  - destruct (hget h i) as [x|] eqn:E; [|congruence]. rewrite (hget_hset_same _ _ _ _ E). discriminate.
  - rewrite hget_hset_other by assumption. assumption.
Qed.

(* the edit commutes with a count update *)
Lemma ed_set_rc h l0 c0 r : hget h l0 = Some c0 ->
  exists c0e, hget (ed h) l0 = Some c0e /\ cell_rc c0e = cell_rc c0 /\
    ed (hset h l0 (cell_set_rc c0 r)) = hset (ed h) l0 (cell_set_rc c0e r) /\
    ph old (cell_children c0) (cell_children c0e).
Proof.
  intros E. destruct (Nat.eq_dec l0 l) as [->|N].
  - exists (upd c0). split; [apply ed_hget_l; assumption|]. split; [apply upd_rc|]. split; [|apply upd_ph].
    unfold ed. rewrite (hget_hset_same _ _ _ _ E), E, !hset_hset, upd_set_rc. reflexivity.
  - exists c0. split; [rewrite ed_hget_other; assumption|]. split; [reflexivity|]. split; [|apply ph_refl].
    unfold ed. rewrite hget_hset_other by assumption. destruct (hget h l) as [c|]; [|reflexivity].
    apply hset_comm. assumption.
Qed.

Lemma stale_remove_wl : forall fuel h refs w w' X,
  ph old w w' -> rc_of h lo = 0 ->
  G (ed h) refs [] (w' ++ X) ->
  zlen w + live_size h < Z.of_nat fuel ->
  let '(h', refs') := ref_remove_wl fuel h refs w in G (ed h') refs' [] X.
Proof.
  induction fuel as [|f IH]; intros h refs w w' X P D Hg F.
  - pose proof (zlen_ge0 w). pose proof (live_size_nonneg h). simpl in F. lia.
  - destruct P as [|w w' P|x w w' P]; simpl ref_remove_wl.
    + exact Hg.
    + (* a stale occurrence of old: it is dead, nothing happens *)
      rewrite old_loc. rewrite zlen_cons' in F. unfold rc_of in D.
      destruct (hget h lo) as [co|] eqn:Eo; [rewrite D; simpl|]; apply (IH h refs w w' X P); try assumption;
        try (unfold rc_of; rewrite Eo; assumption); lia.
    + rewrite zlen_cons' in F. cbn [app] in Hg.
      destruct (item_cloc x) as [l0|] eqn:Ecl.
      * (* a compound: rc >= 1 by the balance, so it is not the dead old *)
        pose proof (g_one _ _ _ _ Hg l0) as O0. cbn [occ] in O0. rewrite (hit_self _ _ Ecl), ed_rc_of in O0.
        pose proof (occ_nonneg l0 (w' ++ X)). pose proof (live_occ_nonneg (ed h) l0).
        unfold rc_of in O0. destruct (hget h l0) as [c0|] eqn:E0; [|lia].
        assert (Rp : 1 <= cell_rc c0) by lia.
        assert (Nlo : l0 <> lo) by (intros ->; unfold rc_of in D; rewrite E0 in D; lia).
        destruct (cell_rc c0 =? 0) eqn:Q0; [lia|].
        destruct (ed_set_rc h l0 c0 (cell_rc c0 - 1) E0) as (c0e & Ee & Erc & Eed & Pch).
        destruct (G_dec_rc _ _ _ _ _ _ Hg Ecl Ee) as (_ & _ & Hg1). rewrite Erc in Hg1. rewrite <- Eed in Hg1.
        set (h1 := hset h l0 (cell_set_rc c0 (cell_rc c0 - 1))) in *.
        assert (D1 : rc_of h1 lo = 0) by (unfold h1; rewrite rc_of_hset_other by assumption; exact D).
        assert (Cc : is_comp c0) by (apply rc_pos_comp; lia).
        assert (Lc : live c0 = true) by (unfold live; rewrite Q0; reflexivity).
        destruct (cell_rc c0 - 1 =? 0) eqn:E1.
        -- apply (IH h1 (refs - 1) (cell_children c0 ++ w) (cell_children c0e ++ w') X); try assumption.
           ++ apply ph_app; assumption.
           ++ rewrite <- app_assoc. exact Hg1.
           ++ unfold h1. rewrite (live_size_set_rc _ _ _ _ E0 Cc), Lc, E1, zlen_app. lia.
        -- apply (IH h1 (refs - 1) w w' X); try assumption.
           unfold h1. rewrite (live_size_set_rc _ _ _ _ E0 Cc), Lc, E1. lia.
      * apply (IH h (refs - 1) w w' X); try assumption; [|lia].
        destruct Hg as [R O T]. constructor; [assumption| |].
        -- intros l1. specialize (O l1). cbn [occ] in *. rewrite (hit_prim _ _ Ecl) in O. lia.
        -- rewrite zlen_cons' in T. rewrite zlen_nil in *. lia.
Qed.

(* Remove(old) where old is still listed in the container *)
Lemma stale_remove h refs X :
  G (ed h) refs [] (old :: X) ->
  G (ed (fst (ref_remove h refs old))) (snd (ref_remove h refs old)) [] X.
Proof.
  intros Hg. unfold ref_remove. rewrite old_loc. unfold ref_fuel. cbn [length].
  remember (S (1 + heap_weight h)) as fuel eqn:Ef.
  assert (F : zlen [old] + live_size h < Z.of_nat fuel).
  { subst fuel. pose proof (dead_live_weight h). pose proof (dead_size_nonneg h). rewrite zlen_cons', zlen_nil. lia. }
  destruct fuel as [|f]; [discriminate|]. simpl ref_remove_wl. rewrite old_loc.
  pose proof (g_one _ _ _ _ Hg lo) as O0. cbn [occ] in O0. rewrite (hit_self _ _ old_loc), ed_rc_of in O0.
  pose proof (occ_nonneg lo X). pose proof (live_occ_nonneg (ed h) lo).
  unfold rc_of in O0. destruct (hget h lo) as [co|] eqn:Eo; [|lia].
  assert (Rp : 1 <= cell_rc co) by lia.
  destruct (cell_rc co =? 0) eqn:Q0; [lia|].
  destruct (ed_set_rc h lo co (cell_rc co - 1) Eo) as (coe & Ee & Erc & Eed & Pch).
  destruct (G_dec_rc _ _ _ _ _ _ Hg old_loc Ee) as (_ & _ & Hg1). rewrite Erc in Hg1. rewrite <- Eed in Hg1.
  set (h1 := hset h lo (cell_set_rc co (cell_rc co - 1))) in *.
  assert (Cc : is_comp co) by (apply rc_pos_comp; lia).
  assert (Lc : live co = true) by (unfold live; rewrite Q0; reflexivity).
  rewrite zlen_cons', zlen_nil in F.
  destruct (cell_rc co - 1 =? 0) eqn:E1.
  - assert (D1 : rc_of h1 lo = 0).
    { unfold h1. rewrite (rc_of_hset_same _ _ _ _ Eo), set_rc_rc by assumption. lia. }
    pose proof (stale_remove_wl f h1 (refs - 1) (cell_children co ++ []) (cell_children coe ++ []) X) as K.
    destruct (ref_remove_wl f h1 (refs - 1) (cell_children co ++ [])) as [h' r'] eqn:Er.
    simpl. apply K; try assumption.
    + apply ph_app; [assumption|constructor].
    + rewrite app_nil_r. exact Hg1.
    + unfold h1. rewrite (live_size_set_rc _ _ _ _ Eo Cc), Lc, E1, zlen_app, zlen_nil. lia.
  - destruct f; simpl; exact Hg1.
Qed.
End Stale.

(* ---------- editing children: the balance only sees multisets ---------- *)
Lemma G_edit h refs A X l0 c c' add rem :
  G h refs A X -> hget h l0 = Some c -> cell_rc c' = cell_rc c ->
  (if live c then meq (cell_children c' ++ rem) (cell_children c ++ add) else add = [] /\ rem = []) ->
  G (hset h l0 c') refs (add ++ A) (rem ++ X).
Proof.
  intros [R O T] E Erc M.
  assert (Lc' : live c' = live c) by (unfold live; rewrite Erc; reflexivity).
  constructor.
  - apply rc_nonneg_hset; [assumption|]. rewrite Erc. eapply rc_nonneg_get; eauto.
  - intros l. specialize (O l). unfold live_occ. rewrite (sumf_hset _ _ _ _ _ E). fold (live_occ h l).
    unfold kocc. rewrite Lc'. rewrite !occ_app.
    assert (Rl : rc_of (hset h l0 c') l = rc_of h l).
    { destruct (Nat.eq_dec l0 l) as [->|N]; [rewrite (rc_of_hset_same _ _ _ _ E); unfold rc_of; rewrite E; assumption|
        apply rc_of_hset_other; assumption]. }
    rewrite Rl. destruct (live c).
    + destruct M as [Mo _]. specialize (Mo l). rewrite !occ_app in Mo. lia.
    + destruct M as [-> ->]. cbn [occ]. lia.
  - unfold live_size. rewrite (sumf_hset _ _ _ _ _ E). fold (live_size h). unfold ksize. rewrite Lc'. rewrite !zlen_app.
    destruct (live c).
    + destruct M as [_ Ml]. rewrite !zlen_app in Ml. lia.
    + destruct M as [-> ->]. rewrite zlen_nil. lia.
Qed.

(* cancelling: a held counted reference becomes the not-yet-counted new child *)
Lemma G_cancel h refs A X it : G h refs (it :: A) (it :: X) -> G h refs A X.
Proof.
  intros [R O T]. constructor; [assumption| |rewrite !zlen_cons' in T; lia].
  intros l. specialize (O l). cbn [occ] in O. lia.
Qed.

(* ---------- deleting one occurrence ---------- *)
Lemma item_eq_dec (a b : item) : {a = b} + {a <> b}.
Proof.
  decide equality; try apply Z.eq_dec; try apply Nat.eq_dec; try apply N.eq_dec; try apply Bool.bool_dec;
  try (apply list_eq_dec; apply Z.eq_dec).
Qed.
Fixpoint del_one (old : item) (its : list item) : list item :=
  match its with
  | [] => []
  | x :: t => if item_eq_dec x old then t else x :: del_one old t
  end.
Lemma ph_del_one old its : ph old its (del_one old its).
Proof.
  induction its as [|x t IH]; simpl; [constructor|]. destruct (item_eq_dec x old) as [->|N]; [apply ph_skip, ph_refl|apply ph_keep; assumption].
Qed.
Lemma del_one_meq old its : In old its -> meq (del_one old its ++ [old]) its.
Proof.
  induction its as [|x t IH]; simpl; [tauto|]. destruct (item_eq_dec x old) as [->|N].
  - intros _. split; [intros l; rewrite occ_app; cbn [occ]; lia|rewrite zlen_app, !zlen_cons', zlen_nil; lia].
  - intros [E|H]; [congruence|]. destruct (IH H) as [Mo Ml]. split.
    + intros l. specialize (Mo l). cbn [app occ]. rewrite occ_app in *. cbn [occ] in *. lia.
    + cbn [app]. rewrite !zlen_cons', zlen_app in *. lia.
Qed.

(* the virtual cell: same count, the children without one occurrence of old *)
Definition vcell (old : item) (c : cell) : cell :=
  match c with CBuf _ => c | _ => CSeq (cell_rc c) (del_one old (cell_children c)) end.
Lemma vcell_rc old c : cell_rc (vcell old c) = cell_rc c.
Proof. destruct c; reflexivity. Qed.
Lemma vcell_comp old c : is_comp c -> is_comp (vcell old c).
Proof. destruct c; simpl; auto. Qed.
Lemma vcell_set_rc old c r : vcell old (cell_set_rc c r) = cell_set_rc (vcell old c) r.
Proof. destruct c; reflexivity. Qed.
Lemma vcell_ph old c : ph old (cell_children c) (cell_children (vcell old c)).
Proof. destruct c; simpl; try apply ph_del_one; try constructor. Qed.

(* Remove(old) while old is still a child of the live compound at l, followed by the edit that takes it out (and
   possibly puts [add] in): the balance afterwards *)
Lemma G_remove_then_edit h refs X l c old lo cf add :
  G h refs [] X -> hget h l = Some c -> live c = true -> is_comp c -> In old (cell_children c) -> item_cloc old = Some lo ->
  let h1 := fst (ref_remove h refs old) in let r1 := snd (ref_remove h refs old) in
  forall c1, hget h1 l = Some c1 -> cell_children c1 = cell_children c ->
  cell_rc cf = cell_rc c1 -> meq (cell_children cf ++ [old]) (cell_children c ++ add) ->
  G (hset h1 l cf) r1 (if live c1 then add else []) X.
Proof.
  intros Hg Ec Lc Cc Hin Eo h1 r1 c1 E1 Ech Erc M.
  (* the virtual edit first *)
  assert (Hv : G (ed l (vcell old) h) refs [] (old :: X)).
  { unfold ed. rewrite Ec. change (old :: X) with ([old] ++ X). change (@nil item) with (@nil item ++ []).
    apply (G_edit h refs [] X l c (vcell old c) [] [old] Hg Ec (vcell_rc old c)). rewrite Lc.
    destruct c; simpl in Cc; try tauto; cbn [vcell cell_children app]; rewrite app_nil_r; apply del_one_meq; exact Hin. }
  pose proof (stale_remove l (vcell old) (vcell_rc old) (vcell_comp old) (vcell_set_rc old) old lo Eo (vcell_ph old) h refs X Hv) as Hs.
  fold h1 r1 in Hs. unfold ed in Hs. rewrite E1 in Hs.
  (* from the virtual cell to the final one *)
  assert (Eh : hset h1 l cf = hset (hset h1 l (vcell old c1)) l cf) by (rewrite hset_hset; reflexivity).
  rewrite Eh.
  assert (Ev : hget (hset h1 l (vcell old c1)) l = Some (vcell old c1)) by (eapply hget_hset_same; eauto).
  assert (Cc1 : is_comp c1).
  { destruct c1; simpl; auto. rewrite <- Ech in Hin. simpl in Hin. tauto. }
  assert (Lv : live (vcell old c1) = live c1) by (unfold live; rewrite vcell_rc; reflexivity).
  destruct (live c1) eqn:L1.
  - rewrite <- (app_nil_r add). change X with ([] ++ X).
    apply (G_edit _ _ _ _ l (vcell old c1) cf add [] Hs Ev); [rewrite vcell_rc; assumption|]. rewrite Lv.
    rewrite app_nil_r. destruct M as [Mo Ml].
    assert (Dv : cell_children (vcell old c1) = del_one old (cell_children c)).
    { destruct c1; simpl in Cc1; try tauto; cbn [vcell cell_children] in *; rewrite Ech; reflexivity. }
    rewrite Dv. destruct (del_one_meq old _ Hin) as [Do Dl]. split.
    + intros x. specialize (Mo x). specialize (Do x). rewrite !occ_app in *. cbn [occ] in *. lia.
    + rewrite !zlen_app in *. rewrite !zlen_cons', zlen_nil in *. lia.
  - change (@nil item) with (@nil item ++ []). change X with ([] ++ X).
    apply (G_edit _ _ _ _ l (vcell old c1) cf [] [] Hs Ev); [rewrite vcell_rc; assumption|]. rewrite Lv. auto.
Qed.
