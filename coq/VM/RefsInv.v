(* The in-degree invariant of the item accounting (ref_counter.go), for arbitrary heaps incl. shared and cyclic
   structures.

     occ l its        number of references to compound l among the items its
     live c           the compound's own count rc is not 0 ("referenced")
     live_occ h l     references to l from the children of the live compounds of h
     live_size h      total number of children of the live compounds of h
     G h refs A X     the balance:  for every l   rc(l) + occ l A = occ l X + live_occ h l
                                    and           refs  + |A|     = |X|     + live_size h
                      X = the references held outside the heap that exist (stack and slot entries of all contexts, and
                          values an instruction holds counted in local variables),
                      A = references that already exist in X or in live children but which the counter has not been
                          told about yet (work still to be done by refCounter.Add).
   The VM state invariant is G h refs [] (roots ++ nothing held).  Add consumes A, Remove consumes entries of X. *)
From NG Require Import VM.Model VM.LimitsData.
Open Scope Z_scope.

(* ---------- counting ---------- *)
Definition hit (l : loc) (it : item) : Z :=
  match item_cloc it with Some l' => if Nat.eqb l' l then 1 else 0 | None => 0 end.
Fixpoint occ (l : loc) (its : list item) : Z :=
  match its with [] => 0 | it :: t => hit l it + occ l t end.

Lemma hit_range l it : 0 <= hit l it <= 1.
Proof. unfold hit. destruct (item_cloc it); [case_if|]; lia. Qed.
Lemma occ_nonneg l its : 0 <= occ l its.
Proof. induction its as [|a t IH]; simpl; [lia|]. pose proof (hit_range l a). lia. Qed.
Lemma occ_app l a b : occ l (a ++ b) = occ l a + occ l b.
Proof. induction a as [|x a IH]; simpl; lia. Qed.
Lemma occ_cons l x a : occ l (x :: a) = hit l x + occ l a.
Proof. reflexivity. Qed.
Lemma occ_nil l : occ l [] = 0. Proof. reflexivity. Qed.
Lemma occ_rev l a : occ l (rev a) = occ l a.
Proof. induction a as [|x a IH]; simpl; [reflexivity|]. rewrite occ_app. simpl. lia. Qed.
Lemma hit_prim l it : item_cloc it = None -> hit l it = 0.
Proof. unfold hit. intros ->. reflexivity. Qed.
Lemma hit_self it l : item_cloc it = Some l -> hit l it = 1.
Proof. unfold hit. intros ->. rewrite Nat.eqb_refl. reflexivity. Qed.
Lemma hit_other it l l' : item_cloc it = Some l' -> l' <> l -> hit l it = 0.
Proof. unfold hit. intros -> N. apply Nat.eqb_neq in N. rewrite N. reflexivity. Qed.
Lemma occ_in l its it : In it its -> item_cloc it = Some l -> 1 <= occ l its.
Proof.
  induction its as [|a t IH]; simpl; [tauto|]. intros [->|H] E.
  - rewrite (hit_self _ _ E). pose proof (occ_nonneg l t). lia.
  - pose proof (hit_range l a). specialize (IH H E). lia.
Qed.

Definition live (c : cell) : bool := negb (cell_rc c =? 0).
Fixpoint sumf (f : cell -> Z) (h : heap) : Z := match h with [] => 0 | c :: t => f c + sumf f t end.
Definition kocc (l : loc) (c : cell) : Z := if live c then occ l (cell_children c) else 0.
Definition ksize (c : cell) : Z := if live c then zlen (cell_children c) else 0.
Definition live_occ (h : heap) (l : loc) : Z := sumf (kocc l) h.
Definition live_size (h : heap) : Z := sumf ksize h.
Definition rc_of (h : heap) (l : loc) : Z := match hget h l with Some c => cell_rc c | None => 0 end.

Lemma sumf_app f a b : sumf f (a ++ b) = sumf f a + sumf f b.
Proof. induction a as [|x a IH]; simpl; lia. Qed.
Lemma sumf_hset f : forall h i c c', hget h i = Some c -> sumf f (hset h i c') = sumf f h - f c + f c'.
Proof.
  induction h as [|x h IH]; intros [|i] c c' E; simpl in *; try discriminate.
  - inv E. lia.
  - unfold hget in IH. rewrite (IH i c c' E). lia.
Qed.
Lemma sumf_nonneg f h : (forall c, 0 <= f c) -> 0 <= sumf f h.
Proof. intros H. induction h as [|x h IH]; simpl; [lia|]. specialize (H x). lia. Qed.
Lemma kocc_nonneg l c : 0 <= kocc l c.
Proof. unfold kocc. case_if; [apply occ_nonneg|lia]. Qed.
Lemma ksize_nonneg c : 0 <= ksize c.
Proof. unfold ksize. case_if; [apply zlen_ge0|lia]. Qed.
Lemma live_occ_nonneg h l : 0 <= live_occ h l.
Proof. apply sumf_nonneg. apply kocc_nonneg. Qed.
Lemma live_size_nonneg h : 0 <= live_size h.
Proof. apply sumf_nonneg. apply ksize_nonneg. Qed.

Lemma hget_hset_same : forall h i c c', hget h i = Some c -> hget (hset h i c') i = Some c'.
Proof. induction h as [|x h IH]; intros [|i] c c' E; simpl in *; try discriminate; eauto. Qed.
Lemma hget_hset_other : forall h i j c', i <> j -> hget (hset h i c') j = hget h j.
Proof.
  induction h as [|x h IH]; intros [|i] [|j] c' N; simpl in *; try reflexivity; try lia.
  apply IH. lia.
Qed.
Lemma hset_length : forall h i c, length (hset h i c) = length h.
Proof. induction h as [|x h IH]; intros [|i] c; simpl; auto. Qed.
Lemma rc_of_hset_same h i c c' : hget h i = Some c -> rc_of (hset h i c') i = cell_rc c'.
Proof. intros E. unfold rc_of. rewrite (hget_hset_same _ _ _ _ E). reflexivity. Qed.
Lemma rc_of_hset_other h i j c' : i <> j -> rc_of (hset h i c') j = rc_of h j.
Proof. intros N. unfold rc_of. rewrite hget_hset_other by assumption. reflexivity. Qed.

(* ---------- well-formedness: compound references point at compound cells ---------- *)
Definition is_comp (c : cell) : Prop := match c with CBuf _ => False | _ => True end.
Definition valid (h : heap) (it : item) : Prop :=
  match item_cloc it with Some l => exists c, hget h l = Some c /\ is_comp c | None => True end.
Definition wfh (h : heap) : Prop := Forall (fun c => Forall (valid h) (cell_children c)) h.
Definition rc_nonneg (h : heap) : Prop := Forall (fun c => 0 <= cell_rc c) h.

Lemma set_rc_children c r : cell_children (cell_set_rc c r) = cell_children c.
Proof. destruct c; reflexivity. Qed.
Lemma set_rc_comp c r : is_comp c -> is_comp (cell_set_rc c r).
Proof. destruct c; simpl; auto. Qed.
Lemma set_rc_rc c r : is_comp c -> cell_rc (cell_set_rc c r) = r.
Proof. destruct c; simpl; tauto. Qed.

(* validity only depends on which locations hold compound cells *)
Definition same_shape (h h' : heap) : Prop :=
  forall l c, hget h l = Some c -> is_comp c -> exists c', hget h' l = Some c' /\ is_comp c'.
Lemma valid_shape h h' it : same_shape h h' -> valid h it -> valid h' it.
Proof. unfold valid. intros S. destruct (item_cloc it) as [l|]; [|auto]. intros (c & E & C). eapply S; eauto. Qed.
Lemma same_shape_refl h : same_shape h h.
Proof. intros l c E C. eauto. Qed.
Lemma same_shape_trans a b c : same_shape a b -> same_shape b c -> same_shape a c.
Proof. intros H1 H2 l x E C. destruct (H1 l x E C) as (y & Ey & Cy). eapply H2; eauto. Qed.
Lemma same_shape_hset h i c c' : hget h i = Some c -> (is_comp c -> is_comp c') -> same_shape h (hset h i c').
Proof.
  intros E K l x Ex Cx. destruct (Nat.eq_dec i l) as [->|N].
  - rewrite E in Ex. inv Ex. exists c'. split; [eapply hget_hset_same; eauto|auto].
  - exists x. rewrite hget_hset_other by assumption. auto.
Qed.
Lemma same_shape_app h t : same_shape h (h ++ t).
Proof.
  intros l c E C. exists c. split; [|assumption]. unfold hget in *. rewrite nth_error_app1; [assumption|].
  apply nth_error_Some. congruence.
Qed.
Lemma Forall_valid_shape h h' its : same_shape h h' -> Forall (valid h) its -> Forall (valid h') its.
Proof. intros S H. eapply Forall_impl; [|exact H]. intros it. apply valid_shape. assumption. Qed.

Lemma wfh_set_rc h i c r : wfh h -> hget h i = Some c -> wfh (hset h i (cell_set_rc c r)).
Proof.
  intros W E. assert (S : same_shape h (hset h i (cell_set_rc c r))).
  { eapply same_shape_hset; eauto. apply set_rc_comp. }
  unfold wfh in *.
  assert (K : forall h0 j, Forall (fun c0 => Forall (valid h) (cell_children c0)) h0 -> hget h0 j = Some c ->
              Forall (fun c0 => Forall (valid (hset h i (cell_set_rc c r))) (cell_children c0)) (hset h0 j (cell_set_rc c r))).
  { induction h0 as [|x h0 IH]; intros [|j] F Ej; simpl in *; try discriminate; inv F.
    - inv Ej. constructor; [rewrite set_rc_children; eapply Forall_valid_shape; eauto|].
      eapply Forall_impl; [|exact H2]. intros a. apply Forall_valid_shape. assumption.
    - constructor; [eapply Forall_valid_shape; eauto|]. apply IH; assumption. }
  apply K; assumption.
Qed.
Lemma wfh_children h l c : wfh h -> hget h l = Some c -> Forall (valid h) (cell_children c).
Proof. intros W E. unfold wfh in W. eapply Forall_nth_error in E; [|exact W]. exact E. Qed.
Lemma rc_nonneg_hset h i c' : rc_nonneg h -> 0 <= cell_rc c' -> rc_nonneg (hset h i c').
Proof.
  unfold rc_nonneg. revert i; induction h as [|x h IH]; intros [|i] H C; simpl; inv H; constructor; auto.
Qed.
Lemma rc_nonneg_get h l c : rc_nonneg h -> hget h l = Some c -> 0 <= cell_rc c.
Proof. intros H E. eapply Forall_nth_error in E; [|exact H]. exact E. Qed.

(* ---------- the balance ---------- *)
Record G (h : heap) (refs : Z) (A X : list item) : Prop := mkG {
  g_rc : rc_nonneg h;
  g_one : forall l, rc_of h l + occ l A = occ l X + live_occ h l;
  g_two : refs + zlen A = zlen X + live_size h
}.

(* X and A matter only as multisets *)
Definition meq (a b : list item) : Prop := (forall l, occ l a = occ l b) /\ zlen a = zlen b.
Lemma G_meq h refs A X A' X' : meq A A' -> meq X X' -> G h refs A X -> G h refs A' X'.
Proof.
  intros [Oa La] [Ox Lx] [R O T]. constructor; [assumption| |lia].
  intros l. rewrite <- Oa, <- Ox. apply O.
Qed.

(* effect of changing the count of one compound on the sums *)
Lemma live_set_rc c r : is_comp c -> live (cell_set_rc c r) = negb (r =? 0).
Proof. intros C. unfold live. rewrite set_rc_rc by assumption. reflexivity. Qed.

Lemma live_occ_set_rc h i c r l : hget h i = Some c -> is_comp c ->
  live_occ (hset h i (cell_set_rc c r)) l =
  live_occ h l - (if live c then occ l (cell_children c) else 0) + (if r =? 0 then 0 else occ l (cell_children c)).
Proof.
  intros E C. unfold live_occ. rewrite (sumf_hset _ _ _ _ _ E). unfold kocc.
  rewrite live_set_rc, set_rc_children by assumption. destruct (r =? 0); reflexivity.
Qed.
Lemma live_size_set_rc h i c r : hget h i = Some c -> is_comp c ->
  live_size (hset h i (cell_set_rc c r)) =
  live_size h - (if live c then zlen (cell_children c) else 0) + (if r =? 0 then 0 else zlen (cell_children c)).
Proof.
  intros E C. unfold live_size. rewrite (sumf_hset _ _ _ _ _ E). unfold ksize.
  rewrite live_set_rc, set_rc_children by assumption. destruct (r =? 0); reflexivity.
Qed.

(* ---------- refCounter.Add ---------- *)
(* children of the compounds that are not live: what Add may still have to walk *)
Definition dead_size (h : heap) : Z := sumf (fun c => if live c then 0 else zlen (cell_children c)) h.
Lemma dead_size_nonneg h : 0 <= dead_size h.
Proof. apply sumf_nonneg. intros c. case_if; [lia|apply zlen_ge0]. Qed.
Lemma dead_live_weight h : dead_size h + live_size h = Z.of_nat (heap_weight h).
Proof.
  induction h as [|c h IH]; simpl; [reflexivity|]. unfold dead_size, live_size in *. simpl.
  unfold ksize in *. rewrite Nat2Z.inj_add. unfold zlen in *. destruct (live c); lia.
Qed.
Lemma dead_size_set_rc h i c r : hget h i = Some c -> is_comp c ->
  dead_size (hset h i (cell_set_rc c r)) =
  dead_size h - (if live c then 0 else zlen (cell_children c)) + (if r =? 0 then zlen (cell_children c) else 0).
Proof.
  intros E C. unfold dead_size. rewrite (sumf_hset _ _ _ _ _ E).
  rewrite live_set_rc, set_rc_children by assumption. destruct (r =? 0); reflexivity.
Qed.

Lemma ref_add_wl_G : forall fuel h refs w A X,
  G h refs (w ++ A) X -> wfh h -> Forall (valid h) w ->
  zlen w + dead_size h < Z.of_nat fuel ->
  let '(h', refs') := ref_add_wl fuel h refs w in
  G h' refs' A X /\ wfh h' /\ same_shape h h' /\ length h' = length h.
Proof.
  induction fuel as [|f IH]; intros h refs w A X Hg W V F.
  - pose proof (zlen_ge0 w). pose proof (dead_size_nonneg h). simpl in F. lia.
  - destruct w as [|it w]; simpl ref_add_wl.
    + simpl in Hg. split; [assumption|]. split; [assumption|]. split; [apply same_shape_refl|reflexivity].
    + inv V. rename H1 into Vit. rename H2 into Vw. rewrite zlen_cons' in F.
      destruct (item_cloc it) as [l0|] eqn:Ecl.
      * unfold valid in Vit. rewrite Ecl in Vit. destruct Vit as (c & Ec & Cc). rewrite Ec.
        destruct Hg as [R O T].
        pose proof (rc_nonneg_get _ _ _ R Ec) as Rc.
        set (h1 := hset h l0 (cell_set_rc c (cell_rc c + 1))).
        assert (W1 : wfh h1) by (apply wfh_set_rc; assumption).
        assert (S1 : same_shape h h1) by (eapply same_shape_hset; eauto; apply set_rc_comp).
        assert (L1 : length h1 = length h) by apply hset_length.
        assert (R1 : rc_nonneg h1).
        { apply rc_nonneg_hset; [assumption|]. rewrite set_rc_rc by assumption. lia. }
        assert (Nz : (cell_rc c + 1 =? 0) = false) by lia.
        destruct (cell_rc c + 1 =? 1) eqn:E1.
        -- (* the compound becomes referenced: its children join the work list *)
           assert (Z0 : cell_rc c = 0) by lia.
           assert (Lc : live c = false) by (unfold live; rewrite Z0; reflexivity).
           specialize (IH h1 (refs + 1) (cell_children c ++ w) A X).
           destruct (ref_add_wl f h1 (refs + 1) (cell_children c ++ w)) as [h' refs'] eqn:Er.
           assert (Hg1 : G h1 (refs + 1) ((cell_children c ++ w) ++ A) X).
           { constructor; [assumption| |].
             - intros l. specialize (O l). unfold h1. rewrite (live_occ_set_rc _ _ _ _ _ Ec Cc), Lc, Nz.
               rewrite <- !app_assoc, occ_app. simpl in O.
               destruct (Nat.eq_dec l0 l) as [->|N].
               + rewrite (rc_of_hset_same _ _ _ _ Ec), set_rc_rc by assumption.
                 rewrite (hit_self _ _ Ecl) in O. unfold rc_of in O. rewrite Ec in O. lia.
               + rewrite rc_of_hset_other by assumption. rewrite (hit_other _ _ _ Ecl N) in O. lia.
             - unfold h1. rewrite (live_size_set_rc _ _ _ _ Ec Cc), Lc, Nz.
               simpl in T. repeat (rewrite ?zlen_app, ?zlen_cons' in * ). lia. }
           assert (V1 : Forall (valid h1) (cell_children c ++ w)).
           { apply Forall_app; split; eapply Forall_valid_shape; try exact S1; [eapply wfh_children; eauto|assumption]. }
           assert (F1 : zlen (cell_children c ++ w) + dead_size h1 < Z.of_nat f).
           { unfold h1. rewrite (dead_size_set_rc _ _ _ _ Ec Cc), Lc, Nz, zlen_app. lia. }
           specialize (IH Hg1 W1 V1 F1). cbv beta iota zeta in IH. destruct IH as (Gf & Wf & Sf & Lf).
           split; [assumption|]. split; [assumption|]. split; [eapply same_shape_trans; eauto|congruence].
        -- (* already referenced *)
           assert (Z0 : 0 < cell_rc c) by lia.
           assert (Lc : live c = true) by (unfold live; destruct (cell_rc c =? 0) eqn:Q; [lia|reflexivity]).
           specialize (IH h1 (refs + 1) w A X).
           destruct (ref_add_wl f h1 (refs + 1) w) as [h' refs'] eqn:Er.
           assert (Hg1 : G h1 (refs + 1) (w ++ A) X).
           { constructor; [assumption| |].
             - intros l. specialize (O l). unfold h1. rewrite (live_occ_set_rc _ _ _ _ _ Ec Cc), Lc, Nz. simpl in O.
               destruct (Nat.eq_dec l0 l) as [->|N].
               + rewrite (rc_of_hset_same _ _ _ _ Ec), set_rc_rc by assumption.
                 rewrite (hit_self _ _ Ecl) in O. unfold rc_of in O. rewrite Ec in O. lia.
               + rewrite rc_of_hset_other by assumption. rewrite (hit_other _ _ _ Ecl N) in O. lia.
             - unfold h1. rewrite (live_size_set_rc _ _ _ _ Ec Cc), Lc, Nz. simpl in T. rewrite zlen_cons' in T. lia. }
           assert (V1 : Forall (valid h1) w) by (eapply Forall_valid_shape; eauto).
           assert (F1 : zlen w + dead_size h1 < Z.of_nat f).
           { unfold h1. rewrite (dead_size_set_rc _ _ _ _ Ec Cc), Lc, Nz. lia. }
           specialize (IH Hg1 W1 V1 F1). cbv beta iota zeta in IH. destruct IH as (Gf & Wf & Sf & Lf).
           split; [assumption|]. split; [assumption|]. split; [eapply same_shape_trans; eauto|congruence].
      * (* a primitive value or a buffer *)
        specialize (IH h (refs + 1) w A X).
        destruct (ref_add_wl f h (refs + 1) w) as [h' refs'] eqn:Er.
        assert (Hg1 : G h (refs + 1) (w ++ A) X).
        { destruct Hg as [R O T]. constructor; [assumption| |].
          - intros l. specialize (O l). simpl in O. rewrite (hit_prim _ _ Ecl) in O. lia.
          - simpl in T. rewrite zlen_cons' in T. lia. }
        assert (F1 : zlen w + dead_size h < Z.of_nat f) by lia.
        specialize (IH Hg1 W Vw F1). exact IH.
Qed.

(* ---------- refCounter.Remove ---------- *)
Lemma rc_pos_comp c : cell_rc c <> 0 -> is_comp c.
Proof. destruct c; simpl; auto. Qed.

Lemma ref_remove_wl_G : forall fuel h refs w X,
  G h refs [] (w ++ X) ->
  zlen w + live_size h < Z.of_nat fuel ->
  let '(h', refs') := ref_remove_wl fuel h refs w in
  G h' refs' [] X /\ (wfh h -> wfh h') /\ same_shape h h' /\ length h' = length h.
Proof.
  induction fuel as [|f IH]; intros h refs w X Hg F.
  - pose proof (zlen_ge0 w). pose proof (live_size_nonneg h). simpl in F. lia.
  - destruct w as [|it w]; simpl ref_remove_wl.
    + simpl in Hg. split; [assumption|]. split; [auto|]. split; [apply same_shape_refl|reflexivity].
    + rewrite zlen_cons' in F. destruct Hg as [R O T].
      destruct (item_cloc it) as [l0|] eqn:Ecl.
      * pose proof (O l0) as O0. simpl in O0. rewrite (hit_self _ _ Ecl) in O0.
        pose proof (occ_nonneg l0 (w ++ X)). pose proof (live_occ_nonneg h l0).
        unfold rc_of in O0. destruct (hget h l0) as [c|] eqn:Ec; [|lia].
        assert (Rp : 1 <= cell_rc c) by lia.
        assert (Cc : is_comp c) by (apply rc_pos_comp; lia).
        assert (Lc : live c = true) by (unfold live; destruct (cell_rc c =? 0) eqn:Q; [lia|reflexivity]).
        destruct (cell_rc c =? 0) eqn:Q0; [lia|].
        set (h1 := hset h l0 (cell_set_rc c (cell_rc c - 1))).
        assert (S1 : same_shape h h1) by (eapply same_shape_hset; eauto; apply set_rc_comp).
        assert (L1 : length h1 = length h) by apply hset_length.
        assert (R1 : rc_nonneg h1).
        { apply rc_nonneg_hset; [assumption|]. rewrite set_rc_rc by assumption. lia. }
        destruct (cell_rc c - 1 =? 0) eqn:E1.
        -- (* last reference gone: the children are removed as well *)
           specialize (IH h1 (refs - 1) (cell_children c ++ w) X).
           destruct (ref_remove_wl f h1 (refs - 1) (cell_children c ++ w)) as [h' refs'] eqn:Er.
           assert (Hg1 : G h1 (refs - 1) [] ((cell_children c ++ w) ++ X)).
           { constructor; [assumption| |].
             - intros l. specialize (O l). unfold h1. rewrite (live_occ_set_rc _ _ _ _ _ Ec Cc), Lc, E1.
               rewrite <- app_assoc, occ_app. simpl in O.
               destruct (Nat.eq_dec l0 l) as [->|N].
               + rewrite (rc_of_hset_same _ _ _ _ Ec), set_rc_rc by assumption.
                 rewrite (hit_self _ _ Ecl) in O. unfold rc_of in O. rewrite Ec in O. cbn [occ app] in *. lia.
               + rewrite rc_of_hset_other by assumption. rewrite (hit_other _ _ _ Ecl N) in O. cbn [occ app] in *. lia.
             - unfold h1. rewrite (live_size_set_rc _ _ _ _ Ec Cc), Lc, E1.
               cbn [app] in T. repeat (rewrite ?zlen_app, ?zlen_cons', ?zlen_nil in * ). lia. }
           assert (F1 : zlen (cell_children c ++ w) + live_size h1 < Z.of_nat f).
           { unfold h1. rewrite (live_size_set_rc _ _ _ _ Ec Cc), Lc, E1, zlen_app. lia. }
           specialize (IH Hg1 F1). cbv beta iota zeta in IH. destruct IH as (Gf & Wf & Sf & Lf).
           split; [assumption|]. split; [intros W; apply Wf; apply wfh_set_rc; assumption|].
           split; [eapply same_shape_trans; eauto|congruence].
        -- specialize (IH h1 (refs - 1) w X).
           destruct (ref_remove_wl f h1 (refs - 1) w) as [h' refs'] eqn:Er.
           assert (Hg1 : G h1 (refs - 1) [] (w ++ X)).
           { constructor; [assumption| |].
             - intros l. specialize (O l). unfold h1. rewrite (live_occ_set_rc _ _ _ _ _ Ec Cc), Lc, E1. simpl in O.
               destruct (Nat.eq_dec l0 l) as [->|N].
               + rewrite (rc_of_hset_same _ _ _ _ Ec), set_rc_rc by assumption.
                 rewrite (hit_self _ _ Ecl) in O. unfold rc_of in O. rewrite Ec in O. cbn [occ app] in *. lia.
               + rewrite rc_of_hset_other by assumption. rewrite (hit_other _ _ _ Ecl N) in O. cbn [occ app] in *. lia.
             - unfold h1. rewrite (live_size_set_rc _ _ _ _ Ec Cc), Lc, E1.
               cbn [app] in T. repeat (rewrite ?zlen_app, ?zlen_cons', ?zlen_nil in * ). lia. }
           assert (F1 : zlen w + live_size h1 < Z.of_nat f).
           { unfold h1. rewrite (live_size_set_rc _ _ _ _ Ec Cc), Lc, E1. lia. }
           specialize (IH Hg1 F1). cbv beta iota zeta in IH. destruct IH as (Gf & Wf & Sf & Lf).
           split; [assumption|]. split; [intros W; apply Wf; apply wfh_set_rc; assumption|].
           split; [eapply same_shape_trans; eauto|congruence].
      * specialize (IH h (refs - 1) w X).
        destruct (ref_remove_wl f h (refs - 1) w) as [h' refs'] eqn:Er.
        assert (Hg1 : G h (refs - 1) [] (w ++ X)).
        { constructor; [assumption| |].
          - intros l. specialize (O l). cbn [occ app] in *. rewrite (hit_prim _ _ Ecl) in O. lia.
          - cbn [app] in T. repeat (rewrite ?zlen_app, ?zlen_cons', ?zlen_nil in * ). lia. }
        assert (F1 : zlen w + live_size h < Z.of_nat f) by lia.
        specialize (IH Hg1 F1). exact IH.
Qed.

(* the fuel the model gives is enough *)
Lemma ref_fuel_add h w : zlen w + dead_size h < Z.of_nat (ref_fuel h w).
Proof.
  unfold ref_fuel. pose proof (dead_live_weight h). pose proof (live_size_nonneg h). unfold zlen. lia.
Qed.
Lemma ref_fuel_remove h w : zlen w + live_size h < Z.of_nat (ref_fuel h w).
Proof.
  unfold ref_fuel. pose proof (dead_live_weight h). pose proof (dead_size_nonneg h). unfold zlen. lia.
Qed.

(* results packaged *)
Definition post_ok (h h' : heap) : Prop := (wfh h -> wfh h') /\ same_shape h h' /\ length h' = length h.

Lemma ref_add_G h refs it A X :
  G h refs (it :: A) X -> wfh h -> valid h it ->
  G (fst (ref_add h refs it)) (snd (ref_add h refs it)) A X /\ post_ok h (fst (ref_add h refs it)).
Proof.
  intros Hg W V. unfold ref_add. destruct (item_cloc it) as [l|] eqn:E.
  - pose proof (ref_add_wl_G (ref_fuel h [it]) h refs [it] A X Hg W (Forall_cons _ V (Forall_nil _)) (ref_fuel_add h [it])) as K.
    destruct (ref_add_wl (ref_fuel h [it]) h refs [it]) as [h' r']. destruct K as (K1 & K2 & K3 & K4).
    split; [exact K1|]. split; [auto|]. split; assumption.
  - simpl. split; [|split; [auto|split; [apply same_shape_refl|reflexivity]]].
    destruct Hg as [R O T]. constructor; [assumption| |].
    + intros l. specialize (O l). simpl in O. rewrite (hit_prim _ _ E) in O. lia.
    + rewrite zlen_cons' in T. lia.
Qed.
Lemma ref_add_list_G h refs w A X :
  G h refs (w ++ A) X -> wfh h -> Forall (valid h) w ->
  G (fst (ref_add_list h refs w)) (snd (ref_add_list h refs w)) A X /\ post_ok h (fst (ref_add_list h refs w)).
Proof.
  intros Hg W V. unfold ref_add_list.
  pose proof (ref_add_wl_G (ref_fuel h w) h refs w A X Hg W V (ref_fuel_add h w)) as K.
  destruct (ref_add_wl (ref_fuel h w) h refs w) as [h' r']. destruct K as (K1 & K2 & K3 & K4).
  split; [exact K1|]. split; [auto|]. split; assumption.
Qed.
Lemma ref_remove_list_G h refs w X :
  G h refs [] (w ++ X) ->
  G (fst (ref_remove_list h refs w)) (snd (ref_remove_list h refs w)) [] X /\ post_ok h (fst (ref_remove_list h refs w)).
Proof.
  intros Hg. unfold ref_remove_list.
  pose proof (ref_remove_wl_G (ref_fuel h w) h refs w X Hg (ref_fuel_remove h w)) as K.
  destruct (ref_remove_wl (ref_fuel h w) h refs w) as [h' r']. exact K.
Qed.
Lemma ref_remove_G h refs it X :
  G h refs [] (it :: X) ->
  G (fst (ref_remove h refs it)) (snd (ref_remove h refs it)) [] X /\ post_ok h (fst (ref_remove h refs it)).
Proof.
  intros Hg. unfold ref_remove. destruct (item_cloc it) as [l|] eqn:E.
  - pose proof (ref_remove_wl_G (ref_fuel h [it]) h refs [it] X Hg (ref_fuel_remove h [it])) as K.
    destruct (ref_remove_wl (ref_fuel h [it]) h refs [it]) as [h' r']. exact K.
  - simpl. split; [|split; [auto|split; [apply same_shape_refl|reflexivity]]].
    destruct Hg as [R O T]. constructor; [assumption| |].
    + intros l. specialize (O l). cbn [occ app] in *. rewrite (hit_prim _ _ E) in O. lia.
    + rewrite zlen_cons' in T. cbn [occ app] in *. lia.
Qed.
