(* The in-degree invariant through the compound-type instructions (the hand-adjusted sites of vm.go). *)
From NG Require Import VM.Model VM.LimitsData VM.Reach VM.RefsInv VM.RefsMoves VM.RefsData VM.RefsOps.
Open Scope Z_scope.

(* ---------- more primitives ---------- *)
Lemma dI_push_v E A U d it : dI E A U d -> valid (d_heap d) it -> dI E A U (push it d).
Proof.
  intros [Hgi Hu Hk] V. unfold push. apply dI_add. constructor; [|exact Hu|exact Hk].
  cbn [push_noref set_es d_heap d_refs]. exact (GI_new_root _ _ _ _ it Hgi V).
Qed.

Lemma dI_valid_U E A U d it : dI E A U d -> In it U -> valid (d_heap d) it.
Proof. intros [_ Hu _] H. rewrite Forall_forall in Hu. auto. Qed.
Lemma dI_valid_E E A U d it : dI E A U d -> In it E -> valid (d_heap d) it.
Proof. intros [[_ _ Vx _] _ _] H. rewrite Forall_forall in Vx. apply Vx. rewrite in_app_iff. tauto. Qed.
Lemma dI_wfh E A U d : dI E A U d -> wfh (d_heap d).
Proof. intros [[_ W _ _] _ _]. exact W. Qed.
Lemma dI_child_valid E A U d l c it : dI E A U d -> hget (d_heap d) l = Some c -> In it (cell_children c) -> valid (d_heap d) it.
Proof. intros H Ec Hin. pose proof (wfh_children _ _ _ (dI_wfh _ _ _ _ H) Ec) as V. rewrite Forall_forall in V. auto. Qed.

(* a live compound built from held children, rooted on the stack with one count (pushItemCounted(x, 1)) *)
Lemma dI_alloc_live_held E U d c r :
  dI (cell_children c ++ E) [] U d -> cell_rc c = 1 -> is_comp c -> cell_kp c -> item_cloc r = Some (length (d_heap d)) ->
  dI E [] U (push_counted r 1 (set_heap d (d_heap d ++ [c]))).
Proof.
  intros [Hgi Hu Hk] Z C Kc Er. constructor.
  - cbn [push_counted push_noref set_refs set_heap set_mem set_es d_heap d_refs].
    assert (M : GI (d_heap d) (d_refs d) [] (cell_children c ++ (droots_l d ++ E))).
    { eapply GI_meq; try exact Hgi; try apply meq_refl; [| |constructor].
      - split; [intros l; repeat rewrite ?occ_app; lia|repeat rewrite ?zlen_app; lia].
      - destruct Hgi as [_ _ Vx _]. eapply Forall_valid_perm; [|exact Vx]. intros a. repeat rewrite ?in_app_iff. tauto. }
    pose proof (GI_alloc_live_held _ _ _ _ c r M Z C Er) as N. exact N.
  - cbn [push_counted push_noref set_refs set_heap set_mem set_es d_heap]. apply Forall_valid_app. assumption.
  - cbn [push_counted push_noref set_refs set_heap set_mem set_es d_heap]. apply keys_prim_app; assumption.
Qed.

(* a live compound of primitive children counted by hand (pushItemCounted(x, n + 1)) *)
Lemma dI_alloc_live_prims E U d c r :
  dI E [] U d -> cell_rc c = 1 -> is_comp c -> cell_kp c -> Forall (fun it => item_cloc it = None) (cell_children c) ->
  item_cloc r = Some (length (d_heap d)) ->
  dI E [] U (push_counted r (zlen (cell_children c) + 1) (set_heap d (d_heap d ++ [c]))).
Proof.
  intros [Hgi Hu Hk] Z C Kc P Er. constructor.
  - cbn [push_counted push_noref set_refs set_heap set_mem set_es d_heap d_refs].
    pose proof (GI_alloc_live_prims _ _ _ _ c r Hgi Z C P Er) as N.
    replace (d_refs d + (zlen (cell_children c) + 1)) with (d_refs d + zlen (cell_children c) + 1) by lia. exact N.
  - cbn [push_counted push_noref set_refs set_heap set_mem set_es d_heap]. apply Forall_valid_app. assumption.
  - cbn [push_counted push_noref set_refs set_heap set_mem set_es d_heap]. apply keys_prim_app; assumption.
Qed.

Lemma default_of_prim t : item_cloc (default_of t) = None.
Proof. unfold default_of. repeat case_if; reflexivity. Qed.

(* ================= FAMILY 2: creation ================= *)
Section Create.
Variable Ex : list item.

Lemma new_empty_I c mk d :
  dI0 Ex d -> cell_rc c = 0 -> cell_children c = [] -> cell_kp c -> is_comp c ->
  (forall l, item_cloc (mk l) = Some l) -> res_I Ex (new_empty c mk d).
Proof.
  intros [U H] Z Ch Kc C Mk. unfold new_empty, alloc, halloc. unfold ok. cbn [res_I]. eapply dI0_intro.
  apply dI_push_v.
  - apply dI_alloc_dead; [eassumption|assumption|rewrite Ch; constructor|assumption].
  - cbn [set_heap set_mem d_heap]. unfold valid. rewrite Mk. exists c. split; [apply hget_app_new|assumption].
Qed.

Lemma new_seq_I b t d : dI0 Ex d -> res_I Ex (new_seq b t d).
Proof.
  intros [U H]. unfold new_seq, alloc, halloc. opensI.
  match goal with K : dI Ex [] _ ?d0 |- _ => rename K into H0 end.
  eapply dI0_intro.
  match goal with |- dI _ _ _ (push_counted ?r (?n + 1) (set_heap ?d0 (_ ++ [?c]))) =>
    replace (n + 1) with (zlen (cell_children c) + 1) by (cbn [cell_children]; rewrite zlen_repeat; lia);
    apply dI_alloc_live_prims end; try eassumption; try reflexivity; try exact I.
  - cbn [cell_children]. apply Forall_repeat. apply default_of_prim.
  - destruct b; reflexivity.
Qed.

Lemma op_pack_I b d : dI0 Ex d -> res_I Ex (op_pack b d).
Proof.
  intros [U H]. unfold op_pack, alloc, halloc. opensI.
  match goal with K : dI Ex [] _ ?d0 |- _ => rename K into H0 end.
  eapply dI0_intro.
  match goal with |- dI _ _ _ (push_counted ?r 1 (set_heap ?d1 (_ ++ [?c]))) =>
    apply (dI_alloc_live_held Ex _ d1 c r) end; try reflexivity; try exact I.
  - cbn [cell_children]. apply dI_hold; [eassumption| |].
    + rewrite <- (firstn_skipn (Z.to_nat z) (d_es d0)) at 1. split; [intros l; rewrite !occ_app; lia|rewrite !zlen_app; lia].
    + intros a. rewrite <- (firstn_skipn (Z.to_nat z) (d_es d0)) at 3. rewrite !in_app_iff. tauto.
  - destruct b; reflexivity.
Qed.
End Create.

(* ---------- maps ---------- *)
Lemma valid_key_prim k : valid_key k = true -> item_cloc k = None.
Proof. destruct k; simpl; try discriminate; reflexivity. Qed.

Lemma map_add_new es k v : map_index es k = None -> map_add es k v = es ++ [(k, v)].
Proof.
  induction es as [|[k' v'] t IH]; simpl; [reflexivity|]. case_if; [discriminate|].
  destruct (map_index t k); [discriminate|]. intros _. rewrite IH; reflexivity.
Qed.
Lemma flat_entries_app a b : flat_entries (a ++ b) = flat_entries a ++ flat_entries b.
Proof. induction a as [|[k v] a IH]; simpl; [reflexivity|]. rewrite IH. reflexivity. Qed.

Lemma map_add_found es k v i k0 old :
  map_index es k = Some i -> nth_error es i = Some (k0, old) ->
  (forall l, occ l (flat_entries (map_add es k v)) + hit l old = occ l (flat_entries es) + hit l v) /\
  zlen (flat_entries (map_add es k v)) = zlen (flat_entries es) /\
  (forall a, In a (flat_entries (map_add es k v)) -> a = v \/ In a (flat_entries es)) /\
  In old (flat_entries es) /\ map fst (map_add es k v) = map fst es.
Proof.
  revert i. induction es as [|[k' v'] t IH]; intros i; simpl; [discriminate|].
  destruct (key_eqb k' k) eqn:Q.
  - intros X N; inv X. simpl in N. inv N. simpl. repeat split.
    + intros l. lia.
    + intros a [->|[->|H]]; auto.
    + auto.
  - destruct (map_index t k) as [j|] eqn:Mj; [|discriminate]. intros X N; inv X. simpl in N.
    destruct (IH j eq_refl N) as (Ho & Hl & Hi & Hin & Hf). simpl. repeat split.
    + intros l. specialize (Ho l). lia.
    + rewrite !zlen_cons'. lia.
    + intros a [->|[->|H]]; auto. destruct (Hi a H); auto.
    + auto.
    + rewrite Hf. reflexivity.
Qed.

Lemma dI_E_meq E E' A U d :
  dI E A U d -> meq E E' -> (forall a, In a E' -> In a E) -> dI E' A U d.
Proof.
  intros H [Mo Ml] S. eapply dI_rearr; try exact H; try reflexivity; try apply meq_refl; try tauto.
  - split; [intros l; rewrite !occ_app, Mo; reflexivity|rewrite !zlen_app; lia].
  - intros a. rewrite !in_app_iff. intros [K|K]; auto.
Qed.

(* un-counting a held primitive by hand (refs--) *)
Lemma dI_untoken E U d p : dI (p :: E) [] U d -> item_cloc p = None -> dI E [] U (set_refs d (d_refs d - 1)).
Proof.
  intros [Hgi Hu Hk] P. constructor; [|exact Hu|exact Hk]. cbn [set_refs set_mem d_heap d_refs]. rewrite droots_l_set_refs.
  assert (M : GI (d_heap d) (d_refs d) [] (p :: droots_l d ++ E)).
  { eapply GI_meq; try exact Hgi; try apply meq_refl; [| |constructor].
    - split; [intros l; repeat rewrite ?occ_app, ?occ_cons; lia|repeat rewrite ?zlen_app, ?zlen_cons'; lia].
    - destruct Hgi as [_ _ Vx _]. eapply Forall_valid_perm; [|exact Vx]. intros a. simpl. repeat rewrite ?in_app_iff. simpl. tauto. }
  destruct M as [Hg W Vx Va]. inv Vx. constructor; try assumption. eapply G_untoken; eauto.
Qed.

Section PackMap.
Variable Ex : list item.

Definition keys_ok (es : list (item * item)) : Prop := Forall (fun kv => item_cloc (fst kv) = None) es.

Lemma packmap_loop_I n : forall es d U es' d',
  dI (flat_entries es ++ Ex) [] U d -> keys_ok es -> packmap_loop n es d = Some (es', d') ->
  (exists U', dI (flat_entries es' ++ Ex) [] U' d') /\ keys_ok es'.
Proof.
  induction n as [|n IH]; intros es d U es' d' H K; simpl.
  - intros Q; inv Q. split; [eexists; eassumption|assumption].
  - destruct (pop_noref d) as [[k d1]|] eqn:P1; [|discriminate].
    pose proof (dI_pop_noref _ _ _ _ _ _ H P1) as H1.
    destruct (pop_noref d1) as [[v d2]|] eqn:P2; [|discriminate].
    pose proof (dI_pop_noref _ _ _ _ _ _ H1 P2) as H2.
    destruct (valid_key k) eqn:Vk; [|discriminate]. simpl negb. cbv iota.
    pose proof (valid_key_prim _ Vk) as Pk.
    destruct (map_index es k) as [i|] eqn:Mi.
    + destruct (nth_error es i) as [[k0 old]|] eqn:Ni; [|discriminate].
      destruct (map_add_found es k v i k0 old Mi Ni) as (Ho & Hl & Hi & Hin & Hf).
      intros Q. eapply IH; [| |exact Q].
      * apply dI_remove. apply dI_E_meq with (E := flat_entries es ++ v :: Ex).
        -- eapply dI_untoken; [|exact Pk]. eapply dI_E_meq; [exact H2| |].
           ++ split; [intros l; repeat rewrite ?occ_app, ?occ_cons; lia|repeat rewrite ?zlen_app, ?zlen_cons'; lia].
           ++ intros a. simpl. repeat rewrite ?in_app_iff. simpl. tauto.
        -- split.
           ++ intros l. specialize (Ho l). repeat rewrite ?occ_app, ?occ_cons. lia.
           ++ repeat rewrite ?zlen_app, ?zlen_cons'. lia.
        -- intros a. simpl. repeat rewrite ?in_app_iff. simpl. intros [->|[Q'|Q']]; [tauto| |tauto].
           destruct (Hi a Q'); [subst; tauto|tauto].
      * unfold keys_ok in *. rewrite Forall_forall in *. intros kv Hkv.
        assert (In (fst kv) (map fst (map_add es k v))) by (apply in_map; assumption).
        rewrite Hf in H0. apply in_map_iff in H0. destruct H0 as (kv' & Ekv & Hkv'). rewrite <- Ekv. apply K. assumption.
    + rewrite (map_add_new _ _ _ Mi). intros Q. eapply IH; [| |exact Q].
      * rewrite flat_entries_app. simpl. eapply dI_E_meq; [exact H2| |].
        -- split; [intros l; repeat rewrite ?occ_app, ?occ_cons, ?occ_nil; lia|repeat rewrite ?zlen_app, ?zlen_cons', ?zlen_nil; lia].
        -- intros a. simpl. repeat rewrite ?in_app_iff. simpl. tauto.
      * apply Forall_app; split; [assumption|]. constructor; [exact Pk|constructor].
Qed.

Lemma op_packmap_I d : dI0 Ex d -> res_I Ex (op_packmap d).
Proof.
  intros [U H]. unfold op_packmap, alloc, halloc. opensI.
  match goal with K : dI Ex [] _ ?d0, Q : packmap_loop _ [] ?d0 = Some (?es, ?d1) |- _ =>
    destruct (packmap_loop_I _ [] d0 _ es d1 K (Forall_nil _) Q) as [[U' H'] K'] end.
  eapply dI0_intro.
  match goal with |- dI _ _ _ (push_counted ?r 1 (set_heap ?d1 (_ ++ [?c]))) =>
    apply (dI_alloc_live_held Ex _ d1 c r) end; try reflexivity; try exact I; [exact H'|exact K'].
Qed.
End PackMap.

(* ---------- Struct.Clone only adds cells nobody refers to ---------- *)
Definition ext (h h' : heap) : Prop :=
  (forall refs A X, GI h refs A X -> GI h' refs A X) /\ same_shape h h' /\ (keys_prim h -> keys_prim h') /\ (wfh h -> wfh h').
Lemma ext_refl h : ext h h.
Proof. split; [auto|]. split; [apply same_shape_refl|]. split; auto. Qed.
Lemma ext_trans a b c : ext a b -> ext b c -> ext a c.
Proof.
  intros (G1 & S1 & K1 & W1) (G2 & S2 & K2 & W2). split; [auto|]. split; [eapply same_shape_trans; eauto|]. split; auto.
Qed.
Lemma ext_alloc_dead h c : wfh h -> cell_rc c = 0 -> Forall (valid h) (cell_children c) -> cell_kp c -> ext h (h ++ [c]).
Proof.
  intros W Z V K. split; [|split; [|split]].
  - intros refs A X H. apply GI_alloc_dead; assumption.
  - apply same_shape_app.
  - intros Kp. apply keys_prim_app; assumption.
  - intros _. apply wfh_app; assumption.
Qed.

Lemma clone_struct_ext fuel : forall h l lim h' l' lim',
  wfh h -> clone_struct fuel h l lim = Some (h', l', lim') -> ext h h' /\ wfh h' /\ valid h' (IStruct l').
Proof.
  induction fuel as [|f IH]; intros h l lim h' l' lim' W; simpl; [discriminate|].
  destruct (get_seq h l) as [[rc xs]|] eqn:Gs; [|discriminate].
  assert (Vxs : Forall (valid h) xs).
  { unfold get_seq in Gs. destruct (hget h l) as [[| |]|] eqn:Ec; try discriminate. inv Gs.
    exact (wfh_children _ _ _ W Ec). }
  match goal with |- match ?go xs h lim [] with _ => _ end = _ -> _ => set (GO := go) end.
  assert (K : forall xs h0 lim0 acc h1 ys lim1, wfh h0 -> Forall (valid h0) xs -> Forall (valid h0) acc ->
            GO xs h0 lim0 acc = Some (h1, ys, lim1) -> ext h0 h1 /\ wfh h1 /\ Forall (valid h1) ys).
  { clear - IH. induction xs as [|x xs IHxs]; intros h0 lim0 acc h1 ys lim1 W0 Vx Va; simpl.
    - intros Q; inv Q. split; [apply ext_refl|]. split; [assumption|apply Forall_rev; assumption].
    - inv Vx. case_if; [discriminate|].
      destruct x; try (apply IHxs; auto; fail).
      destruct (clone_struct f h0 l (lim0 - 1)) as [[[h2 l2] lim2]|] eqn:C; [|discriminate].
      destruct (IH _ _ _ _ _ _ W0 C) as (E2 & W2 & V2). intros Q.
      destruct (IHxs h2 lim2 (IStruct l2 :: acc) h1 ys lim1 W2) as (E3 & W3 & V3); try assumption.
      + eapply Forall_valid_shape; [apply E2|assumption].
      + constructor; [assumption|eapply Forall_valid_shape; [apply E2|assumption]].
      + split; [eapply ext_trans; eauto|auto]. }
  destruct (GO xs h lim []) as [[[h1 ys] lim1]|] eqn:Eg; [|discriminate].
  destruct (K xs h lim [] h1 ys lim1 W Vxs (Forall_nil _) Eg) as (E1 & W1 & V1).
  unfold halloc. intros Q; inv Q.
  assert (E2 : ext h1 (h1 ++ [CSeq 0 ys])) by (apply ext_alloc_dead; [assumption|reflexivity|assumption|exact I]).
  split; [eapply ext_trans; eauto|]. split; [apply E2; assumption|].
  unfold valid. simpl. exists (CSeq 0 ys). split; [apply hget_app_new|exact I].
Qed.

Lemma clone_if_struct_ext h it h' it' b :
  wfh h -> valid h it -> clone_if_struct h it = Some (h', it', b) -> ext h h' /\ wfh h' /\ valid h' it'.
Proof.
  intros W V. unfold clone_if_struct. destruct it; try (intros Q; inv Q; split; [apply ext_refl|auto]; fail).
  destruct (clone_struct clone_fuel h l (MaxClonableNumOfItems - 1)) as [[[h1 l1] lim1]|] eqn:C; [|discriminate].
  intros Q; inv Q. eapply clone_struct_ext; eauto.
Qed.

(* at the data-state level *)
Lemma dI_clone E A U d it h' it' b :
  dI E A U d -> valid (d_heap d) it -> clone_if_struct (d_heap d) it = Some (h', it', b) ->
  dI E A (it' :: U) (set_heap d h') /\ valid h' it'.
Proof.
  intros [Hgi Hu Hk] V C. destruct (clone_if_struct_ext _ _ _ _ _ (gi_wf _ _ _ _ Hgi) V C) as ((Eg & Es & Ek & Ew) & W' & V').
  split; [|assumption]. constructor.
  - cbn [set_heap set_mem d_heap d_refs]. rewrite droots_l_set_heap. apply Eg. assumption.
  - cbn [set_heap set_mem d_heap]. constructor; [assumption|eapply Forall_valid_shape; eauto].
  - cbn [set_heap set_mem d_heap]. auto.
Qed.

(* ---------- editing a compound's children, at the data-state level ---------- *)
Lemma get_seq_hget h l rc its : get_seq h l = Some (rc, its) -> hget h l = Some (CSeq rc its).
Proof. unfold get_seq. destruct (hget h l) as [[| |]|]; try discriminate. intros Q; inv Q. reflexivity. Qed.
Lemma get_map_hget h l rc es : get_map h l = Some (rc, es) -> hget h l = Some (CMap rc es).
Proof. unfold get_map. destruct (hget h l) as [[| |]|]; try discriminate. intros Q; inv Q. reflexivity. Qed.

Lemma dI_edit E A U d l0 c c' add rem :
  dI E A U d -> hget (d_heap d) l0 = Some c -> is_comp c -> is_comp c' -> cell_rc c' = cell_rc c -> cell_kp c' ->
  (if live c then meq (cell_children c' ++ rem) (cell_children c ++ add) else add = [] /\ rem = []) ->
  Forall (valid (d_heap d)) (cell_children c') -> Forall (valid (d_heap d)) rem ->
  dI (rem ++ E) (add ++ A) U (set_heap d (hset (d_heap d) l0 c')).
Proof.
  intros [Hgi Hu Hk] Ec C C' Erc Kc M Vc Vr.
  pose proof (GI_edit _ _ _ _ l0 c c' add rem Hgi Ec C C' Erc M Vc Vr) as N.
  assert (S : same_shape (d_heap d) (hset (d_heap d) l0 c')) by (eapply same_shape_hset; eauto).
  constructor.
  - cbn [set_heap set_mem d_heap d_refs]. rewrite droots_l_set_heap.
    eapply GI_meq; try exact N; try apply meq_refl.
    + split; [intros l; repeat rewrite ?occ_app; lia|repeat rewrite ?zlen_app; lia].
    + destruct N as [_ _ Vx _]. eapply Forall_valid_perm; [|exact Vx]. intros a. repeat rewrite ?in_app_iff. tauto.
    + apply N.
  - cbn [set_heap set_mem d_heap]. eapply Forall_valid_shape; eauto.
  - cbn [set_heap set_mem d_heap]. apply keys_prim_hset; assumption.
Qed.

Lemma live_seq rc its : live (CSeq rc its) = negb (rc =? 0). Proof. reflexivity. Qed.
Lemma live_map rc es : live (CMap rc es) = negb (rc =? 0). Proof. reflexivity. Qed.

(* ================= FAMILY 3: APPEND ================= *)
Section Edits.
Variable Ex : list item.

Lemma op_append_I d : dI0 Ex d -> res_I Ex (op_append d).
Proof.
  intros [U H]. unfold op_append.
  destruct (pop d) as [[itm d1]|] eqn:P1; [|exact I]. pose proof (dI_pop _ _ _ _ _ H P1) as H1.
  destruct (pop d1) as [[arr d2]|] eqn:P2; [|exact I]. pose proof (dI_pop _ _ _ _ _ H1 P2) as H2.
  destruct (clone_if_struct (d_heap d2) itm) as [[[h val] b]|] eqn:Cl; [|exact I].
  assert (Vitm : valid (d_heap d2) itm) by (eapply dI_valid_U; [exact H2|simpl; tauto]).
  destruct (dI_clone _ _ _ _ _ _ _ _ H2 Vitm Cl) as [H3 Vval].
  destruct (seq_loc arr) as [l|] eqn:Sl; [|exact I].
  destruct (get_seq h l) as [[rc its]|] eqn:Gs; [|exact I]. apply get_seq_hget in Gs.
  assert (Vits : Forall (valid h) its) by (exact (wfh_children _ _ _ (dI_wfh _ _ _ _ H3) Gs)).
  cbv zeta. unfold ok. cbn [res_I].
  change (set_heap d2 (hset h l (CSeq rc (its ++ [val]))))
    with (set_heap (set_heap d2 h) (hset (d_heap (set_heap d2 h)) l (CSeq rc (its ++ [val])))).
  destruct (rc =? 0) eqn:Z.
  - pose proof (dI_edit _ _ _ _ l _ (CSeq rc (its ++ [val])) [] [] H3 Gs I I eq_refl I) as Ed.
    rewrite live_seq, Z in Ed. cbn [negb app] in Ed. eapply dI0_intro. apply Ed; [auto| |constructor].
    cbn [cell_children]. apply Forall_app; split; [assumption|repeat constructor; assumption].
  - pose proof (dI_edit _ _ _ _ l _ (CSeq rc (its ++ [val])) [val] [] H3 Gs I I eq_refl I) as Ed.
    rewrite live_seq, Z in Ed. cbn [negb app] in Ed. eapply dI0_intro. apply dI_add. apply Ed; [| |constructor].
    + cbn [cell_children]. rewrite app_nil_r. apply meq_refl.
    + cbn [cell_children]. apply Forall_app; split; [assumption|repeat constructor; assumption].
Qed.
End Edits.

(* ================= FAMILY 3 (continued): REVERSEITEMS, CLEARITEMS, POPITEM, REMOVE on maps ================= *)
Section Edits2.
Variable Ex : list item.

Lemma op_reverseitems_I d : dI0 Ex d -> res_I Ex (op_reverseitems d).
Proof.
  intros [U H]. unfold op_reverseitems.
  destruct (pop d) as [[it d1]|] eqn:P1; [|exact I]. pose proof (dI_pop _ _ _ _ _ H P1) as H1.
  destruct it; try exact I.
  - (* buffer *) destruct (get_buf (d_heap d1) l) as [bs|] eqn:Gb; [|exact I]. unfold ok. cbn [res_I].
    eapply dI0_intro. eapply dI_set_buf; eassumption.
  - destruct (get_seq (d_heap d1) l) as [[rc its]|] eqn:Gs; [|exact I]. apply get_seq_hget in Gs.
    unfold ok. cbn [res_I]. eapply dI0_intro.
    pose proof (dI_edit _ _ _ _ l _ (CSeq rc (rev its)) [] [] H1 Gs I I eq_refl I) as Ed. cbn [app] in Ed. apply Ed.
    + rewrite live_seq. destruct (negb (rc =? 0)); [|auto]. cbn [cell_children].
      split; [intros x; rewrite !occ_app, occ_rev; reflexivity|rewrite !zlen_app, zlen_rev; reflexivity].
    + cbn [cell_children]. apply Forall_rev. exact (wfh_children _ _ _ (dI_wfh _ _ _ _ H1) Gs).
    + constructor.
  - destruct (get_seq (d_heap d1) l) as [[rc its]|] eqn:Gs; [|exact I]. apply get_seq_hget in Gs.
    unfold ok. cbn [res_I]. eapply dI0_intro.
    pose proof (dI_edit _ _ _ _ l _ (CSeq rc (rev its)) [] [] H1 Gs I I eq_refl I) as Ed. cbn [app] in Ed. apply Ed.
    + rewrite live_seq. destruct (negb (rc =? 0)); [|auto]. cbn [cell_children].
      split; [intros x; rewrite !occ_app, occ_rev; reflexivity|rewrite !zlen_app, zlen_rev; reflexivity].
    + cbn [cell_children]. apply Forall_rev. exact (wfh_children _ _ _ (dI_wfh _ _ _ _ H1) Gs).
    + constructor.
Qed.

(* emptying a compound: its former children are held, then removed *)
Lemma clear_cell_I d1 U l c c' :
  dI Ex [] U d1 -> hget (d_heap d1) l = Some c -> is_comp c -> is_comp c' -> cell_rc c' = cell_rc c -> cell_kp c' ->
  cell_children c' = [] ->
  dI0 Ex (let d := set_heap d1 (hset (d_heap d1) l c') in if cell_rc c =? 0 then d else d_remove_list (cell_children c) d).
Proof.
  intros H1 Ec C C' Erc Kc Ch. cbv zeta. destruct (cell_rc c =? 0) eqn:Z.
  - pose proof (dI_edit _ _ _ _ l c c' [] [] H1 Ec C C' Erc Kc) as Ed. unfold live in Ed. rewrite Z in Ed. cbn [negb app] in Ed.
    eapply dI0_intro. apply Ed; [auto|rewrite Ch; constructor|constructor].
  - pose proof (dI_edit _ _ _ _ l c c' [] (cell_children c) H1 Ec C C' Erc Kc) as Ed. unfold live in Ed. rewrite Z in Ed.
    cbn [negb app] in Ed. eapply dI0_intro. apply dI_remove_list. apply Ed.
    + rewrite Ch, app_nil_r. apply meq_refl.
    + rewrite Ch. constructor.
    + exact (wfh_children _ _ _ (dI_wfh _ _ _ _ H1) Ec).
Qed.

Lemma op_clearitems_I d : dI0 Ex d -> res_I Ex (op_clearitems d).
Proof.
  intros [U H]. unfold op_clearitems.
  destruct (pop d) as [[it d1]|] eqn:P1; [|exact I]. pose proof (dI_pop _ _ _ _ _ H P1) as H1.
  destruct it; try exact I.
  - destruct (get_seq (d_heap d1) l) as [[rc its]|] eqn:Gs; [|exact I]. apply get_seq_hget in Gs. unfold ok. cbn [res_I].
    exact (clear_cell_I d1 _ l _ (CSeq rc []) H1 Gs I I eq_refl I eq_refl).
  - destruct (get_seq (d_heap d1) l) as [[rc its]|] eqn:Gs; [|exact I]. apply get_seq_hget in Gs. unfold ok. cbn [res_I].
    exact (clear_cell_I d1 _ l _ (CSeq rc []) H1 Gs I I eq_refl I eq_refl).
  - destruct (get_map (d_heap d1) l) as [[rc es]|] eqn:Gm; [|exact I]. apply get_map_hget in Gm. unfold ok. cbn [res_I].
    exact (clear_cell_I d1 _ l _ (CMap rc []) H1 Gm I I eq_refl (Forall_nil _) eq_refl).
Qed.

Lemma removelast_meq its e rest : rev its = e :: rest ->
  meq its (removelast its ++ [e]) /\ (forall a, In a (removelast its ++ [e]) -> In a its) /\ In e its.
Proof.
  intros R. assert (E : its = rev rest ++ [e]).
  { rewrite <- (rev_involutive its), R. reflexivity. }
  rewrite E. rewrite removelast_last. split; [apply meq_refl|]. split; [auto|]. rewrite in_app_iff. simpl. tauto.
Qed.

Lemma op_popitem_I d : dI0 Ex d -> res_I Ex (op_popitem d).
Proof.
  intros [U H]. unfold op_popitem.
  destruct (pop d) as [[arr d1]|] eqn:P1; [|exact I]. pose proof (dI_pop _ _ _ _ _ H P1) as H1.
  destruct (seq_loc arr) as [l|] eqn:Sl; [|exact I].
  destruct (get_seq (d_heap d1) l) as [[rc0 its]|] eqn:Gs; [|exact I]. pose proof (get_seq_hget _ _ _ _ Gs) as Gh.
  destruct (rev its) as [|e rest] eqn:R; [exact I|].
  destruct (removelast_meq its e rest R) as (M & S & Ine).
  assert (Ve : valid (d_heap d1) e) by (eapply dI_child_valid; eauto).
  pose proof (dI_push_v _ _ _ _ e H1 Ve) as H2.
  destruct (get_seq (d_heap (push e d1)) l) as [[rc its']|] eqn:Gs2; [|exact I]. apply get_seq_hget in Gs2.
  (* the counter procedures keep the children: its' = its *)
  assert (Eits : its' = its).
  { unfold push, d_add in Gs2. pose proof (ref_add_rc_only (d_heap (push_noref e d1)) (d_refs (push_noref e d1)) e) as [_ Ro].
    cbn [push_noref set_es d_heap d_refs] in *. destruct (Ro l _ Gh) as (r & Er).
    destruct (ref_add (d_heap d1) (d_refs d1) e) as [h' r'] eqn:Ra. cbn [set_mem d_heap fst] in *. rewrite Er in Gs2.
    cbn [cell_set_rc] in Gs2. inv Gs2. reflexivity. }
  subst its'. cbv zeta. unfold ok. cbn [res_I].
  destruct (rc =? 0) eqn:Z.
  - pose proof (dI_edit _ _ _ _ l _ (CSeq rc (removelast its)) [] [] H2 Gs2 I I eq_refl I) as Ed.
    rewrite live_seq, Z in Ed. cbn [negb app] in Ed. eapply dI0_intro. apply Ed; [auto| |constructor].
    cbn [cell_children]. apply Forall_removelast. exact (wfh_children _ _ _ (dI_wfh _ _ _ _ H2) Gs2).
  - pose proof (dI_edit _ _ _ _ l _ (CSeq rc (removelast its)) [] [e] H2 Gs2 I I eq_refl I) as Ed.
    rewrite live_seq, Z in Ed. cbn [negb app] in Ed. eapply dI0_intro. apply dI_remove. apply Ed.
    + cbn [cell_children]. rewrite app_nil_r. destruct M as [Mo Ml]. split; [intros x; rewrite Mo; reflexivity|lia].
    + cbn [cell_children]. apply Forall_removelast. exact (wfh_children _ _ _ (dI_wfh _ _ _ _ H2) Gs2).
    + constructor; [|constructor]. eapply dI_child_valid; eauto.
Qed.
End Edits2.

(* ================= FAMILY 4: readers - SIZE, HASKEY, PICKITEM, KEYS, CONVERT ================= *)
Section Readers.
Variable Ex : list item.

Lemma op_size_I d : dI0 Ex d -> res_I Ex (op_size d).
Proof. intros [U H]. unfold op_size. tI. Qed.
Lemma op_haskey_I d : dI0 Ex d -> res_I Ex (op_haskey d).
Proof. intros [U H]. unfold op_haskey. tI. Qed.

Lemma throw_bytes_I msg d U : dI Ex [] U d -> res_I Ex (throw_bytes msg d).
Proof. intros H. unfold throw_bytes. cbn [res_I]. split; [eexists; eassumption|exact I]. Qed.

Lemma op_pickitem_I d : dI0 Ex d -> res_I Ex (op_pickitem d).
Proof.
  intros [U H]. unfold op_pickitem.
  destruct (pop d) as [[key d1]|] eqn:P1; [|exact I]. pose proof (dI_pop _ _ _ _ _ H P1) as H1.
  destruct (negb (valid_key key)); [exact I|].
  destruct (pop d1) as [[obj d2]|] eqn:P2; [|exact I]. pose proof (dI_pop _ _ _ _ _ H1 P2) as H2.
  assert (Seq : forall l, res_I Ex (do i <- try_int key; do i <- to_i32 i;
              do (_, its) <- get_seq (d_heap d2) l;
              if (i <? 0) || (zlen its <=? i) then throw_bytes (msg_out_of_range i) d2
              else do it <- nth_error its (Z.to_nat i); ok (push it d2))).
  { intros l. destruct (try_int key); [|exact I]. destruct (to_i32 z); [|exact I].
    destruct (get_seq (d_heap d2) l) as [[rc its]|] eqn:Gs; [|exact I]. apply get_seq_hget in Gs.
    case_if; [eapply throw_bytes_I; eassumption|].
    destruct (nth_error its (Z.to_nat z0)) as [it|] eqn:N; [|exact I]. unfold ok. cbn [res_I].
    eapply dI0_intro. apply dI_push_v; [eassumption|]. eapply dI_child_valid; [exact H2|exact Gs|].
    cbn [cell_children]. eapply nth_error_In; eauto. }
  assert (Byt : res_I Ex (do i <- try_int key; do i <- to_i32 i; do bs <- try_bytes (d_heap d2) obj;
              if (i <? 0) || (zlen bs <=? i) then throw_bytes (msg_out_of_range i) d2
              else do b <- nth_error bs (Z.to_nat i); okd (push_int b d2))).
  { destruct (try_int key); [|exact I]. destruct (to_i32 z); [|exact I]. destruct (try_bytes (d_heap d2) obj); [|exact I].
    case_if; [eapply throw_bytes_I; eassumption|]. destruct (nth_error l (Z.to_nat z0)); [|exact I].
    unfold okd. destruct (push_int z1 d2) as [d3|] eqn:Pi; [|exact I]. unfold ok. cbn [res_I].
    eapply dI0_intro. eapply dI_push_int; eauto. }
  destruct obj; try exact Byt; try apply Seq.
  destruct (get_map (d_heap d2) l) as [[rc es]|] eqn:Gm; [|exact I]. apply get_map_hget in Gm.
  destruct (map_index es key) as [i|]; [|eapply throw_bytes_I; eassumption].
  destruct (nth_error es i) as [[k v]|] eqn:N; [|exact I]. unfold ok. cbn [res_I].
  eapply dI0_intro. apply dI_push_v; [eassumption|]. eapply dI_child_valid; [exact H2|exact Gm|].
  cbn [cell_children]. apply nth_error_In in N. clear - N. induction es as [|[k' v'] t IH]; simpl in *; [tauto|].
  destruct N as [Q|Q]; [inv Q; tauto|right; right; auto].
Qed.

Lemma op_keys_I d : dI0 Ex d -> res_I Ex (op_keys d).
Proof.
  intros [U H]. unfold op_keys, alloc, halloc.
  destruct (pop d) as [[it d1]|] eqn:P1; [|exact I]. pose proof (dI_pop _ _ _ _ _ H P1) as H1.
  destruct it; try exact I.
  destruct (get_map (d_heap d1) l) as [[rc es]|] eqn:Gm; [|exact I]. apply get_map_hget in Gm.
  unfold ok. cbn [res_I]. eapply dI0_intro.
  replace (zlen es + 1) with (zlen (cell_children (CSeq 1 (map fst es))) + 1)
    by (cbn [cell_children]; unfold zlen; rewrite map_length; reflexivity).
  apply dI_alloc_live_prims; try eassumption; try reflexivity; try exact I.
  cbn [cell_children]. pose proof (keys_prim_get _ _ _ (di_kp _ _ _ _ H1) Gm) as K. simpl in K.
  clear - K. induction K; simpl; constructor; auto.
Qed.

Lemma op_convert_I t d : dI0 Ex d -> res_I Ex (op_convert t d).
Proof.
  intros [U H]. unfold op_convert, alloc, halloc.
  destruct (pop d) as [[it d1]|] eqn:P1; [|exact I]. pose proof (dI_pop _ _ _ _ _ H P1) as H1.
  assert (Vit : valid (d_heap d1) it) by (eapply dI_valid_U; [exact H1|simpl; tauto]).
  assert (Back : dI0 Ex (push it d1)) by (eapply dI0_intro; apply dI_push_v; eassumption).
  assert (PB : forall b, dI0 Ex (push (IBool b) d1)) by (intros b; eapply dI0_intro; apply dI_push_v; [eassumption|exact I]).
  assert (PI : forall z, res_I Ex (okd (push_int z d1))).
  { intros z. unfold okd. destruct (push_int z d1) eqn:Pi; [|exact I]. unfold ok. cbn [res_I]. eapply dI0_intro. eapply dI_push_int; eauto. }
  assert (Prim : item_cloc it = None ->
     res_I Ex (if item_type it =? t then ok (push it d1)
               else if t =? T_Integer then do z <- try_int it; okd (push_int z d1)
               else if t =? T_ByteArray then do bs <- try_bytes (d_heap d1) it; ok (push (IBytes bs) d1)
               else if t =? T_Buffer then do bs <- try_bytes (d_heap d1) it; ok (push_new_buffer bs d1)
               else if t =? T_Boolean then do b <- try_bool it; ok (push (IBool b) d1) else None)).
  { intros _. repeat case_if; try exact I; try exact Back.
    - destruct (try_int it); [apply PI|exact I].
    - destruct (try_bytes (d_heap d1) it); [|exact I]. unfold ok. cbn [res_I]. eapply dI0_intro. apply dI_push_v; [eassumption|exact I].
    - destruct (try_bytes (d_heap d1) it); [|exact I]. unfold ok. cbn [res_I]. eapply dI0_intro. apply dI_push_new_buffer. eassumption.
    - destruct (try_bool it); [|exact I]. apply PB. }
  assert (Copy : forall l mk, item_cloc (mk (length (d_heap d1))) = Some (length (d_heap d1)) ->
     res_I Ex (do (_, its) <- get_seq (d_heap d1) l;
               ok (push (mk (length (d_heap d1))) (set_heap d1 (d_heap d1 ++ [CSeq 0 its])))).
  { intros l mk Mk. destruct (get_seq (d_heap d1) l) as [[rc its]|] eqn:Gs; [|exact I]. apply get_seq_hget in Gs.
    unfold ok. cbn [res_I]. eapply dI0_intro. apply dI_push_v.
    - apply dI_alloc_dead; [eassumption|reflexivity| |exact I]. exact (wfh_children _ _ _ (dI_wfh _ _ _ _ H1) Gs).
    - cbn [set_heap set_mem d_heap]. unfold valid. rewrite Mk. eexists. split; [apply hget_app_new|exact I]. }
  destruct it; try (apply Prim; reflexivity).
  - (* Null *) case_if; [exact I|exact Back].
  - (* Buffer *) destruct (get_buf (d_heap d1) l) as [bs|]; [|exact I].
    repeat case_if; try exact I; try exact Back; try apply PB; try apply PI.
    unfold ok. cbn [res_I]. eapply dI0_intro. apply dI_push_v; [eassumption|exact I].
  - (* Array *) repeat case_if; try exact I; try exact Back; try apply PB. apply (Copy l IStruct). reflexivity.
  - (* Struct *) repeat case_if; try exact I; try exact Back; try apply PB. apply (Copy l IArr). reflexivity.
  - (* Map *) repeat case_if; try exact I; try exact Back; try apply PB.
  - (* Pointer *) repeat case_if; try exact I; try exact Back; try apply PB.
Qed.
End Readers.
