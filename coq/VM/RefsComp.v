(* The in-degree invariant through the compound-type instructions (the hand-adjusted sites of vm.go). *)
From NG Require Import VM.Model VM.LimitsData VM.Reach VM.RefsInv VM.RefsMoves VM.RefsData VM.RefsOps VM.RefsStale.
Open Scope Z_scope.

(* ---------- more primitives ---------- *)
Lemma dI_push_v E A U d it : dI E A U d -> valid (d_heap d) it -> dI E A U (push it d).
Proof.
  intros [Hgi Hu Hk] V. unfold push. apply dI_add. constructor; [|exact Hu|exact Hk].
  cbn [push_noref set_es d_heap d_refs]. exact (GI_new_root _ _ _ _ it Hgi V).
Qed.

Lemma dI_valid_U E A U d it : dI E A U d -> In it U -> valid (d_heap d) it.
Proof. intros [_ Hu _] H. rewrite Forall_forall in Hu. auto. Qed.
Lemma dI_valid_E E A U d it : dI E A U d -> In it E -> valid (d_heap d) it.
Proof. intros [[_ _ Vx _] _ _] H. rewrite Forall_forall in Vx. apply Vx. rewrite in_app_iff. tauto. Qed.
Lemma dI_wfh E A U d : dI E A U d -> wfh (d_heap d).
Proof. intros [[_ W _ _] _ _]. exact W. Qed.
Lemma dI_child_valid E A U d l c it : dI E A U d -> hget (d_heap d) l = Some c -> In it (cell_children c) -> valid (d_heap d) it.
Proof. intros H Ec Hin. pose proof (wfh_children _ _ _ (dI_wfh _ _ _ _ H) Ec) as V. rewrite Forall_forall in V. auto. Qed.

(* a live compound built from held children, rooted on the stack with one count (pushItemCounted(x, 1)) *)
Lemma dI_alloc_live_held E U d c r :
  dI (cell_children c ++ E) [] U d -> cell_rc c = 1 -> is_comp c -> cell_kp c -> item_cloc r = Some (length (d_heap d)) ->
  dI E [] U (push_counted r 1 (set_heap d (d_heap d ++ [c]))).
Proof.
  intros [Hgi Hu Hk] Z C Kc Er. constructor.
  - cbn [push_counted push_noref set_refs set_heap set_mem set_es d_heap d_refs].
    assert (M : GI (d_heap d) (d_refs d) [] (cell_children c ++ (droots_l d ++ E))).
    { eapply GI_meq; try exact Hgi; try apply meq_refl; [| |constructor].
      - split; [intros l; repeat rewrite ?occ_app; lia|repeat rewrite ?zlen_app; lia].
      - destruct Hgi as [_ _ Vx _]. eapply Forall_valid_perm; [|exact Vx]. intros a. repeat rewrite ?in_app_iff. tauto. }
    pose proof (GI_alloc_live_held _ _ _ _ c r M Z C Er) as N. exact N.
  - cbn [push_counted push_noref set_refs set_heap set_mem set_es d_heap]. apply Forall_valid_app. assumption.
  - cbn [push_counted push_noref set_refs set_heap set_mem set_es d_heap]. apply keys_prim_app; assumption.
Qed.

(* a live compound of primitive children counted by hand (pushItemCounted(x, n + 1)) *)
Lemma dI_alloc_live_prims E U d c r :
  dI E [] U d -> cell_rc c = 1 -> is_comp c -> cell_kp c -> Forall (fun it => item_cloc it = None) (cell_children c) ->
  item_cloc r = Some (length (d_heap d)) ->
  dI E [] U (push_counted r (zlen (cell_children c) + 1) (set_heap d (d_heap d ++ [c]))).
Proof.
  intros [Hgi Hu Hk] Z C Kc P Er. constructor.
  - cbn [push_counted push_noref set_refs set_heap set_mem set_es d_heap d_refs].
    pose proof (GI_alloc_live_prims _ _ _ _ c r Hgi Z C P Er) as N.
    replace (d_refs d + (zlen (cell_children c) + 1)) with (d_refs d + zlen (cell_children c) + 1) by lia. exact N.
  - cbn [push_counted push_noref set_refs set_heap set_mem set_es d_heap]. apply Forall_valid_app. assumption.
  - cbn [push_counted push_noref set_refs set_heap set_mem set_es d_heap]. apply keys_prim_app; assumption.
Qed.

Lemma default_of_prim t : item_cloc (default_of t) = None.
Proof. unfold default_of. repeat case_if; reflexivity. Qed.

(* ================= FAMILY 2: creation ================= *)
Section Create.
Variable Ex : list item.

Lemma new_empty_I c mk d :
  dI0 Ex d -> cell_rc c = 0 -> cell_children c = [] -> cell_kp c -> is_comp c ->
  (forall l, item_cloc (mk l) = Some l) -> res_I Ex (new_empty c mk d).
Proof.
  intros [U H] Z Ch Kc C Mk. unfold new_empty, alloc, halloc. unfold ok. cbn [res_I]. eapply dI0_intro.
  apply dI_push_v.
  - apply dI_alloc_dead; [eassumption|assumption|rewrite Ch; constructor|assumption].
  - cbn [set_heap set_mem d_heap]. unfold valid. rewrite Mk. exists c. split; [apply hget_app_new|assumption].
Qed.

Lemma new_seq_I b t d : dI0 Ex d -> res_I Ex (new_seq b t d).
Proof.
  intros [U H]. unfold new_seq, alloc, halloc. opensI.
  match goal with K : dI Ex [] _ ?d0 |- _ => rename K into H0 end.
  eapply dI0_intro.
  match goal with |- dI _ _ _ (push_counted ?r (?n + 1) (set_heap ?d0 (_ ++ [?c]))) =>
    replace (n + 1) with (zlen (cell_children c) + 1) by (cbn [cell_children]; rewrite zlen_repeat; lia);
    apply dI_alloc_live_prims end; try eassumption; try reflexivity; try exact I.
  - cbn [cell_children]. apply Forall_repeat. apply default_of_prim.
  - destruct b; reflexivity.
Qed.

Lemma op_pack_I b d : dI0 Ex d -> res_I Ex (op_pack b d).
Proof.
  intros [U H]. unfold op_pack, alloc, halloc. opensI.
  match goal with K : dI Ex [] _ ?d0 |- _ => rename K into H0 end.
  eapply dI0_intro.
  match goal with |- dI _ _ _ (push_counted ?r 1 (set_heap ?d1 (_ ++ [?c]))) =>
    apply (dI_alloc_live_held Ex _ d1 c r) end; try reflexivity; try exact I.
  - cbn [cell_children]. apply dI_hold; [eassumption| |].
    + rewrite <- (firstn_skipn (Z.to_nat z) (d_es d0)) at 1. split; [intros l; rewrite !occ_app; lia|rewrite !zlen_app; lia].
    + intros a. rewrite <- (firstn_skipn (Z.to_nat z) (d_es d0)) at 3. rewrite !in_app_iff. tauto.
  - destruct b; reflexivity.
Qed.
End Create.

(* ---------- maps ---------- *)
Lemma valid_key_prim k : valid_key k = true -> item_cloc k = None.
Proof. destruct k; simpl; try discriminate; reflexivity. Qed.

Lemma map_add_new es k v : map_index es k = None -> map_add es k v = es ++ [(k, v)].
Proof.
  induction es as [|[k' v'] t IH]; simpl; [reflexivity|]. case_if; [discriminate|].
  destruct (map_index t k); [discriminate|]. intros _. rewrite IH; reflexivity.
Qed.
Lemma flat_entries_app a b : flat_entries (a ++ b) = flat_entries a ++ flat_entries b.
Proof. induction a as [|[k v] a IH]; simpl; [reflexivity|]. rewrite IH. reflexivity. Qed.

Lemma map_add_found es k v i k0 old :
  map_index es k = Some i -> nth_error es i = Some (k0, old) ->
  (forall l, occ l (flat_entries (map_add es k v)) + hit l old = occ l (flat_entries es) + hit l v) /\
  zlen (flat_entries (map_add es k v)) = zlen (flat_entries es) /\
  (forall a, In a (flat_entries (map_add es k v)) -> a = v \/ In a (flat_entries es)) /\
  In old (flat_entries es) /\ map fst (map_add es k v) = map fst es.
Proof.
  revert i. induction es as [|[k' v'] t IH]; intros i; simpl; [discriminate|].
  destruct (key_eqb k' k) eqn:Q.
  - intros X N; inv X. simpl in N. inv N. simpl. repeat split.
    + intros l. lia.
    + intros a [->|[->|H]]; auto.
    + auto.
  - destruct (map_index t k) as [j|] eqn:Mj; [|discriminate]. intros X N; inv X. simpl in N.
    destruct (IH j eq_refl N) as (Ho & Hl & Hi & Hin & Hf). simpl. repeat split.
    + intros l. specialize (Ho l). lia.
    + rewrite !zlen_cons'. lia.
    + intros a [->|[->|H]]; auto. destruct (Hi a H); auto.
    + auto.
    + rewrite Hf. reflexivity.
Qed.

Lemma dI_E_meq E E' A U d :
  dI E A U d -> meq E E' -> (forall a, In a E' -> In a E) -> dI E' A U d.
Proof.
  intros H [Mo Ml] S. eapply dI_rearr; try exact H; try reflexivity; try apply meq_refl; try tauto.
  - split; [intros l; rewrite !occ_app, Mo; reflexivity|rewrite !zlen_app; lia].
  - intros a. rewrite !in_app_iff. intros [K|K]; auto.
Qed.

(* un-counting a held primitive by hand (refs--) *)
Lemma dI_untoken E U d p : dI (p :: E) [] U d -> item_cloc p = None -> dI E [] U (set_refs d (d_refs d - 1)).
Proof.
  intros [Hgi Hu Hk] P. constructor; [|exact Hu|exact Hk]. cbn [set_refs set_mem d_heap d_refs]. rewrite droots_l_set_refs.
  assert (M : GI (d_heap d) (d_refs d) [] (p :: droots_l d ++ E)).
  { eapply GI_meq; try exact Hgi; try apply meq_refl; [| |constructor].
    - split; [intros l; repeat rewrite ?occ_app, ?occ_cons; lia|repeat rewrite ?zlen_app, ?zlen_cons'; lia].
    - destruct Hgi as [_ _ Vx _]. eapply Forall_valid_perm; [|exact Vx]. intros a. simpl. repeat rewrite ?in_app_iff. simpl. tauto. }
  destruct M as [Hg W Vx Va]. inv Vx. constructor; try assumption. eapply G_untoken; eauto.
Qed.

Section PackMap.
Variable Ex : list item.

Definition keys_ok (es : list (item * item)) : Prop := Forall (fun kv => item_cloc (fst kv) = None) es.

Lemma packmap_loop_I n : forall es d U es' d',
  dI (flat_entries es ++ Ex) [] U d -> keys_ok es -> packmap_loop n es d = Some (es', d') ->
  (exists U', dI (flat_entries es' ++ Ex) [] U' d') /\ keys_ok es'.
Proof.
  induction n as [|n IH]; intros es d U es' d' H K; simpl.
  - intros Q; inv Q. split; [eexists; eassumption|assumption].
  - destruct (pop_noref d) as [[k d1]|] eqn:P1; [|discriminate].
    pose proof (dI_pop_noref _ _ _ _ _ _ H P1) as H1.
    destruct (pop_noref d1) as [[v d2]|] eqn:P2; [|discriminate].
    pose proof (dI_pop_noref _ _ _ _ _ _ H1 P2) as H2.
    destruct (valid_key k) eqn:Vk; [|discriminate]. simpl negb. cbv iota.
    pose proof (valid_key_prim _ Vk) as Pk.
    destruct (map_index es k) as [i|] eqn:Mi.
    + destruct (nth_error es i) as [[k0 old]|] eqn:Ni; [|discriminate].
      destruct (map_add_found es k v i k0 old Mi Ni) as (Ho & Hl & Hi & Hin & Hf).
      intros Q. eapply IH; [| |exact Q].
      * apply dI_remove. apply dI_E_meq with (E := flat_entries es ++ v :: Ex).
        -- eapply dI_untoken; [|exact Pk]. eapply dI_E_meq; [exact H2| |].
           ++ split; [intros l; repeat rewrite ?occ_app, ?occ_cons; lia|repeat rewrite ?zlen_app, ?zlen_cons'; lia].
           ++ intros a. simpl. repeat rewrite ?in_app_iff. simpl. tauto.
        -- split.
           ++ intros l. specialize (Ho l). repeat rewrite ?occ_app, ?occ_cons. lia.
           ++ repeat rewrite ?zlen_app, ?zlen_cons'. lia.
        -- intros a. simpl. repeat rewrite ?in_app_iff. simpl. intros [->|[Q'|Q']]; [tauto| |tauto].
           destruct (Hi a Q'); [subst; tauto|tauto].
      * unfold keys_ok in *. rewrite Forall_forall in *. intros kv Hkv.
        assert (In (fst kv) (map fst (map_add es k v))) by (apply in_map; assumption).
        rewrite Hf in H0. apply in_map_iff in H0. destruct H0 as (kv' & Ekv & Hkv'). rewrite <- Ekv. apply K. assumption.
    + rewrite (map_add_new _ _ _ Mi). intros Q. eapply IH; [| |exact Q].
      * rewrite flat_entries_app. simpl. eapply dI_E_meq; [exact H2| |].
        -- split; [intros l; repeat rewrite ?occ_app, ?occ_cons, ?occ_nil; lia|repeat rewrite ?zlen_app, ?zlen_cons', ?zlen_nil; lia].
        -- intros a. simpl. repeat rewrite ?in_app_iff. simpl. tauto.
      * apply Forall_app; split; [assumption|]. constructor; [exact Pk|constructor].
Qed.

Lemma op_packmap_I d : dI0 Ex d -> res_I Ex (op_packmap d).
Proof.
  intros [U H]. unfold op_packmap, alloc, halloc. opensI.
  match goal with K : dI Ex [] _ ?d0, Q : packmap_loop _ [] ?d0 = Some (?es, ?d1) |- _ =>
    destruct (packmap_loop_I _ [] d0 _ es d1 K (Forall_nil _) Q) as [[U' H'] K'] end.
  eapply dI0_intro.
  match goal with |- dI _ _ _ (push_counted ?r 1 (set_heap ?d1 (_ ++ [?c]))) =>
    apply (dI_alloc_live_held Ex _ d1 c r) end; try reflexivity; try exact I; [exact H'|exact K'].
Qed.
End PackMap.

(* ---------- Struct.Clone only adds cells nobody refers to ---------- *)
Definition ext (h h' : heap) : Prop :=
  (forall refs A X, GI h refs A X -> GI h' refs A X) /\ same_shape h h' /\ (keys_prim h -> keys_prim h') /\ (wfh h -> wfh h').
Lemma ext_refl h : ext h h.
Proof. split; [auto|]. split; [apply same_shape_refl|]. split; auto. Qed.
Lemma ext_trans a b c : ext a b -> ext b c -> ext a c.
Proof.
  intros (G1 & S1 & K1 & W1) (G2 & S2 & K2 & W2). split; [auto|]. split; [eapply same_shape_trans; eauto|]. split; auto.
Qed.
Lemma ext_alloc_dead h c : wfh h -> cell_rc c = 0 -> Forall (valid h) (cell_children c) -> cell_kp c -> ext h (h ++ [c]).
Proof.
  intros W Z V K. split; [|split; [|split]].
  - intros refs A X H. apply GI_alloc_dead; assumption.
  - apply same_shape_app.
  - intros Kp. apply keys_prim_app; assumption.
  - intros _. apply wfh_app; assumption.
Qed.

Lemma clone_struct_ext fuel : forall h l lim h' l' lim',
  wfh h -> clone_struct fuel h l lim = Some (h', l', lim') -> ext h h' /\ wfh h' /\ valid h' (IStruct l').
Proof.
  induction fuel as [|f IH]; intros h l lim h' l' lim' W; simpl; [discriminate|].
  destruct (get_seq h l) as [[rc xs]|] eqn:Gs; [|discriminate].
  assert (Vxs : Forall (valid h) xs).
  { unfold get_seq in Gs. destruct (hget h l) as [[| |]|] eqn:Ec; try discriminate. inv Gs.
    exact (wfh_children _ _ _ W Ec). }
  match goal with |- match ?go xs h lim [] with _ => _ end = _ -> _ => set (GO := go) end.
  assert (K : forall xs h0 lim0 acc h1 ys lim1, wfh h0 -> Forall (valid h0) xs -> Forall (valid h0) acc ->
            GO xs h0 lim0 acc = Some (h1, ys, lim1) -> ext h0 h1 /\ wfh h1 /\ Forall (valid h1) ys).
  { clear - IH. induction xs as [|x xs IHxs]; intros h0 lim0 acc h1 ys lim1 W0 Vx Va; simpl.
    - intros Q; inv Q. split; [apply ext_refl|]. split; [assumption|apply Forall_rev; assumption].
    - inv Vx. case_if; [discriminate|].
      destruct x; try (apply IHxs; auto; fail).
      destruct (clone_struct f h0 l (lim0 - 1)) as [[[h2 l2] lim2]|] eqn:C; [|discriminate].
      destruct (IH _ _ _ _ _ _ W0 C) as (E2 & W2 & V2). intros Q.
      destruct (IHxs h2 lim2 (IStruct l2 :: acc) h1 ys lim1 W2) as (E3 & W3 & V3); try assumption.
      + eapply Forall_valid_shape; [apply E2|assumption].
      + constructor; [assumption|eapply Forall_valid_shape; [apply E2|assumption]].
      + split; [eapply ext_trans; eauto|auto]. }
  destruct (GO xs h lim []) as [[[h1 ys] lim1]|] eqn:Eg; [|discriminate].
  destruct (K xs h lim [] h1 ys lim1 W Vxs (Forall_nil _) Eg) as (E1 & W1 & V1).
  unfold halloc. intros Q; inv Q.
  assert (E2 : ext h1 (h1 ++ [CSeq 0 ys])) by (apply ext_alloc_dead; [assumption|reflexivity|assumption|exact I]).
  split; [eapply ext_trans; eauto|]. split; [apply E2; assumption|].
  unfold valid. simpl. exists (CSeq 0 ys). split; [apply hget_app_new|exact I].
Qed.

Lemma clone_if_struct_ext h it h' it' b :
  wfh h -> valid h it -> clone_if_struct h it = Some (h', it', b) -> ext h h' /\ wfh h' /\ valid h' it'.
Proof.
  intros W V. unfold clone_if_struct. destruct it; try (intros Q; inv Q; split; [apply ext_refl|auto]; fail).
  destruct (clone_struct clone_fuel h l (MaxClonableNumOfItems - 1)) as [[[h1 l1] lim1]|] eqn:C; [|discriminate].
  intros Q; inv Q. eapply clone_struct_ext; eauto.
Qed.

(* at the data-state level *)
Lemma dI_clone E A U d it h' it' b :
  dI E A U d -> valid (d_heap d) it -> clone_if_struct (d_heap d) it = Some (h', it', b) ->
  dI E A (it' :: U) (set_heap d h') /\ valid h' it'.
Proof.
  intros [Hgi Hu Hk] V C. destruct (clone_if_struct_ext _ _ _ _ _ (gi_wf _ _ _ _ Hgi) V C) as ((Eg & Es & Ek & Ew) & W' & V').
  split; [|assumption]. constructor.
  - cbn [set_heap set_mem d_heap d_refs]. rewrite droots_l_set_heap. apply Eg. assumption.
  - cbn [set_heap set_mem d_heap]. constructor; [assumption|eapply Forall_valid_shape; eauto].
  - cbn [set_heap set_mem d_heap]. auto.
Qed.

(* ---------- editing a compound's children, at the data-state level ---------- *)
Lemma get_seq_hget h l rc its : get_seq h l = Some (rc, its) -> hget h l = Some (CSeq rc its).
Proof. unfold get_seq. destruct (hget h l) as [[| |]|]; try discriminate. intros Q; inv Q. reflexivity. Qed.
Lemma get_map_hget h l rc es : get_map h l = Some (rc, es) -> hget h l = Some (CMap rc es).
Proof. unfold get_map. destruct (hget h l) as [[| |]|]; try discriminate. intros Q; inv Q. reflexivity. Qed.

Lemma dI_edit E A U d l0 c c' add rem :
  dI E A U d -> hget (d_heap d) l0 = Some c -> is_comp c -> is_comp c' -> cell_rc c' = cell_rc c -> cell_kp c' ->
  (if live c then meq (cell_children c' ++ rem) (cell_children c ++ add) else add = [] /\ rem = []) ->
  Forall (valid (d_heap d)) (cell_children c') -> Forall (valid (d_heap d)) rem ->
  dI (rem ++ E) (add ++ A) U (set_heap d (hset (d_heap d) l0 c')).
Proof.
  intros [Hgi Hu Hk] Ec C C' Erc Kc M Vc Vr.
  pose proof (GI_edit _ _ _ _ l0 c c' add rem Hgi Ec C C' Erc M Vc Vr) as N.
  assert (S : same_shape (d_heap d) (hset (d_heap d) l0 c')) by (eapply same_shape_hset; eauto).
  constructor.
  - cbn [set_heap set_mem d_heap d_refs]. rewrite droots_l_set_heap.
    eapply GI_meq; try exact N; try apply meq_refl.
    + split; [intros l; repeat rewrite ?occ_app; lia|repeat rewrite ?zlen_app; lia].
    + destruct N as [_ _ Vx _]. eapply Forall_valid_perm; [|exact Vx]. intros a. repeat rewrite ?in_app_iff. tauto.
    + apply N.
  - cbn [set_heap set_mem d_heap]. eapply Forall_valid_shape; eauto.
  - cbn [set_heap set_mem d_heap]. apply keys_prim_hset; assumption.
Qed.

Lemma live_seq rc its : live (CSeq rc its) = negb (rc =? 0). Proof. reflexivity. Qed.
Lemma live_map rc es : live (CMap rc es) = negb (rc =? 0). Proof. reflexivity. Qed.

(* ================= FAMILY 3: APPEND ================= *)
Section Edits.
Variable Ex : list item.

Lemma op_append_I d : dI0 Ex d -> res_I Ex (op_append d).
Proof.
  intros [U H]. unfold op_append.
  destruct (pop d) as [[itm d1]|] eqn:P1; [|exact I]. pose proof (dI_pop _ _ _ _ _ H P1) as H1.
  destruct (pop d1) as [[arr d2]|] eqn:P2; [|exact I]. pose proof (dI_pop _ _ _ _ _ H1 P2) as H2.
  destruct (clone_if_struct (d_heap d2) itm) as [[[h val] b]|] eqn:Cl; [|exact I].
  assert (Vitm : valid (d_heap d2) itm) by (eapply dI_valid_U; [exact H2|simpl; tauto]).
  destruct (dI_clone _ _ _ _ _ _ _ _ H2 Vitm Cl) as [H3 Vval].
  destruct (seq_loc arr) as [l|] eqn:Sl; [|exact I].
  destruct (get_seq h l) as [[rc its]|] eqn:Gs; [|exact I]. apply get_seq_hget in Gs.
  assert (Vits : Forall (valid h) its) by (exact (wfh_children _ _ _ (dI_wfh _ _ _ _ H3) Gs)).
  cbv zeta. unfold ok. cbn [res_I].
  change (set_heap d2 (hset h l (CSeq rc (its ++ [val]))))
    with (set_heap (set_heap d2 h) (hset (d_heap (set_heap d2 h)) l (CSeq rc (its ++ [val])))).
  destruct (rc =? 0) eqn:Z.
  - pose proof (dI_edit _ _ _ _ l _ (CSeq rc (its ++ [val])) [] [] H3 Gs I I eq_refl I) as Ed.
    rewrite live_seq, Z in Ed. cbn [negb app] in Ed. eapply dI0_intro. apply Ed; [auto| |constructor].
    cbn [cell_children]. apply Forall_app; split; [assumption|repeat constructor; assumption].
  - pose proof (dI_edit _ _ _ _ l _ (CSeq rc (its ++ [val])) [val] [] H3 Gs I I eq_refl I) as Ed.
    rewrite live_seq, Z in Ed. cbn [negb app] in Ed. eapply dI0_intro. apply dI_add. apply Ed; [| |constructor].
    + cbn [cell_children]. rewrite app_nil_r. apply meq_refl.
    + cbn [cell_children]. apply Forall_app; split; [assumption|repeat constructor; assumption].
Qed.
End Edits.

(* ================= FAMILY 3 (continued): REVERSEITEMS, CLEARITEMS, POPITEM, REMOVE on maps ================= *)
Section Edits2.
Variable Ex : list item.

Lemma op_reverseitems_I d : dI0 Ex d -> res_I Ex (op_reverseitems d).
Proof.
  intros [U H]. unfold op_reverseitems.
  destruct (pop d) as [[it d1]|] eqn:P1; [|exact I]. pose proof (dI_pop _ _ _ _ _ H P1) as H1.
  destruct it; try exact I.
  - (* buffer *) destruct (get_buf (d_heap d1) l) as [bs|] eqn:Gb; [|exact I]. unfold ok. cbn [res_I].
    eapply dI0_intro. eapply dI_set_buf; eassumption.
  - destruct (get_seq (d_heap d1) l) as [[rc its]|] eqn:Gs; [|exact I]. apply get_seq_hget in Gs.
    unfold ok. cbn [res_I]. eapply dI0_intro.
    pose proof (dI_edit _ _ _ _ l _ (CSeq rc (rev its)) [] [] H1 Gs I I eq_refl I) as Ed. cbn [app] in Ed. apply Ed.
    + rewrite live_seq. destruct (negb (rc =? 0)); [|auto]. cbn [cell_children].
      split; [intros x; rewrite !occ_app, occ_rev; reflexivity|rewrite !zlen_app, zlen_rev; reflexivity].
    + cbn [cell_children]. apply Forall_rev. exact (wfh_children _ _ _ (dI_wfh _ _ _ _ H1) Gs).
    + constructor.
  - destruct (get_seq (d_heap d1) l) as [[rc its]|] eqn:Gs; [|exact I]. apply get_seq_hget in Gs.
    unfold ok. cbn [res_I]. eapply dI0_intro.
    pose proof (dI_edit _ _ _ _ l _ (CSeq rc (rev its)) [] [] H1 Gs I I eq_refl I) as Ed. cbn [app] in Ed. apply Ed.
    + rewrite live_seq. destruct (negb (rc =? 0)); [|auto]. cbn [cell_children].
      split; [intros x; rewrite !occ_app, occ_rev; reflexivity|rewrite !zlen_app, zlen_rev; reflexivity].
    + cbn [cell_children]. apply Forall_rev. exact (wfh_children _ _ _ (dI_wfh _ _ _ _ H1) Gs).
    + constructor.
Qed.

(* emptying a compound: its former children are held, then removed *)
Lemma clear_cell_I d1 U l c c' :
  dI Ex [] U d1 -> hget (d_heap d1) l = Some c -> is_comp c -> is_comp c' -> cell_rc c' = cell_rc c -> cell_kp c' ->
  cell_children c' = [] ->
  dI0 Ex (let d := set_heap d1 (hset (d_heap d1) l c') in if cell_rc c =? 0 then d else d_remove_list (cell_children c) d).
Proof.
  intros H1 Ec C C' Erc Kc Ch. cbv zeta. destruct (cell_rc c =? 0) eqn:Z.
  - pose proof (dI_edit _ _ _ _ l c c' [] [] H1 Ec C C' Erc Kc) as Ed. unfold live in Ed. rewrite Z in Ed. cbn [negb app] in Ed.
    eapply dI0_intro. apply Ed; [auto|rewrite Ch; constructor|constructor].
  - pose proof (dI_edit _ _ _ _ l c c' [] (cell_children c) H1 Ec C C' Erc Kc) as Ed. unfold live in Ed. rewrite Z in Ed.
    cbn [negb app] in Ed. eapply dI0_intro. apply dI_remove_list. apply Ed.
    + rewrite Ch, app_nil_r. apply meq_refl.
    + rewrite Ch. constructor.
    + exact (wfh_children _ _ _ (dI_wfh _ _ _ _ H1) Ec).
Qed.

Lemma op_clearitems_I d : dI0 Ex d -> res_I Ex (op_clearitems d).
Proof.
  intros [U H]. unfold op_clearitems.
  destruct (pop d) as [[it d1]|] eqn:P1; [|exact I]. pose proof (dI_pop _ _ _ _ _ H P1) as H1.
  destruct it; try exact I.
  - destruct (get_seq (d_heap d1) l) as [[rc its]|] eqn:Gs; [|exact I]. apply get_seq_hget in Gs. unfold ok. cbn [res_I].
    exact (clear_cell_I d1 _ l _ (CSeq rc []) H1 Gs I I eq_refl I eq_refl).
  - destruct (get_seq (d_heap d1) l) as [[rc its]|] eqn:Gs; [|exact I]. apply get_seq_hget in Gs. unfold ok. cbn [res_I].
    exact (clear_cell_I d1 _ l _ (CSeq rc []) H1 Gs I I eq_refl I eq_refl).
  - destruct (get_map (d_heap d1) l) as [[rc es]|] eqn:Gm; [|exact I]. apply get_map_hget in Gm. unfold ok. cbn [res_I].
    exact (clear_cell_I d1 _ l _ (CMap rc []) H1 Gm I I eq_refl (Forall_nil _) eq_refl).
Qed.

Lemma removelast_meq its e rest : rev its = e :: rest ->
  meq its (removelast its ++ [e]) /\ (forall a, In a (removelast its ++ [e]) -> In a its) /\ In e its.
Proof.
  intros R. assert (E : its = rev rest ++ [e]).
  { rewrite <- (rev_involutive its), R. reflexivity. }
  rewrite E. rewrite removelast_last. split; [apply meq_refl|]. split; [auto|]. rewrite in_app_iff. simpl. tauto.
Qed.

Lemma op_popitem_I d : dI0 Ex d -> res_I Ex (op_popitem d).
Proof.
  intros [U H]. unfold op_popitem.
  destruct (pop d) as [[arr d1]|] eqn:P1; [|exact I]. pose proof (dI_pop _ _ _ _ _ H P1) as H1.
  destruct (seq_loc arr) as [l|] eqn:Sl; [|exact I].
  destruct (get_seq (d_heap d1) l) as [[rc0 its]|] eqn:Gs; [|exact I]. pose proof (get_seq_hget _ _ _ _ Gs) as Gh.
  destruct (rev its) as [|e rest] eqn:R; [exact I|].
  destruct (removelast_meq its e rest R) as (M & S & Ine).
  assert (Ve : valid (d_heap d1) e) by (eapply dI_child_valid; eauto).
  pose proof (dI_push_v _ _ _ _ e H1 Ve) as H2.
  destruct (get_seq (d_heap (push e d1)) l) as [[rc its']|] eqn:Gs2; [|exact I]. apply get_seq_hget in Gs2.
  (* the counter procedures keep the children: its' = its *)
  assert (Eits : its' = its).
  { unfold push, d_add in Gs2. pose proof (ref_add_rc_only (d_heap (push_noref e d1)) (d_refs (push_noref e d1)) e) as [_ Ro].
    cbn [push_noref set_es d_heap d_refs] in *. destruct (Ro l _ Gh) as (r & Er).
    destruct (ref_add (d_heap d1) (d_refs d1) e) as [h' r'] eqn:Ra. cbn [set_mem d_heap fst] in *. rewrite Er in Gs2.
    cbn [cell_set_rc] in Gs2. inv Gs2. reflexivity. }
  subst its'. cbv zeta. unfold ok. cbn [res_I].
  destruct (rc =? 0) eqn:Z.
  - pose proof (dI_edit _ _ _ _ l _ (CSeq rc (removelast its)) [] [] H2 Gs2 I I eq_refl I) as Ed.
    rewrite live_seq, Z in Ed. cbn [negb app] in Ed. eapply dI0_intro. apply Ed; [auto| |constructor].
    cbn [cell_children]. apply Forall_removelast. exact (wfh_children _ _ _ (dI_wfh _ _ _ _ H2) Gs2).
  - pose proof (dI_edit _ _ _ _ l _ (CSeq rc (removelast its)) [] [e] H2 Gs2 I I eq_refl I) as Ed.
    rewrite live_seq, Z in Ed. cbn [negb app] in Ed. eapply dI0_intro. apply dI_remove. apply Ed.
    + cbn [cell_children]. rewrite app_nil_r. destruct M as [Mo Ml]. split; [intros x; rewrite Mo; reflexivity|lia].
    + cbn [cell_children]. apply Forall_removelast. exact (wfh_children _ _ _ (dI_wfh _ _ _ _ H2) Gs2).
    + constructor; [|constructor]. eapply dI_child_valid; eauto.
Qed.
End Edits2.

(* ================= FAMILY 4: readers - SIZE, HASKEY, PICKITEM, KEYS, CONVERT ================= *)
Section Readers.
Variable Ex : list item.

Lemma op_size_I d : dI0 Ex d -> res_I Ex (op_size d).
Proof. intros [U H]. unfold op_size. tI. Qed.
Lemma op_haskey_I d : dI0 Ex d -> res_I Ex (op_haskey d).
Proof. intros [U H]. unfold op_haskey. tI. Qed.

Lemma throw_bytes_I msg d U : dI Ex [] U d -> res_I Ex (throw_bytes msg d).
Proof. intros H. unfold throw_bytes. cbn [res_I]. split; [eexists; eassumption|exact I]. Qed.

Lemma pick_seq_I key d2 U l : dI Ex [] U d2 ->
  res_I Ex (do i <- try_int key; do i <- to_i32 i;
            do (_, its) <- get_seq (d_heap d2) l;
            if (i <? 0) || (zlen its <=? i) then throw_bytes (msg_out_of_range i) d2
            else do it <- nth_error its (Z.to_nat i); ok (push it d2)).
Proof.
  intros H2. destruct (try_int key); [|exact I]. destruct (to_i32 z); [|exact I].
  destruct (get_seq (d_heap d2) l) as [[rc its]|] eqn:Gs; [|exact I]. apply get_seq_hget in Gs.
  case_if; [eapply throw_bytes_I; eassumption|].
  destruct (nth_error its (Z.to_nat z0)) as [it|] eqn:N; [|exact I]. unfold ok. cbn [res_I].
  eapply dI0_intro. apply dI_push_v; [eassumption|]. eapply dI_child_valid; [exact H2|exact Gs|].
  cbn [cell_children]. eapply nth_error_In; eauto.
Qed.
Lemma pick_bytes_I key obj d2 U : dI Ex [] U d2 ->
  res_I Ex (do i <- try_int key; do i <- to_i32 i; do bs <- try_bytes (d_heap d2) obj;
            if (i <? 0) || (zlen bs <=? i) then throw_bytes (msg_out_of_range i) d2
            else do b <- nth_error bs (Z.to_nat i); okd (push_int b d2)).
Proof.
  intros H2. destruct (try_int key); [|exact I]. destruct (to_i32 z); [|exact I]. destruct (try_bytes (d_heap d2) obj); [|exact I].
  case_if; [eapply throw_bytes_I; eassumption|]. destruct (nth_error l (Z.to_nat z0)); [|exact I].
  unfold okd. destruct (push_int z1 d2) as [d3|] eqn:Pi; [|exact I]. unfold ok. cbn [res_I].
  eapply dI0_intro. eapply dI_push_int; eauto.
Qed.

Lemma op_pickitem_I d : dI0 Ex d -> res_I Ex (op_pickitem d).
Proof.
  intros [U H]. unfold op_pickitem.
  destruct (pop d) as [[key d1]|] eqn:P1; [|exact I]. pose proof (dI_pop _ _ _ _ _ H P1) as H1.
  destruct (negb (valid_key key)); [exact I|].
  destruct (pop d1) as [[obj d2]|] eqn:P2; [|exact I]. pose proof (dI_pop _ _ _ _ _ H1 P2) as H2.
  destruct obj; try (eapply pick_bytes_I; eassumption); try (eapply pick_seq_I; eassumption).
  destruct (get_map (d_heap d2) l) as [[rc es]|] eqn:Gm; [|exact I]. apply get_map_hget in Gm.
  destruct (map_index es key) as [i|]; [|eapply throw_bytes_I; eassumption].
  destruct (nth_error es i) as [[k v]|] eqn:N; [|exact I]. unfold ok. cbn [res_I].
  eapply dI0_intro. apply dI_push_v; [eassumption|]. eapply dI_child_valid; [exact H2|exact Gm|].
  cbn [cell_children]. apply nth_error_In in N. clear - N. induction es as [|[k' v'] t IH]; simpl in *; [tauto|].
  destruct N as [Q|Q]; [inv Q; tauto|right; right; auto].
Qed.

Lemma op_keys_I d : dI0 Ex d -> res_I Ex (op_keys d).
Proof.
  intros [U H]. unfold op_keys, alloc, halloc.
  destruct (pop d) as [[it d1]|] eqn:P1; [|exact I]. pose proof (dI_pop _ _ _ _ _ H P1) as H1.
  destruct it; try exact I.
  destruct (get_map (d_heap d1) l) as [[rc es]|] eqn:Gm; [|exact I]. apply get_map_hget in Gm.
  unfold ok. cbn [res_I]. eapply dI0_intro.
  replace (zlen es + 1) with (zlen (cell_children (CSeq 1 (map fst es))) + 1)
    by (cbn [cell_children]; unfold zlen; rewrite map_length; reflexivity).
  apply dI_alloc_live_prims; try eassumption; try reflexivity; try exact I.
  cbn [cell_children]. pose proof (keys_prim_get _ _ _ (di_kp _ _ _ _ H1) Gm) as K. simpl in K.
  clear - K. induction K; simpl; constructor; auto.
Qed.

Lemma conv_prim_I it t d1 U : dI Ex [] (it :: U) d1 ->
  res_I Ex (if item_type it =? t then ok (push it d1)
            else if t =? T_Integer then do z <- try_int it; okd (push_int z d1)
            else if t =? T_ByteArray then do bs <- try_bytes (d_heap d1) it; ok (push (IBytes bs) d1)
            else if t =? T_Buffer then do bs <- try_bytes (d_heap d1) it; ok (push_new_buffer bs d1)
            else if t =? T_Boolean then do b <- try_bool it; ok (push (IBool b) d1) else None).
Proof.
  intros H1. assert (Vit : valid (d_heap d1) it) by (eapply dI_valid_U; [exact H1|simpl; tauto]).
  repeat case_if; try exact I.
  - unfold ok. cbn [res_I]. eapply dI0_intro. apply dI_push_v; eassumption.
  - destruct (try_int it); [|exact I]. unfold okd. destruct (push_int z d1) eqn:Pi; [|exact I]. unfold ok. cbn [res_I].
    eapply dI0_intro. eapply dI_push_int; eauto.
  - destruct (try_bytes (d_heap d1) it); [|exact I]. unfold ok. cbn [res_I]. eapply dI0_intro. apply dI_push_v; [eassumption|exact I].
  - destruct (try_bytes (d_heap d1) it); [|exact I]. unfold ok. cbn [res_I]. eapply dI0_intro. apply dI_push_new_buffer. eassumption.
  - destruct (try_bool it); [|exact I]. unfold ok. cbn [res_I]. eapply dI0_intro. apply dI_push_v; [eassumption|exact I].
Qed.
Lemma conv_copy_I d1 U l (mk : loc -> item) :
  dI Ex [] U d1 -> item_cloc (mk (length (d_heap d1))) = Some (length (d_heap d1)) ->
  res_I Ex (do (_, its) <- get_seq (d_heap d1) l;
            ok (push (mk (length (d_heap d1))) (set_heap d1 (d_heap d1 ++ [CSeq 0 its])))).
Proof.
  intros H1 Mk. destruct (get_seq (d_heap d1) l) as [[rc its]|] eqn:Gs; [|exact I]. apply get_seq_hget in Gs.
  unfold ok. cbn [res_I]. eapply dI0_intro. apply dI_push_v.
  - apply dI_alloc_dead; [eassumption|reflexivity| |exact I]. exact (wfh_children _ _ _ (dI_wfh _ _ _ _ H1) Gs).
  - cbn [set_heap set_mem d_heap]. unfold valid. rewrite Mk. eexists. split; [apply hget_app_new|exact I].
Qed.

Lemma op_convert_I t d : dI0 Ex d -> res_I Ex (op_convert t d).
Proof.
  intros [U H]. unfold op_convert, alloc, halloc.
  destruct (pop d) as [[it d1]|] eqn:P1; [|exact I]. pose proof (dI_pop _ _ _ _ _ H P1) as H1.
  assert (Vit : valid (d_heap d1) it) by (eapply dI_valid_U; [exact H1|simpl; tauto]).
  assert (Back : dI0 Ex (push it d1)) by (eapply dI0_intro; apply dI_push_v; eassumption).
  assert (PB : forall b, dI0 Ex (push (IBool b) d1)) by (intros b; eapply dI0_intro; apply dI_push_v; [eassumption|exact I]).
  assert (PI : forall z, res_I Ex (okd (push_int z d1))).
  { intros z. unfold okd. destruct (push_int z d1) eqn:Pi; [|exact I]. unfold ok. cbn [res_I]. eapply dI0_intro. eapply dI_push_int; eauto. }
  destruct it; try (eapply conv_prim_I; eassumption).
  - (* Null *) case_if; [exact I|exact Back].
  - (* Buffer *) destruct (get_buf (d_heap d1) l) as [bs|]; [|exact I].
    repeat case_if; try exact I; try exact Back; try apply PB; try apply PI.
    unfold ok. cbn [res_I]. eapply dI0_intro. apply dI_push_v; [eassumption|exact I].
  - (* Array *) repeat case_if; try exact I; try exact Back; try apply PB. eapply (conv_copy_I d1 _ l IStruct); [eassumption|reflexivity].
  - (* Struct *) repeat case_if; try exact I; try exact Back; try apply PB. eapply (conv_copy_I d1 _ l IArr); [eassumption|reflexivity].
  - (* Map *) repeat case_if; try exact I; try exact Back; try apply PB.
  - (* Pointer *) repeat case_if; try exact I; try exact Back; try apply PB.
Qed.
End Readers.

(* ================= FAMILY 5: UNPACK and VALUES (manual DecRC) ================= *)
Lemma GI_new_roots h refs A X its : GI h refs A X -> Forall (valid h) its -> GI h refs (its ++ A) (its ++ X).
Proof. intros H V. induction V as [|it its Vit _ IH]; [exact H|]. cbn [app]. apply GI_new_root; assumption. Qed.
Lemma GI_count_prims h refs A X ps :
  GI h refs (ps ++ A) X -> Forall (fun p => item_cloc p = None) ps -> GI h (refs + zlen ps) A X.
Proof.
  revert refs. induction ps as [|p ps IH]; intros refs H P; [rewrite zlen_nil, Z.add_0_r; exact H|].
  inv P. cbn [app] in H. destruct H as [Hg W Vx Va]. inv Va.
  rewrite zlen_cons'. replace (refs + (1 + zlen ps)) with (refs + 1 + zlen ps) by lia. apply IH; [|assumption].
  constructor; try assumption. eapply G_count_prim; eauto.
Qed.

Lemma set_es_add_list d w es : set_es (d_add_list w d) es = d_add_list w (set_es d es).
Proof. unfold d_add_list. cbn [set_es d_heap d_refs]. destruct (ref_add_list (d_heap d) (d_refs d) w); reflexivity. Qed.
Lemma d_es_add_list d w : d_es (d_add_list w d) = d_es d.
Proof. unfold d_add_list. destruct (ref_add_list (d_heap d) (d_refs d) w); reflexivity. Qed.
Lemma d_refs_set_refs d r : d_refs (set_refs d r) = r. Proof. reflexivity. Qed.

(* new uncounted roots on top of the stack *)
Lemma dI_new_roots E A U d its :
  dI E A U d -> Forall (valid (d_heap d)) its -> dI E (its ++ A) U (set_es d (its ++ d_es d)).
Proof.
  intros [Hgi Hu Hk] V. constructor; [|exact Hu|exact Hk]. cbn [set_es d_heap d_refs].
  pose proof (GI_new_roots _ _ _ _ its Hgi V) as N.
  eapply GI_meq; try exact N; try apply meq_refl; [| |apply N].
  - meq_solve.
  - destruct N as [_ _ Vx _]. eapply Forall_valid_perm; [|exact Vx]. in_solve.
Qed.

(* DecRC by hand of a compound held counted (after popNoRef), with refs-- *)
Lemma dI_dec_rc E U d it l0 c :
  dI (it :: E) [] U d -> item_cloc it = Some l0 -> hget (d_heap d) l0 = Some c ->
  1 <= cell_rc c /\ is_comp c /\
  dI ((if cell_rc c - 1 =? 0 then cell_children c else []) ++ E) [] U
     (set_heap (set_refs d (d_refs d - 1)) (hset (d_heap d) l0 (cell_set_rc c (cell_rc c - 1)))).
Proof.
  intros [Hgi Hu Hk] Ecl Ec.
  assert (M : GI (d_heap d) (d_refs d) [] (it :: droots_l d ++ E)).
  { eapply GI_meq; try exact Hgi; try apply meq_refl; [| |constructor].
    - split; [intros l; repeat rewrite ?occ_app, ?occ_cons; lia|repeat rewrite ?zlen_app, ?zlen_cons'; lia].
    - destruct Hgi as [_ _ Vx _]. eapply Forall_valid_perm; [|exact Vx]. intros a. simpl. repeat rewrite ?in_app_iff. simpl. tauto. }
  destruct (GI_dec_rc _ _ _ _ _ _ M Ecl Ec) as (Rp & Cc & N). split; [assumption|]. split; [assumption|].
  assert (S : same_shape (d_heap d) (hset (d_heap d) l0 (cell_set_rc c (cell_rc c - 1)))).
  { eapply same_shape_hset; eauto. apply set_rc_comp. }
  constructor.
  - cbn [set_heap set_refs set_mem d_heap d_refs]. rewrite droots_l_set_heap, droots_l_set_refs.
    eapply GI_meq; try exact N; try apply meq_refl; [| |constructor].
    + destruct (cell_rc c - 1 =? 0); split; try (intros l; repeat rewrite ?occ_app; cbn [occ]; lia); repeat rewrite ?zlen_app; rewrite ?zlen_nil; lia.
    + destruct N as [_ _ Vx _]. eapply Forall_valid_perm; [|exact Vx]. intros a.
      destruct (cell_rc c - 1 =? 0); repeat rewrite ?in_app_iff; simpl; tauto.
  - cbn [set_heap set_refs set_mem d_heap]. eapply Forall_valid_shape; eauto.
  - cbn [set_heap set_refs set_mem d_heap]. apply keys_prim_hset; [assumption|]. apply cell_kp_set_rc. eapply keys_prim_get; eauto.
Qed.

Lemma flat_entries_split es : meq (flat_entries es) (map fst es ++ map snd es) /\
  (forall a, In a (map fst es ++ map snd es) <-> In a (flat_entries es)).
Proof.
  induction es as [|[k v] t [[Mo Ml] Hi]]; [split; [apply meq_refl|tauto]|]. split; [split|].
  - intros l. specialize (Mo l). cbn [flat_entries map fst snd app occ]. repeat (rewrite ?occ_app, ?occ_cons in * ). lia.
  - cbn [flat_entries map fst snd app]. repeat (rewrite ?zlen_app, ?zlen_cons' in * ). lia.
  - intros a. specialize (Hi a). cbn [flat_entries map fst snd]. rewrite !in_app_iff in *. cbn [In]. tauto.
Qed.
Lemma zlen_flat_entries es : zlen (flat_entries es) = 2 * zlen es.
Proof. induction es as [|[k v] t IH]; cbn [flat_entries]; [reflexivity|]. rewrite !zlen_cons'. lia. Qed.

Section Unpack.
Variable Ex : list item.

Lemma unpack_seq_I d1 U it l :
  dI (it :: Ex) [] U d1 -> item_cloc it = Some l ->
  res_I Ex (do (rc, its) <- get_seq (d_heap (set_refs d1 (d_refs d1 - 1))) l;
            let d := set_heap (set_refs d1 (d_refs d1 - 1)) (hset (d_heap (set_refs d1 (d_refs d1 - 1))) l (CSeq (rc - 1) its)) in
            let d := if rc - 1 =? 0 then d else d_add_list (rev its) d in
            okd (push_int (zlen its) (set_es d (its ++ d_es d)))).
Proof.
  intros H1 Ecl. cbn [set_refs set_mem d_heap].
  destruct (get_seq (d_heap d1) l) as [[rc its]|] eqn:Gs; [|exact I]. apply get_seq_hget in Gs.
  destruct (dI_dec_rc _ _ _ _ _ _ H1 Ecl Gs) as (Rp & _ & H2). cbn [cell_rc cell_set_rc cell_children] in *.
  cbv zeta. unfold okd.
  assert (Vits : Forall (valid (d_heap d1)) its) by exact (wfh_children _ _ _ (dI_wfh _ _ _ _ H1) Gs).
  destruct (rc - 1 =? 0) eqn:Z.
  - match goal with |- res_I _ (match push_int _ ?dd with _ => _ end) => assert (H3 : dI Ex [] U dd) end.
    { eapply dI_unhold; [exact H2| |]; cbn [set_heap set_refs set_mem d_es]; [meq_solve|in_solve]. }
    destruct (push_int _ _) eqn:Pi; [|exact I]. unfold ok. cbn [res_I]. eapply dI0_intro. eapply dI_push_int; eauto.
  - rewrite d_es_add_list, set_es_add_list.
    match goal with |- res_I _ (match push_int _ ?dd with _ => _ end) => assert (H3 : dI Ex [] U dd) end.
    { apply dI_add_list. cbn [app] in H2.
      pose proof (dI_new_roots _ _ _ _ its H2) as N. cbn [set_heap set_refs set_mem d_heap d_es] in N.
      eapply dI_rearr; [apply N| | | | | | |]; try reflexivity; try apply meq_refl; try tauto.
      - eapply Forall_valid_shape; [|exact Vits]. eapply same_shape_hset; eauto.
      - split; [intros x; rewrite !occ_app, occ_rev; reflexivity|rewrite !zlen_app, zlen_rev; reflexivity].
      - intros a. rewrite !in_app_iff, <- in_rev. tauto. }
    destruct (push_int _ _) eqn:Pi; [|exact I]. unfold ok. cbn [res_I]. eapply dI0_intro. eapply dI_push_int; eauto.
Qed.

Lemma unpack_map_I d1 U it l :
  dI (it :: Ex) [] U d1 -> item_cloc it = Some l ->
  res_I Ex (do (rc, es) <- get_map (d_heap (set_refs d1 (d_refs d1 - 1))) l;
            let d := set_heap (set_refs d1 (d_refs d1 - 1)) (hset (d_heap (set_refs d1 (d_refs d1 - 1))) l (CMap (rc - 1) es)) in
            let d := if rc - 1 =? 0 then d
                     else let d := d_add_list (rev (map snd es)) d in set_refs d (d_refs d + zlen es) in
            okd (push_int (zlen es) (set_es d (flat_entries es ++ d_es d)))).
Proof.
  intros H1 Ecl. cbn [set_refs set_mem d_heap].
  destruct (get_map (d_heap d1) l) as [[rc es]|] eqn:Gm; [|exact I]. apply get_map_hget in Gm.
  destruct (dI_dec_rc _ _ _ _ _ _ H1 Ecl Gm) as (Rp & _ & H2). cbn [cell_rc cell_set_rc cell_children] in *.
  cbv zeta. unfold okd.
  assert (Vfl : Forall (valid (d_heap d1)) (flat_entries es)) by exact (wfh_children _ _ _ (dI_wfh _ _ _ _ H1) Gm).
  pose proof (keys_prim_get _ _ _ (di_kp _ _ _ _ H1) Gm) as Kp. simpl in Kp.
  destruct (flat_entries_split es) as [[Fo Fl] Fi].
  destruct (rc - 1 =? 0) eqn:Z.
  - match goal with |- res_I _ (match push_int _ ?dd with _ => _ end) => assert (H3 : dI Ex [] U dd) end.
    { eapply dI_unhold; [exact H2| |]; cbn [set_heap set_refs set_mem d_es]; [meq_solve|in_solve]. }
    destruct (push_int _ _) eqn:Pi; [|exact I]. unfold ok. cbn [res_I]. eapply dI0_intro. eapply dI_push_int; eauto.
  - (* referenced: values are added, keys counted by hand *)
    set (d2 := set_heap (set_refs d1 (d_refs d1 - 1)) (hset (d_heap d1) l (CMap (rc - 1) es))) in *.
    cbn [app] in H2.
    assert (Vfl2 : Forall (valid (d_heap d2)) (flat_entries es)).
    { eapply Forall_valid_shape; [|exact Vfl]. eapply same_shape_hset; eauto. }
    pose proof (dI_new_roots _ _ _ _ (flat_entries es) H2 Vfl2) as N. rewrite app_nil_r in N.
    (* A = flat_entries es, as values ++ keys *)
    assert (N2 : dI Ex (rev (map snd es) ++ map fst es) U (set_es d2 (flat_entries es ++ d_es d2))).
    { eapply dI_rearr; [apply N| | | | | | |]; try reflexivity; try apply meq_refl; try tauto.
      - split; [intros x; specialize (Fo x); rewrite !occ_app, ?occ_rev in *; lia|rewrite !zlen_app, ?zlen_rev in *; lia].
      - intros a Ha. apply Fi. rewrite !in_app_iff, <- ?in_rev in *. tauto. }
    apply dI_add_list in N2.
    match goal with |- res_I _ (match push_int _ ?dd with _ => _ end) => assert (H3 : dI Ex [] U dd) end.
    { assert (Pk : Forall (fun p => item_cloc p = None) (map fst es)).
      { clear - Kp. induction Kp; simpl; constructor; auto. }
      revert N2. unfold d_add_list. cbn [set_es d_heap d_refs].
      destruct (ref_add_list (d_heap d2) (d_refs d2) (rev (map snd es))) as [h' r']. intros [Hgi Hu Hk].
      cbn [set_es set_refs set_mem d_heap d_refs d_es] in *.
      constructor; [|exact Hu|exact Hk].
      rewrite <- (app_nil_r (map fst es)) in Hgi. pose proof (GI_count_prims _ _ _ _ _ Hgi Pk) as C.
      unfold zlen in C at 1. rewrite map_length in C. fold (zlen es) in C. exact C. }
    destruct (push_int _ _) eqn:Pi; [|exact I]. unfold ok. cbn [res_I]. eapply dI0_intro. eapply dI_push_int; eauto.
Qed.

Lemma op_unpack_I d : dI0 Ex d -> res_I Ex (op_unpack d).
Proof.
  intros [U H]. unfold op_unpack.
  destruct (pop_noref d) as [[e d1]|] eqn:P1; [|exact I]. pose proof (dI_pop_noref _ _ _ _ _ _ H P1) as H1.
  cbv zeta. destruct e; try exact I.
  - eapply unpack_seq_I; [eassumption|reflexivity].
  - eapply unpack_seq_I; [eassumption|reflexivity].
  - eapply unpack_map_I; [eassumption|reflexivity].
Qed.
End Unpack.

(* ---------- VALUES ---------- *)
Lemma rc_only_shape h h' : rc_only h h' -> same_shape h h'.
Proof. intros [_ H] l c E C. destruct (H l c E) as (r & E'). eexists. split; [exact E'|apply set_rc_comp; assumption]. Qed.
Lemma d_add_shape it d : same_shape (d_heap d) (d_heap (d_add it d)).
Proof.
  unfold d_add. pose proof (ref_add_rc_only (d_heap d) (d_refs d) it) as R.
  destruct (ref_add (d_heap d) (d_refs d) it). apply rc_only_shape. exact R.
Qed.
Lemma d_remove_shape it d : same_shape (d_heap d) (d_heap (d_remove it d)).
Proof.
  unfold d_remove. pose proof (ref_remove_rc_only (d_heap d) (d_refs d) it) as R.
  destruct (ref_remove (d_heap d) (d_refs d) it). apply rc_only_shape. exact R.
Qed.

(* a new reference to an existing value, held counted after Add *)
Lemma dI_hold_added E U d it : dI E [] U d -> valid (d_heap d) it -> dI (it :: E) [] U (d_add it d).
Proof.
  intros [Hgi Hu Hk] V. apply dI_add. constructor; [|exact Hu|exact Hk].
  pose proof (GI_new_root _ _ _ _ it Hgi V) as N.
  eapply GI_meq; try exact N; try apply meq_refl; [| |apply N].
  - split; [intros l; repeat rewrite ?occ_app, ?occ_cons; lia|repeat rewrite ?zlen_app, ?zlen_cons'; lia].
  - destruct N as [_ _ Vx _]. eapply Forall_valid_perm; [|exact Vx]. intros a; repeat (rewrite ?in_app_iff; simpl); tauto.
Qed.

Section Values.
Variable Ex : list item.

(* source still referenced: every value is copied (structs cloned) and added *)
Lemma cp_values_ref_I : forall src acc d U arr d',
  dI (acc ++ Ex) [] U d -> Forall (valid (d_heap d)) src -> cp_values true src acc d = Some (arr, d') ->
  exists U', dI (arr ++ Ex) [] U' d'.
Proof.
  induction src as [|it src IH]; intros acc d U arr d' H V; simpl.
  - intros Q; inv Q. exists U. eapply dI_E_meq; [exact H| |].
    + split; [intros l; rewrite !occ_app, occ_rev; reflexivity|rewrite !zlen_app, zlen_rev; reflexivity].
    + intros a. rewrite !in_app_iff, <- in_rev. tauto.
  - inv V. destruct (clone_if_struct (d_heap d) it) as [[[h cl] b]|] eqn:C; [|discriminate].
    destruct (dI_clone _ _ _ _ _ _ _ _ H H2 C) as [H1 Vcl].
    destruct (clone_if_struct_ext _ _ _ _ _ (dI_wfh _ _ _ _ H) H2 C) as ((_ & S1 & _) & _ & _).
    intros Q. eapply (IH (cl :: acc)); [| |exact Q].
    + cbn [app]. apply dI_hold_added; [exact H1|exact Vcl].
    + eapply Forall_valid_shape; [|exact H3]. eapply same_shape_trans; [exact S1|].
      change h with (d_heap (set_heap d h)) at 1. apply d_add_shape.
Qed.

(* source no longer referenced: its children are held; structs are replaced by clones *)
Lemma cp_values_unref_I : forall src acc d U arr d',
  dI (acc ++ src ++ Ex) [] U d -> cp_values false src acc d = Some (arr, d') ->
  exists U', dI (arr ++ Ex) [] U' d'.
Proof.
  induction src as [|it src IH]; intros acc d U arr d' H; simpl.
  - intros Q; inv Q. exists U. cbn [app] in H. eapply dI_E_meq; [exact H| |].
    + split; [intros l; rewrite !occ_app, occ_rev; lia|rewrite !zlen_app, zlen_rev; lia].
    + intros a. rewrite !in_app_iff, <- in_rev. tauto.
  - assert (Vit : valid (d_heap d) it).
    { eapply dI_valid_E; [exact H|]. rewrite !in_app_iff. simpl. tauto. }
    destruct (clone_if_struct (d_heap d) it) as [[[h cl] b]|] eqn:C; [|discriminate].
    destruct (dI_clone _ _ _ _ _ _ _ _ H Vit C) as [H1 Vcl].
    intros Q. destruct b.
    + (* a struct: the held original is removed, the clone added and held *)
      eapply (IH (cl :: acc)); [|exact Q]. cbn [app].
      assert (H2 : dI (acc ++ src ++ Ex) [] (it :: cl :: U) (d_remove it (set_heap d h))).
      { apply dI_remove. eapply dI_E_meq; [exact H1| |].
        - split; [intros l; repeat rewrite ?occ_app, ?occ_cons; lia|repeat rewrite ?zlen_app, ?zlen_cons'; lia].
        - intros a; repeat (rewrite ?in_app_iff; simpl); tauto. }
      apply dI_hold_added; [exact H2|]. eapply valid_shape; [apply d_remove_shape|exact Vcl].
    + (* not a struct: cl = it *)
      assert (E : cl = it /\ h = d_heap d).
      { unfold clone_if_struct in C. destruct it; try (inv C; split; reflexivity).
        destruct (clone_struct clone_fuel (d_heap d) l (MaxClonableNumOfItems - 1)) as [[[? ?] ?]|]; discriminate C. }
      destruct E as [-> ->].
      eapply (IH (it :: acc)); [|exact Q]. eapply dI_E_meq; [exact H1| |].
      * split; [intros l; repeat rewrite ?occ_app, ?occ_cons; lia|repeat rewrite ?zlen_app, ?zlen_cons'; lia].
      * intros a; repeat (rewrite ?in_app_iff; simpl); tauto.
Qed.

(* the result array: children held, one count taken over from the popped operand (pushItemCounted(res, 0)) *)
Lemma dI_alloc_live_tok U d c r tok :
  dI (cell_children c ++ tok :: Ex) [] U d -> item_cloc tok = None -> cell_rc c = 1 -> is_comp c -> cell_kp c ->
  item_cloc r = Some (length (d_heap d)) ->
  dI Ex [] U (push_counted r 0 (set_heap d (d_heap d ++ [c]))).
Proof.
  intros H Pt Z C Kc Er.
  assert (H1 : dI (cell_children c ++ Ex) [] U (set_refs d (d_refs d - 1))).
  { eapply dI_untoken; [|exact Pt]. eapply dI_E_meq; [exact H| |].
    - split; [intros l; repeat rewrite ?occ_app, ?occ_cons; lia|repeat rewrite ?zlen_app, ?zlen_cons'; lia].
    - intros a; repeat (rewrite ?in_app_iff; simpl); tauto. }
  pose proof (dI_alloc_live_held _ _ _ c r H1 Z C Kc Er) as N.
  destruct N as [Hgi Hu Hk]. constructor; [|exact Hu|exact Hk].
  cbn [push_counted push_noref set_refs set_heap set_mem set_es d_heap d_refs] in *.
  replace (d_refs d + 0) with (d_refs d - 1 + 1) by lia. exact Hgi.
Qed.
End Values.

Lemma dI_dec_rc_tok E U d it l0 c :
  dI (it :: E) [] U d -> item_cloc it = Some l0 -> hget (d_heap d) l0 = Some c ->
  dI ((if cell_rc c - 1 =? 0 then cell_children c else []) ++ INull :: E) [] U
     (set_heap d (hset (d_heap d) l0 (cell_set_rc c (cell_rc c - 1)))).
Proof.
  intros H Ecl Ec. destruct (dI_dec_rc _ _ _ _ _ _ H Ecl Ec) as (_ & _ & [Hgi Hu Hk]).
  constructor; [|exact Hu|exact Hk]. cbn [set_heap set_refs set_mem d_heap d_refs] in *.
  rewrite droots_l_set_heap in *. rewrite droots_l_set_refs in Hgi.
  destruct Hgi as [Hg W Vx Va].
  pose proof (G_token _ _ _ _ INull eq_refl Hg) as T. replace (d_refs d - 1 + 1) with (d_refs d) in T by lia.
  constructor; try assumption.
  - eapply G_meq; try exact T; try apply meq_refl.
    split; [intros l; repeat rewrite ?occ_app, ?occ_cons; lia|repeat rewrite ?zlen_app, ?zlen_cons'; lia].
  - eapply Forall_valid_perm; [|exact (Forall_cons INull I Vx)]. intros a; repeat (rewrite ?in_app_iff; simpl); tauto.
Qed.

Lemma dI_untokens E U d ps :
  dI (ps ++ E) [] U d -> Forall (fun p => item_cloc p = None) ps -> dI E [] U (set_refs d (d_refs d - zlen ps)).
Proof.
  revert d. induction ps as [|p ps IH]; intros d H P.
  - rewrite zlen_nil. destruct H as [Hgi Hu Hk]. constructor; [|exact Hu|exact Hk].
    cbn [set_refs set_mem d_heap d_refs]. rewrite droots_l_set_refs. replace (d_refs d - 0) with (d_refs d) by lia. exact Hgi.
  - inversion P as [|? ? Hp Hps]; subst. cbn [app] in H. pose proof (dI_untoken _ _ _ _ H Hp) as H'.
    specialize (IH _ H' Hps). destruct IH as [Hgi Hu Hk]. constructor; [|exact Hu|exact Hk].
    cbn [set_refs set_mem d_heap d_refs] in *. rewrite droots_l_set_refs in *. rewrite zlen_cons'.
    replace (d_refs d - (1 + zlen ps)) with (d_refs d - 1 - zlen ps) by lia. exact Hgi.
Qed.

Section Values2.
Variable Ex : list item.

Lemma values_finish arr d U :
  dI (arr ++ INull :: Ex) [] U d ->
  res_I Ex (let (l', d) := alloc (CSeq 1 arr) d in ok (push_counted (IArr l') 0 d)).
Proof.
  intros H. unfold alloc, halloc, ok. cbn [res_I]. eapply dI0_intro.
  apply (dI_alloc_live_tok Ex U d (CSeq 1 arr) (IArr (length (d_heap d))) INull); try reflexivity; try exact I. exact H.
Qed.

Lemma op_values_I d : dI0 Ex d -> res_I Ex (op_values d).
Proof.
  intros [U H]. unfold op_values.
  destruct (pop_noref d) as [[it d1]|] eqn:P1; [|exact I]. pose proof (dI_pop_noref _ _ _ _ _ _ H P1) as H1.
  assert (Seq : forall l, item_cloc it = Some l ->
    res_I Ex (match get_seq (d_heap d1) l with
              | Some (rc, its) =>
                  match cp_values (negb (rc - 1 =? 0)) its [] (set_heap d1 (hset (d_heap d1) l (CSeq (rc - 1) its))) with
                  | Some (arr, d) => let (l', d) := alloc (CSeq 1 arr) d in ok (push_counted (IArr l') 0 d)
                  | None => None end
              | None => None end)).
  { intros l Ecl. destruct (get_seq (d_heap d1) l) as [[rc its]|] eqn:Gs; [|exact I]. apply get_seq_hget in Gs.
    pose proof (dI_dec_rc_tok _ _ _ _ _ _ H1 Ecl Gs) as H2. cbn [cell_rc cell_set_rc cell_children] in H2.
    set (d2 := set_heap d1 (hset (d_heap d1) l (CSeq (rc - 1) its))) in *.
    destruct (cp_values (negb (rc - 1 =? 0)) its [] d2) as [[arr d3]|] eqn:Cp; [|exact I].
    destruct (rc - 1 =? 0) eqn:Z; cbn [negb] in Cp.
    - destruct (cp_values_unref_I (INull :: Ex) its [] d2 U arr d3) as [U' H3]; [|exact Cp|].
      + cbn [app]. eapply dI_E_meq; [exact H2| |]; [apply meq_refl|auto].
      + apply (values_finish arr d3 U'). exact H3.
    - destruct (cp_values_ref_I (INull :: Ex) its [] d2 U arr d3) as [U' H3]; [| |exact Cp|].
      + cbn [app] in *. exact H2.
      + eapply Forall_valid_shape; [|exact (wfh_children _ _ _ (dI_wfh _ _ _ _ H1) Gs)].
        unfold d2. cbn [set_heap set_mem d_heap]. eapply same_shape_hset; eauto.
      + apply (values_finish arr d3 U'). exact H3. }
  destruct it; try exact I; try (apply Seq; reflexivity).
  (* Map *)
  destruct (get_map (d_heap d1) l) as [[rc es]|] eqn:Gm; [|exact I]. apply get_map_hget in Gm.
  pose proof (dI_dec_rc_tok _ _ _ _ _ _ H1 eq_refl Gm) as H2. cbn [cell_rc cell_set_rc cell_children] in H2.
  cbv zeta. set (d2 := set_heap d1 (hset (d_heap d1) l (CMap (rc - 1) es))) in *.
  pose proof (keys_prim_get _ _ _ (di_kp _ _ _ _ H1) Gm) as Kp. simpl in Kp.
  assert (Pk : Forall (fun p => item_cloc p = None) (map fst es)) by (clear - Kp; induction Kp; simpl; constructor; auto).
  destruct (flat_entries_split es) as [[Fo Fl] Fi].
  destruct (rc - 1 =? 0) eqn:Z; cbn [negb].
  - assert (H3 : dI (map snd es ++ INull :: Ex) [] U (set_refs d2 (d_refs d2 - zlen es))).
    { replace (zlen es) with (zlen (map fst es)) by (unfold zlen; rewrite map_length; reflexivity).
      apply dI_untokens; [|exact Pk]. eapply dI_E_meq; [exact H2| |].
      - split; [intros x; specialize (Fo x); repeat rewrite ?occ_app in *; lia|repeat rewrite ?zlen_app in *; lia].
      - intros a Ha. rewrite !in_app_iff in *. destruct Ha as [Ha|[Ha|Ha]]; try tauto; left; apply Fi; rewrite in_app_iff; tauto. }
    destruct (cp_values false (map snd es) [] (set_refs d2 (d_refs d2 - zlen es))) as [[arr d3]|] eqn:Cp; [|exact I].
    destruct (cp_values_unref_I (INull :: Ex) (map snd es) [] (set_refs d2 (d_refs d2 - zlen es)) U arr d3) as [U' H4]; [|exact Cp|].
    + cbn [app]. exact H3.
    + apply (values_finish arr d3 U'). exact H4.
  - destruct (cp_values true (map snd es) [] d2) as [[arr d3]|] eqn:Cp; [|exact I].
    destruct (cp_values_ref_I (INull :: Ex) (map snd es) [] d2 U arr d3) as [U' H4]; [| |exact Cp|].
    + cbn [app] in *. exact H2.
    + assert (V : Forall (valid (d_heap d1)) (flat_entries es)) by exact (wfh_children _ _ _ (dI_wfh _ _ _ _ H1) Gm).
      eapply Forall_valid_shape; [unfold d2; cbn [set_heap set_mem d_heap]; eapply same_shape_hset; eauto|].
      rewrite Forall_forall in *. intros a Ha. apply V. apply Fi. rewrite in_app_iff. tauto.
    + apply (values_finish arr d3 U'). exact H4.
Qed.
End Values2.

(* ================= FAMILY 6: REMOVE and SETITEM (un-counting before the edit) ================= *)
Lemma wfh_rc_only h h' : rc_only h h' -> wfh h -> wfh h'.
Proof.
  intros R W. pose proof (rc_only_shape _ _ R) as S. destruct R as [L H]. unfold wfh in *. apply Forall_forall. intros c' Hin.
  apply In_nth_error in Hin. destruct Hin as [i Ei].
  assert (Li : (i < length h)%nat) by (rewrite <- L; apply nth_error_Some; congruence).
  destruct (nth_error h i) as [c|] eqn:Ec; [|apply nth_error_None in Ec; lia].
  destruct (H i c Ec) as (r & E'). unfold hget in E'. rewrite Ei in E'. inv E'. rewrite set_rc_children.
  eapply Forall_valid_shape; [exact S|]. eapply Forall_nth_error in Ec; [|exact W]. exact Ec.
Qed.
Lemma wfh_hset h l c c' :
  wfh h -> hget h l = Some c -> (is_comp c -> is_comp c') -> Forall (valid h) (cell_children c') -> wfh (hset h l c').
Proof.
  intros W E K V. assert (S : same_shape h (hset h l c')) by (eapply same_shape_hset; eauto).
  unfold wfh in *.
  assert (Q : forall h0 j, Forall (fun c0 => Forall (valid h) (cell_children c0)) h0 ->
              Forall (fun c0 => Forall (valid (hset h l c')) (cell_children c0)) (hset h0 j c')).
  { induction h0 as [|x h0 IH]; intros [|j] F; simpl; inv F; constructor;
      try (eapply Forall_valid_shape; [exact S|assumption]); auto.
    eapply Forall_impl; [|exact H2]. intros a. apply Forall_valid_shape. exact S. }
  apply Q. assumption.
Qed.

Lemma dI_remove_then_edit E U d l c old cf add :
  dI E [] U d -> hget (d_heap d) l = Some c -> live c = true -> is_comp c -> In old (cell_children c) ->
  forall c1, hget (d_heap (d_remove old d)) l = Some c1 ->
  is_comp cf -> cell_kp cf -> cell_rc cf = cell_rc c1 -> meq (cell_children cf ++ [old]) (cell_children c ++ add) ->
  Forall (valid (d_heap d)) (cell_children cf) -> Forall (valid (d_heap d)) add ->
  dI E (if live c1 then add else []) (old :: U)
     (set_heap (d_remove old d) (hset (d_heap (d_remove old d)) l cf)).
Proof.
  intros [[Hg W Vx Va] Hu Hk] Ec Lc Cc Hin c1 E1 Ccf Kcf Erc M Vcf Vadd.
  assert (Vold : valid (d_heap d) old).
  { pose proof (wfh_children _ _ _ W Ec) as V. rewrite Forall_forall in V. auto. }
  pose proof (ref_remove_rc_only (d_heap d) (d_refs d) old) as Ro.
  unfold d_remove in *. destruct (ref_remove (d_heap d) (d_refs d) old) as [h1 r1] eqn:Rr.
  cbn [set_mem set_heap d_heap d_refs fst] in *.
  pose proof (rc_only_shape _ _ Ro) as S1.
  destruct (proj2 Ro l c Ec) as (r & Ec1). rewrite E1 in Ec1. inv Ec1.
  assert (S2 : same_shape h1 (hset h1 l cf)) by (eapply same_shape_hset; eauto).
  assert (S : same_shape (d_heap d) (hset h1 l cf)) by (eapply same_shape_trans; eauto).
  assert (Gf : G (hset h1 l cf) r1 (if live (cell_set_rc c r) then add else []) (droots_l d ++ E)).
  { destruct (item_cloc old) as [lo|] eqn:Eo.
    - pose proof (G_remove_then_edit (d_heap d) (d_refs d) (droots_l d ++ E) l c old lo cf add Hg Ec Lc Cc Hin Eo) as K.
      rewrite Rr in K. cbn [fst snd] in K. apply (K (cell_set_rc c r) E1 (set_rc_children c r) Erc M).
    - (* a primitive element: Remove is refs-- *)
      unfold ref_remove in Rr. rewrite Eo in Rr. inv Rr.
      assert (r = cell_rc c) by (rewrite Ec in E1; inv E1; destruct c; simpl in *; try tauto; congruence).
      subst r. rewrite set_rc_id in *. rewrite Lc.
      pose proof (G_edit _ _ _ _ l c cf add [old] Hg Ec Erc) as Ed. rewrite Lc in Ed. specialize (Ed M).
      rewrite app_nil_r in Ed. cbn [app] in Ed. eapply G_untoken; eauto. }
  constructor; [constructor| |].
  - rewrite droots_l_set_heap. exact Gf.
  - eapply wfh_hset; [eapply wfh_rc_only; eauto|exact E1|auto|eapply Forall_valid_shape; eauto].
  - rewrite droots_l_set_heap. eapply Forall_valid_shape; eauto.
  - destruct (live (cell_set_rc c r)); [eapply Forall_valid_shape; eauto|constructor].
  - constructor; [eapply valid_shape; eauto|eapply Forall_valid_shape; eauto].
  - apply keys_prim_hset; [eapply keys_prim_rc_only; eauto|assumption].
Qed.

Lemma flat_remove_meq i es k v : nth_error es i = Some (k, v) ->
  meq (flat_entries (remove_nth i es) ++ [k; v]) (flat_entries es) /\
  (forall a, In a (flat_entries (remove_nth i es)) -> In a (flat_entries es)) /\
  In k (flat_entries es) /\ In v (flat_entries es) /\
  (Forall (fun kv => item_cloc (fst kv) = None) es -> Forall (fun kv => item_cloc (fst kv) = None) (remove_nth i es)).
Proof.
  revert i. induction es as [|[k' v'] t IH]; intros [|i] E; simpl in *; try discriminate.
  - inv E. repeat split; auto.
    + intros l. rewrite occ_app. cbn [occ]. lia.
    + rewrite zlen_app, !zlen_cons', zlen_nil. lia.
    + intros F. inv F. assumption.
  - destruct (IH i E) as ([Mo Ml] & Hi & Hk & Hv & Hf). repeat split; auto.
    + intros l. specialize (Mo l). cbn [app occ]. rewrite occ_app in *. cbn [occ] in *. lia.
    + cbn [app]. rewrite !zlen_cons', zlen_app in *. rewrite !zlen_cons', zlen_nil in *. lia.
    + intros a [->|[->|H]]; auto.
    + intros F. inv F. constructor; auto.
Qed.

Section RemoveSet.
Variable Ex : list item.

Lemma remove_seq_I key d2 U l :
  dI Ex [] U d2 ->
  res_I Ex (do (rc, its) <- get_seq (d_heap d2) l;
            do k <- try_int key; do k <- to_i32 k;
            if (k <? 0) || (zlen its <=? k) then None
            else do old <- nth_error its (Z.to_nat k);
                 let d := if rc =? 0 then d2 else d_remove old d2 in
                 do (rc', its') <- get_seq (d_heap d) l;
                 ok (set_heap d (hset (d_heap d) l (CSeq rc' (remove_nth (Z.to_nat k) its'))))).
Proof.
  intros H2. destruct (get_seq (d_heap d2) l) as [[rc its]|] eqn:Gs; [|exact I]. pose proof (get_seq_hget _ _ _ _ Gs) as Gh.
  destruct (try_int key); [|exact I]. destruct (to_i32 z) as [k|]; [|exact I]. case_if; [exact I|].
  destruct (nth_error its (Z.to_nat k)) as [old|] eqn:N; [|exact I]. cbv zeta.
  destruct (remove_nth_meq _ _ _ N) as ([Mo Ml] & S).
  assert (Vits : Forall (valid (d_heap d2)) its) by exact (wfh_children _ _ _ (dI_wfh _ _ _ _ H2) Gh).
  destruct (rc =? 0) eqn:Z.
  - rewrite Gs. unfold ok. cbn [res_I]. eapply dI0_intro.
    pose proof (dI_edit _ _ _ _ l _ (CSeq rc (remove_nth (Z.to_nat k) its)) [] [] H2 Gh I I eq_refl I) as Ed.
    rewrite live_seq, Z in Ed. cbn [negb app] in Ed. apply Ed; [auto| |constructor].
    cbn [cell_children]. apply Forall_remove_nth. assumption.
  - destruct (get_seq (d_heap (d_remove old d2)) l) as [[rc' its']|] eqn:Gs2; [|exact I]. apply get_seq_hget in Gs2.
    assert (Eits : its' = its).
    { pose proof (ref_remove_rc_only (d_heap d2) (d_refs d2) old) as [_ Ro]. destruct (Ro l _ Gh) as (r & Er).
      unfold d_remove in Gs2. destruct (ref_remove (d_heap d2) (d_refs d2) old). cbn [set_mem d_heap fst] in *.
      rewrite Er in Gs2. cbn [cell_set_rc] in Gs2. inv Gs2. reflexivity. }
    subst its'. unfold ok. cbn [res_I].
    pose proof (dI_remove_then_edit Ex U d2 l (CSeq rc its) old (CSeq rc' (remove_nth (Z.to_nat k) its)) [] H2 Gh) as K.
    rewrite live_seq, Z in K. specialize (K eq_refl I (nth_error_In _ _ N) _ Gs2 I I eq_refl).
    eapply dI0_intro.
    assert (Q : forall b : bool, (if b then @nil item else []) = []) by (intros []; reflexivity).
    rewrite Q in K. apply K.
    + cbn [cell_children]. rewrite app_nil_r. split; [intros x; rewrite <- Mo; reflexivity|lia].
    + cbn [cell_children]. apply Forall_remove_nth. assumption.
    + constructor.
Qed.

Lemma op_remove_I d : dI0 Ex d -> res_I Ex (op_remove d).
Proof.
  intros [U H]. unfold op_remove.
  destruct (pop d) as [[key d1]|] eqn:P1; [|exact I]. pose proof (dI_pop _ _ _ _ _ H P1) as H1.
  destruct (negb (valid_key key)); [exact I|].
  destruct (pop d1) as [[elem d2]|] eqn:P2; [|exact I]. pose proof (dI_pop _ _ _ _ _ H1 P2) as H2.
  destruct elem; try exact I; try (eapply remove_seq_I; eassumption).
  (* Map: the entry is dropped first *)
  destruct (get_map (d_heap d2) l) as [[rc es]|] eqn:Gm; [|exact I]. apply get_map_hget in Gm.
  destruct (map_index es key) as [i|]; [|unfold ok; cbn [res_I]; eexists; eassumption].
  destruct (nth_error es i) as [[k v]|] eqn:N; [|exact I]. cbv zeta. unfold ok. cbn [res_I].
  destruct (flat_remove_meq _ _ _ _ N) as (M & Hi & Hk & Hv & Hf).
  assert (Vfl : Forall (valid (d_heap d2)) (flat_entries es)) by exact (wfh_children _ _ _ (dI_wfh _ _ _ _ H2) Gm).
  pose proof (keys_prim_get _ _ _ (di_kp _ _ _ _ H2) Gm) as Kp. simpl in Kp.
  assert (Vfl' : Forall (valid (d_heap d2)) (flat_entries (remove_nth i es))).
  { rewrite Forall_forall in *. auto. }
  destruct (rc =? 0) eqn:Z.
  - pose proof (dI_edit _ _ _ _ l _ (CMap rc (remove_nth i es)) [] [] H2 Gm I I eq_refl (Hf Kp)) as Ed.
    rewrite live_map, Z in Ed. cbn [negb app] in Ed. eapply dI0_intro. apply Ed; [auto|assumption|constructor].
  - pose proof (dI_edit _ _ _ _ l _ (CMap rc (remove_nth i es)) [] [k; v] H2 Gm I I eq_refl (Hf Kp)) as Ed.
    rewrite live_map, Z in Ed. cbn [negb app] in Ed. eapply dI0_intro. apply dI_remove.
    eapply dI_E_meq; [apply dI_remove; apply Ed| |].
    + cbn [cell_children]. rewrite app_nil_r. exact M.
    + assumption.
    + rewrite Forall_forall in Vfl. constructor; [auto|constructor; [auto|constructor]].
    + apply meq_refl.
    + auto.
Qed.
End RemoveSet.

(* ---------- SETITEM ---------- *)
Lemma clone_if_struct_false h it h' it' : clone_if_struct h it = Some (h', it', false) -> h' = h /\ it' = it.
Proof.
  unfold clone_if_struct. destruct it; try (intros Q; inv Q; split; reflexivity).
  destruct (clone_struct clone_fuel h l (MaxClonableNumOfItems - 1)) as [[[? ?] ?]|]; discriminate.
Qed.

Lemma dI_cancel E A U d it : dI (it :: E) (it :: A) U d -> dI E A U d.
Proof.
  intros [[Hg W Vx Va] Hu Hk]. constructor; [|exact Hu|exact Hk]. inv Va. constructor; try assumption.
  - apply (G_cancel _ _ _ _ it). eapply G_meq; try exact Hg; try apply meq_refl.
    split; [intros l; repeat rewrite ?occ_app, ?occ_cons; lia|repeat rewrite ?zlen_app, ?zlen_cons'; lia].
  - eapply Forall_valid_perm; [|exact Vx]. intros a; repeat (rewrite ?in_app_iff; simpl); tauto.
Qed.

(* Remove never touches a compound whose count is 0 *)
Lemma ref_remove_wl_dead : forall fuel h refs w l c, hget h l = Some c -> cell_rc c = 0 ->
  hget (fst (ref_remove_wl fuel h refs w)) l = Some c.
Proof.
  induction fuel as [|f IH]; intros h refs w l c E Z; simpl; [assumption|].
  destruct w as [|it w]; [assumption|]. destruct (item_cloc it) as [l0|]; [|apply IH; assumption].
  destruct (hget h l0) as [c0|] eqn:E0; [|apply IH; assumption].
  destruct (cell_rc c0 =? 0) eqn:Q; [apply IH; assumption|].
  assert (N : l0 <> l) by (intros ->; rewrite E in E0; inv E0; lia).
  case_if; apply IH; try assumption; rewrite hget_hset_other by assumption; assumption.
Qed.
Lemma d_remove_dead d it l c : hget (d_heap d) l = Some c -> cell_rc c = 0 -> hget (d_heap (d_remove it d)) l = Some c.
Proof.
  intros E Z. unfold d_remove, ref_remove. destruct (item_cloc it); [|assumption].
  pose proof (ref_remove_wl_dead (ref_fuel (d_heap d) [it]) (d_heap d) (d_refs d) [it] l c E Z) as K.
  destruct (ref_remove_wl _ (d_heap d) (d_refs d) [it]). exact K.
Qed.
Lemma d_remove_children d it l c :
  hget (d_heap d) l = Some c -> exists r, hget (d_heap (d_remove it d)) l = Some (cell_set_rc c r).
Proof.
  intros E. pose proof (ref_remove_rc_only (d_heap d) (d_refs d) it) as [_ Ro]. unfold d_remove.
  destruct (ref_remove (d_heap d) (d_refs d) it). cbn [set_mem d_heap fst] in *. apply Ro. assumption.
Qed.
Lemma map_index_nth es k i : map_index es k = Some i -> exists k0 v, nth_error es i = Some (k0, v).
Proof.
  revert i. induction es as [|[k' v'] t IH]; intros i; simpl; [discriminate|]. case_if.
  - intros Q; inv Q. simpl. eauto.
  - destruct (map_index t k) as [j|]; [|discriminate]. intros Q; inv Q. simpl. apply IH. reflexivity.
Qed.
Lemma set_nth_meq i its old it : nth_error its i = Some old ->
  meq (set_nth i its it ++ [old]) (its ++ [it]) /\ (forall a, In a (set_nth i its it) -> a = it \/ In a its).
Proof.
  intros N. split; [split|].
  - intros l. pose proof (occ_set_nth l i its old it N). rewrite !occ_app. cbn [occ]. lia.
  - rewrite !zlen_app, zlen_set_nth'. reflexivity.
  - intros a. apply In_set_nth.
Qed.

Definition res_IL (Ex : list item) (r : option dres) : Prop := exists Lk, res_I (Lk ++ Ex) r.
Lemma res_IL_intro Ex r : res_I Ex r -> res_IL Ex r.
Proof. intros H. exists []. exact H. Qed.

Section SetItem.
Variable Ex : list item.

(* the edit of a dead container: nothing to account *)
Lemma dead_edit_I d U l c cf :
  dI Ex [] U d -> hget (d_heap d) l = Some c -> cell_rc c = 0 -> is_comp c -> is_comp cf -> cell_rc cf = 0 -> cell_kp cf ->
  Forall (valid (d_heap d)) (cell_children cf) ->
  dI0 Ex (set_heap d (hset (d_heap d) l cf)).
Proof.
  intros H Ec Z C Cf Zf Kf V. pose proof (dI_edit _ _ _ _ l c cf [] [] H Ec C Cf) as Ed.
  unfold live in Ed. rewrite Z in Ed. cbn [negb app] in Ed. eapply dI0_intro. apply Ed; auto; try congruence; try constructor; try reflexivity.
Qed.

Lemma setitem_seq_I key cloned d U l :
  dI (cloned :: Ex) [] U d -> valid (d_heap d) cloned ->
  res_IL Ex (do (rc, its) <- get_seq (d_heap d) l;
             do i <- try_int key; do i <- to_i32 i;
             if (i <? 0) || (zlen its <=? i) then throw_bytes (msg_out_of_range i) (d_remove cloned d)
             else do old <- nth_error its (Z.to_nat i);
                  let d := if rc =? 0 then d_remove cloned d else d_remove old d in
                  do (rc', its') <- get_seq (d_heap d) l;
                  ok (set_heap d (hset (d_heap d) l (CSeq rc' (set_nth (Z.to_nat i) its' cloned))))).
Proof.
  intros H Vcl. destruct (get_seq (d_heap d) l) as [[rc its]|] eqn:Gs; [|exists []; exact I]. pose proof (get_seq_hget _ _ _ _ Gs) as Gh.
  destruct (try_int key); [|exists []; exact I]. destruct (to_i32 z) as [i|]; [|exists []; exact I].
  pose proof (dI_remove _ _ _ _ H) as Hr.
  case_if; [apply res_IL_intro; eapply throw_bytes_I; exact Hr|].
  destruct (nth_error its (Z.to_nat i)) as [old|] eqn:N; [|exists []; exact I]. cbv zeta.
  assert (Vits : Forall (valid (d_heap d)) its) by exact (wfh_children _ _ _ (dI_wfh _ _ _ _ H) Gh).
  destruct (set_nth_meq _ _ _ cloned N) as (M & Si).
  destruct (rc =? 0) eqn:Z.
  - (* the container is not referenced: the value's count goes *)
    assert (Z0 : rc = 0) by lia. subst rc.
    pose proof (d_remove_dead d cloned l _ Gh eq_refl) as Gd. unfold get_seq. rewrite Gd.
    apply res_IL_intro. unfold ok. cbn [res_I].
    eapply (dead_edit_I _ _ l _ (CSeq 0 (set_nth (Z.to_nat i) its cloned)) Hr Gd); try reflexivity; try exact I.
    cbn [cell_children]. apply Forall_set_nth.
    + eapply Forall_valid_shape; [apply d_remove_shape|assumption].
    + eapply valid_shape; [apply d_remove_shape|assumption].
  - destruct (d_remove_children d old l _ Gh) as (r & Gd). unfold get_seq at 1. rewrite Gd. cbn [cell_set_rc].
    unfold ok.
    pose proof (dI_remove_then_edit (cloned :: Ex) U d l (CSeq rc its) old (CSeq r (set_nth (Z.to_nat i) its cloned)) [cloned] H Gh) as K.
    rewrite live_seq, Z in K. specialize (K eq_refl I (nth_error_In _ _ N) _ Gd I I eq_refl).
    cbn [cell_children] in K. specialize (K M).
    assert (K' : dI (cloned :: Ex) (if live (cell_set_rc (CSeq rc its) r) then [cloned] else []) (old :: U)
                    (set_heap (d_remove old d) (hset (d_heap (d_remove old d)) l (CSeq r (set_nth (Z.to_nat i) its cloned))))).
    { apply K; [apply Forall_set_nth; assumption|constructor; [assumption|constructor]]. }
    destruct (live (cell_set_rc (CSeq rc its) r)).
    + apply res_IL_intro. cbn [res_I]. eapply dI0_intro. apply (dI_cancel _ _ _ _ cloned). exact K'.
    + (* the container died while the old element was un-counted: the value's count stays (over-count) *)
      exists [cloned]. cbn [res_I app]. eapply dI0_intro. exact K'.
Qed.
End SetItem.

Lemma map_add_valid h es k v :
  Forall (valid h) (flat_entries es) -> valid h k -> valid h v -> Forall (valid h) (flat_entries (map_add es k v)).
Proof.
  induction es as [|[k' v'] t IH]; simpl; intros F Vk Vv; [repeat constructor; assumption|].
  inv F. inv H2. case_if; simpl; repeat constructor; auto.
Qed.
Lemma map_add_kp es k v :
  Forall (fun kv => item_cloc (fst kv) = None) es -> item_cloc k = None ->
  Forall (fun kv => item_cloc (fst kv) = None) (map_add es k v).
Proof.
  induction es as [|[k' v'] t IH]; simpl; intros F Pk; [repeat constructor; assumption|].
  inv F. case_if; constructor; auto.
Qed.

Section SetItem2.
Variable Ex : list item.

Lemma setitem_map_I key cloned d U l :
  dI (cloned :: Ex) [] U d -> valid (d_heap d) cloned -> valid_key key = true ->
  res_IL Ex (do (rc, es) <- get_map (d_heap d) l;
             let d := if rc =? 0 then d_remove cloned d
                      else match map_index es key with
                           | Some i => match nth_error es i with Some (_, old) => d_remove old d | None => d end
                           | None => d_add key d
                           end in
             do (rc', es') <- get_map (d_heap d) l;
             ok (set_heap d (hset (d_heap d) l (CMap rc' (map_add es' key cloned))))).
Proof.
  intros H Vcl Vk. pose proof (valid_key_prim _ Vk) as Pk.
  destruct (get_map (d_heap d) l) as [[rc es]|] eqn:Gm; [|exists []; exact I]. pose proof (get_map_hget _ _ _ _ Gm) as Gh.
  cbv zeta.
  assert (Vfl : Forall (valid (d_heap d)) (flat_entries es)) by exact (wfh_children _ _ _ (dI_wfh _ _ _ _ H) Gh).
  pose proof (keys_prim_get _ _ _ (di_kp _ _ _ _ H) Gh) as Kp. simpl in Kp.
  destruct (rc =? 0) eqn:Z.
  - assert (Z0 : rc = 0) by lia. subst rc. pose proof (dI_remove _ _ _ _ H) as Hr.
    pose proof (d_remove_dead d cloned l _ Gh eq_refl) as Gd. unfold get_map. rewrite Gd.
    apply res_IL_intro. unfold ok. cbn [res_I].
    eapply (dead_edit_I _ _ _ l _ (CMap 0 (map_add es key cloned)) Hr Gd); try reflexivity; try exact I.
    + simpl. apply map_add_kp; assumption.
    + cbn [cell_children]. apply map_add_valid.
      * eapply Forall_valid_shape; [apply d_remove_shape|assumption].
      * apply valid_prim. assumption.
      * eapply valid_shape; [apply d_remove_shape|assumption].
  - destruct (map_index es key) as [i|] eqn:Mi.
    + (* the key exists: the old value is un-counted, then replaced *)
      destruct (map_index_nth _ _ _ Mi) as (k0 & old & N). rewrite N.
      destruct (map_add_found es key cloned i k0 old Mi N) as (Ho & Hl & Hi & Hin & Hf).
      destruct (d_remove_children d old l _ Gh) as (r & Gd). unfold get_map at 1. rewrite Gd. cbn [cell_set_rc]. unfold ok.
      pose proof (dI_remove_then_edit (cloned :: Ex) U d l (CMap rc es) old (CMap r (map_add es key cloned)) [cloned] H Gh) as K.
      rewrite live_map, Z in K. cbn [cell_children] in K. specialize (K eq_refl I Hin _ Gd I).
      assert (K' : dI (cloned :: Ex) (if live (cell_set_rc (CMap rc es) r) then [cloned] else []) (old :: U)
                      (set_heap (d_remove old d) (hset (d_heap (d_remove old d)) l (CMap r (map_add es key cloned))))).
      { apply K; try reflexivity.
        - simpl. apply map_add_kp; assumption.
        - split; [intros x; specialize (Ho x); rewrite !occ_app; cbn [occ]; lia|rewrite !zlen_app, !zlen_cons', zlen_nil; lia].
        - apply map_add_valid; [assumption|apply valid_prim; assumption|assumption].
        - constructor; [assumption|constructor]. }
      destruct (live (cell_set_rc (CMap rc es) r)).
      * apply res_IL_intro. cbn [res_I]. eapply dI0_intro. apply (dI_cancel _ _ _ _ cloned). exact K'.
      * exists [cloned]. cbn [res_I app]. eapply dI0_intro. exact K'.
    + (* a new key: the key is counted (Add), the entry appended *)
      assert (Ha : dI (key :: cloned :: Ex) [] U (d_add key d)).
      { apply dI_hold_added; [exact H|apply valid_prim; assumption]. }
      assert (Eh : d_heap (d_add key d) = d_heap d).
      { unfold d_add, ref_add. rewrite Pk. reflexivity. }
      unfold get_map. rewrite Eh, Gh. apply res_IL_intro. unfold ok. cbn [res_I].
      rewrite (map_add_new _ _ _ Mi).
      pose proof (dI_edit _ _ _ _ l (CMap rc es) (CMap rc (es ++ [(key, cloned)])) [key; cloned] [] Ha) as Ed.
      rewrite Eh in Ed. specialize (Ed Gh I I eq_refl). rewrite live_map, Z in Ed. cbn [negb app cell_children] in Ed.
      eapply dI0_intro. apply (dI_cancel _ _ _ _ cloned). apply (dI_cancel _ _ _ _ key).
      eapply dI_rearr; [apply Ed| | | | | | |]; try reflexivity; try apply meq_refl; try tauto.
      * simpl. apply Forall_app; split; [assumption|constructor; [assumption|constructor]].
      * rewrite flat_entries_app, app_nil_r. apply meq_refl.
      * rewrite flat_entries_app. apply Forall_app; split; [assumption|].
        simpl. constructor; [apply valid_prim; assumption|constructor; [assumption|constructor]].
      * constructor.
      * intros a Hin. left. exact Hin.
Qed.

Lemma setitem_buf_I key cloned d U l :
  dI (cloned :: Ex) [] U d ->
  res_IL Ex (let d := d_remove cloned d in
             do bs <- get_buf (d_heap d) l;
             do i <- try_int key; do i <- to_i32 i;
             if (i <? 0) || (zlen bs <=? i) then throw_bytes (msg_out_of_range i) d
             else do b <- try_int cloned; do b <- to_i32 b;
                  if (b <? -128) || (255 <? b) then None
                  else ok (set_heap d (hset (d_heap d) l (CBuf (set_nth (Z.to_nat i) bs (b mod 256)))))).
Proof.
  intros H. pose proof (dI_remove _ _ _ _ H) as Hr. cbv zeta. apply res_IL_intro.
  destruct (get_buf (d_heap (d_remove cloned d)) l) as [bs|] eqn:Gb; [|exact I].
  destruct (try_int key); [|exact I]. destruct (to_i32 z); [|exact I].
  case_if; [eapply throw_bytes_I; exact Hr|].
  destruct (try_int cloned); [|exact I]. destruct (to_i32 z1); [|exact I]. case_if; [exact I|].
  unfold ok. cbn [res_I]. eapply dI0_intro. eapply dI_set_buf; eassumption.
Qed.

Lemma op_setitem_I d : dI0 Ex d -> res_IL Ex (op_setitem d).
Proof.
  intros [U H]. unfold op_setitem.
  destruct (pop_noref d) as [[itm d1]|] eqn:P1; [|exists []; exact I]. pose proof (dI_pop_noref _ _ _ _ _ _ H P1) as H1.
  assert (Vitm : valid (d_heap d1) itm) by (eapply dI_valid_E; [exact H1|simpl; tauto]).
  destruct (clone_if_struct (d_heap d1) itm) as [[[h cloned] b]|] eqn:C; [|exists []; exact I].
  destruct (dI_clone _ _ _ _ _ _ _ _ H1 Vitm C) as [H2 Vcl]. cbv zeta.
  (* after the clone bookkeeping the value is held counted *)
  assert (HA : exists UA dA, (if b then d_add cloned (d_remove itm (set_heap d1 h)) else set_heap d1 h) = dA /\
                             dI (cloned :: Ex) [] UA dA /\ valid (d_heap dA) cloned).
  { destruct b.
    - eexists _, _. split; [reflexivity|]. split.
      + apply dI_hold_added; [apply dI_remove; exact H2|]. eapply valid_shape; [apply d_remove_shape|exact Vcl].
      + eapply valid_shape; [apply d_add_shape|]. eapply valid_shape; [apply d_remove_shape|exact Vcl].
    - destruct (clone_if_struct_false _ _ _ _ C) as [-> ->]. eexists _, _. split; [reflexivity|]. split; [exact H2|exact Vcl]. }
  destruct HA as (UA & dA & -> & HA & VA).
  destruct (pop dA) as [[key d2]|] eqn:P2; [|exists []; exact I]. pose proof (dI_pop _ _ _ _ _ HA P2) as H3.
  destruct (valid_key key) eqn:Vk; cbn [negb]; [|exists []; exact I].
  destruct (pop d2) as [[obj d3]|] eqn:P3; [|exists []; exact I]. pose proof (dI_pop _ _ _ _ _ H3 P3) as H4.
  assert (V3 : valid (d_heap d3) cloned).
  { eapply dI_valid_E; [exact H4|simpl; tauto]. }
  destruct obj; try (exists []; exact I).
  - eapply setitem_buf_I; exact H4.
  - eapply setitem_seq_I; eassumption.
  - eapply setitem_seq_I; eassumption.
  - eapply setitem_map_I; eassumption.
Qed.
End SetItem2.

(* ================= all data instructions ================= *)
Definition dres_IL (E : list item) (r : dres) : Prop := exists Lk, dres_I (Lk ++ E) r.

Lemma res_dres_L E e op p d : res_IL E (exec_data_opt e op p d) -> dres_IL E (exec_data e op p d).
Proof. intros [Lk H]. exists Lk. apply res_dres. exact H. Qed.

Theorem exec_data_IL e op p d E : nonneg_bytes p -> dI0 E d -> dres_IL E (exec_data e op p d).
Proof.
  intros NN HI. destruct (is_compound_op op) eqn:C.
  - apply res_dres_L. destruct op; try discriminate C; cbn [exec_data_opt].
    + apply res_IL_intro. apply op_packmap_I; assumption.
    + apply res_IL_intro. apply op_pack_I; assumption.
    + apply res_IL_intro. apply op_pack_I; assumption.
    + apply res_IL_intro. apply op_unpack_I; assumption.
    + apply res_IL_intro. apply new_empty_I; try assumption; try reflexivity; try exact I.
    + apply res_IL_intro. apply new_seq_I; assumption.
    + apply res_IL_intro. destruct (param0 p); [apply new_seq_I; assumption|exact I].
    + apply res_IL_intro. apply new_empty_I; try assumption; try reflexivity; try exact I.
    + apply res_IL_intro. apply new_seq_I; assumption.
    + apply res_IL_intro. apply new_empty_I; try assumption; try reflexivity; try exact I. constructor.
    + apply res_IL_intro. apply op_size_I; assumption.
    + apply res_IL_intro. apply op_haskey_I; assumption.
    + apply res_IL_intro. apply op_keys_I; assumption.
    + apply res_IL_intro. apply op_values_I; assumption.
    + apply res_IL_intro. apply op_pickitem_I; assumption.
    + apply res_IL_intro. apply op_append_I; assumption.
    + apply op_setitem_I; assumption.
    + apply res_IL_intro. apply op_reverseitems_I; assumption.
    + apply res_IL_intro. apply op_remove_I; assumption.
    + apply res_IL_intro. apply op_clearitems_I; assumption.
    + apply res_IL_intro. apply op_popitem_I; assumption.
    + apply res_IL_intro. destruct (param0 p); [apply op_convert_I; assumption|exact I].
  - exists []. apply exec_data_I_basic; assumption.
Qed.
