(* The limits hold through every context-pushing entry point: the SYSCALL handler of VM/Loader.v (all loaders check the
   invocation stack size before pushing) keeps [limits_ok]; so every state an execution with any number of loaded scripts
   reaches has at most MaxInvocationStackSize contexts, at most MaxTryNestingDepth try blocks per context, items within their
   size limits and (after a non-faulting instruction) at most MaxStackSize counted items. *)
From NG Require Import VM.Model VM.LimitsData VM.LimitsExec VM.LimitsOps VM.Total VM.Limits VM.Loader.
Open Scope Z_scope.

Lemma load_script_limits s prog sid rv :
  limits_ok s -> depth s < MaxInvocationStackSize -> limits_ok (load_script s prog sid rv).
Proof.
  intros (F & Sc & Fs & O & H & X & D) Lt. unfold load_script, limits_ok, state_ok. cbn [s_fr s_sc s_frames s_outer s_heap s_exc].
  repeat split; try assumption; try exact I; try (constructor; fail).
  - vm_compute. discriminate.
  - constructor; [|assumption]. repeat split; try assumption; try apply Sc; try apply F.
  - unfold depth in *. cbn [s_frames s_outer outer_depth]. rewrite zlen_nil. lia.
Qed.

Lemma load_checked_limits s prog sid rv s' : limits_ok s -> load_checked s prog sid rv = Some s' -> limits_ok s'.
Proof.
  unfold load_checked. destruct (MaxInvocationStackSize <=? depth s) eqn:C; [discriminate|]. intros K Q; inv Q.
  apply load_script_limits; [assumption|lia].
Qed.

Lemma pop_n_ok : forall n d its d', @d_ok any_ptr d -> pop_n n d = Some (its, d') -> Forall size_ok its /\ @d_ok any_ptr d'.
Proof.
  induction n as [|n IH]; intros d its d' K; simpl.
  - intros Q; inv Q. split; [constructor|assumption].
  - destruct (pop d) as [[it d1]|] eqn:P; [|discriminate]. destruct (pop_n n d1) as [[its1 d2]|] eqn:Pn; [|discriminate].
    intros Q; inv Q. destruct (pop_ok _ _ _ K P) as [Ki K1]. destruct (IH _ _ _ K1 Pn) as [Kis K2].
    split; [constructor; assumption|assumption].
Qed.
Lemma push_all_ok its d : Forall size_ok its -> @d_ok any_ptr d -> @d_ok any_ptr (push_all its d).
Proof. induction its as [|it t IH]; intros F K; simpl; [assumption|]. inv F. apply push_ok; [assumption|apply IH; assumption]. Qed.

Lemma load_mode_limits scripts id s s' : limits_ok s -> load_mode true scripts id s = Some s' -> limits_ok s'.
Proof.
  intros K. unfold load_mode.
  case_if; [intros E; eapply (@call_ok any_ptr); eauto|].
  case_if; [discriminate|].
  destruct (nth_error scripts (Z.to_nat (id mod 256 - 1))) as [prog|]; [|discriminate].
  case_if; [case_if; apply load_checked_limits; assumption|].
  case_if; [apply load_checked_limits; assumption|].
  case_if; [apply load_checked_limits; assumption|].
  case_if.
  - destruct (load_checked s prog (Z.to_N (id mod 256 + 1)) 1) as [s1|] eqn:L; [|discriminate].
    intros C. eapply (@call_ok any_ptr); [|exact C]. eapply load_checked_limits; eauto.
  - case_if; [|discriminate].
    destruct (pop_n (Z.to_nat (id / 4096 mod 16)) (view s)) as [[its d]|] eqn:Pn; [|discriminate].
    destruct (load_checked (unview s d) prog (Z.to_N (id mod 256 + 1)) 1) as [s1|] eqn:L; [|discriminate].
    intros Q; inv Q. destruct (pop_n_ok _ _ _ _ (view_ok _ K) Pn) as [Kis Kd].
    assert (K1 : limits_ok s1) by (eapply load_checked_limits; [|exact L]; apply unview_ok; assumption).
    apply unview_ok; [exact K1|]. apply push_all_ok; [exact Kis|apply view_ok; exact K1].
Qed.

Lemma sys_load_lim_ok scripts : @sys_lim_ok any_ptr (sys_load scripts).
Proof. intros op p s s' K. unfold sys_load. destruct op; try discriminate. apply load_mode_limits. exact K. Qed.

Theorem step_with_limits scripts s :
  limits_ok s ->
  match step_with (sys_load scripts) s with
  | Running s' => limits_ok s' /\ s_refs s' <= MaxStackSize
  | Halted s' => limits_ok s' /\ s_refs s' <= MaxStackSize
  | Faulted _ => True
  end.
Proof.
  intros K. apply (@step_with_limits_gen any_ptr (sys_load scripts) s (sys_load_lim_ok scripts) K).
  intros op p next _ off _ _. exact I.
Qed.

Theorem run_with_limits scripts : forall n s,
  limits_ok s ->
  match run_with (sys_load scripts) n s with
  | Running s' => limits_ok s'
  | Halted s' => limits_ok s' /\ s_refs s' <= MaxStackSize
  | Faulted _ => True
  end.
Proof.
  induction n as [|n IH]; intros s K; simpl; [assumption|].
  pose proof (step_with_limits scripts s K) as S. destruct (step_with (sys_load scripts) s) as [s1|s1|g]; [|assumption|exact I].
  apply IH. apply S.
Qed.

(* every reachable state has at most MaxInvocationStackSize contexts, whatever mix of entry points built the nesting *)
Theorem depth_bounded_all_loaders n prog scripts sid base limit s :
  (run_with (sys_load scripts) n (init_state prog sid base limit) = Running s \/
   run_with (sys_load scripts) n (init_state prog sid base limit) = Halted s) ->
  depth s <= MaxInvocationStackSize /\ zlen (f_try (s_fr s)) <= MaxTryNestingDepth.
Proof.
  intros R. pose proof (run_with_limits scripts n _ (init_state_ok prog sid base limit)) as K.
  destruct R as [R|R]; rewrite R in K; [|destruct K as [K _]]; destruct (limits_ok_meaning s K) as (D & T & _); split; assumption.
Qed.
