(* ================================================================================================
   NeoVM model (pkg/vm/vm.go): invocation stack, control flow, exceptions, gas, the step function.

   What downstream developments need:
     state, init_state, load_script          the machine state and how a script is loaded
     step : state -> result                  one instruction (bare VM: SYSCALL / CALLT fault)
     step_with sys                           the same with a handler for SYSCALL / CALLT
     run : nat -> state -> result            at most n instructions
     runp : positive -> state -> result      the same with binary fuel (for large budgets)
     price : Z -> opcode -> Z                price of an instruction = generated coefficient * base fee
     depth, final_stack                      observations
   The data instructions live in VM/Data.v ([exec_data] on a [dstate]); this file adds everything that
   touches instruction pointers, contexts, try stacks and gas.

   Shape of the state (a zipper over vm.istack):
     s_fr       the executing Context (next ip, local/argument slots, try stack, retCount)
     s_sc       its scriptContext (program, static slot, evaluation stack)
     s_frames   the other Contexts created by CALL* inside the same scriptContext, innermost first
     s_outer    suspended scriptContexts (LoadScript / cross-contract calls), innermost first, each with
                its own Contexts
   Contexts sharing a scriptContext are always contiguous on vm.istack (CALL copies the top one,
   loading creates a new scriptContext on top), which is what makes this shape faithful.
   Gas is in the VM's internal unit (picoGAS); s_limit < 0 means unlimited; s_base is the factor the
   price getter multiplies the coefficient with (fee.Opcode(base, op)); base = 0 models "no getter".
   Definitions only (must run under vm_compute).
   ================================================================================================ *)
From NG Require Export Common.Tactics Codec.Bigint gen.Opcodes gen.OpcodePrices gen.VMLimits
  VM.Arith VM.Items VM.Decode VM.Data.
Open Scope Z_scope.

Inductive estate := ETry | ECatch | EFinally.
Record tryctx := mkTry { t_catch : Z; t_finally : Z; t_end : Z; t_state : estate }.

Record frame := mkFrame {
  f_ip : Z;                          (* scparser.Context.nextip *)
  f_local : option (list item);
  f_args : option (list item);
  f_try : list tryctx;               (* Context.tryStack, top first *)
  f_ret : Z                          (* Context.retCount *)
}.

Record script := mkScript {
  sc_prog : list Z;
  sc_sid : N;                        (* stands for the script hash: equal ids <-> equal scripts *)
  sc_static : option (list item);
  sc_es : list item;                 (* evaluation stack, top first *)
  sc_shared : bool                   (* its Stack object is the one of the scriptContext below (LoadScript on an
                                        empty stack with rvcount = -1 does not create a sub-stack) *)
}.

Record state := mkState {
  s_fr : frame;
  s_sc : script;
  s_frames : list frame;
  s_outer : list (script * (frame * list frame));
  s_heap : heap;
  s_refs : Z;
  s_exc : option item;               (* VM.uncaughtException *)
  s_gas : Z;
  s_limit : Z;
  s_base : Z
}.

Inductive result :=
| Running (s : state)                (* vmstate.None: more to execute *)
| Halted (s : state)                 (* vmstate.Halt; the result stack is [final_stack s] *)
| Faulted (gas : Z).                 (* vmstate.Fault, with the gas consumed so far *)

Definition final_stack (s : state) : list item := sc_es (s_sc s).

Definition price (base : Z) (op : opcode) : Z := opcode_coeff op * base.

Fixpoint outer_depth (o : list (script * (frame * list frame))) : Z :=
  match o with [] => 0 | (_, (_, fs)) :: t => 1 + zlen fs + outer_depth t end.
(* len(vm.istack) *)
Definition depth (s : state) : Z := 1 + zlen (s_frames s) + outer_depth (s_outer s).

(* ---------- the data view of the executing context ---------- *)
Definition view (s : state) : dstate :=
  mkD (sc_es (s_sc s)) (f_local (s_fr s)) (f_args (s_fr s)) (sc_static (s_sc s)) (s_heap s) (s_refs s).

Definition set_fr (s : state) (f : frame) : state :=
  mkState f (s_sc s) (s_frames s) (s_outer s) (s_heap s) (s_refs s) (s_exc s) (s_gas s) (s_limit s) (s_base s).
Definition set_exc (s : state) (e : option item) : state :=
  mkState (s_fr s) (s_sc s) (s_frames s) (s_outer s) (s_heap s) (s_refs s) e (s_gas s) (s_limit s) (s_base s).
Definition set_gas (s : state) (g : Z) : state :=
  mkState (s_fr s) (s_sc s) (s_frames s) (s_outer s) (s_heap s) (s_refs s) (s_exc s) g (s_limit s) (s_base s).

Definition fr_set_ip (f : frame) (ip : Z) : frame := mkFrame ip (f_local f) (f_args f) (f_try f) (f_ret f).
Definition fr_set_try (f : frame) (t : list tryctx) : frame := mkFrame (f_ip f) (f_local f) (f_args f) t (f_ret f).
Definition set_ip (s : state) (ip : Z) : state := set_fr s (fr_set_ip (s_fr s) ip).
Definition set_try (s : state) (t : list tryctx) : state := set_fr s (fr_set_try (s_fr s) t).

(* write a data state back *)
Definition unview (s : state) (d : dstate) : state :=
  let f := s_fr s in let sc := s_sc s in
  mkState (mkFrame (f_ip f) (d_local d) (d_args d) (f_try f) (f_ret f))
          (mkScript (sc_prog sc) (sc_sid sc) (d_static d) (d_es d) (sc_shared sc))
          (s_frames s) (s_outer s) (d_heap d) (d_refs d) (s_exc s) (s_gas s) (s_limit s) (s_base s).

Definition prog_len (s : state) : Z := zlen (sc_prog (s_sc s)).

(* Context.Jump *)
Definition jump (s : state) (pos : Z) : option state :=
  if jump_ok (prog_len s) pos then Some (set_ip s pos) else None.

(* ---------- unloading the executing context (VM.unloadContext + the pop from vm.istack) ----------
   Slot.clearRefs on local and arguments; when the scriptContext is left, also on static.
   [ret_transfer]: RET moves the evaluation stack of a left scriptContext onto the one below (checking
   retCount); exception unwinding switches to the stack below and un-counts what was on the left one.
   None = the context was the last one. *)
Definition clear_slot (sl : option (list item)) (hr : heap * Z) : heap * Z :=
  match sl with Some its => ref_remove_list (fst hr) (snd hr) its | None => hr end.

Inductive unload_res :=
| UNext (s : state)
| ULast (s : state)        (* nothing left below: s keeps the evaluation stack; slots and try stack are gone *)
| UFault.

Definition unload (ret_transfer : bool) (s : state) : unload_res :=
  let f := s_fr s in let sc := s_sc s in
  match s_frames s with
  | f' :: fs =>
      let hr := clear_slot (f_args f) (clear_slot (f_local f) (s_heap s, s_refs s)) in
      UNext (mkState f' sc fs (s_outer s) (fst hr) (snd hr) (s_exc s) (s_gas s) (s_limit s) (s_base s))
  | [] =>
      match s_outer s with
      | (sc', (f', fs')) :: outer' =>
          (* evaluation stack of the context below *)
          let es' :=
            if sc_shared sc then Some (sc_es sc)
            else if ret_transfer then
              if (0 <=? f_ret f) && negb (zlen (sc_es sc) =? f_ret f) then None
              else Some (sc_es sc ++ sc_es sc')
            else Some (sc_es sc') in
          match es' with
          | None => UFault
          | Some es' =>
              let hr := clear_slot (sc_static sc) (clear_slot (f_args f) (clear_slot (f_local f) (s_heap s, s_refs s))) in
              (* an exception leaves the script: what is still on its own evaluation stack is un-counted (Stack.Clear; the
                 repair F58 - vm.go as found just drops the stack and keeps the counts) *)
              let hr := if negb ret_transfer && negb (sc_shared sc) then clear_slot (Some (sc_es sc)) hr else hr in
              UNext (mkState f' (mkScript (sc_prog sc') (sc_sid sc') (sc_static sc') es' (sc_shared sc'))
                             fs' outer' (fst hr) (snd hr) (s_exc s) (s_gas s) (s_limit s) (s_base s))
          end
      | [] =>
          let hr := clear_slot (sc_static sc) (clear_slot (f_args f) (clear_slot (f_local f) (s_heap s, s_refs s))) in
          (* the invocation stack is now empty: only the evaluation stack (the result) remains *)
          ULast (mkState (mkFrame (f_ip f) None None [] (f_ret f))
                         (mkScript (sc_prog sc) (sc_sid sc) None (sc_es sc) (sc_shared sc))
                         [] [] (fst hr) (snd hr) (s_exc s) (s_gas s) (s_limit s) (s_base s))
      end
  end.

(* ---------- exceptions (VM.handleException) ---------- *)
Definition has_catch (t : tryctx) : bool := 0 <=? t_catch t.
Definition has_finally (t : tryctx) : bool := 0 <=? t_finally t.
(* entries that are already in their finally block, or in a catch block with no finally, are dropped *)
Fixpoint trim_try (ts : list tryctx) : list tryctx :=
  match ts with
  | [] => []
  | t :: ts' =>
      match t_state t with
      | EFinally => trim_try ts'
      | ECatch => if has_finally t then ts else trim_try ts'
      | ETry => ts
      end
  end.

(* s_exc = Some e.  Looks for a handler from the executing context downwards, unloading contexts on the way.
   None = unhandled (FAULT). fuel: number of contexts + 1 suffices. *)
Fixpoint unwind (fuel : nat) (s : state) : option state :=
  match fuel with
  | O => None
  | S fuel' =>
      match trim_try (f_try (s_fr s)) with
      | t :: ts =>
          match t_state t, has_catch t, s_exc s with
          | ETry, true, Some e =>
              let s := set_try s (mkTry (t_catch t) (t_finally t) (t_end t) ECatch :: ts) in
              let s := set_exc (unview s (push e (view s))) None in
              jump s (t_catch t)
          | _, _, _ =>
              let s := set_try s (mkTry (t_catch t) (t_finally t) (t_end t) EFinally :: ts) in
              jump s (t_finally t)
          end
      | [] =>
          match unload false (set_try s []) with
          | UNext s' => unwind fuel' s'
          | _ => None
          end
      end
  end.

Definition throw (e : item) (s : state) : option state :=
  let s := set_exc s (Some e) in unwind (S (Z.to_nat (depth s))) s.

(* ---------- CALL / CALL_L / CALLA (VM.call) ---------- *)
Definition call (s : state) (pos : Z) : option state :=
  if MaxInvocationStackSize <=? depth s then None
  else if negb (jump_ok (prog_len s) pos) then None
  else Some (mkState (mkFrame pos None None [] (-1)) (s_sc s) (s_fr s :: s_frames s) (s_outer s)
                     (s_heap s) (s_refs s) (s_exc s) (s_gas s) (s_limit s) (s_base s)).

(* outcome of the body of one instruction *)
Inductive xres := XNext (s : state) | XHalt (s : state) | XFault.
Definition xopt (o : option state) : xres := match o with Some s => XNext s | None => XFault end.

Definition do_ret (s : state) : xres :=
  match unload true s with
  | UNext s' => XNext s'
  | ULast s' => XHalt s'
  | UFault => XFault
  end.

Definition try_params (op : opcode) (p : list Z) : list Z * list Z :=
  match op with TRYL => (firstn 4 p, skipn 4 p) | _ => (firstn 1 p, skipn 1 p) end.

(* the handler type for SYSCALL (id = 4 operand bytes) and CALLT (2 operand bytes) *)
Definition syshandler := opcode -> list Z -> state -> option state.
Definition no_sys : syshandler := fun _ _ _ => None.

(* [cip] = scparser.Context.ip: offset of the instruction being executed; s already has its next ip set *)
Definition exec_op (sys : syshandler) (cip : Z) (op : opcode) (p : list Z) (s : state) : xres :=
  let len := prog_len s in
  match op with
  | JMP | JMPL | JMPIF | JMPIFL | JMPIFNOT | JMPIFNOTL | JMPEQ | JMPEQL | JMPNE | JMPNEL
  | JMPGT | JMPGTL | JMPGE | JMPGEL | JMPLT | JMPLTL | JMPLE | JMPLEL =>
      match jump_offset cip len p with
      | None => XFault
      | Some off =>
          match jump_cond op (view s) with
          | None => XFault
          | Some (c, d) => let s := unview s d in if c then xopt (jump s off) else XNext s
          end
      end
  | CALL | CALLL =>
      match jump_offset cip len p with
      | None => XFault
      | Some off => xopt (call s off)
      end
  | CALLA =>
      match pop (view s) with
      | Some (IPtr pos sid, d) =>
          if N.eqb sid (sc_sid (s_sc s)) then xopt (call (unview s d) pos) else XFault
      | _ => XFault
      end
  | CALLT | SYSCALL => xopt (sys op p s)
  | RET => do_ret s
  | TRY | TRYL =>
      let (cp, fp) := try_params op p in
      if MaxTryNestingDepth <=? zlen (f_try (s_fr s)) then XFault
      else
        match jump_offset cip len cp, jump_offset cip len fp with
        | Some c, Some f =>
            if (c =? cip) && (f =? cip) then XFault
            else
              let c' := if c =? cip then -1 else c in
              let f' := if (negb (c =? cip)) && (f =? cip) then -1 else f in
              XNext (set_try s (mkTry c' f' (-1) ETry :: f_try (s_fr s)))
        | _, _ => XFault
        end
  | ENDTRY | ENDTRYL =>
      match f_try (s_fr s) with
      | [] => XFault
      | t :: ts =>
          match t_state t with
          | EFinally => XFault
          | _ =>
              match jump_offset cip len p with
              | None => XFault
              | Some e =>
                  if has_finally t
                  then xopt (jump (set_try s (mkTry (t_catch t) (t_finally t) e EFinally :: ts)) (t_finally t))
                  else xopt (jump (set_try s ts) e)
              end
          end
      end
  | ENDFINALLY =>
      match s_exc s with
      | Some e => xopt (throw e s)
      | None =>
          match f_try (s_fr s) with
          | [] => XFault
          | t :: ts => xopt (jump (set_try s ts) (t_end t))
          end
      end
  | _ =>
      match exec_data (mkEnv cip len (sc_sid (s_sc s))) op p (view s) with
      | DOk d => XNext (unview s d)
      | DThrow e d => xopt (throw e (unview s d))
      | DFault => XFault
      end
  end.

(* the deferred check of [execute]: more than MaxStackSize counted references -> FAULT *)
Definition post (gas : Z) (r : xres) : result :=
  match r with
  | XNext s => if MaxStackSize <? s_refs s then Faulted gas else Running s
  | XHalt s => if MaxStackSize <? s_refs s then Faulted gas else Halted s
  | XFault => Faulted gas
  end.

Definition step_with (sys : syshandler) (s : state) : result :=
  let cip := f_ip (s_fr s) in
  match decode (sc_prog (s_sc s)) cip with
  | DecErr => Faulted (s_gas s)
  | DecEnd => post (s_gas s) (do_ret s)                          (* implicit RET past the end: not charged *)
  | DecOk op p next =>
      let gas := s_gas s + price (s_base s) op in
      if (0 <=? s_limit s) && (s_limit s <? gas) then Faulted gas
      else post gas (exec_op sys cip op p (set_ip (set_gas s gas) next))
  end.

Definition step : state -> result := step_with no_sys.

Fixpoint run (fuel : nat) (s : state) : result :=
  match fuel with
  | O => Running s
  | S f => match step s with Running s' => run f s' | r => r end
  end.

(* the same with binary fuel: at most p instructions *)
Fixpoint runp (p : positive) (s : state) : result :=
  match p with
  | xH => step s
  | xO q => match runp q s with Running s' => runp q s' | r => r end
  | xI q => match step s with
            | Running s1 => match runp q s1 with Running s2 => runp q s2 | r => r end
            | r => r
            end
  end.

(* ---------- loading (VM.loadScriptWithCallingHash) ---------- *)
Definition empty_frame (pos rv : Z) : frame := mkFrame pos None None [] rv.

(* a fresh VM with one script loaded at offset 0 (vm.New(); SetPriceGetter; SetGasLimit; LoadScript) *)
Definition init_state (prog : list Z) (sid : N) (base limit : Z) : state :=
  mkState (empty_frame 0 (-1)) (mkScript prog sid None [] false) [] [] [] 0 None 0 limit base.

(* loading another script on top of a loaded VM (LoadScriptWithFlags: rvcount = -1) *)
Definition load_script (s : state) (prog : list Z) (sid : N) (rv : Z) : state :=
  let shared := (rv =? -1) && (match sc_es (s_sc s) with [] => true | _ => false end) in
  mkState (empty_frame 0 rv) (mkScript prog sid None [] shared) []
          ((s_sc s, (s_fr s, s_frames s)) :: s_outer s)
          (s_heap s) (s_refs s) (s_exc s) (s_gas s) (s_limit s) (s_base s).

(* Estack().PushItem before running (used by harnesses to seed the stack) *)
Definition seed_push (it : item) (s : state) : state := unview s (push it (view s)).
