(* Properties of the NeoVM integer arithmetic (C13): every result is within 256 bits, the algebraic laws that pin
   the specification (truncated division, sign of the remainder, floor shift, integer square root bracket,
   modular power / product / inverse congruences), and that the cut-off power equals the plain power. *)
From NG Require Import Common.Tactics Codec.Bigint Codec.BigintProofs gen.VMLimits VM.Arith.
From Coq Require Import Znumtheory.
Open Scope Z_scope.

Definition int256 (z : Z) : Prop := - 2 ^ 255 <= z < 2 ^ 255.

Lemma in_int256_iff z : in_int256 z = true <-> int256 z.
Proof. unfold in_int256, int256. rewrite andb_true_iff, Z.leb_le, Z.ltb_lt. tauto. Qed.

Lemma mk_int256_range z r : mk_int256 z = Some r -> r = z /\ int256 r.
Proof. unfold mk_int256. destruct (in_int256 z) eqn:E; [|discriminate]. intros X; inv X. split; [reflexivity|apply in_int256_iff; assumption]. Qed.
Lemma mk_int256_some z : int256 z -> mk_int256 z = Some z.
Proof. intros H. unfold mk_int256. apply in_int256_iff in H. rewrite H. reflexivity. Qed.
Lemma mk_int256_none z : ~ int256 z -> mk_int256 z = None.
Proof. intros H. unfold mk_int256. destruct (in_int256 z) eqn:E; [|reflexivity]. apply in_int256_iff in E. contradiction. Qed.

(* ---------- DIV / MOD ---------- *)
#[local] Ltac Zify.zify_post_hook ::= Z.to_euclidean_division_equations.

Theorem div_mod_spec a b q r :
  ar_div a b = Some q -> ar_mod a b = Some r ->
  a = q * b + r /\ Z.abs r < Z.abs b /\ (r = 0 \/ Z.sgn r = Z.sgn a).
Proof.
  unfold ar_div, ar_mod. destruct (b =? 0) eqn:B; [discriminate|]. apply Z.eqb_neq in B.
  intros Q R. apply mk_int256_range in Q. apply mk_int256_range in R. destruct Q as [-> _], R as [-> _].
  split; [rewrite Z.mul_comm; apply Z.quot_rem'|]. split; [apply Z.rem_bound_abs; assumption|].
  destruct (Z.eq_dec (Z.rem a b) 0) as [|N]; [left; assumption|right].
  apply Z.rem_sign_nz; assumption.
Qed.
Lemma quot_range M a b : 0 < M -> - M <= a < M -> - M <= b < M -> b <> 0 -> ~ (a = - M /\ b = -1) ->
  - M <= Z.quot a b < M.
Proof. intros. nia. Qed.
Lemma quot_min_m1 M : 0 < M -> Z.quot (- M) (-1) = M.
Proof. intros. nia. Qed.
(* DIV faults exactly on division by zero and on -2^255 / -1 *)
Theorem div_faults_iff a b : int256 a -> int256 b ->
  (ar_div a b = None <-> b = 0 \/ (a = - 2 ^ 255 /\ b = -1)).
Proof.
  intros Ha Hb. unfold ar_div. destruct (b =? 0) eqn:B.
  - apply Z.eqb_eq in B. split; auto.
  - apply Z.eqb_neq in B. assert (P : 0 < 2 ^ 255) by (vm_compute; reflexivity). split.
    + intros N. right.
      destruct (Z.eq_dec a (- 2 ^ 255)) as [Ea|Na]; [destruct (Z.eq_dec b (-1)) as [Eb|Nb]; [auto|]|];
        exfalso; (rewrite mk_int256_some in N; [discriminate|]);
        apply (quot_range (2 ^ 255)); auto; intros [? ?]; contradiction.
    + intros [->|[-> ->]]; [contradiction|]. apply mk_int256_none. unfold int256.
      rewrite (quot_min_m1 (2 ^ 255) P). lia.
Qed.
(* MOD never leaves the range *)
Theorem mod_total a b : int256 b -> b <> 0 -> exists r, ar_mod a b = Some r.
Proof.
  intros Hb N. unfold ar_mod. apply Z.eqb_neq in N. rewrite N. apply Z.eqb_neq in N.
  eexists. apply mk_int256_some. unfold int256 in *. pose proof (Z.rem_bound_abs a b N). lia.
Qed.

(* ---------- SHL / SHR ---------- *)
Theorem shr_floor a b r : ar_shift false a b = Some r -> r * 2 ^ b <= a < (r + 1) * 2 ^ b.
Proof.
  unfold ar_shift. case_if; [discriminate|]. intros M. apply mk_int256_range in M. destruct M as [-> _].
  assert (0 <= b) by lia. rewrite Z.shiftr_div_pow2 by assumption.
  assert (0 < 2 ^ b) by (apply Z.pow_pos_nonneg; lia).
  pose proof (Z.div_mod a (2 ^ b)). pose proof (Z.mod_pos_bound a (2 ^ b)). nia.
Qed.
Theorem shl_spec a b r : ar_shift true a b = Some r -> r = a * 2 ^ b.
Proof.
  unfold ar_shift. case_if; [discriminate|]. intros M. apply mk_int256_range in M. destruct M as [-> _].
  apply Z.shiftl_mul_pow2. lia.
Qed.

(* ---------- SQRT ---------- *)
Theorem sqrt_bracket a r : ar_sqrt a = Some r -> 0 <= r /\ r * r <= a < (r + 1) * (r + 1).
Proof.
  unfold ar_sqrt. case_if; [discriminate|]. intros M. apply mk_int256_range in M. destruct M as [-> _].
  assert (0 <= a) by lia. pose proof (Z.sqrt_spec a H). pose proof (Z.sqrt_nonneg a). cbv zeta in *. lia.
Qed.

(* ---------- POW: the cut-off loop is the plain power ---------- *)
Lemma pow_cut_some : forall n a acc r, pow_cut n a acc = Some r -> r = acc * a ^ Z.of_nat n.
Proof.
  induction n as [|n IH]; intros a acc r; simpl pow_cut.
  - intros E; inv E. simpl. lia.
  - case_if; [discriminate|]. intros E. apply IH in E. rewrite E. rewrite Nat2Z.inj_succ, Z.pow_succ_r by lia. lia.
Qed.
Lemma pow_abs_mono a n : 1 <= Z.abs a -> 1 <= Z.abs a ^ Z.of_nat n.
Proof. intros. induction n as [|n IH]; [simpl; lia|]. rewrite Nat2Z.inj_succ, Z.pow_succ_r by lia. nia. Qed.
Lemma pow_cut_none : forall n a acc, pow_cut n a acc = None -> pow_envelope < Z.abs (acc * a ^ Z.of_nat n).
Proof.
  induction n as [|n IH]; intros a acc; simpl pow_cut; [discriminate|].
  case_if.
  - intros _. rewrite Nat2Z.inj_succ, Z.pow_succ_r by lia.
    replace (acc * (a * a ^ Z.of_nat n)) with ((acc * a) * a ^ Z.of_nat n) by lia.
    rewrite Z.abs_mul, Z.abs_pow.
    assert (0 < pow_envelope) by (vm_compute; reflexivity).
    assert (1 <= Z.abs a).
    { destruct (Z.eq_dec a 0) as [->|]; [rewrite Z.mul_0_r in *; simpl in *; lia|lia]. }
    pose proof (pow_abs_mono a n H0). nia.
  - intros E. apply IH in E. rewrite Nat2Z.inj_succ, Z.pow_succ_r by lia.
    replace (acc * (a * a ^ Z.of_nat n)) with ((acc * a) * a ^ Z.of_nat n) by lia. assumption.
Qed.
Theorem pow_spec a e :
  ar_pow a e = if (0 <=? e) && (e <=? MaxBigIntegerSizeBits) then mk_int256 (a ^ e) else None.
Proof.
  unfold ar_pow. case_if; [|reflexivity].
  assert (0 <= e) by lia.
  destruct (pow_cut (Z.to_nat e) a 1) as [r|] eqn:E.
  - apply pow_cut_some in E. rewrite Z2Nat.id in E by assumption. rewrite E. f_equal. lia.
  - apply pow_cut_none in E. rewrite Z2Nat.id in E by assumption. rewrite Z.mul_1_l in E.
    symmetry. apply mk_int256_none. unfold int256. unfold pow_envelope in E.
    assert (2 ^ 255 < 2 ^ 256) by (vm_compute; reflexivity). lia.
Qed.

(* ---------- modular exponentiation ---------- *)
Lemma powmod_pos_spec a p m : 0 < m -> powmod_pos a p m = (a ^ Zpos p) mod m.
Proof.
  intros Hm. assert (Nm : m <> 0) by lia. induction p as [p IH|p IH|]; simpl powmod_pos.
  - rewrite IH. rewrite Pos2Z.inj_xI, Z.pow_add_r, Z.pow_twice_r, Z.pow_1_r by lia.
    rewrite <- (Z.mul_mod (a ^ Z.pos p) (a ^ Z.pos p)) by assumption.
    rewrite <- Z.mul_mod by assumption. reflexivity.
  - rewrite IH. rewrite Pos2Z.inj_xO, Z.pow_twice_r.
    rewrite <- Z.mul_mod by assumption. reflexivity.
  - rewrite Z.pow_1_r. reflexivity.
Qed.
Lemma powmod_spec a e m : 0 < m -> 0 <= e -> powmod a e m = (a ^ e) mod m.
Proof.
  intros Hm He. destruct e as [|p|p]; simpl powmod; [reflexivity|apply powmod_pos_spec; assumption|lia].
Qed.

Lemma rem_nonneg P n : 0 < n -> 0 <= P -> Z.rem P n = P mod n.
Proof. intros. apply Z.rem_mod_nonneg; lia. Qed.
Lemma rem_neg_nz P n : 0 < n -> P < 0 -> P mod n <> 0 -> Z.rem P n = P mod n - n.
Proof.
  intros Hn HP Hz. replace P with (- (- P)) at 1 by lia. rewrite Z.rem_opp_l by lia.
  rewrite Z.rem_mod_nonneg by lia. rewrite Z.mod_opp_l_nz by lia. lia.
Qed.
Lemma rem_neg_z P n : 0 < n -> P <= 0 -> P mod n = 0 -> Z.rem P n = 0.
Proof.
  intros Hn HP Hz. replace P with (- (- P)) by lia. rewrite Z.rem_opp_l by lia.
  rewrite Z.rem_mod_nonneg by lia. rewrite Z.mod_opp_l_z by lia. reflexivity.
Qed.

(* MODPOW with a non-negative exponent is the truncated remainder of the power (sign of the power) *)
Theorem modpow_spec b e m r : 0 <= e -> ar_modpow b e m = Some r -> r = Z.rem (b ^ e) m.
Proof.
  intros He. unfold ar_modpow.
  destruct (e <? -1) eqn:E1; [lia|]. destruct (e =? -1) eqn:E2; [lia|].
  destruct (m =? 0) eqn:Em; [discriminate|]. apply Z.eqb_neq in Em.
  intros M. apply mk_int256_range in M. destruct M as [-> _].
  assert (Ha : 0 < Z.abs m) by lia.
  rewrite powmod_spec by assumption.
  set (P := b ^ e).
  assert (Sg : (b <? 0) && Z.odd e = true -> P <= 0 /\ (P mod Z.abs m <> 0 -> P < 0)).
  { intros C. apply andb_true_iff in C. destruct C as [Cb Co]. apply Z.ltb_lt in Cb.
    assert (P < 0); [|split; lia]. subst P. rewrite (Zodd_div2 e) by (apply Zodd_bool_iff; assumption).
    assert (0 <= Z.div2 e) by (apply Z.div2_nonneg; assumption).
    rewrite Z.pow_add_r, Z.pow_twice_r, Z.pow_1_r by lia.
    assert (0 < b ^ Z.div2 e * b ^ Z.div2 e).
    { assert (b ^ Z.div2 e <> 0) by (apply Z.pow_nonzero; lia). nia. }
    nia. }
  assert (Sp : (b <? 0) && Z.odd e = false -> 0 <= P).
  { intros C. apply andb_false_iff in C. destruct C as [Cb|Co].
    - apply Z.ltb_ge in Cb. subst P. apply Z.pow_nonneg. assumption.
    - subst P. assert (Ev : Z.even e = true) by (rewrite <- Z.negb_odd, Co; reflexivity).
      apply Z.even_spec in Ev. destruct Ev as [k ->]. rewrite Z.pow_twice_r. nia. }
  clearbody P. rewrite <- (Z.rem_abs_r P m) by assumption.
  destruct ((b <? 0) && Z.odd e) eqn:C.
  - destruct (Sg eq_refl) as [S1 S2]. destruct (P mod Z.abs m =? 0) eqn:Z0; simpl.
    + apply Z.eqb_eq in Z0. rewrite rem_neg_z by assumption. assumption.
    + apply Z.eqb_neq in Z0. specialize (S2 Z0). rewrite rem_neg_nz by assumption. reflexivity.
  - specialize (Sp eq_refl). simpl. rewrite rem_nonneg by assumption. reflexivity.
Qed.

(* MODMUL is the truncated remainder of the product *)
Theorem modmul_spec x y m r : ar_modmul x y m = Some r -> r = Z.rem (x * y) m /\ m <> 0.
Proof.
  unfold ar_modmul. destruct (m =? 0) eqn:Em; [discriminate|]. apply Z.eqb_neq in Em.
  intros M. apply mk_int256_range in M. destruct M as [-> _]. auto.
Qed.

(* modular inverse: whenever an answer is returned it is the inverse in [0, n) *)
Lemma egcd_bezout fuel : forall a b g x y, egcd fuel a b = (g, x, y) -> a * x + b * y = g.
Proof.
  induction fuel as [|f IH]; intros a b g x y; simpl.
  - intros E; inv E. lia.
  - destruct (b =? 0) eqn:B; [intros E; inv E; lia|]. apply Z.eqb_neq in B.
    destruct (egcd f b (a mod b)) as [[g' x'] y'] eqn:E. intros X; inv X.
    apply IH in E. pose proof (Z.div_mod a b B). nia.
Qed.
Theorem modinv_spec a n r : 2 <= n -> modinv a n = Some r -> 0 <= r < n /\ (a * r) mod n = 1.
Proof.
  intros Hn. unfold modinv. destruct (egcd egcd_fuel (a mod n) n) as [[g x] y] eqn:E.
  destruct (g =? 1) eqn:G; [|discriminate]. apply Z.eqb_eq in G. subst g. intros X; inv X.
  apply egcd_bezout in E. split; [apply Z.mod_pos_bound; lia|].
  rewrite Z.mul_mod_idemp_r by lia. rewrite <- Z.mul_mod_idemp_l by lia.
  replace ((a mod n) * x) with (1 + (- y) * n) by lia. rewrite Z.mod_add by lia. apply Z.mod_small. lia.
Qed.
Theorem modpow_inverse b m r : ar_modpow b (-1) m = Some r -> 0 < b /\ 2 <= m /\ 0 <= r < m /\ (b * r) mod m = 1.
Proof.
  unfold ar_modpow. simpl. destruct (b <=? 0) eqn:B; [discriminate|]. destruct (m <? 2) eqn:Mm; [discriminate|].
  destruct (modinv b m) as [i|] eqn:I; [|discriminate]. intros M. apply mk_int256_range in M. destruct M as [-> _].
  apply modinv_spec in I; [|lia]. repeat split; try lia; apply I.
Qed.

(* ---------- every arithmetic result is within 256 bits ---------- *)
Theorem int_ops_range :
  (forall a b r, ar_div a b = Some r -> int256 r) /\
  (forall a b r, ar_mod a b = Some r -> int256 r) /\
  (forall a e r, ar_pow a e = Some r -> int256 r) /\
  (forall a r, ar_sqrt a = Some r -> int256 r) /\
  (forall x y m r, ar_modmul x y m = Some r -> int256 r) /\
  (forall b e m r, ar_modpow b e m = Some r -> int256 r) /\
  (forall l a b r, ar_shift l a b = Some r -> int256 r) /\
  (forall z r, mk_int256 z = Some r -> int256 r).
Proof.
  assert (K : forall z r, mk_int256 z = Some r -> int256 r) by (intros z r H; apply mk_int256_range in H; apply H).
  repeat match goal with |- _ /\ _ => split end; try exact K.
  - intros a b r. unfold ar_div. case_if; [discriminate|apply K].
  - intros a b r. unfold ar_mod. case_if; [discriminate|apply K].
  - intros a e r. rewrite pow_spec. case_if; [apply K|discriminate].
  - intros a r. unfold ar_sqrt. case_if; [discriminate|apply K].
  - intros x y m r. unfold ar_modmul. case_if; [discriminate|apply K].
  - intros b e m r. unfold ar_modpow. repeat case_if; try discriminate; try apply K.
    destruct (modinv b m); [apply K|discriminate].
  - intros l a b r. unfold ar_shift. case_if; [discriminate|apply K].
Qed.

(* ---------- conversions that are bijections (stackitem conversion rules over the proved integer codec) ---------- *)
From NG Require Import VM.Items.

(* Integer -> ByteString -> Integer is the identity on the whole VM integer range *)
Theorem convert_int_bytes_int z : int256 z -> try_int (IBytes (to_bytes z)) = Some z.
Proof.
  intros H. apply in_int256_iff in H. apply fits256_iff_len in H. unfold try_int, max_int_bytes, zlen.
  destruct (MaxBigIntegerSizeBits / 8 <? Z.of_nat (length (to_bytes z))) eqn:E.
  - apply Z.ltb_lt in E. change (MaxBigIntegerSizeBits / 8) with 32 in E. lia.
  - rewrite bigint_roundtrip. reflexivity.
Qed.
(* ByteString -> Integer -> ByteString is the identity exactly on minimal encodings of at most 32 bytes *)
Theorem convert_bytes_int_bytes l z :
  bytes_ok l -> try_int (IBytes l) = Some z ->
  int256 z /\ (to_bytes z = l <-> length l = length (to_bytes z)).
Proof.
  intros Hl. unfold try_int, max_int_bytes, zlen.
  destruct (MaxBigIntegerSizeBits / 8 <? Z.of_nat (length l)) eqn:E; [discriminate|].
  apply Z.ltb_ge in E. change (MaxBigIntegerSizeBits / 8) with 32 in E. intros X; inv X. split.
  - apply in_int256_iff, fits256_iff_len. pose proof (bigint_minimal l Hl). lia.
  - apply bigint_canonical. assumption.
Qed.
(* Boolean <-> Integer *)
Theorem convert_bool_int_bool b : try_int (IBool b) = Some (bool_z b) /\ try_bool (IInt (bool_z b)) = Some b.
Proof. destruct b; split; reflexivity. Qed.
(* Boolean -> ByteString -> Boolean *)
Theorem convert_bool_bytes_bool h b : exists bs, try_bytes h (IBool b) = Some bs /\ try_bool (IBytes bs) = Some b.
Proof. destruct b; eexists; split; reflexivity. Qed.
