(* Item accounting on compound-free ("flat") states: as long as no Array/Struct/Map exists anywhere (stack, slots,
   heap), every data instruction other than the nine that create one keeps the state flat and changes the item counter by
   exactly the change in the number of stack and slot entries.  Partial result towards refs_never_undercount. *)
From NG Require Import VM.Model VM.LimitsData.
Open Scope Z_scope.

Definition prim (it : item) : Prop := item_cloc it = None.
Definition buf_cell (c : cell) : Prop := match c with CBuf _ => True | _ => False end.
Definition slot_prim (sl : option (list item)) : Prop := match sl with Some l => Forall prim l | None => True end.
Definition flat_d (d : dstate) : Prop :=
  Forall prim (d_es d) /\ slot_prim (d_local d) /\ slot_prim (d_args d) /\ slot_prim (d_static d) /\ Forall buf_cell (d_heap d).

Definition slen (sl : option (list item)) : Z := match sl with Some l => zlen l | None => 0 end.
Definition droots (d : dstate) : Z := zlen (d_es d) + slen (d_local d) + slen (d_args d) + slen (d_static d).
(* counter minus the entries of this context: constant across flat data instructions *)
Definition excess (d : dstate) : Z := d_refs d - droots d.

Definition creator (op : opcode) : bool :=
  match op with
  | NEWARRAY0 | NEWARRAY | NEWARRAYT | NEWSTRUCT0 | NEWSTRUCT | NEWMAP | PACK | PACKSTRUCT | PACKMAP => true
  | _ => false
  end.

Ltac dsimp := cbn [d_refs d_es d_local d_args d_static d_heap set_mem set_es set_heap set_refs set_local set_args set_static push_noref] in *.

(* ---------- primitives ---------- *)
Lemma flat_es d : flat_d d -> Forall prim (d_es d). Proof. intros H; apply H. Qed.
Lemma flat_heap d : flat_d d -> Forall buf_cell (d_heap d). Proof. intros H; apply H. Qed.

Lemma ref_add_prim h r it : prim it -> ref_add h r it = (h, r + 1).
Proof. unfold prim, ref_add. intros ->. reflexivity. Qed.
Lemma ref_remove_prim h r it : prim it -> ref_remove h r it = (h, r - 1).
Proof. unfold prim, ref_remove. intros ->. reflexivity. Qed.
Lemma ref_remove_wl_prim : forall fuel h r its, Forall prim its -> (length its <= fuel)%nat ->
  ref_remove_wl fuel h r its = (h, r - zlen its).
Proof.
  induction fuel as [|f IH]; intros h r its H L.
  - destruct its; [simpl; f_equal; unfold zlen; simpl; lia|simpl in L; lia].
  - destruct its as [|it its]; simpl; [f_equal; unfold zlen; simpl; lia|].
    inv H. unfold prim in H2. rewrite H2. rewrite IH; [|assumption|simpl in L; lia].
    f_equal. rewrite zlen_cons'. lia.
Qed.

Lemma d_add_prim it d : prim it -> d_add it d = set_mem d (d_heap d) (d_refs d + 1).
Proof. intros H. unfold d_add. rewrite ref_add_prim by assumption. reflexivity. Qed.
Lemma d_remove_prim it d : prim it -> d_remove it d = set_mem d (d_heap d) (d_refs d - 1).
Proof. intros H. unfold d_remove. rewrite ref_remove_prim by assumption. reflexivity. Qed.
Lemma d_remove_list_prim its d : Forall prim its -> d_remove_list its d = set_mem d (d_heap d) (d_refs d - zlen its).
Proof.
  intros H. unfold d_remove_list, ref_remove_list. rewrite ref_remove_wl_prim; [reflexivity|assumption|].
  unfold ref_fuel. lia.
Qed.

(* results of the monadic primitives on a flat state *)
Lemma pop_noref_flat d it d' : flat_d d -> pop_noref d = Some (it, d') ->
  prim it /\ flat_d d' /\ excess d' = excess d + 1 /\ d_es d = it :: d_es d'.
Proof.
  unfold pop_noref. intros (A & B & C & D & E). destruct (d_es d) as [|x es] eqn:Es; [discriminate|].
  intros X; inv X. inv A. repeat split; try assumption.
  unfold excess, droots. dsimp. rewrite Es, zlen_cons'. lia.
Qed.
Lemma pop_flat d it d' : flat_d d -> pop d = Some (it, d') ->
  prim it /\ flat_d d' /\ excess d' = excess d /\ d_es d = it :: d_es d'.
Proof.
  unfold pop. intros H. destruct (pop_noref d) as [[i d1]|] eqn:E; [|discriminate]. intros X; inv X.
  destruct (pop_noref_flat _ _ _ H E) as (P & F & X & Es). rewrite d_remove_prim by assumption.
  repeat split; try assumption; try apply F; try exact Es. unfold excess, droots in *. dsimp. lia.
Qed.
Lemma pop_int_flat d z d' : flat_d d -> pop_int d = Some (z, d') -> flat_d d' /\ excess d' = excess d /\ zlen (d_es d) = 1 + zlen (d_es d').
Proof.
  unfold pop_int. intros H. destruct (pop d) as [[i d1]|] eqn:E; [|discriminate].
  destruct (try_int i); [|discriminate]. intros X; inv X. destruct (pop_flat _ _ _ H E) as (_ & F & X & Es).
  rewrite Es, zlen_cons'. auto.
Qed.
Lemma pop_i32_flat d z d' : flat_d d -> pop_i32 d = Some (z, d') -> flat_d d' /\ excess d' = excess d /\ zlen (d_es d) = 1 + zlen (d_es d').
Proof.
  unfold pop_i32. intros H. destruct (pop_int d) as [[i d1]|] eqn:E; [|discriminate].
  destruct (to_i32 i); [|discriminate]. intros X; inv X. eapply pop_int_flat; eauto.
Qed.
Lemma pop_bool_flat d z d' : flat_d d -> pop_bool d = Some (z, d') -> flat_d d' /\ excess d' = excess d /\ zlen (d_es d) = 1 + zlen (d_es d').
Proof.
  unfold pop_bool. intros H. destruct (pop d) as [[i d1]|] eqn:E; [|discriminate].
  destruct (try_bool i); [|discriminate]. intros X; inv X. destruct (pop_flat _ _ _ H E) as (_ & F & X & Es).
  rewrite Es, zlen_cons'. auto.
Qed.
Lemma pop_bytes_flat d z d' : flat_d d -> pop_bytes d = Some (z, d') -> flat_d d' /\ excess d' = excess d /\ zlen (d_es d) = 1 + zlen (d_es d').
Proof.
  unfold pop_bytes. intros H. destruct (pop d) as [[i d1]|] eqn:E; [|discriminate].
  destruct (try_bytes (d_heap d1) i); [|discriminate]. intros X; inv X. destruct (pop_flat _ _ _ H E) as (_ & F & X & Es).
  rewrite Es, zlen_cons'. auto.
Qed.

Lemma push_flat it d : prim it -> flat_d d -> flat_d (push it d) /\ excess (push it d) = excess d.
Proof.
  intros P (A & B & C & D & E). unfold push. rewrite d_add_prim by assumption. split.
  - repeat split; dsimp; try assumption. constructor; assumption.
  - unfold excess, droots. dsimp. rewrite zlen_cons'. lia.
Qed.
Lemma push_int_flat z d d' : flat_d d -> push_int z d = Some d' -> flat_d d' /\ excess d' = excess d.
Proof.
  unfold push_int. intros H. destruct (mk_int256 z); [|discriminate]. intros X; inv X.
  apply push_flat; [reflexivity|assumption].
Qed.
Lemma push_new_buffer_flat bs d : flat_d d -> flat_d (push_new_buffer bs d) /\ excess (push_new_buffer bs d) = excess d.
Proof.
  intros (A & B & C & D & E). unfold push_new_buffer, alloc, halloc. cbn [fst snd].
  assert (F : flat_d (set_heap d (d_heap d ++ [CBuf bs]))).
  { repeat split; dsimp; try assumption. apply Forall_app; split; [assumption|repeat constructor]. }
  destruct (push_flat (IBuf (length (d_heap d))) _ eq_refl F) as [F' X]. split; [exact F'|]. rewrite X. reflexivity.
Qed.

Lemma set_es_flat d es : flat_d d -> Forall prim es -> flat_d (set_es d es) /\ excess (set_es d es) = excess d + zlen (d_es d) - zlen es.
Proof.
  intros (A & B & C & D & E) H. split; [repeat split; assumption|]. unfold excess, droots. dsimp. lia.
Qed.
Lemma set_buf_flat d l bs : flat_d d -> flat_d (set_heap d (hset (d_heap d) l (CBuf bs))) /\
  excess (set_heap d (hset (d_heap d) l (CBuf bs))) = excess d.
Proof.
  intros (A & B & C & D & E). split; [|reflexivity]. repeat split; try assumption. dsimp.
  clear - E. revert l. induction (d_heap d) as [|c h IH]; intros l; simpl; [constructor|].
  inv E. destruct l; constructor; auto. exact I.
Qed.
Lemma d_remove_flat it d : prim it -> flat_d d -> flat_d (d_remove it d) /\ excess (d_remove it d) = excess d - 1.
Proof.
  intros P (A & B & C & D & E). rewrite d_remove_prim by assumption. split; [repeat split; assumption|].
  unfold excess, droots. dsimp. lia.
Qed.
Lemma d_add_flat it d : prim it -> flat_d d -> flat_d (d_add it d) /\ excess (d_add it d) = excess d + 1.
Proof.
  intros P (A & B & C & D & E). rewrite d_add_prim by assumption. split; [repeat split; assumption|].
  unfold excess, droots. dsimp. lia.
Qed.
Lemma clone_if_struct_prim h it : prim it -> clone_if_struct h it = Some (h, it, false).
Proof. destruct it; try reflexivity. discriminate. Qed.

Lemma flat_no_seq d l : flat_d d -> get_seq (d_heap d) l = None.
Proof.
  intros H. unfold get_seq. destruct (hget (d_heap d) l) as [c|] eqn:G; [|reflexivity].
  pose proof (flat_heap _ H) as F. eapply Forall_nth_error in G; [|exact F]. destruct c; simpl in G; tauto.
Qed.
Lemma flat_no_map d l : flat_d d -> get_map (d_heap d) l = None.
Proof.
  intros H. unfold get_map. destruct (hget (d_heap d) l) as [c|] eqn:G; [|reflexivity].
  pose proof (flat_heap _ H) as F. eapply Forall_nth_error in G; [|exact F]. destruct c; simpl in G; tauto.
Qed.

Lemma set_heap_same_flat d : flat_d d -> flat_d (set_heap d (d_heap d)).
Proof. intros (A & B & C & D & E). repeat split; assumption. Qed.

(* ---------- list lengths ---------- *)
Lemma zlen_remove_nth {A} n (l : list A) x : nth_error l n = Some x -> zlen (remove_nth n l) = zlen l - 1.
Proof.
  revert n; induction l as [|a l IH]; intros [|n] E; cbn [remove_nth nth_error] in *; try discriminate E.
  - rewrite zlen_cons'. lia.
  - rewrite !zlen_cons'. rewrite (IH n E). lia.
Qed.
Lemma zlen_set_nth' {A} n (l : list A) v : zlen (set_nth n l v) = zlen l.
Proof. unfold zlen. rewrite set_nth_length. reflexivity. Qed.
Lemma zlen_firstn_eq {A} n (l : list A) : (n <= length l)%nat -> zlen (firstn n l) = Z.of_nat n.
Proof. intros. unfold zlen. rewrite firstn_length. lia. Qed.
Lemma zlen_skipn_eq {A} n (l : list A) : zlen (skipn n l) = zlen l - Z.of_nat (Nat.min n (length l)).
Proof. unfold zlen. rewrite skipn_length. lia. Qed.
Lemma roll_len n es es' : roll n es = Some es' -> zlen es' = zlen es /\ (Forall prim es -> Forall prim es').
Proof.
  unfold roll. destruct (nth_error es n) eqn:E; [|discriminate]. intros X; inv X. split.
  - rewrite zlen_cons', (zlen_remove_nth _ _ _ E). lia.
  - intros H. constructor; [eapply Forall_nth_error; eauto|apply Forall_remove_nth; assumption].
Qed.
Lemma reverse_top_len n es es' : reverse_top n es = Some es' -> zlen es' = zlen es /\ (Forall prim es -> Forall prim es').
Proof.
  unfold reverse_top. case_if; [discriminate|]. intros X; inv X. split.
  - rewrite zlen_app, zlen_rev. unfold zlen. rewrite firstn_length, skipn_length. lia.
  - intros H. apply Forall_app; split; [apply Forall_rev, Forall_firstn|apply Forall_skipn]; assumption.
Qed.

Lemma zlen_insert_at n (it : item) es : zlen (insert_at n it es) = zlen es + 1.
Proof. unfold insert_at. rewrite zlen_app, zlen_cons'. unfold zlen. rewrite firstn_length, skipn_length. lia. Qed.
Lemma insert_at_prim n it es : Forall prim es -> prim it -> Forall prim (insert_at n it es).
Proof.
  intros. unfold insert_at. apply Forall_app; split; [apply Forall_firstn; assumption|].
  constructor; [assumption|apply Forall_skipn; assumption].
Qed.
Lemma zlen_firstn_Z {A} n (l : list A) : 0 <= n <= zlen l -> zlen (firstn (Z.to_nat n) l) = n.
Proof. intros. unfold zlen in *. rewrite firstn_length. lia. Qed.
Lemma zlen_skipn_Z {A} n (l : list A) : 0 <= n <= zlen l -> zlen (skipn (Z.to_nat n) l) = zlen l - n.
Proof. intros. unfold zlen in *. rewrite skipn_length. lia. Qed.

(* ---------- the postcondition ---------- *)
Definition res_flat (x0 : Z) (r : option dres) : Prop :=
  match r with
  | Some (DOk d) => flat_d d /\ excess d = x0
  | Some (DThrow e d) => prim e /\ flat_d d /\ excess d = x0
  | _ => True
  end.

Ltac fk :=
  lazymatch goal with
  | |- _ /\ _ => split; fk
  | |- prim (if _ then _ else _) => case_if; fk
  | |- prim _ => first [assumption | reflexivity | idtac]
  | |- Forall prim (_ :: _) => constructor; fk
  | |- Forall prim [] => constructor
  | |- Forall prim (_ ++ _) => apply Forall_app'; fk
  | |- Forall prim (firstn _ _) => apply Forall_firstn; fk
  | |- Forall prim (skipn _ _) => apply Forall_skipn; fk
  | |- Forall prim (rev _) => apply Forall_rev'; fk
  | |- Forall prim (remove_nth _ _) => apply Forall_remove_nth; fk
  | |- Forall prim (set_nth _ _ _) => apply Forall_set_nth; fk
  | |- Forall prim (repeat _ _) => apply Forall_repeat; fk
  | |- Forall prim (insert_at _ _ _) => apply insert_at_prim; fk
  | |- Forall prim (d_es _) => apply flat_es; fk
  | |- Forall prim _ => try assumption
  | |- flat_d _ => try assumption
  | |- _ => idtac
  end.

(* bring what a primitive gives into the context; a compound operand contradicts flatness *)
Ltac learnf :=
  repeat match goal with
  | H : prim (IArr _) |- _ => discriminate H
  | H : prim (IStruct _) |- _ => discriminate H
  | H : prim (IMap _) |- _ => discriminate H
  | H : flat_d ?d, E : pop ?d = Some (_, _) |- _ => destruct (pop_flat _ _ _ H E) as (? & ? & ? & ?); clear E
  | H : flat_d ?d, E : pop_noref ?d = Some (_, _) |- _ => destruct (pop_noref_flat _ _ _ H E) as (? & ? & ? & ?); clear E
  | H : flat_d ?d, E : pop_int ?d = Some (_, _) |- _ => destruct (pop_int_flat _ _ _ H E) as (? & ? & ?); clear E
  | H : flat_d ?d, E : pop_i32 ?d = Some (_, _) |- _ => destruct (pop_i32_flat _ _ _ H E) as (? & ? & ?); clear E
  | H : flat_d ?d, E : pop_bool ?d = Some (_, _) |- _ => destruct (pop_bool_flat _ _ _ H E) as (? & ? & ?); clear E
  | H : flat_d ?d, E : pop_bytes ?d = Some (_, _) |- _ => destruct (pop_bytes_flat _ _ _ H E) as (? & ? & ?); clear E
  | H : flat_d ?d, E : push_int _ ?d = Some _ |- _ => destruct (push_int_flat _ _ _ H E) as (? & ?); clear E
  | H : flat_d ?d, E : get_seq (d_heap ?d) _ = Some _ |- _ => rewrite (flat_no_seq _ _ H) in E; discriminate E
  | H : flat_d ?d, E : get_map (d_heap ?d) _ = Some _ |- _ => rewrite (flat_no_map _ _ H) in E; discriminate E
  | H : Forall prim ?l, E : nth_error ?l _ = Some ?x |- _ =>
      lazymatch goal with K : prim x |- _ => fail | _ => pose proof (Forall_nth_error _ _ _ _ H E) end
  | H : flat_d ?d, E : d_es ?d = _ :: _ |- _ =>
      let F := fresh "F" in pose proof (flat_es _ H) as F; rewrite E in F;
      apply (f_equal (@zlen item)) in E; rewrite ?zlen_cons' in E
  | F : Forall prim (_ :: _) |- _ => inv F
  | H : flat_d ?d, E : context [set_heap ?d (d_heap ?d)] |- _ =>
      lazymatch goal with K : flat_d (set_heap d (d_heap d)) |- _ => fail | _ => pose proof (set_heap_same_flat d H) end
  | H : flat_d ?d, E : nth_error (d_es ?d) _ = Some ?x |- _ =>
      lazymatch goal with K : prim x |- _ => fail | _ => pose proof (Forall_nth_error _ _ _ _ (flat_es _ H) E) end
  | H : flat_d ?d, E : roll _ (d_es ?d) = Some ?es' |- _ =>
      lazymatch goal with K : Forall prim es' |- _ => fail | _ =>
        let L := fresh "L" in let P := fresh "P" in
        destruct (roll_len _ _ _ E) as [L P]; specialize (P (flat_es _ H)) end
  | H : flat_d ?d, E : reverse_top _ (d_es ?d) = Some ?es' |- _ =>
      lazymatch goal with K : Forall prim es' |- _ => fail | _ =>
        let L := fresh "L" in let P := fresh "P" in
        destruct (reverse_top_len _ _ _ E) as [L P]; specialize (P (flat_es _ H)) end
  | E : seq_loc _ = Some _ |- _ => cbn [seq_loc] in E; discriminate E
  | H : prim ?it, E : clone_if_struct ?h ?it = Some _ |- _ => rewrite (clone_if_struct_prim h it H) in E; inv E
  end.

Ltac openf :=
  match goal with
  | |- res_flat _ (match ?e with Some _ => _ | None => None end) =>
      let E := fresh "E" in destruct e as [?|] eqn:E; [|exact I]
  | |- res_flat _ (let (_, _) := ?p in _) => destruct p
  | |- res_flat _ (if ?b then _ else _) => let E := fresh "C" in destruct b eqn:E
  | |- res_flat _ None => exact I
  | |- res_flat _ (ok _) => unfold ok; cbn [res_flat]
  | |- res_flat _ (okd ?x) => unfold okd
  | |- res_flat _ (Some (DOk _)) => cbn [res_flat]
  | |- res_flat _ (throw_bytes _ _) => unfold throw_bytes; cbn [res_flat]
  | |- res_flat _ (Some (DThrow _ _)) => cbn [res_flat]
  | |- res_flat _ (match ?x with _ => _ end) => is_var x; destruct x
  | |- res_flat _ (match ?e with _ => _ end) => let E := fresh "E" in destruct e eqn:E
  end.
Ltac opensf := repeat (openf; learnf).
