(* Several scripts on one VM: the SYSCALL handler that loads script k on top of the executing one, the way the node performs
   contract calls (k odd: vm.LoadScriptWithHash - own id, exactly one result, own stack; k even: vm.LoadScriptWithFlags - the
   entry script's id, all results, stack shared when empty), and the runner for an arbitrary handler. Definitions only. *)
From NG Require Import VM.Model.
Open Scope Z_scope.

Definition sys_load (scripts : list (list Z)) : syshandler := fun op p s =>
  match op with
  | SYSCALL =>
      let k := from_le p in
      if (k <? 1) || (zlen scripts <? k) then None
      else match nth_error scripts (Z.to_nat (k - 1)) with
           | Some prog =>
               if MaxInvocationStackSize <=? depth s then None
               else if Z.odd k then Some (load_script s prog (Z.to_N (k + 1)) 1)
               else Some (load_script s prog 1%N (-1))
           | None => None
           end
  | _ => None
  end.

Fixpoint run_with (sys : syshandler) (fuel : nat) (s : state) : result :=
  match fuel with
  | O => Running s
  | S f => match step_with sys s with Running s' => run_with sys f s' | r => r end
  end.
