(* Several scripts on one VM: the SYSCALL handler that pushes a new context through each of the VM's entry points, the way
   the node performs contract calls, and the runner for an arbitrary handler.  Definitions only.

   SYSCALL id (4 bytes LE):  k = id mod 256          script number (1-based), ignored by mode 6
                             mode = (id / 256) mod 16
                             na = (id / 4096) mod 16  number of arguments moved (mode 5)
                             off = id / 65536         offset (modes 4 and 6)
     mode 0  k odd: vm.LoadScriptWithHash (own id, exactly one result, own stack); k even: vm.LoadScriptWithFlags
     mode 1  vm.LoadScript            2  vm.LoadDynamicScript (used only with callees that return exactly one value)
     mode 3  vm.LoadNEFMethod without _initialize        7  the same with the callbacks natives pass (no effect here)
     mode 4  vm.LoadNEFMethod with _initialize at [off]: the method's context, then Call(off) on top of it
     mode 5  the contract call: na arguments are popped from the caller's stack, LoadNEFMethod, the arguments are pushed
             onto the callee's stack in the same order
     mode 6  vm.Call(off): another context of the executing script
   Every one of them checks the invocation stack size BEFORE pushing ([load_checked], [call]). *)
From NG Require Import VM.Model.
Open Scope Z_scope.

Definition load_checked (s : state) (prog : list Z) (sid : N) (rv : Z) : option state :=
  if MaxInvocationStackSize <=? depth s then None else Some (load_script s prog sid rv).

(* top first *)
Fixpoint pop_n (n : nat) (d : dstate) : option (list item * dstate) :=
  match n with
  | O => Some ([], d)
  | S n' => do (it, d1) <- pop d; do (its, d2) <- pop_n n' d1; Some (it :: its, d2)
  end.
Definition push_all (its : list item) (d : dstate) : dstate := fold_right push d its.

Definition load_mode (check : bool) (scripts : list (list Z)) (id : Z) (s : state) : option state :=
  let k := id mod 256 in
  let mode := (id / 256) mod 16 in
  let na := (id / 4096) mod 16 in
  let off := id / 65536 in
  let load s prog sid rv := if check then load_checked s prog sid rv else Some (load_script s prog sid rv) in
  if mode =? 6 then call s off
  else if (k <? 1) || (zlen scripts <? k) then None
  else match nth_error scripts (Z.to_nat (k - 1)) with
       | None => None
       | Some prog =>
           let sid := Z.to_N (k + 1) in
           if mode =? 0 then (if Z.odd k then load s prog sid 1 else load s prog 1%N (-1))
           else if (mode =? 1) || (mode =? 2) then load s prog 1%N (-1)
           else if (mode =? 3) || (mode =? 7) then load s prog sid 1
           else if mode =? 4 then (do s1 <- load s prog sid 1; call s1 off)
           else if mode =? 5 then
             (do (its, d) <- pop_n (Z.to_nat na) (view s);
              do s1 <- load (unview s d) prog sid 1;
              Some (unview s1 (push_all its (view s1))))
           else None
       end.

Definition sys_load (scripts : list (list Z)) : syshandler := fun op p s =>
  match op with SYSCALL => load_mode true scripts (from_le p) s | _ => None end.

(* the same handler with loaders that do not check the invocation stack size (for the refutation) *)
Definition sys_load_unchecked (scripts : list (list Z)) : syshandler := fun op p s =>
  match op with SYSCALL => load_mode false scripts (from_le p) s | _ => None end.

Fixpoint run_with (sys : syshandler) (fuel : nat) (s : state) : result :=
  match fuel with
  | O => Running s
  | S f => match step_with sys s with Running s' => run_with sys f s' | r => r end
  end.
